/- line-protocol driver for the feed-forward layer model (C12) -/
import Flax.Base.Proto
import Flax.Model.Layers

namespace Flax.Driver.C12
open Lean Flax.Proto Flax.Layers

def fld (j : Json) (k : String) : Except String Json :=
  (j.getObjVal? k).mapError (fun _ => "bad-args")

def optFld (j : Json) (k : String) : Option Json :=
  match j.getObjVal? k with
  | .ok .null => none
  | .ok v => some v
  | .error _ => none

def asNats (j : Json) : Except String (List Nat) := asList asNat j
def asInts (j : Json) : Except String (List Int) := asList asInt j

def tensorOfJson (j : Json) : Except String (Tensor Int) := do
  let s ← asNats (← fld j "s")
  let d ← asInts (← fld j "d")
  if d.length ≠ prod s then throw "bad-tensor"
  .ok ⟨s, d.toArray⟩

def optTensor (j : Json) (k : String) : Except String (Option (Tensor Int)) :=
  match optFld j k with
  | none => .ok none
  | some v => do .ok (some (← tensorOfJson v))

def intJ (i : Int) : Json := Json.num (JsonNumber.fromInt i)
def natJ (n : Nat) : Json := Json.num (JsonNumber.fromNat n)
def natsJ (ns : List Nat) : Json := .arr (ns.map natJ).toArray

def tensorToJson (t : Tensor Int) : Json :=
  Json.mkObj [("s", natsJ t.shape), ("d", .arr (t.data.toList.map intJ).toArray)]

def ratJ (r : Rat) : Json := .arr #[intJ r.num, natJ r.den]

def pairsOfJson (j : Json) : Except String (List (Int × Int)) :=
  asList (fun p => do .ok ((← asInt (← argAt p 0)), (← asInt (← argAt p 1)))) j

def natPairsOfJson (j : Json) : Except String (List (Nat × Nat)) :=
  asList (fun p => do .ok ((← asNat (← argAt p 0)), (← asNat (← argAt p 1)))) j

def padSpecOfJson (j : Json) : Except String PadSpec :=
  match j with
  | .str s => .ok (.named s)
  | .num _ => do .ok (.int (← asInt j))
  | .arr xs => do
      let items ← xs.toList.mapM (fun it => match it with
        | .num _ => do pure (PadItem.one (← asInt it))
        | .arr _ => do pure (PadItem.pair (← asInt (← argAt it 0)) (← asInt (← argAt it 1)))
        | _ => .error "bad-args")
      .ok (.items items)
  | _ => .error "bad-args"

def bcastOfJson (j : Json) : Except String Bcast :=
  match j with
  | .null => .ok .none
  | .num _ => do .ok (.int (← asNat j))
  | .arr _ => do .ok (.seq (← asNats j))
  | _ => .error "bad-args"

def bcastFld (a : Json) (k : String) (rank : Nat) : Except String (List Nat) :=
  match a.getObjVal? k with
  | .ok v => do
      let r := maybeBroadcast (← bcastOfJson v) rank
      if r.length ≠ rank then throw "bad-args"
      .ok r
  | .error _ => .ok (List.replicate rank 1)


def poolPadOfJson (j : Json) : Except String PoolPad :=
  match j with
  | .str "SAME" => .ok .same
  | .str "VALID" => .ok .valid
  | .arr _ => do .ok (.explicit (← natPairsOfJson j))
  | _ => .error "bad-args"

def outT (r : Except String (Tensor Int)) : Except String Json := do .ok (tensorToJson (← r))

def padModeOfJson (j : Json) : Except String PadMode :=
  match j with
  | .str "zeros" => .ok .zeros
  | .str "wrap" => .ok .wrap
  | .str "reflect" => .ok .reflect
  | _ => .error "bad-args"

def optNatJ (o : Option Nat) : Json := match o with | some n => natJ n | none => .null

def statsJ (s : Option Stats) : Json :=
  match s with
  | none => .null
  | some s => .arr #[ratJ s.mean, ratJ s.var]

def piecesJ (ps : List NormPiece) : Json :=
  .arr (ps.map (fun p => Json.arr #[statsJ p.stats, intJ p.scale, intJ p.bias])).toArray

def optRatJ (r : Option Rat) : Json := match r with | some q => ratJ q | none => .null

def ratOfJson (j : Json) : Except String Rat := do
  let n ← asInt (← argAt j 0)
  let d ← asNat (← argAt j 1)
  if d = 0 then throw "bad-args"
  .ok ((n : Rat) / (d : Rat))

def handle : Handler := fun fn a =>
  match fn with
  | "conv" => do
      let ks ← asNats (← fld a "kernel_size")
      let r := ks.length
      let cfg : ConvCfg := {
        kernelSize := ks, strides := ← bcastFld a "strides" r,
        padding := ← canonicalizePadding (← padSpecOfJson (← fld a "padding")) r,
        inputDil := ← bcastFld a "input_dilation" r,
        kernelDil := ← bcastFld a "kernel_dilation" r, groups := ← asNat (← fld a "groups") }
      let x ← tensorOfJson (← fld a "x")
      let k ← tensorOfJson (← fld a "k")
      let bias ← optTensor a "bias"
      let mask ← optTensor a "mask"
      let loc ← asBool (← fld a "local")
      outT (if loc then convLocalLayer cfg x k bias mask else convLayer cfg x k bias mask)
  | "canon_padding" => do
      match canonicalizePadding (← padSpecOfJson (← fld a "padding")) (← asNat (← fld a "rank")) with
      | .ok (.explicit ps) => .ok (.arr (ps.map (fun p => Json.arr #[intJ p.1, intJ p.2])).toArray)
      | .ok .same => .ok (.str "SAME")
      | .ok .valid => .ok (.str "VALID")
      | .ok .circular => .ok (.str "CIRCULAR")
      | .ok .reflect => .ok (.str "REFLECT")
      | .ok .causal => .ok (.str "CAUSAL")
      | .error e => .error e
  | "conv_transpose" => do
      let ks ← asNats (← fld a "kernel_size")
      let r := ks.length
      let pad ← match ← canonicalizePadding (← padSpecOfJson (← fld a "padding")) r with
        | .same => pure TPadding.same
        | .valid => pure TPadding.valid
        | .circular => pure TPadding.circular
        | .explicit ps => pure (TPadding.explicit ps)
        | _ => throw "BadPadding"
      let cfg : ConvTCfg := {
        kernelSize := ks, strides := ← bcastFld a "strides" r, padding := pad,
        kernelDil := ← bcastFld a "kernel_dilation" r,
        transposeKernel := ← asBool (← fld a "transpose_kernel") }
      outT (convTransposeLayer cfg (← tensorOfJson (← fld a "x")) (← tensorOfJson (← fld a "k"))
        (← optTensor a "bias") (← optTensor a "mask"))
  | "dense_general" => do
      outT (denseGeneral (← asInts (← fld a "axis")) (← asInts (← fld a "batch_dims")) (← asNat (← fld a "nfeat"))
        (← tensorOfJson (← fld a "x")) (← tensorOfJson (← fld a "k")) (← optTensor a "bias"))
  | "dense" => do
      outT (dense (← tensorOfJson (← fld a "x")) (← tensorOfJson (← fld a "k")) (← optTensor a "bias"))
  | "einsum" => do
      outT (einsumLayer (← asNats (← fld a "lhs")) (← asNats (← fld a "rhs")) (← asNats (← fld a "out"))
        (← tensorOfJson (← fld a "x")) (← tensorOfJson (← fld a "k")) (← optTensor a "bias"))
  | "einsum_bias_shapes" => do
      let (bs, bc) := einsumBiasShapes (← asNats (← fld a "rhs")) (← asNats (← fld a "out")) (← asNats (← fld a "kshape"))
      .ok (.arr #[natsJ bs, natsJ bc])
  | "embed" => do
      let t ← tensorOfJson (← fld a "table")
      let idx ← asInts (← fld a "idx")
      .ok (.arr ((embedLookup t idx).map (fun o => match o with | some v => intJ v | none => Json.null)).toArray)
  | "attend" => do
      outT (.ok (embedAttend (← tensorOfJson (← fld a "table")) (← tensorOfJson (← fld a "query"))))
  | "avg_pool" => do
      let x ← tensorOfJson (← fld a "x")
      let (shape, parts) ← avgPoolParts x (← asNats (← fld a "window")) (← asNats (← fld a "strides"))
        (← poolPadOfJson (← fld a "padding")) (← asBool (← fld a "count_include_pad"))
      .ok (Json.mkObj [("s", natsJ shape),
        ("d", .arr (parts.map (fun p => Json.arr #[intJ p.1, natJ p.2])).toArray)])
  | "ext_pool" => do
      let x ← tensorOfJson (← fld a "x")
      let (shape, vals) ← extremePool (← asBool (← fld a "is_max")) x (← asNats (← fld a "window"))
        (← asNats (← fld a "strides")) (← poolPadOfJson (← fld a "padding"))
      .ok (Json.mkObj [("s", natsJ shape),
        ("d", .arr (vals.map (fun o => match o with | some v => intJ v | none => Json.null)).toArray)])
  | "norm" => do
      let kind ← asStr (← fld a "kind")
      let x ← tensorOfJson (← fld a "x")
      let mask ← optTensor a "mask"
      let scale ← optTensor a "scale"
      let bias ← optTensor a "bias"
      let fast ← asBool (← fld a "fast")
      match kind with
      | "layer" => .ok (piecesJ (layerNormPieces x (← asInts (← fld a "reduction_axes")) (← asInts (← fld a "feature_axes")) true fast mask scale bias))
      | "rms" => .ok (piecesJ (layerNormPieces x (← asInts (← fld a "reduction_axes")) (← asInts (← fld a "feature_axes")) false fast mask scale none))
      | "instance" => do .ok (piecesJ (← instanceNormPieces x (← asInts (← fld a "feature_axes")) fast mask scale bias))
      | "group" => do
          let red ← match optFld a "reduction_axes" with
            | none => pure none
            | some v => do pure (some (← asInts v))
          let rax ← match optFld a "repeat_axis" with
            | none => pure none
            | some v => do pure (some (← asNat v))
          .ok (piecesJ (← groupNormPieces x (← asNat (← fld a "num_groups")) red fast mask scale bias rax))
      | _ => .error "bad-op"
  | "batch_norm" => do
      let x ← tensorOfJson (← fld a "x")
      let st : BNState := ⟨(← asList ratOfJson (← fld a "ra_mean")).map some, (← asList ratOfJson (← fld a "ra_var")).map some⟩
      let (ps, st') := batchNorm x (← asInt (← fld a "axis")) (← asBool (← fld a "use_running_average"))
        (← asBool (← fld a "fast")) (← ratOfJson (← fld a "momentum")) (← optTensor a "mask") (← optTensor a "scale")
        (← optTensor a "bias") st
      .ok (Json.mkObj [("pieces", piecesJ ps), ("mean", .arr (st'.mean.map optRatJ).toArray), ("var", .arr (st'.var.map optRatJ).toArray)])
  | "batch_norm_seq" => do
      -- steps: list of {x, use_running_average, mask}; shared axis/momentum/fast/scale/bias; state threaded
      let steps ← arr (← fld a "steps")
      let axis ← asInt (← fld a "axis")
      let fast ← asBool (← fld a "fast")
      let mom ← ratOfJson (← fld a "momentum")
      let scale ← optTensor a "scale"
      let bias ← optTensor a "bias"
      let st0 : BNState := ⟨(← asList ratOfJson (← fld a "ra_mean")).map some, (← asList ratOfJson (← fld a "ra_var")).map some⟩
      let (_, outs) ← steps.toList.foldlM (fun (acc : BNState × List Json) stp => do
        let x ← tensorOfJson (← fld stp "x")
        let ura ← asBool (← fld stp "use_running_average")
        let mask ← optTensor stp "mask"
        let (ps, st') := batchNorm x axis ura fast mom mask scale bias acc.1
        pure (st', acc.2 ++ [Json.mkObj [("pieces", piecesJ ps), ("mean", .arr (st'.mean.map optRatJ).toArray), ("var", .arr (st'.var.map optRatJ).toArray)]]))
        (st0, [])
      .ok (.arr outs.toArray)
  | "resolve_flag" => do
      let ob (k : String) : Except String (Option Bool) :=
        match optFld a k with
        | none => .ok none
        | some v => do .ok (some (← asBool v))
      let api ← asStr (← fld a "api")
      let cl ← ob "call"
      let attr ← ob "attr"
      let r := if api = "linen" then mergeParam attr cl else resolveFlag cl attr
      match r with
      | .ok b => .ok (.bool b)
      | .error e => .error e
  | "dropout_branch" => do
      let r : DropoutOut := dropoutBranch (← asNat (← fld a "rate_num")) (← asNat (← fld a "rate_den"))
        (← asBool (← fld a "deterministic")) (← asNats (← fld a "shape")) (← asInts (← fld a "broadcast_dims"))
      match r with
      | .identity => .ok (.str "identity")
      | .zeros => .ok (.str "zeros")
      | .masked kn kd ms => .ok (Json.mkObj [("keep", .arr #[natJ kn, natJ kd]), ("mask_shape", natsJ ms)])
  | "dropout_apply" => do
      let vs := dropoutApply (← tensorOfJson (← fld a "x")) (← tensorOfJson (← fld a "mask")) (← asNat (← fld a "keep_num")) (← asNat (← fld a "keep_den"))
      .ok (.arr (vs.map ratJ).toArray)
  -- scalar index functions (exhaustive small-scope correspondence)
  | "pad_src" => do
      let m ← padModeOfJson (← fld a "mode")
      let n ← asNat (← fld a "n")
      let lo ← asNat (← fld a "lo")
      let hi ← asNat (← fld a "hi")
      .ok (.arr ((List.range (lo + n + hi)).map (fun i => optNatJ (padSrc m n lo i))).toArray)
  | "centre_pads" => do
      let p := centrePads (← asNat (← fld a "k")) (← asNat (← fld a "d"))
      .ok (.arr #[natJ p.1, natJ p.2])
  | "causal_pad" => do
      let p := causalPad (← asNat (← fld a "k")) (← asNat (← fld a "d"))
      .ok (.arr #[natJ p.1, natJ p.2])
  | "same_pads" => do
      let p := samePads (← asNat (← fld a "n")) (← asNat (← fld a "w")) (← asNat (← fld a "s"))
      .ok (.arr #[natJ p.1, natJ p.2])
  | "out_len" => do (.ok (natJ (outLen (← asNat (← fld a "m")) (← asNat (← fld a "w")) (← asNat (← fld a "s")))))
  | "normalize_axes" => do
      .ok (natsJ (normalizeAxes (← asNat (← fld a "ndim")) (← asInts (← fld a "axes"))))
  | "canon_axes" => do
      .ok (natsJ (canonAxes (← asNat (← fld a "rank")) (← asInts (← fld a "axes"))))
  | "take_row" => do .ok (optNatJ (takeRow (← asNat (← fld a "n")) (← asInt (← fld a "i"))))
  | "transpose_pads" => do
      let p := transposePads (← asNat (← fld a "kd")) (← asNat (← fld a "s")) (← asBool (← fld a "same"))
      .ok (.arr #[intJ p.1, intJ p.2])
  | _ => .error "bad-op"

end Flax.Driver.C12

def main : IO Unit := Flax.Proto.serve Flax.Driver.C12.handle
