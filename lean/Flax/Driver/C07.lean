/- line-protocol driver for the lifted autodiff model (C07) -/
import Flax.Base.Proto
import Flax.Model.LiftAD

namespace Flax.Driver.C07
open Lean Flax.Proto Flax.Filter Flax.Lift Flax.LiftAD

partial def lfOfJson : Json → Except String LFilter
  | .bool true => .ok .tt
  | .bool false => .ok .ff
  | .str s => .ok (.name s)
  | .arr a => do
      let xs ← a.toList.mapM asStr
      .ok (.names xs)
  | j@(.obj _) => do
      let d ← (j.getObjVal? "deny").mapError (fun _ => "bad-args")
      let f ← lfOfJson d
      .ok (.deny f)
  | _ => .error "bad-args"

partial def exprOfJson (j : Json) : Except String Expr :=
  match j.getObjVal? "lit", j.getObjVal? "reg", j.getObjVal? "arg", j.getObjVal? "attr", j.getObjVal? "add",
        j.getObjVal? "mul" with
  | .ok v, _, _, _, _, _ => do .ok (.lit (← asInt v))
  | _, .ok v, _, _, _, _ => do .ok (.reg (← asNat v))
  | _, _, .ok v, _, _, _ => do .ok (.arg (← asNat v))
  | _, _, _, .ok v, _, _ => do .ok (.attr (← asStr v))
  | _, _, _, _, .ok v, _ => do .ok (.add (← exprOfJson (← argAt v 0)) (← exprOfJson (← argAt v 1)))
  | _, _, _, _, _, .ok v => do .ok (.mul (← exprOfJson (← argAt v 0)) (← exprOfJson (← argAt v 1)))
  | _, _, _, _, _, _ => .error "bad-args"

def instrOfJson (j : Json) : Except String Prog := do
  let op ← asStr (← argAt j 0)
  match op with
  | "get" => .ok (.get (← asStr (← argAt j 1)) (← asStr (← argAt j 2)))
  | "has" => .ok (.has (← asStr (← argAt j 1)) (← asStr (← argAt j 2)))
  | "put" => .ok (.put (← asStr (← argAt j 1)) (← asStr (← argAt j 2)) (← exprOfJson (← argAt j 3)))
  | "decl" => .ok (.decl (← asStr (← argAt j 1)) (← asStr (← argAt j 2)) (← exprOfJson (← argAt j 3)))
  | "rng" => .ok (.rng (← asStr (← argAt j 1)))
  | "rngat" => .ok (.rngAt (← asList asStr (← argAt j 1)) (← asStr (← argAt j 2)))
  | _ => .error "bad-args"

def progOfJson (j : Json) : Except String Prog := do
  let is ← asList instrOfJson j
  .ok (is.foldr (fun i acc => Prog.seq i acc) Prog.skip)

def fnOfJson (j : Json) : Except String Fn := do
  let b ← progOfJson (← (j.getObjVal? "body").mapError (fun _ => "bad-args"))
  let r ← asList exprOfJson (← (j.getObjVal? "ret").mapError (fun _ => "bad-args"))
  .ok ⟨b, r⟩

def pairOfJson (f : Json → Except String α) (j : Json) : Except String (String × α) := do
  .ok (← asStr (← argAt j 0), ← f (← argAt j 1))

def datumOfJson : Json → Except String Datum
  | .str s => .ok (.s s)
  | j => do .ok (.n (← asNat j))

def lazyOfJson (j : Json) : Except String LazyRng := do
  .ok ⟨.seed (← asStr (← argAt j 0)), ← asList datumOfJson (← argAt j 1)⟩

def fld (j : Json) (k : String) : Except String Json := (j.getObjVal? k).mapError (fun _ => "bad-args")

def scopeOfJson (j : Json) : Except String ScopeSt := do
  let vars ← asList (pairOfJson (asList (pairOfJson asInt))) (← fld j "vars")
  let mu ← lfOfJson (← fld j "mutable")
  let rngs ← asList (pairOfJson lazyOfJson) (← fld j "rngs")
  let ctr ← asList (pairOfJson asNat) (← fld j "counters")
  .ok { vars := vars, mutable := mu, frozen := [], rngs := rngs, counters := ctr }

def datumToJson : Datum → Json
  | .n v => Json.num v
  | .s v => Json.str v

def keyToJson : SymKey → Json
  | .seed id => Json.mkObj [("seed", Json.str id)]
  | .fold k d => Json.mkObj [("fold", Json.arr #[keyToJson k, Json.arr (d.map datumToJson).toArray])]

def varsToJson (vs : Vars) : Json :=
  Json.arr (vs.map (fun kv => Json.arr #[Json.str kv.1,
    Json.arr (kv.2.map (fun nv => Json.arr #[Json.str nv.1, Json.num (JsonNumber.fromInt nv.2)])).toArray])).toArray

def errName : Err → String
  | .modifyImmutable => "ModifyImmutable"
  | .notFound => "NotFound"
  | .rngMissing => "RngMissing"
  | .counterMissing => "CounterMissing"
  | .frozenWrite => "FrozenWrite"
  | .unmapped => "Unmapped"
  | .badExpr => "BadExpr"
  | .structMismatch => "StructMismatch"
  | .noBranch => "NoBranch"
  | .diverged => "Diverged"

def outToJson (vals : List Int) (ks : List SymKey) (s : ScopeSt) : Json :=
  Json.mkObj [("vals", Json.arr (vals.map (fun v => Json.num (JsonNumber.fromInt v))).toArray),
    ("keys", Json.arr (ks.map keyToJson).toArray),
    ("vars", varsToJson s.vars),
    ("counters", Json.arr (s.counters.map (fun kv => Json.arr #[Json.str kv.1, Json.num kv.2])).toArray)]

def resToJson (r : Except Err (Out × ScopeSt)) : Json :=
  match r with
  | .error e => Json.mkObj [("error", Json.str (errName e))]
  | .ok (y, s) => outToJson y.vals y.keys s

def attrsOfJson (j : Json) : Except String (List (String × Int)) := asList (pairOfJson asInt) j

def mstOfJson (j : Json) : Except String ModState := do
  .ok { inCompact := ← asBool (← argAt j 0), inSetup := ← asBool (← argAt j 1), setupCalled := ← asBool (← argAt j 2),
        isInitialized := ← asBool (← argAt j 3), autonameCursor := ← asList (pairOfJson asNat) (← argAt j 4) }


def intsToJson (xs : List Int) : Json := Json.arr (xs.map (fun v => Json.num (JsonNumber.fromInt v))).toArray

def shapeToJson (vs : Vars) : Json :=
  Json.arr (vs.map (fun kv => Json.arr #[Json.str kv.1, Json.arr (kv.2.map (fun nv => Json.str nv.1)).toArray])).toArray

def errJson (e : Err) : Json := Json.mkObj [("error", Json.str (errName e))]

/-- the inner scope `pack` builds for the given filters (what the body sees) -/
def innerScope (inF outF rngF : List LFilter) (s : ScopeSt) : ScopeSt :=
  let pe := partialPack inF outF rngF s
  pe.scopeFn pe.varGroups pe.rngGroups .tt s.counters

def handle : Handler := fun fn a =>
  match fn with
  | "plain" => do
      .ok (resToJson (runFn (← attrsOfJson (← argAt a 0)) (← fnOfJson (← argAt a 1)) (← asList asInt (← argAt a 2))
        (← scopeOfJson (← argAt a 3))))
  | "vjp" => do
      -- [vjpF, varF, rngF, hasAux, nY, attrs, fn, args, scope]
      let vjpF ← lfOfJson (← argAt a 0)
      let s ← scopeOfJson (← argAt a 8)
      let hasAux ← asBool (← argAt a 3)
      match liftVjp zeroAD vjpF (← lfOfJson (← argAt a 1)) (← lfOfJson (← argAt a 2)) hasAux
          (← asNat (← argAt a 4)) (← attrsOfJson (← argAt a 5)) (← fnOfJson (← argAt a 6)) (← asList asInt (← argAt a 7)) s with
      | .error e => .ok (errJson e)
      | .ok (r, s') =>
        let g := r.bwd (r.y.map (fun _ => 1))
        .ok (Json.mkObj [("y", intsToJson r.y), ("aux", match r.aux with | some x => intsToJson x | none => Json.null),
          ("vars", varsToJson s'.vars), ("gradkeys", shapeToJson g.1), ("ninputs", Json.num g.2.length)])
  | "vag" => do
      -- [varF, rngF, hasAux, nY, attrs, fn, args, scope]
      match liftValueAndGrad zeroAD (← lfOfJson (← argAt a 0)) (← lfOfJson (← argAt a 1)) (← asBool (← argAt a 2))
          (← asNat (← argAt a 3)) (← attrsOfJson (← argAt a 4)) (← fnOfJson (← argAt a 5)) (← asList asInt (← argAt a 6))
          (← scopeOfJson (← argAt a 7)) with
      | .error e => .ok (errJson e)
      | .ok (r, s') =>
        .ok (Json.mkObj [("y", intsToJson r.y), ("aux", match r.aux with | some x => intsToJson x | none => Json.null),
          ("vars", varsToJson s'.vars), ("ninputs", Json.num r.grads.length)])
  | "jvp" => do
      -- [variable_tangents, varF, rngF, attrs, fn, args, tangents, scope]
      let vt ← asList (pairOfJson (asList (pairOfJson asInt))) (← argAt a 0)
      let s ← scopeOfJson (← argAt a 7)
      match liftJvp zeroAD vt (← lfOfJson (← argAt a 1)) (← lfOfJson (← argAt a 2)) (← attrsOfJson (← argAt a 3))
          (← fnOfJson (← argAt a 4)) (← asList asInt (← argAt a 5)) (← asList asInt (← argAt a 6)) s with
      | .error e => .ok (errJson e)
      | .ok ((y, _), s') =>
        .ok (Json.mkObj [("y", intsToJson y), ("vars", varsToJson s'.vars),
          ("selkeys", shapeToJson (s.vars.filter (fun kv => inFilter (jvpTarget vt) kv.1))),
          ("tankeys", shapeToJson (jvpTangents vt))])
  | "custom" => do
      -- [gradF, attrs, fn, fwdFn, nY, args, scope]
      .ok (resToJson (liftCustomVjp (ρ := List Int) (← lfOfJson (← argAt a 0)) (← attrsOfJson (← argAt a 1))
        (← fnOfJson (← argAt a 2)) (← fnOfJson (← argAt a 3)) (← asNat (← argAt a 4)) id
        (fun _ _ => ([], [])) (← asList asInt (← argAt a 5)) (← scopeOfJson (← argAt a 6))))
  | "jvp_num" => do
      -- formal derivative of the pure apply on the packed scope:
      -- [inF, outF, rngF, attrs, fn, args, targs, scope, tvars]
      let s ← scopeOfJson (← argAt a 7)
      let i := innerScope (← asList lfOfJson (← argAt a 0)) (← asList lfOfJson (← argAt a 1)) (← asList lfOfJson (← argAt a 2)) s
      let tv ← asList (pairOfJson (asList (pairOfJson asInt))) (← argAt a 8)
      match jvpApply (← attrsOfJson (← argAt a 3)) (← fnOfJson (← argAt a 4)) (← asList asInt (← argAt a 5))
          (← asList asInt (← argAt a 6)) i tv with
      | .error e => .ok (errJson e)
      | .ok (vs, tvf) =>
        .ok (Json.mkObj [("vals", intsToJson (vs.map (·.1))), ("tans", intsToJson (vs.map (·.2))), ("tvars", varsToJson tvf)])
  | _ => .error "bad-op"

end Flax.Driver.C07

def main : IO Unit := Flax.Proto.serve Flax.Driver.C07.handle
