/- line-protocol driver for the NNX transform protocol model (C04) -/
import Flax.Base.Proto
import Flax.Model.Heap
import Flax.Model.Graph
import Flax.Model.NnxProtocol

namespace Flax.Driver.C04
open Lean Flax.Proto Flax.Heap Flax.Graph Flax.Nnx

/-! JSON forms (PVal / Obj / Key as in the C03 driver)
  Key    : number | string
  PVal   : null | {"s": str} | {"a": int} | {"r": addr} | {"l": [PVal]} | {"t": [PVal]} | {"d": [[Key, PVal]]}
  Obj    : {"cls": str, "attrs": [[Key, PVal]]} | {"vt": [str], "val": int, "md": [[str, str]]}
  DExpr  : {"c": int} | {"r": reg} | {"add": [e, e]} | {"mul": [e, e]} | {"lt": [e, e]}
  Op     : {"op": "getAttr", "r": reg, "k": Key} | {"op": "readVar", "r": reg} | {"op": "setVar", "r": reg, "e": DExpr}
         | {"op": "setAttr", "r": reg, "k": Key, "src": reg} | {"op": "delAttr", "r": reg, "k": Key}
         | {"op": "newNode", "cls": str} | {"op": "newVar", "vt": [str], "e": DExpr, "md": [[str,str]]}
         | {"op": "litStatic", "s": str} | {"op": "litNone"} | {"op": "data", "e": DExpr}
  Fn     : {"body": [Op], "ret": [reg]}
-/

def keyOfJson : Json → Except String Key
  | .str s => .ok (.str s)
  | j => match j.getInt? with
    | .ok i => .ok (.int i)
    | .error _ => .error "bad-args"

def keyToJson : Key → Json
  | .int i => Json.num (JsonNumber.fromInt i)
  | .str s => .str s

def pairOf (f : Json → Except String α) (g : Json → Except String β) (j : Json) : Except String (α × β) := do
  let a ← f (← argAt j 0)
  let b ← g (← argAt j 1)
  .ok (a, b)

def mdOfJson (j : Json) : Except String Meta := asList (pairOf asStr asStr) j
def mdToJson (m : Meta) : Json := .arr (m.map (fun (k, v) => Json.arr #[.str k, .str v])).toArray
def intToJson (i : Int) : Json := Json.num (JsonNumber.fromInt i)
def get (j : Json) (k : String) : Except String Json := (j.getObjVal? k).mapError (fun _ => "bad-args")

partial def pvOfJson : Json → Except String PVal
  | .null => .ok .none
  | j@(.obj _) =>
    match j.getObjVal? "s", j.getObjVal? "a", j.getObjVal? "r", j.getObjVal? "l", j.getObjVal? "t", j.getObjVal? "d" with
    | .ok s, _, _, _, _, _ => do .ok (.static (← asStr s))
    | _, .ok a, _, _, _, _ => do .ok (.array (← asInt a))
    | _, _, .ok r, _, _, _ => do .ok (.ref (← asNat r))
    | _, _, _, .ok l, _, _ => do .ok (.seq false (← asList pvOfJson l))
    | _, _, _, _, .ok t, _ => do .ok (.seq true (← asList pvOfJson t))
    | _, _, _, _, _, .ok d => do .ok (.dict (← asList (pairOf keyOfJson pvOfJson) d))
    | _, _, _, _, _, _ => .error "bad-args"
  | _ => .error "bad-args"

partial def pvToJson : PVal → Json
  | .none => .null
  | .static s => Json.mkObj [("s", .str s)]
  | .array d => Json.mkObj [("a", intToJson d)]
  | .ref a => Json.mkObj [("r", Json.num a)]
  | .seq false xs => Json.mkObj [("l", .arr (xs.map pvToJson).toArray)]
  | .seq true xs => Json.mkObj [("t", .arr (xs.map pvToJson).toArray)]
  | .dict kvs => Json.mkObj [("d", .arr (kvs.map (fun (k, v) => Json.arr #[keyToJson k, pvToJson v])).toArray)]

def attrsToJson (l : List (Key × PVal)) : Json := .arr (l.map (fun (k, v) => Json.arr #[keyToJson k, pvToJson v])).toArray

def objOfJson (j : Json) : Except String Obj :=
  match j.getObjVal? "cls" with
  | .ok c => do
    let attrs ← asList (pairOf keyOfJson pvOfJson) (← get j "attrs")
    .ok (.node (← asStr c) attrs)
  | .error _ => do
    let vt ← asList asStr (← get j "vt")
    let val ← asInt (← get j "val")
    let md ← mdOfJson (← get j "md")
    .ok (.var vt val md)

def objToJson : Obj → Json
  | .node cls attrs => Json.mkObj [("cls", .str cls), ("attrs", attrsToJson attrs)]
  | .var vt val md => Json.mkObj [("vt", .arr (vt.map Json.str).toArray), ("val", intToJson val), ("md", mdToJson md)]

def heapOfJson (j : Json) : Except String Heap := asList objOfJson j
def heapToJson (h : Heap) : Json := .arr (h.map objToJson).toArray
def valsOfJson (j : Json) : Except String (List PVal) := asList pvOfJson j
def valsToJson (vs : List PVal) : Json := .arr (vs.map pvToJson).toArray

partial def exprOfJson (j : Json) : Except String DExpr :=
  match j.getObjVal? "c", j.getObjVal? "r", j.getObjVal? "add", j.getObjVal? "mul", j.getObjVal? "lt" with
  | .ok c, _, _, _, _ => do .ok (.const (← asInt c))
  | _, .ok r, _, _, _ => do .ok (.reg (← asNat r))
  | _, _, .ok p, _, _ => do .ok (.add (← exprOfJson (← argAt p 0)) (← exprOfJson (← argAt p 1)))
  | _, _, _, .ok p, _ => do .ok (.mul (← exprOfJson (← argAt p 0)) (← exprOfJson (← argAt p 1)))
  | _, _, _, _, .ok p => do .ok (.lt (← exprOfJson (← argAt p 0)) (← exprOfJson (← argAt p 1)))
  | _, _, _, _, _ => .error "bad-args"

def opOfJson (j : Json) : Except String Op := do
  let name ← asStr (← get j "op")
  match name with
  | "getAttr" => .ok (.getAttr (← asNat (← get j "r")) (← keyOfJson (← get j "k")))
  | "readVar" => .ok (.readVar (← asNat (← get j "r")))
  | "setVar" => .ok (.setVar (← asNat (← get j "r")) (← exprOfJson (← get j "e")))
  | "setAttr" => .ok (.setAttr (← asNat (← get j "r")) (← keyOfJson (← get j "k")) (← asNat (← get j "src")))
  | "delAttr" => .ok (.delAttr (← asNat (← get j "r")) (← keyOfJson (← get j "k")))
  | "newNode" => .ok (.newNode (← asStr (← get j "cls")))
  | "newVar" => .ok (.newVar (← asList asStr (← get j "vt")) (← exprOfJson (← get j "e")) (← mdOfJson (← get j "md")))
  | "litStatic" => .ok (.litStatic (← asStr (← get j "s")))
  | "litNone" => .ok .litNone
  | "data" => .ok (.data (← exprOfJson (← get j "e")))
  | _ => .error "bad-args"

def fnOfJson (j : Json) : Except String Fn := do
  .ok { body := ← asList opOfJson (← get j "body"), ret := ← asList asNat (← get j "ret") }

def errName : Nnx.Err → String
  | .graph e => "graph." ++ (reprStr e).replace "Flax.Graph.Err." ""
  | e => (reprStr e).replace "Flax.Nnx.Err." ""

def resToJson (rets : List PVal) (h : Heap) : Json := Json.mkObj [("rets", valsToJson rets), ("heap", heapToJson h)]

def lift (r : Except Nnx.Err (List PVal × Heap)) : Except String Json :=
  match r with
  | .ok (rets, h) => .ok (resToJson rets h)
  | .error e => .error (errName e)

mutual
  partial def odToJson : ODef → Json
    | .array => .str "array"
    | .static s => Json.mkObj [("s", .str s)]
    | .ref ty i => Json.mkObj [("ref", Json.arr #[.str ty, Json.num i])]
    | .var vt i o md => Json.mkObj [("var", Json.arr #[.arr (vt.map Json.str).toArray, Json.num i, optToJson o, mdToJson md])]
    | .node kind idx o attrs =>
      Json.mkObj [("node", Json.arr #[.str (reprStr kind), optToJson idx, optToJson o,
        .arr (attrs.map (fun (k, g) => Json.arr #[keyToJson k, odToJson g])).toArray])]
  partial def optToJson : Option Nat → Json
    | some i => Json.num i
    | Option.none => Json.null
end

/-- the transformed function a history calls repeatedly -/
inductive Spec where
  | jit (f : Fn)
  | remat (f : Fn)
  | cachedPartial (f : Fn) (ncached : Option Nat)
  | switch (fs : List Fn)
  | cond (t f : Fn)
  | fori (f : Fn)
  | whileLoop (c f : Fn)

def specOfJson (j : Json) : Except String Spec := do
  let kind ← asStr (← get j "kind")
  match kind with
  | "jit" => .ok (.jit (← fnOfJson (← get j "fn")))
  | "remat" => .ok (.remat (← fnOfJson (← get j "fn")))
  | "cached_partial" =>
    let nc := match j.getObjVal? "ncached" with | .ok x => (x.getNat?).toOption | .error _ => Option.none
    .ok (.cachedPartial (← fnOfJson (← get j "fn")) nc)
  | "switch" => .ok (.switch (← asList fnOfJson (← get j "fns")))
  | "cond" => .ok (.cond (← fnOfJson (← get j "t")) (← fnOfJson (← get j "f")))
  | "fori" => .ok (.fori (← fnOfJson (← get j "fn")))
  | "while" => .ok (.whileLoop (← fnOfJson (← get j "c")) (← fnOfJson (← get j "fn")))
  | _ => .error "bad-args"

/-- one step of a call history: a call of the transformed function (`i`: switch index / cond predicate (0 = false) /
loop lower bound; `n`: trip count / while budget), or an eager edit of the caller's objects between calls -/
inductive HStep where
  | call (args : List PVal) (i : Int) (n : Nat)
  | edit (f : Fn) (args : List PVal)

def hstepOfJson (j : Json) : Except String HStep :=
  match j.getObjVal? "call" with
  | .ok a => do
    let i := match j.getObjVal? "i" with | .ok x => (x.getInt?).toOption.getD 0 | .error _ => 0
    let n := match j.getObjVal? "n" with | .ok x => (x.getNat?).toOption.getD 0 | .error _ => 0
    .ok (.call (← valsOfJson a) i n)
  | .error _ => do
    let e ← get j "edit"
    .ok (.edit (← fnOfJson (← get e "fn")) (← valsOfJson (← get e "args")))

def clampIdx (i : Int) (len : Nat) : Nat := if i < 0 then 0 else min i.toNat (len - 1)

/-- the call under the transform -/
def callSpec (s : Spec) (c : JitCache) (h : Heap) (args : List PVal) (i : Int) (n : Nat) :
    Except Nnx.Err (List PVal × Heap) × JitCache :=
  match s with
  | .jit f => jitCached f c h args
  | .remat f => (rematCall f h args, c)
  | .cachedPartial f nc => (cachedPartialCall f (nc.getD args.length) h args, c)
  | .switch fs => (switchCall fs i h args, c)
  | .cond t f => (condCall t f (decide (i ≠ 0)) h args, c)
  | .fori f => (foriCall f i n h args, c)
  | .whileLoop cf f => (whileCall cf f n h args, c)

/-- the same call as plain Python -/
def callEager (s : Spec) (h : Heap) (args : List PVal) (i : Int) (n : Nat) : Except Nnx.Err (List PVal × Heap) :=
  match s with
  | .jit f => runFn f h args
  | .remat f => runFn f h args
  | .cachedPartial f _ => runFn f h args
  | .switch fs =>
    match fs[clampIdx i fs.length]? with
    | some f => runFn f h args
    | Option.none => .error .badReg
  | .cond t f => runFn (if i ≠ 0 then t else f) h args
  | .fori f => foriEager f n i h args
  | .whileLoop cf f => whileEager cf f n h args

/-- run a history; every step reports its outcome, the trace counter and the caller's heap afterwards -/
def runHistory (eager : Bool) (s : Spec) : List HStep → Heap → JitCache → List Json
  | [], _, _ => []
  | .call args i n :: rest, h, c =>
    let (r, c') := if eager then (callEager s h args i n, c) else callSpec s c h args i n
    match r with
    | .ok (rets, h') =>
      Json.mkObj [("ok", resToJson rets h'), ("traces", Json.num c'.traces)] :: runHistory eager s rest h' c'
    | .error e =>
      if eager then [Json.mkObj [("err", .str (errName e)), ("traces", Json.num c'.traces), ("abort", .bool true)]]
      else
        Json.mkObj [("err", .str (errName e)), ("traces", Json.num c'.traces), ("heap", heapToJson h)]
          :: runHistory eager s rest h c'
  | .edit g args :: rest, h, c =>
    match runFn g h args with
    | .ok (rets, h') =>
      Json.mkObj [("ok", resToJson rets h'), ("traces", Json.num c.traces)] :: runHistory eager s rest h' c
    | .error e => [Json.mkObj [("err", .str (errName e)), ("traces", Json.num c.traces), ("abort", .bool true)]]

def handle : Handler := fun fn args =>
  match fn with
  | "eager" => do
      lift (runFn (← fnOfJson (← argAt args 2)) (← heapOfJson (← argAt args 0)) (← valsOfJson (← argAt args 1)))
  | "jit" => do
      lift (jitCall (← fnOfJson (← argAt args 2)) (← heapOfJson (← argAt args 0)) (← valsOfJson (← argAt args 1)))
  | "remat" => do
      lift (rematCall (← fnOfJson (← argAt args 2)) (← heapOfJson (← argAt args 0)) (← valsOfJson (← argAt args 1)))
  | "cached_partial" => do
      let a ← valsOfJson (← argAt args 1)
      lift (cachedPartialCall (← fnOfJson (← argAt args 2)) a.length (← heapOfJson (← argAt args 0)) a)
  | "switch" => do
      lift (switchCall (← asList fnOfJson (← argAt args 2)) (← asInt (← argAt args 3)) (← heapOfJson (← argAt args 0))
        (← valsOfJson (← argAt args 1)))
  | "cond" => do
      lift (condCall (← fnOfJson (← argAt args 2)) (← fnOfJson (← argAt args 3)) (← asBool (← argAt args 4))
        (← heapOfJson (← argAt args 0)) (← valsOfJson (← argAt args 1)))
  | "fori" => do
      lift (foriCall (← fnOfJson (← argAt args 2)) (← asInt (← argAt args 3)) (← asNat (← argAt args 4))
        (← heapOfJson (← argAt args 0)) (← valsOfJson (← argAt args 1)))
  | "fori_eager" => do
      lift (foriEager (← fnOfJson (← argAt args 2)) (← asNat (← argAt args 4)) (← asInt (← argAt args 3))
        (← heapOfJson (← argAt args 0)) (← valsOfJson (← argAt args 1)))
  | "while" => do
      lift (whileCall (← fnOfJson (← argAt args 2)) (← fnOfJson (← argAt args 3)) (← asNat (← argAt args 4))
        (← heapOfJson (← argAt args 0)) (← valsOfJson (← argAt args 1)))
  | "while_eager" => do
      lift (whileEager (← fnOfJson (← argAt args 2)) (← fnOfJson (← argAt args 3)) (← asNat (← argAt args 4))
        (← heapOfJson (← argAt args 0)) (← valsOfJson (← argAt args 1)))
  | "history" => do
      let eager ← asBool (← argAt args 0)
      let spec ← specOfJson (← argAt args 1)
      let h ← heapOfJson (← argAt args 2)
      let steps ← asList hstepOfJson (← argAt args 3)
      .ok (.arr (runHistory eager spec steps h { entries := [], traces := 0 }).toArray)
  | "pure" => do
      -- the pure values that cross the transform boundary (diagnostics): graphdefs in / out
      let h ← heapOfJson (← argAt args 0)
      let a ← valsOfJson (← argAt args 1)
      let f ← fnOfJson (← argAt args 2)
      let raw ← asBool (← argAt args 3)
      match step1 raw h a with
      | .error e => .error (errName e)
      | .ok (gds, lss, idx1) =>
        match pureRun raw true f [] gds lss with
        | .error e => .error (errName e)
        | .ok (gdsO, _) =>
          .ok (Json.mkObj [("in", .arr (gds.map (fun g => odToJson (stampWith (fun _ => Option.none) g))).toArray),
            ("out", .arr (gdsO.map odToJson).toArray), ("idx1", .arr (idx1.map (fun (a : Nat) => Json.num a)).toArray)])
  | _ => .error "bad-op"

end Flax.Driver.C04

def main : IO Unit := Flax.Proto.serve Flax.Driver.C04.handle
