/- line-protocol driver for the random-key model (C09) -/
import Flax.Base.Proto
import Flax.Model.Rng

namespace Flax.Driver.C09
open Lean Flax.Proto Flax.Rng

def hexDigit (n : Nat) : Char := if n < 10 then Char.ofNat (48 + n) else Char.ofNat (87 + n)

def hexOf (bs : List UInt8) : String :=
  String.ofList (bs.flatMap (fun b => [hexDigit (b.toNat / 16), hexDigit (b.toNat % 16)]))

def natsJson (xs : List Nat) : Json := .arr (xs.map (fun (n : Nat) => Json.num n)).toArray

def keyToJson : SymKey → Json
  | .seed i => Json.mkObj [("seed", Json.num i)]
  | .foldStatic k pre => Json.mkObj [("fs", .arr #[keyToJson k, .str (hexOf pre)])]
  | .foldIn k n => Json.mkObj [("fi", .arr #[keyToJson k, Json.num n])]
  | .split k shape idx => Json.mkObj [("sp", .arr #[keyToJson k, natsJson shape, natsJson idx])]

def errName : Err → String
  | .invalidRng => "InvalidRng"
  | .keyError => "KeyError"
  | .badHandle => "BadHandle"
  | .batchedKey => "BatchedKey"
  | .noStream => "NoStream"
  | .nonScalarReseed => "NonScalarReseed"

def datumOfJson : Json → Except String Datum
  | .str s => .ok (.str s)
  | j => do .ok (.int (← asNat j))

def seedsOfJson (j : Json) : Except String (List (String × SymKey)) :=
  asList (fun p => do .ok (← asStr (← argAt p 0), SymKey.seed (← asNat (← argAt p 1)))) j

def cfgOfJson (j : Json) : Except String Cfg := do
  let sep ← asBool ((j.getObjVal? "sep").toOption.getD Json.null)
  let fb ← asStr ((j.getObjVal? "fallback").toOption.getD Json.null)
  .ok { sep := sep, fallback := fb }

/-- a statement list `[["draw", s] | ["sub", name, [...]] | ["jit", [...]]]` as a right-nested `Prog` -/
partial def progOfJson (j : Json) : Except String Prog := do
  let stmts ← arr j
  stmts.toList.foldrM (fun s rest => do
    let tag ← asStr (← argAt s 0)
    match tag with
    | "draw" => .ok (Prog.draw (← asStr (← argAt s 1)) rest)
    | "sub" => .ok (Prog.sub (← asStr (← argAt s 1)) (← progOfJson (← argAt s 2)) rest)
    | "jit" => .ok (Prog.jit (← progOfJson (← argAt s 1)) rest)
    | _ => .error "bad-args") Prog.done

def lopOfJson (j : Json) : Except String LOp := do
  let tag ← asStr (← argAt j 0)
  match tag with
  | "push" => .ok (.push (← asNat (← argAt j 1)) (← asStr (← argAt j 2)))
  | "rng" => .ok (.rng (← asNat (← argAt j 1)) (← asStr (← argAt j 2)))
  | "rewound" => .ok (.rewound (← asNat (← argAt j 1)) (← asBool (← argAt j 2)))
  | "fork" => .ok (.fork (← asNat (← argAt j 1)))
  | _ => .error "bad-args"

def loutToJson : LOut → Json
  | .scope sid => Json.mkObj [("sid", Json.num sid)]
  | .key k => Json.mkObj [("key", keyToJson k)]
  | .err e => Json.mkObj [("err", .str (errName e))]

def onlyOfJson : Json → Except String (Option (List String))
  | .null => .ok none
  | j => do .ok (some (← asList asStr j))

def nopOfJson (j : Json) : Except String NOp := do
  let tag ← asStr (← argAt j 0)
  match tag with
  | "call" => .ok (.call (← asStr (← argAt j 1)))
  | "split" => .ok (.split (← onlyOfJson (← argAt j 1)) (← asList asNat (← argAt j 2)) (← asBool (← argAt j 3)))
  | "lanes" => .ok (.lanes (← asList asNat (← argAt j 1)) (← asList asStr (← argAt j 2)))
  | "restore" => .ok (.restore (← asNat (← argAt j 1)))
  | "reseed" => .ok (.reseed (← seedsOfJson (← argAt j 1)))
  | "fork" => .ok (.fork (← onlyOfJson (← argAt j 1)) (← asList asNat (← argAt j 2)))
  | _ => .error "bad-args"

def keyValToJson : KeyVal → Json
  | .scalar k => Json.mkObj [("scalar", keyToJson k)]
  | .batched k shape => Json.mkObj [("batched", .arr #[keyToJson k, natsJson shape])]

def countValToJson : CountVal → Json
  | .scalar c => Json.mkObj [("scalar", Json.num c)]
  | .batched shape c => Json.mkObj [("batched", .arr #[natsJson shape, Json.num c])]

def noutToJson : NOut → Json
  | .key k => Json.mkObj [("key", keyToJson k)]
  | .backup bid => Json.mkObj [("backup", Json.num bid)]
  | .lanes ks => Json.mkObj [("lanes", .arr (ks.map (fun l => Json.arr (l.map keyToJson).toArray)).toArray)]
  | .unit => Json.mkObj [("unit", Json.null)]
  | .forked ss => Json.mkObj [("forked", .arr (ss.map (fun (ns : String × Stream) =>
      Json.arr #[.str ns.1, keyValToJson ns.2.key, countValToJson ns.2.count])).toArray)]
  | .err e => Json.mkObj [("err", .str (errName e))]

def handle : Handler := fun fn args =>
  match fn with
  | "encode" => do
      let sep ← asBool (← argAt args 0)
      let ds ← asList datumOfJson (← argAt args 1)
      .ok (.str (hexOf (encodeSuffix sep ds)))
  | "natbytes" => do .ok (.str (hexOf (natBytes (← asNat (← argAt args 0)))))
  | "fold_static" => do
      let sep ← asBool (← argAt args 0)
      let ds ← asList datumOfJson (← argAt args 1)
      .ok (keyToJson (foldInStatic sep (.seed 0) ds))
  | "linen_prog" => do
      let cfg ← cfgOfJson (← argAt args 0)
      let seeds ← seedsOfJson (← argAt args 1)
      let p ← progOfJson (← argAt args 2)
      match runTop cfg seeds p with
      | .ok ks => .ok (Json.mkObj [("keys", .arr (ks.map keyToJson).toArray)])
      | .error e => .ok (Json.mkObj [("err", .str (errName e))])
  | "linen_ops" => do
      let cfg ← cfgOfJson (← argAt args 0)
      let seeds ← seedsOfJson (← argAt args 1)
      let ops ← asList lopOfJson (← argAt args 2)
      .ok (.arr ((lrun cfg (linit seeds) ops).map loutToJson).toArray)
  | "nnx_ops" => do
      let fb ← asStr (← argAt args 0)
      let seeds ← seedsOfJson (← argAt args 1)
      let ops ← asList nopOfJson (← argAt args 2)
      .ok (.arr ((nrun fb (Rngs.mk' seeds) ops).map noutToJson).toArray)
  | "nnx_node" => do
      let objs ← asList (fun o => do
        let id ← asNat (← argAt o 0)
        let tag ← asStr (← argAt o 1)
        let sid ← asNat (← argAt o 2)
        .ok (id, ({ tag := tag, key := .scalar (.seed sid), count := .scalar 0 } : Stream))) (← argAt args 0)
      let places ← asList (fun o => do .ok (← asStr (← argAt o 0), ← asNat (← argAt o 1))) (← argAt args 1)
      let ops ← asList (fun j => do
        let tag ← asStr (← argAt j 0)
        match tag with
        | "call" => .ok (NodeOp.call (← asStr (← argAt j 1)))
        | "reseed" => .ok (NodeOp.reseed (← seedsOfJson (← argAt j 1)))
        | "state" => .ok NodeOp.state
        | _ => .error "bad-args") (← argAt args 2)
      let outs := nodeRun { objs := objs, places := places } ops
      .ok (.arr (outs.map (fun o => match o with
        | .key k => Json.mkObj [("key", keyToJson k)]
        | .unit => Json.mkObj [("unit", Json.null)]
        | .state ss => Json.mkObj [("state", .arr (ss.map (fun (p : Nat × Stream) =>
            Json.arr #[Json.num p.1, keyValToJson p.2.key, countValToJson p.2.count])).toArray)]
        | .err e => Json.mkObj [("err", .str (errName e))])).toArray)
  | "stream_history" => do
      let sid ← asNat (← argAt args 0)
      let ops ← asList (fun j => do
        let tag ← asStr (← argAt j 0)
        match tag with
        | "call" => .ok SOp.call
        | "split" => .ok (SOp.split (← asList asNat (← argAt j 1)))
        | "lanes" => .ok (SOp.lanes (← asNat (← argAt j 1)))
        | "restore" => .ok SOp.restore
        | _ => .error "bad-args") (← argAt args 1)
      let st : SState := { cur := { tag := "s", key := .scalar (.seed sid), count := .scalar 0 }, saved := none }
      match srun st ops with
      | .ok ks => .ok (Json.mkObj [("keys", .arr (ks.map keyToJson).toArray)])
      | .error e => .ok (Json.mkObj [("err", .str (errName e))])
  | "cheap_hit" => do
      -- a scope whose child `probe path` is already bound; a jit-ted body (draws (child path, stream)); what the bound child
      -- reads after the traced call, after a cache hit replayed in place, and after a hit replayed by dict.update
      let body ← asList (fun d => do .ok (← asList asStr (← argAt d 0), ← asStr (← argAt d 1))) (← argAt args 0)
      let pp ← asList asStr (← argAt args 1)
      let ps ← asStr (← argAt args 2)
      let a : CRef := (0, [])
      let r := CHeap.init.ensure a pp
      let h0 := r.1
      let b := r.2
      let hT := h0.runBody a body
      let hH := h0.hitCall a (deltaOf body)
      let hU := h0.hitCallUpdate a (deltaOf body)
      .ok (Json.mkObj [("trace", Json.num (hT.read b ps)), ("hit", Json.num (hH.read b ps)), ("hit_update", Json.num (hU.read b ps)),
        ("alias_kept", .bool (decide (hH.walk a pp = some b))), ("alias_kept_update", .bool (decide (hU.walk a pp = some b)))])
  | "jit_run" => do
      let shared ← asBool (← argAt args 0)
      let ds ← asList asNat (← argAt args 1)
      let calls ← asList (fun c => do .ok (← asNat (← argAt c 0), ← asNat (← argAt c 1), ← asNat (← argAt c 2))) (← argAt args 2)
      .ok (natsJson (jitRun shared (fun fn => ds.getD fn 0) { traced := [], deltas := [] } calls))
  | _ => .error "bad-op"

end Flax.Driver.C09

def main : IO Unit := Flax.Proto.serve Flax.Driver.C09.handle
