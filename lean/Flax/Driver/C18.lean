/- line-protocol driver for the bridge model (C18); array values travel as opaque strings -/
import Flax.Base.Proto
import Flax.Model.Bridge

namespace Flax.Driver.C18
open Lean Flax.Proto Flax.Bridge

abbrev V := String

def fld (j : Json) (k : String) : Except String Json := (j.getObjVal? k).mapError (fun _ => "bad-args")

def errName : Err → String
  | .emptyPath => "emptyPath"
  | .leafOnPath => "leafOnPath"
  | .notMapping => "notMapping"
  | .notRegistered => "notRegistered"
  | .nameTaken => "nameTaken"
  | .typeMismatch => "typeMismatch"
  | .keyError => "keyError"
  | .badBox => "badBox"
  | .module => "module"

def lift {σ : Type} (x : Except Err σ) : Except String σ := x.mapError errName

/-! codecs -/

def vtypeOfJson (j : Json) : Except String VType := do
  let n ← asStr (← fld j "n")
  match j.getObjVal? "u" with
  | .ok u => .ok (.user (← asNat u) n)
  | .error _ => .ok (.made (← asNat (← fld j "m")) n)

def vtypeToJson : VType → Json
  | .user i n => Json.mkObj [("u", Json.num i), ("n", Json.str n)]
  | .made i n => Json.mkObj [("m", Json.num i), ("n", Json.str n)]

def regOfJson (j : Json) : Except String Reg := do
  let cache ← asList (fun e => do pure ((← asStr (← argAt e 0)), (← vtypeOfJson (← argAt e 1)))) (← fld j "cache")
  let next ← asNat (← fld j "next")
  .ok { cache, next }

def regToJson (r : Reg) : Json :=
  Json.mkObj [("cache", .arr (r.cache.map fun e => Json.arr #[Json.str e.1, vtypeToJson e.2]).toArray),
              ("next", Json.num r.next)]

def mvOfJson (j : Json) : Except String MetaVal :=
  match j with
  | .null => .ok .none
  | j =>
    match j.getObjVal? "s", j.getObjVal? "i", j.getObjVal? "names", j.getObjVal? "t0", j.getObjVal? "cls",
          j.getObjVal? "o" with
    | .ok s, _, _, _, _, _ => do .ok (.str (← asStr s))
    | _, .ok i, _, _, _, _ => do .ok (.int (← asInt i))
    | _, _, .ok ns, _, _, _ => do
        .ok (.names (← asList (fun x => match x with | .null => .ok none | x => do pure (some (← asStr x))) ns))
    | _, _, _, .ok _, _, _ => .ok .tuple0
    | _, _, _, _, .ok c, _ => do .ok (.cls (← asStr c))
    | _, _, _, _, _, .ok o => do .ok (.opaque (← asStr o))
    | _, _, _, _, _, _ => .error "bad-args"

def mvToJson : MetaVal → Json
  | .none => .null
  | .str s => Json.mkObj [("s", .str s)]
  | .int i => Json.mkObj [("i", Json.num i)]
  | .names xs => Json.mkObj [("names", .arr (xs.map fun x => match x with | none => Json.null | some s => Json.str s).toArray)]
  | .tuple0 => Json.mkObj [("t0", .bool true)]
  | .cls c => Json.mkObj [("cls", .str c)]
  | .opaque o => Json.mkObj [("o", .str o)]

def metaOfJson (j : Json) : Except String Meta :=
  asList (fun e => do pure ((← asStr (← argAt e 0)), (← mvOfJson (← argAt e 1)))) j

def metaToJson (m : Meta) : Json := .arr (m.map fun e => Json.arr #[Json.str e.1, mvToJson e.2]).toArray

def lboxOfJson (j : Json) : Except String (LBox V) := do
  let k ← asStr (← fld j "k")
  let v ← asStr (← fld j "v")
  match k with
  | "plain" => .ok (.plain v)
  | "part" => do .ok (.partitioned v (← mvOfJson (← fld j "names")) (← mvOfJson (← fld j "mesh")))
  | "logical" => do
      .ok (.logical v (← mvOfJson (← fld j "names")) (← mvOfJson (← fld j "mesh")) (← mvOfJson (← fld j "rules")))
  | "nnxmeta" => do .ok (.nnxMeta (← vtypeOfJson (← fld j "t")) v (← metaOfJson (← fld j "md")))
  | "box" => do .ok (.box (← asStr (← fld j "cls")) v (← metaOfJson (← fld j "fields")))
  | _ => .error "bad-args"

def lboxToJson : LBox V → Json
  | .plain v => Json.mkObj [("k", "plain"), ("v", .str v)]
  | .partitioned v n m => Json.mkObj [("k", "part"), ("v", .str v), ("names", mvToJson n), ("mesh", mvToJson m)]
  | .logical v n m r =>
      Json.mkObj [("k", "logical"), ("v", .str v), ("names", mvToJson n), ("mesh", mvToJson m), ("rules", mvToJson r)]
  | .nnxMeta t v md => Json.mkObj [("k", "nnxmeta"), ("t", vtypeToJson t), ("v", .str v), ("md", metaToJson md)]
  | .box c v f => Json.mkObj [("k", "box"), ("cls", .str c), ("v", .str v), ("fields", metaToJson f)]

def nvarOfJson (j : Json) : Except String (NVar V) := do
  .ok ⟨← vtypeOfJson (← fld j "t"), ← asStr (← fld j "v"), ← metaOfJson (← fld j "md")⟩

def nvarToJson (v : NVar V) : Json :=
  Json.mkObj [("t", vtypeToJson v.vtype), ("v", .str v.value), ("md", metaToJson v.md)]

partial def treeOfJson {β : Type} (leaf : Json → Except String β) (j : Json) : Except String (Tree β) :=
  match j.getObjVal? "leaf" with
  | .ok l => do .ok (.leaf (← leaf l))
  | .error _ => do
      let kvs ← asList (fun e => do pure ((← asStr (← argAt e 0)), (← treeOfJson leaf (← argAt e 1)))) (← fld j "node")
      .ok (.node kvs)

def forestOfJson {β : Type} (leaf : Json → Except String β) (j : Json) : Except String (Forest β) :=
  asList (fun e => do pure ((← asStr (← argAt e 0)), (← treeOfJson leaf (← argAt e 1)))) j

mutual
  partial def treeToJson {β : Type} (leaf : β → Json) : Tree β → Json
    | .leaf b => Json.mkObj [("leaf", leaf b)]
    | .node f => Json.mkObj [("node", forestToJson leaf f)]
  partial def forestToJson {β : Type} (leaf : β → Json) (f : Forest β) : Json :=
    .arr (f.map fun kt => Json.arr #[Json.str kt.1, treeToJson leaf kt.2]).toArray
end

def res {σ : Type} (f : σ → Json) (x : Except Err σ) : Json :=
  match x with
  | .ok v => Json.mkObj [("ok", f v)]
  | .error e => Json.mkObj [("err", .str (errName e))]

def regOpOfJson (j : Json) : Except String RegOp := do
  let op ← asStr (← fld j "op")
  match op with
  | "type_from_name" => do .ok (.typeFromName (← asStr (← fld j "name")) (← asBool (← fld j "allow")))
  | "name_from_type" => do .ok (.nameFromType (← vtypeOfJson (← fld j "type")) (← asBool (← fld j "allow")))
  | "register" => do
      .ok (.register (← asStr (← fld j "name")) (← vtypeOfJson (← fld j "type")) (← asBool (← fld j "overwrite")))
  | _ => .error "bad-args"

/-- one registry call: its observable result and the registry afterwards -/
def regStep (r : Reg) : RegOp → Json × Reg
  | .typeFromName n a =>
    match r.typeFromName n a with
    | .ok (r', t) => (Json.mkObj [("ok", vtypeToJson t)], r')
    | .error e => (Json.mkObj [("err", .str (errName e))], r)
  | .nameFromType t a =>
    match r.nameFromType t a with
    | .ok (r', n) => (Json.mkObj [("ok", .str n)], r')
    | .error e => (Json.mkObj [("err", .str (errName e))], r)
  | .register n t ow =>
    match r.register n t ow with
    | .ok r' => (Json.mkObj [("ok", .null)], r')
    | .error e => (Json.mkObj [("err", .str (errName e))], r)

def mutableOfJson (j : Json) : Except String (String → Bool) :=
  match j with
  | .bool b => .ok (fun _ => b)
  | j => do
      let xs ← asList asStr j
      .ok (fun c => decide (c ∈ xs))

def keysToJson (ks : Keys) : Json :=
  .arr (ks.map fun e => Json.arr #[Json.str e.1, Json.str e.2.stream, Json.num e.2.count]).toArray

def handle : Handler := fun fn args =>
  match fn with
  | "l2n" => do
      let r ← regOfJson (← argAt args 0)
      let vars ← forestOfJson lboxOfJson (← argAt args 1)
      .ok (res (fun p => Json.mkObj [("reg", regToJson p.1), ("attrs", forestToJson nvarToJson p.2)])
        (linenVarsToNnxAttrs r vars))
  | "n2l" => do
      let r ← regOfJson (← argAt args 0)
      let attrs ← forestOfJson nvarOfJson (← argAt args 1)
      .ok (res (forestToJson lboxToJson) (nnxAttrsToLinenVars r attrs))
  | "l2n2l" => do
      let r ← regOfJson (← argAt args 0)
      let vars ← forestOfJson lboxOfJson (← argAt args 1)
      .ok (res (fun (p : Reg × Forest (NVar V) × Forest (LBox V)) =>
          Json.mkObj [("reg", regToJson p.1), ("attrs", forestToJson nvarToJson p.2.1),
                      ("vars", forestToJson lboxToJson p.2.2)])
        (do let (r', a) ← linenVarsToNnxAttrs r vars
            let v ← nnxAttrsToLinenVars r' a
            pure (r', a, v)))
  | "n2l2n" => do
      let r ← regOfJson (← argAt args 0)
      let attrs ← forestOfJson nvarOfJson (← argAt args 1)
      .ok (res (fun (p : Forest (LBox V) × Reg × Forest (NVar V)) =>
          Json.mkObj [("vars", forestToJson lboxToJson p.1), ("reg", regToJson p.2.1),
                      ("attrs", forestToJson nvarToJson p.2.2)])
        (do let v ← nnxAttrsToLinenVars r attrs
            let (r', a) ← linenVarsToNnxAttrs r v
            pure (v, r', a)))
  | "merge" => do
      let a ← forestOfJson nvarOfJson (← argAt args 0)
      let b ← forestOfJson nvarOfJson (← argAt args 1)
      .ok (res (forestToJson nvarToJson) (recursiveMerge a b))
  | "shallow" => do
      let a ← forestOfJson nvarOfJson (← argAt args 0)
      let b ← forestOfJson nvarOfJson (← argAt args 1)
      .ok (Json.mkObj [("ok", forestToJson nvarToJson (shallowMerge a b))])
  | "flatten" => do
      let a ← forestOfJson nvarOfJson (← argAt args 0)
      .ok (.arr ((flattenF a).map fun pb =>
        Json.arr #[.arr (pb.1.map Json.str).toArray, nvarToJson pb.2]).toArray)
  | "absorb" | "absorb_orig" => do
      let r ← regOfJson (← argAt args 0)
      let attrs ← forestOfJson nvarOfJson (← argAt args 1)
      let upd ← forestOfJson lboxOfJson (← argAt args 2)
      let s : ToNNX V := { attrs, reg := r, rngs := ⟨[], 0⟩ }
      .ok (res (fun (s' : ToNNX V) =>
          Json.mkObj [("reg", regToJson s'.reg), ("attrs", forestToJson nvarToJson s'.attrs)])
        (if fn = "absorb" then s.absorb upd else s.absorbOrig upd))
  | "init_attrs" => do
      -- the attribute part of lazy_init: convert and setattr into the existing attributes
      let r ← regOfJson (← argAt args 0)
      let attrs ← forestOfJson nvarOfJson (← argAt args 1)
      let vars ← forestOfJson lboxOfJson (← argAt args 2)
      .ok (res (fun (p : Reg × Forest (NVar V)) =>
          Json.mkObj [("reg", regToJson p.1), ("attrs", forestToJson nvarToJson p.2)])
        (do let (r', a) ← linenVarsToNnxAttrs r vars
            pure (r', setAttrs attrs a)))
  | "to_nnx_var" => do
      let r ← regOfJson (← argAt args 0)
      let col ← asStr (← argAt args 1)
      let x ← lboxOfJson (← argAt args 2)
      .ok (res (fun (p : Reg × NVar V) => Json.mkObj [("reg", regToJson p.1), ("var", nvarToJson p.2)])
        (toNnxVar r col x))
  | "to_linen_var" => do .ok (res lboxToJson (toLinenVar (← nvarOfJson (← argAt args 0))))
  | "to_linen_var_orig" => do .ok (res lboxToJson (toLinenVarOrig (← nvarOfJson (← argAt args 0))))
  | "reg_run" => do
      let r ← regOfJson (← argAt args 0)
      let ops ← asList regOpOfJson (← argAt args 1)
      let (outs, r') := ops.foldl (fun (acc : List Json × Reg) op =>
        let (o, r1) := regStep acc.2 op
        (acc.1 ++ [o], r1)) ([], r)
      .ok (Json.mkObj [("outs", .arr outs.toArray), ("reg", regToJson r')])
  | "encode_state" => do
      let r ← regOfJson (← argAt args 0)
      let isMut ← mutableOfJson (← argAt args 1)
      let st ← forestOfJson nvarOfJson (← argAt args 2)
      .ok (res (fun (p : Reg × Forest (LBox V)) =>
          Json.mkObj [("reg", regToJson p.1), ("vars", forestToJson lboxToJson p.2)])
        (encodeState r isMut st))
  | "encode_state_typed" => do
      -- as encode_state, with the class hierarchy [[type, [classes in its MRO below Variable]], ...]
      let r ← regOfJson (← argAt args 0)
      let isMut ← mutableOfJson (← argAt args 1)
      let st ← forestOfJson nvarOfJson (← argAt args 2)
      let table ← asList (fun e => do
        pure ((← vtypeOfJson (← argAt e 0)), (← asList vtypeOfJson (← argAt e 1)))) (← argAt args 3)
      let h : Hier := ⟨fun t => match table.find? (fun e => e.1 = t) with | some e => e.2 | none => [t]⟩
      .ok (res (fun (p : Reg × Forest (LBox V)) =>
          Json.mkObj [("reg", regToJson p.1), ("vars", forestToJson lboxToJson p.2)])
        (encodeStateTyped h r isMut st))
  | "meta_add_axis" => do
      let md ← metaOfJson (← argAt args 0)
      .ok (metaToJson (nnxMetaAddAxis md (← asInt (← argAt args 1)) (← asStr (← argAt args 2))))
  | "meta_remove_axis" => do
      let md ← metaOfJson (← argAt args 0)
      .ok (res metaToJson (nnxMetaRemoveAxis md (← asInt (← argAt args 1)) (← asStr (← argAt args 2))))
  | "decode_vars" => do
      let r ← regOfJson (← argAt args 0)
      let vars ← forestOfJson lboxOfJson (← argAt args 1)
      .ok (res (fun (p : Reg × Forest (NVar V)) =>
          Json.mkObj [("reg", regToJson p.1), ("state", forestToJson nvarToJson p.2)])
        (decodeVars r vars))
  | "draw" => do
      -- args: streams [[name, count], ...], n draws, rename (bool: the init path's default -> params)
      let streams ← asList (fun e => do pure ((← asStr (← argAt e 0)), (← asNat (← argAt e 1)))) (← argAt args 0)
      let n ← asNat (← argAt args 1)
      let rename ← asBool (← argAt args 2)
      let (outs, _) := (List.range n).foldl (fun (acc : List Json × Rngs) i =>
        let (ks, r') := acc.2.draw
        let ks := if rename && i == 0 then renameDefault ks else ks
        (acc.1 ++ [keysToJson ks], r')) ([], ⟨streams, 0⟩)
      .ok (.arr outs.toArray)
  | _ => .error "bad-op"

end Flax.Driver.C18

def main : IO Unit := Flax.Proto.serve Flax.Driver.C18.handle
