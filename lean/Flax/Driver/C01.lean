/- line-protocol driver for the Scope / ModuleTree model (C01); the handler lives in
`Flax.Model.SProgJson` so that the C02 driver can serve the same model. -/
import Flax.Base.Proto
import Flax.Model.SProgJson

def main : IO Unit := Flax.Proto.serve Flax.SProgJson.handle
