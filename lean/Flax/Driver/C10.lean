/- line-protocol driver for the serialization model (C10) -/
import Flax.Base.Proto
import Flax.Model.Serial
import Flax.Model.SerialHeap

namespace Flax.Driver.C10
open Lean Flax.Proto Flax.Msgpack Flax.Serial

/-! ### hex -/

def hexVal (c : Char) : Option Nat :=
  if '0' ≤ c ∧ c ≤ '9' then some (c.toNat - '0'.toNat)
  else if 'a' ≤ c ∧ c ≤ 'f' then some (c.toNat - 'a'.toNat + 10)
  else if 'A' ≤ c ∧ c ≤ 'F' then some (c.toNat - 'A'.toNat + 10)
  else none

def hexToBytes (s : String) : Except String Bytes :=
  let rec go : List Char → Array Nat → Except String (Array Nat)
    | [], acc => .ok acc
    | [_], _ => .error "bad-args"
    | a :: b :: r, acc =>
      match hexVal a, hexVal b with
      | some x, some y => go r (acc.push (x * 16 + y))
      | _, _ => .error "bad-args"
  (go s.toList #[]).map Array.toList

def hexDigit (n : Nat) : Char :=
  if n < 10 then Char.ofNat (n + '0'.toNat) else Char.ofNat (n - 10 + 'a'.toNat)

def bytesToHex (bs : Bytes) : String :=
  String.ofList (bs.foldr (fun b acc => hexDigit (b / 16 % 16) :: hexDigit (b % 16) :: acc) [])

def asHex (j : Json) : Except String Bytes := do hexToBytes (← asStr j)

def strOfHex (j : Json) : Except String String := do
  match fromUtf8 (← asHex j) with
  | some s => .ok s
  | none => .error "bad-args"

def hexOfStr (s : String) : Json := .str (bytesToHex (utf8 s))

def field (j : Json) (k : String) : Except String Json :=
  (j.getObjVal? k).mapError (fun _ => "bad-args")

def has (j : Json) (k : String) : Bool := (j.getObjVal? k).toOption.isSome

/-! ### leaves -/

def ndOfJson (j : Json) : Except String NdArray := do
  let dtype ← asStr (← field j "dtype")
  let shape ← asList asNat (← field j "shape")
  let data ← asHex (← field j "hex")
  .ok { dtype, shape, data }

def ndToJson (a : NdArray) : Json :=
  Json.mkObj [("dtype", .str a.dtype), ("shape", .arr (a.shape.map (fun (d : Nat) => Json.num d)).toArray),
    ("hex", .str (bytesToHex a.data))]

def bitsOfJson (j : Json) : Except String Nat := do .ok (fromBe (← asHex j))

def bitsToJson (n : Nat) : Json := .str (bytesToHex (be 8 n))

def leafOfJson (j : Json) : Except String Leaf :=
  match j with
  | .null => .ok .none
  | .bool b => .ok (.bool b)
  | j@(.obj _) =>
    if has j "i" then do .ok (.int (← asInt (← field j "i")))
    else if has j "f" then do .ok (.float (← bitsOfJson (← field j "f")))
    else if has j "c" then do
      let c ← field j "c"
      .ok (.complex (← bitsOfJson (← argAt c 0)) (← bitsOfJson (← argAt c 1)))
    else if has j "s" then do .ok (.str (← strOfHex (← field j "s")))
    else if has j "b" then do .ok (.bytes (← asHex (← field j "b")))
    else if has j "nd" then do .ok (.ndarray (← ndOfJson (← field j "nd")))
    else if has j "np" then do
      let a ← field j "np"
      .ok (.npscalar (← asStr (← field a "dtype")) (← asHex (← field a "hex")))
    else .error "bad-args"
  | _ => .error "bad-args"

def leafToJson : Leaf → Json
  | .none => .null
  | .bool b => .bool b
  | .int i => Json.mkObj [("i", Json.num (JsonNumber.fromInt i))]
  | .float bits => Json.mkObj [("f", bitsToJson bits)]
  | .complex re im => Json.mkObj [("c", .arr #[bitsToJson re, bitsToJson im])]
  | .str s => Json.mkObj [("s", hexOfStr s)]
  | .bytes b => Json.mkObj [("b", .str (bytesToHex b))]
  | .ndarray a => Json.mkObj [("nd", ndToJson a)]
  | .npscalar dtype data => Json.mkObj [("np", Json.mkObj [("dtype", .str dtype), ("hex", .str (bytesToHex data))])]

/-! ### trees -/

partial def streeOfJson (j : Json) : Except String STree :=
  if has j "d" then do
    let kvs ← asList (fun p => do
      let k ← strOfHex (← argAt p 0)
      let v ← streeOfJson (← argAt p 1)
      pure (k, v)) (← field j "d")
    .ok (.dict kvs)
  else do .ok (.leaf (← leafOfJson j))

partial def streeToJson : STree → Json
  | .leaf v => leafToJson v
  | .dict kvs => Json.mkObj [("d", .arr (kvs.map (fun (k, v) => Json.arr #[hexOfStr k, streeToJson v])).toArray)]

partial def treeOfJson (j : Json) : Except String Tree :=
  if has j "t" then do
    let t ← asStr (← field j "t")
    let kv : Except String (List (String × Tree)) := do
      asList (fun p => do
        let k ← strOfHex (← argAt p 0)
        let v ← treeOfJson (← argAt p 1)
        pure (k, v)) (← field j "kv")
    let xs : Except String (List Tree) := do asList treeOfJson (← field j "xs")
    match t with
    | "dict" => do .ok (.dict (← kv))
    | "fdict" => do .ok (.fdict (← kv))
    | "list" => do .ok (.list (← xs))
    | "tuple" => do .ok (.tuple (← xs))
    | "named" => do .ok (.named (← asStr (← field j "cls")) (← kv))
    | "struct" => do .ok (.struct (← asStr (← field j "cls")) (← kv) (← asNat (← field j "aux")))
    | _ => .error "bad-args"
  else do .ok (.leaf (← leafOfJson j))

partial def treeToJson : Tree → Json
  | .leaf v => leafToJson v
  | .dict kvs => Json.mkObj [("t", "dict"), ("kv", kvj kvs)]
  | .fdict kvs => Json.mkObj [("t", "fdict"), ("kv", kvj kvs)]
  | .list xs => Json.mkObj [("t", "list"), ("xs", .arr (xs.map treeToJson).toArray)]
  | .tuple xs => Json.mkObj [("t", "tuple"), ("xs", .arr (xs.map treeToJson).toArray)]
  | .named cls fs => Json.mkObj [("t", "named"), ("cls", .str cls), ("kv", kvj fs)]
  | .struct cls fs aux => Json.mkObj [("t", "struct"), ("cls", .str cls), ("kv", kvj fs), ("aux", Json.num aux)]
where
  kvj (kvs : List (String × Tree)) : Json :=
    .arr (kvs.map (fun (k, v) => Json.arr #[hexOfStr k, treeToJson v])).toArray

/-! ### msgpack values -/

partial def mvalOfJson (j : Json) : Except String MVal :=
  match j with
  | .null => .ok .nil
  | .bool b => .ok (.bool b)
  | j@(.obj _) =>
    if has j "i" then do .ok (.int (← asInt (← field j "i")))
    else if has j "f" then do .ok (.f64 (← bitsOfJson (← field j "f")))
    else if has j "s" then do .ok (.str (← asHex (← field j "s")))
    else if has j "b" then do .ok (.bin (← asHex (← field j "b")))
    else if has j "a" then do .ok (.arr (← asList mvalOfJson (← field j "a")))
    else if has j "m" then do
      .ok (.map (← asList (fun p => do pure (← mvalOfJson (← argAt p 0), ← mvalOfJson (← argAt p 1))) (← field j "m")))
    else if has j "x" then do
      let x ← field j "x"
      .ok (.ext (← asNat (← argAt x 0)) (← asHex (← argAt x 1)))
    else .error "bad-args"
  | _ => .error "bad-args"

partial def mvalToJson : MVal → Json
  | .nil => .null
  | .bool b => .bool b
  | .int i => Json.mkObj [("i", Json.num (JsonNumber.fromInt i))]
  | .f64 bits => Json.mkObj [("f", bitsToJson bits)]
  | .str s => Json.mkObj [("s", .str (bytesToHex s))]
  | .bin b => Json.mkObj [("b", .str (bytesToHex b))]
  | .arr xs => Json.mkObj [("a", .arr (xs.map mvalToJson).toArray)]
  | .map kvs => Json.mkObj [("m", .arr (kvs.map (fun (k, v) => Json.arr #[mvalToJson k, mvalToJson v])).toArray)]
  | .ext code data => Json.mkObj [("x", .arr #[Json.num code, .str (bytesToHex data)])]

/-! ### errors, item sizes -/

def pathStr (p : Path) : String := "/".intercalate p

def errStr : Err → String
  | .sizeMismatch p => "ValueError|size|" ++ pathStr p
  | .missingKeys p => "ValueError|keys|" ++ pathStr p
  | .fieldNames p => "ValueError|fields|" ++ pathStr p
  | .missingField p n => "ValueError|missing:" ++ n ++ "|" ++ pathStr p
  | .unknownFields p => "ValueError|unknown|" ++ pathStr p
  | .keyError => "KeyError"
  | .notMapping => "NotMapping"
  | .legacy => "Legacy"
  | .badChunk => "BadChunk"
  | .badBytes => "BadBytes"

def liftE (r : Except Err α) : Except String α :=
  match r with
  | .ok v => .ok v
  | .error e => .error (errStr e)

/-- `{"float32": 4, …}` as a function; a dtype that is not listed gets item size 0 and is refused by
`checkDtypes` before the model is run -/
def iszOfJson (j : Json) : Except String (List (String × Nat)) :=
  match j with
  | .obj kvs => kvs.toList.mapM (fun (k, v) => do pure (k, ← asNat v))
  | _ => .error "bad-args"

def iszFn (tbl : List (String × Nat)) (name : String) : Nat := (Serial.lookup name tbl).getD 0

partial def dtypesOf : STree → List String
  | .leaf (.ndarray a) => [a.dtype]
  | .leaf _ => []
  | .dict kvs => (kvs.map (fun kv => dtypesOf kv.2)).flatten

def checkDtypes (tbl : List (String × Nat)) (s : STree) : Except String Unit :=
  if (dtypesOf s).all (fun d => iszFn tbl d ≥ 1) then .ok () else .error "bad-args"

def handle : Handler := fun fn args =>
  match fn with
  | "to_state_dict" => do .ok (streeToJson (toStateDict (← treeOfJson (← argAt args 0))))
  | "from_state_dict" => do
      let t ← treeOfJson (← argAt args 0)
      let s ← streeOfJson (← argAt args 1)
      .ok (treeToJson (← liftE (fromStateDict t s)))
  | "from_state_dict_orig" => do
      let t ← treeOfJson (← argAt args 0)
      let s ← streeOfJson (← argAt args 1)
      .ok (treeToJson (← liftE (fromStateDictOrig t s)))
  | "chunk" => do
      let T ← asNat (← argAt args 0)
      let tbl ← iszOfJson (← argAt args 1)
      let s ← streeOfJson (← argAt args 2)
      checkDtypes tbl s
      .ok (streeToJson (chunkLeaves T (iszFn tbl) s))
  | "unchunk" => do .ok (streeToJson (← liftE (unchunkLeaves (← streeOfJson (← argAt args 0)))))
  | "serialize" => do
      let T ← asNat (← argAt args 0)
      let tbl ← iszOfJson (← argAt args 1)
      let s ← streeOfJson (← argAt args 2)
      checkDtypes tbl s
      .ok (.str (bytesToHex (msgpackSerialize T (iszFn tbl) s)))
  | "restore" => do .ok (streeToJson (← liftE (msgpackRestore (← asHex (← argAt args 0)))))
  | "to_bytes" => do
      let T ← asNat (← argAt args 0)
      let tbl ← iszOfJson (← argAt args 1)
      let t ← treeOfJson (← argAt args 2)
      checkDtypes tbl (toStateDict t)
      .ok (.str (bytesToHex (toBytes T (iszFn tbl) t)))
  | "from_bytes" => do
      let t ← treeOfJson (← argAt args 0)
      let bs ← asHex (← argAt args 1)
      .ok (treeToJson (← liftE (fromBytes t bs)))
  | "inplace_writes" => do
      -- msgpack_serialize(state, in_place=True) on a state dict allocated in an empty heap
      -- (post-order addresses): which dict objects does the chunking pass write to
      let T ← asNat (← argAt args 0)
      let tbl ← iszOfJson (← argAt args 1)
      let s ← streeOfJson (← argAt args 2)
      checkDtypes tbl s
      let r := SerialHeap.allocSTree [] s
      let o := SerialHeap.passes (fun _ => false) id T (iszFn tbl) (r.1.length + 1) r.1 r.2
      .ok (Json.mkObj [("dicts", Json.num r.1.length),
        ("writes", .arr (o.writes.map (fun (a : Nat) => Json.num a)).toArray)])
  | "pack" => do .ok (.str (bytesToHex (pack (← mvalOfJson (← argAt args 0)))))
  | "unpack" => do
      match unpack (← asHex (← argAt args 0)) with
      | some v => .ok (mvalToJson v)
      | none => .error "BadBytes"
  | _ => .error "bad-op"

end Flax.Driver.C10

def main : IO Unit := Flax.Proto.serve Flax.Driver.C10.handle
