/- line-protocol driver for the Scope / ModuleTree model (C02): same handler as the C01 driver
(`Flax.Model.SProgJson.handle`), linked separately so that each check builds only its own target. -/
import Flax.Base.Proto
import Flax.Model.SProgJson

def main : IO Unit := Flax.Proto.serve Flax.SProgJson.handle
