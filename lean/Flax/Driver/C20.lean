/- line-protocol driver for the host-data and prefetch models (C20) -/
import Flax.Base.Proto
import Flax.Model.Prefetch
import Flax.Model.HostData

namespace Flax.Driver.C20
open Lean Flax.Proto Flax.Prefetch Flax.HostData

def endingOfJson : Json → Except String (Ending Int)
  | .str "stop" => .ok .stop
  | j@(.obj _) => do
      let e ← (j.getObjVal? "raises").mapError (fun _ => "bad-args")
      .ok (.raises (← asInt e))
  | _ => .error "bad-args"

def obsToJson : Obs Int Int → Json
  | .item a => Json.mkObj [("item", Json.num a)]
  | .stop => .str "stop"
  | .exc e => Json.mkObj [("exc", Json.num e)]

def labelOfString : String → Except String Label
  | "ctor" => .ok .ctor
  | "fetch" => .ok .fetch
  | "put" => .ok .put
  | "wake" => .ok .wake
  | "fail" => .ok .fail
  | "next" => .ok .next
  | "close" => .ok .close
  | _ => .error "bad-args"

def labelToString : Label → String
  | .ctor => "ctor"
  | .fetch => "fetch"
  | .put => "put"
  | .wake => "wake"
  | .fail => "fail"
  | .next => "next"
  | .close => "close"

def variantOfJson (j : Json) : Except String Variant := do
  match ← asStr j with
  | "orig" => .ok .orig
  | "fixed" => .ok .fixed
  | _ => .error "bad-args"

def labelsJson (ls : List Label) : Json := .arr (ls.map (fun l => Json.str (labelToString l))).toArray

/-- runs a schedule, recording the enabled set before every step and at the end -/
def trace (v : Variant) (bs : Nat) (ending : Ending Int) :
    List Label → St Int Int → Nat → List Json → (St Int Int × List Json × Option Nat)
  | [], s, _, acc => (s, (labelsJson (enabled v bs ending s) :: acc).reverse, none)
  | l :: ls, s, i, acc =>
    let acc' := labelsJson (enabled v bs ending s) :: acc
    match step v bs ending l s with
    | none => (s, acc'.reverse, some i)
    | some s' => trace v bs ending ls s' (i + 1) acc'

/-- all maximal `close`-free schedules from `s` up to the first terminal observation (depth-first);
`fuel` bounds the depth (the termination measure of the model is at most `4·n + 6`). -/
partial def schedules (v : Variant) (bs : Nat) (ending : Ending Int) (s : St Int Int) (pre : List Label)
    (limit : Nat) (acc : Array (List Label)) : Array (List Label) :=
  if acc.size ≥ limit then acc
  else if s.out.any (fun o => match o with | .item _ => false | _ => true) then acc.push pre.reverse
  else
    let en := (enabled v bs ending s).filter (fun l => l != Label.close)
    if en.isEmpty then acc.push pre.reverse
    else en.foldl (fun acc l =>
      match step v bs ending l s with
      | some s' => schedules v bs ending s' (l :: pre) limit acc
      | none => acc) acc

def arrOfJson (j : Json) : Except String (Arr Int) := do
  let shape ← asList asNat (← argAt j 0)
  let data ← asList asInt (← argAt j 1)
  .ok (Arr.ofFlat shape data.toArray)

def intsJson (xs : List Int) : Json := .arr (xs.map (fun (v : Int) => Json.num v)).toArray
def natsJson (xs : List Nat) : Json := .arr (xs.map (fun (v : Nat) => Json.num v)).toArray

def arrToJson (x : Arr Int) : Json := .arr #[natsJson x.shape, intsJson x.toFlat]
def intssJson (xs : List (List Int)) : Json := .arr (xs.map intsJson).toArray

def sumArr (x : Arr Int) : Int := (x.toFlat).foldl (· + ·) 0

/-- `Σ_a (a+1) · idx[a]` -/
def idxWeight (idx : List Nat) : Int :=
  idx.zipIdx.foldl (fun acc (p : Nat × Nat) => acc + (Int.ofNat (p.2 + 1)) * Int.ofNat p.1) 0

/-- the bodies used by the scan_in_dim correspondence (mirrored in harness/props/c20.py) -/
def scanBody (kind : Nat) : Int → Arr Int → Int × Arr Int := fun c x =>
  let c' := (c * 3 + sumArr x + 1) % 1009
  match kind with
  | 0 => (c', { shape := x.shape, get := fun idx => x.get idx + c })
  | 1 => (c', { shape := [], get := fun _ => sumArr x + c })
  | 3 => (c', { shape := x.shape, get := fun idx => x.get idx + c + idxWeight idx })
  | _ => (c', { shape := 2 :: x.shape, get := fun idx => match idx with
      | [] => 0
      | 0 :: r => x.get r
      | _ :: r => x.get r + c })

def optJson (f : α → Json) (err : String) : Option α → Except String Json
  | some v => .ok (f v)
  | none => .error err

def handle : Handler := fun fn args =>
  match fn with
  | "pi_trace" => do
      let v ← variantOfJson (← argAt args 0)
      let bs ← asNat (← argAt args 1)
      let ending ← endingOfJson (← argAt args 2)
      let items ← asList asInt (← argAt args 3)
      let sched ← asList (fun j => do labelOfString (← asStr j)) (← argAt args 4)
      let (s, en, stuck) := trace v bs ending sched (init items) 0 []
      .ok (Json.mkObj [("out", .arr (s.out.map obsToJson).toArray), ("enabled", .arr en.toArray),
        ("stuck", match stuck with | some i => Json.num i | none => Json.null)])
  | "pi_schedules" => do
      let v ← variantOfJson (← argAt args 0)
      let bs ← asNat (← argAt args 1)
      let ending ← endingOfJson (← argAt args 2)
      let items ← asList asInt (← argAt args 3)
      let limit ← asNat (← argAt args 4)
      let r := schedules v bs ending (init items) [] limit #[]
      .ok (.arr (r.map labelsJson))
  | "ptd_run" => do
      let size ← asNat (← argAt args 0)
      let ending ← endingOfJson (← argAt args 1)
      let items ← asList asInt (← argAt args 2)
      let k ← asNat (← argAt args 3)
      .ok (.arr ((genRun size ending k (genInit items)).map obsToJson).toArray)
  | "pad_layout" => do
      let b ← asNat (← argAt args 0)
      let d ← asNat (← argAt args 1)
      let mdb ← asNat (← argAt args 2)
      let xs : List Int := (List.range b).map (fun i => Int.ofNat (i + 1))
      optJson intssJson "PadError" (pad (0 : Int) d mdb b xs)
  | "psu" => do
      let xs ← asList asInt (← argAt args 0)
      let d ← asNat (← argAt args 1)
      let mdb ← asNat (← argAt args 2)
      let a ← asInt (← argAt args 3)
      let c ← asInt (← argAt args 4)
      optJson intsJson "PadError" (padShardUnpad (0 : Int) (fun x => a * x + c) d mdb xs)
  | "psu2" => do
      let xs ← asList asInt (← argAt args 0)
      let ys ← asList asInt (← argAt args 1)
      let d ← asNat (← argAt args 2)
      let mdb ← asNat (← argAt args 3)
      let a ← asInt (← argAt args 4)
      optJson intsJson "AssertionError" (padShardUnpad2 (0 : Int) (0 : Int) (fun x y => a * x + y) d mdb xs ys)
  | "shard" => do
      let xs ← asList asInt (← argAt args 0)
      let d ← asNat (← argAt args 1)
      optJson intssJson "ValueError" (shard d xs)
  | "replicate_unreplicate" => do
      let d ← asNat (← argAt args 0)
      let x ← asInt (← argAt args 1)
      optJson (fun (v : Int) => Json.num v) "IndexError" (unreplicate (replicate d x))
  | "stack_forest" => do
      let forest ← asList (asList asInt) (← argAt args 0)
      optJson intssJson "StructureError" (stackForest forest)
  | "get_metrics" => do
      let steps ← asList (asList (asList asInt)) (← argAt args 0)
      optJson intssJson "StructureError" (getMetrics steps)
  | "onehot" => do
      let labels ← asList asInt (← argAt args 0)
      let n ← asNat (← argAt args 1)
      .ok (intssJson (onehot labels n (1 : Int) 0))
  | "invert_perm" => do .ok (natsJson (invertPermI (← asList asInt (← argAt args 0))))
  | "scan_perm" => do .ok (natsJson (scanPerm (← asList asNat (← argAt args 0)) (← asNat (← argAt args 1))))
  | "transpose" => do
      let x ← arrOfJson (← argAt args 0)
      let perm ← asList asNat (← argAt args 1)
      .ok (arrToJson (x.transpose perm))
  | "scan_in_dim" => do
      let x ← arrOfJson (← argAt args 0)
      let axis ← asList asInt (← argAt args 1)
      let keepdims ← asBool (← argAt args 2)
      let kind ← asNat (← argAt args 3)
      let init ← asInt (← argAt args 4)
      let r := scanInDimI (scanBody kind) init x axis keepdims
      .ok (Json.mkObj [("carry", Json.num r.1), ("ys", arrToJson r.2)])
  | _ => .error "bad-op"

end Flax.Driver.C20

def main : IO Unit := Flax.Proto.serve Flax.Driver.C20.handle
