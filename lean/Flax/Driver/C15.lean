/- line-protocol driver for the FrozenDict heap model and the struct model (C15) -/
import Flax.Base.Proto
import Flax.Model.Frozen
import Flax.Model.Struct
import Flax.Model.FrozenList

namespace Flax.Driver.C15
open Lean Flax.Proto Flax.Frozen

def leafOfJson (j : Json) : Except String Leaf :=
  match j.getObjVal? "a", j.getObjVal? "o" with
  | .ok n, _ => do .ok (.atom (← asInt n))
  | _, .ok n => do .ok (.opq (← asInt n))
  | _, _ => .error "bad-args"

def leafToJson : Leaf → Json
  | .atom n => Json.mkObj [("a", Json.num n)]
  | .opq n => Json.mkObj [("o", Json.num n)]

partial def treeToJson : Tree → Json
  | .leaf l => leafToJson l
  | .node fz kvs =>
    Json.mkObj [("fz", .bool fz), ("kvs", .arr (kvs.map (fun p => Json.arr #[.str p.1, treeToJson p.2])).toArray)]

partial def treeOfJson (j : Json) : Except String Tree :=
  match j.getObjVal? "kvs" with
  | .ok kv => do
      let fz ← asBool (← (j.getObjVal? "fz").mapError (fun _ => "bad-args"))
      let kvs ← asList (fun p => do
        let k ← asStr (← argAt p 0)
        let t ← treeOfJson (← argAt p 1)
        pure (k, t)) kv
      .ok (.node fz kvs)
  | .error _ => do .ok (.leaf (← leafOfJson j))

partial def tdefToJson : TDef → Json
  | .leaf => .str "*"
  | .node fz kvs =>
    Json.mkObj [("fz", .bool fz), ("kvs", .arr (kvs.map (fun p => Json.arr #[.str p.1, tdefToJson p.2])).toArray)]

def optNat (j : Json) : Except String (Option Nat) :=
  match j with
  | .null => .ok none
  | _ => do .ok (some (← asNat j))

def opOfJson (j : Json) : Except String Op := do
  let tag ← asStr (← argAt j 0)
  match tag with
  | "newDict" => .ok .newDict
  | "newLeaf" => do .ok (.newLeaf (← leafOfJson (← argAt j 1)))
  | "setKey" => do .ok (.setKey (← asNat (← argAt j 1)) (← asStr (← argAt j 2)) (← asNat (← argAt j 3)))
  | "delKey" => do .ok (.delKey (← asNat (← argAt j 1)) (← asStr (← argAt j 2)))
  | "getitem" => do .ok (.getitem (← asNat (← argAt j 1)) (← asStr (← argAt j 2)))
  | "get" => do .ok (.get (← asNat (← argAt j 1)) (← asStr (← argAt j 2)) (← leafOfJson (← argAt j 3)))
  | "items" => do .ok (.items (← asNat (← argAt j 1)))
  | "freeze" => do .ok (.freeze (← asNat (← argAt j 1)))
  | "unfreeze" => do .ok (.unfreeze (← asNat (← argAt j 1)))
  | "copy" => do .ok (.copy (← asNat (← argAt j 1)) (← optNat (← argAt j 2)))
  | "copyView" => do .ok (.copyView (← asNat (← argAt j 1)) (← asNat (← argAt j 2)))
  | "pop" => do .ok (.pop (← asNat (← argAt j 1)) (← asStr (← argAt j 2)))
  | "pickle" => do .ok (.pickle (← asNat (← argAt j 1)))
  | "unflatten" => do
      let ks ← asList (fun p => do
        let k ← asStr (← argAt p 0)
        let i ← asNat (← argAt p 1)
        pure (k, i)) (← argAt j 1)
      .ok (.unflatten ks)
  | "treeMap" => do .ok (.treeMap (← asNat (← argAt j 1)))
  | _ => .error "bad-args"

def errName : Err → String
  | .typeError => "TypeError"
  | .keyError => "KeyError"
  | .immutable => "Immutable"
  | .recursion => "Recursion"
  | .dangling => "Dangling"
  | .badHandle => "BadHandle"

def natArr (xs : List Nat) : Json := .arr (xs.map (fun (n : Nat) => Json.num n)).toArray

/-- content annotated with the address of the dict object behind every node (codec-level helper;
the harness checks that stripping the addresses gives `absVal`) -/
def dumpVal (fz : Bool) : Nat → Heap → Val → Json
  | _, _, .leaf l => leafToJson l
  | 0, _, .ref _ => .null
  | n + 1, h, .ref a =>
    match h[a]? with
    | none => .null
    | some (.dict _ kvs) =>
      Json.mkObj [("fz", .bool fz), ("addr", Json.num a),
        ("kvs", .arr (kvs.map (fun p => Json.arr #[.str p.1, dumpVal fz n h p.2])).toArray)]
    | some (.frozen i) =>
      match h[i]? with
      | some (.dict _ kvs) =>
        Json.mkObj [("fz", .bool true), ("addr", Json.num i),
          ("kvs", .arr (kvs.map (fun p => Json.arr #[.str p.1, dumpVal true n h p.2])).toArray)]
      | _ => .null

/-- everything observable about one held value -/
def snapRoot (h : Heap) (v : Val) : Json :=
  let n := fuelOf h
  let kind := match v with
    | .leaf _ => "leaf"
    | .ref a => match h[a]? with
      | some (.dict ..) => "dict"
      | some (.frozen _) => "frozen"
      | none => "dangling"
  Json.mkObj [
    ("kind", .str kind),
    ("t", match absVal false n h v with | some t => treeToJson t | none => .null),
    ("d", dumpVal false n h v),
    ("u", natArr (userDicts n h v)),
    ("f", natArr (frozenDicts n h v))]

def snap (w : World) : Json := .arr (w.roots.map (snapRoot w.heap)).toArray

def runHistory (ops : List Op) : Json :=
  let rec go (w : World) (ops : List Op) (acc : Array Json) : Array Json :=
    match ops with
    | [] => acc
    | op :: rest =>
      match step w op with
      | .ok w' =>
        go w' rest (acc.push (Json.mkObj [("r", .str "ok"), ("n", Json.num w'.roots.length), ("snap", snap w')]))
      | .error e =>
        go w rest (acc.push (Json.mkObj [("r", .str (errName e)), ("n", Json.num w.roots.length), ("snap", snap w)]))
  .arr (go World.init ops #[])

/-- concrete hash functions: only the *equalities* between results are ever compared -/
def strHash (s : String) : Nat := s.toList.foldl (fun acc c => (acc * 131 + c.toNat) % 1000000007) 7

def drvHash : HashFns where
  hk := strHash
  hl := fun l => match l with
    | .atom n => some (n.toNat + 2 * (-n).toNat)
    | .opq _ => none
  pair := fun a b => (a * 1000003 + b * 7919 + 12345) % 18446744073709551616


/-! ### struct model -/
namespace Struct
open Flax.Struct

partial def pvToJson : PV → Json
  | .leaf n => Json.num n
  | .inst cls fr fs =>
    Json.mkObj [("cls", .str cls), ("frozen", .bool fr),
      ("fs", .arr (fs.map (fun p => Json.arr #[.str p.1, .bool p.2.1, pvToJson p.2.2])).toArray)]

partial def pvOfJson (j : Json) : Except String PV :=
  match j.getObjVal? "fs" with
  | .ok fsj => do
      let cls ← asStr (← (j.getObjVal? "cls").mapError (fun _ => "bad-args"))
      let fr ← asBool (← (j.getObjVal? "frozen").mapError (fun _ => "bad-args"))
      let fs ← asList (fun p => do
        let n ← asStr (← argAt p 0)
        let b ← asBool (← argAt p 1)
        let v ← pvOfJson (← argAt p 2)
        pure (n, b, v)) fsj
      .ok (.inst cls fr fs)
  | .error _ => do .ok (.leaf (← asInt j))

partial def sdefToJson : SDef → Json
  | .leaf => .str "*"
  | .static v => Json.mkObj [("static", pvToJson v)]
  | .inst cls fr fs =>
    Json.mkObj [("cls", .str cls), ("frozen", .bool fr),
      ("fs", .arr (fs.map (fun p => Json.arr #[.str p.1, sdefToJson p.2])).toArray)]

def errName : Flax.Struct.Err → String
  | .frozenInstance => "FrozenInstance"
  | .typeError => "TypeError"
  | .attributeError => "AttributeError"
  | .structure => "StructureMismatch"

def lift (r : Except Flax.Struct.Err PV) : Except String Json :=
  match r with
  | .ok v => .ok (pvToJson v)
  | .error e => .error (errName e)

def handle : Handler := fun fn args =>
  match fn with
  | "s.flatten" => do
      let r := flatten (← pvOfJson (← argAt args 0))
      .ok (.arr #[.arr (r.1.map (fun (n : Int) => Json.num n)).toArray, sdefToJson r.2])
  | "s.unflatten" => do
      let d := (flatten (← pvOfJson (← argAt args 0))).2
      let ls ← asList asInt (← argAt args 1)
      lift (unflattenAll d ls)
  | "s.map" => do
      let k ← asInt (← argAt args 1)
      .ok (pvToJson (mapLeaves (fun n => 2 * n + k) (← pvOfJson (← argAt args 0))))
  | "s.replace" => do
      let ups ← asList (fun p => do
        let n ← asStr (← argAt p 0)
        let v ← pvOfJson (← argAt p 1)
        pure (n, v)) (← argAt args 1)
      lift (replace (← pvOfJson (← argAt args 0)) ups)
  | "s.setattr" => do
      lift (setattr (← pvOfJson (← argAt args 0)) (← asStr (← argAt args 1)) (← pvOfJson (← argAt args 2)))
  | "s.declare" => do
      let store ← asList (asList (fun p => do
        let k ← asStr (← argAt p 0)
        let v ← asInt (← argAt p 1)
        pure (k, v))) (← argAt args 0)
      let fs ← asList (fun p => do
        let n ← asStr (← argAt p 0)
        let b ← asBool (← argAt p 1)
        let i ← optNat (← argAt p 2)
        pure ({ name := n, node := b, metaId := i } : FieldSpec)) (← argAt args 1)
      .ok (.arr ((declare store fs).map (fun p => Json.arr #[.str p.1, .bool p.2])).toArray)
  | "s.getattr" => do
      lift (getattr (← pvOfJson (← argAt args 0)) (← asStr (← argAt args 1)))
  | _ => .error "bad-op"

end Struct

/-! ### list-aware companion model (unfreeze rebuilds every pytree node) -/
namespace L

def valOfJson (j : Json) : Except String FrozenL.Val :=
  match j.getObjVal? "r" with
  | .ok a => do .ok (.ref (← asNat a))
  | .error _ => do .ok (.leaf (← asInt j))

def objOfJson (j : Json) : Except String FrozenL.Obj :=
  match j.getObjVal? "d", j.getObjVal? "l", j.getObjVal? "t", j.getObjVal? "f" with
  | .ok kv, _, _, _ => do
      let kvs ← asList (fun p => do
        let k ← asStr (← argAt p 0)
        let v ← valOfJson (← argAt p 1)
        pure (k, v)) kv
      .ok (.dict kvs)
  | _, .ok xs, _, _ => do .ok (.list (← asList valOfJson xs))
  | _, _, .ok xs, _ => do .ok (.tuple (← asList valOfJson xs))
  | _, _, _, .ok i => do .ok (.frozen (← asNat i))
  | _, _, _, _ => .error "bad-args"

/-- nested dump of a value with the address of every container -/
def dump : Nat → FrozenL.Heap → FrozenL.Val → Json
  | _, _, .leaf n => Json.num n
  | 0, _, .ref _ => .null
  | n + 1, h, .ref a =>
    match h[a]? with
    | none => .null
    | some (.dict kvs) =>
      Json.mkObj [("k", .str "d"), ("addr", Json.num a),
        ("items", .arr (kvs.map (fun p => Json.arr #[.str p.1, dump n h p.2])).toArray)]
    | some (.list xs) => Json.mkObj [("k", .str "l"), ("addr", Json.num a), ("items", .arr (xs.map (dump n h)).toArray)]
    | some (.tuple xs) => Json.mkObj [("k", .str "t"), ("addr", Json.num a), ("items", .arr (xs.map (dump n h)).toArray)]
    | some (.frozen i) => Json.mkObj [("k", .str "f"), ("addr", Json.num a), ("items", .arr #[dump n h (.ref i)])]

def handle : Handler := fun fn args =>
  match fn with
  | "l.unfreeze" => do
      let h ← asList objOfJson (← argAt args 0)
      let f ← asNat (← argAt args 1)
      let w := match args.getArrVal? 2 with
        | .ok (.str "dictsOnly") => FrozenL.Walk.dictsOnly
        | _ => FrozenL.Walk.all
      match FrozenL.unfreeze w h f with
      | some (h', v') => .ok (Json.mkObj [("base", Json.num h.length), ("res", dump (h'.length + 1) h' v')])
      | none => .error "Recursion"
  | _ => .error "bad-op"

end L

def handle : Handler := fun fn args =>
  match fn with
  | "run" => do
      let ops ← asList opOfJson (← argAt args 0)
      .ok (runHistory ops)
  | "eq" => do
      .ok (.bool (treeEq (← treeOfJson (← argAt args 0)) (← treeOfJson (← argAt args 1))))
  | "hash" => do
      match treeHash drvHash (← treeOfJson (← argAt args 0)) with
      | some n => .ok (Json.num n)
      | none => .error "TypeError"
  | "flatten" => do
      let r := flattenS (← treeOfJson (← argAt args 0))
      .ok (.arr #[.arr (r.1.map leafToJson).toArray, tdefToJson r.2])
  | "roundtrip" => do
      let r := flattenS (← treeOfJson (← argAt args 0))
      match unflatten r.2 r.1 with
      | some (t, []) => .ok (treeToJson t)
      | _ => .error "StructureMismatch"
  | _ => if fn.startsWith "l." then L.handle fn args else Struct.handle fn args

end Flax.Driver.C15

def main : IO Unit := Flax.Proto.serve Flax.Driver.C15.handle
