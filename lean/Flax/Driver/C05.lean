/- line-protocol driver for the lifting model (C05) -/
import Flax.Base.Proto
import Flax.Model.Lift
import Flax.Model.ModScopes

namespace Flax.Driver.C05
open Lean Flax.Proto Flax.Filter Flax.Lift

partial def lfOfJson : Json → Except String LFilter
  | .bool true => .ok .tt
  | .bool false => .ok .ff
  | .str s => .ok (.name s)
  | .arr a => do
      let xs ← a.toList.mapM asStr
      .ok (.names xs)
  | j@(.obj _) => do
      let d ← (j.getObjVal? "deny").mapError (fun _ => "bad-args")
      let f ← lfOfJson d
      .ok (.deny f)
  | _ => .error "bad-args"

partial def exprOfJson (j : Json) : Except String Expr :=
  match j.getObjVal? "lit", j.getObjVal? "reg", j.getObjVal? "arg", j.getObjVal? "attr", j.getObjVal? "add",
        j.getObjVal? "mul" with
  | .ok v, _, _, _, _, _ => do .ok (.lit (← asInt v))
  | _, .ok v, _, _, _, _ => do .ok (.reg (← asNat v))
  | _, _, .ok v, _, _, _ => do .ok (.arg (← asNat v))
  | _, _, _, .ok v, _, _ => do .ok (.attr (← asStr v))
  | _, _, _, _, .ok v, _ => do .ok (.add (← exprOfJson (← argAt v 0)) (← exprOfJson (← argAt v 1)))
  | _, _, _, _, _, .ok v => do .ok (.mul (← exprOfJson (← argAt v 0)) (← exprOfJson (← argAt v 1)))
  | _, _, _, _, _, _ => .error "bad-args"

def instrOfJson (j : Json) : Except String Prog := do
  let op ← asStr (← argAt j 0)
  match op with
  | "get" => .ok (.get (← asStr (← argAt j 1)) (← asStr (← argAt j 2)))
  | "has" => .ok (.has (← asStr (← argAt j 1)) (← asStr (← argAt j 2)))
  | "put" => .ok (.put (← asStr (← argAt j 1)) (← asStr (← argAt j 2)) (← exprOfJson (← argAt j 3)))
  | "decl" => .ok (.decl (← asStr (← argAt j 1)) (← asStr (← argAt j 2)) (← exprOfJson (← argAt j 3)))
  | "rng" => .ok (.rng (← asStr (← argAt j 1)))
  | "rngat" => .ok (.rngAt (← asList asStr (← argAt j 1)) (← asStr (← argAt j 2)))
  | _ => .error "bad-args"

def progOfJson (j : Json) : Except String Prog := do
  let is ← asList instrOfJson j
  .ok (is.foldr (fun i acc => Prog.seq i acc) Prog.skip)

def fnOfJson (j : Json) : Except String Fn := do
  let b ← progOfJson (← (j.getObjVal? "body").mapError (fun _ => "bad-args"))
  let r ← asList exprOfJson (← (j.getObjVal? "ret").mapError (fun _ => "bad-args"))
  .ok ⟨b, r⟩

def pairOfJson (f : Json → Except String α) (j : Json) : Except String (String × α) := do
  .ok (← asStr (← argAt j 0), ← f (← argAt j 1))

def datumOfJson : Json → Except String Datum
  | .str s => .ok (.s s)
  | j => do .ok (.n (← asNat j))

def lazyOfJson (j : Json) : Except String LazyRng := do
  .ok ⟨.seed (← asStr (← argAt j 0)), ← asList datumOfJson (← argAt j 1)⟩

def fld (j : Json) (k : String) : Except String Json := (j.getObjVal? k).mapError (fun _ => "bad-args")

def scopeOfJson (j : Json) : Except String ScopeSt := do
  let vars ← asList (pairOfJson (asList (pairOfJson asInt))) (← fld j "vars")
  let mu ← lfOfJson (← fld j "mutable")
  let rngs ← asList (pairOfJson lazyOfJson) (← fld j "rngs")
  let ctr ← asList (pairOfJson asNat) (← fld j "counters")
  .ok { vars := vars, mutable := mu, frozen := [], rngs := rngs, counters := ctr }

def datumToJson : Datum → Json
  | .n v => Json.num v
  | .s v => Json.str v

def keyToJson : SymKey → Json
  | .seed id => Json.mkObj [("seed", Json.str id)]
  | .fold k d => Json.mkObj [("fold", Json.arr #[keyToJson k, Json.arr (d.map datumToJson).toArray])]

def varsToJson (vs : Vars) : Json :=
  Json.arr (vs.map (fun kv => Json.arr #[Json.str kv.1,
    Json.arr (kv.2.map (fun nv => Json.arr #[Json.str nv.1, Json.num (JsonNumber.fromInt nv.2)])).toArray])).toArray

def errName : Err → String
  | .modifyImmutable => "ModifyImmutable"
  | .notFound => "NotFound"
  | .rngMissing => "RngMissing"
  | .counterMissing => "CounterMissing"
  | .frozenWrite => "FrozenWrite"
  | .unmapped => "Unmapped"
  | .badExpr => "BadExpr"
  | .structMismatch => "StructMismatch"
  | .noBranch => "NoBranch"
  | .diverged => "Diverged"

def outToJson (vals : List Int) (ks : List SymKey) (s : ScopeSt) : Json :=
  Json.mkObj [("vals", Json.arr (vals.map (fun v => Json.num (JsonNumber.fromInt v))).toArray),
    ("keys", Json.arr (ks.map keyToJson).toArray),
    ("vars", varsToJson s.vars),
    ("counters", Json.arr (s.counters.map (fun kv => Json.arr #[Json.str kv.1, Json.num kv.2])).toArray)]

def resToJson (r : Except Err (Out × ScopeSt)) : Json :=
  match r with
  | .error e => Json.mkObj [("error", Json.str (errName e))]
  | .ok (y, s) => outToJson y.vals y.keys s

def attrsOfJson (j : Json) : Except String (List (String × Int)) := asList (pairOfJson asInt) j

def mstOfJson (j : Json) : Except String ModState := do
  .ok { inCompact := ← asBool (← argAt j 0), inSetup := ← asBool (← argAt j 1), setupCalled := ← asBool (← argAt j 2),
        isInitialized := ← asBool (← argAt j 3), autonameCursor := ← asList (pairOfJson asNat) (← argAt j 4) }

/-- a call history through one jitted method: each entry is `[attrs, args, scope]` -/
def history (keyByFn : Bool) (variables rngs : LFilter) (f : Fn) (cls : String) (mst : ModState) :
    JitCaches → List (List (String × Int) × List Int × ScopeSt) → List Json
  | _, [] => []
  | st, (attrs, args, s) :: rest =>
    let (r, st', traced) := nnJitCall keyByFn 0 variables rngs f cls mst st attrs args s
    Json.mkObj [("res", resToJson r), ("traced", Json.bool traced)] :: history keyByFn variables rngs f cls mst st' rest

def callOfJson (j : Json) : Except String (List (String × Int) × List Int × ScopeSt) := do
  .ok (← attrsOfJson (← argAt j 0), ← asList asInt (← argAt j 1), ← scopeOfJson (← argAt j 2))

partial def nodeOfJson (j : Json) : Except String Flax.ModScopes.Node :=
  match j with
  | .str "other" => .ok .other
  | _ =>
    match j.getObjVal? "mod", j.getObjVal? "var", j.getObjVal? "dict", j.getObjVal? "seq" with
    | .ok v, _, _, _ => do
        let id ← asNat (← argAt v 0)
        let sc ← match (← argAt v 1) with | .null => pure none | x => do pure (some (← asNat x))
        let fs ← asList (pairOfJson nodeOfJson) (← argAt v 2)
        .ok (.mod id sc fs)
    | _, .ok v, _, _ => match v with | .null => .ok (.var none) | x => do .ok (.var (some (← asNat x)))
    | _, _, .ok v, _ => do .ok (.dict (← asList (pairOfJson nodeOfJson) v))
    | _, _, _, .ok v => do .ok (.seq (← asList nodeOfJson v))
    | _, _, _, _ => .error "bad-args"

def ownerToJson : Flax.ModScopes.Owner → Json
  | .m id sc => Json.arr #[Json.str "m", Json.num id, Json.num sc]
  | .v sc => Json.arr #[Json.str "v", Json.num 0, Json.num sc]

def pathToJson (p : List String) : Json := Json.arr (p.map Json.str).toArray

def handle : Handler := fun fn a =>
  match fn with
  | "plain" => do
      .ok (resToJson (runFn (← attrsOfJson (← argAt a 0)) (← fnOfJson (← argAt a 1)) (← asList asInt (← argAt a 2))
        (← scopeOfJson (← argAt a 3))))
  | "lift" => do
      .ok (resToJson (liftId (← asList lfOfJson (← argAt a 0)) (← asList lfOfJson (← argAt a 1))
        (← asList lfOfJson (← argAt a 2)) (← lfOfJson (← argAt a 3)) (← attrsOfJson (← argAt a 4))
        (← fnOfJson (← argAt a 5)) (← asList asInt (← argAt a 6)) (← scopeOfJson (← argAt a 7))))
  | "mapvars" => do
      .ok (resToJson (mapVariablesId (← lfOfJson (← argAt a 0)) (← asBool (← argAt a 1)) (← asBool (← argAt a 2))
        (← lfOfJson (← argAt a 3)) (← lfOfJson (← argAt a 4)) (← attrsOfJson (← argAt a 5))
        (← fnOfJson (← argAt a 6)) (← asList asInt (← argAt a 7)) (← scopeOfJson (← argAt a 8))))
  | "mapvars_orig" => do
      .ok (resToJson (mapVariablesIdOrig (← lfOfJson (← argAt a 0)) (← asBool (← argAt a 1)) (← asBool (← argAt a 2))
        (← lfOfJson (← argAt a 3)) (← lfOfJson (← argAt a 4)) (← attrsOfJson (← argAt a 5))
        (← fnOfJson (← argAt a 6)) (← asList asInt (← argAt a 7)) (← scopeOfJson (← argAt a 8))))
  | "cond" => do
      .ok (resToJson (liftCond (← lfOfJson (← argAt a 0)) (← lfOfJson (← argAt a 1)) (← attrsOfJson (← argAt a 2))
        (← asBool (← argAt a 3)) (← fnOfJson (← argAt a 4)) (← fnOfJson (← argAt a 5)) (← asList asInt (← argAt a 6))
        (← scopeOfJson (← argAt a 7))))
  | "pycond" => do
      .ok (resToJson (pyCond (← attrsOfJson (← argAt a 2))
        (← asBool (← argAt a 3)) (← fnOfJson (← argAt a 4)) (← fnOfJson (← argAt a 5)) (← asList asInt (← argAt a 6))
        (← scopeOfJson (← argAt a 7))))
  | "switch" => do
      .ok (resToJson (liftSwitch (← lfOfJson (← argAt a 0)) (← lfOfJson (← argAt a 1)) (← attrsOfJson (← argAt a 2))
        (← asInt (← argAt a 3)) (← asList fnOfJson (← argAt a 4)) (← asList asInt (← argAt a 5))
        (← scopeOfJson (← argAt a 6))))
  | "pyswitch" => do
      .ok (resToJson (pySwitch (← attrsOfJson (← argAt a 2))
        (← asInt (← argAt a 3)) (← asList fnOfJson (← argAt a 4)) (← asList asInt (← argAt a 5))
        (← scopeOfJson (← argAt a 6))))
  | "while" => do
      let r := liftWhile (← lfOfJson (← argAt a 0)) (← lfOfJson (← argAt a 1)) (← attrsOfJson (← argAt a 2))
        (← fnOfJson (← argAt a 3)) (← fnOfJson (← argAt a 4)) (← asNat (← argAt a 5)) (← asList asInt (← argAt a 6))
        (← scopeOfJson (← argAt a 7))
      .ok (resToJson (r.map (fun p => (⟨p.1, []⟩, p.2))))
  | "pywhile" => do
      let r := pyWhile (← attrsOfJson (← argAt a 2))
        (← fnOfJson (← argAt a 3)) (← fnOfJson (← argAt a 4)) (← asNat (← argAt a 5)) (← asList asInt (← argAt a 6))
        (← scopeOfJson (← argAt a 7))
      .ok (resToJson (r.map (fun p => (⟨p.1, []⟩, p.2))))
  | "jit_history" => do
      -- [keyByFn, variables, rngs, fn, cls, mstate, [[attrs, args, scope], …]]
      let calls ← asList callOfJson (← argAt a 6)
      .ok (Json.arr (history (← asBool (← argAt a 0)) (← lfOfJson (← argAt a 1)) (← lfOfJson (← argAt a 2))
        (← fnOfJson (← argAt a 3)) (← asStr (← argAt a 4)) (← mstOfJson (← argAt a 5)) ⟨[], []⟩ calls).toArray)
  | "ms_get" => do
      -- [node, sortedFields]
      let n ← nodeOfJson (← argAt a 0)
      let ord := if (← asBool (← argAt a 1)) then Flax.ModScopes.sortKeys else id
      .ok (Json.arr ((Flax.ModScopes.getOwners ord n).map ownerToJson).toArray)
  | "ms_set" => do
      -- [node, scopes handed back]
      let n ← nodeOfJson (← argAt a 0)
      let (asg, ok) := Flax.ModScopes.setAssign Flax.ModScopes.sortKeys n (← asList asNat (← argAt a 1))
      .ok (Json.mkObj [("ok", Json.bool ok), ("asg", Json.arr (asg.map (fun p =>
        Json.arr #[ownerToJson p.1, match p.2 with | some k => Json.num k | none => Json.null])).toArray)])
  | "dedup" => do
      let ps ← asList (asList asStr) (← argAt a 0)
      let (roots, entries) := Flax.ModScopes.dedupScopes ps
      .ok (Json.mkObj [("roots", Json.arr (roots.map pathToJson).toArray),
        ("entries", Json.arr (entries.map (fun e => Json.arr #[pathToJson e.1, pathToJson e.2])).toArray)])
  | "fingerprint_eq" => do
      -- [variables, attrs1, mutable1, counters1, attrs2, mutable2, counters2]
      let mk (at_ : List (String × Int)) (mu : LFilter) (c : Counters) : JitEnv :=
        { cls := "M", attrs := at_, state := default, mutable := mu, flags := [], counters := c, reservations := [],
          modName := none, parentPath := [] }
      let v ← lfOfJson (← argAt a 0)
      let e1 := mk (← attrsOfJson (← argAt a 1)) (← lfOfJson (← argAt a 2)) (← asList (pairOfJson asNat) (← argAt a 3))
      let e2 := mk (← attrsOfJson (← argAt a 4)) (← lfOfJson (← argAt a 5)) (← asList (pairOfJson asNat) (← argAt a 6))
      .ok (Json.bool (decide (fingerprint v e1 = fingerprint v e2)))
  | _ => .error "bad-op"

end Flax.Driver.C05

def main : IO Unit := Flax.Proto.serve Flax.Driver.C05.handle
