/- line-protocol driver for the partition-metadata model (C19) -/
import Flax.Base.Proto
import Flax.Model.Axes

namespace Flax.Driver.C19
open Lean Flax.Proto Flax.Axes

abbrev AName := Flax.Axes.Name

def nameOfJson : Json → Except String AName
  | .null => .ok none
  | .str s => .ok (some s)
  | _ => .error "bad-args"

def nameToJson : AName → Json
  | none => .null
  | some s => .str s

def namesOfJson (j : Json) : Except String Names := asList nameOfJson j
def namesToJson (ns : Names) : Json := .arr (ns.map nameToJson).toArray

def natsToJson (ns : List Nat) : Json := .arr (ns.map (fun n => Json.num (n : Nat))).toArray

def errStr : Err → String
  | .indexError => "IndexError"
  | .assertion => "AssertionError"
  | .valueError => "ValueError"
  | .unspecified => "PartitioningUnspecified"
  | .axisError => "AxisError"

def liftE {α : Type} (f : α → Json) : Except Err α → Except String Json
  | .ok v => .ok (f v)
  | .error e => .error (errStr e)

/-- `{"raw": [dims]}` or `{"names": [...], "inner": box}` -/
partial def boxOfJson (j : Json) : Except String (Box (List Nat)) :=
  match j.getObjVal? "raw" with
  | .ok v => do .ok (.raw (← asList asNat v))
  | .error _ => do
    let ns ← namesOfJson (← (j.getObjVal? "names").mapError (fun _ => "bad-args"))
    let inner ← boxOfJson (← (j.getObjVal? "inner").mapError (fun _ => "bad-args"))
    .ok (.boxed ns inner)

def boxToJson : Box (List Nat) → Json
  | .raw v => Json.mkObj [("raw", natsToJson v)]
  | .boxed ns inner => Json.mkObj [("names", namesToJson ns), ("inner", boxToJson inner)]

/-- `[]` = key absent from metadata_params, `[name]` = present -/
def paramsOfJson (j : Json) : Except String (Option AName) := do
  let a ← arr j
  match a.toList with
  | [] => .ok none
  | [x] => do .ok (some (← nameOfJson x))
  | _ => .error "bad-args"

def levelOfJson (j : Json) : Except String (Level Nat) := do
  .ok { axis := ← asInt (← argAt j 0), pname := ← nameOfJson (← argAt j 1), size := ← asNat (← argAt j 2) }

def optNamesOfJson : Json → Except String (Option Names)
  | .null => .ok none
  | j => do .ok (some (← namesOfJson j))

def optNamesToJson : Option Names → Json
  | none => .null
  | some ns => namesToJson ns

def axisSpecOfJson : Json → Except String AxisSpec
  | .null => .ok .bcast
  | .str "carry" => .ok .carry
  | j => do .ok (.ax (← asInt j))

def meshOfJson : Json → Except String MeshVal
  | .null => .ok .none
  | .str s => .ok (.one s)
  | j => do .ok (.many (← asList asStr j))

def ruleOfJson (j : Json) : Except String Rule := do
  .ok { name := ← nameOfJson (← argAt j 0), mesh := ← meshOfJson (← argAt j 1) }

def leavesToJson (xs : List String) : Json := .arr (xs.map Json.str).toArray

def fldOfJson (j : Json) : Except String Fld :=
  match j.getObjVal? "names" with
  | .ok v => do .ok (.names (← namesOfJson v))
  | .error _ => do .ok (.other (← asStr (← (j.getObjVal? "other").mapError (fun _ => "bad-args"))))

def fldToJson : Fld → Json
  | .names ns => Json.mkObj [("names", namesToJson ns)]
  | .other t => Json.mkObj [("other", .str t)]

def dictOfJson (j : Json) : Except String PyDict :=
  asList (fun kv => do .ok (← asStr (← argAt kv 0), ← fldOfJson (← argAt kv 1))) j

def dictToJson (d : PyDict) : Json :=
  .arr (d.map (fun kv => Json.arr #[.str kv.1, fldToJson kv.2])).toArray

def callToJson : Option Call → Except String Json
  | none => .error "KeyError"
  | some c => .ok (Json.mkObj [("ret", dictToJson c.ret), ("self", dictToJson c.self)])

def handle : Handler := fun fn args =>
  match fn with
  | "add_axis" => do
      .ok (namesToJson (addAxis (← asInt (← argAt args 0)) (← nameOfJson (← argAt args 1)) (← namesOfJson (← argAt args 2))))
  | "add_axis_orig" => do
      .ok (namesToJson (addAxisOrig (← asInt (← argAt args 0)) (← nameOfJson (← argAt args 1)) (← namesOfJson (← argAt args 2))))
  | "remove_axis" => do
      liftE namesToJson (removeAxis (← asInt (← argAt args 0)) (← nameOfJson (← argAt args 1)) (← namesOfJson (← argAt args 2)))
  | "add_axis_legacy" => do
      .ok (namesToJson (addAxisLegacy (← asInt (← argAt args 0)) (← nameOfJson (← argAt args 1)) (← namesOfJson (← argAt args 2))))
  | "add_axis_legacy_orig" => do
      .ok (namesToJson (addAxisLegacyOrig (← asInt (← argAt args 0)) (← nameOfJson (← argAt args 1)) (← namesOfJson (← argAt args 2))))
  | "remove_axis_legacy" => do
      liftE namesToJson (removeAxisLegacy (← asInt (← argAt args 0)) (← nameOfJson (← argAt args 1)) (← namesOfJson (← argAt args 2)))
  | "box_add_axis" => do
      liftE boxToJson ((← boxOfJson (← argAt args 2)).addAxis (← asInt (← argAt args 0)) (← paramsOfJson (← argAt args 1)))
  | "box_remove_axis" => do
      liftE boxToJson ((← boxOfJson (← argAt args 2)).removeAxis (← asInt (← argAt args 0)) (← paramsOfJson (← argAt args 1)))
  | "unbox" => do .ok (natsToJson (← boxOfJson (← argAt args 0)).unbox)
  | "replace_boxed" => do
      .ok (boxToJson ((← boxOfJson (← argAt args 0)).replaceBoxed (← asList asNat (← argAt args 1))))
  | "set_value" => do
      .ok (boxToJson ((← boxOfJson (← argAt args 0)).setValue (← asList asNat (← argAt args 1))))
  | "pspec" => do
      let isArr ← asBool (← argAt args 1)
      .ok (optNamesToJson ((← boxOfJson (← argAt args 0)).partitionSpec (fun _ => isArr)))
  | "nnx_pspec" => do
      .ok (optNamesToJson (nnxPartitionSpec (← optNamesOfJson (← argAt args 0)) (← asBool (← argAt args 1))))
  | "nnx_add_axis" => do
      .ok (optNamesToJson (nnxAddAxis (← asInt (← argAt args 0)) (← nameOfJson (← argAt args 1)) (← optNamesOfJson (← argAt args 2))))
  | "nnx_remove_axis" => do
      liftE optNamesToJson (nnxRemoveAxis (← asInt (← argAt args 0)) (← nameOfJson (← argAt args 1)) (← optNamesOfJson (← argAt args 2)))
  | "nnxmeta_add_axis" => do
      liftE optNamesToJson (nnxMetaAddAxis (← asInt (← argAt args 0)) (← paramsOfJson (← argAt args 1)) (← optNamesOfJson (← argAt args 2)))
  | "nnxmeta_remove_axis" => do
      liftE optNamesToJson (nnxMetaRemoveAxis (← asInt (← argAt args 0)) (← paramsOfJson (← argAt args 1)) (← optNamesOfJson (← argAt args 2)))
  | "sa_add" => do
      -- [kind, axes, states, nm]: states are lists of sharding tuples (one per variable in the state)
      let kind ← asStr (← argAt args 0)
      let axes ← asList axisSpecOfJson (← argAt args 1)
      let states ← asList (asList namesOfJson) (← argAt args 2)
      let nm ← nameOfJson (← argAt args 3)
      let f : Int → List Names → List Names := fun k st => st.map (addAxis k nm)
      let out := if kind == "vmap" then updateStatesVmap f axes states
        else if kind == "scan_orig" then updateStatesScanOrig f axes states
        else updateStatesScan f axes states
      .ok (.arr (out.map (fun st => Json.arr (st.map namesToJson).toArray)).toArray)
  | "stack_at" => do
      match stackAt (← asInt (← argAt args 0)) (← asNat (← argAt args 1)) (← asList asNat (← argAt args 2)) with
      | some ds => .ok (natsToJson ds)
      | none => .error "AxisError"
  | "slice_at" => do
      match sliceAt (← asInt (← argAt args 0)) (← asList asNat (← argAt args 1)) with
      | some ds => .ok (natsToJson ds)
      | none => .error "AxisError"
  | "init_through" => do
      liftE boxToJson (initThrough (← asList levelOfJson (← argAt args 0)) (← boxOfJson (← argAt args 1)))
  | "apply_in" => do
      liftE boxToJson (applyIn (← asList levelOfJson (← argAt args 0)) (← boxOfJson (← argAt args 1)))
  | "l2m" => do
      liftE (fun ms => Json.arr (ms.map (fun m => leavesToJson m.leaves)).toArray)
        (logicalToMesh (← namesOfJson (← argAt args 0)) (← asList ruleOfJson (← argAt args 1)))
  | "to_nnx" => do callToJson (toNnxMetadata (← dictOfJson (← argAt args 0)))
  | "to_nnx_orig" => do callToJson (toNnxMetadataOrig (← dictOfJson (← argAt args 0)))
  | _ => .error "bad-op"

end Flax.Driver.C19

def main : IO Unit := Flax.Proto.serve Flax.Driver.C19.handle
