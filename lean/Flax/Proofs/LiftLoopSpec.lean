/-
C06: the *specification side* — the explicit Python loop over slices (scan) and the per-index map (vmap),
written directly with `takeAt` / `stackAt` (jnp.take / jnp.stack along the declared axis), roles decided by
"first matching filter", and keys `Key.split k n i` handed out per index.  Failure is just `none`.
-/
import Flax.Model.LiftLoop
import Flax.Proofs.LiftLoopMonad

namespace Flax.LiftLoop
open Flax.Filter
variable {α : Type} [Inhabited α]

/-- the entries of a dict whose key's first matching filter is number `g` -/
def roleGroup {β : Type} (d : List (String × β)) (fs : List LFilter) (g : Nat) : List (String × β) :=
  d.filter (fun kv => decide (firstIdx fs kv.1 = some g))

/-- the rng streams handed to iteration / index `i`, group by group: a stream whose first matching
`split_rngs` entry says split gets `random.split(k, n)[i]`, otherwise its own key; unmatched streams are
not passed on -/
def iterRngGroups (splitRngs : List (LFilter × Bool)) (rngs : Rngs) (n i : Nat) : List Rngs :=
  ((List.range splitRngs.length).zip splitRngs).map (fun p =>
    (roleGroup rngs (splitRngs.map (·.1)) p.1).map (fun sk =>
      (sk.1, if p.2.2 then Key.split sk.2 n i else sk.2)))

/-- the groups of collections that are sliced per iteration: group `g` holds the collections whose first
matching filter is entry `g` of `variable_axes` (after `variable_broadcast` and `variable_carry`) -/
def axisGroups {β : Type} (d : List (String × β)) (fs : List LFilter) (k : Nat) : List (List (String × β)) :=
  (List.range k).map (fun g => roleGroup d fs (g + 2))

/-- slice `i` of every collection of an axis group, along the group's declared axis -/
def groupSlice (i : Nat) (p : Int × Vars α) : Except Err (Vars α) := Vars.mapE (takeAt p.1 i) p.2

def groupDims (p : Int × Vars α) : Except Err (List Nat) := mapE (dimAt p.1) (Vars.leaves p.2)

/-- the positional arguments of iteration `i` -/
def iterArgs (inArgAxes : List (Option Int)) (args : List (Arr α)) (i : Nat) : Option (List (Arr α)) :=
  opt (mapE (argTakeAt i) (inArgAxes.zip args))

/-- one iteration of the explicit loop: broadcast collections `b` as they are, carried collections and
carry from the previous iteration, slice `i` of every axis collection along its declared axis; afterwards
the mutable collections are sorted into broadcast / carry / per-axis outputs by their first matching
out filter -/
def loopStep (cfg : ScanCfg) (mutF : LFilter) (body : Body α) (outer : Vars α) (rngs : Rngs)
    (inArgAxes : List (Option Int)) (args : List (Arr α)) (dLength : Nat)
    (b : Vars α) (st : Vars α × List (Arr α)) (i : Nat) : Option (StepOut α) :=
  (opt (mapE (groupSlice i)
      ((cfg.inAx.map (·.axis)).zip (axisGroups outer cfg.inFs cfg.inAx.length)))).bind fun sl =>
  (iterArgs inArgAxes args i).bind fun xs =>
  (opt (body mutF (mergeGroups (b :: st.1 :: sl))
      (mergeGroups (iterRngGroups cfg.splitRngs rngs dLength i)) st.2 xs)).bind fun r =>
  let mv := r.1.filter (fun kv => inFilter mutF kv.1)
  some (reinject b (roleGroup mv cfg.outFs 0), (roleGroup mv cfg.outFs 1, r.2.1),
        (r.2.2, axisGroups mv cfg.outFs cfg.outAx.length))

/-- run the iterations in the given order, threading the state, remembering each iteration's output
under its index; the carry must keep its structure -/
def loopRun {σ ω : Type} (step : σ → Nat → Option (σ × ω)) (same : σ → σ → Bool) :
    σ → List Nat → Option (σ × List (Nat × ω))
  | s, [] => some (s, [])
  | s, i :: is =>
    match step s i with
    | none => none
    | some r =>
      if same s r.1 then
        match loopRun step same r.1 is with
        | none => none
        | some rest => some (rest.1, (i, r.2) :: rest.2)
      else none

/-- the outputs in index order: entry `i` is what iteration `i` produced -/
def byIndex {ω : Type} (n : Nat) (recs : List (Nat × ω)) : Option (List ω) :=
  mapO (fun i => recs.lookup i) (List.range n)

/-- the sizes, along the declared axes, of everything that is sliced per iteration -/
def loopDims (cfg : ScanCfg) (outer : Vars α) (rngs : Rngs) (inArgAxes : List (Option Int))
    (args : List (Arr α)) (dLength : Nat) : Option (List Nat) :=
  (opt (mapE groupDims
      ((cfg.inAx.map (·.axis)).zip (axisGroups outer cfg.inFs cfg.inAx.length)))).bind fun d1 =>
  (opt (mapE argDimAt (inArgAxes.zip args))).bind fun d3 =>
  some (d1.flatten
    ++ ((List.range cfg.splitRngs.length).zip cfg.splitRngs).flatMap (fun p =>
        if p.2.2 then (roleGroup rngs (cfg.splitRngs.map (·.1)) p.1).map (fun _ => dLength) else [])
    ++ d3.flatten)

/-- the loop itself, once flax has fixed `d_length` and the per-argument axes: how many iterations, the
one-time initialisation of the broadcast collections, the iterations in order, the stacked outputs.
Result: `(broadcast collections, (carried collections, carry), (ys, stacked axis collections))` -/
def loopCoreChecked (cfg : ScanCfg) (verdict : Bool) (mutF : LFilter) (body : Body α) (outer : Vars α)
    (rngs : Rngs) (init : List (Arr α)) (args : List (Arr α)) (inArgAxes : List (Option Int))
    (dLength : Nat) : Option (StepOut α) :=
  (loopDims cfg outer rngs inArgAxes args dLength).bind fun dims =>
  (opt (jaxLength cfg.length dims)).bind fun n =>
  if n = 0 then none else
  let step := loopStep cfg mutF body outer rngs inArgAxes args dLength
  let st0 : Vars α × List (Arr α) := (roleGroup outer cfg.inFs 1, init)
  -- broadcast collections are initialised once: by the body on the inputs of the first iteration
  (step (roleGroup outer cfg.inFs 0) st0 (if cfg.reverse then n - 1 else 0)).bind fun r0 =>
  (opt (cfg.outAxes.expand r0.2.2.1.length)).bind fun outYAxes =>
  if !verdict then none else
  (loopRun (fun st i => (step r0.1 st i).map (fun r => (r.2.1, r.2.2))) sameStruct st0
      (if cfg.reverse then (List.range n).reverse else List.range n)).bind fun res =>
  (byIndex n res.2).bind fun outs =>
  (opt (collectOuts stackAt outYAxes (cfg.outAx.map (·.axis)) r0.2.2.1 outs)).bind fun out =>
  some (r0.1, res.1, out)

/-- the loop with `check_constancy_invariants=False`: the broadcast collections are inputs only (passed unchanged
to every iteration and returned unchanged; what the body does to them is dropped), no output may be declared
`broadcast`; everything else — number of iterations, direction, slices, carry threading, stacking — as above -/
def loopCoreSimple (cfg : ScanCfg) (mutF : LFilter) (body : Body α) (outer : Vars α)
    (rngs : Rngs) (init : List (Arr α)) (args : List (Arr α)) (inArgAxes : List (Option Int))
    (dLength : Nat) : Option (StepOut α) :=
  if cfg.outAxes.hasBroadcast then none else
  (loopDims cfg outer rngs inArgAxes args dLength).bind fun dims =>
  (opt (jaxLength cfg.length dims)).bind fun n =>
  if n = 0 then none else
  let step := loopStep cfg mutF body outer rngs inArgAxes args dLength
  let st0 : Vars α × List (Arr α) := (roleGroup outer cfg.inFs 1, init)
  let b := roleGroup outer cfg.inFs 0
  (loopRun (fun st i => (step b st i).map (fun r => (r.2.1, r.2.2))) sameStruct st0
      (if cfg.reverse then (List.range n).reverse else List.range n)).bind fun res =>
  (byIndex n res.2).bind fun outs =>
  (opt (cfg.outAxes.expand ((outs.head?.map (fun o => o.1.length)).getD 0))).bind fun outYAxes =>
  (opt (collectOuts stackAt outYAxes (cfg.outAx.map (·.axis)) [] outs)).bind fun out =>
  some (b, res.1, out)

/-- both values of `check_constancy_invariants` -/
def loopCore (cfg : ScanCfg) (verdict : Bool) (mutF : LFilter) (body : Body α) (outer : Vars α)
    (rngs : Rngs) (init : List (Arr α)) (args : List (Arr α)) (inArgAxes : List (Option Int))
    (dLength : Nat) : Option (StepOut α) :=
  if cfg.checkConst then loopCoreChecked cfg verdict mutF body outer rngs init args inArgAxes dLength
  else loopCoreSimple cfg mutF body outer rngs init args inArgAxes dLength

/-- **the explicit loop** that `lift.scan` is claimed to equal; its results are written back into the
scope (mutable collections only) -/
def loopSpec (cfg : ScanCfg) (verdict : Bool) (body : Body α) (scopeMut : LFilter) (outer : Vars α)
    (rngs : Rngs) (init : List (Arr α)) (args : List (Arr α)) : Option (Result α) :=
  (opt (argSizes cfg.inAxes args)).bind fun sizes =>
  (opt (decideLength cfg.length sizes)).bind fun dLength =>
  (opt (cfg.inAxes.expand args.length)).bind fun inArgAxes =>
  (loopCore cfg verdict (innerMutable scopeMut cfg.outFs) body outer rngs init args inArgAxes dLength).map
    fun r => { vars := publish scopeMut outer (r.1 :: r.2.1.1 :: r.2.2.2), carry := r.2.1.2, ys := r.2.2.1 }

end Flax.LiftLoop
