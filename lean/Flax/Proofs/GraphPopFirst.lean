/- C03 helper lemmas: `pop` returns Variables under the first-encounter path of the DFS of `flatten` -/
import Flax.Proofs.GraphPopOut
import Flax.Proofs.GraphFirst
set_option linter.unusedSimpArgs false
set_option linter.unusedVariables false
namespace Flax.Graph
open Flax.Heap
open Flax.Filter (NFilter)

section PopFirst
variable {preds : List NFilter} {h0 : Heap}

def isNodeAt (hp : Heap) (a : Addr) : Prop := ∃ cls attrs, hp[a]? = some (.node cls attrs)

/-- `pop` and the DFS of `flatten` run in lock-step: same graph nodes visited, every selected Variable the
DFS has registered has been popped, and nothing but visited nodes differs from the original heap -/
structure Lock (preds : List NFilter) (h0 : Heap) (idx : RefIndex) (st : PopSt) : Prop where
  nodes : ∀ (a : Nat), isNodeAt st.heap a → (a ∈ idx ↔ a ∈ st.visited)
  varsIn : ∀ (b : Nat) ty val md, st.heap[b]? = some (.var ty val md) → b ∈ st.visited → b ∈ idx
  selIn : ∀ (b : Nat), sel preds h0 b → b ∈ idx → b ∈ st.visited
  same : ∀ (a : Nat), st.heap[a]? = h0[a]? ∨ (a ∈ st.visited ∧ isNodeAt st.heap a ∧ isNodeAt h0 a)

/-- every entry added to the output states was pushed at a registration of the DFS -/
def PushedAt (st st' : PopSt) (reg : Log) : Prop :=
  ∀ i, ∀ it ∈ st'.out.getD i [], it ∈ st.out.getD i [] ∨ ∃ b, (b, it.1) ∈ reg

theorem PushedAt.refl (st : PopSt) (reg : Log) : PushedAt st st reg := fun _ _ h => Or.inl h

theorem PushedAt.trans {st st1 st2 : PopSt} {reg1 reg2 : Log} (p1 : PushedAt st st1 reg1) (p2 : PushedAt st1 st2 reg2) :
    PushedAt st st2 (reg1 ++ reg2) := by
  intro i it hit
  rcases p2 i it hit with h1 | ⟨b, hb⟩
  · rcases p1 i it h1 with h2 | ⟨b, hb⟩
    · exact Or.inl h2
    · exact Or.inr ⟨b, List.mem_append_left _ hb⟩
  · exact Or.inr ⟨b, List.mem_append_right _ hb⟩

theorem Lock.var_h0 {idx : RefIndex} {st : PopSt} (l : Lock preds h0 idx st) {b : Nat} {ty val md}
    (hg : st.heap[b]? = some (.var ty val md)) : h0[b]? = some (.var ty val md) := by
  rcases l.same b with e | ⟨_, ⟨cls, attrs, hn⟩, _⟩
  · rw [← e]; exact hg
  · rw [hg] at hn; cases hn

theorem Lock.node_h0 {idx : RefIndex} {st : PopSt} (l : Lock preds h0 idx st) {a : Nat} {cls attrs}
    (hg : st.heap[a]? = some (.node cls attrs)) (hnv : a ∉ st.visited) : h0[a]? = some (.node cls attrs) := by
  rcases l.same a with e | ⟨hv, _, _⟩
  · rw [← e]; exact hg
  · exact absurd hv hnv

/-- erasing an attribute of a visited node keeps the lock -/
theorem Lock.erase {idx : RefIndex} {st : PopSt} (l : Lock preds h0 idx st) {a : Nat} (k : Key) (ha : a ∈ st.visited)
    (vis' : List Addr) (out' : List FlatState) (idx' : RefIndex)
    (hnodes : ∀ (x : Nat), isNodeAt st.heap x → (x ∈ idx' ↔ x ∈ vis'))
    (hvars : ∀ (b : Nat) ty val md, st.heap[b]? = some (.var ty val md) → b ∈ vis' → b ∈ idx')
    (hsel : ∀ (b : Nat), sel preds h0 b → b ∈ idx' → b ∈ vis')
    (hsub : ∀ x, x ∈ st.visited → x ∈ vis') :
    Lock preds h0 idx' { heap := eraseAttr st.heap a k, visited := vis', out := out' } := by
  have hsh := eraseAttr_shape st.heap a k
  have kind : ∀ (x : Nat), isNodeAt (eraseAttr st.heap a k) x → isNodeAt st.heap x := by
    intro x ⟨cls, attrs, hg⟩
    by_cases e : x = a
    · subst e
      have hlt : x < st.heap.length := by rw [hsh.len]; exact (List.getElem?_eq_some_iff.mp hg).1
      cases ho : st.heap[x]? with
      | none => rw [List.getElem?_eq_getElem hlt] at ho; cases ho
      | some o =>
        cases o with
        | node c l => exact ⟨c, l, ho⟩
        | var ty val md => have := (hsh.var x ty val md).mp ho; rw [hg] at this; cases this
    · rw [eraseAttr_other _ _ _ _ e] at hg; exact ⟨cls, attrs, hg⟩
  refine ⟨fun x hx => hnodes x (kind x hx), ?_, hsel, ?_⟩
  · intro b ty val md hg hb
    exact hvars b ty val md ((hsh.var b ty val md).mpr hg) hb
  · intro x
    by_cases e : x = a
    · subst e
      rcases l.same x with e1 | ⟨_, hn, hn0⟩
      · cases ho : st.heap[x]? with
        | none =>
          left; simp only [eraseAttr, ho]; rw [← e1, ho]
        | some o =>
          cases o with
          | var ty val md => left; simp only [eraseAttr, ho]; rw [← e1, ho]
          | node cls live =>
            right
            exact ⟨hsub x ha, ⟨cls, _, eraseAttr_self k ho⟩, ⟨cls, live, by rw [← e1]; exact ho⟩⟩
      · obtain ⟨cls, live, ho⟩ := hn
        exact Or.inr ⟨hsub x ha, ⟨cls, _, eraseAttr_self k ho⟩, hn0⟩
    · rcases l.same x with e1 | ⟨hv, hn, hn0⟩
      · left; simp only; rw [eraseAttr_other _ _ _ _ e]; exact e1
      · right
        obtain ⟨cls, live, ho⟩ := hn
        exact ⟨hsub x hv, ⟨cls, live, by simp only; rw [eraseAttr_other _ _ _ _ e]; exact ho⟩, hn0⟩

theorem traceVal_var {fuel : Nat} {h : Heap} {p : Path} {b : Addr} {idx : RefIndex} {enc reg : Log} {idx1 : RefIndex}
    {ty val md} (ht : traceVal fuel h p (.ref b) idx = .ok (enc, reg, idx1)) (hg : h[b]? = some (.var ty val md)) :
    (b ∈ idx ∧ reg = [] ∧ idx1 = idx) ∨ (b ∉ idx ∧ reg = [(b, p)] ∧ idx1 = idx ++ [b]) := by
  cases fuel with
  | zero => simp [traceVal] at ht
  | succ f =>
    simp only [traceVal] at ht
    split at ht
    · next i hi => simp at ht; obtain ⟨_, rfl, rfl⟩ := ht; exact Or.inl ⟨indexOf?_mem hi, rfl, rfl⟩
    · next hn =>
      simp only [hg] at ht
      simp at ht
      obtain ⟨_, rfl, rfl⟩ := ht
      exact Or.inr ⟨indexOf?_none.mp hn, rfl, rfl⟩

theorem lock_pop (hPI : PathIndep preds) : ∀ fuel : Nat,
    (∀ path v st st' idx enc reg idx', Lock preds h0 idx st →
      popNode true preds fuel path v st = .ok st' → traceVal fuel h0 path v idx = .ok (enc, reg, idx') →
      Lock preds h0 idx' st' ∧ PushedAt st st' reg ∧ ∀ x, x ∈ st.visited → x ∈ st'.visited) ∧
    (∀ path owner items st st' idx enc reg idx', Lock preds h0 idx st → (∀ a, owner = some a → a ∈ st.visited) →
      popItems true preds fuel path owner items st = .ok st' → traceItems fuel h0 path items idx = .ok (enc, reg, idx') →
      Lock preds h0 idx' st' ∧ PushedAt st st' reg ∧ ∀ x, x ∈ st.visited → x ∈ st'.visited) := by
  intro fuel
  induction fuel with
  | zero =>
    constructor
    · intro path v st st' idx enc reg idx' _ h; simp [popNode] at h
    · intro path owner items st st' idx enc reg idx' _ _ h; simp [popItems] at h
  | succ fuel ih =>
    constructor
    · intro path v st st' idx enc reg idx' l hp ht
      cases v with
      | static s => simp [popNode] at hp
      | array d => simp [popNode] at hp
      | none =>
        simp [popNode] at hp; simp [traceVal] at ht
        obtain ⟨_, rfl, rfl⟩ := ht; subst hp
        exact ⟨l, PushedAt.refl _ _, fun _ h => h⟩
      | seq t xs =>
        simp only [popNode] at hp; simp only [traceVal] at ht
        exact ih.2 path Option.none _ st st' idx enc reg idx' l (fun a ha => by cases ha) hp ht
      | dict kvs =>
        simp only [popNode] at hp; simp only [traceVal] at ht
        exact ih.2 path Option.none _ st st' idx enc reg idx' l (fun a ha => by cases ha) hp ht
      | ref a =>
        simp only [popNode] at hp
        split at hp
        · cases hp
        · cases hp
        · next cls live hget =>
          have hnode : isNodeAt st.heap a := ⟨cls, live, hget⟩
          split at hp
          · next hvis =>
            simp at hp; subst hp
            have hin : a ∈ idx := (l.nodes a hnode).mpr hvis
            obtain ⟨i, hi⟩ := indexOf?_of_mem hin
            simp [traceVal, hi] at ht
            obtain ⟨_, rfl, rfl⟩ := ht
            exact ⟨l, PushedAt.refl _ _, fun _ h => h⟩
          · next hnvis =>
            have hnin : a ∉ idx := fun hc => hnvis ((l.nodes a hnode).mp hc)
            have hg0 := l.node_h0 hget hnvis
            simp only [traceVal, indexOf?_none.mpr hnin, hg0] at ht
            split at ht
            · cases ht
            · next enc1 reg1 idx1 ht1 =>
              simp at ht; obtain ⟨rfl, rfl, rfl⟩ := ht
              have l1 : Lock preds h0 (idx ++ [a]) { st with visited := st.visited ++ [a] } := by
                refine ⟨?_, ?_, ?_, ?_⟩
                · intro x hx
                  simp only [List.mem_append, List.mem_singleton]
                  rw [l.nodes x hx]
                · intro b ty val md hg hb
                  simp only [List.mem_append, List.mem_singleton] at hb ⊢
                  rcases hb with h1 | h1
                  · exact Or.inl (l.varsIn b ty val md hg h1)
                  · exact Or.inr h1
                · intro b hs hb
                  simp only [List.mem_append, List.mem_singleton] at hb ⊢
                  rcases hb with h1 | h1
                  · exact Or.inl (l.selIn b hs h1)
                  · exact Or.inr h1
                · intro x
                  rcases l.same x with e | ⟨hv, hn, hn0⟩
                  · exact Or.inl e
                  · exact Or.inr ⟨List.mem_append_left _ hv, hn, hn0⟩
              obtain ⟨l', pa, hs'⟩ := ih.2 path (some a) _ _ st' _ enc1 reg1 idx1 l1 (fun a' ha' => by cases ha'; simp) hp ht1
              refine ⟨l', ?_, fun x hx => hs' x (List.mem_append_left _ hx)⟩
              intro i it hit
              rcases pa i it hit with h1 | ⟨b, hb⟩
              · exact Or.inl h1
              · exact Or.inr ⟨b, List.mem_cons_of_mem _ hb⟩
    · intro path owner items st st' idx enc reg idx' l ho hp ht
      cases items with
      | nil =>
        simp [popItems] at hp; simp [traceItems] at ht
        obtain ⟨_, rfl, rfl⟩ := ht; subst hp
        exact ⟨l, PushedAt.refl _ _, fun _ h => h⟩
      | cons kv rest =>
        obtain ⟨k, v⟩ := kv
        rw [popItems_cons] at hp
        simp only [traceItems] at ht
        split at hp
        · cases hp
        · next st1 hitem =>
          split at ht
          · cases ht
          · next enc1 reg1 idx1 ht1 =>
            split at ht
            · cases ht
            · next enc2 reg2 idx2 ht2 =>
              simp at ht; obtain ⟨rfl, rfl, rfl⟩ := ht
              -- the first item
              have step1 : Lock preds h0 idx1 st1 ∧ PushedAt st st1 reg1 ∧ (∀ x, x ∈ st.visited → x ∈ st1.visited) := by
                cases v with
                | static s =>
                  simp [popItem] at hitem; subst hitem
                  cases fuel with
                  | zero => simp [traceVal] at ht1
                  | succ f => simp [traceVal] at ht1; obtain ⟨_, rfl, rfl⟩ := ht1; exact ⟨l, PushedAt.refl _ _, fun _ h => h⟩
                | array d =>
                  simp [popItem] at hitem; subst hitem
                  cases fuel with
                  | zero => simp [traceVal] at ht1
                  | succ f => simp [traceVal] at ht1; obtain ⟨_, rfl, rfl⟩ := ht1; exact ⟨l, PushedAt.refl _ _, fun _ h => h⟩
                | none =>
                  simp only [popItem] at hitem
                  exact ih.1 _ _ st st1 idx enc1 reg1 idx1 l hitem ht1
                | seq t xs =>
                  simp only [popItem] at hitem
                  exact ih.1 _ _ st st1 idx enc1 reg1 idx1 l hitem ht1
                | dict kvs =>
                  simp only [popItem] at hitem
                  exact ih.1 _ _ st st1 idx enc1 reg1 idx1 l hitem ht1
                | ref b =>
                  simp only [popItem] at hitem
                  split at hitem
                  · cases hitem
                  · exact ih.1 _ _ st st1 idx enc1 reg1 idx1 l hitem ht1
                  · next ty val md hget =>
                    have hb0 := l.var_h0 hget
                    have hnotnode : ∀ (x : Nat), isNodeAt st.heap x → x ≠ b := by
                      rintro x ⟨c, at', hx⟩ e; subst e; rw [hget] at hx; cases hx
                    have hsel_iff : sel preds h0 b ↔ bucketOf preds (path ++ [k], .vstate ty val md) < preds.length := by
                      constructor
                      · rintro ⟨ty', val', md', hg, hlt⟩
                        rw [hb0] at hg; cases hg
                        rw [hPI (path ++ [k]) [] _]; exact hlt
                      · intro hlt
                        exact ⟨ty, val, md, hb0, by rw [hPI [] (path ++ [k]) _]; exact hlt⟩
                    have htv := traceVal_var ht1 hb0
                    split at hitem
                    · next hvis =>
                      have hbin : b ∈ idx := l.varsIn b ty val md hget hvis
                      rcases htv with ⟨_, hreg, hidx⟩ | ⟨hnin, _, _⟩
                      · subst hreg; subst hidx
                        cases owner with
                        | none => cases hitem
                        | some a =>
                          simp at hitem; subst hitem
                          exact ⟨l.erase k (ho a rfl) st.visited st.out _ l.nodes l.varsIn l.selIn (fun _ h => h),
                            fun i it hit => Or.inl hit, fun _ h => h⟩
                      · exact absurd hbin hnin
                    · next hnvis =>
                      split at hitem
                      · next hlt =>
                        have hs : sel preds h0 b := hsel_iff.mpr hlt
                        rcases htv with ⟨hin, _, _⟩ | ⟨hnin, hreg, hidx⟩
                        · exact absurd (l.selIn b hs hin) hnvis
                        · subst hreg; subst hidx
                          cases owner with
                          | none => cases hitem
                          | some a =>
                            simp at hitem; subst hitem
                            refine ⟨l.erase k (ho a rfl) _ _ _ ?_ ?_ ?_ (fun x hx => List.mem_append_left _ hx), ?_,
                              fun x hx => List.mem_append_left _ hx⟩
                            · intro x hx
                              have := hnotnode x hx
                              simp only [List.mem_append, List.mem_singleton, this, or_false]
                              exact l.nodes x hx
                            · intro b' ty' val' md' hg hb'
                              simp only [List.mem_append, List.mem_singleton] at hb' ⊢
                              rcases hb' with h1 | h1
                              · exact Or.inl (l.varsIn b' ty' val' md' hg h1)
                              · exact Or.inr h1
                            · intro b' hs' hb'
                              simp only [List.mem_append, List.mem_singleton] at hb' ⊢
                              rcases hb' with h1 | h1
                              · exact Or.inl (l.selIn b' hs' h1)
                              · exact Or.inr h1
                            · intro i it hit
                              simp only at hit
                              rw [pushOut_getD] at hit
                              split at hit
                              · rcases List.mem_append.mp hit with h1 | h1
                                · next hc => exact Or.inl (hc.1 ▸ h1)
                                · simp at h1; subst h1; exact Or.inr ⟨b, by simp⟩
                              · exact Or.inl hit
                      · next hnlt =>
                        simp at hitem; subst hitem
                        have hns : ¬ sel preds h0 b := fun hs => hnlt (hsel_iff.mp hs)
                        rcases htv with ⟨_, hreg, hidx⟩ | ⟨hnin, hreg, hidx⟩
                        · subst hreg; subst hidx; exact ⟨l, PushedAt.refl _ _, fun _ h => h⟩
                        · subst hreg; subst hidx
                          refine ⟨⟨?_, ?_, ?_, l.same⟩, PushedAt.refl _ _, fun _ h => h⟩
                          · intro x hx
                            have := hnotnode x hx
                            simp only [List.mem_append, List.mem_singleton, this, or_false]
                            exact l.nodes x hx
                          · intro b' ty' val' md' hg hb'
                            exact List.mem_append_left _ (l.varsIn b' ty' val' md' hg hb')
                          · intro b' hs' hb'
                            simp only [List.mem_append, List.mem_singleton] at hb'
                            rcases hb' with h1 | h1
                            · exact l.selIn b' hs' h1
                            · subst h1; exact absurd hs' hns
              obtain ⟨l1, p1, hsub⟩ := step1
              obtain ⟨l2, p2, hsub2⟩ := ih.2 path owner rest st1 st' idx1 enc2 reg2 idx2 l1 (fun a ha => hsub a (ho a ha)) hp ht2
              exact ⟨l2, p1.trans p2, fun x hx => hsub2 x (hsub x hx)⟩

/-- **`pop` returns every Variable under the path by which the DFS of `flatten` first reaches it** -/
theorem pop_first_path (hPI : PathIndep preds) (h : Heap) (root : PVal) (hw : Heap.wf h = true) (hrw : root.wf = true)
    (h' : Heap) (outs : List FlatState) (hp : pop true h root preds = .ok (h', outs))
    (gd : GDef) (ls : FlatState) (idx : RefIndex) (hf : flatten h root = .ok (gd, ls, idx)) :
    ∃ enc reg, trace h root = .ok (enc, reg, idx) ∧
      ∀ i, ∀ it ∈ outs.getD i [], ∃ b, resolve h root it.1 = some (.ref b) ∧ firstOcc b enc = some it.1 := by
  obtain ⟨enc, reg, ht, _, hres, hfirst, _⟩ := flatten_first h root hw hrw gd ls idx hf
  refine ⟨enc, reg, ht, ?_⟩
  unfold pop at hp
  split at hp
  · cases hp
  · split at hp
    · cases hp
    · next st' hrun =>
      simp at hp; obtain ⟨rfl, rfl⟩ := hp
      unfold trace at ht
      split at ht
      · have l0 : Lock preds h [] { heap := h, visited := [], out := List.map (fun _ => []) preds } :=
          ⟨(fun a _ => by simp), (fun b _ _ _ _ hb => by cases hb), (fun b _ hb => by cases hb), fun a => Or.inl rfl⟩
        obtain ⟨_, pa, _⟩ := (lock_pop (preds := preds) (h0 := h) hPI _).1 [] root _ st' [] enc reg idx l0 hrun ht
        intro i it hit
        rcases pa i it hit with h1 | ⟨b, hb⟩
        · simp only [getD_map_nil] at h1; cases h1
        · have hfo := hfirst (b, it.1) hb
          exact ⟨b, hres (b, it.1) (firstOcc_mem hfo), hfo⟩
      · cases ht

end PopFirst
end Flax.Graph
