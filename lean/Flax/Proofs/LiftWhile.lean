/-
The lifted while loop simulates the Python while loop (helper development for `Flax.C05.while_eq_iterate`).

Loop invariant `WInv`: the carried variable group `cv` of the lifted loop and the scope `sk` the Python loop has
reached describe the same variables — `sk` is the original scope `s` overlaid with `cv` on the collections that are
carried and mutable.
-/
import Flax.Proofs.Lift

namespace Flax.Lift
open Flax.Filter

theorem eval_ctr_norng (env : Env) (b : Prog) : ∀ (m m' : M), eval env b m = .ok m' → rngNames b = [] →
    m'.sc.counters = m.sc.counters ∧ m'.keys = m.keys := by
  induction b with
  | skip => intro m m' h _; simp [eval] at h; subst h; exact ⟨rfl, rfl⟩
  | seq p q ihp ihq =>
    intro m m' h hr
    simp only [rngNames, List.append_eq_nil_iff] at hr
    simp only [eval] at h
    split at h
    · cases h
    · rename_i m1 h1
      have a := ihp m m1 h1 hr.1
      have b := ihq m1 m' h hr.2
      exact ⟨b.1.trans a.1, b.2.trans a.2⟩
  | get c n =>
    intro m m' h _
    simp only [eval] at h
    split at h
    · cases h; exact ⟨rfl, rfl⟩
    · cases h
  | has c n => intro m m' h _; simp only [eval] at h; cases h; exact ⟨rfl, rfl⟩
  | put c n e =>
    intro m m' h _
    simp only [eval] at h
    split at h
    · cases h
    · split at h
      · cases h
      · rename_i sc hp
        cases h
        rw [(put_ok hp).2]; exact ⟨rfl, rfl⟩
  | decl c n e =>
    intro m m' h _
    simp only [eval] at h
    split at h
    · cases h; exact ⟨rfl, rfl⟩
    · split at h
      · split at h
        · cases h
        · split at h
          · cases h
          · rename_i sc hp
            cases h
            rw [(put_ok hp).2]; exact ⟨rfl, rfl⟩
      · cases h
  | rng s => intro m m' _ hr; simp [rngNames] at hr
  | rngAt p s => intro m m' _ hr; simp [rngNames] at hr

/-- `runFn` on two scopes related by `Sim` -/
theorem sim_runFn {D W R : String → Prop} (attrs : List (String × Int)) (f : Fn) (args : List Int) (s i : ScopeSt)
    (hs : Sim D W R s i) (hD : ∀ c, c ∈ cols f.body → D c) (hW : ∀ c, c ∈ wcols f.body → W c)
    (hR : rngNames f.body = []) :
    match runFn attrs f args s, runFn attrs f args i with
    | .ok (y, s1), .ok (y', i1) => y = y' ∧ Sim D W R s1 i1
    | .error e, .error e' => e = e'
    | _, _ => False := by
  have hres := sim_eval (D := D) (W := W) (R := R) ⟨args, attrs⟩ f.body ⟨[], [], s⟩ ⟨[], [], i⟩ rfl rfl hs hD hW
    (by intro r hr; simp [hR] at hr) (by intro h; exact absurd hR h)
  simp only [runFn]
  cases hp : eval ⟨args, attrs⟩ f.body ⟨[], [], s⟩ with
  | error e =>
    cases hq : eval ⟨args, attrs⟩ f.body ⟨[], [], i⟩ with
    | error e' => simp only [hp, hq, SimRes] at hres; exact hres
    | ok m' => simp [hp, hq, SimRes] at hres
  | ok m =>
    cases hq : eval ⟨args, attrs⟩ f.body ⟨[], [], i⟩ with
    | error e' => simp [hp, hq, SimRes] at hres
    | ok m' =>
      simp only [hp, hq, SimRes] at hres
      obtain ⟨h1, h2, h3⟩ := hres
      simp only [← h1]
      cases evalRets ⟨args, attrs⟩ m.regs f.ret with
      | none => simp
      | some vs => simp only; exact ⟨by rw [h2], h3⟩

theorem varsWF_append (a b : Vars) (ha : VarsWF a) (hb : VarsWF b) (hd : ∀ c, c ∈ keys a → c ∉ keys b) :
    VarsWF (a ++ b) := by
  refine ⟨?_, ?_⟩
  · simp only [keys, List.map_append]
    rw [List.nodup_append]
    exact ⟨ha.1, hb.1, fun x hx y hy e => hd x hx (e ▸ hy)⟩
  · intro c coll hm
    rcases List.mem_append.mp hm with h | h
    · exact ha.2 c coll h
    · exact hb.2 c coll h

section while_sim

variable (s : ScopeSt) (carryF bcF : LFilter)

/-- the two variable groups `_partial_pack` builds for `while_loop` -/
def wCarry0 : Vars := s.vars.filter (fun kv => inFilter carryF kv.1)
def wBroadcast : Vars := (s.vars.filter (fun kv => !(inFilter carryF kv.1))).filter (fun kv => inFilter bcF kv.1)

/-- the inner scope of one `cond_wrapper` / `body_wrapper` call -/
def wInner (cv : Vars) (mf : LFilter) : ScopeSt :=
  scopeFn s [carryF] (frozenNames [wCarry0 s carryF, wBroadcast s carryF bcF] [carryF]) [cv, wBroadcast s carryF bcF] [] mf
    s.counters

structure WInv (cv : Vars) (sk : ScopeSt) : Prop where
  mutable : sk.mutable = s.mutable
  frozen : sk.frozen = s.frozen
  rngs : sk.rngs = s.rngs
  ctr : sk.counters = s.counters
  wfcv : VarsWF cv
  wfsk : VarsWF sk.vars
  cvkeys : ∀ c, c ∈ keys cv → inFilter carryF c = true ∧ inFilter s.mutable c = true
  cvmono : ∀ c n, (inFilter s.mutable c && inFilter carryF c) = true → (getVar s.vars c n).isSome = true →
    (getVar cv c n).isSome = true
  view : ∀ c n, getVar sk.vars c n =
    if (inFilter s.mutable c && inFilter carryF c) = true then
      (match getVar cv c n with | some v => some v | none => getVar s.vars c n)
    else getVar s.vars c n

variable {s carryF bcF}

theorem winv_init (hwf : VarsWF s.vars)
    (hcarry : ∀ c, c ∈ keys s.vars → inFilter carryF c = true → inFilter s.mutable c = true) :
    WInv s carryF (wCarry0 s carryF) s where
  mutable := rfl
  frozen := rfl
  rngs := rfl
  ctr := rfl
  wfcv := varsWF_filter _ _ hwf
  wfsk := hwf
  cvkeys := by
    intro c hc
    simp only [wCarry0, keys, List.mem_map, List.mem_filter] at hc
    obtain ⟨x, ⟨hx, hcf⟩, rfl⟩ := hc
    exact ⟨hcf, hcarry x.1 (List.mem_map.mpr ⟨x, hx, rfl⟩) hcf⟩
  cvmono := by
    intro c n hP hs
    simp only [Bool.and_eq_true] at hP
    simp only [wCarry0, getVar, alookup_filter_key (fun c => inFilter carryF c), hP.2, ↓reduceIte]
    exact hs
  view := by
    intro c n
    simp only [wCarry0, getVar, alookup_filter_key (fun c => inFilter carryF c)]
    cases inFilter s.mutable c <;> cases hc : inFilter carryF c <;> simp
    cases alookup c s.vars with
    | none => rfl
    | some coll => simp only; cases alookup n coll <;> rfl

theorem wbroadcast_lookup (c : String) :
    alookup c (wBroadcast s carryF bcF) = if (!(inFilter carryF c) && inFilter bcF c) = true then alookup c s.vars else none := by
  simp only [wBroadcast, alookup_filter_key (fun c => inFilter bcF c), alookup_filter_key (fun c => !(inFilter carryF c))]
  cases inFilter carryF c <;> cases inFilter bcF c <;> simp

theorem winv_sim (mf : LFilter) (hfz : s.FrozenOk) {cv : Vars} {sk : ScopeSt} (h : WInv s carryF cv sk)
    (hcarry : ∀ c, c ∈ keys s.vars → inFilter carryF c = true → inFilter s.mutable c = true) :
    Sim (fun c => (inFilter carryF c || inFilter bcF c) = true)
      (fun c => inFilter s.mutable c = true → inFilter carryF c = true ∧ inFilter mf c = true)
      (fun _ => False) sk (wInner s carryF bcF cv mf) where
  vars := by
    intro c hD n
    rw [h.view]
    simp only [wInner, scopeFn, List.flatten_cons, List.flatten_nil, List.append_nil, getVar, alookup_append,
      wbroadcast_lookup]
    cases hc : inFilter carryF c with
    | true =>
      simp only [Bool.not_true, Bool.false_and, Bool.false_eq_true, ↓reduceIte, Bool.and_true]
      cases hm : inFilter s.mutable c with
      | true =>
        simp only [↓reduceIte]
        cases hcv : alookup c cv with
        | none =>
          simp only
          -- nothing carried for `c`: then `s` has nothing there either
          cases hs : alookup c s.vars with
          | none => rfl
          | some coll =>
            simp only
            cases hn : alookup n coll with
            | none => rfl
            | some v =>
              have := h.cvmono c n (by simp [hm, hc]) (by simp [getVar, hs, hn])
              simp [getVar, hcv] at this
        | some coll =>
          simp only
          cases hn : alookup n coll with
          | some v => rfl
          | none =>
            simp only
            cases hs : alookup c s.vars with
            | none => rfl
            | some coll' =>
              simp only
              cases hn' : alookup n coll' with
              | none => rfl
              | some v =>
                have := h.cvmono c n (by simp [hm, hc]) (by simp [getVar, hs, hn'])
                simp [getVar, hcv, hn] at this
      | false =>
        simp only [Bool.false_eq_true, ↓reduceIte]
        -- carried but immutable: by `hcarry` the scope has no such collection, and `cv` never holds one
        have hs : alookup c s.vars = none := by
          rw [alookup_none_iff]
          intro hk
          have := hcarry c hk hc
          simp [hm] at this
        have hcv : alookup c cv = none := by
          rw [alookup_none_iff]
          intro hk
          have := (h.cvkeys c hk).2
          simp [hm] at this
        simp [hs, hcv]
    | false =>
      have hb : inFilter bcF c = true := by simpa [hc] using hD
      have hcv : alookup c cv = none := by
        rw [alookup_none_iff]
        intro hk
        have := (h.cvkeys c hk).1
        simp [hc] at this
      simp [hcv, hb]
  mutb := by
    intro c hW
    rw [wInner, inFilter_scopeFn, h.mutable]
    cases hm : inFilter s.mutable c with
    | false => simp
    | true => simp [anyMatch, (hW hm).1, (hW hm).2]
  ifro := by
    intro c hc
    rw [wInner, inFilter_scopeFn]
    simp only [wInner, scopeFn, frozenNames, List.mem_filter] at hc
    have : anyMatch [carryF] c = false := by simpa using hc.2
    simp [this]
  sfro := by
    intro c hc
    rw [h.mutable]
    exact hfz c (by rw [← h.frozen]; exact hc)
  rngs := by intro r hr; exact absurd hr id
  ctr := by simp [wInner, scopeFn, h.ctr]

/-- the condition function: same verdict, and the Python scope is unchanged as far as the invariant sees -/
theorem wcond_step (attrs : List (String × Int)) (condFn : Fn) (hfz : s.FrozenOk)
    (hcarry : ∀ c, c ∈ keys s.vars → inFilter carryF c = true → inFilter s.mutable c = true)
    (hD : ∀ c, c ∈ cols condFn.body → (inFilter carryF c || inFilter bcF c) = true)
    (hW : wcols condFn.body = []) (hR : rngNames condFn.body = [])
    {cv : Vars} {sk : ScopeSt} (h : WInv s carryF cv sk) (carry : List Int) :
    match runFn attrs condFn carry sk, runFn attrs condFn carry (wInner s carryF bcF cv .ff) with
    | .ok (y, s1), .ok (y', _) => y = y' ∧ WInv s carryF cv s1
    | .error e, .error e' => e = e'
    | _, _ => False := by
  have hsim := sim_runFn attrs condFn carry sk _ (winv_sim (bcF := bcF) .ff hfz h hcarry) hD
    (by intro c hc; simp [hW] at hc) hR
  cases hp : runFn attrs condFn carry sk with
  | error e =>
    cases hq : runFn attrs condFn carry (wInner s carryF bcF cv .ff) with
    | error e' => simp only [hp, hq] at hsim; exact hsim
    | ok r => obtain ⟨y', i1⟩ := r; simp [hp, hq] at hsim
  | ok r0 =>
    obtain ⟨y, s1⟩ := r0
    cases hq : runFn attrs condFn carry (wInner s carryF bcF cv .ff) with
    | error e' => simp [hp, hq] at hsim
    | ok r =>
      obtain ⟨y', i1⟩ := r
      simp only [hp, hq] at hsim
      refine ⟨hsim.1, ?_⟩
      -- unpack the plain run
      simp only [runFn] at hp
      split at hp
      · cases hp
      · rename_i m hev
        split at hp
        · cases hp
        · cases hp
          have hst := eval_static _ _ _ _ hev
          have hct := eval_ctr_norng _ _ _ _ hev hR
          have hfr : ∀ c, alookup c m.sc.vars = alookup c sk.vars :=
            fun c => eval_frame _ _ c _ _ hev (Or.inl (by simp [hW]))
          exact {
            mutable := hst.1.trans h.mutable, frozen := hst.2.1.trans h.frozen, rngs := hst.2.2.trans h.rngs
            ctr := hct.1.trans h.ctr, wfcv := h.wfcv, wfsk := eval_wf _ _ _ _ hev h.wfsk
            cvkeys := h.cvkeys, cvmono := h.cvmono
            view := by intro c n; rw [← h.view c n]; simp [getVar, hfr c] }

theorem groupBy_single (xs : List (String × α)) (f : LFilter) :
    groupBy xs [f] = [xs.filter (fun kv => inFilter f kv.1)] := by simp [groupBy]

/-- one loop body: same carry, and the invariant is re-established for the repacked carry variables -/
theorem wbody_step (attrs : List (String × Int)) (bodyFn : Fn) (hwf : VarsWF s.vars) (hfz : s.FrozenOk)
    (hcarry : ∀ c, c ∈ keys s.vars → inFilter carryF c = true → inFilter s.mutable c = true)
    (hD : ∀ c, c ∈ cols bodyFn.body → (inFilter carryF c || inFilter bcF c) = true)
    (hW : ∀ c, c ∈ wcols bodyFn.body → inFilter s.mutable c = true → inFilter carryF c = true)
    (hR : rngNames bodyFn.body = [])
    {cv : Vars} {sk : ScopeSt} (h : WInv s carryF cv sk) (carry : List Int) :
    match runFn attrs bodyFn carry sk, runFn attrs bodyFn carry (wInner s carryF bcF cv .tt) with
    | .ok (y, s2), .ok (y', i') =>
        y = y' ∧ repack [carryF] i' = .ok [(i'.vars.filter (fun kv => inFilter i'.mutable kv.1)).filter (fun kv => inFilter carryF kv.1)] ∧
        WInv s carryF ((i'.vars.filter (fun kv => inFilter i'.mutable kv.1)).filter (fun kv => inFilter carryF kv.1)) s2
    | .error e, .error e' => e = e'
    | _, _ => False := by
  have hsim0 := winv_sim (bcF := bcF) .tt hfz h hcarry
  have hsim := sim_runFn attrs bodyFn carry sk _ hsim0 hD
    (by intro c hc hm; exact ⟨hW c hc hm, rfl⟩) hR
  cases hp : runFn attrs bodyFn carry sk with
  | error e =>
    cases hq : runFn attrs bodyFn carry (wInner s carryF bcF cv .tt) with
    | error e' => simp only [hp, hq] at hsim; exact hsim
    | ok r => obtain ⟨y', i1⟩ := r; simp [hp, hq] at hsim
  | ok r0 =>
    obtain ⟨y, s2⟩ := r0
    cases hq : runFn attrs bodyFn carry (wInner s carryF bcF cv .tt) with
    | error e' => simp [hp, hq] at hsim
    | ok r =>
      obtain ⟨y', i'⟩ := r
      simp only [hp, hq] at hsim
      obtain ⟨hy, hfin⟩ := hsim
      -- unpack both runs
      simp only [runFn] at hp hq
      split at hp
      · cases hp
      · rename_i m hev
        split at hp
        · cases hp
        · cases hp
          split at hq
          · cases hq
          · rename_i m' hev'
            split at hq
            · cases hq
            · cases hq
              have hst := eval_static _ _ _ _ hev
              have hst' := eval_static _ _ _ _ hev'
              have hct := eval_ctr_norng _ _ _ _ hev hR
              simp only at hst hst' hct
              have hmu : ∀ c, inFilter m'.sc.mutable c = (inFilter s.mutable c && inFilter carryF c) := by
                intro c; rw [hst'.1, wInner, inFilter_scopeFn]; simp [anyMatch, inFilter]
              have hrep := repack_ok [carryF] m'.sc (by
                intro c hc; rw [hmu] at hc; simp only [Bool.and_eq_true] at hc; simp [anyMatch, hc.2])
              rw [groupBy_single] at hrep
              refine ⟨hy, hrep, ?_⟩
              -- lookups in the new carry group
              have hcv' : ∀ c n, getVar ((m'.sc.vars.filter (fun kv => inFilter m'.sc.mutable kv.1)).filter
                  (fun kv => inFilter carryF kv.1)) c n =
                  if (inFilter s.mutable c && inFilter carryF c) = true then getVar m'.sc.vars c n else none := by
                intro c n
                unfold getVar
                rw [alookup_filter_key (fun c => inFilter carryF c),
                  alookup_filter_key (fun c => inFilter m'.sc.mutable c), hmu]
                cases inFilter s.mutable c <;> cases inFilter carryF c <;> simp
              -- the inner scope's variables before the body
              have hwfi : VarsWF (wInner s carryF bcF cv .tt).vars := by
                simp only [wInner, scopeFn, List.flatten_cons, List.flatten_nil, List.append_nil]
                apply varsWF_append _ _ h.wfcv
                · exact varsWF_filter _ _ (varsWF_filter _ _ hwf)
                · intro c hc hb
                  have h1 := (h.cvkeys c hc).1
                  have h2 : alookup c (wBroadcast s carryF bcF) ≠ none := by
                    rw [Ne, alookup_none_iff]; exact fun hn => hn hb
                  rw [wbroadcast_lookup] at h2
                  simp [h1] at h2
              exact {
                mutable := hst.1.trans h.mutable, frozen := hst.2.1.trans h.frozen, rngs := hst.2.2.trans h.rngs
                ctr := hct.1.trans h.ctr
                wfcv := varsWF_filter _ _ (varsWF_filter _ _ (eval_wf _ _ _ _ hev' hwfi))
                wfsk := eval_wf _ _ _ _ hev h.wfsk
                cvkeys := by
                  intro c hc
                  simp only [keys, List.mem_map, List.mem_filter] at hc
                  obtain ⟨x, ⟨⟨_, hm⟩, hcf⟩, rfl⟩ := hc
                  rw [hmu] at hm
                  simp only [Bool.and_eq_true] at hm
                  exact ⟨hcf, hm.1⟩
                cvmono := by
                  intro c n hP hs
                  rw [hcv', if_pos hP]
                  apply eval_mono _ _ c n _ _ hev'
                  simp only [Bool.and_eq_true] at hP
                  have h0 := hsim0.vars c (by simp [hP.2]) n
                  rw [h0, h.view, if_pos (by simp [hP.1, hP.2])]
                  have := h.cvmono c n (by simp [hP.1, hP.2]) hs
                  cases hg : getVar cv c n with
                  | none => simp [hg] at this
                  | some v => simp
                view := by
                  intro c n
                  rw [hcv']
                  by_cases hDc : (inFilter carryF c || inFilter bcF c) = true
                  · have hv := hfin.vars c hDc n
                    by_cases hP : (inFilter s.mutable c && inFilter carryF c) = true
                    · simp only [hP, ↓reduceIte, hv]
                      cases hg : getVar m.sc.vars c n with
                      | some v => rfl
                      | none =>
                        simp only
                        cases hs : getVar s.vars c n with
                        | none => rfl
                        | some v =>
                          -- monotonicity: `s` has it, so `sk` has it (view), so the run keeps it
                          have h1 : (getVar sk.vars c n).isSome = true := by
                            rw [h.view, if_pos hP]
                            cases getVar cv c n <;> simp [hs]
                          have := eval_mono _ _ c n _ _ hev h1
                          simp [hg] at this
                    · simp only [hP, Bool.false_eq_true, ↓reduceIte]
                      have hfr : alookup c m.sc.vars = alookup c sk.vars := by
                        apply eval_frame _ _ c _ _ hev
                        by_cases hw : c ∈ wcols bodyFn.body
                        · right
                          rw [h.mutable]
                          cases hm : inFilter s.mutable c with
                          | false => rfl
                          | true => exact absurd (by simp [hm, hW c hw hm]) hP
                        · exact Or.inl hw
                      have : getVar m.sc.vars c n = getVar sk.vars c n := by simp [getVar, hfr]
                      rw [this, h.view]
                      simp [hP]
                  · have hnc : c ∉ cols bodyFn.body := fun hc => hDc (hD c hc)
                    have hnw : c ∉ wcols bodyFn.body := fun hc => hnc (wcols_sub_cols _ c hc)
                    have hfr : alookup c m.sc.vars = alookup c sk.vars := eval_frame _ _ c _ _ hev (Or.inl hnw)
                    have : getVar m.sc.vars c n = getVar sk.vars c n := by simp [getVar, hfr]
                    have hcf : inFilter carryF c = false := by
                      cases hc : inFilter carryF c with
                      | false => rfl
                      | true => simp [hc] at hDc
                    rw [this, h.view]
                    simp [hcf] }

end while_sim

end Flax.Lift

namespace Flax.Lift
open Flax.Filter

/-! ### `fork_rngs` -/

/-- the LazyRng `fork_rngs` installs for a stream with rng `r` and counter `k` -/
def forkedRng (r : LazyRng) (k : Nat) : LazyRng := ⟨foldStatic r.key (r.suffix ++ [Datum.n (k + 1)]), []⟩

theorem makeRng_present (s : ScopeSt) (nm : String) (r : LazyRng) (k : Nat)
    (hr : alookup nm s.rngs = some r) (hk : alookup nm s.counters = some k) :
    s.makeRng nm = .ok (foldStatic r.key (r.suffix ++ [Datum.n (k + 1)]),
      { s with counters := ainsert nm (k + 1) s.counters }) := by
  simp [ScopeSt.makeRng, ScopeSt.rngName, hr, hk]

theorem forkGo_spec : ∀ (names : List String) (s : ScopeSt) (acc : Rngs), names.Nodup →
    (∀ nm, nm ∈ names → ∃ r k, alookup nm s.rngs = some r ∧ alookup nm s.counters = some k) →
    ∃ s', forkGo names s acc = .ok s' ∧ s'.vars = s.vars ∧ s'.mutable = s.mutable ∧ s'.frozen = s.frozen ∧
      (∀ nm, alookup nm s'.counters =
        if nm ∈ names then (alookup nm s.counters).map (· + 1) else alookup nm s.counters) ∧
      (∀ nm, alookup nm acc = none → alookup nm s'.rngs =
        if nm ∈ names then
          (match alookup nm s.rngs, alookup nm s.counters with
           | some r, some k => some (forkedRng r k)
           | _, _ => none)
        else none) := by
  intro names
  induction names with
  | nil =>
    intro s acc _ _
    exact ⟨{ s with rngs := acc }, rfl, rfl, rfl, rfl, by simp, by intro nm h; simp [h]⟩
  | cons n0 rest ih =>
    intro s acc hnd hall
    simp only [List.nodup_cons] at hnd
    obtain ⟨r0, k0, hr0, hk0⟩ := hall n0 List.mem_cons_self
    simp only [forkGo, makeRng_present s n0 r0 k0 hr0 hk0]
    have hall' : ∀ nm, nm ∈ rest → ∃ r k,
        alookup nm ({ s with counters := ainsert n0 (k0 + 1) s.counters } : ScopeSt).rngs = some r ∧
        alookup nm ({ s with counters := ainsert n0 (k0 + 1) s.counters } : ScopeSt).counters = some k := by
      intro nm hnm
      obtain ⟨r, k, h1, h2⟩ := hall nm (List.mem_cons_of_mem _ hnm)
      have hne : nm ≠ n0 := fun e => hnd.1 (e ▸ hnm)
      exact ⟨r, k, h1, by simp [alookup_ainsert_ne hne, h2]⟩
    obtain ⟨s', h1, h2, h3, h4, h5, h6⟩ := ih { s with counters := ainsert n0 (k0 + 1) s.counters }
      (acc ++ [(n0, forkedRng r0 k0)]) hnd.2 hall'
    refine ⟨s', ?_, h2, h3, h4, ?_, ?_⟩
    · simpa [forkedRng] using h1
    · intro nm
      rw [h5]
      by_cases hn : nm = n0
      · subst hn
        simp [hnd.1, alookup_ainsert_same, hk0]
      · simp [hn, alookup_ainsert_ne hn]
    · intro nm hacc
      by_cases hn : nm = n0
      · subst hn
        -- the entry appended for `n0` is found first
        have hrest := h6
        have : alookup nm s'.rngs = some (forkedRng r0 k0) := by
          -- `s'.rngs` extends `acc ++ [(nm, …)]`; use the characterisation with accumulator lookups
          have hgo : ∀ (names : List String) (s : ScopeSt) (acc : Rngs) (s'' : ScopeSt) (v : LazyRng),
              forkGo names s acc = .ok s'' → alookup nm acc = some v → alookup nm s''.rngs = some v := by
            intro names
            induction names with
            | nil => intro s acc s'' v h hv; simp [forkGo] at h; subst h; exact hv
            | cons a as ih2 =>
              intro s acc s'' v h hv
              simp only [forkGo] at h
              split at h
              · cases h
              · exact ih2 _ _ _ _ h (by simp [alookup_append, hv])
          exact hgo rest _ _ _ _ h1 (by simp [alookup_append, hacc, alookup])
        simp [this, hr0, hk0]
      · have hacc' : alookup nm (acc ++ [(n0, forkedRng r0 k0)]) = none := by
          have hn' : ¬ n0 = nm := fun e => hn e.symm
          simp [alookup_append, hacc, alookup, hn']
        rw [h6 nm hacc']
        simp [hn, alookup_ainsert_ne hn]

end Flax.Lift
