/- C06 helper lemmas: the pieces of `axes_scan.scan` / `lift.scan` against the explicit loop -/
import Flax.Model.LiftLoop
import Flax.Proofs.LiftLoopSpec
import Flax.Proofs.LiftLoopTree
import Flax.Proofs.LiftLoopGroup
import Flax.Proofs.LiftLoopFold
import Flax.Proofs.LiftLoopStack

set_option linter.unusedSimpArgs false
set_option linter.unusedSectionVars false

namespace Flax.LiftLoop
open Flax.Filter
variable {α : Type} [Inhabited α]

/-! ### A. `xs = tree_map(transpose_to_front, in_axes, args)` and slicing along the leading axis -/

theorem leadDim_of_front (a F : Arr α) (ax : Int) (hF : a.toFront ax = .ok F) :
    opt (leadDim F) = opt (dimAt ax a) := by
  have := leadDim_front a ax
  rw [hF] at this
  simpa [bind, Except.bind] using this

theorem dimAt_none_of_front_error (a : Arr α) (ax : Int) (e : Err) (hF : a.toFront ax = .error e) :
    opt (dimAt ax a) = none := by
  have := leadDim_front a ax
  rw [hF] at this
  simpa [bind, Except.bind] using this.symm

theorem groups_front_slices (ps : List (Int × Vars α)) (gsF : List (Vars α))
    (h : mapE groupToFront ps = .ok gsF) (i : Nat) :
    mapE (Vars.mapE (fun a => a.take 0 i)) gsF = mapE (groupSlice i) ps := by
  refine mapE_chain ?_ ps gsF h
  intro p gF hp
  exact Vars.mapE_chain (fun a b hab => take_front_eq a b p.1 hab i) p.2 gF hp

theorem groups_front_dims (ps : List (Int × Vars α)) (gsF : List (Vars α))
    (h : mapE groupToFront ps = .ok gsF) :
    opt (mapE (fun g => mapE leadDim (Vars.leaves g)) gsF) = opt (mapE groupDims ps) := by
  refine mapE_chain_opt ?_ ps gsF h
  intro p gF hp
  have hl := Vars.leaves_mapE p.2 gF hp
  exact mapE_chain_opt (fun a F hF => leadDim_of_front a F p.1 hF) _ _ hl

theorem groups_front_error (ps : List (Int × Vars α)) (e : Err) (h : mapE groupToFront ps = .error e) :
    opt (mapE groupDims ps) = none := by
  refine mapE_error_opt ?_ ps e h
  intro p e' hp
  have he := Vars.mapE_error_leaves p.2 e' hp
  exact mapE_error_opt (fun a e3 ha => dimAt_none_of_front_error a p.1 e3 ha) _ e' he

theorem args_front_slices (ps : List (Option Int × Arr α)) (asF : List (Option (Arr α) × Arr α))
    (h : mapE argToFront ps = .ok asF) (i : Nat) :
    mapE (argTake0 i) asF = mapE (argTakeAt i) ps := by
  refine mapE_chain ?_ ps asF h
  intro p q hp
  unfold argToFront at hp
  unfold argTake0 argTakeAt
  cases hax : p.1 with
  | none => simp [hax] at hp; subst hp; rfl
  | some ax =>
    simp only [hax] at hp
    cases hF : Arr.toFront ax p.2 with
    | error e => simp [hF, Except.map] at hp
    | ok F =>
      simp [hF, Except.map] at hp
      subst hp
      exact take_front_eq p.2 F ax hF i

theorem args_front_dims (ps : List (Option Int × Arr α)) (asF : List (Option (Arr α) × Arr α))
    (h : mapE argToFront ps = .ok asF) :
    opt (mapE argLeadDim asF) = opt (mapE argDimAt ps) := by
  refine mapE_chain_opt ?_ ps asF h
  intro p q hp
  unfold argToFront at hp
  unfold argLeadDim argDimAt
  cases hax : p.1 with
  | none => simp [hax] at hp; subst hp; rfl
  | some ax =>
    simp only [hax] at hp
    cases hF : Arr.toFront ax p.2 with
    | error e => simp [hF, Except.map] at hp
    | ok F =>
      simp [hF, Except.map] at hp
      subst hp
      simp only [opt_map, leadDim_of_front p.2 F ax hF]

theorem args_front_error (ps : List (Option Int × Arr α)) (e : Err) (h : mapE argToFront ps = .error e) :
    opt (mapE argDimAt ps) = none := by
  refine mapE_error_opt ?_ ps e h
  intro p e' hp
  unfold argToFront at hp
  unfold argDimAt
  cases hax : p.1 with
  | none => simp [hax] at hp
  | some ax =>
    simp only [hax] at hp
    cases hF : Arr.toFront ax p.2 with
    | error e3 => simp [opt_map, dimAt_none_of_front_error p.2 ax e3 hF]
    | ok F => simp [hF, Except.map] at hp


/-! ### B. rng groups: row `i` of `random.split(k, n)` is `Key.split k n i` -/

theorem mapE_ok_of_forall {β γ : Type} {f : β → Except Err γ} (g : β → γ) : ∀ (l : List β),
    (∀ x ∈ l, f x = .ok (g x)) → mapE f l = .ok (l.map g) := by
  intro l
  induction l with
  | nil => intro _; rfl
  | cons x xs ih =>
    intro h
    simp only [mapE, h x (by simp), ih (fun y hy => h y (by simp [hy])), List.map_cons]

theorem rngAt_rows (g : Rngs) (n i : Nat) (hi : i < n) :
    RngG.at i (.rows (g.map (fun sk => (sk.1, splitKeys sk.2 n)))) =
      .ok (g.map (fun sk => (sk.1, Key.split sk.2 n i))) := by
  simp only [RngG.at, mapE_map]
  apply mapE_ok_of_forall (fun (sk : String × Key) => (sk.1, Key.split sk.2 n i))
  intro sk _
  simp [splitKeys, hi]

theorem rngAt_splitGroups (sr : List (LFilter × Bool)) (rngs : Rngs) (n i : Nat) (hi : i < n) :
    mapE (RngG.at i) (splitGroups (groupDict rngs (sr.map (·.1))) (sr.map (·.2)) n) =
      .ok (iterRngGroups sr rngs n i) := by
  simp only [splitGroups, groupDict_eq, List.length_map, List.zip_map, List.map_map, mapE_map,
    iterRngGroups]
  apply mapE_ok_of_forall
  intro p _
  simp only [Function.comp, Prod.map]
  cases hp : p.2.2 with
  | true => simp only [if_true]; exact rngAt_rows _ n i hi
  | false => simp [RngG.at]

theorem rngDims_splitGroups (sr : List (LFilter × Bool)) (rngs : Rngs) (n : Nat) :
    (splitGroups (groupDict rngs (sr.map (·.1))) (sr.map (·.2)) n).flatMap RngG.dims =
      ((List.range sr.length).zip sr).flatMap (fun p =>
        if p.2.2 then (roleGroup rngs (sr.map (·.1)) p.1).map (fun _ => n) else []) := by
  simp only [splitGroups, groupDict_eq, List.length_map, List.zip_map, List.flatMap_map]
  congr 1
  funext p
  simp only [Function.comp, Prod.map]
  cases p.2.2 with
  | true => simp [RngG.dims, splitKeys]
  | false => simp [RngG.dims]

/-! ### the number of iterations lax.scan finds is the `d_length` flax used for splitting the rngs -/

theorem sizes_sub_dims (Z : List (Option Int × Arr α)) : ∀ (gs : List (Option Nat)) (d3 : List (List Nat)),
    mapE argSizeOpt Z = .ok gs → mapE argDimAt Z = .ok d3 → ∀ d ∈ gs.filterMap id, d ∈ d3.flatten := by
  induction Z with
  | nil => intro gs d3 h1 _; simp [mapE] at h1; subst h1; simp
  | cons p ps ih =>
    intro gs d3 h1 h2 d hd
    obtain ⟨g, gs', hg, hgs, rfl⟩ := mapE_cons_ok h1
    obtain ⟨e, d3', he, hd3, rfl⟩ := mapE_cons_ok h2
    simp only [List.filterMap_cons] at hd
    simp only [List.flatten_cons, List.mem_append]
    unfold argSizeOpt at hg
    unfold argDimAt dimAt at he
    cases hp : p.1 with
    | none =>
      simp [hp] at hg
      subst hg
      simp only [id] at hd
      exact Or.inr (ih gs' d3' hgs hd3 d hd)
    | some ax =>
      simp only [hp] at hg he
      cases hs : shapeAt p.2 ax with
      | error e' => simp [hs, Except.map] at hg
      | ok v =>
        simp [hs, Except.map] at hg he
        subst hg; subst he
        simp only [id, List.mem_cons] at hd
        rcases hd with rfl | hd
        · exact Or.inl (by simp)
        · exact Or.inr (ih gs' d3' hgs hd3 d hd)

theorem argSizes_sub (t : AxesTree) (args : List (Arr α)) (sizes : List Nat) (axes : List (Option Int))
    (d3 : List (List Nat)) (h1 : argSizes t args = .ok sizes) (h2 : t.expand args.length = .ok axes)
    (h3 : mapE argDimAt (axes.zip args) = .ok d3) : ∀ d ∈ sizes, d ∈ d3.flatten := by
  cases t with
  | uniform a =>
    cases a with
    | none => simp [argSizes] at h1; subst h1; simp
    | some ax =>
      cases args with
      | nil => simp [argSizes] at h1; subst h1; simp
      | cons a rest =>
        simp only [argSizes] at h1
        simp only [AxesTree.expand, List.length_cons, List.replicate_succ] at h2
        injection h2 with h2
        subst h2
        simp only [List.zip_cons_cons] at h3
        obtain ⟨e, d3', he, _, rfl⟩ := mapE_cons_ok h3
        simp only [argDimAt, dimAt] at he
        cases hs : shapeAt a ax with
        | error e' => simp [hs, Except.map] at h1
        | ok v =>
          simp [hs, Except.map] at h1 he
          subst h1; subst he
          simp
  | perArg as =>
    simp only [argSizes] at h1
    simp only [AxesTree.expand] at h2
    split at h2
    · rename_i hl
      injection h2 with h2
      subst h2
      simp only [hl, if_true] at h1
      cases hm : mapE argSizeOpt (as.zip args) with
      | error e => simp [hm, Except.map] at h1
      | ok gs =>
        simp [hm, Except.map] at h1
        subst h1
        exact sizes_sub_dims _ gs d3 hm h3
    · cases h2

theorem jaxLength_all {L : Option Nat} {dims : List Nat} {n : Nat} (h : jaxLength L dims = .ok n) :
    ∀ d ∈ dims, d = n := by
  unfold jaxLength at h
  cases L with
  | some l =>
    simp only at h
    split at h
    · rename_i hall
      injection h with h
      subst h
      intro d hd
      simpa using List.all_eq_true.1 hall d hd
    · cases h
  | none =>
    simp only at h
    cases dims with
    | nil => cases h
    | cons d0 ds =>
      simp only at h
      split at h
      · rename_i hall
        injection h with h
        subst h
        intro d hd
        simp only [List.mem_cons] at hd
        rcases hd with rfl | hd
        · rfl
        · simpa using List.all_eq_true.1 hall d hd
      · cases h

theorem decideLength_some {l : Nat} {sizes : List Nat} {d : Nat} (h : decideLength (some l) sizes = .ok d) :
    d = l := by
  unfold decideLength at h
  cases hs : sizes.eraseDups with
  | nil => simp [hs] at h; exact h.symm
  | cons a t =>
    cases t with
    | nil => simp [hs] at h; exact h.symm
    | cons b t' => simp [hs] at h

theorem decideLength_none {sizes : List Nat} {d : Nat} (h : decideLength none sizes = .ok d) :
    sizes.eraseDups = [d] := by
  unfold decideLength at h
  cases hs : sizes.eraseDups with
  | nil => simp [hs] at h
  | cons a t =>
    cases t with
    | nil => simp [hs] at h; simp [h]
    | cons b t' => simp [hs] at h

theorem length_agrees (L : Option Nat) (sizes dims : List Nat) (d n : Nat)
    (h1 : decideLength L sizes = .ok d) (h2 : jaxLength L dims = .ok n)
    (hsub : ∀ x ∈ sizes, x ∈ dims) : n = d := by
  cases L with
  | some l =>
    have hn : n = l := by
      unfold jaxLength at h2
      simp only at h2
      split at h2
      · injection h2 with h2; exact h2.symm
      · cases h2
    have hd := decideLength_some h1
    omega
  | none =>
    have heq := decideLength_none h1
    have hm : d ∈ sizes := by
      have : d ∈ sizes.eraseDups := by rw [heq]; simp
      exact List.mem_eraseDups.1 this
    exact (jaxLength_all h2 d (hsub d hm)).symm

end Flax.LiftLoop
