/-
C04 helper lemmas (4): assembling the four steps.  `protoCall` (outer split, inner merge, body, inner split, outer
merge) refines the eager call by an isomorphism that is the identity on the caller's objects.
-/
import Flax.Proofs.NnxSim
import Flax.Proofs.NnxProg

namespace Flax.Nnx
open Flax.Heap Flax.Graph

/-! ### `inner_ref_outer_index` is the inverse of `index_ref` -/

theorem irInv_some {ir : IndexRef} {b : Addr} {i : Nat} (h : irInv ir b = some i) :
    irLookup i ir = some b ∧ i < ir.length := by
  unfold irInv at h
  have h1 := List.find?_some h
  have h2 := List.mem_of_find?_eq_some h
  simp at h1 h2
  exact ⟨h1, h2⟩

theorem irInv_of {ir : IndexRef} {b : Addr} {i : Nat} (hi : irLookup i ir = some b) (hlt : i < ir.length)
    (huniq : ∀ j, irLookup j ir = some b → j = i) : irInv ir b = some i := by
  unfold irInv
  cases hf : (List.range ir.length).find? (fun i => decide (irLookup i ir = some b)) with
  | some j =>
    have h1 := List.find?_some hf
    simp at h1
    rw [huniq j h1]
  | none =>
    have := List.find?_eq_none.mp hf i (by simp [hlt])
    simp [hi] at this

theorem irInv_none {ir : IndexRef} {b : Addr} (h : ∀ i, irLookup i ir ≠ some b) : irInv ir b = Option.none := by
  unfold irInv
  apply List.find?_eq_none.mpr
  intro i _
  simp [h i]

/-! ### the protocol, step by step -/

/-- the stamp table of the inner split (3): index ↦ `inner_ref_outer_index[object registered under it]` -/
def tblOf (idx3 : RefIndex) (ir : IndexRef) : Nat → Option Nat := fun i => (idx3[i]?).bind (irInv ir)

/-- `outer_index_outer_ref` of the outer merge (4) -/
def omapOf (idx1 : RefIndex) : Nat → Option Addr := fun i => idx1[i]?

/-- inner object ↦ the caller's object it stands for -/
def reuseOf (idx1 : RefIndex) (ir : IndexRef) : Addr → Option Addr := fun b => (irInv ir b).bind (omapOf idx1)

/-- what a successful `protoCall` went through -/
theorem protoCall_inv {raw : Bool} {f : Fn} {h : Heap} {args roots4 : List PVal} {h4 : Heap}
    (hp : protoCall raw f h args = .ok (roots4, h4)) :
    ∃ gds fss idx1 args' G ir rets' G3 gds3 fss3 idx3 ir4,
      flattenRoots h args [] = .ok (gds, fss, idx1) ∧
      unflattenRootsO (fun _ => Option.none) (gds.map (stampWith (fun _ => Option.none))) (fss.map (convLeaves raw)) [] [] =
        .ok (args', G, ir) ∧
      runFn f G args' = .ok (rets', G3) ∧
      flattenRoots G3 (args'.map clearArg ++ rets') [] = .ok (gds3, fss3, idx3) ∧
      unflattenRootsO (omapOf idx1) (gds3.map (stampWith (tblOf idx3 ir))) (fss3.map (convLeaves raw)) h [] =
        .ok (roots4, h4, ir4) := by
  unfold protoCall step1 at hp
  split at hp
  · cases hp
  · next gds lss idx1 hs1 =>
    split at hs1
    · cases hs1
    · next gds' fss idx1' hf1 =>
      simp at hs1
      obtain ⟨rfl, rfl, rfl⟩ := hs1
      split at hp
      · cases hp
      · next gdsO lssO hpr =>
        unfold pureRun at hpr
        split at hpr
        · cases hpr
        · next args' G ir hu2 =>
          split at hpr
          · cases hpr
          · next rets' G3 hrun =>
            simp only [List.nil_append, if_true] at hrun hpr
            split at hpr
            · cases hpr
            · next gds3 fss3 idx3 hf3 =>
              simp at hpr
              obtain ⟨rfl, rfl⟩ := hpr
              unfold step4 at hp
              split at hp
              · cases hp
              · next roots h4' ir4 hu4 =>
                simp at hp
                obtain ⟨rfl, rfl⟩ := hp
                exact ⟨gds', fss, idx1', args', G, ir, rets', G3, gds3, fss3, idx3, ir4, hf1, hu2, hrun, hf3, hu4⟩

/-- nothing is re-used by the inner merge (2) -/
theorem reuse_none (g : Heap) : Reuse g [] (fun _ => Option.none) :=
  ⟨fun _ _ _ h => (by cases h), fun _ _ h => (by cases h), fun _ _ _ _ h => (by cases h), fun _ _ _ _ _ h => (by cases h)⟩

/-- registered addresses are allocated -/
theorem flattenRoots_mem_lt {g : Heap} {H0 : Heap} {idx : RefIndex} {ir : IndexRef} {H : Heap}
    (p : PostO g [] [] H0 idx ir H) {a : Nat} (ha : a ∈ idx) : a < g.length := by
  obtain ⟨o, _, _, ho, _⟩ := p.obj a ha (by simp)
  exact (List.getElem?_eq_some_iff.mp ho).1

/-- **steps (1)+(2)**: the inner merge builds, in an empty heap, an isomorphic copy of everything reachable from
the arguments; an object reachable from two arguments is ONE object inside (one `ref_index` / `index_ref`) -/
theorem inner_copyF (raw : Bool) {h : Heap} {args : List PVal} {gds : List GDef} {fss : List FlatState} {idx1 : RefIndex}
    (hf : FlatRoots h args [] gds fss idx1) :
    ∃ args' G ir,
      unflattenRootsO (fun _ => Option.none) (gds.map (stampWith (fun _ => Option.none))) (fss.map (convLeaves raw)) [] [] =
        .ok (args', G, ir) ∧
      GoodO [] (fun _ => Option.none) idx1 ir G ∧ Rel (phi idx1 ir) h G ∧ ValsRel (phi idx1 ir) args args' ∧
      (∀ (a : Nat), a ∈ idx1 → a < h.length) ∧ (AttrsNodup h → AttrsNodup G) := by
  obtain ⟨args', G, ir, hu, Gd, p, hv⟩ := simRootsF (reuse_none h) raw (fun _ => Option.none) (fun _ => Option.none) idx1
    (fun _ _ _ => rfl) hf ⟨[], by simp⟩ [] [] (GoodO.nil _ _)
  have honto : ∀ (b : Nat), b < G.length → ∃ (a : Nat), phi idx1 ir a = some b := by
    intro b hb
    obtain ⟨i, hi⟩ := Gd.onto b (by simp) hb
    have hilt : i < idx1.length := (Gd.dom i).mp (by simp [hi])
    refine ⟨idx1[i], ?_⟩
    simp only [phi, indexOf?_of_getElem? Gd.nodup (List.getElem?_eq_getElem hilt), hi]
  refine ⟨args', G, ir, hu, Gd, ⟨?_, ?_, honto⟩, hv, fun a ha => flattenRoots_mem_lt p ha, ?_⟩
  · intro a b c h1 h2; exact phi_injO Gd h1 h2
  · intro a b hab
    obtain ⟨o, o', b', ho, hphi, hH, hrel⟩ := p.obj a (phi_memO hab) (by simp)
    have : b' = b := by rw [hab] at hphi; exact (Option.some.inj hphi).symm
    subst this
    exact ⟨o, o', ho, hH, objRel_toSim hrel⟩
  · intro nh b cls attrs' hb
    obtain ⟨a, hab⟩ := honto b (List.getElem?_eq_some_iff.mp hb).1
    obtain ⟨o, o', b', ho, hphi, hH, hrel⟩ := p.obj a (phi_memO hab) (by simp)
    have : b' = b := by rw [hab] at hphi; exact (Option.some.inj hphi).symm
    subst this
    rw [hb] at hH; cases hH
    cases hrel with
    | node hk =>
      rename_i attrs
      have h1 : keysNodup attrs := nh a cls attrs ho
      have hkeys := KVsRel.keys hk
      unfold keysNodup at h1 ⊢
      have p1 : ((sortKV attrs).map (·.1)).Perm (attrs.map (·.1)) := (sortBy_perm attrs).map _
      have p2 : ((sortKV attrs').map (·.1)).Perm (attrs'.map (·.1)) := (sortBy_perm attrs').map _
      exact p2.nodup_iff.mp (hkeys ▸ p1.nodup_iff.mpr h1)

theorem inner_copy (raw : Bool) {h : Heap} {args : List PVal} {gds : List GDef} {fss : List FlatState} {idx1 : RefIndex}
    (hf : flattenRoots h args [] = .ok (gds, fss, idx1)) :
    ∃ args' G ir,
      unflattenRootsO (fun _ => Option.none) (gds.map (stampWith (fun _ => Option.none))) (fss.map (convLeaves raw)) [] [] =
        .ok (args', G, ir) ∧
      GoodO [] (fun _ => Option.none) idx1 ir G ∧ Rel (phi idx1 ir) h G ∧ ValsRel (phi idx1 ir) args args' ∧
      (∀ (a : Nat), a ∈ idx1 → a < h.length) := by
  obtain ⟨args', G, ir, h1, h2, h3, h4, h5, _⟩ := inner_copyF raw (flatRoots_of_flattenRoots h args [] gds fss idx1 hf)
  exact ⟨args', G, ir, h1, h2, h3, h4, h5⟩

theorem valsRel_ref_mem {φ : Addr → Option Addr} : ∀ {xs ys : List PVal}, ValsRel φ xs ys → ∀ {a : Nat}, PVal.ref a ∈ xs →
    ∃ b, φ a = some b
  | _, _, .nil, a, h => by simp at h
  | _, _, .cons hv ht, a, h => by
    rcases List.mem_cons.mp h with e | h'
    · subst e
      cases hv with
      | ref hab => exact ⟨_, hab⟩
    · exact valsRel_ref_mem ht h'

theorem clearArg_rel {φ : Addr → Option Addr} {v w : PVal} (h : ValRel φ v w) : ValRel φ (clearArg v) (clearArg w) := by
  cases h with
  | ref hab => exact .ref hab
  | static s => exact .none
  | array d => exact .none
  | none => exact .none
  | seq _ => exact .none
  | dict _ => exact .none

theorem clearArgs_rel {φ : Addr → Option Addr} : ∀ {vs ws : List PVal}, ValsRel φ vs ws →
    ValsRel φ (vs.map clearArg) (ws.map clearArg)
  | _, _, .nil => .nil
  | _, _, .cons hv ht => .cons (clearArg_rel hv) (clearArgs_rel ht)

/-- the re-use map of the outer merge (4) satisfies what `simO` needs: an inner object whose `outer_index` is bound
stands for exactly one caller object, of the same kind -/
theorem reuse_ok {h h2 G G3 : Heap} {idx1 : RefIndex} {ir : IndexRef} {φ' : Addr → Option Addr}
    (Gd2 : GoodO [] (fun _ => Option.none) idx1 ir G) (hlt1 : ∀ (a : Nat), a ∈ idx1 → a < h.length)
    (R3 : Rel φ' h2 G3) (hle : PhiLe (phi idx1 ir) φ') (hkind : KindPres h h2) : Reuse G3 h (reuseOf idx1 ir) := by
  have key : ∀ (b c : Nat), reuseOf idx1 ir b = some c →
      ∃ i, irLookup i ir = some b ∧ idx1[i]? = some c ∧ phi idx1 ir c = some b := by
    intro b c hbc
    unfold reuseOf omapOf at hbc
    cases hi : irInv ir b with
    | none => simp [hi] at hbc
    | some i =>
      simp [hi] at hbc
      have h1 := (irInv_some hi).1
      exact ⟨i, h1, hbc, by simp [phi, indexOf?_of_getElem? Gd2.nodup hbc, h1]⟩
  refine ⟨?_, ?_, ?_, ?_⟩
  · intro b b' c h1 h2
    obtain ⟨i, _, _, p1⟩ := key b c h1
    obtain ⟨j, _, _, p2⟩ := key b' c h2
    rw [p1] at p2; exact Option.some.inj p2
  · intro b c h1
    obtain ⟨i, _, hc, _⟩ := key b c h1
    exact hlt1 c (List.mem_of_getElem? hc)
  · intro b c cls attrs h1 hg
    obtain ⟨i, _, hc, p1⟩ := key b c h1
    obtain ⟨o, o', g1, g2, g3⟩ := R3.obj c b (hle c b p1)
    rw [hg] at g2; cases g2
    have hcl := hlt1 c (List.mem_of_getElem? hc)
    have hk := hkind.2 c hcl
    cases g3 with
    | node hA =>
      rw [g1] at hk
      cases hc0 : h[c]? with
      | none => simp [hc0] at hk
      | some o0 =>
        rw [hc0] at hk
        cases o0 with
        | node cls0 A0 => simp [kindOf] at hk; subst hk; exact ⟨A0, rfl⟩
        | var ty0 v0 md0 => simp [kindOf] at hk
  · intro b c ty v md h1 hg
    obtain ⟨i, _, hc, p1⟩ := key b c h1
    obtain ⟨o, o', g1, g2, g3⟩ := R3.obj c b (hle c b p1)
    rw [hg] at g2; cases g2
    have hcl := hlt1 c (List.mem_of_getElem? hc)
    have hk := hkind.2 c hcl
    cases g3 with
    | var _ _ _ =>
      rw [g1] at hk
      cases hc0 : h[c]? with
      | none => simp [hc0] at hk
      | some o0 =>
        rw [hc0] at hk
        cases o0 with
        | node cls0 A0 => simp [kindOf] at hk
        | var ty0 v0 md0 => simp [kindOf] at hk; obtain ⟨rfl, rfl⟩ := hk; exact ⟨v0, rfl⟩

/-- **the four-step protocol refines the eager call.**  If `f(*args)` run eagerly on the caller's heap `h` gives
`(rets, h2)` and the protocol gives `(roots4, h4)`, then the two outcomes are isomorphic by a map `ψ` that is the
identity on the caller's objects (every object of `h` in the domain of `ψ` is mapped to ITSELF: the caller's own
objects carry the changes), sends objects created by the function to objects created by the outer merge (fresh
addresses on both sides), and caller objects outside the range of `ψ` are untouched. -/
theorem proto_refines_eager (raw : Bool) (f : Fn) (h : Heap) (args : List PVal)
    (rets : List PVal) (h2 : Heap) (he : runFn f h args = .ok (rets, h2))
    (roots4 : List PVal) (h4 : Heap) (hp : protoCall raw f h args = .ok (roots4, h4)) :
    ∃ ψ : Addr → Option Addr,
      IsoM h2 (.seq true (args.map clearArg ++ rets)) h4 (.seq true roots4) ψ ∧
      (∀ (a c : Nat), ψ a = some c → (a < h.length → c = a) ∧ (h.length ≤ a → h.length ≤ c)) ∧
      (∀ (c : Nat), c < h.length → (∀ (a : Nat), ψ a ≠ some c) → h4[c]? = h[c]?) ∧
      h.length ≤ h4.length ∧ (∀ (a : Nat), PVal.ref a ∈ args → a < h.length) := by
  obtain ⟨gds, fss, idx1, args', G, ir, rets', G3, gds3, fss3, idx3, ir4, hf1, hu2, hrun, hf3, hu4⟩ := protoCall_inv hp
  -- steps (1)+(2)
  obtain ⟨args'', G', ir', hu2', Gd2, R2, hargs, hlt1⟩ := inner_copy raw hf1
  rw [hu2] at hu2'
  simp at hu2'
  obtain ⟨rfl, rfl, rfl⟩ := hu2'
  -- the body on both heaps
  have hcs := runFn_sim f R2 hargs
  rw [he, hrun] at hcs
  rcases hcs with ⟨e, h1, _⟩ | ⟨rets0, h20, rets0', G30, φ', e1, e2, R3, hrets, hle, hold, hnew, hlen⟩
  · cases h1
  simp at e1 e2
  obtain ⟨rfl, rfl⟩ := e1
  obtain ⟨rfl, rfl⟩ := e2
  have hkind := runFn_kind he
  -- steps (3)+(4): re-use of the caller's objects
  have hReuse : Reuse G3 h (reuseOf idx1 ir) := reuse_ok Gd2 hlt1 R3 hle hkind
  have hst : ∀ i a, idx3[i]? = some a → (tblOf idx3 ir i).bind (omapOf idx1) = reuseOf idx1 ir a := by
    intro i a hia
    simp [tblOf, reuseOf, hia]
  obtain ⟨roots4', h4', ir4', hu4', Gd4, p4, hroots⟩ := simRoots hReuse raw (tblOf idx3 ir) (omapOf idx1) idx3 hst
    _ [] gds3 fss3 idx3 hf3 ⟨[], by simp⟩ h [] (GoodO.nil _ _)
  rw [hu4] at hu4'
  simp at hu4'
  obtain ⟨rfl, rfl, rfl⟩ := hu4'
  -- the composite map
  refine ⟨comp φ' (phi idx3 ir4), ⟨?_, ?_, ?_⟩, ?_, ?_, Gd4.len, fun a ha => by
    obtain ⟨b, hb⟩ := valsRel_ref_mem hargs ha
    exact hlt1 a (phi_memO hb)⟩
  · -- roots
    have h1 : ValsRel φ' (args.map clearArg ++ rets) (args'.map clearArg ++ rets') :=
      valsRel_append (clearArgs_rel (ValsRel.mono hle hargs)) hrets
    exact .seq (valsRel_comp h1 hroots)
  · -- injective
    intro a b c h1 h2
    simp only [comp] at h1 h2
    cases ha : φ' a with
    | none => simp [ha] at h1
    | some a' =>
      cases hb : φ' b with
      | none => simp [hb] at h2
      | some b' =>
        simp [ha] at h1; simp [hb] at h2
        have := phi_injO Gd4 h1 h2
        subst this
        exact R3.inj a b a' ha hb
  · -- objects
    intro a c hac
    simp only [comp] at hac
    cases ha : φ' a with
    | none => simp [ha] at hac
    | some b =>
      simp [ha] at hac
      obtain ⟨o, o', g1, g2, g3⟩ := R3.obj a b ha
      obtain ⟨o2, o2', c', k1, k2, k3, k4⟩ := p4.obj b (phi_memO hac) (by simp)
      have : c' = c := by rw [hac] at k2; exact (Option.some.inj k2).symm
      subst this
      rw [g2] at k1; cases k1
      exact ⟨o, o2', g1, k3, objSim_comp g3 (objRel_toSim k4)⟩
  · -- identity on the caller's objects, fresh addresses for new objects
    intro a c hac
    simp only [comp] at hac
    cases ha : φ' a with
    | none => simp [ha] at hac
    | some b =>
      simp [ha] at hac
      constructor
      · intro halt
        -- `a` is a caller object registered by step (1); its inner image `b` carries `a`'s index as outer index
        have hphi : phi idx1 ir a = some b := by rw [← hold a halt]; exact ha
        obtain ⟨i, hi1, hi2⟩ := phi_idx hphi
        have hinv : irInv ir b = some i :=
          irInv_of hi2 (by rw [Gd2.irLen]; exact (List.getElem?_eq_some_iff.mp hi1).1) (fun j hj => Gd2.inj j i b hj hi2)
        have hre : reuseOf idx1 ir b = some a := by simp [reuseOf, omapOf, hinv, hi1]
        rcases phi_tgt Gd4 hac with h1 | ⟨h1, _, _⟩
        · rw [hre] at h1; exact (Option.some.inj h1).symm
        · rw [hre] at h1; cases h1
      · intro hage
        -- a new object: its inner image was allocated by the body, nothing is bound to it, so (4) creates it
        have hb : G.length ≤ b := hnew a b hage ha
        have hre : reuseOf idx1 ir b = Option.none := by
          have : irInv ir b = Option.none := irInv_none (fun i hi => by
            have hilt : i < idx1.length := (Gd2.dom i).mp (by simp [hi])
            rcases Gd2.tgt i idx1[i] b (List.getElem?_eq_getElem hilt) hi with h1 | ⟨_, _, h3⟩
            · cases h1
            · omega)
          simp [reuseOf, this]
        rcases phi_tgt Gd4 hac with h1 | ⟨_, h2, _⟩
        · rw [hre] at h1; cases h1
        · exact h2
  · -- caller objects outside the range are untouched
    intro c hc hn
    have := p4.stable c hc (fun b hb _ hphi => by
      obtain ⟨a, ha⟩ := R3.onto b (by
        obtain ⟨o, _, _, ho, _⟩ := p4.obj b hb (by simp)
        exact (List.getElem?_eq_some_iff.mp ho).1)
      exact hn a (by simp [comp, ha, hphi]))
    exact this

end Flax.Nnx
