/- C06 helper lemmas: `lax.scan` as an index-addressed loop (forward and reverse) -/
import Flax.Model.LiftLoop
import Flax.Proofs.LiftLoopSpec

set_option linter.unusedSimpArgs false

namespace Flax.LiftLoop

theorem foldE_loopRun {σ χ ω : Type} (xsAt : Nat → Except Err χ) (f : σ → χ → Except Err (σ × ω))
    (same : σ → σ → Bool) : ∀ (order : List Nat) (s : σ) (acc : List ω),
    opt (foldE (laxStep xsAt f same) (s, acc) order)
      = (loopRun (fun s i => opt (xsAt i >>= f s)) same s order).map
          (fun r => (r.1, acc ++ r.2.map (·.2))) := by
  intro order
  induction order with
  | nil => intro s acc; simp [foldE, loopRun]
  | cons i is ih =>
    intro s acc
    simp only [foldE, loopRun]
    cases hx : xsAt i with
    | error e => simp [laxStep, hx, bind, Except.bind]
    | ok x =>
      cases hf : f s x with
      | error e => simp [laxStep, hx, bind, Except.bind, hf]
      | ok r =>
        by_cases hs : same s r.1 = true
        · have h1 : laxStep xsAt f same (s, acc) i = .ok (r.1, acc ++ [r.2]) := by
            simp [laxStep, hx, hf, bind, Except.bind, hs, pure, Except.pure]
          have h2 : opt ((Except.ok x : Except Err χ) >>= f s) = some r := by simp [hf, bind, Except.bind]
          rw [h1, h2]
          simp only [hs, if_true]
          rw [ih r.1 (acc ++ [r.2])]
          cases loopRun (fun s i => opt (xsAt i >>= f s)) same r.1 is with
          | none => rfl
          | some rest => simp
        · have h1 : laxStep xsAt f same (s, acc) i = .error .carryStructure := by
            simp [laxStep, hx, hf, bind, Except.bind, hs, throw, throwThe, MonadExceptOf.throw]
          have h2 : opt ((Except.ok x : Except Err χ) >>= f s) = some r := by simp [hf, bind, Except.bind]
          rw [h1, h2]
          simp [hs]

theorem loopRun_keys {σ ω : Type} (step : σ → Nat → Option (σ × ω)) (same : σ → σ → Bool) :
    ∀ (order : List Nat) (s : σ) (r : σ × List (Nat × ω)), loopRun step same s order = some r →
    r.2.map (·.1) = order := by
  intro order
  induction order with
  | nil => intro s r h; simp [loopRun] at h; subst h; rfl
  | cons i is ih =>
    intro s r h
    simp only [loopRun] at h
    cases hs : step s i with
    | none => simp [hs] at h
    | some r1 =>
      simp only [hs] at h
      split at h
      · cases hr : loopRun step same r1.1 is with
        | none => simp [hr] at h
        | some rest =>
          simp [hr] at h
          subst h
          simp [ih r1.1 rest hr]
      · cases h

theorem loopRun_congr {σ ω : Type} {step1 step2 : σ → Nat → Option (σ × ω)} (same : σ → σ → Bool) :
    ∀ (order : List Nat), (∀ i ∈ order, ∀ s, step1 s i = step2 s i) → ∀ s,
    loopRun step1 same s order = loopRun step2 same s order := by
  intro order
  induction order with
  | nil => intro _ s; rfl
  | cons i is ih =>
    intro h s
    simp only [loopRun, h i (by simp) s]
    cases step2 s i with
    | none => rfl
    | some r => simp only [ih (fun j hj => h j (by simp [hj])) r.1]

theorem lookup_of_nodup {ω : Type} : ∀ (recs : List (Nat × ω)), (recs.map (·.1)).Nodup →
    ∀ p ∈ recs, recs.lookup p.1 = some p.2 := by
  intro recs
  induction recs with
  | nil => intro _ p hp; cases hp
  | cons q qs ih =>
    intro hnd p hp
    obtain ⟨k, b⟩ := q
    simp only [List.map_cons, List.nodup_cons] at hnd
    simp only [List.mem_cons] at hp
    rcases hp with rfl | hp
    · simp [List.lookup_cons]
    · have hne : p.1 ≠ k := by
        intro he
        exact hnd.1 (by rw [← he]; exact List.mem_map_of_mem hp)
      have : (p.1 == k) = false := by simpa using hne
      simp only [List.lookup_cons, this]
      exact ih hnd.2 p hp

theorem nodup_reverse' {β : Type} {l : List β} (h : l.Nodup) : l.reverse.Nodup := by
  unfold List.Nodup at *
  rw [List.pairwise_reverse]
  exact h.imp (fun hab => fun hba => hab hba.symm)

theorem mapO_map_of_forall {β γ δ : Type} (f : γ → Option δ) (g : β → γ) (h : β → δ) : ∀ (l : List β),
    (∀ p ∈ l, f (g p) = some (h p)) → mapO f (l.map g) = some (l.map h) := by
  intro l
  induction l with
  | nil => intro _; rfl
  | cons p ps ih =>
    intro hp
    simp [mapO, hp p (by simp), ih (fun q hq => hp q (by simp [hq]))]

/-- forward order: the collected outputs are already in index order -/
theorem byIndex_fwd {ω : Type} (n : Nat) (recs : List (Nat × ω)) (h : recs.map (·.1) = List.range n) :
    byIndex n recs = some (recs.map (·.2)) := by
  unfold byIndex
  rw [← h]
  apply mapO_map_of_forall
  exact lookup_of_nodup recs (by rw [h]; exact List.nodup_range)

/-- reverse order: re-reversing the collected outputs puts iteration `i`'s output at position `i` -/
theorem byIndex_rev {ω : Type} (n : Nat) (recs : List (Nat × ω)) (h : recs.map (·.1) = (List.range n).reverse) :
    byIndex n recs = some ((recs.map (·.2)).reverse) := by
  unfold byIndex
  have h' : (recs.reverse).map (·.1) = List.range n := by
    rw [List.map_reverse, h, List.reverse_reverse]
  rw [← h', ← List.map_reverse]
  apply mapO_map_of_forall
  intro p hp
  exact lookup_of_nodup recs (by rw [h]; exact nodup_reverse' List.nodup_range) p (by simpa using hp)

/-- **A-SCAN unfolded**: `lax.scan` is the index-addressed loop — the state is threaded through the
iterations in processing order and output `i` is the output of the iteration that processed index `i`,
for either direction -/
theorem laxScan_opt {σ χ ω : Type} (n : Nat) (reverse : Bool) (xsAt : Nat → Except Err χ)
    (f : σ → χ → Except Err (σ × ω)) (same : σ → σ → Bool) (init : σ) :
    opt (laxScan n reverse xsAt f same init) =
      (loopRun (fun s i => opt (xsAt i >>= f s)) same init
        (if reverse then (List.range n).reverse else List.range n)).bind
        (fun r => (byIndex n r.2).map (fun outs => (r.1, outs))) := by
  unfold laxScan
  rw [opt_bind, foldE_loopRun]
  cases hr : loopRun (fun s i => opt (xsAt i >>= f s)) same init
      (if reverse then (List.range n).reverse else List.range n) with
  | none => rfl
  | some r =>
    have hk := loopRun_keys _ _ _ _ _ hr
    cases reverse with
    | false =>
      simp only [Bool.false_eq_true, if_false] at hk ⊢
      simp [byIndex_fwd n r.2 hk]
    | true =>
      simp only [if_true] at hk ⊢
      simp [byIndex_rev n r.2 hk]

end Flax.LiftLoop
