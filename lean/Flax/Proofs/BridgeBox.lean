/-
Helper lemmas for C18: variable box conversion (`to_nnx_var` / `to_linen_var`).
-/
import Flax.Model.Bridge

namespace Flax.Bridge
variable {α : Type}


theorem Meta.get?_append (a b : Meta) (k : String) :
    Meta.get? (a ++ b) k = (Meta.get? a k).or (Meta.get? b k) := by
  induction a with
  | nil => unfold Meta.get?; simp
  | cons hd r ih =>
    unfold Meta.get? at ih ⊢
    simp only [List.cons_append, List.find?_cons]
    split
    · simp
    · exact ih

theorem Meta.erase_append_of_none (a : Meta) (k : String) (v : MetaVal) (h : Meta.get? a k = none) :
    Meta.erase (a ++ [(k, v)]) k = a := by
  induction a with
  | nil => unfold Meta.erase; simp
  | cons hd r ih =>
    unfold Meta.get? at h ih
    by_cases hk : hd.1 = k
    · simp [hk] at h
    · simp only [List.find?_cons, hk, decide_false] at h
      unfold Meta.erase at ih ⊢
      simp only [List.cons_append, List.filter_cons, ne_eq, hk, not_false_eq_true,
        decide_true, ↓reduceIte, List.cons.injEq, true_and]
      exact ih h

/-- the array inside a Linen leaf -/
def LBox.value : LBox α → α
  | .plain v => v
  | .partitioned v _ _ => v
  | .logical v _ _ _ => v
  | .nnxMeta _ v _ => v
  | .box _ v _ => v

/-- the axis names of a Linen leaf, when it carries any -/
def LBox.names? : LBox α → Option MetaVal
  | .partitioned _ n _ => some n
  | .logical _ n _ _ => some n
  | _ => none

/-- Linen leaves that `to_linen_var` can produce for a Variable of type `t`: an `NNXMeta` box carries
the collection's own type and metadata that is neither blank nor a Linen box's; a generic box class is
not one of the two partitioning classes and has no field called `linen_meta_type` -/
def LBox.Ok (t : VType) : LBox α → Prop
  | .plain _ => True
  | .partitioned _ _ _ => True
  | .logical _ _ _ _ => True
  | .nnxMeta vt _ md => vt = t ∧ Meta.get? md "linen_meta_type" = none ∧ isVanilla md = false
  | .box c _ fields => c ≠ clsPartitioned ∧ c ≠ clsLogical ∧ Meta.get? fields "linen_meta_type" = none

/-- **box round trip**: Linen leaf → Variable → Linen leaf is the identity; the Variable has the
collection's type, the same array, and the axis names as its `sharding` metadata -/
theorem box_roundtrip_aux (t : VType) (x : LBox α) (h : x.Ok t) :
    ∃ v, toNnxVarWith t x = .ok v ∧ v.vtype = t ∧ v.value = x.value ∧ toLinenVar v = .ok x ∧
      (∀ n, x.names? = some n → Meta.get? v.md "sharding" = some n) := by
  cases x with
  | plain a =>
    exact ⟨⟨t, a, []⟩, rfl, rfl, rfl, by simp [toLinenVar, Meta.get?, isVanilla], by simp [LBox.names?]⟩
  | partitioned a names mesh =>
    refine ⟨_, rfl, rfl, rfl, ?_, ?_⟩
    · simp [toLinenVar, boxToMeta, Meta.get?, List.find?, clsPartitioned]
    · intro n hn; simp only [LBox.names?, Option.some.injEq] at hn; subst hn
      simp [boxToMeta, Meta.get?, List.find?]
  | logical a names mesh rules =>
    refine ⟨_, rfl, rfl, rfl, ?_, ?_⟩
    · simp [toLinenVar, boxToMeta, Meta.get?, List.find?, clsPartitioned, clsLogical]
    · intro n hn; simp only [LBox.names?, Option.some.injEq] at hn; subst hn
      simp [boxToMeta, Meta.get?, List.find?]
  | nnxMeta vt a md =>
    obtain ⟨rfl, h1, h2⟩ := h
    refine ⟨⟨vt, a, md⟩, by simp [toNnxVarWith], rfl, rfl, ?_, by simp [LBox.names?]⟩
    simp [toLinenVar, h1, h2]
  | box c a fields =>
    obtain ⟨h1, h2, h3⟩ := h
    refine ⟨⟨t, a, fields ++ [("linen_meta_type", .cls c)]⟩, rfl, rfl, rfl, ?_, by simp [LBox.names?]⟩
    have hg : Meta.get? (fields ++ [("linen_meta_type", MetaVal.cls c)]) "linen_meta_type" = some (.cls c) := by
      rw [Meta.get?_append]
      rw [h3]
      simp [Meta.get?]
    have he := Meta.erase_append_of_none fields "linen_meta_type" (.cls c) h3
    simp only [toLinenVar, hg, h1, h2, ↓reduceIte, he]

/-- Variables that `to_nnx_var` can produce -/
def NVar.Canon (v : NVar α) : Prop :=
  v.md = [] ∨
  (∃ names mesh, v.md = [("mesh", mesh), ("sharding", names), ("linen_meta_type", .cls clsPartitioned)]) ∨
  (∃ names mesh rules, v.md = [("mesh", mesh), ("sharding", names), ("sharding_rules", rules),
      ("linen_meta_type", .cls clsLogical)]) ∨
  (Meta.get? v.md "linen_meta_type" = none ∧ isVanilla v.md = false) ∨
  (∃ c fields, v.md = fields ++ [("linen_meta_type", .cls c)] ∧ c ≠ clsPartitioned ∧ c ≠ clsLogical ∧
      Meta.get? fields "linen_meta_type" = none)

theorem canon_of_ok (t : VType) (x : LBox α) (v : NVar α) (h : x.Ok t) (hv : toNnxVarWith t x = .ok v) :
    v.Canon := by
  cases x with
  | plain a => cases hv; exact Or.inl rfl
  | partitioned a n m => cases hv; exact Or.inr (Or.inl ⟨n, m, rfl⟩)
  | logical a n m ru => cases hv; exact Or.inr (Or.inr (Or.inl ⟨n, m, ru, rfl⟩))
  | nnxMeta vt a md =>
    obtain ⟨rfl, h2, h3⟩ := h
    simp only [toNnxVarWith, ↓reduceIte, Except.ok.injEq] at hv
    subst hv
    exact Or.inr (Or.inr (Or.inr (Or.inl ⟨h2, h3⟩)))
  | box cls a fields =>
    cases hv
    exact Or.inr (Or.inr (Or.inr (Or.inr ⟨cls, fields, rfl, h.1, h.2.1, h.2.2⟩)))

/-- Variable → Linen leaf → Variable is the identity on such Variables -/
theorem var_roundtrip_aux (v : NVar α) (h : v.Canon) :
    ∃ x, toLinenVar v = .ok x ∧ x.Ok v.vtype ∧ toNnxVarWith v.vtype x = .ok v := by
  obtain ⟨t, a, md⟩ := v
  rcases h with h | ⟨names, mesh, h⟩ | ⟨names, mesh, rules, h⟩ | ⟨h1, h2⟩ | ⟨c, fields, h, h1, h2, h3⟩
  · simp only at h; subst h
    exact ⟨.plain a, by simp [toLinenVar, Meta.get?, isVanilla], trivial, rfl⟩
  · simp only at h; subst h
    exact ⟨.partitioned a names mesh, by simp [toLinenVar, Meta.get?, List.find?, clsPartitioned], trivial, rfl⟩
  · simp only at h; subst h
    exact ⟨.logical a names mesh rules,
      by simp [toLinenVar, Meta.get?, List.find?, clsPartitioned, clsLogical], trivial, rfl⟩
  · exact ⟨.nnxMeta t a md, by simp [toLinenVar, h1, h2], ⟨rfl, h1, h2⟩, by simp [toNnxVarWith]⟩
  · simp only at h; subst h
    have hg : Meta.get? (fields ++ [("linen_meta_type", MetaVal.cls c)]) "linen_meta_type" = some (.cls c) := by
      rw [Meta.get?_append]
      rw [h3]
      simp [Meta.get?]
    have he := Meta.erase_append_of_none fields "linen_meta_type" (.cls c) h3
    refine ⟨.box c a fields, ?_, ⟨h1, h2, h3⟩, rfl⟩
    simp only [toLinenVar, hg, h1, h2, ↓reduceIte, he]

end Flax.Bridge
