/-
Lemmas about the state-dict model (`Flax/Model/Serial.lean`): round trip of
`from_state_dict ∘ to_state_dict`, the one-node analysis of `from_state_dict` (what an `ok` and what
an `error` result say about the target node, the state node and their children), and the path-level
consequences used by `Flax/Props/C10.lean`.
-/
import Flax.Model.Serial
import Std.Data.String.ToNat

namespace Flax.Serial

/-! ### well-formedness: what Python guarantees of dicts / classes (distinct keys, distinct fields) -/

mutual
  /-- keys of every dict / FrozenDict and field names of every namedtuple / dataclass are distinct -/
  def Tree.wf : Tree → Bool
    | .leaf _ => true
    | .dict kvs => decide (keys kvs).Nodup && wfFields kvs
    | .fdict kvs => decide (keys kvs).Nodup && wfFields kvs
    | .list xs => wfList xs
    | .tuple xs => wfList xs
    | .named _ fs => decide (keys fs).Nodup && wfFields fs
    | .struct _ fs _ => decide (keys fs).Nodup && wfFields fs
  def wfFields : List (String × Tree) → Bool
    | [] => true
    | (_, v) :: r => v.wf && wfFields r
  def wfList : List Tree → Bool
    | [] => true
    | x :: r => x.wf && wfList r
end

mutual
  /-- no namedtuple node has exactly the field names `name`, `fields`, `values` -/
  def Tree.noLegacyNames : Tree → Bool
    | .leaf _ => true
    | .dict kvs => nlFields kvs
    | .fdict kvs => nlFields kvs
    | .list xs => nlList xs
    | .tuple xs => nlList xs
    | .named _ fs => !(sameKeySet (keys fs) legacyKeys) && nlFields fs
    | .struct _ fs _ => nlFields fs
  def nlFields : List (String × Tree) → Bool
    | [] => true
    | (_, v) :: r => v.noLegacyNames && nlFields r
  def nlList : List Tree → Bool
    | [] => true
    | x :: r => x.noLegacyNames && nlList r
end

/-! ### small facts -/

theorem idx_inj {i j : Nat} (h : idx i = idx j) : i = j := by
  simp only [idx] at h
  exact Nat.repr_inj.mp h

theorem subsetKeys_refl (a : List String) : subsetKeys a a = true := by
  simp [subsetKeys]

theorem sameKeySet_refl (a : List String) : sameKeySet a a = true := by
  simp [sameKeySet, subsetKeys_refl]

theorem keys_toSDFields : ∀ (kvs : List (String × Tree)), keys (toSDFields kvs) = keys kvs
  | [] => by simp [toSDFields, keys]
  | (k, v) :: r => by
    have := keys_toSDFields r
    simp only [keys] at this
    simp [toSDFields, keys, this]

theorem length_toSDList : ∀ (xs : List Tree) (i : Nat), (toSDList i xs).length = xs.length
  | [], _ => by simp [toSDList]
  | x :: r, i => by simp [toSDList, length_toSDList r (i + 1)]

theorem lookup_of_mem_nodup {α} : ∀ (kvs : List (String × α)) (k : String) (v : α),
    (keys kvs).Nodup → (k, v) ∈ kvs → lookup k kvs = some v
  | [], _, _, _, h => by cases h
  | (k', v') :: r, k, v, hn, h => by
    simp only [keys, List.map_cons, List.nodup_cons] at hn
    simp only [List.mem_cons, Prod.mk.injEq] at h
    simp only [lookup]
    rcases h with ⟨rfl, rfl⟩ | h
    · simp
    · have hk : k' ≠ k := by
        intro e; subst e
        exact hn.1 (List.mem_map.mpr ⟨(k', v), h, rfl⟩)
      simp only [hk, ↓reduceIte]
      exact lookup_of_mem_nodup r k v hn.2 h

theorem mem_toSDFields : ∀ (kvs : List (String × Tree)) (k : String) (v : Tree),
    (k, v) ∈ kvs → (k, toStateDict v) ∈ toSDFields kvs
  | [], _, _, h => by cases h
  | (k', v') :: r, k, v, h => by
    simp only [List.mem_cons, Prod.mk.injEq] at h
    simp only [toSDFields, List.mem_cons, Prod.mk.injEq]
    rcases h with ⟨rfl, rfl⟩ | h
    · exact Or.inl ⟨rfl, rfl⟩
    · exact Or.inr (mem_toSDFields r k v h)

theorem lookup_toSDFields (kvs : List (String × Tree)) (hn : (keys kvs).Nodup) (k : String) (v : Tree)
    (h : (k, v) ∈ kvs) : lookup k (toSDFields kvs) = some (toStateDict v) :=
  lookup_of_mem_nodup _ k _ (by rw [keys_toSDFields]; exact hn) (mem_toSDFields kvs k v h)

theorem lookup_toSDList : ∀ (xs : List Tree) (i j : Nat) (x : Tree),
    xs[j]? = some x → lookup (idx (i + j)) (toSDList i xs) = some (toStateDict x)
  | [], _, _, _, h => by simp at h
  | y :: r, i, j, x, h => by
    cases j with
    | zero =>
      simp at h; subst h
      simp [toSDList, lookup]
    | succ j =>
      simp only [List.getElem?_cons_succ] at h
      have hne : idx i ≠ idx (i + (j + 1)) := fun e => by have := idx_inj e; omega
      simp only [toSDList, lookup, hne, ↓reduceIte]
      have := lookup_toSDList r (i + 1) j x h
      rwa [show i + 1 + j = i + (j + 1) by omega] at this

/-! ### round trip -/

theorem firstErrorBy_all_ok (order : List String) (fs : List (String × Tree)) :
    firstErrorBy order (fs.map (fun kv => (kv.1, (Except.ok kv.2 : Except Err Tree)))) = none := by
  induction order with
  | nil => rfl
  | cons k r ih =>
    simp only [firstErrorBy]
    have : ∀ (l : List (String × Tree)) (e : Err),
        lookup k (l.map (fun kv => (kv.1, (Except.ok kv.2 : Except Err Tree)))) ≠ some (.error e) := by
      intro l e
      induction l with
      | nil => simp [lookup]
      | cons a l ihl =>
        simp only [List.map_cons, lookup]
        split
        · simp
        · exact ihl
    split
    · next e he => exact absurd he (this fs e)
    · exact ih

theorem collect_all_ok : ∀ (fs : List (String × Tree)),
    collect (fs.map (fun kv => (kv.1, (Except.ok kv.2 : Except Err Tree)))) = .ok fs
  | [] => rfl
  | (k, v) :: r => by simp [collect, collect_all_ok r]

/-- the guard condition under which `_restore_namedtuple` round-trips: always for the repaired
code, only for namedtuples not named name/fields/values for the shipped one -/
def okGuard (guard : Bool) (t : Tree) : Bool := guard || t.noLegacyNames

mutual
  theorem rt_tree (g : Bool) : ∀ (t : Tree) (path : Path), t.wf = true → (g = false → t.noLegacyNames = true) →
      fromSDG g path t (toStateDict t) = .ok t
    | .leaf v, path, _, _ => by simp [toStateDict, fromSDG, ofState]
    | .dict kvs, path, hw, hl => by
      simp only [Tree.wf, Bool.and_eq_true, decide_eq_true_eq] at hw
      have hr := rt_fields g kvs path (toSDFields kvs) hw.2
        (fun h => by have := hl h; simpa [Tree.noLegacyNames] using this)
        (fun k v h => lookup_toSDFields kvs hw.1 k v h)
      simp [toStateDict, fromSDG, keys_toSDFields, subsetKeys_refl, hr]
    | .fdict kvs, path, hw, hl => by
      simp only [Tree.wf, Bool.and_eq_true, decide_eq_true_eq] at hw
      have hr := rt_fields g kvs path (toSDFields kvs) hw.2
        (fun h => by have := hl h; simpa [Tree.noLegacyNames] using this)
        (fun k v h => lookup_toSDFields kvs hw.1 k v h)
      simp [toStateDict, fromSDG, keys_toSDFields, subsetKeys_refl, hr]
    | .list xs, path, hw, hl => by
      simp only [Tree.wf] at hw
      have hr := rt_list g xs path 0 (toSDList 0 xs) hw
        (fun h => by have := hl h; simpa [Tree.noLegacyNames] using this)
        (fun j x h => lookup_toSDList xs 0 j x h)
      simp [toStateDict, fromSDG, pyLen, length_toSDList, hr]
    | .tuple xs, path, hw, hl => by
      simp only [Tree.wf] at hw
      have hr := rt_list g xs path 0 (toSDList 0 xs) hw
        (fun h => by have := hl h; simpa [Tree.noLegacyNames] using this)
        (fun j x h => lookup_toSDList xs 0 j x h)
      simp [toStateDict, fromSDG, pyLen, length_toSDList, hr]
    | .named cls fs, path, hw, hl => by
      simp only [Tree.wf, Bool.and_eq_true, decide_eq_true_eq] at hw
      have hns : namedState g (keys fs) (toSDFields fs) = .ok (toSDFields fs) := by
        simp only [namedState, keys_toSDFields]
        cases g with
        | true => simp
        | false =>
          have := hl rfl
          simp only [Tree.noLegacyNames, Bool.and_eq_true, Bool.not_eq_true'] at this
          simp [this.1]
      have hc := rt_children g fs path (toSDFields fs) hw.2
        (fun h => by have := hl h; simp only [Tree.noLegacyNames, Bool.and_eq_true] at this; exact this.2)
        (fun k v h => lookup_toSDFields fs hw.1 k v h)
      simp [toStateDict, fromSDG, hns, keys_toSDFields, sameKeySet_refl, hc, firstErrorBy_all_ok,
        collect_all_ok]
    | .struct cls fs aux, path, hw, hl => by
      simp only [Tree.wf, Bool.and_eq_true, decide_eq_true_eq] at hw
      have hr := rt_struct g fs path hw.2
        (fun h => by have := hl h; simpa [Tree.noLegacyNames] using this)
      simp [toStateDict, fromSDG, hr]
  theorem rt_fields (g : Bool) : ∀ (kvs : List (String × Tree)) (path : Path) (skvs : List (String × STree)),
      wfFields kvs = true → (g = false → nlFields kvs = true) →
      (∀ k v, (k, v) ∈ kvs → lookup k skvs = some (toStateDict v)) →
      restoreFields g path kvs skvs = .ok kvs
    | [], _, _, _, _, _ => by simp [restoreFields]
    | (k, v) :: r, path, skvs, hw, hl, hlk => by
      simp only [wfFields, Bool.and_eq_true] at hw
      have h1 := rt_tree g v (path ++ [k]) hw.1
        (fun h => by have := hl h; simp only [nlFields, Bool.and_eq_true] at this; exact this.1)
      have h2 := rt_fields g r path skvs hw.2
        (fun h => by have := hl h; simp only [nlFields, Bool.and_eq_true] at this; exact this.2)
        (fun k' v' h => hlk k' v' (List.mem_cons_of_mem _ h))
      simp [restoreFields, hlk k v (List.mem_cons_self), h1, h2]
  theorem rt_list (g : Bool) : ∀ (xs : List Tree) (path : Path) (i : Nat) (skvs : List (String × STree)),
      wfList xs = true → (g = false → nlList xs = true) →
      (∀ j x, xs[j]? = some x → lookup (idx (i + j)) skvs = some (toStateDict x)) →
      restoreList g path i xs (.dict skvs) = .ok xs
    | [], _, _, _, _, _, _ => by simp [restoreList]
    | x :: r, path, i, skvs, hw, hl, hlk => by
      simp only [wfList, Bool.and_eq_true] at hw
      have h0 := hlk 0 x (by simp)
      have h1 := rt_tree g x (path ++ [idx i]) hw.1
        (fun h => by have := hl h; simp only [nlList, Bool.and_eq_true] at this; exact this.1)
      have h2 := rt_list g r path (i + 1) skvs hw.2
        (fun h => by have := hl h; simp only [nlList, Bool.and_eq_true] at this; exact this.2)
        (fun j y h => by
          have := hlk (j + 1) y (by simpa using h)
          rwa [show i + (j + 1) = i + 1 + j by omega] at this)
      simp only [Nat.add_zero] at h0
      simp [restoreList, getItem, h0, h1, h2]
  theorem rt_children (g : Bool) : ∀ (fs : List (String × Tree)) (path : Path) (skvs : List (String × STree)),
      wfFields fs = true → (g = false → nlFields fs = true) →
      (∀ k v, (k, v) ∈ fs → lookup k skvs = some (toStateDict v)) →
      childResults g path fs skvs = fs.map (fun kv => (kv.1, (Except.ok kv.2 : Except Err Tree)))
    | [], _, _, _, _, _ => by simp [childResults]
    | (k, v) :: r, path, skvs, hw, hl, hlk => by
      simp only [wfFields, Bool.and_eq_true] at hw
      have h1 := rt_tree g v (path ++ [k]) hw.1
        (fun h => by have := hl h; simp only [nlFields, Bool.and_eq_true] at this; exact this.1)
      have h2 := rt_children g r path skvs hw.2
        (fun h => by have := hl h; simp only [nlFields, Bool.and_eq_true] at this; exact this.2)
        (fun k' v' h => hlk k' v' (List.mem_cons_of_mem _ h))
      simp [childResults, hlk k v (List.mem_cons_self), h1, h2]
  theorem rt_struct (g : Bool) : ∀ (fs : List (String × Tree)) (path : Path),
      wfFields fs = true → (g = false → nlFields fs = true) →
      restoreStruct g path fs (toSDFields fs) = .ok (fs, [])
    | [], _, _, _ => by simp [restoreStruct, toSDFields]
    | (k, v) :: r, path, hw, hl => by
      simp only [wfFields, Bool.and_eq_true] at hw
      have h1 := rt_tree g v (path ++ [k]) hw.1
        (fun h => by have := hl h; simp only [nlFields, Bool.and_eq_true] at this; exact this.1)
      have h2 := rt_struct g r path hw.2
        (fun h => by have := hl h; simp only [nlFields, Bool.and_eq_true] at this; exact this.2)
      simp [restoreStruct, toSDFields, lookup, erase, h1, h2]
end

end Flax.Serial

namespace Flax.Serial

/-! ### navigation by key path -/

/-- `{'0': x0, '1': x1, …}` starting at index `i` -/
def enumL {α} (i : Nat) : List α → List (String × α)
  | [] => []
  | x :: r => (idx i, x) :: enumL (i + 1) r

/-- the entry of a container under the key / field name / decimal index `k` -/
def Tree.child : Tree → String → Option Tree
  | .leaf _, _ => none
  | .dict kvs, k => lookup k kvs
  | .fdict kvs, k => lookup k kvs
  | .list xs, k => lookup k (enumL 0 xs)
  | .tuple xs, k => lookup k (enumL 0 xs)
  | .named _ fs, k => lookup k fs
  | .struct _ fs _, k => lookup k fs

def STree.child : STree → String → Option STree
  | .leaf _, _ => none
  | .dict kvs, k => lookup k kvs

def Tree.sub : Tree → Path → Option Tree
  | t, [] => some t
  | t, k :: p =>
    match t.child k with
    | none => none
    | some c => c.sub p

def STree.sub : STree → Path → Option STree
  | s, [] => some s
  | s, k :: p =>
    match s.child k with
    | none => none
    | some c => c.sub p

theorem lookup_enumL {α} : ∀ (xs : List α) (i j : Nat), lookup (idx (i + j)) (enumL i xs) = xs[j]?
  | [], _, _ => by simp [enumL, lookup]
  | x :: r, i, j => by
    cases j with
    | zero => simp [enumL, lookup]
    | succ j =>
      have hne : idx i ≠ idx (i + (j + 1)) := fun e => by have := idx_inj e; omega
      simp only [enumL, lookup, hne, ↓reduceIte, List.getElem?_cons_succ]
      have := lookup_enumL r (i + 1) j
      rwa [show i + 1 + j = i + (j + 1) by omega] at this

theorem lookup_enumL_some {α} : ∀ (xs : List α) (i : Nat) (k : String) (x : α),
    lookup k (enumL i xs) = some x → ∃ j, k = idx (i + j) ∧ xs[j]? = some x
  | [], _, _, _, h => by simp [enumL, lookup] at h
  | y :: r, i, k, x, h => by
    simp only [enumL, lookup] at h
    split at h
    · next hk => exact ⟨0, by simp [hk], by simpa using h⟩
    · obtain ⟨j, hj, hx⟩ := lookup_enumL_some r (i + 1) k x h
      exact ⟨j + 1, by rw [hj]; congr 1; omega, by simpa using hx⟩

/-! ### the error a node raises by itself -/

/-- first index in `i, i+1, …, i+n-1` at which `state[str(index)]` fails -/
def firstIndexErr (s : STree) : Nat → Nat → Option Err
  | _, 0 => none
  | i, n + 1 =>
    match getItem s (idx i) with
    | .error e => some e
    | .ok _ => firstIndexErr s (i + 1) n

/-- first field name (in declaration order) that is not a key of the state -/
def firstMissing : List String → List String → Option String
  | [], _ => none
  | k :: r, ks => if k ∈ ks then firstMissing r ks else some k

theorem keys_cons {α} (k : String) (v : α) (r : List (String × α)) : keys ((k, v) :: r) = k :: keys r := rfl

/-- The check each restore function makes on its own node, before / apart from restoring the
children: which error (if any) the pair (target node, state node) raises by itself. `path` is the
path of the node. -/
def localCheck (path : Path) : Tree → STree → Option Err
  | .leaf _, _ => none
  | .dict _, .leaf _ => some .notMapping
  | .dict kvs, .dict skvs => if subsetKeys (keys kvs) (keys skvs) then none else some (.missingKeys path)
  | .fdict _, .leaf _ => some .notMapping
  | .fdict kvs, .dict skvs => if subsetKeys (keys kvs) (keys skvs) then none else some (.missingKeys path)
  | .list xs, s =>
    match pyLen s with
    | none => some .notMapping
    | some n => if n = xs.length then firstIndexErr s 0 xs.length else some (.sizeMismatch path)
  | .tuple xs, s =>
    match pyLen s with
    | none => some .notMapping
    | some n => if n = xs.length then firstIndexErr s 0 xs.length else some (.sizeMismatch path)
  | .named _ _, .leaf _ => some .notMapping
  | .named _ fs, .dict skvs =>
    if sameKeySet (keys skvs) (keys fs) then none else some (.fieldNames path)
  | .struct _ _ _, .leaf _ => some .notMapping
  | .struct _ fs _, .dict skvs =>
    match firstMissing (keys fs) (keys skvs) with
    | some k => some (.missingField path k)
    | none => if subsetKeys (keys skvs) (keys fs) then none else some (.unknownFields path)

/-- what a restored node has in common with its target: container type, class, keys / length -/
def sameNode : Tree → Tree → Prop
  | .leaf _, _ => True
  | .dict kvs, .dict ys => keys ys = keys kvs
  | .fdict kvs, .fdict ys => keys ys = keys kvs
  | .list xs, .list ys => ys.length = xs.length
  | .tuple xs, .tuple ys => ys.length = xs.length
  | .named c fs, .named c' ys => c' = c ∧ keys ys = keys fs
  | .struct c fs a, .struct c' ys a' => c' = c ∧ a' = a ∧ keys ys = keys fs
  | _, _ => False

mutual
  /-- keys of every dict of a state are distinct -/
  def STree.wf : STree → Bool
    | .leaf _ => true
    | .dict kvs => decide (keys kvs).Nodup && swfKvs kvs
  def swfKvs : List (String × STree) → Bool
    | [] => true
    | (_, v) :: r => v.wf && swfKvs r
end

mutual
  /-- no dict of the state has exactly the keys `name`, `fields`, `values` (the marker of the
  pre-2022 namedtuple encoding) -/
  def STree.noLegacy : STree → Bool
    | .leaf _ => true
    | .dict kvs => !(sameKeySet (keys kvs) legacyKeys) && snlKvs kvs
  def snlKvs : List (String × STree) → Bool
    | [] => true
    | (_, v) :: r => v.noLegacy && snlKvs r
end

/-! ### `restoreFields` (dict, FrozenDict) -/

theorem restoreFields_ok (g : Bool) (path : Path) (skvs : List (String × STree)) :
    ∀ (kvs ys : List (String × Tree)), restoreFields g path kvs skvs = .ok ys →
      keys ys = keys kvs ∧
      ∀ k v, lookup k kvs = some v → ∃ sv y, lookup k skvs = some sv ∧
        fromSDG g (path ++ [k]) v sv = .ok y ∧ lookup k ys = some y
  | [], ys, h => by
    simp only [restoreFields, Except.ok.injEq] at h
    subst h
    simp [keys, lookup]
  | (k0, v0) :: r, ys, h => by
    simp only [restoreFields] at h
    split at h
    · cases h
    · next sv0 hsv0 =>
      split at h
      · cases h
      · next y0 hy0 =>
        split at h
        · cases h
        · next ys' hys' =>
          simp only [Except.ok.injEq] at h
          subst h
          have ih := restoreFields_ok g path skvs r ys' hys'
          refine ⟨by simp [keys] at ih ⊢; exact ih.1, ?_⟩
          intro k v hk
          simp only [lookup] at hk ⊢
          split at hk
          · next hkk =>
            simp only [Option.some.injEq] at hk
            subst hk; subst hkk
            exact ⟨sv0, y0, hsv0, hy0, by simp⟩
          · next hkk =>
            obtain ⟨sv, y, h1, h2, h3⟩ := ih.2 k v hk
            exact ⟨sv, y, h1, h2, by simp [hkk, h3]⟩

theorem restoreFields_err (g : Bool) (path : Path) (skvs : List (String × STree)) (e : Err) :
    ∀ (kvs : List (String × Tree)), restoreFields g path kvs skvs = .error e →
      (∃ k, k ∈ keys kvs ∧ lookup k skvs = none) ∨
      ∃ k v sv, (k, v) ∈ kvs ∧ lookup k skvs = some sv ∧ fromSDG g (path ++ [k]) v sv = .error e
  | [], h => by simp [restoreFields] at h
  | (k0, v0) :: r, h => by
    simp only [restoreFields] at h
    split at h
    · next hn => exact Or.inl ⟨k0, by simp [keys], hn⟩
    · next sv0 hsv0 =>
      split at h
      · next e0 he0 =>
        simp only [Except.error.injEq] at h
        subst h
        exact Or.inr ⟨k0, v0, sv0, by simp, hsv0, he0⟩
      · next y0 hy0 =>
        split at h
        · next e1 he1 =>
          simp only [Except.error.injEq] at h
          subst h
          rcases restoreFields_err g path skvs _ r he1 with ⟨k, hk, hn⟩ | ⟨k, v, sv, hm, h1, h2⟩
          · exact Or.inl ⟨k, by simp [keys] at hk ⊢; exact Or.inr hk, hn⟩
          · exact Or.inr ⟨k, v, sv, List.mem_cons_of_mem _ hm, h1, h2⟩
        · cases h

theorem lookup_isSome_of_mem_keys {α} : ∀ (kvs : List (String × α)) (k : String),
    k ∈ keys kvs → ∃ v, lookup k kvs = some v
  | [], _, h => by simp [keys] at h
  | (k0, v0) :: r, k, h => by
    simp only [lookup]
    by_cases hk : k0 = k
    · exact ⟨v0, by simp [hk]⟩
    · simp only [hk, ↓reduceIte]
      apply lookup_isSome_of_mem_keys r k
      simp only [keys, List.map_cons, List.mem_cons] at h
      rcases h with h | h
      · exact absurd h.symm hk
      · exact h

theorem mem_keys_of_lookup {α} : ∀ (kvs : List (String × α)) (k : String) (v : α),
    lookup k kvs = some v → k ∈ keys kvs ∧ (k, v) ∈ kvs
  | [], _, _, h => by simp [lookup] at h
  | (k0, v0) :: r, k, v, h => by
    simp only [lookup] at h
    split at h
    · next hk => simp at h; subst h; subst hk; simp [keys]
    · have := mem_keys_of_lookup r k v h
      simp only [keys] at this
      simp [keys, this]

theorem subsetKeys_iff (a b : List String) : subsetKeys a b = true ↔ ∀ k ∈ a, k ∈ b := by
  simp [subsetKeys]

end Flax.Serial

namespace Flax.Serial

/-! ### `restoreList` (list, tuple) -/

theorem restoreList_ok (g : Bool) (path : Path) (s : STree) :
    ∀ (xs : List Tree) (i : Nat) (ys : List Tree), restoreList g path i xs s = .ok ys →
      ys.length = xs.length ∧
      ∀ j x, xs[j]? = some x → ∃ sv y, getItem s (idx (i + j)) = .ok sv ∧
        fromSDG g (path ++ [idx (i + j)]) x sv = .ok y ∧ ys[j]? = some y
  | [], i, ys, h => by
    simp only [restoreList, Except.ok.injEq] at h
    subst h; simp
  | x0 :: r, i, ys, h => by
    simp only [restoreList] at h
    split at h
    · cases h
    · next sv0 hsv0 =>
      split at h
      · cases h
      · next y0 hy0 =>
        split at h
        · cases h
        · next ys' hys' =>
          simp only [Except.ok.injEq] at h
          subst h
          have ih := restoreList_ok g path s r (i + 1) ys' hys'
          refine ⟨by simp [ih.1], ?_⟩
          intro j x hj
          cases j with
          | zero =>
            simp only [List.getElem?_cons_zero, Option.some.injEq] at hj
            subst hj
            exact ⟨sv0, y0, by simpa using hsv0, by simpa using hy0, by simp⟩
          | succ j =>
            simp only [List.getElem?_cons_succ] at hj
            obtain ⟨sv, y, h1, h2, h3⟩ := ih.2 j x hj
            rw [show i + 1 + j = i + (j + 1) by omega] at h1 h2
            exact ⟨sv, y, h1, h2, by simpa using h3⟩

theorem restoreList_err (g : Bool) (path : Path) (s : STree) (e : Err) :
    ∀ (xs : List Tree) (i : Nat), restoreList g path i xs s = .error e →
      firstIndexErr s i xs.length = some e ∨
      ∃ j x sv, xs[j]? = some x ∧ getItem s (idx (i + j)) = .ok sv ∧
        fromSDG g (path ++ [idx (i + j)]) x sv = .error e
  | [], i, h => by simp [restoreList] at h
  | x0 :: r, i, h => by
    simp only [restoreList] at h
    split at h
    · next e0 he0 =>
      simp only [Except.error.injEq] at h
      subst h
      exact Or.inl (by simp [firstIndexErr, he0])
    · next sv0 hsv0 =>
      split at h
      · next e0 he0 =>
        simp only [Except.error.injEq] at h
        subst h
        exact Or.inr ⟨0, x0, sv0, by simp, by simpa using hsv0, by simpa using he0⟩
      · next y0 hy0 =>
        split at h
        · next e1 he1 =>
          simp only [Except.error.injEq] at h
          subst h
          rcases restoreList_err g path s _ r (i + 1) he1 with hf | ⟨j, x, sv, hj, h1, h2⟩
          · exact Or.inl (by simp [firstIndexErr, hsv0, hf])
          · rw [show i + 1 + j = i + (j + 1) by omega] at h1 h2
            exact Or.inr ⟨j + 1, x, sv, by simpa using hj, h1, h2⟩
        · cases h

/-- when the list restore succeeds no index lookup fails -/
theorem firstIndexErr_none_of_ok (s : STree) : ∀ (n i : Nat),
    (∀ j, j < n → ∃ sv, getItem s (idx (i + j)) = .ok sv) → firstIndexErr s i n = none
  | 0, _, _ => rfl
  | n + 1, i, h => by
    obtain ⟨sv, hsv⟩ := h 0 (by omega)
    simp only [Nat.add_zero] at hsv
    simp only [firstIndexErr, hsv]
    apply firstIndexErr_none_of_ok s n (i + 1)
    intro j hj
    obtain ⟨sv', h'⟩ := h (j + 1) (by omega)
    exact ⟨sv', by rwa [show i + 1 + j = i + (j + 1) by omega]⟩

/-! ### namedtuple helpers -/

theorem lookup_childResults (g : Bool) (path : Path) (skvs : List (String × STree)) (k : String) (v : Tree) :
    ∀ (fs : List (String × Tree)), lookup k fs = some v →
      lookup k (childResults g path fs skvs) = some
        (match lookup k skvs with
          | none => (.error .keyError : Except Err Tree)
          | some sv => fromSDG g (path ++ [k]) v sv)
  | [], h => by simp [lookup] at h
  | (k0, v0) :: r, h => by
    simp only [lookup] at h
    simp only [childResults, lookup]
    split at h
    · next hk =>
      simp only [Option.some.injEq] at h
      subst hk; subst h
      simp only [↓reduceIte, Option.some.injEq]
      cases lookup k0 skvs <;> rfl
    · next hk =>
      simp only [hk, ↓reduceIte]
      exact lookup_childResults g path skvs k v r h

theorem lookup_childResults_none (g : Bool) (path : Path) (skvs : List (String × STree)) (k : String) :
    ∀ (fs : List (String × Tree)), lookup k fs = none → lookup k (childResults g path fs skvs) = none
  | [], _ => by simp [childResults, lookup]
  | (k0, v0) :: r, h => by
    simp only [lookup] at h
    simp only [childResults, lookup]
    split at h
    · cases h
    · next hk =>
      simp only [hk, ↓reduceIte]
      exact lookup_childResults_none g path skvs k r h

theorem keys_childResults (g : Bool) (path : Path) (skvs : List (String × STree)) :
    ∀ (fs : List (String × Tree)), keys (childResults g path fs skvs) = keys fs
  | [] => by simp [childResults, keys]
  | (k0, v0) :: r => by
    have := keys_childResults g path skvs r
    simp only [keys] at this
    simp [childResults, keys, this]

theorem firstErrorBy_some (rs : List (String × Except Err Tree)) (e : Err) :
    ∀ (order : List String), firstErrorBy order rs = some e → ∃ k, k ∈ order ∧ lookup k rs = some (.error e)
  | [], h => by simp [firstErrorBy] at h
  | k :: r, h => by
    simp only [firstErrorBy] at h
    split at h
    · next e' he' =>
      simp only [Option.some.injEq] at h
      subst h
      exact ⟨k, by simp, he'⟩
    · obtain ⟨k', hk', hl⟩ := firstErrorBy_some rs e r h
      exact ⟨k', by simp [hk'], hl⟩

theorem firstErrorBy_none (rs : List (String × Except Err Tree)) :
    ∀ (order : List String), firstErrorBy order rs = none → ∀ k ∈ order, ∀ e, lookup k rs ≠ some (.error e)
  | [], _, k, hk, _ => by cases hk
  | k0 :: r, h, k, hk, e => by
    simp only [firstErrorBy] at h
    split at h
    · cases h
    · next hne =>
      simp only [List.mem_cons] at hk
      rcases hk with rfl | hk
      · exact hne e
      · exact firstErrorBy_none rs r h k hk e

theorem collect_ok : ∀ (rs : List (String × Except Err Tree)) (ys : List (String × Tree)),
    collect rs = .ok ys →
      keys ys = keys rs ∧ ∀ k r, lookup k rs = some r → ∃ y, r = .ok y ∧ lookup k ys = some y
  | [], ys, h => by
    simp only [collect, Except.ok.injEq] at h
    subst h; simp [keys, lookup]
  | (k0, r0) :: rest, ys, h => by
    simp only [collect] at h
    split at h
    · cases h
    · next y0 =>
      split at h
      · cases h
      · next ys' hys' =>
        simp only [Except.ok.injEq] at h
        subst h
        have ih := collect_ok rest ys' hys'
        refine ⟨by simp [keys] at ih ⊢; exact ih.1, ?_⟩
        intro k r hk
        simp only [lookup] at hk ⊢
        split at hk
        · next hkk =>
          simp only [Option.some.injEq] at hk
          subst hk
          exact ⟨y0, rfl, by simp [hkk]⟩
        · next hkk =>
          obtain ⟨y, h1, h2⟩ := ih.2 k r hk
          exact ⟨y, h1, by simp [hkk, h2]⟩

theorem collect_err : ∀ (rs : List (String × Except Err Tree)) (e : Err),
    collect rs = .error e → ∃ k, (k, (.error e : Except Err Tree)) ∈ rs
  | [], e, h => by simp [collect] at h
  | (k0, r0) :: rest, e, h => by
    simp only [collect] at h
    split at h
    · next e0 =>
      simp only [Except.error.injEq] at h
      subst h
      exact ⟨k0, by simp⟩
    · split at h
      · next e1 he1 =>
        simp only [Except.error.injEq] at h
        subst h
        obtain ⟨k, hk⟩ := collect_err rest _ he1
        exact ⟨k, List.mem_cons_of_mem _ hk⟩
      · cases h

/-! ### `restoreStruct` (struct.dataclass) -/

theorem mem_keys_erase {α} : ∀ (st : List (String × α)) (k k' : String), (keys st).Nodup →
    (k' ∈ keys (erase k st) ↔ k' ∈ keys st ∧ k' ≠ k)
  | [], _, _, _ => by simp [erase, keys]
  | (k0, v0) :: r, k, k', hn => by
    simp only [keys, List.map_cons, List.nodup_cons] at hn
    simp only [erase]
    split
    · next hk =>
      subst hk
      simp only [keys, List.map_cons, List.mem_cons]
      constructor
      · intro h
        refine ⟨Or.inr h, ?_⟩
        intro e; subst e; exact hn.1 h
      · rintro ⟨h | h, hne⟩
        · exact absurd h hne
        · exact h
    · next hk =>
      have ih := mem_keys_erase r k k' hn.2
      simp only [keys] at ih
      simp only [keys, List.map_cons, List.mem_cons, ih]
      constructor
      · rintro (h | h)
        · subst h; exact ⟨Or.inl rfl, fun e => hk e⟩
        · exact ⟨Or.inr h.1, h.2⟩
      · rintro ⟨h | h, hne⟩
        · exact Or.inl h
        · exact Or.inr ⟨h, hne⟩

theorem nodup_keys_erase {α} : ∀ (st : List (String × α)) (k : String), (keys st).Nodup →
    (keys (erase k st)).Nodup
  | [], _, _ => by simp [erase, keys]
  | (k0, v0) :: r, k, hn => by
    simp only [keys, List.map_cons, List.nodup_cons] at hn
    simp only [erase]
    split
    · exact hn.2
    · simp only [keys, List.map_cons, List.nodup_cons]
      refine ⟨?_, nodup_keys_erase r k hn.2⟩
      intro h
      have := (mem_keys_erase r k k0 hn.2).mp h
      exact hn.1 this.1

theorem lookup_erase_ne {α} : ∀ (st : List (String × α)) (k k' : String), k' ≠ k →
    lookup k' (erase k st) = lookup k' st
  | [], _, _, _ => by simp [erase]
  | (k0, v0) :: r, k, k', hne => by
    simp only [erase]
    split
    · next hk =>
      subst hk
      simp only [lookup]
      have : ¬ k0 = k' := fun e => hne e.symm
      simp [this]
    · simp only [lookup]
      split
      · rfl
      · exact lookup_erase_ne r k k' hne

theorem lookup_none_iff {α} (st : List (String × α)) (k : String) : lookup k st = none ↔ k ∉ keys st := by
  constructor
  · intro h hm
    obtain ⟨v, hv⟩ := lookup_isSome_of_mem_keys st k hm
    rw [h] at hv; cases hv
  · intro h
    cases hl : lookup k st with
    | none => rfl
    | some v => exact absurd (mem_keys_of_lookup st k v hl).1 h

/-- the struct loop, for a state with distinct keys and a class with distinct fields -/
theorem restoreStruct_ok (g : Bool) (path : Path) :
    ∀ (fs : List (String × Tree)) (st : List (String × STree)) (ys : List (String × Tree))
      (rest : List (String × STree)),
      (keys fs).Nodup → (keys st).Nodup → restoreStruct g path fs st = .ok (ys, rest) →
      keys ys = keys fs ∧ (∀ k, k ∈ keys rest ↔ k ∈ keys st ∧ k ∉ keys fs) ∧
      ∀ k v, lookup k fs = some v → ∃ sv y, lookup k st = some sv ∧
        fromSDG g (path ++ [k]) v sv = .ok y ∧ lookup k ys = some y
  | [], st, ys, rest, _, _, h => by
    simp only [restoreStruct, Except.ok.injEq, Prod.mk.injEq] at h
    obtain ⟨rfl, rfl⟩ := h
    simp [keys, lookup]
  | (k0, v0) :: r, st, ys, rest, hnf, hns, h => by
    simp only [keys, List.map_cons, List.nodup_cons] at hnf
    simp only [restoreStruct] at h
    split at h
    · cases h
    · next sv0 hsv0 =>
      split at h
      · cases h
      · next y0 hy0 =>
        split at h
        · cases h
        · next ys' st' hys' =>
          simp only [Except.ok.injEq, Prod.mk.injEq] at h
          obtain ⟨rfl, rfl⟩ := h
          have ih := restoreStruct_ok g path r (erase k0 st) ys' st' hnf.2 (nodup_keys_erase st k0 hns) hys'
          refine ⟨by simp [keys] at ih ⊢; exact ih.1, ?_, ?_⟩
          · intro k
            rw [ih.2.1 k, mem_keys_erase st k0 k hns]
            simp only [keys, List.map_cons, List.mem_cons]
            constructor
            · rintro ⟨⟨h1, h2⟩, h3⟩
              exact ⟨h1, fun h => h.elim h2 h3⟩
            · rintro ⟨h1, h2⟩
              exact ⟨⟨h1, fun e => h2 (Or.inl e)⟩, fun e => h2 (Or.inr e)⟩
          · intro k v hk
            simp only [lookup] at hk ⊢
            split at hk
            · next hkk =>
              simp only [Option.some.injEq] at hk
              subst hk; subst hkk
              exact ⟨sv0, y0, hsv0, hy0, by simp⟩
            · next hkk =>
              obtain ⟨sv, y, h1, h2, h3⟩ := ih.2.2 k v hk
              rw [lookup_erase_ne st k0 k (fun e => hkk e.symm)] at h1
              exact ⟨sv, y, h1, h2, by simp [hkk, h3]⟩

theorem firstMissing_erase {α} (st : List (String × α)) (k0 : String) (hns : (keys st).Nodup) :
    ∀ (l : List String), (∀ x ∈ l, x ≠ k0) → firstMissing l (keys (erase k0 st)) = firstMissing l (keys st)
  | [], _ => rfl
  | a :: l, hl => by
    have ha : a ≠ k0 := hl a (by simp)
    have hl' : ∀ x ∈ l, x ≠ k0 := fun x hx => hl x (by simp [hx])
    have hiff := mem_keys_erase st k0 a hns
    simp only [firstMissing]
    by_cases hast : a ∈ keys st
    · have : a ∈ keys (erase k0 st) := hiff.mpr ⟨hast, ha⟩
      simp only [hast, this, ↓reduceIte]
      exact firstMissing_erase st k0 hns l hl'
    · have : a ∉ keys (erase k0 st) := fun h => hast (hiff.mp h).1
      simp [hast, this]

theorem restoreStruct_err (g : Bool) (path : Path) (e : Err) :
    ∀ (fs : List (String × Tree)) (st : List (String × STree)),
      (keys fs).Nodup → (keys st).Nodup → restoreStruct g path fs st = .error e →
      (∃ k, firstMissing (keys fs) (keys st) = some k ∧ e = .missingField path k) ∨
      ∃ k v sv, (k, v) ∈ fs ∧ lookup k st = some sv ∧ fromSDG g (path ++ [k]) v sv = .error e
  | [], st, _, _, h => by simp [restoreStruct] at h
  | (k0, v0) :: r, st, hnf, hns, h => by
    rw [keys_cons, List.nodup_cons] at hnf
    simp only [restoreStruct] at h
    split at h
    · next hn =>
      simp only [Except.error.injEq] at h
      subst h
      have : k0 ∉ keys st := (lookup_none_iff st k0).mp hn
      exact Or.inl ⟨k0, by simp [keys_cons, firstMissing, this], rfl⟩
    · next sv0 hsv0 =>
      have hin : k0 ∈ keys st := (mem_keys_of_lookup st k0 sv0 hsv0).1
      split at h
      · next e0 he0 =>
        simp only [Except.error.injEq] at h
        subst h
        exact Or.inr ⟨k0, v0, sv0, by simp, hsv0, he0⟩
      · next y0 hy0 =>
        split at h
        · next e1 he1 =>
          simp only [Except.error.injEq] at h
          subst h
          rcases restoreStruct_err g path _ r (erase k0 st) hnf.2 (nodup_keys_erase st k0 hns) he1 with
            ⟨k, hk, he⟩ | ⟨k, v, sv, hm, h1, h2⟩
          · refine Or.inl ⟨k, ?_, he⟩
            rw [firstMissing_erase st k0 hns (keys r) (fun x hx e' => hnf.1 (e' ▸ hx))] at hk
            simp [keys_cons, firstMissing, hin, hk]
          · have hne : k ≠ k0 := by
              intro e'; subst e'
              exact hnf.1 (List.mem_map.mpr ⟨(k, v), hm, rfl⟩)
            rw [lookup_erase_ne st k0 k hne] at h1
            exact Or.inr ⟨k, v, sv, List.mem_cons_of_mem _ hm, h1, h2⟩
        · cases h

end Flax.Serial

namespace Flax.Serial

/-! ### one-node analysis of `from_state_dict` -/

theorem getItem_ok_iff (s : STree) (k : String) (sv : STree) : getItem s k = .ok sv ↔ s.child k = some sv := by
  cases s with
  | leaf v => simp [getItem, STree.child]
  | dict kvs =>
    simp only [getItem, STree.child]
    cases lookup k kvs <;> simp

theorem namedState_noLegacy (g : Bool) (fs : List String) (skvs : List (String × STree))
    (h : sameKeySet (keys skvs) legacyKeys = false) : namedState g fs skvs = .ok skvs := by
  simp [namedState, h]

/-- shared by dict and FrozenDict -/
theorem fields_ok_step (g : Bool) (path : Path) (kvs ys : List (String × Tree)) (skvs : List (String × STree))
    (h : restoreFields g path kvs skvs = .ok ys) :
    keys ys = keys kvs ∧
    ∀ k tc, lookup k kvs = some tc → ∃ sc tc', lookup k skvs = some sc ∧
      fromSDG g (path ++ [k]) tc sc = .ok tc' ∧ lookup k ys = some tc' :=
  restoreFields_ok g path skvs kvs ys h

/-- **what a successful restore says about one node**: the node raises no error by itself, the
result has the target's container type / class / keys, a leaf target is replaced by the state, and
every entry of the target was restored from the state entry *under the same key* into the result
entry *under the same key*. -/
theorem node_ok (g : Bool) (path : Path) (t : Tree) (s : STree) (t' : Tree)
    (hw : t.wf = true) (hs : s.wf = true) (hnl : s.noLegacy = true)
    (h : fromSDG g path t s = .ok t') :
    localCheck path t s = none ∧ sameNode t t' ∧ (∀ v, t = .leaf v → t' = ofState s) ∧
    ∀ k tc, t.child k = some tc → ∃ sc tc', s.child k = some sc ∧
      fromSDG g (path ++ [k]) tc sc = .ok tc' ∧ t'.child k = some tc' := by
  cases t with
  | leaf v =>
    simp only [fromSDG, Except.ok.injEq] at h
    subst h
    simp [localCheck, sameNode, Tree.child]
  | dict kvs =>
    cases s with
    | leaf sv => simp [fromSDG] at h
    | dict skvs =>
      simp only [fromSDG] at h
      split at h
      · next hsub =>
        split at h
        · cases h
        · next ys hys =>
          simp only [Except.ok.injEq] at h
          subst h
          have := fields_ok_step g path kvs ys skvs hys
          refine ⟨by simp [localCheck, hsub], by simp [sameNode, this.1], by simp, ?_⟩
          intro k tc hk
          simpa [Tree.child, STree.child] using this.2 k tc (by simpa [Tree.child] using hk)
      · cases h
  | fdict kvs =>
    cases s with
    | leaf sv => simp [fromSDG] at h
    | dict skvs =>
      simp only [fromSDG] at h
      split at h
      · next hsub =>
        split at h
        · cases h
        · next ys hys =>
          simp only [Except.ok.injEq] at h
          subst h
          have := fields_ok_step g path kvs ys skvs hys
          refine ⟨by simp [localCheck, hsub], by simp [sameNode, this.1], by simp, ?_⟩
          intro k tc hk
          simpa [Tree.child, STree.child] using this.2 k tc (by simpa [Tree.child] using hk)
      · cases h
  | list xs =>
    simp only [fromSDG] at h
    split at h
    · cases h
    · next n hn =>
      split at h
      · next hlen =>
        split at h
        · cases h
        · next ys hys =>
          simp only [Except.ok.injEq] at h
          subst h
          have := restoreList_ok g path s xs 0 ys hys
          refine ⟨?_, by simp [sameNode, this.1], by simp, ?_⟩
          · simp only [localCheck, hn, hlen, ↓reduceIte]
            apply firstIndexErr_none_of_ok
            intro j hj
            obtain ⟨sv, y, h1, _, _⟩ := this.2 j xs[j] (by simp [hj])
            exact ⟨sv, h1⟩
          · intro k tc hk
            obtain ⟨j, rfl, hj⟩ := lookup_enumL_some xs 0 k tc (by simpa [Tree.child] using hk)
            obtain ⟨sv, y, h1, h2, h3⟩ := this.2 j tc hj
            refine ⟨sv, y, (getItem_ok_iff _ _ _).mp h1, h2, ?_⟩
            simp only [Tree.child, lookup_enumL, h3]
      · cases h
  | tuple xs =>
    simp only [fromSDG] at h
    split at h
    · cases h
    · next n hn =>
      split at h
      · next hlen =>
        split at h
        · cases h
        · next ys hys =>
          simp only [Except.ok.injEq] at h
          subst h
          have := restoreList_ok g path s xs 0 ys hys
          refine ⟨?_, by simp [sameNode, this.1], by simp, ?_⟩
          · simp only [localCheck, hn, hlen, ↓reduceIte]
            apply firstIndexErr_none_of_ok
            intro j hj
            obtain ⟨sv, y, h1, _, _⟩ := this.2 j xs[j] (by simp [hj])
            exact ⟨sv, h1⟩
          · intro k tc hk
            obtain ⟨j, rfl, hj⟩ := lookup_enumL_some xs 0 k tc (by simpa [Tree.child] using hk)
            obtain ⟨sv, y, h1, h2, h3⟩ := this.2 j tc hj
            refine ⟨sv, y, (getItem_ok_iff _ _ _).mp h1, h2, ?_⟩
            simp only [Tree.child, lookup_enumL, h3]
      · cases h
  | named cls fs =>
    cases s with
    | leaf sv => simp [fromSDG] at h
    | dict skvs =>
      simp only [STree.noLegacy, Bool.and_eq_true, Bool.not_eq_true'] at hnl
      simp only [fromSDG, namedState_noLegacy g (keys fs) skvs hnl.1] at h
      split at h
      · next hsame =>
        split at h
        · cases h
        · next hfe =>
          split at h
          · cases h
          · next ys hys =>
            simp only [Except.ok.injEq] at h
            subst h
            have hc := collect_ok _ ys hys
            rw [keys_childResults] at hc
            refine ⟨by simp [localCheck, hsame], by simp [sameNode, hc.1], by simp, ?_⟩
            intro k tc hk
            simp only [Tree.child] at hk
            have hlk := lookup_childResults g path skvs k tc fs hk
            obtain ⟨y, hy1, hy2⟩ := hc.2 k _ hlk
            -- the state has this field
            have hkin : k ∈ keys skvs := by
              simp only [sameKeySet, Bool.and_eq_true, subsetKeys_iff] at hsame
              exact hsame.2 k (mem_keys_of_lookup fs k tc hk).1
            obtain ⟨sc, hsc⟩ := lookup_isSome_of_mem_keys skvs k hkin
            simp only [hsc] at hy1
            exact ⟨sc, y, by simp [STree.child, hsc], hy1, by simp [Tree.child, hy2]⟩
      · cases h
  | struct cls fs aux =>
    cases s with
    | leaf sv => simp [fromSDG] at h
    | dict skvs =>
      simp only [Tree.wf, Bool.and_eq_true, decide_eq_true_eq] at hw
      simp only [STree.wf, Bool.and_eq_true, decide_eq_true_eq] at hs
      simp only [fromSDG] at h
      split at h
      · cases h
      · next ys rest hys =>
        split at h
        · next hemp =>
          simp only [Except.ok.injEq] at h
          subst h
          have := restoreStruct_ok g path fs skvs ys rest hw.1 hs.1 hys
          have hrest : rest = [] := by simpa using hemp
          refine ⟨?_, by simp [sameNode, this.1], by simp, ?_⟩
          · -- no field is missing, no key is unknown
            have hmiss : firstMissing (keys fs) (keys skvs) = none := by
              have hall : ∀ k ∈ keys fs, k ∈ keys skvs := by
                intro k hk
                obtain ⟨v, hv⟩ := lookup_isSome_of_mem_keys fs k hk
                obtain ⟨sv, _, h1, _, _⟩ := this.2.2 k v hv
                exact (mem_keys_of_lookup skvs k sv h1).1
              generalize keys fs = l at hall
              induction l with
              | nil => rfl
              | cons a l ih =>
                simp only [firstMissing, hall a (by simp), ↓reduceIte]
                exact ih (fun k hk => hall k (by simp [hk]))
            have hunk : subsetKeys (keys skvs) (keys fs) = true := by
              rw [subsetKeys_iff]
              intro k hk
              by_cases hkf : k ∈ keys fs
              · exact hkf
              · have := (this.2.1 k).mpr ⟨hk, hkf⟩
                simp [hrest, keys] at this
            simp [localCheck, hmiss, hunk]
          · intro k tc hk
            obtain ⟨sv, y, h1, h2, h3⟩ := this.2.2 k tc (by simpa [Tree.child] using hk)
            exact ⟨sv, y, by simp [STree.child, h1], h2, by simp [Tree.child, h3]⟩
        · cases h

end Flax.Serial

namespace Flax.Serial

theorem firstMissing_none_of_all : ∀ (l ks : List String), (∀ k ∈ l, k ∈ ks) → firstMissing l ks = none
  | [], _, _ => rfl
  | a :: l, ks, h => by
    simp only [firstMissing, h a (by simp), ↓reduceIte]
    exact firstMissing_none_of_all l ks (fun k hk => h k (by simp [hk]))

theorem lookup_of_mem_keys_nodup {α} (kvs : List (String × α)) (k : String) (v : α)
    (hn : (keys kvs).Nodup) (h : (k, v) ∈ kvs) : lookup k kvs = some v :=
  lookup_of_mem_nodup kvs k v hn h

/-- **what a failed restore says about one node**: the error is either the one this node raises by
itself (`localCheck`), or the error of restoring one of its entries from the state entry under the
same key. -/
theorem node_err (g : Bool) (path : Path) (t : Tree) (s : STree) (e : Err)
    (hw : t.wf = true) (hs : s.wf = true) (hnl : s.noLegacy = true)
    (h : fromSDG g path t s = .error e) :
    localCheck path t s = some e ∨
    ∃ k tc sc, t.child k = some tc ∧ s.child k = some sc ∧ fromSDG g (path ++ [k]) tc sc = .error e := by
  cases t with
  | leaf v => simp [fromSDG] at h
  | dict kvs =>
    simp only [Tree.wf, Bool.and_eq_true, decide_eq_true_eq] at hw
    cases s with
    | leaf sv =>
      simp only [fromSDG, Except.error.injEq] at h
      subst h; exact Or.inl (by simp [localCheck])
    | dict skvs =>
      simp only [fromSDG] at h
      split at h
      · next hsub =>
        split at h
        · next e1 he1 =>
          simp only [Except.error.injEq] at h
          subst h
          rcases restoreFields_err g path skvs _ kvs he1 with ⟨k, hk, hn⟩ | ⟨k, v, sv, hm, h1, h2⟩
          · exfalso
            have := (subsetKeys_iff _ _).mp hsub k hk
            exact (lookup_none_iff skvs k).mp hn this
          · exact Or.inr ⟨k, v, sv, by simp [Tree.child, lookup_of_mem_nodup kvs k v hw.1 hm],
              by simp [STree.child, h1], h2⟩
        · cases h
      · simp only [Except.error.injEq] at h
        subst h
        next hsub => exact Or.inl (by simp [localCheck, hsub])
  | fdict kvs =>
    simp only [Tree.wf, Bool.and_eq_true, decide_eq_true_eq] at hw
    cases s with
    | leaf sv =>
      simp only [fromSDG, Except.error.injEq] at h
      subst h; exact Or.inl (by simp [localCheck])
    | dict skvs =>
      simp only [fromSDG] at h
      split at h
      · next hsub =>
        split at h
        · next e1 he1 =>
          simp only [Except.error.injEq] at h
          subst h
          rcases restoreFields_err g path skvs _ kvs he1 with ⟨k, hk, hn⟩ | ⟨k, v, sv, hm, h1, h2⟩
          · exfalso
            have := (subsetKeys_iff _ _).mp hsub k hk
            exact (lookup_none_iff skvs k).mp hn this
          · exact Or.inr ⟨k, v, sv, by simp [Tree.child, lookup_of_mem_nodup kvs k v hw.1 hm],
              by simp [STree.child, h1], h2⟩
        · cases h
      · simp only [Except.error.injEq] at h
        subst h
        next hsub => exact Or.inl (by simp [localCheck, hsub])
  | list xs =>
    simp only [fromSDG] at h
    split at h
    · next hn =>
      simp only [Except.error.injEq] at h
      subst h; exact Or.inl (by simp [localCheck, hn])
    · next n hn =>
      split at h
      · next hlen =>
        split at h
        · next e1 he1 =>
          simp only [Except.error.injEq] at h
          subst h
          rcases restoreList_err g path s _ xs 0 he1 with hf | ⟨j, x, sv, hj, h1, h2⟩
          · exact Or.inl (by simp [localCheck, hn, hlen, hf])
          · refine Or.inr ⟨idx (0 + j), x, sv, ?_, (getItem_ok_iff _ _ _).mp h1, h2⟩
            simp only [Tree.child]
            rw [lookup_enumL]; exact hj
        · cases h
      · next hlen =>
        simp only [Except.error.injEq] at h
        subst h; exact Or.inl (by simp [localCheck, hn, hlen])
  | tuple xs =>
    simp only [fromSDG] at h
    split at h
    · next hn =>
      simp only [Except.error.injEq] at h
      subst h; exact Or.inl (by simp [localCheck, hn])
    · next n hn =>
      split at h
      · next hlen =>
        split at h
        · next e1 he1 =>
          simp only [Except.error.injEq] at h
          subst h
          rcases restoreList_err g path s _ xs 0 he1 with hf | ⟨j, x, sv, hj, h1, h2⟩
          · exact Or.inl (by simp [localCheck, hn, hlen, hf])
          · refine Or.inr ⟨idx (0 + j), x, sv, ?_, (getItem_ok_iff _ _ _).mp h1, h2⟩
            simp only [Tree.child]
            rw [lookup_enumL]; exact hj
        · cases h
      · next hlen =>
        simp only [Except.error.injEq] at h
        subst h; exact Or.inl (by simp [localCheck, hn, hlen])
  | named cls fs =>
    simp only [Tree.wf, Bool.and_eq_true, decide_eq_true_eq] at hw
    cases s with
    | leaf sv =>
      simp only [fromSDG, Except.error.injEq] at h
      subst h; exact Or.inl (by simp [localCheck])
    | dict skvs =>
      simp only [STree.noLegacy, Bool.and_eq_true, Bool.not_eq_true'] at hnl
      simp only [fromSDG, namedState_noLegacy g (keys fs) skvs hnl.1] at h
      split at h
      · next hsame =>
        have hsame' := hsame
        simp only [sameKeySet, Bool.and_eq_true, subsetKeys_iff] at hsame'
        -- a failing entry of `childResults` under key `k` is a failing child
        have child_of : ∀ k, lookup k (childResults g path fs skvs) = some (.error e) →
            ∃ tc sc, lookup k fs = some tc ∧ lookup k skvs = some sc ∧
              fromSDG g (path ++ [k]) tc sc = .error e := by
          intro k hk
          cases hf : lookup k fs with
          | none => rw [lookup_childResults_none g path skvs k fs hf] at hk; cases hk
          | some tc =>
            rw [lookup_childResults g path skvs k tc fs hf] at hk
            have hkin : k ∈ keys skvs := hsame'.2 k (mem_keys_of_lookup fs k tc hf).1
            obtain ⟨sc, hsc⟩ := lookup_isSome_of_mem_keys skvs k hkin
            simp only [hsc, Option.some.injEq] at hk
            exact ⟨tc, sc, rfl, hsc, hk⟩
        split at h
        · next e1 he1 =>
          simp only [Except.error.injEq] at h
          subst h
          obtain ⟨k, _, hl⟩ := firstErrorBy_some _ _ _ he1
          obtain ⟨tc, sc, h1, h2, h3⟩ := child_of k hl
          exact Or.inr ⟨k, tc, sc, by simp [Tree.child, h1], by simp [STree.child, h2], h3⟩
        · next hfe =>
          split at h
          · next e1 he1 =>
            simp only [Except.error.injEq] at h
            subst h
            obtain ⟨k, hk⟩ := collect_err _ _ he1
            have hl : lookup k (childResults g path fs skvs) = some (.error e1) :=
              lookup_of_mem_nodup _ k _ (by rw [keys_childResults]; exact hw.1) hk
            obtain ⟨tc, sc, h1, h2, h3⟩ := child_of k hl
            exact Or.inr ⟨k, tc, sc, by simp [Tree.child, h1], by simp [STree.child, h2], h3⟩
          · cases h
      · next hsame =>
        simp only [Except.error.injEq] at h
        subst h; exact Or.inl (by simp [localCheck, hsame])
  | struct cls fs aux =>
    simp only [Tree.wf, Bool.and_eq_true, decide_eq_true_eq] at hw
    cases s with
    | leaf sv =>
      simp only [fromSDG, Except.error.injEq] at h
      subst h; exact Or.inl (by simp [localCheck])
    | dict skvs =>
      simp only [STree.wf, Bool.and_eq_true, decide_eq_true_eq] at hs
      simp only [fromSDG] at h
      split at h
      · next e1 he1 =>
        simp only [Except.error.injEq] at h
        subst h
        rcases restoreStruct_err g path _ fs skvs hw.1 hs.1 he1 with ⟨k, hk, he⟩ | ⟨k, v, sv, hm, h1, h2⟩
        · subst he
          exact Or.inl (by simp [localCheck, hk])
        · exact Or.inr ⟨k, v, sv, by simp [Tree.child, lookup_of_mem_nodup fs k v hw.1 hm],
            by simp [STree.child, h1], h2⟩
      · next ys rest hys =>
        split at h
        · cases h
        · next hemp =>
          simp only [Except.error.injEq] at h
          subst h
          have := restoreStruct_ok g path fs skvs ys rest hw.1 hs.1 hys
          have hmiss : firstMissing (keys fs) (keys skvs) = none := by
            apply firstMissing_none_of_all
            intro k hk
            obtain ⟨v, hv⟩ := lookup_isSome_of_mem_keys fs k hk
            obtain ⟨sv, _, h1, _, _⟩ := this.2.2 k v hv
            exact (mem_keys_of_lookup skvs k sv h1).1
          have hunk : subsetKeys (keys skvs) (keys fs) = false := by
            cases rest with
            | nil => simp at hemp
            | cons kv rest' =>
              have hk := (this.2.1 kv.1).mp (by simp [keys])
              cases hsk : subsetKeys (keys skvs) (keys fs) with
              | false => rfl
              | true => exact absurd ((subsetKeys_iff _ _).mp hsk kv.1 hk.1) hk.2
          exact Or.inl (by simp [localCheck, hmiss, hunk])

end Flax.Serial

namespace Flax.Serial

/-! ### well-formedness is inherited by entries; entries are smaller -/

theorem wf_of_lookup : ∀ (kvs : List (String × Tree)) (k : String) (v : Tree),
    wfFields kvs = true → lookup k kvs = some v → v.wf = true
  | [], _, _, _, h => by simp [lookup] at h
  | (k0, v0) :: r, k, v, hw, h => by
    simp only [wfFields, Bool.and_eq_true] at hw
    simp only [lookup] at h
    split at h
    · simp only [Option.some.injEq] at h; subst h; exact hw.1
    · exact wf_of_lookup r k v hw.2 h

theorem wf_of_enumL : ∀ (xs : List Tree) (i : Nat) (k : String) (v : Tree),
    wfList xs = true → lookup k (enumL i xs) = some v → v.wf = true
  | [], _, _, _, _, h => by simp [enumL, lookup] at h
  | x :: r, i, k, v, hw, h => by
    simp only [wfList, Bool.and_eq_true] at hw
    simp only [enumL, lookup] at h
    split at h
    · simp only [Option.some.injEq] at h; subst h; exact hw.1
    · exact wf_of_enumL r (i + 1) k v hw.2 h

theorem Tree.wf_child (t : Tree) (k : String) (tc : Tree) (hw : t.wf = true) (h : t.child k = some tc) :
    tc.wf = true := by
  cases t with
  | leaf v => simp [Tree.child] at h
  | dict kvs => simp only [Tree.wf, Bool.and_eq_true] at hw; exact wf_of_lookup kvs k tc hw.2 h
  | fdict kvs => simp only [Tree.wf, Bool.and_eq_true] at hw; exact wf_of_lookup kvs k tc hw.2 h
  | list xs => simp only [Tree.wf] at hw; exact wf_of_enumL xs 0 k tc hw h
  | tuple xs => simp only [Tree.wf] at hw; exact wf_of_enumL xs 0 k tc hw h
  | named c fs => simp only [Tree.wf, Bool.and_eq_true] at hw; exact wf_of_lookup fs k tc hw.2 h
  | struct c fs a => simp only [Tree.wf, Bool.and_eq_true] at hw; exact wf_of_lookup fs k tc hw.2 h

theorem swf_of_lookup : ∀ (kvs : List (String × STree)) (k : String) (v : STree),
    swfKvs kvs = true → lookup k kvs = some v → v.wf = true
  | [], _, _, _, h => by simp [lookup] at h
  | (k0, v0) :: r, k, v, hw, h => by
    simp only [swfKvs, Bool.and_eq_true] at hw
    simp only [lookup] at h
    split at h
    · simp only [Option.some.injEq] at h; subst h; exact hw.1
    · exact swf_of_lookup r k v hw.2 h

theorem snl_of_lookup : ∀ (kvs : List (String × STree)) (k : String) (v : STree),
    snlKvs kvs = true → lookup k kvs = some v → v.noLegacy = true
  | [], _, _, _, h => by simp [lookup] at h
  | (k0, v0) :: r, k, v, hw, h => by
    simp only [snlKvs, Bool.and_eq_true] at hw
    simp only [lookup] at h
    split at h
    · simp only [Option.some.injEq] at h; subst h; exact hw.1
    · exact snl_of_lookup r k v hw.2 h

theorem STree.wf_child (s : STree) (k : String) (sc : STree) (hw : s.wf = true) (h : s.child k = some sc) :
    sc.wf = true := by
  cases s with
  | leaf v => simp [STree.child] at h
  | dict kvs => simp only [STree.wf, Bool.and_eq_true] at hw; exact swf_of_lookup kvs k sc hw.2 h

theorem STree.noLegacy_child (s : STree) (k : String) (sc : STree) (hw : s.noLegacy = true)
    (h : s.child k = some sc) : sc.noLegacy = true := by
  cases s with
  | leaf v => simp [STree.child] at h
  | dict kvs => simp only [STree.noLegacy, Bool.and_eq_true] at hw; exact snl_of_lookup kvs k sc hw.2 h

mutual
  def Tree.size : Tree → Nat
    | .leaf _ => 1
    | .dict kvs => 1 + sizeFields kvs
    | .fdict kvs => 1 + sizeFields kvs
    | .list xs => 1 + sizeList xs
    | .tuple xs => 1 + sizeList xs
    | .named _ fs => 1 + sizeFields fs
    | .struct _ fs _ => 1 + sizeFields fs
  def sizeFields : List (String × Tree) → Nat
    | [] => 0
    | (_, v) :: r => v.size + sizeFields r
  def sizeList : List Tree → Nat
    | [] => 0
    | x :: r => x.size + sizeList r
end

theorem size_of_lookup : ∀ (kvs : List (String × Tree)) (k : String) (v : Tree),
    lookup k kvs = some v → v.size ≤ sizeFields kvs
  | [], _, _, h => by simp [lookup] at h
  | (k0, v0) :: r, k, v, h => by
    simp only [lookup] at h
    simp only [sizeFields]
    split at h
    · simp only [Option.some.injEq] at h; subst h; omega
    · have := size_of_lookup r k v h; omega

theorem size_of_enumL : ∀ (xs : List Tree) (i : Nat) (k : String) (v : Tree),
    lookup k (enumL i xs) = some v → v.size ≤ sizeList xs
  | [], _, _, _, h => by simp [enumL, lookup] at h
  | x :: r, i, k, v, h => by
    simp only [enumL, lookup] at h
    simp only [sizeList]
    split at h
    · simp only [Option.some.injEq] at h; subst h; omega
    · have := size_of_enumL r (i + 1) k v h; omega

theorem Tree.size_child (t : Tree) (k : String) (tc : Tree) (h : t.child k = some tc) : tc.size < t.size := by
  cases t with
  | leaf v => simp [Tree.child] at h
  | dict kvs => have := size_of_lookup kvs k tc h; simp only [Tree.size]; omega
  | fdict kvs => have := size_of_lookup kvs k tc h; simp only [Tree.size]; omega
  | list xs => have := size_of_enumL xs 0 k tc h; simp only [Tree.size]; omega
  | tuple xs => have := size_of_enumL xs 0 k tc h; simp only [Tree.size]; omega
  | named c fs => have := size_of_lookup fs k tc h; simp only [Tree.size]; omega
  | struct c fs a => have := size_of_lookup fs k tc h; simp only [Tree.size]; omega

/-! ### path-level consequences -/

/-- a successful restore restores every sub-tree of the target, at every key path, from the state
node under the same key path, into the result node under the same key path -/
theorem path_ok (g : Bool) : ∀ (p : Path) (root : Path) (t : Tree) (s : STree) (t' : Tree),
    t.wf = true → s.wf = true → s.noLegacy = true → fromSDG g root t s = .ok t' →
    ∀ tn, t.sub p = some tn → ∃ sn tn', s.sub p = some sn ∧ t'.sub p = some tn' ∧
      tn.wf = true ∧ sn.wf = true ∧ sn.noLegacy = true ∧ fromSDG g (root ++ p) tn sn = .ok tn'
  | [], root, t, s, t', hw, hs, hnl, h, tn, htn => by
    simp only [Tree.sub, Option.some.injEq] at htn
    subst htn
    exact ⟨s, t', by simp [STree.sub], by simp [Tree.sub], hw, hs, hnl, by simpa using h⟩
  | k :: p, root, t, s, t', hw, hs, hnl, h, tn, htn => by
    simp only [Tree.sub] at htn
    split at htn
    · cases htn
    · next tc htc =>
      obtain ⟨sc, tc', h1, h2, h3⟩ := (node_ok g root t s t' hw hs hnl h).2.2.2 k tc htc
      obtain ⟨sn, tn', r1, r2, r3, r4, r5, r6⟩ := path_ok g p (root ++ [k]) tc sc tc'
        (t.wf_child k tc hw htc) (s.wf_child k sc hs h1) (s.noLegacy_child k sc hnl h1) h2 tn htn
      refine ⟨sn, tn', by simp [STree.sub, h1, r1], by simp [Tree.sub, h3, r2], r3, r4, r5, ?_⟩
      simpa using r6

/-- a failed restore fails with the local error of some node that target and state have in common -/
theorem path_err (g : Bool) : ∀ (n : Nat) (root : Path) (t : Tree) (s : STree) (e : Err), t.size ≤ n →
    t.wf = true → s.wf = true → s.noLegacy = true → fromSDG g root t s = .error e →
    ∃ p tn sn, t.sub p = some tn ∧ s.sub p = some sn ∧ localCheck (root ++ p) tn sn = some e
  | 0, _, t, _, _, hn, _, _, _, _ => by
    cases t <;> simp [Tree.size] at hn
  | n + 1, root, t, s, e, hn, hw, hs, hnl, h => by
    rcases node_err g root t s e hw hs hnl h with hl | ⟨k, tc, sc, h1, h2, h3⟩
    · exact ⟨[], t, s, by simp [Tree.sub], by simp [STree.sub], by simpa using hl⟩
    · have hsz := t.size_child k tc h1
      obtain ⟨p, tn, sn, r1, r2, r3⟩ := path_err g n (root ++ [k]) tc sc e (by omega)
        (t.wf_child k tc hw h1) (s.wf_child k sc hs h2) (s.noLegacy_child k sc hnl h2) h3
      exact ⟨k :: p, tn, sn, by simp [Tree.sub, h1, r1], by simp [STree.sub, h2, r2], by simpa using r3⟩

end Flax.Serial
