/- helper lemmas for C08: `ref_index` / `index_ref` bookkeeping (markOwn, mergeEntries), first-match states, write-back -/
import Flax.Proofs.NnxLoopAlias

namespace Flax.NnxLoop
open Flax.Filter Flax.LiftLoop

/-! ### markOwn / ownedOf -/

theorem markOwn_length : ∀ (es : List Entry) (seen : List VarId), (markOwn es seen).1.length = es.length := by
  intro es
  induction es with
  | nil => intro seen; rfl
  | cons e es ih =>
    intro seen
    simp only [markOwn]
    split <;> simp [ih]

/-- the new `ref_index` is the old one followed by the ids of the owned occurrences, in order -/
theorem markOwn_seen : ∀ (es : List Entry) (seen : List VarId),
    (markOwn es seen).2 = seen ++ (ownedOf es (markOwn es seen).1).map (·.id) := by
  intro es
  induction es with
  | nil => intro seen; simp [markOwn, ownedOf]
  | cons e es ih =>
    intro seen
    simp only [markOwn]
    split
    · simp only [List.cons_eq_cons, ownedOf]
      exact ih seen
    · simp only [ownedOf, List.map_cons]
      rw [ih (seen ++ [e.id])]
      simp

/-- owned occurrences are occurrences -/
theorem ownedOf_subset : ∀ (es : List Entry) (own : List Bool), ∀ e ∈ ownedOf es own, e ∈ es := by
  intro es
  induction es with
  | nil => intro own e h; cases own <;> simp [ownedOf] at h
  | cons x xs ih =>
    intro own e h
    cases own with
    | nil => simp [ownedOf] at h
    | cons o os =>
      cases o with
      | true =>
        simp only [ownedOf, List.mem_cons] at h
        rcases h with h | h
        · simp [h]
        · exact List.mem_cons_of_mem _ (ih os e h)
      | false =>
        simp only [ownedOf] at h
        exact List.mem_cons_of_mem _ (ih os e h)

theorem ownedOf_sublist : ∀ (es : List Entry) (own : List Bool), (ownedOf es own).Sublist es := by
  intro es
  induction es with
  | nil => intro own; cases own <;> simp [ownedOf]
  | cons x xs ih =>
    intro own
    cases own with
    | nil => simp [ownedOf]
    | cons o os =>
      cases o with
      | true => simp only [ownedOf]; exact (ih os).cons_cons x
      | false => simp only [ownedOf]; exact (ih os).cons x

/-- owned occurrences are exactly the first occurrences of Variables not seen before: their ids are new and distinct -/
theorem markOwn_owned_fresh : ∀ (es : List Entry) (seen : List VarId),
    (∀ e ∈ ownedOf es (markOwn es seen).1, e.id ∉ seen) ∧
    ((ownedOf es (markOwn es seen).1).map (·.id)).Nodup := by
  intro es
  induction es with
  | nil => intro seen; simp [markOwn, ownedOf]
  | cons e es ih =>
    intro seen
    simp only [markOwn]
    split
    · simp only [ownedOf]
      exact ih seen
    · rename_i hnot
      simp only [ownedOf, List.map_cons, List.nodup_cons]
      obtain ⟨h1, h2⟩ := ih (seen ++ [e.id])
      refine ⟨?_, ?_, h2⟩
      · intro x hx
        rcases List.mem_cons.1 hx with h | h
        · subst h; exact hnot
        · have := h1 x h
          intro hc; exact this (List.mem_append_left _ hc)
      · intro hm
        obtain ⟨x, hx, hxe⟩ := List.mem_map.1 hm
        have := h1 x hx
        apply this
        rw [hxe]; simp

/-- every occurrence's Variable is in the new `ref_index` -/
theorem markOwn_covers : ∀ (es : List Entry) (seen : List VarId), ∀ e ∈ es, e.id ∈ (markOwn es seen).2 := by
  intro es
  induction es with
  | nil => intro seen e h; cases h
  | cons x xs ih =>
    intro seen e h
    have hmono : ∀ (ys : List Entry) (s : List VarId), ∀ v ∈ s, v ∈ (markOwn ys s).2 := by
      intro ys s v hv; rw [markOwn_seen]; exact List.mem_append_left _ hv
    simp only [markOwn]
    rcases List.mem_cons.1 h with h | h
    · subst h
      split
      · rename_i hin; exact hmono xs seen _ hin
      · exact hmono xs _ _ (by simp)
    · split
      · exact ih seen e h
      · exact ih _ e h

/-! ### mergeEntries -/

/-- **merge after split**: if the merged states hold, for every owned occurrence `e`, the value `w e` at its path, and
the `index_ref` so far is the `ref_index` the split started from, then merging registers exactly the owned Variables
with those values, in order -/
theorem mergeEntries_markOwn {α : Type} (w : Entry → Arr α) (st : State α) : ∀ (es : List Entry) (seen : List VarId)
    (inner : Store α), inner.map (·.1) = seen →
    (∀ e ∈ ownedOf es (markOwn es seen).1, st.lookup e.path = some (w e)) →
    mergeEntries es (markOwn es seen).1 st inner =
      .ok (inner ++ (ownedOf es (markOwn es seen).1).map (fun e => (e.id, w e))) := by
  intro es
  induction es with
  | nil => intro seen inner _ _; simp [mergeEntries, ownedOf]
  | cons e es ih =>
    intro seen inner hinv hst
    by_cases hin : e.id ∈ seen
    · have hm : markOwn (e :: es) seen = ((markOwn es seen).1.cons false, (markOwn es seen).2) := by
        simp [markOwn, hin]
      rw [hm] at hst ⊢
      have hs : (inner.lookup e.id).isSome := lookup_isSome_of_mem_keys (by rw [hinv]; exact hin)
      simp only [mergeEntries, hs, if_true, ownedOf]
      exact ih seen inner hinv (by simpa [ownedOf] using hst)
    · have hm : markOwn (e :: es) seen =
          ((markOwn es (seen ++ [e.id])).1.cons true, (markOwn es (seen ++ [e.id])).2) := by
        simp [markOwn, hin]
      rw [hm] at hst ⊢
      have he : st.lookup e.path = some (w e) := hst e (by simp [ownedOf])
      simp only [mergeEntries, he, ownedOf, List.map_cons]
      rw [ih (seen ++ [e.id]) (inner ++ [(e.id, w e)]) (by simp [hinv])
        (fun x hx => hst x (by simp [ownedOf, hx]))]
      simp

/-! ### write-back -/

theorem updateStore_eq {α : Type} (w : Entry → Arr α) (st : State α) : ∀ (owned : List Entry) (store : Store α),
    (∀ e ∈ owned, st.lookup e.path = some (w e)) →
    updateStore owned st store = .ok (owned.foldl (fun s e => s.set e.id (w e)) store) := by
  intro owned
  induction owned with
  | nil => intro store _; rfl
  | cons e es ih =>
    intro store h
    simp only [updateStore, h e (by simp), List.foldl_cons]
    exact ih _ (fun x hx => h x (by simp [hx]))

theorem Store.set_keys {α : Type} (s : Store α) (id : VarId) (v : Arr α) : (s.set id v).map (·.1) = s.map (·.1) := by
  simp only [Store.set, List.map_map]
  apply List.map_congr_left
  intro p _
  simp only [Function.comp]
  split <;> simp_all

theorem Store.lookup_set {α : Type} (s : Store α) (id : VarId) (v : Arr α) (k : VarId) :
    (s.set id v).lookup k = if k = id then (s.lookup k).map (fun _ => v) else s.lookup k := by
  induction s with
  | nil => simp [Store.set, List.lookup]
  | cons p rest ih =>
    obtain ⟨k', v'⟩ := p
    simp only [Store.set, List.map_cons] at ih ⊢
    by_cases h1 : k' = id
    · subst h1
      simp only [if_true, List.lookup]
      by_cases h2 : k = k'
      · subst h2; simp
      · have : (k == k') = false := by simpa using h2
        simp only [this, h2, if_false]
        simpa [h2] using ih
    · simp only [h1, if_false, List.lookup]
      by_cases h2 : k = k'
      · subst h2
        simp [h1]
      · have : (k == k') = false := by simpa using h2
        simp only [this]
        exact ih

/-! ### the states of a split -/

/-- the state a flat item goes to under a prefix -/
def groupIdx (p : Prefix) (path : Path) (info : VarInfo) : Nat :=
  match p with
  | .ax _ => 0
  | .sa s => firstMatch (s.map (·.1)) path info

/-- the axis a prefix gives a flat item (the axis of its state) -/
def axAt (p : Prefix) (path : Path) (info : VarInfo) : Option Ax := p.axes[groupIdx p path info]?

theorem prefix_at_eq_axAt (p : Prefix) (e : Entry) (a : Ax) : p.at e = .ok a ↔ axAt p e.path e.info = some a := by
  cases p with
  | ax a' => simp [Prefix.at, axAt, groupIdx, Prefix.axes]
  | sa s =>
    simp only [Prefix.at, axAt, groupIdx, Prefix.axes]
    constructor
    · intro h; exact (mapPrefix_ok_lt h).2
    · intro h
      rw [mapPrefix_eq]
      rw [List.getElem?_map] at h
      cases hs : s[firstMatch (s.map (·.1)) e.path e.info]? with
      | none => simp [hs] at h
      | some fa => simp [hs] at h; simp [h]

/-- **what `ctx.split(x, *filters)` returns**: one state per axis of the prefix; state `g` holds exactly the flat items
whose first matching filter is `g` (all of them for a plain prefix), with their values; every item is in a state -/
theorem splitFlat_spec {α : Type} {p : Prefix} {flat : Flat α} {sts : List (State α)} (h : splitFlat p flat = .ok sts) :
    sts.length = p.axes.length ∧
    (∀ g s, sts[g]? = some s → ∀ pv, pv ∈ s ↔ ∃ x ∈ flat, pv = (x.1, x.2.2) ∧ groupIdx p x.1 x.2.1 = g) ∧
    (∀ x ∈ flat, groupIdx p x.1 x.2.1 < sts.length) := by
  cases p with
  | ax a =>
    simp only [splitFlat] at h
    injection h with h
    subst h
    refine ⟨rfl, ?_, ?_⟩
    · intro g s hs pv
      cases g with
      | zero =>
        simp at hs
        subst hs
        simp only [List.mem_map, groupIdx, and_true]
        constructor
        · rintro ⟨x, hx, rfl⟩; exact ⟨x, hx, rfl⟩
        · rintro ⟨x, hx, rfl⟩; exact ⟨x, hx, rfl⟩
      | succ g => simp at hs
    · intro x _; simp [groupIdx]
  | sa s =>
    simp only [splitFlat, splitStatesX] at h
    split at h
    · cases h
    · rename_i hne
      injection h with h
      subst h
      simp only [List.any_eq_true, beq_iff_eq, not_exists, not_and, List.length_map] at hne
      refine ⟨by simp [Prefix.axes], ?_, ?_⟩
      · intro g st hs pv
        have hlt : g < s.length := by
          have := (List.getElem?_eq_some_iff.1 hs).1
          simpa using this
        rw [List.getElem?_map, List.getElem?_range (by simpa using hlt)] at hs
        simp only [Option.map_some, Option.some.injEq] at hs
        subst hs
        simp only [List.mem_map, List.mem_filter, beq_iff_eq, groupIdx]
        constructor
        · rintro ⟨x, ⟨hx, hgx⟩, rfl⟩; exact ⟨x, hx, rfl, hgx⟩
        · rintro ⟨x, hx, rfl, hgx⟩; exact ⟨x, ⟨hx, hgx⟩, rfl⟩
      · intro x hx
        have h1 := hne x hx
        have h2 := firstMatch_le' (s.map (·.1)) x.1 x.2.1
        simp only [groupIdx, List.length_map, List.length_range] at h1 h2 ⊢
        omega

/-- looking a path up in a list of `(path, value)` pairs that is, as a set, the image of a flat state with distinct
paths under `w` -/
theorem lookup_by_membership {α β : Type} {flat : Flat α} (hnd : (flat.map (·.1)).Nodup)
    (w : Path × VarInfo × Arr α → β) (T : List (Path × β))
    (h1 : ∀ x ∈ flat, (x.1, w x) ∈ T)
    (h2 : ∀ kb ∈ T, ∃ x ∈ flat, kb = (x.1, w x)) :
    ∀ x ∈ flat, T.lookup x.1 = some (w x) := by
  intro x hx
  apply lookup_of_mem_unique (h1 x hx)
  intro b hb
  obtain ⟨y, hy, he⟩ := h2 _ hb
  injection he with hk hv
  have : x.2 = y.2 := nodup_keys_unique (l := flat) hnd (by rw [Prod.eta]; exact hx)
    (by rw [hk, Prod.eta]; exact hy)
  have hxy : x = y := Prod.ext hk this
  rw [hv, hxy]

/-- membership in the concatenation of the states -/
theorem mem_flatten_states {β : Type} {sts : List (List β)} {b : β} :
    b ∈ sts.flatten ↔ ∃ (g : Nat) (s : List β), sts[g]? = some s ∧ b ∈ s := by
  simp only [List.mem_flatten]
  constructor
  · rintro ⟨s, hs, hb⟩
    obtain ⟨g, hg, rfl⟩ := List.getElem_of_mem hs
    exact ⟨g, _, List.getElem?_eq_getElem hg, hb⟩
  · rintro ⟨g, s, hs, hb⟩
    exact ⟨s, List.mem_of_getElem? hs, hb⟩

/-- **split then look up**: in the states of a split, the path of a flat item leads to its value -/
theorem splitFlat_lookup {α : Type} {p : Prefix} {flat : Flat α} {sts : List (State α)}
    (h : splitFlat p flat = .ok sts) (hnd : (flat.map (·.1)).Nodup) :
    ∀ x ∈ flat, sts.flatten.lookup x.1 = some x.2.2 := by
  obtain ⟨_, hmem, hlt⟩ := splitFlat_spec h
  apply lookup_by_membership hnd (fun x => x.2.2)
  · intro x hx
    have hg := hlt x hx
    rw [mem_flatten_states]
    exact ⟨_, _, List.getElem?_eq_getElem hg, (hmem _ _ (List.getElem?_eq_getElem hg) _).2 ⟨x, hx, rfl, rfl⟩⟩
  · intro kb hkb
    obtain ⟨g, s, hs, hb⟩ := mem_flatten_states.1 hkb
    obtain ⟨x, hx, he, _⟩ := (hmem g s hs kb).1 hb
    exact ⟨x, hx, he⟩

end Flax.NnxLoop
