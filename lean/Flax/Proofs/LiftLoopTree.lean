/- C06 helper lemmas: lifting the leaf facts through collections, groups and lists of groups -/
import Flax.Model.LiftLoop
import Flax.Proofs.LiftLoopLeaf

set_option linter.unusedSectionVars false

namespace Flax.LiftLoop
variable {α : Type} [Inhabited α]

theorem mapE_chain {β γ δ : Type} {f : β → Except Err γ} {g : γ → Except Err δ} {h : β → Except Err δ}
    (hfg : ∀ x y, f x = .ok y → g y = h x) : ∀ (l : List β) (l' : List γ), mapE f l = .ok l' →
    mapE g l' = mapE h l := by
  intro l
  induction l with
  | nil => intro l' h; simp [mapE] at h; subst h; rfl
  | cons x xs ih =>
    intro l' hl
    simp only [mapE] at hl
    cases hx : f x with
    | error e => simp [hx] at hl
    | ok y =>
      cases hr : mapE f xs with
      | error e => simp [hx, hr] at hl
      | ok ys =>
        simp [hx, hr] at hl
        subst hl
        simp only [mapE, hfg x y hx, ih ys hr]

theorem mapE_chain_opt {β γ δ : Type} {f : β → Except Err γ} {g : γ → Except Err δ} {h : β → Except Err δ}
    (hfg : ∀ x y, f x = .ok y → opt (g y) = opt (h x)) : ∀ (l : List β) (l' : List γ), mapE f l = .ok l' →
    opt (mapE g l') = opt (mapE h l) := by
  intro l
  induction l with
  | nil => intro l' h; simp [mapE] at h; subst h; rfl
  | cons x xs ih =>
    intro l' hl
    simp only [mapE] at hl
    cases hx : f x with
    | error e => simp [hx] at hl
    | ok y =>
      cases hr : mapE f xs with
      | error e => simp [hx, hr] at hl
      | ok ys =>
        simp [hx, hr] at hl
        subst hl
        rw [opt_mapE, opt_mapE]
        simp only [mapO, hfg x y hx]
        rw [← opt_mapE, ← opt_mapE, ih ys hr]

theorem mapE_error_opt {β γ δ : Type} {f : β → Except Err γ} {h : β → Except Err δ}
    (hf : ∀ x e, f x = .error e → opt (h x) = none) : ∀ (l : List β) (e : Err), mapE f l = .error e →
    opt (mapE h l) = none := by
  intro l
  induction l with
  | nil => intro e h; simp [mapE] at h
  | cons x xs ih =>
    intro e hl
    rw [opt_mapE]
    simp only [mapO]
    simp only [mapE] at hl
    cases hx : f x with
    | error e' => simp [hf x e' hx]
    | ok y =>
      cases hr : mapE f xs with
      | error e' =>
        have := ih e' hr
        rw [opt_mapE] at this
        cases opt (h x) <;> simp [this]
      | ok ys => simp [hx, hr] at hl

/-! ### collections and groups -/

theorem onSnd_ok {κ β γ : Type} {f : β → Except Err γ} {p : κ × β} {q : κ × γ} (h : onSnd f p = .ok q) :
    ∃ b, f p.2 = .ok b ∧ q = (p.1, b) := by
  unfold onSnd at h
  cases hf : f p.2 with
  | error e => rw [hf] at h; cases h
  | ok b => rw [hf] at h; injection h with h; exact ⟨b, rfl, h.symm⟩

theorem onSnd_error {κ β γ : Type} {f : β → Except Err γ} {p : κ × β} {e : Err} (h : onSnd f p = .error e) :
    f p.2 = .error e := by
  unfold onSnd at h
  cases hf : f p.2 with
  | error e' => rw [hf] at h; injection h with h; rw [h]
  | ok b => rw [hf] at h; cases h

theorem onSnd_of_ok {κ β γ : Type} {f : β → Except Err γ} {p : κ × β} {b : γ} (h : f p.2 = .ok b) :
    onSnd f p = .ok (p.1, b) := by simp [onSnd, h]

theorem onSnd_of_error {κ β γ : Type} {f : β → Except Err γ} {p : κ × β} {e : Err} (h : f p.2 = .error e) :
    (onSnd f p : Except Err (κ × γ)) = .error e := by simp [onSnd, h]

theorem onSnd_chain {κ β γ δ : Type} {f : β → Except Err γ} {g : γ → Except Err δ} {h : β → Except Err δ}
    (hfg : ∀ a b, f a = .ok b → g b = h a) (p : κ × β) (q : κ × γ) (hp : onSnd f p = .ok q) :
    onSnd g q = onSnd h p := by
  obtain ⟨b, hb, rfl⟩ := onSnd_ok hp
  simp only [onSnd, hfg p.2 b hb]

theorem onSnd_error_opt {κ β γ δ : Type} {f : β → Except Err γ} {h : β → Except Err δ}
    (hf : ∀ a e, f a = .error e → opt (h a) = none) (p : κ × β) (e : Err) (hp : onSnd f p = .error e) :
    opt (onSnd h p : Except Err (κ × δ)) = none := by
  have := hf p.2 e (onSnd_error hp)
  unfold onSnd
  cases hh : h p.2 with
  | error _ => rfl
  | ok b => rw [hh] at this; cases this

theorem Col.mapE_chain {f : Arr α → Except Err (Arr α)} {g h : Arr α → Except Err (Arr α)}
    (hfg : ∀ a b, f a = .ok b → g b = h a) (c c' : Col α) (hc : Col.mapE f c = .ok c') :
    Col.mapE g c' = Col.mapE h c :=
  LiftLoop.mapE_chain (onSnd_chain hfg) c c' hc

theorem Vars.mapE_chain {f : Arr α → Except Err (Arr α)} {g h : Arr α → Except Err (Arr α)}
    (hfg : ∀ a b, f a = .ok b → g b = h a) (v v' : Vars α) (hv : Vars.mapE f v = .ok v') :
    Vars.mapE g v' = Vars.mapE h v :=
  LiftLoop.mapE_chain (onSnd_chain (Col.mapE_chain hfg)) v v' hv

theorem Col.mapE_error_opt {f h : Arr α → Except Err (Arr α)}
    (hf : ∀ a e, f a = .error e → opt (h a) = none) (c : Col α) (e : Err) (hc : Col.mapE f c = .error e) :
    opt (Col.mapE h c) = none :=
  LiftLoop.mapE_error_opt (onSnd_error_opt hf) c e hc

theorem Vars.mapE_error_opt {f h : Arr α → Except Err (Arr α)}
    (hf : ∀ a e, f a = .error e → opt (h a) = none) (v : Vars α) (e : Err) (hv : Vars.mapE f v = .error e) :
    opt (Vars.mapE h v) = none :=
  LiftLoop.mapE_error_opt (onSnd_error_opt (Col.mapE_error_opt hf)) v e hv

/-- `mapE` over the values of a dict, as a statement about the list of values -/
theorem mapE_onSnd_values {κ β γ : Type} {f : β → Except Err γ} : ∀ (c : List (κ × β)),
    (LiftLoop.mapE (onSnd f) c).map (fun r => r.map (·.2)) = LiftLoop.mapE f (c.map (·.2)) := by
  intro c
  induction c with
  | nil => rfl
  | cons x xs ih =>
    simp only [LiftLoop.mapE, List.map_cons, onSnd]
    cases hx : f x.2 with
    | error e => rfl
    | ok b =>
      simp only []
      rw [← ih]
      cases LiftLoop.mapE (onSnd f) xs <;> rfl

/-- the leaves of a mapped group are the mapped leaves (success and failure alike) -/
theorem Vars.leaves_mapE' {f : Arr α → Except Err (Arr α)} : ∀ (v : Vars α),
    (Vars.mapE f v).map Vars.leaves = LiftLoop.mapE f (Vars.leaves v) := by
  intro v
  induction v with
  | nil => rfl
  | cons x xs ih =>
    simp only [Vars.leaves, List.flatMap_cons, mapE_append] at ih ⊢
    simp only [Vars.mapE, LiftLoop.mapE, onSnd]
    have hc := mapE_onSnd_values (f := f) x.2
    cases hx : Col.mapE f x.2 with
    | error e =>
      simp only [Col.mapE] at hx
      rw [hx] at hc
      simp only [Except.map] at hc
      rw [← hc]
      rfl
    | ok b =>
      simp only [Col.mapE] at hx
      rw [hx] at hc
      simp only [Except.map] at hc
      rw [← hc]
      simp only [bind, Except.bind]
      rw [← ih]
      simp only [Vars.mapE]
      cases LiftLoop.mapE (onSnd (Col.mapE f)) xs <;> rfl

theorem Vars.leaves_mapE {f : Arr α → Except Err (Arr α)} (v v' : Vars α) (h : Vars.mapE f v = .ok v') :
    LiftLoop.mapE f (Vars.leaves v) = .ok (Vars.leaves v') := by
  rw [← Vars.leaves_mapE', h]; rfl

theorem Vars.mapE_error_leaves {f : Arr α → Except Err (Arr α)} (v : Vars α) (e : Err)
    (h : Vars.mapE f v = .error e) : LiftLoop.mapE f (Vars.leaves v) = .error e := by
  rw [← Vars.leaves_mapE', h]; rfl

end Flax.LiftLoop
