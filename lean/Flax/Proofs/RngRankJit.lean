/-
C09: with `nn.jit`, the count folded into a key is still a *rank*: every draw — the user's draws and the one draw per stream that
`fork_rngs` makes for a jit-ted call — is a request at (scope path, stream after fallback); the count a request gets is one plus the
number of earlier requests at the same place.
-/
import Flax.Proofs.RngNoReuseJit

namespace Flax.Rng

/-- a counter request: scope path, stream after fallback, and whether the resulting key is handed to user code (`true`) or becomes
the base of a jit-ted scope (`false`) -/
abbrev Req := Path × String × Bool

/-- all requests of a program in execution order -/
def reqsN (cfg : Cfg) (names : List String) : Prog → Path → List Req
  | .done, _ => []
  | .draw s rest, π =>
    match effN cfg names s with
    | some s' => (π, s', true) :: reqsN cfg names rest π
    | none => []
  | .sub n body rest, π => reqsN cfg names body (π ++ [n]) ++ reqsN cfg names rest π
  | .jit body rest, π => names.map (fun n => (π, n, false)) ++ (reqsN cfg names body π ++ reqsN cfg names rest π)

/-- the counters after a list of requests -/
def after (c : Counts) : List Req → Counts
  | [] => c
  | (π, s, _) :: r => after (bump c π s) r

/-- the tickets of the handed-out requests: each request gets the pre-incremented counter of its place -/
def assignH (c : Counts) : List Req → List Ticket
  | [] => []
  | (π, s, b) :: r => (if b then [(π, s, c π s + 1)] else []) ++ assignH (bump c π s) r

theorem after_append (c : Counts) (a b : List Req) : after c (a ++ b) = after (after c a) b := by
  induction a generalizing c with
  | nil => rfl
  | cons x xs ih => obtain ⟨π, s, f⟩ := x; simp only [List.cons_append, after, ih]

theorem assignH_append (c : Counts) (a b : List Req) : assignH c (a ++ b) = assignH c a ++ assignH (after c a) b := by
  induction a generalizing c with
  | nil => rfl
  | cons x xs ih => obtain ⟨π, s, f⟩ := x; simp only [List.cons_append, assignH, after, ih, List.append_assoc]

theorem after_fork (c : Counts) (π : Path) : ∀ (ns : List String), ns.Nodup →
    after c (ns.map (fun n => ((π, n, false) : Req))) = bumpAll c π ns := by
  intro ns
  induction ns generalizing c with
  | nil => intro _; funext π' t; simp [after, bumpAll]
  | cons n ns ih =>
    intro hnd
    simp only [List.nodup_cons] at hnd
    simp only [List.map_cons, after, ih (bump c π n) hnd.2]
    funext π' t
    simp only [bumpAll, bump, List.mem_cons]
    by_cases hp : π' = π
    · by_cases ht : t = n
      · subst ht; simp [hp, hnd.1]
      · simp [hp, ht]
    · simp [hp]

theorem assignH_fork (c : Counts) (π : Path) : ∀ (ns : List String),
    assignH c (ns.map (fun n => ((π, n, false) : Req))) = [] := by
  intro ns
  induction ns generalizing c with
  | nil => rfl
  | cons n ns ih => simp [assignH, ih]

theorem specCnt_after (cfg : Cfg) (names : List String) (hnd : names.Nodup) : ∀ (p : Prog) (π : Path) (c : Counts),
    specCnt cfg p names π c = after c (reqsN cfg names p π) := by
  intro p
  induction p with
  | done => intro π c; rfl
  | draw s rest ih =>
    intro π c
    simp only [specCnt, reqsN]
    cases effN cfg names s with
    | none => rfl
    | some s' => simp only [after, ih]
  | sub n body rest ihb ihr =>
    intro π c
    simp only [specCnt, reqsN, after_append, ihb, ihr]
  | jit body rest ihb ihr =>
    intro π c
    simp only [specCnt, reqsN, after_append, ihb, ihr, after_fork c π names hnd]

theorem specTk_assignH (cfg : Cfg) (names : List String) (hnd : names.Nodup) : ∀ (p : Prog) (π : Path) (c : Counts),
    specTk cfg p names π c = assignH c (reqsN cfg names p π) := by
  intro p
  induction p with
  | done => intro π c; rfl
  | draw s rest ih =>
    intro π c
    simp only [specTk, reqsN]
    cases effN cfg names s with
    | none => rfl
    | some s' => simp [assignH, ih]
  | sub n body rest ihb ihr =>
    intro π c
    simp only [specTk, reqsN, assignH_append, ihb, ihr, specCnt_after cfg names hnd]
  | jit body rest ihb ihr =>
    intro π c
    simp only [specTk, reqsN, assignH_append, ihb, ihr, specCnt_after cfg names hnd, after_fork c π names hnd,
      assignH_fork, List.nil_append]

/-- how many requests of `l` are at place (π, s), handed out or not -/
def cntR (π : Path) (s : String) (l : List Req) : Nat := (l.filter (fun r => decide (r.1 = π ∧ r.2.1 = s))).length

theorem after_eq (c : Counts) : ∀ (l : List Req) (π : Path) (s : String), after c l π s = c π s + cntR π s l := by
  intro l
  induction l generalizing c with
  | nil => intro π s; simp [after, cntR]
  | cons x xs ih =>
    intro π s
    obtain ⟨π0, s0, f⟩ := x
    simp only [after, ih, cntR, List.filter_cons, bump]
    by_cases hp : π = π0 ∧ s = s0
    · obtain ⟨rfl, rfl⟩ := hp; simp; omega
    · have : ¬ (π0 = π ∧ s0 = s) := fun hh => hp ⟨hh.1.symm, hh.2.symm⟩
      simp [hp, this]

/-- **closed form**: the tickets of the handed-out requests are exactly (place, counter at the start + rank among *all* earlier
requests at that place + 1) -/
theorem assignH_closed (c : Counts) : ∀ (l : List Req) (t : Ticket),
    t ∈ assignH c l ↔ ∃ pre post, l = pre ++ (t.1, t.2.1, true) :: post ∧ t.2.2 = c t.1 t.2.1 + cntR t.1 t.2.1 pre + 1 := by
  intro l
  induction l generalizing c with
  | nil => intro t; simp [assignH]
  | cons x xs ih =>
    intro t
    obtain ⟨π0, s0, f⟩ := x
    obtain ⟨π, s, j⟩ := t
    simp only [assignH, List.mem_append]
    constructor
    · rintro (hm | hm)
      · cases f with
        | false => simp at hm
        | true =>
          simp only [if_true, List.mem_singleton, Prod.mk.injEq] at hm
          obtain ⟨rfl, rfl, rfl⟩ := hm
          exact ⟨[], xs, rfl, by simp [cntR]⟩
      · obtain ⟨pre, post, hl, hj⟩ := (ih (bump c π0 s0) (π, s, j)).mp hm
        refine ⟨(π0, s0, f) :: pre, post, by simp [hl], ?_⟩
        simp only at hj ⊢
        rw [hj]
        simp only [cntR, List.filter_cons, bump]
        by_cases hp : π = π0 ∧ s = s0
        · obtain ⟨rfl, rfl⟩ := hp; simp; omega
        · have : ¬ (π0 = π ∧ s0 = s) := fun hh => hp ⟨hh.1.symm, hh.2.symm⟩
          simp [hp, this]
    · rintro ⟨pre, post, hl, hj⟩
      cases pre with
      | nil =>
        simp only [List.nil_append, List.cons.injEq, Prod.mk.injEq] at hl
        obtain ⟨⟨rfl, rfl, rfl⟩, rfl⟩ := hl
        left
        simp [hj, cntR]
      | cons y ys =>
        simp only [List.cons_append, List.cons.injEq] at hl
        obtain ⟨rfl, rfl⟩ := hl
        right
        apply (ih (bump c π0 s0) (π, s, j)).mpr
        refine ⟨ys, post, rfl, ?_⟩
        simp only at hj ⊢
        rw [hj]
        simp only [cntR, List.filter_cons, bump]
        by_cases hp : π = π0 ∧ s = s0
        · obtain ⟨rfl, rfl⟩ := hp; simp; omega
        · have : ¬ (π0 = π ∧ s0 = s) := fun hh => hp ⟨hh.1.symm, hh.2.symm⟩
          simp [hp, this]

end Flax.Rng
