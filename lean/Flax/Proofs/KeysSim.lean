/-
Running a program again on (at least) the variables an earlier run of it produced creates no new
variable.  Used by C02 (`apply_keeps_tree`): apply on init's variables never creates, drops or
renames a variable, for stateful programs too.
-/
import Flax.Proofs.Stable
import Flax.Proofs.ShapeSim

namespace Flax.KeysSim
open Flax.Filter (LFilter inFilter)
open Flax.Scope Flax.ModuleTree Flax.ScopeLemmas
open Flax.Stable (putVar_ok_vars putVar_stored)

/-- `t` has a variable wherever `s` has one -/
def KeysIn (s t : Store) : Prop := ∀ q, (lookupP q s.vars).isSome = true → (lookupP q t.vars).isSome = true

/-- `t'` has exactly the variable paths of `t` -/
def SameKeys (t t' : Store) : Prop := ∀ q, (lookupP q t'.vars).isSome = (lookupP q t.vars).isSome

theorem SameKeys.refl (t : Store) : SameKeys t t := fun _ => rfl
theorem SameKeys.trans {a b c : Store} (h1 : SameKeys a b) (h2 : SameKeys b c) : SameKeys a c :=
  fun q => by rw [h2 q, h1 q]

theorem KeysIn.of_same {s t t' : Store} (h : KeysIn s t) (h2 : SameKeys t t') : KeysIn s t' :=
  fun q hq => by rw [h2 q]; exact h q hq

/-- the second run may only write where the first one could -/
def FilterLe (s t : Store) : Prop := ∀ c, inFilter t.mutable c = true → inFilter s.mutable c = true

theorem putVar_samekeys {π : Path} {col n : String} {v : Val} {t : Store}
    (hpres : (lookupP (fullPath col π n) t.vars).isSome = true) : SameKeys t (putVar π col n v t).2 := by
  intro q
  unfold putVar
  split
  · rfl
  · split
    · rfl
    · simp only
      by_cases heq : q = fullPath col π n
      · subst heq; rw [lookupP_upsert_self, hpres]; rfl
      · rw [lookupP_upsert_ne _ _ _ _ heq]

theorem putVar_mutable {π : Path} {col n : String} {v : Val} (t : Store) : (putVar π col n v t).2.mutable = t.mutable :=
  (putVar_frame π col n v t).mutable_eq

/-! ### what a successful first run leaves behind -/

theorem scopeParam_key {π : Path} {n : String} {shape : List Nat} {init : Int} {r r1 : Res} {s s1 : Store}
    {v : Val} (h : scopeParam π n shape init r s = (.ok (v, r1), s1)) :
    (lookupP (fullPath "params" π n) s1.vars).isSome = true := by
  unfold scopeParam at h
  split at h
  · simp at h
  · split at h
    · rename_i v0 hg
      have : lookupP (fullPath "params" π n) s.vars = some v0 := hg
      split at h
      · simp only [Prod.mk.injEq, Except.ok.injEq] at h; rw [← h.2, this]; rfl
      · split at h
        · simp only [Prod.mk.injEq, Except.ok.injEq] at h; rw [← h.2, this]; rfl
        · simp at h
    · split at h
      · split at h <;> simp at h
      · split at h
        · simp at h
        · split at h
          · rename_i s' heq
            simp only [Prod.mk.injEq, Except.ok.injEq] at h
            rw [← h.2, putVar_stored heq]; rfl
          · simp at h

theorem scopeVariable_key {π : Path} {col n : String} {iv : Val} {r r1 : Res} {s s1 : Store}
    (h : scopeVariable π col n iv r s = (.ok r1, s1)) : (lookupP (fullPath col π n) s1.vars).isSome = true :=
  Flax.Stable.scopeVariable_present h

theorem moduleSow_key {π : Path} {col n : String} {e : Int} {r r1 : Res} {s s1 : Store}
    (hm : inFilter s.mutable col = true) (h : moduleSow π col n e r s = (.ok r1, s1)) :
    (lookupP (fullPath col π n) s1.vars).isSome = true := by
  unfold moduleSow at h
  simp only [isMutable, hm, Bool.not_true, Bool.false_eq_true, if_false] at h
  split at h
  · split at h
    · rename_i s' heq
      simp only [Prod.mk.injEq, Except.ok.injEq] at h
      rw [← h.2, putVar_stored heq]; rfl
    · simp at h
  · simp at h
  · split at h
    · simp at h
    · split at h
      · rename_i s' heq
        simp only [Prod.mk.injEq, Except.ok.injEq] at h
        rw [← h.2, putVar_stored heq]; rfl
      · simp at h

theorem modulePerturb_key {π : Path} {col n : String} {e y : Int} {r r1 : Res} {s s1 : Store}
    (hm : inFilter s.mutable col = true) (h : modulePerturb π col n e r s = (.ok (y, r1), s1)) :
    (lookupP (fullPath col π n) s1.vars).isSome = true := by
  unfold modulePerturb at h
  have key : ∀ (st : Except Err Res × Store), (∀ q, st.1 = .ok q → (lookupP (fullPath col π n) st.2.vars).isSome = true) →
      (match st with
        | (.error err, s') => ((.error err : Except Err (Int × Res)), s')
        | (.ok r', s') =>
          if hasCol s' col then
            match getVar s' π col n with
            | some (.tensor _ d) => (.ok (e * (d.length : Int) + sumInt d, r'), s')
            | some (.tup _) => (.error .unsupported, s')
            | none => (.error .perturbMissing, s')
          else (.ok (e, r'), s')) = (.ok (y, r1), s1) → (lookupP (fullPath col π n) s1.vars).isSome = true := by
    intro st hst hh
    obtain ⟨res, s'⟩ := st
    cases res with
    | error err => simp at hh
    | ok r' =>
      have hk := hst r' rfl
      simp only at hh hk
      split at hh
      · split at hh
        · simp only [Prod.mk.injEq, Except.ok.injEq] at hh; rw [← hh.2]; exact hk
        · simp at hh
        · simp at hh
      · simp only [Prod.mk.injEq, Except.ok.injEq] at hh; rw [← hh.2]; exact hk
  apply key _ _ h
  intro q hq
  by_cases hv : hasVar s π col n = true
  · simp only [isMutable, hm, hv, Bool.not_true, Bool.and_false, Bool.false_eq_true, if_false] at hq ⊢
    exact hv
  · simp only [isMutable, hm, hv, Bool.not_false, Bool.and_self, if_true] at hq ⊢
    split at hq
    · simp at hq
    · split at hq
      · rename_i s' heq
        simp only
        rw [putVar_stored heq]; rfl
      · simp at hq

/-! ### the second run -/

theorem scopeParam_second {π : Path} {n : String} {shape : List Nat} {init : Int} {r' : Res} {t : Store}
    (hpres : (lookupP (fullPath "params" π n) t.vars).isSome = true) :
    (scopeParam π n shape init r' t).2 = t ∧
    ∀ v r1', (scopeParam π n shape init r' t).1 = .ok (v, r1') → r1' = (n, some "params") :: r' := by
  unfold scopeParam
  cases hr : reserve r' n (some "params") with
  | error e => exact ⟨rfl, fun _ _ h => by simp at h⟩
  | ok r2 =>
    have hr2 := reserve_mono hr
    simp only
    cases hg : getVar t π "params" n with
    | none =>
      unfold getVar at hg
      rw [hg] at hpres; exact absurd hpres (by simp)
    | some v0 =>
      simp only
      split
      · exact ⟨rfl, fun _ _ h => by simp only [Except.ok.injEq, Prod.mk.injEq] at h; rw [← h.2]; exact hr2⟩
      · split
        · exact ⟨rfl, fun _ _ h => by simp only [Except.ok.injEq, Prod.mk.injEq] at h; rw [← h.2]; exact hr2⟩
        · exact ⟨rfl, fun _ _ h => by simp at h⟩

theorem scopeVariable_second {π : Path} {col n : String} {iv : Val} {r' : Res} {t : Store}
    (hpres : (lookupP (fullPath col π n) t.vars).isSome = true) :
    (scopeVariable π col n iv r' t).2 = t ∧
    ∀ r1', (scopeVariable π col n iv r' t).1 = .ok r1' → r1' = (n, some col) :: r' := by
  unfold scopeVariable
  cases hr : reserve r' n (some col) with
  | error e => exact ⟨rfl, fun _ h => by simp at h⟩
  | ok r2 =>
    have hr2 := reserve_mono hr
    have hv : hasVar t π col n = true := hpres
    simp only [hv, if_true]
    exact ⟨trivial, fun _ h => by simp only [Except.ok.injEq] at h; rw [← h]; exact hr2⟩

theorem moduleSow_second {π : Path} {col n : String} {e : Int} {r' : Res} {t : Store}
    (hpres : inFilter t.mutable col = true → (lookupP (fullPath col π n) t.vars).isSome = true) :
    SameKeys t (moduleSow π col n e r' t).2 ∧ ∀ r1', (moduleSow π col n e r' t).1 = .ok r1' → r1' = r' := by
  unfold moduleSow
  by_cases hm : isMutable t col = true
  · have hp := hpres hm
    simp only [hm, Bool.not_true, Bool.false_eq_true, if_false]
    cases hg : getVar t π col n with
    | none => unfold getVar at hg; rw [hg] at hp; exact absurd hp (by simp)
    | some v0 =>
      cases v0 with
      | tensor sh d => exact ⟨SameKeys.refl t, fun _ h => by simp at h⟩
      | tup xs =>
        simp only
        have hs := putVar_samekeys (v := .tup (xs ++ [([], [e])])) hp
        cases hput : putVar π col n (.tup (xs ++ [([], [e])])) t with
        | mk res t2 =>
          rw [hput] at hs
          cases res with
          | error err => exact ⟨hs, fun _ h => by simp at h⟩
          | ok u => exact ⟨hs, fun _ h => by simp only [Except.ok.injEq] at h; exact h.symm⟩
  · simp only [hm, Bool.not_false, if_true]
    exact ⟨SameKeys.refl t, fun _ h => by simp only [Except.ok.injEq] at h; exact h.symm⟩

theorem modulePerturb_second {π : Path} {col n : String} {e : Int} {r' : Res} {t : Store}
    (hpres : inFilter t.mutable col = true → (lookupP (fullPath col π n) t.vars).isSome = true) :
    (modulePerturb π col n e r' t).2 = t ∧ ∀ y r1', (modulePerturb π col n e r' t).1 = .ok (y, r1') → r1' = r' := by
  unfold modulePerturb
  have hcond : (isMutable t col && !hasVar t π col n) = false := by
    by_cases hm : isMutable t col = true
    · have : hasVar t π col n = true := hpres hm
      simp [hm, this]
    · simp [hm]
  simp only [hcond, Bool.false_eq_true, if_false]
  split
  · split
    · exact ⟨rfl, fun _ _ h => by simp only [Except.ok.injEq, Prod.mk.injEq] at h; exact h.2.symm⟩
    · exact ⟨rfl, fun _ _ h => by simp at h⟩
    · exact ⟨rfl, fun _ _ h => by simp at h⟩
  · exact ⟨rfl, fun _ _ h => by simp only [Except.ok.injEq, Prod.mk.injEq] at h; exact h.2.symm⟩

/-! ### locals -/

structure LocalKeys (l l' : Local) : Prop where
  env_len : l'.env.length = l.env.length
  res_sub : ∀ e ∈ l'.res, e ∈ l.res
  cursors_eq : l'.cursors = l.cursors
  kids_eq : l'.kids = l.kids

theorem LocalKeys.refl (l : Local) : LocalKeys l l := ⟨rfl, fun _ h => h, rfl, rfl⟩

theorem childName_keys {cfg : Cfg} (hst : cfg.style ≠ .core) {l l' : Local} (h : LocalKeys l l') (cls : String)
    (name : Option String) : childName cfg cls name l' = childName cfg cls name l := by
  unfold childName
  cases name with
  | some nm => simp [h.cursors_eq]
  | none =>
    unfold autoName
    cases hs : cfg.style with
    | core => exact absurd hs hst
    | compact => simp only [h.cursors_eq]
    | setup => simp only [h.cursors_eq, h.kids_eq]

theorem finishCall_keys {cfg : Cfg} {π : Path} {l l1 l' : Local} {s s1 t : Store}
    (hf : FilterLe s t) (hl : LocalKeys l l') (h : finishCall cfg π l s = (.ok l1, s1)) (hk : KeysIn s1 t) :
    SameKeys t (finishCall cfg π l' t).2 ∧ ∀ l1', (finishCall cfg π l' t).1 = .ok l1' → LocalKeys l1 l1' := by
  unfold finishCall at h ⊢
  by_cases hc : cfg.capture = true
  · simp only [hc, if_true] at h ⊢
    cases hsow : moduleSow π "intermediates" "__call__" l.out l.res s with
    | mk res s2 =>
      rw [hsow] at h
      cases res with
      | error e => simp at h
      | ok r2 =>
        simp only [Prod.mk.injEq, Except.ok.injEq] at h
        obtain ⟨rfl, rfl⟩ := h
        have hpres : inFilter t.mutable "intermediates" = true →
            (lookupP (fullPath "intermediates" π "__call__") t.vars).isSome = true :=
          fun hm => hk _ (moduleSow_key (hf _ hm) hsow)
        obtain ⟨h1, h2⟩ := moduleSow_second (e := l'.out) (r' := l'.res) hpres
        cases hs2 : moduleSow π "intermediates" "__call__" l'.out l'.res t with
        | mk res' t2 =>
          rw [hs2] at h1 h2
          cases res' with
          | error e => exact ⟨h1, fun _ hh => by simp at hh⟩
          | ok r2' =>
            refine ⟨h1, fun l1' hh => ?_⟩
            simp only [Except.ok.injEq] at hh
            subst hh
            have := h2 r2' rfl
            subst this
            exact ⟨hl.env_len, fun e he => moduleSow_res hsow e (hl.res_sub e he), hl.cursors_eq, hl.kids_eq⟩
  · simp only [hc, Bool.false_eq_true, if_false] at h ⊢
    simp only [Prod.mk.injEq, Except.ok.injEq] at h
    obtain ⟨rfl, rfl⟩ := h
    exact ⟨SameKeys.refl t, fun l1' hh => by simp only [Except.ok.injEq] at hh; subst hh; exact hl⟩

theorem evalE_ok_of_len {x x' : Int} {env env' : List Int} (hlen : env'.length = env.length) (e : Expr) (v : Int)
    (h : evalE x env e = .ok v) : ∃ v', evalE x' env' e = .ok v' :=
  Flax.ShapeSim.evalE_shape hlen e v h


theorem FilterLe.step {s t s2 t2 : Store} (h : FilterLe s t) (hs : s2.mutable = s.mutable) (ht : t2.mutable = t.mutable) :
    FilterLe s2 t2 := by
  intro c hc
  rw [hs]; apply h; rw [← ht]; exact hc

/-- **Second run.** If a first run of `p` from `s` succeeded and ended in `s1`, then a run of `p` from any
store `t` that has (at least) the variables of `s1`, with locals of the same shape, whose filter
selects no more than the first run's, creates no variable — whatever its arguments, and whether it
returns or raises; when it returns, its locals have the shape of the first run's. -/
theorem eval_second {cfg : Cfg} (hst : cfg.style ≠ .core) :
    ∀ (fuel : Nat) (p : SProg) (π : Path) (x x' : Int) (l l' l1 : Local) (s s1 t : Store),
      FilterLe s t → LocalKeys l l' → eval cfg fuel p π x l s = (.ok l1, s1) → KeysIn s1 t →
      SameKeys t (eval cfg fuel p π x' l' t).2 ∧
      ∀ l1', (eval cfg fuel p π x' l' t).1 = .ok l1' → LocalKeys l1 l1' := by
  intro fuel
  induction fuel with
  | zero => intro p π x x' l l' l1 s s1 t _ _ h; simp [eval] at h
  | succ fuel ih =>
    intro p π x x' l l' l1 s s1 t hf hl h hk
    cases p with
    | skip =>
      simp only [eval, Prod.mk.injEq, Except.ok.injEq] at h
      obtain ⟨rfl, rfl⟩ := h
      simp only [eval]
      exact ⟨SameKeys.refl t, fun l1' hh => by simp only [Except.ok.injEq] at hh; subst hh; exact hl⟩
    | seq a b =>
      simp only [eval] at h
      cases ha : eval cfg fuel a π x l s with
      | mk res s2 =>
        rw [ha] at h
        cases res with
        | error e => simp at h
        | ok l2 =>
          simp only at h
          have kept : KeysKept π s2 s1 := by
            have := eval_rel keyskept_step cfg fuel b π x l2 s2
            rw [h] at this; exact this
          have hk2 : KeysIn s2 t := fun q hq => hk q (kept q hq)
          obtain ⟨sk1, lk1⟩ := ih a π x x' l l' l2 s s2 t hf hl ha hk2
          simp only [eval]
          cases ha' : eval cfg fuel a π x' l' t with
          | mk res' t2 =>
            rw [ha'] at sk1 lk1
            cases res' with
            | error e => exact ⟨sk1, fun _ hh => by simp at hh⟩
            | ok l2' =>
              simp only
              have hl2 := lk1 l2' rfl
              have hs2m : s2.mutable = s.mutable := by
                have := (eval_frame cfg fuel a π x l s).mutable_eq; rw [ha] at this; exact this
              have ht2m : t2.mutable = t.mutable := by
                have := (eval_frame cfg fuel a π x' l' t).mutable_eq; rw [ha'] at this; exact this
              obtain ⟨sk2, lk2⟩ := ih b π x x' l2 l2' l1 s2 s1 t2 (hf.step hs2m ht2m) hl2 h (hk.of_same sk1)
              exact ⟨sk1.trans sk2, lk2⟩
    | bind e =>
      simp only [eval] at h ⊢
      cases he : evalE x l.env e with
      | error err => simp [he] at h
      | ok v =>
        simp only [he, Prod.mk.injEq, Except.ok.injEq] at h
        obtain ⟨rfl, rfl⟩ := h
        obtain ⟨v', hv'⟩ := evalE_ok_of_len (x' := x') hl.env_len e v he
        simp only [hv']
        refine ⟨SameKeys.refl t, fun l1' hh => ?_⟩
        simp only [Except.ok.injEq] at hh; subst hh
        exact ⟨by simp [push, hl.env_len], hl.res_sub, hl.cursors_eq, hl.kids_eq⟩
    | ret e =>
      simp only [eval] at h ⊢
      cases he : evalE x l.env e with
      | error err => simp [he] at h
      | ok v =>
        simp only [he, Prod.mk.injEq, Except.ok.injEq] at h
        obtain ⟨rfl, rfl⟩ := h
        obtain ⟨v', hv'⟩ := evalE_ok_of_len (x' := x') hl.env_len e v he
        simp only [hv']
        refine ⟨SameKeys.refl t, fun l1' hh => ?_⟩
        simp only [Except.ok.injEq] at hh; subst hh
        exact ⟨hl.env_len, hl.res_sub, hl.cursors_eq, hl.kids_eq⟩
    | param n shape init =>
      simp only [eval] at h ⊢
      cases hp : scopeParam π n (resolveDims shape) init l.res s with
      | mk res s2 =>
        rw [hp] at h
        cases res with
        | error e => simp at h
        | ok vr =>
          obtain ⟨v, r⟩ := vr
          simp only [Prod.mk.injEq, Except.ok.injEq] at h
          obtain ⟨rfl, rfl⟩ := h
          obtain ⟨h1, h2⟩ := scopeParam_second (shape := resolveDims shape) (init := init) (r' := l'.res) (hk _ (scopeParam_key hp))
          cases hp' : scopeParam π n (resolveDims shape) init l'.res t with
          | mk res' t2 =>
            rw [hp'] at h1 h2
            simp only at h1
            subst h1
            cases res' with
            | error e => exact ⟨SameKeys.refl _, fun _ hh => by simp at hh⟩
            | ok vr' =>
              obtain ⟨v', r1'⟩ := vr'
              refine ⟨SameKeys.refl _, fun l1' hh => ?_⟩
              simp only [Except.ok.injEq] at hh; subst hh
              have hr := h2 v' r1' rfl
              refine ⟨by simp [push, hl.env_len], ?_, hl.cursors_eq, hl.kids_eq⟩
              simp only [push, hr, scopeParam_res hp]
              intro e he
              rcases List.mem_cons.mp he with h3 | h3
              · subst h3; exact List.mem_cons_self
              · exact List.mem_cons_of_mem _ (hl.res_sub e h3)
    | var col n shape init =>
      simp only [eval] at h ⊢
      cases he : evalE x l.env init with
      | error err => simp [he] at h
      | ok iv =>
        simp only [he] at h
        obtain ⟨iv', hiv'⟩ := evalE_ok_of_len (x' := x') hl.env_len init iv he
        simp only [hiv']
        cases hp : scopeVariable π col n (Val.full shape iv) l.res s with
        | mk res s2 =>
          rw [hp] at h
          cases res with
          | error e => simp at h
          | ok r =>
            simp only at h
            cases hg : getVar s2 π col n with
            | none => simp [hg] at h
            | some v =>
              simp only [hg, Prod.mk.injEq, Except.ok.injEq] at h
              obtain ⟨rfl, rfl⟩ := h
              have hpres := hk _ (scopeVariable_key hp)
              obtain ⟨h1, h2⟩ := scopeVariable_second (iv := Val.full shape iv') (r' := l'.res) hpres
              cases hp' : scopeVariable π col n (Val.full shape iv') l'.res t with
              | mk res' t2 =>
                rw [hp'] at h1 h2
                simp only at h1
                subst h1
                cases res' with
                | error e => exact ⟨SameKeys.refl _, fun _ hh => by simp at hh⟩
                | ok r1' =>
                  simp only
                  cases hg' : getVar t2 π col n with
                  | none => exact ⟨SameKeys.refl _, fun _ hh => by simp at hh⟩
                  | some v' =>
                    refine ⟨SameKeys.refl _, fun l1' hh => ?_⟩
                    simp only [Except.ok.injEq] at hh; subst hh
                    have hr := h2 r1' rfl
                    refine ⟨by simp [push, hl.env_len], ?_, hl.cursors_eq, hl.kids_eq⟩
                    simp only [push, hr, scopeVariable_res hp]
                    intro e he
                    rcases List.mem_cons.mp he with h3 | h3
                    · subst h3; exact List.mem_cons_self
                    · exact List.mem_cons_of_mem _ (hl.res_sub e h3)
    | get col n =>
      simp only [eval] at h ⊢
      have hl1 : l1.env.length = l.env.length + 1 ∧ l1.res = l.res ∧ l1.cursors = l.cursors ∧ l1.kids = l.kids := by
        split at h <;>
          (simp only [Prod.mk.injEq, Except.ok.injEq] at h; obtain ⟨rfl, _⟩ := h; simp [push])
      split <;>
        (refine ⟨SameKeys.refl t, fun l1' hh => ?_⟩
         simp only [Except.ok.injEq] at hh; subst hh
         exact ⟨by simp [push, hl.env_len, hl1.1], by rw [hl1.2.1]; exact hl.res_sub,
                by rw [hl1.2.2.1]; exact hl.cursors_eq, by rw [hl1.2.2.2]; exact hl.kids_eq⟩)
    | put col rel n e =>
      simp only [eval] at h ⊢
      cases he : evalE x l.env e with
      | error err => simp [he] at h
      | ok v =>
        simp only [he] at h
        obtain ⟨v', hv'⟩ := evalE_ok_of_len (x' := x') hl.env_len e v he
        simp only [hv']
        cases hp : putVar (π ++ rel) col n (.tensor [] [v]) s with
        | mk res s2 =>
          rw [hp] at h
          cases res with
          | error e => simp at h
          | ok u =>
            simp only [Prod.mk.injEq, Except.ok.injEq] at h
            obtain ⟨rfl, rfl⟩ := h
            have hpres : (lookupP (fullPath col (π ++ rel) n) t.vars).isSome = true := hk _ (by rw [putVar_stored hp]; rfl)
            have hs := putVar_samekeys (v := .tensor [] [v']) hpres
            cases hp' : putVar (π ++ rel) col n (.tensor [] [v']) t with
            | mk res' t2 =>
              rw [hp'] at hs
              cases res' with
              | error e => exact ⟨hs, fun _ hh => by simp at hh⟩
              | ok u' =>
                refine ⟨hs, fun l1' hh => ?_⟩
                simp only [Except.ok.injEq] at hh; subst hh; exact hl
    | sow col n e =>
      simp only [eval] at h ⊢
      cases he : evalE x l.env e with
      | error err => simp [he] at h
      | ok v =>
        simp only [he] at h
        obtain ⟨v', hv'⟩ := evalE_ok_of_len (x' := x') hl.env_len e v he
        simp only [hv']
        cases hp : moduleSow π col n v l.res s with
        | mk res s2 =>
          rw [hp] at h
          cases res with
          | error e => simp at h
          | ok r =>
            simp only [Prod.mk.injEq, Except.ok.injEq] at h
            obtain ⟨rfl, rfl⟩ := h
            have hpres : inFilter t.mutable col = true → (lookupP (fullPath col π n) t.vars).isSome = true :=
              fun hm => hk _ (moduleSow_key (hf _ hm) hp)
            obtain ⟨h1, h2⟩ := moduleSow_second (e := v') (r' := l'.res) hpres
            cases hp' : moduleSow π col n v' l'.res t with
            | mk res' t2 =>
              rw [hp'] at h1 h2
              cases res' with
              | error e => exact ⟨h1, fun _ hh => by simp at hh⟩
              | ok r1' =>
                refine ⟨h1, fun l1' hh => ?_⟩
                simp only [Except.ok.injEq] at hh; subst hh
                have := h2 r1' rfl
                subst this
                exact ⟨hl.env_len, fun e he => moduleSow_res hp e (hl.res_sub e he), hl.cursors_eq, hl.kids_eq⟩
    | perturb col n e =>
      simp only [eval] at h ⊢
      cases he : evalE x l.env e with
      | error err => simp [he] at h
      | ok v =>
        simp only [he] at h
        obtain ⟨v', hv'⟩ := evalE_ok_of_len (x' := x') hl.env_len e v he
        simp only [hv']
        cases hp : modulePerturb π col n v l.res s with
        | mk res s2 =>
          rw [hp] at h
          cases res with
          | error e => simp at h
          | ok yr =>
            obtain ⟨y, r⟩ := yr
            simp only [Prod.mk.injEq, Except.ok.injEq] at h
            obtain ⟨rfl, rfl⟩ := h
            have hpres : inFilter t.mutable col = true → (lookupP (fullPath col π n) t.vars).isSome = true :=
              fun hm => hk _ (modulePerturb_key (hf _ hm) hp)
            obtain ⟨h1, h2⟩ := modulePerturb_second (e := v') (r' := l'.res) hpres
            cases hp' : modulePerturb π col n v' l'.res t with
            | mk res' t2 =>
              rw [hp'] at h1 h2
              simp only at h1
              subst h1
              cases res' with
              | error e => exact ⟨SameKeys.refl _, fun _ hh => by simp at hh⟩
              | ok yr' =>
                obtain ⟨y', r1'⟩ := yr'
                refine ⟨SameKeys.refl _, fun l1' hh => ?_⟩
                simp only [Except.ok.injEq] at hh; subst hh
                have := h2 y' r1' rfl
                subst this
                exact ⟨by simp [push, hl.env_len], fun e he => modulePerturb_res hp e (hl.res_sub e he),
                       hl.cursors_eq, hl.kids_eq⟩
    | child cls name body =>
      simp only [eval] at h ⊢
      rw [childName_keys hst hl cls name]
      cases hn : childName cfg cls name l with
      | none => simp [hn] at h
      | some nc =>
        obtain ⟨nm, cs⟩ := nc
        simp only [hn] at h ⊢
        cases hr : reserve l.res nm none with
        | error e => simp [hr] at h
        | ok r =>
          simp only [hr, Prod.mk.injEq, Except.ok.injEq] at h
          obtain ⟨rfl, rfl⟩ := h
          cases hr' : reserve l'.res nm none with
          | error e => exact ⟨SameKeys.refl t, fun _ hh => by simp at hh⟩
          | ok r' =>
            refine ⟨SameKeys.refl t, fun l1' hh => ?_⟩
            simp only [Except.ok.injEq] at hh; subst hh
            refine ⟨hl.env_len, ?_, rfl, by simp [hl.kids_eq]⟩
            simp only [reserve_mono hr, reserve_mono hr']
            intro e he
            rcases List.mem_cons.mp he with h3 | h3
            · subst h3; exact List.mem_cons_self
            · exact List.mem_cons_of_mem _ (hl.res_sub e h3)
    | call slot a w =>
      simp only [eval] at h ⊢
      rw [hl.kids_eq]
      cases hkid : l.kids[slot]? with
      | none => simp [hkid] at h
      | some k =>
        simp only [hkid] at h ⊢
        cases he : evalE x l.env a with
        | error err => simp [he] at h
        | ok av =>
          simp only [he] at h
          obtain ⟨av', hav'⟩ := evalE_ok_of_len (x' := x') hl.env_len a av he
          simp only [hav']
          cases hb : eval cfg fuel (bindArg w k.body) (π ++ [k.name]) av {} s with
          | mk res s2 =>
            rw [hb] at h
            cases res with
            | error e => simp at h
            | ok lk =>
              simp only at h
              cases hfc : finishCall cfg (π ++ [k.name]) lk s2 with
              | mk res2 s3 =>
                rw [hfc] at h
                cases res2 with
                | error e => simp at h
                | ok lk2 =>
                  simp only [Prod.mk.injEq, Except.ok.injEq] at h
                  obtain ⟨rfl, rfl⟩ := h
                  have kept : KeysKept (π ++ [k.name]) s2 s3 := by
                    have := finishCall_rel keyskept_step cfg (π ++ [k.name]) lk s2
                    rw [hfc] at this; exact this
                  have hk2 : KeysIn s2 t := fun q hq => hk q (kept q hq)
                  obtain ⟨sk1, lk1⟩ := ih (bindArg w k.body) (π ++ [k.name]) av av' {} {} lk s s2 t hf (LocalKeys.refl _) hb hk2
                  cases hb' : eval cfg fuel (bindArg w k.body) (π ++ [k.name]) av' {} t with
                  | mk res' t2 =>
                    rw [hb'] at sk1 lk1
                    cases res' with
                    | error e => exact ⟨sk1, fun _ hh => by simp at hh⟩
                    | ok lk' =>
                      simp only
                      have hlk := lk1 lk' rfl
                      have hs2m : s2.mutable = s.mutable := by
                        have := (eval_frame cfg fuel (bindArg w k.body) (π ++ [k.name]) av {} s).mutable_eq; rw [hb] at this; exact this
                      have ht2m : t2.mutable = t.mutable := by
                        have := (eval_frame cfg fuel (bindArg w k.body) (π ++ [k.name]) av' {} t).mutable_eq; rw [hb'] at this; exact this
                      obtain ⟨sk2, lk2⟩ := finishCall_keys (hf.step hs2m ht2m) hlk hfc (hk.of_same sk1)
                      cases hf' : finishCall cfg (π ++ [k.name]) lk' t2 with
                      | mk res3 t3 =>
                        rw [hf'] at sk2 lk2
                        cases res3 with
                        | error e => exact ⟨sk1.trans sk2, fun _ hh => by simp at hh⟩
                        | ok lk2' =>
                          refine ⟨sk1.trans sk2, fun l1' hh => ?_⟩
                          simp only [Except.ok.injEq] at hh; subst hh
                          exact ⟨by simp [push, hl.env_len], hl.res_sub, hl.cursors_eq, hl.kids_eq⟩
    | nested body m V a =>
      simp only [eval] at h ⊢
      cases he : evalE x l.env a with
      | error err => simp [he] at h
      | ok av =>
        simp only [he] at h
        obtain ⟨av', hav'⟩ := evalE_ok_of_len (x' := x') hl.env_len a av he
        simp only [hav']
        by_cases hbs : badStructure V = true
        · simp [hbs] at h
        · simp only [hbs, Bool.false_eq_true, if_false] at h ⊢
          cases hb : eval (nestedCfg cfg) fuel body [] av {} (Scope.bind m V ["params"]) with
          | mk res si =>
            rw [hb] at h
            cases res with
            | error e => simp at h
            | ok li =>
              simp only [Prod.mk.injEq, Except.ok.injEq] at h
              obtain ⟨rfl, rfl⟩ := h
              cases hb' : eval (nestedCfg cfg) fuel body [] av' {} (Scope.bind m V ["params"]) with
              | mk res' ti =>
                cases res' with
                | error e => exact ⟨SameKeys.refl t, fun _ hh => by simp at hh⟩
                | ok li' =>
                  refine ⟨SameKeys.refl t, fun l1' hh => ?_⟩
                  simp only [Except.ok.injEq] at hh; subst hh
                  exact ⟨by simp [push, hl.env_len], hl.res_sub, hl.cursors_eq, hl.kids_eq⟩

theorem runTop_second {cfg : Cfg} (hst : cfg.style ≠ .core) (fuel : Nat) (p : SProg) (x x' y : Int)
    (s s2 t : Store) (hf : FilterLe s t) (h : runTop cfg fuel p x s = (.ok y, s2)) (hk : KeysIn s2 t) :
    SameKeys t (runTop cfg fuel p x' t).2 := by
  unfold runTop at h ⊢
  cases hev : eval cfg fuel p [] x {} s with
  | mk res s1 =>
    rw [hev] at h
    cases res with
    | error e => simp at h
    | ok l1 =>
      simp only at h
      cases hfc : finishCall cfg [] l1 s1 with
      | mk res2 s3 =>
        rw [hfc] at h
        cases res2 with
        | error e => simp at h
        | ok l2 =>
          simp only [Prod.mk.injEq, Except.ok.injEq] at h
          obtain ⟨_, rfl⟩ := h
          have kept : KeysKept [] s1 s3 := by
            have := finishCall_rel keyskept_step cfg [] l1 s1
            rw [hfc] at this; exact this
          have hk1 : KeysIn s1 t := fun q hq => hk q (kept q hq)
          obtain ⟨sk1, lk1⟩ := eval_second hst fuel p [] x x' {} {} l1 s s1 t hf (LocalKeys.refl _) hev hk1
          cases hev' : eval cfg fuel p [] x' {} t with
          | mk res' t1 =>
            rw [hev'] at sk1 lk1
            cases res' with
            | error e => exact sk1
            | ok l1' =>
              simp only
              have hs1m : s1.mutable = s.mutable := by
                have := (eval_frame cfg fuel p [] x {} s).mutable_eq; rw [hev] at this; exact this
              have ht1m : t1.mutable = t.mutable := by
                have := (eval_frame cfg fuel p [] x' {} t).mutable_eq; rw [hev'] at this; exact this
              obtain ⟨sk2, _⟩ := finishCall_keys (hf.step hs1m ht1m) (lk1 l1' rfl) hfc (hk.of_same sk1)
              cases hf' : finishCall cfg [] l1' t1 with
              | mk res3 t3 =>
                rw [hf'] at sk2
                cases res3 with
                | error e => exact sk1.trans sk2
                | ok l2' => exact sk1.trans sk2

/-- the variables returned by a run that started from the empty variable dict contain, at every
path, what the scope's final store holds -/
theorem returned_from_empty (fn : Op Int) (hfr : ∀ s, Frame s (fn s).2) (hnil : ∀ s, Flax.Stable.NilKept [] s (fn s).2)
    (m : LFilter) (rngs : List String) (q : Path) :
    lookupP q (mutableVariables (fn (Scope.bind m Vars.empty rngs)).2).vars
      = lookupP q (fn (Scope.bind m Vars.empty rngs)).2.vars := by
  have fr := hfr (Scope.bind m Vars.empty rngs)
  have hn := hnil (Scope.bind m Vars.empty rngs)
  cases q with
  | nil =>
    have h0 : lookupP [] (fn (Scope.bind m Vars.empty rngs)).2.vars = none := hn
    rw [h0, mutableVariables_vars, lookupP_filter_key_none (headMutable _) [] rfl]
  | cons c rest =>
    by_cases hmc : inFilter (fn (Scope.bind m Vars.empty rngs)).2.mutable c = true
    · rw [mutableVariables_vars, lookupP_filter_key (headMutable _) _ (by exact hmc)]
    · have hm : (fn (Scope.bind m Vars.empty rngs)).2.mutable = m := fr.mutable_eq
      have h1 : lookupP (c :: rest) (fn (Scope.bind m Vars.empty rngs)).2.vars = none := by
        have himm : inFilter (Scope.bind m Vars.empty rngs).mutable c = false := by
          show inFilter m c = false
          rw [← hm]; simpa using hmc
        rw [fr.imm c rest himm]; rfl
      rw [h1, mutableVariables_vars, lookupP_filter_key_none (headMutable _) _ (by simpa [headMutable] using hmc)]

theorem apply_keeps_tree_aux (cfg : Cfg) (hst : cfg.style ≠ .core) (fuel : Nat) (p : SProg) (m : LFilter)
    (rngs : List String) (x y : Int) (V : Vars)
    (hinit : (ModuleTree.init cfg fuel p m rngs x).result = .ok (y, V))
    (m2 : LFilter) (rngs2 : List String) (x2 : Int)
    (hle : ∀ c, inFilter (effMutable cfg m2) c = true → inFilter (effMutable cfg m) c = true) (q : Path) :
    (lookupP q (ModuleTree.apply cfg fuel p m2 V rngs2 x2).final.vars).isSome = (lookupP q V.vars).isSome := by
  unfold ModuleTree.init Scope.init Scope.apply at hinit
  have hbe : badStructure Vars.empty = false := rfl
  simp only [hbe, Bool.false_eq_true, if_false] at hinit
  cases hrun : runTop cfg fuel p x (Scope.bind (effMutable cfg m) Vars.empty rngs) with
  | mk res s2 =>
    rw [hrun] at hinit
    cases res with
    | error e => simp at hinit
    | ok y0 =>
      simp only [Except.ok.injEq, Prod.mk.injEq] at hinit
      obtain ⟨_, rfl⟩ := hinit
      unfold ModuleTree.apply Scope.apply
      split
      · rfl
      · -- every variable of the first run's final store is in the variables it returned
        have hret := returned_from_empty (runTop cfg fuel p x) (runTop_frame cfg fuel p x)
          (fun s => runTop_rel Flax.Stable.nilkept_step cfg fuel p x s) (effMutable cfg m) rngs
        rw [hrun] at hret
        simp only at hret
        have hk : KeysIn s2 (Scope.bind (effMutable cfg m2) (mutableVariables s2) rngs2) := by
          intro q' hq'
          show (lookupP q' (mutableVariables s2).vars).isSome = true
          rw [hret q']; exact hq'
        have hf : FilterLe (Scope.bind (effMutable cfg m) Vars.empty rngs)
            (Scope.bind (effMutable cfg m2) (mutableVariables s2) rngs2) := hle
        have sk := runTop_second hst fuel p x x2 y0 _ s2 _ hf hrun hk
        have := sk q
        split
        · rename_i heq; rw [heq] at this; exact this
        · rename_i heq; rw [heq] at this; exact this

end Flax.KeysSim
