/- helper lemmas: Except/Option plumbing for the lifted-loop model (C06) -/
import Flax.Model.LiftLoop

namespace Flax.LiftLoop

/-- forget which error: the "does the loop run, and with what result" view -/
def opt {β : Type} (x : Except Err β) : Option β :=
  match x with
  | .ok v => some v
  | .error _ => none

@[simp] theorem opt_ok {β : Type} (v : β) : opt (Except.ok v : Except Err β) = some v := rfl
@[simp] theorem opt_error {β : Type} (e : Err) : opt (Except.error e : Except Err β) = none := rfl
@[simp] theorem opt_pure {β : Type} (v : β) : opt (pure v : Except Err β) = some v := rfl
@[simp] theorem opt_throw {β : Type} (e : Err) : opt (throw e : Except Err β) = none := rfl

theorem opt_bind {β γ : Type} (x : Except Err β) (f : β → Except Err γ) :
    opt (x >>= f) = (opt x).bind (fun v => opt (f v)) := by
  cases x <;> rfl

theorem opt_map {β γ : Type} (x : Except Err β) (f : β → γ) :
    opt (x.map f) = (opt x).map f := by
  cases x <;> rfl

theorem opt_eq_some {β : Type} {x : Except Err β} {v : β} : opt x = some v ↔ x = .ok v := by
  cases x <;> simp [opt]

theorem opt_eq_none {β : Type} {x : Except Err β} : opt x = none ↔ ∃ e, x = .error e := by
  cases x <;> simp [opt]

/-- an own `mapM` for `Option` -/
def mapO {β γ : Type} (f : β → Option γ) : List β → Option (List γ)
  | [] => some []
  | x :: xs =>
    match f x with
    | none => none
    | some y =>
      match mapO f xs with
      | none => none
      | some ys => some (y :: ys)

theorem opt_mapE {β γ : Type} (f : β → Except Err γ) : ∀ (l : List β),
    opt (mapE f l) = mapO (fun x => opt (f x)) l := by
  intro l
  induction l with
  | nil => rfl
  | cons x xs ih =>
    simp only [mapE, mapO]
    cases hx : f x with
    | error e => simp
    | ok y =>
      simp only [opt_ok]
      rw [← ih]
      cases mapE f xs <;> simp

theorem mapO_congr {β γ : Type} {f g : β → Option γ} : ∀ (l : List β), (∀ x ∈ l, f x = g x) →
    mapO f l = mapO g l := by
  intro l
  induction l with
  | nil => intro _; rfl
  | cons x xs ih =>
    intro h
    simp only [mapO, h x (by simp), ih (fun y hy => h y (by simp [hy]))]

theorem mapE_congr {β γ : Type} {f g : β → Except Err γ} : ∀ (l : List β), (∀ x ∈ l, f x = g x) →
    mapE f l = mapE g l := by
  intro l
  induction l with
  | nil => intro _; rfl
  | cons x xs ih =>
    intro h
    simp only [mapE, h x (by simp), ih (fun y hy => h y (by simp [hy]))]

theorem mapO_eq_some {β γ : Type} {f : β → Option γ} : ∀ {l : List β} {r : List γ}, mapO f l = some r →
    r.length = l.length ∧ ∀ i (h1 : i < l.length) (h2 : i < r.length), f l[i] = some r[i] := by
  intro l
  induction l with
  | nil => intro r h; simp [mapO] at h; subst h; simp
  | cons x xs ih =>
    intro r h
    simp only [mapO] at h
    cases hx : f x with
    | none => simp [hx] at h
    | some y =>
      cases hr : mapO f xs with
      | none => simp [hx, hr] at h
      | some ys =>
        simp [hx, hr] at h
        subst h
        have := ih hr
        refine ⟨by simp [this.1], ?_⟩
        intro i h1 h2
        cases i with
        | zero => simpa using hx
        | succ i => simpa using this.2 i (by simpa using h1) (by simpa using h2)

theorem mapE_eq_ok {β γ : Type} {f : β → Except Err γ} {l : List β} {r : List γ} (h : mapE f l = .ok r) :
    r.length = l.length ∧ ∀ i (h1 : i < l.length) (h2 : i < r.length), f l[i] = .ok r[i] := by
  have := mapO_eq_some (f := fun x => opt (f x)) (l := l) (r := r) (by rw [← opt_mapE, h]; rfl)
  exact ⟨this.1, fun i h1 h2 => opt_eq_some.1 (this.2 i h1 h2)⟩

/-- `mapE f` then `mapE g` on the results, seen through `opt`, is one pass with the composition -/
theorem mapO_fuse {β γ δ : Type} (f : β → Option γ) (g : γ → Option δ) : ∀ (l : List β),
    (mapO f l).bind (mapO g) = mapO (fun x => (f x).bind g) l := by
  intro l
  induction l with
  | nil => rfl
  | cons x xs ih =>
    simp only [mapO]
    cases hx : f x with
    | none =>
      simp
    | some y =>
      simp only [Option.bind_some]
      rw [← ih]
      cases hr : mapO f xs with
      | none =>
        simp
        cases g y <;> simp
      | some ys =>
        simp [mapO]

theorem mapE_length {β γ : Type} {f : β → Except Err γ} {l : List β} {r : List γ} (h : mapE f l = .ok r) :
    r.length = l.length := (mapE_eq_ok h).1


theorem mapE_cons_ok {β γ : Type} {f : β → Except Err γ} {x : β} {xs : List β} {r : List γ}
    (h : mapE f (x :: xs) = .ok r) : ∃ y ys, f x = .ok y ∧ mapE f xs = .ok ys ∧ r = y :: ys := by
  simp only [mapE] at h
  cases hx : f x with
  | error e => rw [hx] at h; cases h
  | ok y =>
    rw [hx] at h
    cases hr : mapE f xs with
    | error e => rw [hr] at h; cases h
    | ok ys =>
      rw [hr] at h
      injection h with h
      exact ⟨y, ys, rfl, rfl, h.symm⟩

theorem mapE_cons_of_ok {β γ : Type} {f : β → Except Err γ} {x : β} {xs : List β} {y : γ} {ys : List γ}
    (hx : f x = .ok y) (hr : mapE f xs = .ok ys) : mapE f (x :: xs) = .ok (y :: ys) := by
  simp only [mapE, hx, hr]

theorem mapE_append_ok {β γ : Type} {f : β → Except Err γ} : ∀ (l1 l2 : List β) (r1 r2 : List γ),
    mapE f l1 = .ok r1 → mapE f l2 = .ok r2 → mapE f (l1 ++ l2) = .ok (r1 ++ r2) := by
  intro l1
  induction l1 with
  | nil => intro l2 r1 r2 h1 h2; simp [mapE] at h1; subst h1; simpa using h2
  | cons x xs ih =>
    intro l2 r1 r2 h1 h2
    obtain ⟨y, ys, hx, hr, rfl⟩ := mapE_cons_ok h1
    exact mapE_cons_of_ok hx (ih l2 ys r2 hr h2)


theorem mapE_append {β γ : Type} (f : β → Except Err γ) : ∀ (l1 l2 : List β),
    mapE f (l1 ++ l2) = (do let r1 ← mapE f l1; let r2 ← mapE f l2; pure (r1 ++ r2)) := by
  intro l1
  induction l1 with
  | nil =>
    intro l2
    simp only [List.nil_append, mapE, bind, Except.bind, pure, Except.pure]
    cases mapE f l2 <;> rfl
  | cons x xs ih =>
    intro l2
    simp only [List.cons_append, mapE, ih]
    cases f x with
    | error e => rfl
    | ok y =>
      simp only [bind, Except.bind, pure, Except.pure]
      cases mapE f xs with
      | error e => rfl
      | ok ys => cases mapE f l2 <;> rfl

theorem mapE_map {β γ δ : Type} (f : γ → Except Err δ) (g : β → γ) : ∀ (l : List β),
    mapE f (l.map g) = mapE (fun x => f (g x)) l := by
  intro l
  induction l with
  | nil => rfl
  | cons x xs ih => simp only [List.map_cons, mapE, ih]

end Flax.LiftLoop
