/-
Helper lemmas for C18: the name <-> type registry (`VariableTypeCache`) and box conversion.
-/
import Flax.Model.Bridge

namespace Flax.Bridge

/-! ## association lists with replace-or-append assignment -/

section
variable {κ ν : Type} [DecidableEq κ]

theorem keys_setAssoc (l : List (κ × ν)) (k : κ) (v : ν) :
    (setAssoc l k v).map Prod.fst = if k ∈ l.map Prod.fst then l.map Prod.fst else l.map Prod.fst ++ [k] := by
  induction l with
  | nil => simp [setAssoc]
  | cons hd r ih =>
    obtain ⟨k0, v0⟩ := hd
    unfold setAssoc
    by_cases h : k = k0
    · subst h; simp
    · simp only [h, ↓reduceIte, List.map_cons, List.mem_cons, false_or, ih]
      split <;> simp [*]

theorem setAssoc_of_not_mem (l : List (κ × ν)) (k : κ) (v : ν) (hk : k ∉ l.map Prod.fst) :
    setAssoc l k v = l ++ [(k, v)] := by
  induction l with
  | nil => simp [setAssoc]
  | cons hd rest ih =>
    obtain ⟨k0, v0⟩ := hd
    simp only [List.map_cons, List.mem_cons, not_or] at hk
    simp only [setAssoc, hk.1, ↓reduceIte, List.cons_append, List.cons.injEq, true_and]
    exact ih hk.2

theorem mem_setAssoc (l : List (κ × ν)) (k : κ) (v : ν) (e : κ × ν) (h : e ∈ setAssoc l k v) :
    e ∈ l ∨ e = (k, v) := by
  induction l with
  | nil => simp [setAssoc] at h; exact Or.inr h
  | cons hd r ih =>
    obtain ⟨k0, v0⟩ := hd
    unfold setAssoc at h
    by_cases hk : k = k0
    · subst hk
      simp only [↓reduceIte, List.mem_cons] at h
      rcases h with h | h
      · exact Or.inr h
      · exact Or.inl (by simp [h])
    · simp only [hk, ↓reduceIte, List.mem_cons] at h
      rcases h with h | h
      · exact Or.inl (by simp [h])
      · rcases ih h with h | h
        · exact Or.inl (by simp [h])
        · exact Or.inr h

theorem nodup_keys_setAssoc (l : List (κ × ν)) (k : κ) (v : ν) (h : (l.map Prod.fst).Nodup) :
    ((setAssoc l k v).map Prod.fst).Nodup := by
  rw [keys_setAssoc]
  split
  · exact h
  · rename_i hk
    rw [List.nodup_append]
    exact ⟨h, by simp, by intro x hx y hy; simp at hy; subst hy; intro e; exact hk (e ▸ hx)⟩

theorem nodup_vals_setAssoc (l : List (κ × ν)) (k : κ) (v : ν) (hk : (l.map Prod.fst).Nodup)
    (hv : (l.map Prod.snd).Nodup) (hg : ∀ k', (k', v) ∈ l → k' = k) :
    ((setAssoc l k v).map Prod.snd).Nodup := by
  induction l with
  | nil => simp [setAssoc]
  | cons hd r ih =>
    obtain ⟨k0, v0⟩ := hd
    simp only [List.map_cons, List.nodup_cons] at hk hv
    unfold setAssoc
    by_cases h : k = k0
    · subst h
      simp only [↓reduceIte, List.map_cons, List.nodup_cons]
      refine ⟨?_, hv.2⟩
      intro hm
      obtain ⟨e, he, rfl⟩ := List.mem_map.mp hm
      have := hg e.1 (by simp [he])
      exact hk.1 (List.mem_map.mpr ⟨e, he, this⟩)
    · simp only [h, ↓reduceIte, List.map_cons, List.nodup_cons]
      refine ⟨?_, ih hk.2 hv.2 (fun k' hm => hg k' (by simp [hm]))⟩
      intro hm
      obtain ⟨e, he, he2⟩ := List.mem_map.mp hm
      rcases mem_setAssoc r k v e he with h1 | h1
      · exact hv.1 (List.mem_map.mpr ⟨e, h1, he2⟩)
      · subst h1
        simp only at he2
        subst he2
        exact h (hg k0 (by simp)).symm

end

/-! ## registry -/

/-- the registry is one-to-one: no name twice (a dict), no type twice -/
def Reg.Inj (r : Reg) : Prop := (r.cache.map Prod.fst).Nodup ∧ (r.cache.map Prod.snd).Nodup

/-- every class made by the registry has a serial number below the counter -/
def Reg.Bounded (r : Reg) : Prop := ∀ e ∈ r.cache, ∀ s n, e.2 = VType.made s n → s < r.next

/-- the class exists already (a made class cannot be mentioned before it is made) -/
def VType.Exists (r : Reg) (t : VType) : Prop := ∀ s n, t = VType.made s n → s < r.next

theorem find?_fst_of_nodup {κ ν : Type} [DecidableEq κ] (l : List (κ × ν)) (h : (l.map Prod.fst).Nodup) (k : κ) (v : ν) :
    (l.find? fun e => e.1 = k) = some (k, v) ↔ (k, v) ∈ l := by
  induction l with
  | nil => simp
  | cons hd r ih =>
    obtain ⟨k0, v0⟩ := hd
    simp only [List.map_cons, List.nodup_cons] at h
    by_cases hk : k0 = k
    · subst hk
      simp only [List.find?_cons, decide_true, Option.some.injEq, Prod.mk.injEq, true_and, List.mem_cons]
      constructor
      · intro e; exact Or.inl e.symm
      · rintro (e | hm)
        · exact e.symm
        · exact absurd (List.mem_map.mpr ⟨(k0, v), hm, rfl⟩) h.1
    · simp only [List.find?_cons, hk, decide_false, List.mem_cons, Prod.mk.injEq]
      rw [ih h.2]
      constructor
      · intro hm; exact Or.inr hm
      · rintro (⟨e, _⟩ | hm)
        · exact absurd e.symm hk
        · exact hm

theorem find?_snd_of_nodup {κ ν : Type} [DecidableEq ν] (l : List (κ × ν)) (h : (l.map Prod.snd).Nodup) (k : κ) (v : ν) :
    (l.find? fun e => e.2 = v) = some (k, v) ↔ (k, v) ∈ l := by
  induction l with
  | nil => simp
  | cons hd r ih =>
    obtain ⟨k0, v0⟩ := hd
    simp only [List.map_cons, List.nodup_cons] at h
    by_cases hk : v0 = v
    · subst hk
      simp only [List.find?_cons, decide_true, Option.some.injEq, Prod.mk.injEq, and_true, List.mem_cons]
      constructor
      · intro e; exact Or.inl e.symm
      · rintro (e | hm)
        · exact e.symm
        · exact absurd (List.mem_map.mpr ⟨(k, v0), hm, rfl⟩) h.1
    · simp only [List.find?_cons, hk, decide_false, List.mem_cons, Prod.mk.injEq]
      rw [ih h.2]
      constructor
      · intro hm; exact Or.inr hm
      · rintro (⟨_, e⟩ | hm)
        · exact absurd e.symm hk
        · exact hm

theorem Reg.typeOf_iff (r : Reg) (h : r.Inj) (n : String) (t : VType) :
    r.typeOf n = some t ↔ (n, t) ∈ r.cache := by
  rw [← find?_fst_of_nodup r.cache h.1 n t]
  simp only [Reg.typeOf, Option.map_eq_some_iff]
  constructor
  · rintro ⟨e, he, rfl⟩
    have := List.find?_some he
    simp only [decide_eq_true_eq] at this
    rw [he, ← this]
  · intro he; exact ⟨(n, t), he, rfl⟩

theorem Reg.nameOf_iff (r : Reg) (h : r.Inj) (t : VType) (n : String) :
    r.nameOf t = some n ↔ (n, t) ∈ r.cache := by
  rw [← find?_snd_of_nodup r.cache h.2 n t]
  simp only [Reg.nameOf, Option.map_eq_some_iff]
  constructor
  · rintro ⟨e, he, rfl⟩
    have := List.find?_some he
    simp only [decide_eq_true_eq] at this
    rw [he, ← this]
  · intro he; exact ⟨(n, t), he, rfl⟩

/-- in a one-to-one registry the two look-ups are inverse to each other -/
theorem Reg.bijection_of_inj (r : Reg) (h : r.Inj) :
    (∀ n t, r.typeOf n = some t → r.nameOf t = some n) ∧
    (∀ t n, r.nameOf t = some n → r.typeOf n = some t) :=
  ⟨fun n t e => (r.nameOf_iff h t n).mpr ((r.typeOf_iff h n t).mp e),
   fun t n e => (r.typeOf_iff h n t).mpr ((r.nameOf_iff h t n).mp e)⟩

theorem Reg.typeOf_none_iff (r : Reg) (n : String) : r.typeOf n = none ↔ n ∉ r.cache.map Prod.fst := by
  simp only [Reg.typeOf, Option.map_eq_none_iff, List.find?_eq_none, decide_eq_true_eq, List.mem_map,
    not_exists, not_and]

theorem Reg.nameOf_none_iff (r : Reg) (t : VType) : r.nameOf t = none ↔ t ∉ r.cache.map Prod.snd := by
  simp only [Reg.nameOf, Option.map_eq_none_iff, List.find?_eq_none, decide_eq_true_eq, List.mem_map,
    not_exists, not_and]

/-- `variable_type_from_name` keeps the registry one-to-one, never raises with `allow_register`, and
only ever adds an entry for the queried name -/
theorem Reg.typeFromName_spec (r : Reg) (hi : r.Inj) (hb : r.Bounded) (n : String) (allow : Bool) :
    (allow = true → ∃ r' t, r.typeFromName n allow = .ok (r', t)) ∧
    ∀ r' t, r.typeFromName n allow = .ok (r', t) →
      r'.Inj ∧ r'.Bounded ∧ r.next ≤ r'.next ∧ r'.typeOf n = some t ∧
      (∀ e ∈ r.cache, e ∈ r'.cache) ∧ (∀ e ∈ r'.cache, e ∈ r.cache ∨ e = (n, t)) := by
  unfold Reg.typeFromName
  cases hty : r.typeOf n with
  | some t0 =>
    refine ⟨fun _ => ⟨r, t0, rfl⟩, ?_⟩
    intro r' t h
    simp only [Except.ok.injEq, Prod.mk.injEq] at h
    obtain ⟨rfl, rfl⟩ := h
    exact ⟨hi, hb, Nat.le_refl _, hty, fun e h => h, fun e h => Or.inl h⟩
  | none =>
    have hn := (r.typeOf_none_iff n).mp hty
    cases allow with
    | false => simp
    | true =>
      refine ⟨fun _ => ⟨_, _, rfl⟩, ?_⟩
      intro r' t h
      simp only [↓reduceIte, Except.ok.injEq, Prod.mk.injEq] at h
      obtain ⟨rfl, rfl⟩ := h
      refine ⟨⟨?_, ?_⟩, ?_, Nat.le_succ _, ?_, ?_, ?_⟩
      · simp only [List.map_append, List.map_cons, List.map_nil]
        rw [List.nodup_append]
        exact ⟨hi.1, by simp, by intro x hx y hy; simp at hy; subst hy; intro e; exact hn (e ▸ hx)⟩
      · simp only [List.map_append, List.map_cons, List.map_nil]
        rw [List.nodup_append]
        refine ⟨hi.2, by simp, ?_⟩
        intro x hx y hy
        simp only [List.mem_singleton] at hy; subst hy
        intro e; subst e
        obtain ⟨e, he, he2⟩ := List.mem_map.mp hx
        exact Nat.lt_irrefl _ (hb e he r.next n he2)
      · intro e he s n' hs
        simp only [List.mem_append, List.mem_singleton] at he
        rcases he with he | rfl
        · exact Nat.lt_succ_of_lt (hb e he s n' hs)
        · simp only [VType.made.injEq] at hs; show s < r.next + 1; omega
      · have hi' : Reg.Inj { cache := r.cache ++ [(n, VType.made r.next n)], next := r.next + 1 } := by
          refine ⟨?_, ?_⟩
          · simp only [List.map_append, List.map_cons, List.map_nil]
            rw [List.nodup_append]
            exact ⟨hi.1, by simp, by intro x hx y hy; simp at hy; subst hy; intro e; exact hn (e ▸ hx)⟩
          · simp only [List.map_append, List.map_cons, List.map_nil]
            rw [List.nodup_append]
            refine ⟨hi.2, by simp, ?_⟩
            intro x hx y hy
            simp only [List.mem_singleton] at hy; subst hy
            intro e; subst e
            obtain ⟨e, he, he2⟩ := List.mem_map.mp hx
            exact Nat.lt_irrefl _ (hb e he r.next n he2)
        exact (Reg.typeOf_iff _ hi' n _).mpr (by simp)
      · intro e he; simp [he]
      · intro e he
        simp only [List.mem_append, List.mem_singleton] at he
        exact he

theorem Reg.register_spec (r : Reg) (hi : r.Inj) (hb : r.Bounded) (n : String) (t : VType) (ow : Bool)
    (hex : t.Exists r) (hg : ∀ n', (n', t) ∈ r.cache → n' = n) :
    ∀ r', r.register n t ow = .ok r' → r'.Inj ∧ r'.Bounded ∧ r'.next = r.next := by
  intro r' h
  unfold Reg.register at h
  split at h
  · cases h
  · simp only [Except.ok.injEq] at h
    subst h
    refine ⟨⟨nodup_keys_setAssoc _ _ _ hi.1, nodup_vals_setAssoc _ _ _ hi.1 hi.2 hg⟩, ?_, rfl⟩
    intro e he s n' hs
    rcases mem_setAssoc _ _ _ _ he with he | rfl
    · exact hb e he s n' hs
    · exact hex s n' hs

theorem Reg.nameFromType_spec (r : Reg) (hi : r.Inj) (hb : r.Bounded) (t : VType) (allow : Bool)
    (hex : t.Exists r) :
    ∀ r' n, r.nameFromType t allow = .ok (r', n) →
      r'.Inj ∧ r'.Bounded ∧ r'.next = r.next ∧ r'.nameOf t = some n ∧
      (∀ e ∈ r.cache, e ∈ r'.cache) ∧ (∀ e ∈ r'.cache, e ∈ r.cache ∨ e = (n, t)) := by
  intro r' n h
  unfold Reg.nameFromType at h
  cases hn : r.nameOf t with
  | some n0 =>
    simp only [hn, Except.ok.injEq, Prod.mk.injEq] at h
    obtain ⟨rfl, rfl⟩ := h
    exact ⟨hi, hb, rfl, hn, fun e h => h, fun e h => Or.inl h⟩
  | none =>
    simp only [hn] at h
    have hnot := (r.nameOf_none_iff t).mp hn
    cases allow with
    | false => simp at h
    | true =>
      simp only [Bool.not_true, Bool.false_eq_true, ↓reduceIte] at h
      split at h
      · cases h
      · rename_i hfree
        cases hreg : r.register t.pyName t false with
        | error e => rw [hreg] at h; cases h
        | ok r1 =>
          rw [hreg] at h
          simp only [bind, Except.bind, pure, Except.pure, Except.ok.injEq, Prod.mk.injEq] at h
          obtain ⟨rfl, rfl⟩ := h
          have hspec := Reg.register_spec r hi hb t.pyName t false hex
            (fun n' hm => absurd (List.mem_map.mpr ⟨(n', t), hm, rfl⟩) hnot) r1 hreg
          have hcache : r1.cache = r.cache ++ [(t.pyName, t)] := by
            unfold Reg.register at hreg
            split at hreg
            · cases hreg
            · simp only [Except.ok.injEq] at hreg
              subst hreg
              have hk : t.pyName ∉ r.cache.map Prod.fst := by
                apply (r.typeOf_none_iff _).mp
                cases h0 : r.typeOf t.pyName with
                | none => rfl
                | some _ => simp [h0] at hfree
              exact setAssoc_of_not_mem _ _ _ hk
          refine ⟨hspec.1, hspec.2.1, hspec.2.2, ?_, ?_, ?_⟩
          · exact (Reg.nameOf_iff _ hspec.1 t _).mpr (by rw [hcache]; simp)
          · intro e he; rw [hcache]; simp [he]
          · intro e he; rw [hcache] at he
            simp only [List.mem_append, List.mem_singleton] at he
            exact he

/-! ### histories of registry operations -/

/-- what a caller can do: mention only classes that exist, and not register under a second name a
class that already has one (nothing in `register_variable_name` checks the latter) -/
def RegOp.Guard (r : Reg) : RegOp → Prop
  | .typeFromName _ _ => True
  | .nameFromType t _ => t.Exists r
  | .register n t _ => t.Exists r ∧ ∀ n', (n', t) ∈ r.cache → n' = n

def Guarded : Reg → List RegOp → Prop
  | _, [] => True
  | r, op :: ops => op.Guard r ∧ Guarded (r.step op) ops

theorem Reg.step_inj (r : Reg) (hi : r.Inj) (hb : r.Bounded) (op : RegOp) (hg : op.Guard r) :
    (r.step op).Inj ∧ (r.step op).Bounded := by
  cases op with
  | typeFromName n a =>
    simp only [Reg.step]
    cases h : r.typeFromName n a with
    | error e => exact ⟨hi, hb⟩
    | ok p =>
      obtain ⟨r', t⟩ := p
      have := (Reg.typeFromName_spec r hi hb n a).2 r' t h
      exact ⟨this.1, this.2.1⟩
  | nameFromType t a =>
    simp only [Reg.step]
    cases h : r.nameFromType t a with
    | error e => exact ⟨hi, hb⟩
    | ok p =>
      obtain ⟨r', n⟩ := p
      have := Reg.nameFromType_spec r hi hb t a hg r' n h
      exact ⟨this.1, this.2.1⟩
  | register n t ow =>
    simp only [Reg.step]
    cases h : r.register n t ow with
    | error e => exact ⟨hi, hb⟩
    | ok r' =>
      have := Reg.register_spec r hi hb n t ow hg.1 hg.2 r' h
      exact ⟨this.1, this.2.1⟩

theorem Reg.run_inj : ∀ (ops : List RegOp) (r : Reg), r.Inj → r.Bounded → Guarded r ops →
    (r.run ops).Inj ∧ (r.run ops).Bounded := by
  intro ops
  induction ops with
  | nil => intro r hi hb _; exact ⟨hi, hb⟩
  | cons op ops ih =>
    intro r hi hb hg
    simp only [Guarded] at hg
    have := Reg.step_inj r hi hb op hg.1
    simp only [Reg.run, List.foldl_cons]
    exact ih (r.step op) this.1 this.2 hg.2

end Flax.Bridge
