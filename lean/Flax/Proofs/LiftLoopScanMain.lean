/- C06: `lift.scan` (model) = the explicit loop (spec) -/
import Flax.Proofs.LiftLoopScan

set_option linter.unusedSimpArgs false
set_option linter.unusedSectionVars false

namespace Flax.LiftLoop
open Flax.Filter
variable {α : Type} [Inhabited α]

theorem range_map_drop2 {β : Type} (f : Nat → β) (k : Nat) :
    ((List.range (k + 2)).map f).drop 2 = (List.range k).map (fun g => f (g + 2)) := by
  apply List.ext_getElem
  · simp
  · intro i h1 h2
    simp [Nat.add_comm]

theorem groups_drop2 {β : Type} (d : List (String × β)) (f1 f2 : LFilter) (fs : List LFilter) :
    (groupDict d (f1 :: f2 :: fs)).drop 2 = axisGroups d (f1 :: f2 :: fs) fs.length := by
  rw [groupDict_eq]
  exact range_map_drop2 _ _

/-- what `scanned` computes from the slices of one iteration -/
theorem scanned_opt (m : LFilter) (cfg : ScanCfg) (body : Body α) (b : Vars α)
    (st : Vars α × List (Arr α)) (sl : List (Vars α)) (rg : List Rngs) (xs : List (Arr α)) :
    opt (scanned (innerMutable m cfg.outFs) cfg.outFs body b st sl rg xs) =
      (opt (body (innerMutable m cfg.outFs) (mergeGroups (b :: st.1 :: sl)) (mergeGroups rg) st.2 xs)).bind
        fun r =>
          let mv := r.1.filter (fun kv => inFilter (innerMutable m cfg.outFs) kv.1)
          some (reinject b (roleGroup mv cfg.outFs 0), (roleGroup mv cfg.outFs 1, r.2.1),
            (r.2.2, axisGroups mv cfg.outFs cfg.outAx.length)) := by
  unfold scanned
  simp only [opt_bind, repack_eq]
  congr 1
  funext r
  have hl : cfg.outFs.length = cfg.outAx.length + 2 := by simp [ScanCfg.outFs]
  simp only [opt_ok, Option.bind_some, opt_pure, hl]
  congr 2
  · simp [List.getD_eq_getElem?_getD]
  · congr 1
    · congr 1
      simp [List.getD_eq_getElem?_getD]
    · congr 1
      exact range_map_drop2 _ _

/-- **one iteration**: what `body_fn` does with slice `i` of the transposed inputs is one step of the
explicit loop on slice `i` along the declared axes -/
theorem step_eq (cfg : ScanCfg) (m : LFilter) (body : Body α) (outer : Vars α) (rngs : Rngs)
    (inArgAxes : List (Option Int)) (args : List (Arr α)) (dLength : Nat)
    (svsF : List (Vars α)) (asF : List (Option (Arr α) × Arr α))
    (hx : mapE groupToFront ((cfg.inAx.map (·.axis)).zip (axisGroups outer cfg.inFs cfg.inAx.length)) = .ok svsF)
    (ha : mapE argToFront (inArgAxes.zip args) = .ok asF)
    (i : Nat) (hi : i < dLength) (b : Vars α) (st : Vars α × List (Arr α)) :
    opt ((ScanXs.mk svsF (splitGroups (groupDict rngs (cfg.splitRngs.map (·.1))) (cfg.splitRngs.map (·.2)) dLength)
          asF).at i >>= fun x => scanned (innerMutable m cfg.outFs) cfg.outFs body b st x.1 x.2.1 x.2.2) =
      loopStep cfg (innerMutable m cfg.outFs) body outer rngs inArgAxes args dLength b st i := by
  unfold ScanXs.at loopStep iterArgs
  simp only [groups_front_slices _ _ hx, rngAt_splitGroups _ _ _ _ hi, args_front_slices _ _ ha]
  cases hsl : mapE (groupSlice i) ((cfg.inAx.map (·.axis)).zip (axisGroups outer cfg.inFs cfg.inAx.length)) with
  | error e => simp [bind, Except.bind]
  | ok sl =>
    cases hxs : mapE (argTakeAt i) (inArgAxes.zip args) with
    | error e => simp [bind, Except.bind]
    | ok xs =>
      simp only [bind, Except.bind, pure, Except.pure, opt_ok, Option.bind_some]
      exact scanned_opt m cfg body b st sl _ xs


theorem mem_order_lt {n : Nat} {rev : Bool} {i : Nat}
    (h : i ∈ (if rev then (List.range n).reverse else List.range n)) : i < n := by
  cases rev <;> simpa using h

theorem scanBody_opt (fn : ScanFn α) (b : Vars α) (s : Vars α × List (Arr α))
    (xa : Except Err (List (Vars α) × List Rngs × List (Arr α))) :
    opt (xa >>= scanBody fn b s) =
      (opt (xa >>= fun x => fn b s x.1 x.2.1 x.2.2)).map (fun r => (r.2.1, r.2.2)) := by
  cases xa with
  | error e => rfl
  | ok x =>
    simp only [bind, Except.bind, scanBody]
    cases fn b s x.1 x.2.1 x.2.2 <;> rfl

/-- **the loop proper**: `lax.scan` over the transposed inputs followed by `transpose_from_front` of the
stacked outputs is the index-addressed explicit loop with outputs stacked along the declared axes -/
theorem axesLoop_opt (cfg : ScanCfg) (m : LFilter) (body : Body α) (outer : Vars α) (rngs : Rngs)
    (inArgAxes : List (Option Int)) (args : List (Arr α)) (dLength : Nat)
    (svsF : List (Vars α)) (asF : List (Option (Arr α) × Arr α))
    (hx : mapE groupToFront ((cfg.inAx.map (·.axis)).zip (axisGroups outer cfg.inFs cfg.inAx.length)) = .ok svsF)
    (ha : mapE argToFront (inArgAxes.zip args) = .ok asF)
    (n : Nat) (hn : n ≤ dLength) (outYAxes : List (Option Int)) (init : Vars α × List (Arr α))
    (r0 : StepOut α) :
    opt (axesLoop cfg.reverse outYAxes (cfg.outAx.map (·.axis))
        (ScanXs.mk svsF (splitGroups (groupDict rngs (cfg.splitRngs.map (·.1))) (cfg.splitRngs.map (·.2)) dLength) asF)
        (scanned (innerMutable m cfg.outFs) cfg.outFs body) init r0 n) =
      (loopRun (fun st i => (loopStep cfg (innerMutable m cfg.outFs) body outer rngs inArgAxes args dLength
            r0.1 st i).map (fun r => (r.2.1, r.2.2))) sameStruct init
          (if cfg.reverse then (List.range n).reverse else List.range n)).bind fun res =>
      (byIndex n res.2).bind fun outs =>
      (opt (collectOuts stackAt outYAxes (cfg.outAx.map (·.axis)) r0.2.2.1 outs)).bind fun out =>
      some (r0.1, res.1, out) := by
  unfold axesLoop
  rw [opt_bind, laxScan_opt]
  have hstep : ∀ i ∈ (if cfg.reverse then (List.range n).reverse else List.range n), ∀ s,
      opt ((ScanXs.mk svsF (splitGroups (groupDict rngs (cfg.splitRngs.map (·.1))) (cfg.splitRngs.map (·.2)) dLength)
          asF).at i >>= scanBody (scanned (innerMutable m cfg.outFs) cfg.outFs body) r0.1 s) =
        (loopStep cfg (innerMutable m cfg.outFs) body outer rngs inArgAxes args dLength r0.1 s i).map
          (fun r => (r.2.1, r.2.2)) := by
    intro i hi s
    rw [scanBody_opt, step_eq cfg m body outer rngs inArgAxes args dLength svsF asF hx ha i
      (by have := mem_order_lt hi; omega)]
  rw [loopRun_congr sameStruct _ hstep]
  cases loopRun (fun st i => (loopStep cfg (innerMutable m cfg.outFs) body outer rngs inArgAxes args dLength
      r0.1 st i).map (fun r => (r.2.1, r.2.2))) sameStruct init
      (if cfg.reverse then (List.range n).reverse else List.range n) with
  | none => rfl
  | some res =>
    simp only [Option.bind_some]
    cases byIndex n res.2 with
    | none => rfl
    | some outs =>
      simp only [Option.map_some, Option.bind_some, opt_bind]
      rw [collectOuts_opt stackFront stackAt stackFront_opt]
      cases opt (collectOuts stackAt outYAxes (cfg.outAx.map (·.axis)) r0.2.2.1 outs) <;> rfl


/-- the sizes lax.scan sees on the transposed inputs are the sizes along the declared axes -/
theorem dims_opt (cfg : ScanCfg) (outer : Vars α) (rngs : Rngs) (inArgAxes : List (Option Int))
    (args : List (Arr α)) (dLength : Nat) (svsF : List (Vars α)) (asF : List (Option (Arr α) × Arr α))
    (hx : mapE groupToFront ((cfg.inAx.map (·.axis)).zip (axisGroups outer cfg.inFs cfg.inAx.length)) = .ok svsF)
    (ha : mapE argToFront (inArgAxes.zip args) = .ok asF) :
    opt (ScanXs.mk svsF (splitGroups (groupDict rngs (cfg.splitRngs.map (·.1))) (cfg.splitRngs.map (·.2)) dLength)
        asF).dims = loopDims cfg outer rngs inArgAxes args dLength := by
  unfold ScanXs.dims loopDims
  rw [opt_bind, groups_front_dims _ _ hx]
  congr 1
  funext d1
  rw [opt_bind, args_front_dims _ _ ha]
  congr 1
  funext d3
  simp only [opt_pure, rngDims_splitGroups]

/-- when lax.scan accepts the sizes, its number of iterations is flax's `d_length` -/
theorem n_eq_dLength (cfg : ScanCfg) (outer : Vars α) (rngs : Rngs) (inArgAxes : List (Option Int))
    (args : List (Arr α)) (sizes : List Nat) (dLength : Nat) (dims : List Nat) (n : Nat)
    (hsizes : argSizes cfg.inAxes args = .ok sizes) (hdl : decideLength cfg.length sizes = .ok dLength)
    (hexp : cfg.inAxes.expand args.length = .ok inArgAxes)
    (hd : loopDims cfg outer rngs inArgAxes args dLength = some dims)
    (hj : jaxLength cfg.length dims = .ok n) : n = dLength := by
  unfold loopDims at hd
  cases h1 : opt (mapE groupDims ((cfg.inAx.map (·.axis)).zip (axisGroups outer cfg.inFs cfg.inAx.length))) with
  | none => simp [h1] at hd
  | some d1 =>
    cases h3 : opt (mapE argDimAt (inArgAxes.zip args)) with
    | none => simp [h1, h3] at hd
    | some d3 =>
      simp [h1, h3] at hd
      subst hd
      refine length_agrees cfg.length sizes _ dLength n hdl hj ?_
      intro x hxm
      have := argSizes_sub cfg.inAxes args sizes inArgAxes d3 hsizes hexp (opt_eq_some.1 h3) x hxm
      simp only [List.mem_append]
      exact Or.inr (Or.inr this)

/-- if lax.scan would reject the sizes, or accept zero iterations, nothing before that call can save the
run: the whole `axes_scan.scan` fails -/
theorem axesScanTail_none (reverse verdict : Bool) (outAxes : AxesTree) (outVarAxes : List Int)
    (fn : ScanFn α) (bIn : Vars α) (init : Vars α × List (Arr α)) (xs : ScanXs α) (nE : Except Err Nat)
    (i0 : Nat) (h : ∀ n, nE = .ok n → n = 0) :
    opt (axesScanTail reverse verdict false outAxes outVarAxes fn bIn init xs nE i0) = none := by
  unfold axesScanTail
  cases hx0 : xs.at i0 with
  | error e => simp [bind, Except.bind]
  | ok x0 =>
    cases hr0 : fn bIn init x0.1 x0.2.1 x0.2.2 with
    | error e => simp [bind, Except.bind, hr0]
    | ok r0 =>
      cases ho : outAxes.expand r0.2.2.1.length with
      | error e => simp [bind, Except.bind, hr0, ho]
      | ok oy =>
        cases verdict with
        | false => simp [bind, Except.bind, hr0, ho, throw, throwThe, MonadExceptOf.throw]
        | true =>
          cases hn : nE with
          | error e => simp [bind, Except.bind, hr0, ho]
          | ok n =>
            have := h n hn
            subst this
            simp [bind, Except.bind, hr0, ho, throw, throwThe, MonadExceptOf.throw]


/-- the broadcast pass and the loop, when lax.scan accepts `n ≥ 1` iterations -/
theorem axesScanTail_some (cfg : ScanCfg) (verdict : Bool) (m : LFilter) (body : Body α) (outer : Vars α)
    (rngs : Rngs) (init : List (Arr α)) (args : List (Arr α)) (inArgAxes : List (Option Int))
    (dLength : Nat) (svsF : List (Vars α)) (asF : List (Option (Arr α) × Arr α))
    (hx : mapE groupToFront ((cfg.inAx.map (·.axis)).zip (axisGroups outer cfg.inFs cfg.inAx.length)) = .ok svsF)
    (ha : mapE argToFront (inArgAxes.zip args) = .ok asF) (n : Nat) (hn0 : n ≠ 0) (hn : n = dLength) :
    opt (axesScanTail cfg.reverse verdict false cfg.outAxes (cfg.outAx.map (·.axis))
        (scanned (innerMutable m cfg.outFs) cfg.outFs body) (roleGroup outer cfg.inFs 0)
        (roleGroup outer cfg.inFs 1, init)
        (ScanXs.mk svsF (splitGroups (groupDict rngs (cfg.splitRngs.map (·.1))) (cfg.splitRngs.map (·.2)) dLength) asF)
        (.ok n) (if cfg.reverse then n - 1 else 0)) =
      (let step := loopStep cfg (innerMutable m cfg.outFs) body outer rngs inArgAxes args dLength
       let st0 : Vars α × List (Arr α) := (roleGroup outer cfg.inFs 1, init)
       (step (roleGroup outer cfg.inFs 0) st0 (if cfg.reverse then n - 1 else 0)).bind fun r0 =>
       (opt (cfg.outAxes.expand r0.2.2.1.length)).bind fun outYAxes =>
       if !verdict then none else
       (loopRun (fun st i => (step r0.1 st i).map (fun r => (r.2.1, r.2.2))) sameStruct st0
          (if cfg.reverse then (List.range n).reverse else List.range n)).bind fun res =>
       (byIndex n res.2).bind fun outs =>
       (opt (collectOuts stackAt outYAxes (cfg.outAx.map (·.axis)) r0.2.2.1 outs)).bind fun out =>
       some (r0.1, res.1, out)) := by
  have hi0 : (if cfg.reverse then n - 1 else 0) < dLength := by split <;> omega
  have hstep := step_eq cfg m body outer rngs inArgAxes args dLength svsF asF hx ha
    (if cfg.reverse then n - 1 else 0) hi0 (roleGroup outer cfg.inFs 0) (roleGroup outer cfg.inFs 1, init)
  simp only []
  rw [← hstep]
  unfold axesScanTail
  cases hx0 : (ScanXs.mk svsF (splitGroups (groupDict rngs (cfg.splitRngs.map (·.1))) (cfg.splitRngs.map (·.2)) dLength)
      asF).at (if cfg.reverse then n - 1 else 0) with
  | error e => simp [bind, Except.bind]
  | ok x0 =>
    cases hr0 : scanned (innerMutable m cfg.outFs) cfg.outFs body (roleGroup outer cfg.inFs 0)
        (roleGroup outer cfg.inFs 1, init) x0.1 x0.2.1 x0.2.2 with
    | error e => simp [bind, Except.bind, hr0]
    | ok r0 =>
      simp only [bind, Except.bind, hr0, opt_ok, Option.bind_some]
      cases ho : cfg.outAxes.expand r0.2.2.1.length with
      | error e => simp
      | ok oy =>
        simp only [opt_ok, Option.bind_some, Bool.false_eq_true, if_false]
        cases verdict with
        | false => simp [throw, throwThe, MonadExceptOf.throw]
        | true =>
          simp only [Bool.not_true, Bool.false_eq_true, if_false, hn0]
          exact axesLoop_opt cfg m body outer rngs inArgAxes args dLength svsF asF hx ha n (by omega) oy _ r0

/-- **`axes_scan.scan(scanned, …)` on the groups is the explicit loop** -/
theorem axesScan_opt_checked (cfg : ScanCfg) (verdict : Bool) (m : LFilter) (body : Body α) (outer : Vars α)
    (rngs : Rngs) (init : List (Arr α)) (args : List (Arr α)) (sizes : List Nat) (dLength : Nat)
    (inArgAxes : List (Option Int))
    (hsizes : argSizes cfg.inAxes args = .ok sizes) (hdl : decideLength cfg.length sizes = .ok dLength)
    (hexp : cfg.inAxes.expand args.length = .ok inArgAxes) :
    opt (axesScan true cfg.length cfg.reverse verdict false (cfg.inAx.map (·.axis)) inArgAxes cfg.outAxes
        (cfg.outAx.map (·.axis)) (scanned (innerMutable m cfg.outFs) cfg.outFs body)
        (roleGroup outer cfg.inFs 0) (roleGroup outer cfg.inFs 1, init)
        (axisGroups outer cfg.inFs cfg.inAx.length)
        (splitGroups (groupDict rngs (cfg.splitRngs.map (·.1))) (cfg.splitRngs.map (·.2)) dLength) args) =
      loopCoreChecked cfg verdict (innerMutable m cfg.outFs) body outer rngs init args inArgAxes dLength := by
  unfold axesScan prepXs loopCoreChecked
  cases hx : mapE groupToFront ((cfg.inAx.map (·.axis)).zip (axisGroups outer cfg.inFs cfg.inAx.length)) with
  | error e =>
    have : loopDims cfg outer rngs inArgAxes args dLength = none := by
      unfold loopDims; rw [groups_front_error _ _ hx]; rfl
    simp [bind, Except.bind, this]
  | ok svsF =>
    cases ha : mapE argToFront (inArgAxes.zip args) with
    | error e =>
      have : loopDims cfg outer rngs inArgAxes args dLength = none := by
        unfold loopDims; rw [args_front_error _ _ ha]
        cases opt (mapE groupDims ((cfg.inAx.map (·.axis)).zip (axisGroups outer cfg.inFs cfg.inAx.length))) <;> rfl
      simp [bind, Except.bind, this]
    | ok asF =>
      have hdims := dims_opt cfg outer rngs inArgAxes args dLength svsF asF hx ha
      simp only [bind, Except.bind, pure, Except.pure, Bool.not_true, Bool.false_eq_true, if_false]
      cases hd : (ScanXs.mk svsF (splitGroups (groupDict rngs (cfg.splitRngs.map (·.1))) (cfg.splitRngs.map (·.2)) dLength)
          asF).dims with
      | error e =>
        rw [hd] at hdims
        simp only [opt_error] at hdims
        rw [← hdims]
        simp only [Option.bind_none]
        exact axesScanTail_none _ _ _ _ _ _ _ _ _ _ (by intro n h; cases h)
      | ok dims =>
        rw [hd] at hdims
        simp only [opt_ok] at hdims
        rw [← hdims]
        simp only [Option.bind_some]
        cases hj : jaxLength cfg.length dims with
        | error e =>
          simp only [opt_error, Option.bind_none]
          exact axesScanTail_none _ _ _ _ _ _ _ _ _ _ (by intro n h; cases h)
        | ok n =>
          simp only [opt_ok, Option.bind_some]
          by_cases hn0 : n = 0
          · simp only [hn0, if_true]
            exact axesScanTail_none _ _ _ _ _ _ _ _ _ _ (by intro n h; injection h with h; exact h.symm)
          · simp only [hn0, if_false]
            have hn := n_eq_dLength cfg outer rngs inArgAxes args sizes dLength dims n hsizes hdl hexp
              hdims.symm hj
            exact axesScanTail_some cfg verdict m body outer rngs init args inArgAxes dLength svsF asF hx ha
              n hn0 hn


/-- the loop of `simple_scan_fn`, once lax.scan has accepted `n ≥ 1` iterations -/
theorem axesSimple_loop_opt (cfg : ScanCfg) (m : LFilter) (body : Body α) (outer : Vars α) (rngs : Rngs)
    (inArgAxes : List (Option Int)) (args : List (Arr α)) (dLength : Nat)
    (svsF : List (Vars α)) (asF : List (Option (Arr α) × Arr α))
    (hx : mapE groupToFront ((cfg.inAx.map (·.axis)).zip (axisGroups outer cfg.inFs cfg.inAx.length)) = .ok svsF)
    (ha : mapE argToFront (inArgAxes.zip args) = .ok asF)
    (n : Nat) (hn : n ≤ dLength) (init : Vars α × List (Arr α)) (b : Vars α) :
    opt (do
      let res ← laxScan n cfg.reverse
        (ScanXs.mk svsF (splitGroups (groupDict rngs (cfg.splitRngs.map (·.1))) (cfg.splitRngs.map (·.2)) dLength) asF).at
        (scanBody (scanned (innerMutable m cfg.outFs) cfg.outFs body) b) sameStruct init
      let outYAxes ← cfg.outAxes.expand ((res.2.head?.map (fun o => o.1.length)).getD 0)
      let out ← collectOuts stackFront outYAxes (cfg.outAx.map (·.axis)) [] res.2
      pure (b, res.1, out)) =
      (loopRun (fun st i => (loopStep cfg (innerMutable m cfg.outFs) body outer rngs inArgAxes args dLength
            b st i).map (fun r => (r.2.1, r.2.2))) sameStruct init
          (if cfg.reverse then (List.range n).reverse else List.range n)).bind fun res =>
      (byIndex n res.2).bind fun outs =>
      (opt (cfg.outAxes.expand ((outs.head?.map (fun o => o.1.length)).getD 0))).bind fun outYAxes =>
      (opt (collectOuts stackAt outYAxes (cfg.outAx.map (·.axis)) [] outs)).bind fun out =>
      some (b, res.1, out) := by
  rw [opt_bind, laxScan_opt]
  have hstep : ∀ i ∈ (if cfg.reverse then (List.range n).reverse else List.range n), ∀ s,
      opt ((ScanXs.mk svsF (splitGroups (groupDict rngs (cfg.splitRngs.map (·.1))) (cfg.splitRngs.map (·.2)) dLength)
          asF).at i >>= scanBody (scanned (innerMutable m cfg.outFs) cfg.outFs body) b s) =
        (loopStep cfg (innerMutable m cfg.outFs) body outer rngs inArgAxes args dLength b s i).map
          (fun r => (r.2.1, r.2.2)) := by
    intro i hi s
    rw [scanBody_opt, step_eq cfg m body outer rngs inArgAxes args dLength svsF asF hx ha i
      (by have := mem_order_lt hi; omega)]
  rw [loopRun_congr sameStruct _ hstep]
  cases loopRun (fun st i => (loopStep cfg (innerMutable m cfg.outFs) body outer rngs inArgAxes args dLength
      b st i).map (fun r => (r.2.1, r.2.2))) sameStruct init
      (if cfg.reverse then (List.range n).reverse else List.range n) with
  | none => rfl
  | some res =>
    simp only [Option.bind_some]
    cases byIndex n res.2 with
    | none => rfl
    | some outs =>
      simp only [Option.map_some, Option.bind_some, opt_bind]
      cases cfg.outAxes.expand ((outs.head?.map (fun o => o.1.length)).getD 0) with
      | error e => rfl
      | ok oy =>
        simp only [opt_ok, Option.bind_some]
        rw [collectOuts_opt stackFront stackAt stackFront_opt]
        cases opt (collectOuts stackAt oy (cfg.outAx.map (·.axis)) [] outs) <;> rfl

/-- `axes_scan.scan(…, check_constancy_invariants=False)` on the groups is the explicit loop without the
one-time initialisation of the broadcast collections -/
theorem axesScan_opt_simple (cfg : ScanCfg) (verdict : Bool) (m : LFilter) (body : Body α) (outer : Vars α)
    (rngs : Rngs) (init : List (Arr α)) (args : List (Arr α)) (sizes : List Nat) (dLength : Nat)
    (inArgAxes : List (Option Int))
    (hsizes : argSizes cfg.inAxes args = .ok sizes) (hdl : decideLength cfg.length sizes = .ok dLength)
    (hexp : cfg.inAxes.expand args.length = .ok inArgAxes) :
    opt (axesScan false cfg.length cfg.reverse verdict false (cfg.inAx.map (·.axis)) inArgAxes cfg.outAxes
        (cfg.outAx.map (·.axis)) (scanned (innerMutable m cfg.outFs) cfg.outFs body)
        (roleGroup outer cfg.inFs 0) (roleGroup outer cfg.inFs 1, init)
        (axisGroups outer cfg.inFs cfg.inAx.length)
        (splitGroups (groupDict rngs (cfg.splitRngs.map (·.1))) (cfg.splitRngs.map (·.2)) dLength) args) =
      loopCoreSimple cfg (innerMutable m cfg.outFs) body outer rngs init args inArgAxes dLength := by
  unfold axesScan prepXs loopCoreSimple
  cases hx : mapE groupToFront ((cfg.inAx.map (·.axis)).zip (axisGroups outer cfg.inFs cfg.inAx.length)) with
  | error e =>
    have : loopDims cfg outer rngs inArgAxes args dLength = none := by
      unfold loopDims; rw [groups_front_error _ _ hx]; rfl
    simp [bind, Except.bind, this]
  | ok svsF =>
    cases ha : mapE argToFront (inArgAxes.zip args) with
    | error e =>
      have : loopDims cfg outer rngs inArgAxes args dLength = none := by
        unfold loopDims; rw [args_front_error _ _ ha]
        cases opt (mapE groupDims ((cfg.inAx.map (·.axis)).zip (axisGroups outer cfg.inFs cfg.inAx.length))) <;> rfl
      simp [bind, Except.bind, this]
    | ok asF =>
      have hdims := dims_opt cfg outer rngs inArgAxes args dLength svsF asF hx ha
      simp only [bind, Except.bind, pure, Except.pure, Bool.not_false, if_true]
      unfold axesScanSimple
      by_cases hbc : cfg.outAxes.hasBroadcast = true
      · simp [hbc, throw, throwThe, MonadExceptOf.throw]
      · simp only [hbc, Bool.false_eq_true, if_false]
        cases hd : (ScanXs.mk svsF (splitGroups (groupDict rngs (cfg.splitRngs.map (·.1))) (cfg.splitRngs.map (·.2)) dLength)
            asF).dims with
        | error e =>
          rw [hd] at hdims
          simp only [opt_error] at hdims
          rw [← hdims]
          simp [bind, Except.bind]
        | ok dims =>
          rw [hd] at hdims
          simp only [opt_ok] at hdims
          rw [← hdims]
          simp only [Option.bind_some]
          cases hj : jaxLength cfg.length dims with
          | error e => simp [bind, Except.bind, hj]
          | ok n =>
            simp only [bind, Except.bind, hj, opt_ok, Option.bind_some]
            by_cases hn0 : n = 0
            · simp [hn0, throw, throwThe, MonadExceptOf.throw]
            · simp only [hn0, if_false]
              have hn := n_eq_dLength cfg outer rngs inArgAxes args sizes dLength dims n hsizes hdl hexp
                hdims.symm hj
              exact axesSimple_loop_opt cfg m body outer rngs inArgAxes args dLength svsF asF hx ha n
                (by omega) _ _

/-- **`axes_scan.scan(scanned, …)` on the groups is the explicit loop**, for both values of
`check_constancy_invariants` -/
theorem axesScan_opt (cfg : ScanCfg) (verdict : Bool) (m : LFilter) (body : Body α) (outer : Vars α)
    (rngs : Rngs) (init : List (Arr α)) (args : List (Arr α)) (sizes : List Nat) (dLength : Nat)
    (inArgAxes : List (Option Int))
    (hsizes : argSizes cfg.inAxes args = .ok sizes) (hdl : decideLength cfg.length sizes = .ok dLength)
    (hexp : cfg.inAxes.expand args.length = .ok inArgAxes) :
    opt (axesScan cfg.checkConst cfg.length cfg.reverse verdict false (cfg.inAx.map (·.axis)) inArgAxes cfg.outAxes
        (cfg.outAx.map (·.axis)) (scanned (innerMutable m cfg.outFs) cfg.outFs body)
        (roleGroup outer cfg.inFs 0) (roleGroup outer cfg.inFs 1, init)
        (axisGroups outer cfg.inFs cfg.inAx.length)
        (splitGroups (groupDict rngs (cfg.splitRngs.map (·.1))) (cfg.splitRngs.map (·.2)) dLength) args) =
      loopCore cfg verdict (innerMutable m cfg.outFs) body outer rngs init args inArgAxes dLength := by
  unfold loopCore
  cases hcc : cfg.checkConst with
  | true =>
    simp only [if_true]
    exact axesScan_opt_checked cfg verdict m body outer rngs init args sizes dLength inArgAxes hsizes hdl hexp
  | false =>
    simp only [Bool.false_eq_true, if_false]
    exact axesScan_opt_simple cfg verdict m body outer rngs init args sizes dLength inArgAxes hsizes hdl hexp

/-- **`lift.scan` is the explicit loop** (success and result; which error is raised is not compared) -/
theorem liftScan_opt (cfg : ScanCfg) (verdict : Bool) (body : Body α) (scopeMut : LFilter) (outer : Vars α)
    (rngs : Rngs) (init : List (Arr α)) (args : List (Arr α)) :
    opt (liftScan cfg verdict body scopeMut outer rngs init args) =
      loopSpec cfg verdict body scopeMut outer rngs init args := by
  unfold liftScan liftScanCore loopSpec
  simp only [bind, Except.bind]
  cases hsizes : argSizes cfg.inAxes args with
  | error e => simp
  | ok sizes =>
    simp only [opt_ok, Option.bind_some]
    cases hdl : decideLength cfg.length sizes with
    | error e => simp
    | ok dLength =>
      simp only [opt_ok, Option.bind_some]
      cases hexp : cfg.inAxes.expand args.length with
      | error e => simp
      | ok inArgAxes =>
        have h0 : (groupDict outer cfg.inFs).getD 0 [] = roleGroup outer cfg.inFs 0 :=
          groupDict_getD _ _ 0 (by simp [ScanCfg.inFs])
        have h1 : (groupDict outer cfg.inFs).getD 1 [] = roleGroup outer cfg.inFs 1 :=
          groupDict_getD _ _ 1 (by simp [ScanCfg.inFs])
        have h2 : (groupDict outer cfg.inFs).drop 2 = axisGroups outer cfg.inFs cfg.inAx.length := by
          have := groups_drop2 outer cfg.bcast cfg.carry (cfg.inAx.map (·.filter))
          simpa [ScanCfg.inFs] using this
        simp only [opt_ok, Option.bind_some, h0, h1, h2]
        have hmain := axesScan_opt cfg verdict scopeMut body outer rngs init args sizes dLength inArgAxes
          hsizes hdl hexp
        rw [← hmain]
        cases axesScan cfg.checkConst cfg.length cfg.reverse verdict false (cfg.inAx.map (·.axis)) inArgAxes cfg.outAxes
            (cfg.outAx.map (·.axis)) (scanned (innerMutable scopeMut cfg.outFs) cfg.outFs body)
            (roleGroup outer cfg.inFs 0) (roleGroup outer cfg.inFs 1, init)
            (axisGroups outer cfg.inFs cfg.inAx.length)
            (splitGroups (groupDict rngs (cfg.splitRngs.map (·.1))) (cfg.splitRngs.map (·.2)) dLength) args with
        | error e => rfl
        | ok r => rfl

end Flax.LiftLoop
