/-
C04 helper lemmas (6): `flatten` is a canonical form.  Heaps related by an injective address map (objects as
maps, distinct attribute keys) flatten to the SAME graphdef and the SAME leaves, with `ref_index`es related by
the map.  Consequence: the pure value the traced function returns is the flattening of the eager result.
Also: the definitions emitted by `flatten` carry consecutive indices, so equality of stamped graphdefs pins the
stamp table.
-/
import Flax.Proofs.NnxJit

namespace Flax.Nnx
open Flax.Heap Flax.Graph

/-! ### from maps back to sorted lists (needs distinct keys) -/

theorem lookupKV_none_of_notin {k : Key} : ∀ {l : List (Key × PVal)}, (∀ kv ∈ l, kv.1 ≠ k) → lookupKV k l = Option.none
  | [], _ => rfl
  | (k0, v0) :: rest, h => by
    have h0 : k0 ≠ k := h (k0, v0) (by simp)
    simp only [lookupKV, h0, if_false]
    exact lookupKV_none_of_notin (fun kv hkv => h kv (List.mem_cons_of_mem _ hkv))

/-- two strictly sorted attribute lists that agree as maps agree entry by entry -/
theorem kvsRel_of_sorted {φ : Addr → Option Addr} : ∀ {L L' : List (Key × PVal)}, SSorted Key.lt L → SSorted Key.lt L' →
    (∀ k, OptRel φ (lookupKV k L) (lookupKV k L')) → KVsRel φ L L'
  | [], [], _, _, _ => .nil
  | [], (k', v') :: T', _, _, h => by
    rcases h k' with ⟨_, h2⟩ | ⟨v, w, h1, _, _⟩
    · simp [lookupKV] at h2
    · simp [lookupKV] at h1
  | (k, v) :: T, [], _, _, h => by
    rcases h k with ⟨h1, _⟩ | ⟨v0, w, _, h2, _⟩
    · simp [lookupKV] at h1
    · simp [lookupKV] at h2
  | (k, v) :: T, (k', v') :: T', s1, s2, h => by
    have s1' := List.pairwise_cons.mp s1
    have s2' := List.pairwise_cons.mp s2
    have hT : ∀ kv ∈ T, kv.1 ≠ k := fun kv hkv e => by
      have := s1'.1 kv hkv; simp only at this; rw [e, Key.lt_irrefl] at this; cases this
    have hT' : ∀ kv ∈ T', kv.1 ≠ k' := fun kv hkv e => by
      have := s2'.1 kv hkv; simp only at this; rw [e, Key.lt_irrefl] at this; cases this
    have hkk : k = k' := by
      by_cases e : k = k'
      · exact e
      · exfalso
        rcases Key.lt_total e with hlt | hlt
        · -- k < k' ≤ every key of L': k is missing on the right
          have hnone : lookupKV k ((k', v') :: T') = Option.none :=
            lookupKV_none_of_notin (fun kv hkv => by
              rcases List.mem_cons.mp hkv with e1 | h1
              · subst e1; exact fun e2 => e e2.symm
              · intro e2
                have h2 := s2'.1 kv h1
                simp only at h2
                rw [e2] at h2
                have := Key.lt_trans hlt h2
                rw [Key.lt_irrefl] at this; cases this)
          rcases h k with ⟨h1, _⟩ | ⟨_, w, _, h2, _⟩
          · simp [lookupKV] at h1
          · rw [hnone] at h2; cases h2
        · have hnone : lookupKV k' ((k, v) :: T) = Option.none :=
            lookupKV_none_of_notin (fun kv hkv => by
              rcases List.mem_cons.mp hkv with e1 | h1
              · subst e1; exact e
              · intro e2
                have h2 := s1'.1 kv h1
                simp only at h2
                rw [e2] at h2
                have := Key.lt_trans hlt h2
                rw [Key.lt_irrefl] at this; cases this)
          rcases h k' with ⟨_, h2⟩ | ⟨v0, _, h1, _, _⟩
          · simp [lookupKV] at h2
          · rw [hnone] at h1; cases h1
    subst hkk
    have hv : ValRel φ v v' := by
      rcases h k with ⟨h1, _⟩ | ⟨v0, w, h1, h2, hr⟩
      · simp [lookupKV] at h1
      · simp [lookupKV] at h1 h2; subst h1; subst h2; exact hr
    refine .cons hv (kvsRel_of_sorted s1'.2 s2'.2 (fun k0 => ?_))
    by_cases e : k = k0
    · subst e
      rw [lookupKV_none_of_notin hT, lookupKV_none_of_notin hT']
      exact Or.inl ⟨rfl, rfl⟩
    · have := h k0
      simpa [lookupKV, e] using this

theorem attrsSim_sorted {φ : Addr → Option Addr} {A A' : List (Key × PVal)} (h : AttrsSim φ A A')
    (n : keysNodup A) (n' : keysNodup A') : KVsRel φ (sortKV A) (sortKV A') :=
  kvsRel_of_sorted (sortKV_ssorted n) (sortKV_ssorted n') (fun k => by
    rw [lookupKV_sortKV, lookupKV_sortKV]; exact h k)

theorem enum_kvsRel {φ : Addr → Option Addr} : ∀ {xs ys : List PVal} (n : Nat), ValsRel φ xs ys →
    KVsRel φ (enumFrom n xs) (enumFrom n ys)
  | _, _, _, .nil => .nil
  | _, _, n, .cons hv ht => .cons hv (enum_kvsRel (n + 1) ht)

/-! ### related `ref_index`es -/

/-- the two `ref_index`es register corresponding objects at the same positions -/
inductive IdxRel (φ : Addr → Option Addr) : RefIndex → RefIndex → Prop where
  | nil : IdxRel φ [] []
  | cons {a b : Nat} {idx idx' : RefIndex} : φ a = some b → IdxRel φ idx idx' → IdxRel φ (a :: idx) (b :: idx')

theorem idxRel_indexOf {φ : Addr → Option Addr} (inj : ∀ (a b c : Nat), φ a = some c → φ b = some c → a = b) {a b : Nat}
    (hab : φ a = some b) : ∀ {idx idx' : RefIndex}, IdxRel φ idx idx' → indexOf? a idx = indexOf? b idx'
  | _, _, .nil => rfl
  | _, _, .cons (a := a0) (b := b0) h0 ht => by
    simp only [indexOf?]
    by_cases e : a0 = a
    · subst e
      have : b0 = b := by rw [hab] at h0; exact (Option.some.inj h0).symm
      simp [this]
    · have : b0 ≠ b := fun eb => e (inj a0 a b (eb ▸ h0) hab)
      simp only [e, this, if_false]
      rw [idxRel_indexOf inj hab ht]

theorem idxRel_length {φ : Addr → Option Addr} : ∀ {idx idx' : RefIndex}, IdxRel φ idx idx' → idx.length = idx'.length
  | _, _, .nil => rfl
  | _, _, .cons _ ht => by simp [idxRel_length ht]

theorem idxRel_snoc {φ : Addr → Option Addr} {a b : Nat} (hab : φ a = some b) : ∀ {idx idx' : RefIndex},
    IdxRel φ idx idx' → IdxRel φ (idx ++ [a]) (idx' ++ [b])
  | _, _, .nil => .cons hab .nil
  | _, _, .cons h0 ht => .cons h0 (idxRel_snoc hab ht)

theorem idxRel_get {φ : Addr → Option Addr} : ∀ {idx idx' : RefIndex}, IdxRel φ idx idx' → ∀ (i : Nat) (a : Nat),
    idx[i]? = some a → ∃ (b : Nat), idx'[i]? = some b ∧ φ a = some b
  | _, _, .nil, i, a, h => by simp at h
  | _, _, .cons (b := b0) h0 ht, i, a, h => by
    cases i with
    | zero => simp at h; subst h; exact ⟨b0, by simp, h0⟩
    | succ i => simp at h; simpa using idxRel_get ht i a h

/-! ### flatten of related heaps -/

/-- **canonical form**: if the inner heap flattens, the related caller-side heap flattens to the same graphdef and the
same leaves, registering the corresponding objects in the same order -/
theorem flatten_iso {φ : Addr → Option Addr} {h G : Heap} (R : Rel φ h G) (nh : AttrsNodup h) (nG : AttrsNodup G) :
    ∀ fuel : Nat,
    (∀ path v v' idx idx' gd ls idx1', ValRel φ v v' → IdxRel φ idx idx' →
      flattenVal fuel G path v' idx' = .ok (gd, ls, idx1') →
        ∃ idx1, flattenVal fuel h path v idx = .ok (gd, ls, idx1) ∧ IdxRel φ idx1 idx1') ∧
    (∀ path items items' idx idx' gs ls idx1', KVsRel φ items items' → IdxRel φ idx idx' →
      flattenItems fuel G path items' idx' = .ok (gs, ls, idx1') →
        ∃ idx1, flattenItems fuel h path items idx = .ok (gs, ls, idx1) ∧ IdxRel φ idx1 idx1') := by
  intro fuel
  induction fuel with
  | zero =>
    constructor
    · intro path v v' idx idx' gd ls idx1' _ _ hh; simp [flattenVal] at hh
    · intro path items items' idx idx' gs ls idx1' _ _ hh; simp [flattenItems] at hh
  | succ fuel ih =>
    constructor
    · intro path v v' idx idx' gd ls idx1' hv hi hh
      cases hv with
      | static s =>
        simp [flattenVal] at hh; obtain ⟨rfl, rfl, rfl⟩ := hh; exact ⟨idx, by simp [flattenVal], hi⟩
      | array d =>
        simp [flattenVal] at hh; obtain ⟨rfl, rfl, rfl⟩ := hh; exact ⟨idx, by simp [flattenVal], hi⟩
      | none =>
        simp [flattenVal] at hh; obtain ⟨rfl, rfl, rfl⟩ := hh; exact ⟨idx, by simp [flattenVal], hi⟩
      | seq hs =>
        rename_i t xs ys
        simp only [flattenVal] at hh ⊢
        split at hh
        · cases hh
        · next as ls1 idx1 heq =>
          simp at hh; obtain ⟨rfl, rfl, rfl⟩ := hh
          obtain ⟨idx1h, he, hr⟩ := ih.2 path _ _ idx idx' as ls1 idx1 (enum_kvsRel 0 hs) hi heq
          exact ⟨idx1h, by simp [he], hr⟩
      | dict hd =>
        rename_i kvs kvs'
        simp only [flattenVal] at hh ⊢
        split at hh
        · cases hh
        · next as ls1 idx1 heq =>
          simp at hh; obtain ⟨rfl, rfl, rfl⟩ := hh
          obtain ⟨idx1h, he, hr⟩ := ih.2 path _ _ idx idx' as ls1 idx1 hd hi heq
          exact ⟨idx1h, by simp [he], hr⟩
      | ref hab =>
        rename_i a b
        obtain ⟨o, o', g1, g2, g3⟩ := R.obj a b hab
        have htn : typeName h a = typeName G b := by
          unfold typeName; rw [g1, g2]
          cases g3 <;> rfl
        simp only [flattenVal] at hh ⊢
        rw [idxRel_indexOf R.inj hab hi]
        cases hidx : indexOf? b idx' with
        | some i =>
          simp only [hidx] at hh ⊢
          simp at hh; obtain ⟨rfl, rfl, rfl⟩ := hh
          exact ⟨idx, by simp [htn], hi⟩
        | none =>
          simp only [hidx, g2] at hh
          simp only [g1]
          cases g3 with
          | var ty val md =>
            simp at hh; obtain ⟨rfl, rfl, rfl⟩ := hh
            exact ⟨idx ++ [a], by simp [idxRel_length hi], idxRel_snoc hab hi⟩
          | node hA =>
            rename_i cls A A'
            simp only at hh ⊢
            split at hh
            · cases hh
            · next as ls1 idx1 heq =>
              simp at hh; obtain ⟨rfl, rfl, rfl⟩ := hh
              have hk := attrsSim_sorted hA (nh a cls A g1) (nG b cls A' g2)
              obtain ⟨idx1h, he, hr⟩ := ih.2 path _ _ (idx ++ [a]) (idx' ++ [b]) as ls1 idx1 hk (idxRel_snoc hab hi) heq
              exact ⟨idx1h, by simp [he, idxRel_length hi], hr⟩
    · intro path items items' idx idx' gs ls idx1' hk hi hh
      cases hk with
      | nil =>
        simp [flattenItems] at hh; obtain ⟨rfl, rfl, rfl⟩ := hh; exact ⟨idx, by simp [flattenItems], hi⟩
      | cons hv ht =>
        rename_i k v w r r'
        simp only [flattenItems] at hh ⊢
        split at hh
        · cases hh
        · next g1 ls1 idx1 heq1 =>
          split at hh
          · cases hh
          · next gs2 ls2 idx2 heq2 =>
            simp at hh; obtain ⟨rfl, rfl, rfl⟩ := hh
            obtain ⟨i1, e1, r1⟩ := ih.1 _ v w idx idx' g1 ls1 idx1 hv hi heq1
            obtain ⟨i2, e2, r2⟩ := ih.2 path r r' i1 idx1 gs2 ls2 idx2 ht r1 heq2
            exact ⟨i2, by simp [e1, e2], r2⟩

theorem flatRoots_iso {φ : Addr → Option Addr} {h G : Heap} (R : Rel φ h G) (nh : AttrsNodup h) (nG : AttrsNodup G) :
    ∀ {vs' : List PVal} {idx' : RefIndex} {gds fss idx1'}, FlatRoots G vs' idx' gds fss idx1' →
      ∀ {vs : List PVal} {idx : RefIndex}, ValsRel φ vs vs' → IdxRel φ idx idx' →
        ∃ idx1, FlatRoots h vs idx gds fss idx1 ∧ IdxRel φ idx1 idx1'
  | _, _, _, _, _, .nil _, _, _, hv, hi => by
    cases hv; exact ⟨_, .nil _, hi⟩
  | _, _, _, _, _, .cons heq ht, _, _, hv, hi => by
    cases hv with
    | cons hv1 hvt =>
      obtain ⟨i1, e1, r1⟩ := (flatten_iso R nh nG _).1 [] _ _ _ _ _ _ _ hv1 hi heq
      obtain ⟨i2, e2, r2⟩ := flatRoots_iso R nh nG ht hvt r1
      exact ⟨i2, .cons e1 e2, r2⟩

/-! ### stamps -/

mutual
  theorem erase_stamp (tbl : Nat → Option Nat) : ∀ (g : GDef), (stampWith tbl g).erase = g
    | .ref ty i => rfl
    | .var ty i md => rfl
    | .node kind idx attrs => by simp only [stampWith, ODef.erase, eraseAttrs_stamp tbl attrs]
    | .static s => rfl
    | .array => rfl
  theorem eraseAttrs_stamp (tbl : Nat → Option Nat) : ∀ (l : List (Key × GDef)), ODef.eraseAttrs (stampAttrs tbl l) = l
    | [] => rfl
    | (k, g) :: rest => by simp only [stampAttrs, ODef.eraseAttrs, erase_stamp tbl g, eraseAttrs_stamp tbl rest]
end

theorem stamp_inj_defs {t t' : Nat → Option Nat} {gds gds' : List GDef}
    (h : gds.map (stampWith t) = gds'.map (stampWith t')) : gds = gds' := by
  have := congrArg (List.map ODef.erase) h
  simpa [List.map_map, Function.comp_def, erase_stamp] using this

mutual
  /-- the indices of the definitions (Variables and graph nodes) of a graphdef, in emission order -/
  def defIdx : GDef → List Nat
    | .var _ i _ => [i]
    | .node _ idx attrs => (match idx with | some i => [i] | Option.none => []) ++ defIdxAttrs attrs
    | _ => []
  def defIdxAttrs : List (Key × GDef) → List Nat
    | [] => []
    | (_, g) :: rest => defIdx g ++ defIdxAttrs rest
end

mutual
  /-- equal stamped graphdefs pin the stamp tables on every definition -/
  theorem stamp_eq_on {t t' : Nat → Option Nat} : ∀ (g : GDef), stampWith t g = stampWith t' g → ∀ i ∈ defIdx g, t i = t' i
    | .ref ty i, _, j, hj => by simp [defIdx] at hj
    | .static s, _, j, hj => by simp [defIdx] at hj
    | .array, _, j, hj => by simp [defIdx] at hj
    | .var ty i md, h, j, hj => by
      simp [defIdx] at hj; subst hj
      simp only [stampWith] at h
      injection h
    | .node kind idx attrs, h, j, hj => by
      simp only [stampWith] at h
      injection h with _ _ h3 h4
      simp only [defIdx, List.mem_append] at hj
      rcases hj with hj | hj
      · cases idx with
        | none => simp at hj
        | some i => simp at hj; subst hj; simpa using h3
      · exact stampAttrs_eq_on attrs h4 j hj
  theorem stampAttrs_eq_on {t t' : Nat → Option Nat} : ∀ (l : List (Key × GDef)), stampAttrs t l = stampAttrs t' l →
      ∀ i ∈ defIdxAttrs l, t i = t' i
    | [], _, j, hj => by simp [defIdxAttrs] at hj
    | (k, g) :: rest, h, j, hj => by
      simp only [stampAttrs] at h
      injection h with h1 h2
      injection h1 with _ h1'
      simp only [defIdxAttrs, List.mem_append] at hj
      rcases hj with hj | hj
      · exact stamp_eq_on g h1' j hj
      · exact stampAttrs_eq_on rest h2 j hj
end

/-- **`flatten` emits one definition per newly registered object, with consecutive indices** -/
theorem flatten_defIdx (g : Heap) : ∀ fuel : Nat,
    (∀ path v idx gd ls idx', flattenVal fuel g path v idx = .ok (gd, ls, idx') →
      idx.length ≤ idx'.length ∧ defIdx gd = List.range' idx.length (idx'.length - idx.length)) ∧
    (∀ path items idx gs ls idx', flattenItems fuel g path items idx = .ok (gs, ls, idx') →
      idx.length ≤ idx'.length ∧ defIdxAttrs gs = List.range' idx.length (idx'.length - idx.length)) := by
  intro fuel
  induction fuel with
  | zero =>
    constructor
    · intro path v idx gd ls idx' hh; simp [flattenVal] at hh
    · intro path items idx gs ls idx' hh; simp [flattenItems] at hh
  | succ fuel ih =>
    constructor
    · intro path v idx gd ls idx' hh
      cases v with
      | static s => simp [flattenVal] at hh; obtain ⟨rfl, _, rfl⟩ := hh; simp [defIdx]
      | array d => simp [flattenVal] at hh; obtain ⟨rfl, _, rfl⟩ := hh; simp [defIdx]
      | none => simp [flattenVal] at hh; obtain ⟨rfl, _, rfl⟩ := hh; simp [defIdx, defIdxAttrs]
      | seq t xs =>
        simp only [flattenVal] at hh
        split at hh
        · cases hh
        · next as ls1 idx1 heq =>
          simp at hh; obtain ⟨rfl, _, rfl⟩ := hh
          have := ih.2 _ _ _ _ _ _ heq
          simpa [defIdx] using this
      | dict kvs =>
        simp only [flattenVal] at hh
        split at hh
        · cases hh
        · next as ls1 idx1 heq =>
          simp at hh; obtain ⟨rfl, _, rfl⟩ := hh
          have := ih.2 _ _ _ _ _ _ heq
          simpa [defIdx] using this
      | ref a =>
        simp only [flattenVal] at hh
        split at hh
        · simp at hh; obtain ⟨rfl, _, rfl⟩ := hh; simp [defIdx]
        · split at hh
          · cases hh
          · simp at hh; obtain ⟨rfl, _, rfl⟩ := hh; simp [defIdx]
          · split at hh
            · cases hh
            · next as ls1 idx1 heq =>
              simp at hh; obtain ⟨rfl, _, rfl⟩ := hh
              obtain ⟨h1, h2⟩ := ih.2 _ _ _ _ _ _ heq
              simp only [List.length_append, List.length_singleton] at h1 h2
              refine ⟨by omega, ?_⟩
              simp only [defIdx, h2]
              have : idx1.length - idx.length = (idx1.length - (idx.length + 1)) + 1 := by omega
              rw [this, List.range'_succ]
              simp
    · intro path items idx gs ls idx' hh
      cases items with
      | nil => simp [flattenItems] at hh; obtain ⟨rfl, _, rfl⟩ := hh; simp [defIdxAttrs]
      | cons kv rest =>
        obtain ⟨k, v⟩ := kv
        simp only [flattenItems] at hh
        split at hh
        · cases hh
        · next g1 ls1 idx1 heq1 =>
          split at hh
          · cases hh
          · next gs2 ls2 idx2 heq2 =>
            simp at hh; obtain ⟨rfl, _, rfl⟩ := hh
            obtain ⟨a1, a2⟩ := ih.1 _ _ _ _ _ _ heq1
            obtain ⟨b1, b2⟩ := ih.2 _ _ _ _ _ _ heq2
            obtain ⟨m, hm⟩ : ∃ m, idx1.length = idx.length + m := ⟨idx1.length - idx.length, by omega⟩
            obtain ⟨n, hn⟩ : ∃ n, idx2.length = idx1.length + n := ⟨idx2.length - idx1.length, by omega⟩
            refine ⟨by omega, ?_⟩
            simp only [defIdxAttrs, a2, b2, hn, hm]
            have e1 : idx.length + m - idx.length = m := by omega
            have e2 : idx.length + m + n - (idx.length + m) = n := by omega
            have e3 : idx.length + m + n - idx.length = m + n := by omega
            rw [e1, e2, e3, List.range'_append_1]

/-- all definitions of a tuple of roots -/
def defIdxRoots : List GDef → List Nat
  | [] => []
  | g :: gs => defIdx g ++ defIdxRoots gs

theorem flatRoots_defIdx {g : Heap} : ∀ {vs : List PVal} {idx : RefIndex} {gds fss idx'}, FlatRoots g vs idx gds fss idx' →
    idx.length ≤ idx'.length ∧ defIdxRoots gds = List.range' idx.length (idx'.length - idx.length)
  | _, _, _, _, _, .nil _ => by simp [defIdxRoots]
  | _, _, _, _, _, .cons (idx := idx) (idx1 := idx1) (idx2 := idx2) heq ht => by
    obtain ⟨a1, a2⟩ := (flatten_defIdx g _).1 _ _ _ _ _ _ heq
    obtain ⟨b1, b2⟩ := flatRoots_defIdx ht
    obtain ⟨m, hm⟩ : ∃ m, idx1.length = idx.length + m := ⟨idx1.length - idx.length, by omega⟩
    obtain ⟨n, hn⟩ : ∃ n, idx2.length = idx1.length + n := ⟨idx2.length - idx1.length, by omega⟩
    refine ⟨by omega, ?_⟩
    simp only [defIdxRoots, a2, b2, hn, hm]
    have e1 : idx.length + m - idx.length = m := by omega
    have e2 : idx.length + m + n - (idx.length + m) = n := by omega
    have e3 : idx.length + m + n - idx.length = m + n := by omega
    rw [e1, e2, e3, List.range'_append_1]

theorem stampRoots_eq_on {t t' : Nat → Option Nat} : ∀ (gds : List GDef), gds.map (stampWith t) = gds.map (stampWith t') →
    ∀ i ∈ defIdxRoots gds, t i = t' i
  | [], _, j, hj => by simp [defIdxRoots] at hj
  | g :: gs, h, j, hj => by
    simp only [List.map_cons] at h
    injection h with h1 h2
    simp only [defIdxRoots, List.mem_append] at hj
    rcases hj with hj | hj
    · exact stamp_eq_on g h1 j hj
    · exact stampRoots_eq_on gs h2 j hj

end Flax.Nnx
