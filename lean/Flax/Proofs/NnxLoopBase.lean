/- helper lemmas for the NNX loop model (C08): Except plumbing, `mapX`, association-list lookups -/
import Flax.Model.NnxLoop
import Flax.Proofs.LiftLoopMonad

namespace Flax.NnxLoop
open Flax.Filter Flax.LiftLoop

/-- forget which error -/
def optX {β : Type} (x : Except Err β) : Option β :=
  match x with
  | .ok v => some v
  | .error _ => none

@[simp] theorem optX_ok {β : Type} (v : β) : optX (Except.ok v : Except Err β) = some v := rfl
@[simp] theorem optX_error {β : Type} (e : Err) : optX (Except.error e : Except Err β) = none := rfl

theorem optX_eq_some {β : Type} {x : Except Err β} {v : β} : optX x = some v ↔ x = .ok v := by
  cases x <;> simp [optX]

theorem optX_liftL {β : Type} (x : Except LErr β) : optX (liftL x) = opt x := by
  cases x <;> rfl

theorem liftL_ok {β : Type} {x : Except LErr β} {v : β} : liftL x = .ok v ↔ x = .ok v := by
  cases x <;> simp [liftL]

/-! ### mapX -/

theorem mapX_cons_ok {β γ : Type} {f : β → Except Err γ} {x : β} {xs : List β} {r : List γ}
    (h : mapX f (x :: xs) = .ok r) : ∃ y ys, f x = .ok y ∧ mapX f xs = .ok ys ∧ r = y :: ys := by
  simp only [mapX] at h
  cases hx : f x with
  | error e => rw [hx] at h; cases h
  | ok y =>
    rw [hx] at h
    cases hr : mapX f xs with
    | error e => rw [hr] at h; cases h
    | ok ys =>
      rw [hr] at h
      injection h with h
      exact ⟨y, ys, rfl, rfl, h.symm⟩

theorem mapX_cons_of_ok {β γ : Type} {f : β → Except Err γ} {x : β} {xs : List β} {y : γ} {ys : List γ}
    (hx : f x = .ok y) (hr : mapX f xs = .ok ys) : mapX f (x :: xs) = .ok (y :: ys) := by
  simp only [mapX, hx, hr]

theorem mapX_length {β γ : Type} {f : β → Except Err γ} : ∀ {l : List β} {r : List γ},
    mapX f l = .ok r → r.length = l.length := by
  intro l
  induction l with
  | nil => intro r h; simp [mapX] at h; subst h; rfl
  | cons x xs ih =>
    intro r h
    obtain ⟨y, ys, _, hr, rfl⟩ := mapX_cons_ok h
    simp [ih hr]

/-- a successful `mapX`: every element succeeded, and the results are position by position those of `f` -/
theorem mapX_ok_getElem {β γ : Type} {f : β → Except Err γ} : ∀ {l : List β} {r : List γ},
    mapX f l = .ok r → ∀ i (h1 : i < l.length) (h2 : i < r.length), f l[i] = .ok r[i] := by
  intro l
  induction l with
  | nil => intro r _ i h1; simp at h1
  | cons x xs ih =>
    intro r h i h1 h2
    obtain ⟨y, ys, hx, hr, rfl⟩ := mapX_cons_ok h
    cases i with
    | zero => simpa using hx
    | succ i => simpa using ih hr i (by simpa using h1) (by simpa using h2)

theorem mapX_ok_mem {β γ : Type} {f : β → Except Err γ} {l : List β} {r : List γ}
    (h : mapX f l = .ok r) : ∀ x ∈ l, ∃ y, f x = .ok y ∧ y ∈ r := by
  intro x hx
  obtain ⟨i, hi, rfl⟩ := List.getElem_of_mem hx
  have hl := mapX_length h
  exact ⟨r[i]'(by omega), mapX_ok_getElem h i hi (by omega), List.getElem_mem _⟩

theorem mapX_ok_mem_rev {β γ : Type} {f : β → Except Err γ} {l : List β} {r : List γ}
    (h : mapX f l = .ok r) : ∀ y ∈ r, ∃ x ∈ l, f x = .ok y := by
  intro y hy
  obtain ⟨i, hi, rfl⟩ := List.getElem_of_mem hy
  have hl := mapX_length h
  exact ⟨l[i]'(by omega), List.getElem_mem _, mapX_ok_getElem h i (by omega) hi⟩

/-- when every element succeeds with `g`, the result is `l.map g` -/
theorem mapX_eq_map {β γ : Type} {f : β → Except Err γ} {g : β → γ} : ∀ (l : List β),
    (∀ x ∈ l, f x = .ok (g x)) → mapX f l = .ok (l.map g) := by
  intro l
  induction l with
  | nil => intro _; rfl
  | cons x xs ih =>
    intro h
    exact mapX_cons_of_ok (h x (by simp)) (ih (fun y hy => h y (by simp [hy])))

/-- a successful `mapX` is a `map` with any function that agrees with `f` where `f` succeeds -/
theorem mapX_ok_eq_map {β γ : Type} {f : β → Except Err γ} {g : β → γ} : ∀ {l : List β} {r : List γ},
    mapX f l = .ok r → (∀ x ∈ l, ∀ y, f x = .ok y → y = g x) → r = l.map g := by
  intro l
  induction l with
  | nil => intro r h _; simp [mapX] at h; subst h; rfl
  | cons x xs ih =>
    intro r h hg
    obtain ⟨y, ys, hx, hr, rfl⟩ := mapX_cons_ok h
    rw [List.map_cons, hg x (by simp) y hx, ih hr (fun z hz => hg z (by simp [hz]))]

theorem mapX_congr {β γ : Type} {f g : β → Except Err γ} : ∀ (l : List β), (∀ x ∈ l, f x = g x) →
    mapX f l = mapX g l := by
  intro l
  induction l with
  | nil => intro _; rfl
  | cons x xs ih =>
    intro h
    simp only [mapX, h x (by simp), ih (fun y hy => h y (by simp [hy]))]

theorem mapX_map {β γ δ : Type} (f : γ → Except Err δ) (g : β → γ) : ∀ (l : List β),
    mapX f (l.map g) = mapX (fun x => f (g x)) l := by
  intro l
  induction l with
  | nil => rfl
  | cons x xs ih => simp only [List.map_cons, mapX, ih]

theorem mapX_append_ok {β γ : Type} {f : β → Except Err γ} : ∀ {l1 l2 : List β} {r : List γ},
    mapX f (l1 ++ l2) = .ok r → ∃ r1 r2, mapX f l1 = .ok r1 ∧ mapX f l2 = .ok r2 ∧ r = r1 ++ r2 := by
  intro l1
  induction l1 with
  | nil => intro l2 r h; exact ⟨[], r, rfl, by simpa using h, rfl⟩
  | cons x xs ih =>
    intro l2 r h
    obtain ⟨y, ys, hx, hr, rfl⟩ := mapX_cons_ok (by simpa using h)
    obtain ⟨r1, r2, h1, h2, rfl⟩ := ih hr
    exact ⟨y :: r1, r2, mapX_cons_of_ok hx h1, h2, rfl⟩

/-! ### foldX -/

theorem foldX_cons_ok {β σ : Type} {f : σ → β → Except Err σ} {s r : σ} {x : β} {xs : List β}
    (h : foldX f s (x :: xs) = .ok r) : ∃ s', f s x = .ok s' ∧ foldX f s' xs = .ok r := by
  simp only [foldX] at h
  cases hx : f s x with
  | error e => rw [hx] at h; cases h
  | ok s' => rw [hx] at h; exact ⟨s', rfl, h⟩

/-! ### association lists -/

/-- a key whose every occurrence carries the same value is looked up to that value -/
theorem lookup_of_mem_unique {κ ν : Type} [BEq κ] [LawfulBEq κ] {k : κ} {v : ν} : ∀ {l : List (κ × ν)},
    (k, v) ∈ l → (∀ v', (k, v') ∈ l → v' = v) → l.lookup k = some v := by
  intro l
  induction l with
  | nil => intro h; cases h
  | cons kv rest ih =>
    intro hm hu
    obtain ⟨k', v'⟩ := kv
    by_cases hk : k = k'
    · subst hk
      have : v' = v := hu v' (by simp)
      simp [List.lookup, this]
    · have hne : (k == k') = false := by simpa using hk
      simp only [List.lookup, hne]
      apply ih
      · rcases List.mem_cons.1 hm with h | h
        · injection h with h1 _; exact absurd h1 hk
        · exact h
      · intro v'' h; exact hu v'' (List.mem_cons_of_mem _ h)

theorem lookup_some_mem {κ ν : Type} [BEq κ] [LawfulBEq κ] {k : κ} {v : ν} : ∀ {l : List (κ × ν)},
    l.lookup k = some v → (k, v) ∈ l := by
  intro l
  induction l with
  | nil => intro h; cases h
  | cons kv rest ih =>
    intro h
    obtain ⟨k', v'⟩ := kv
    by_cases hk : k = k'
    · subst hk
      simp [List.lookup] at h
      subst h
      simp
    · have hne : (k == k') = false := by simpa using hk
      simp only [List.lookup, hne] at h
      exact List.mem_cons_of_mem _ (ih h)

/-- keys with distinct first components: membership determines the value -/
theorem nodup_keys_unique {κ ν : Type} {k : κ} {v v' : ν} : ∀ {l : List (κ × ν)},
    (l.map (·.1)).Nodup → (k, v) ∈ l → (k, v') ∈ l → v = v' := by
  intro l
  induction l with
  | nil => intro _ h; cases h
  | cons kv rest ih =>
    intro hnd h1 h2
    simp only [List.map_cons, List.nodup_cons] at hnd
    rcases List.mem_cons.1 h1 with e1 | e1 <;> rcases List.mem_cons.1 h2 with e2 | e2
    · rw [← e1] at e2; injection e2 with _ h; exact h.symm
    · exfalso; apply hnd.1; rw [← e1]; exact List.mem_map.2 ⟨(k, v'), e2, rfl⟩
    · exfalso; apply hnd.1; rw [← e2]; exact List.mem_map.2 ⟨(k, v), e1, rfl⟩
    · exact ih hnd.2 e1 e2

theorem lookup_append_of_isSome {κ ν : Type} [BEq κ] {k : κ} {l1 l2 : List (κ × ν)}
    (h : (l1.lookup k).isSome) : (l1 ++ l2).lookup k = l1.lookup k := by
  induction l1 with
  | nil => simp at h
  | cons kv rest ih =>
    obtain ⟨k', v'⟩ := kv
    simp only [List.cons_append, List.lookup]
    cases hk : k == k' with
    | true => rfl
    | false =>
      simp only [List.lookup, hk] at h
      exact ih h

theorem lookup_isSome_of_mem_keys {κ ν : Type} [BEq κ] [LawfulBEq κ] {k : κ} : ∀ {l : List (κ × ν)},
    k ∈ l.map (·.1) → (l.lookup k).isSome := by
  intro l
  induction l with
  | nil => intro h; cases h
  | cons kv rest ih =>
    intro h
    obtain ⟨k', v'⟩ := kv
    by_cases hk : k = k'
    · subst hk; simp [List.lookup]
    · have hne : (k == k') = false := by simpa using hk
      simp only [List.lookup, hne]
      apply ih
      simp only [List.map_cons, List.mem_cons] at h
      rcases h with h | h
      · exact absurd h hk
      · exact h

theorem mem_keys_of_lookup_isSome {κ ν : Type} [BEq κ] [LawfulBEq κ] {k : κ} {l : List (κ × ν)}
    (h : (l.lookup k).isSome) : k ∈ l.map (·.1) := by
  cases hv : l.lookup k with
  | none => simp [hv] at h
  | some v => exact List.mem_map.2 ⟨(k, v), lookup_some_mem hv, rfl⟩

end Flax.NnxLoop
