/-
C09, Linen part: the scope machine of `Flax/Model/Rng.lean` (counter dictionaries shared by reference,
looked up through the parent on `push`) refines a *position function*: the key of a draw is determined by
(seed of the stream after fallback, scope path, rank of the draw among the draws of that position).
-/
import Flax.Proofs.Rng

namespace Flax.Rng

abbrev Path := List String
abbrev Counts := Path → String → Nat

/-! ## specification vocabulary -/

/-- the stream (and its seed key) that answers a request for `s`: `s` itself if supplied, else the fallback -/
def effOf (cfg : Cfg) (seeds : List (String × SymKey)) (s : String) : Option (String × SymKey) :=
  match find? s seeds with
  | some k => some (s, k)
  | none =>
    match find? cfg.fallback seeds with
    | some k => some (cfg.fallback, k)
    | none => none

/-- the key at a position: seed key, scope path, 1-based call count -/
def keyAt (sep : Bool) (k : SymKey) (π : Path) (j : Nat) : SymKey :=
  .foldStatic k (encodeSuffix sep (suffixOf π j))

def bump (c : Counts) (π : Path) (s : String) : Counts :=
  fun π' t => if π' = π ∧ t = s then c π' t + 1 else c π' t

/-- the draws of a `jit`-free program in execution order: (scope path, requested stream) -/
def Prog.draws : Prog → Path → List (Path × String)
  | .done, _ => []
  | .draw s rest, π => (π, s) :: rest.draws π
  | .sub n body rest, π => body.draws (π ++ [n]) ++ rest.draws π
  | .jit body rest, π => body.draws π ++ rest.draws π

def Prog.jitFree : Prog → Prop
  | .done => True
  | .draw _ rest => rest.jitFree
  | .sub _ body rest => body.jitFree ∧ rest.jitFree
  | .jit _ _ => False

/-- path-addressed reference semantics: one counter per (scope path, stream after fallback), pre-incremented -/
def specRun (cfg : Cfg) (seeds : List (String × SymKey)) : Counts → List (Path × String) → Except Err (List SymKey × Counts)
  | c, [] => .ok ([], c)
  | c, (π, s) :: ds =>
    match effOf cfg seeds s with
    | none => .error .invalidRng
    | some (s', k) =>
      match specRun cfg seeds (bump c π s') ds with
      | .ok (ks, c') => .ok (keyAt cfg.sep k π (c π s' + 1) :: ks, c')
      | .error e => .error e

theorem specRun_append (cfg : Cfg) (seeds : List (String × SymKey)) (a b : List (Path × String)) (c : Counts) :
    specRun cfg seeds c (a ++ b) =
      match specRun cfg seeds c a with
      | .error e => .error e
      | .ok (k1, c1) =>
        match specRun cfg seeds c1 b with
        | .error e => .error e
        | .ok (k2, c2) => .ok (k1 ++ k2, c2) := by
  induction a generalizing c with
  | nil =>
    simp only [List.nil_append, specRun]
    cases specRun cfg seeds c b with
    | error e => rfl
    | ok r => rfl
  | cons d a ih =>
    obtain ⟨π, s⟩ := d
    simp only [List.cons_append, specRun]
    cases effOf cfg seeds s with
    | none => rfl
    | some sk =>
      obtain ⟨s', k⟩ := sk
      simp only []
      rw [ih]
      cases specRun cfg seeds (bump c π s') a with
      | error e => rfl
      | ok r =>
        obtain ⟨k1, c1⟩ := r
        simp only []
        cases specRun cfg seeds c1 b with
        | error e => rfl
        | ok r2 => rfl

/-! ## the machine state seen through paths -/

def seedRngs (seeds : List (String × SymKey)) (π : Path) : List (String × LazyRng) :=
  seeds.map (fun ks => (ks.1, ({ base := ks.2, suffix := π.map Datum.str } : LazyRng)))

/-- the `Scope` object flax builds for path `π` under `bind(rngs=seeds)` (no `rewind_rngs`, no fork) -/
def scopeAt (seeds : List (String × SymKey)) (π : Path) : Scope :=
  { rngs := seedRngs seeds π, path := π, cref := (0, π) }

theorem find?_seedRngs (seeds : List (String × SymKey)) (π : Path) (s : String) :
    find? s (seedRngs seeds π) = (find? s seeds).map (fun k => ({ base := k, suffix := π.map Datum.str } : LazyRng)) := by
  unfold seedRngs
  exact find?_map_val (fun k => ({ base := k, suffix := π.map Datum.str } : LazyRng)) s seeds

theorem find?_zeros (seeds : List (String × SymKey)) (π : Path) (s : String) :
    find? s (zeros (seedRngs seeds π)) = (find? s seeds).map (fun _ => 0) := by
  have : zeros (seedRngs seeds π) = seeds.map (fun ks => (ks.1, (fun _ => (0 : Nat)) ks.2)) := by
    simp [zeros, seedRngs, List.map_map, Function.comp_def]
  rw [this]
  exact find?_map_val (fun _ => (0 : Nat)) s seeds

/-- the store holds exactly the counts `c`: an existing dict has one entry per supplied stream, a dict that
was never created stands for zeros -/
def Rep (seeds : List (String × SymKey)) (st : Store) (c : Counts) : Prop :=
  ∀ π : Path,
    (∀ d, find? ((0 : Nat), π) st.dicts = some d → ∀ s, find? s d = (find? s seeds).map (fun _ => c π s)) ∧
    (find? ((0 : Nat), π) st.dicts = none → ∀ s, c π s = 0)

def Mono (st st' : Store) : Prop :=
  ∀ cref : CRef, (find? cref st.dicts).isSome → (find? cref st'.dicts).isSome

theorem Mono.refl (st : Store) : Mono st st := fun _ h => h
theorem Mono.trans {a b c : Store} (h1 : Mono a b) (h2 : Mono b c) : Mono a c := fun r h => h2 r (h1 r h)

theorem foldInStatic_suffixOf (sep : Bool) (k : SymKey) (π : Path) (j : Nat) :
    foldInStatic sep k (π.map Datum.str ++ [Datum.int j]) = keyAt sep k π j := by
  unfold keyAt suffixOf
  cases h : π.map Datum.str ++ [Datum.int j] with
  | nil => simp at h
  | cons d ds => rfl

theorem bindRoot_eq (seeds : List (String × SymKey)) :
    bindRoot seeds = (scopeAt seeds [], { dicts := [(((0 : Nat), []), zeros (seedRngs seeds []))], nroots := 1 }) := rfl

theorem rep_init (seeds : List (String × SymKey)) :
    Rep seeds { dicts := [(((0 : Nat), []), zeros (seedRngs seeds []))], nroots := 1 } (fun _ _ => 0) := by
  intro π
  by_cases h : π = []
  · subst h
    simp [find?_cons, find?_zeros]
  · have : ((0 : Nat), ([] : Path)) ≠ ((0 : Nat), π) := by
      intro e; exact h (Prod.mk.inj e).2.symm
    simp [find?_cons, this]

theorem push_scopeAt (seeds : List (String × SymKey)) (π : Path) (n : String) (st : Store) (c : Counts)
    (hrep : Rep seeds st c) :
    ∃ st', push (scopeAt seeds π) n st = (scopeAt seeds (π ++ [n]), st') ∧ Rep seeds st' c ∧ Mono st st' ∧
      (find? ((0 : Nat), π ++ [n]) st'.dicts).isSome := by
  have hr : (seedRngs seeds π).map (fun kr => (kr.1, kr.2.create [Datum.str n])) = seedRngs seeds (π ++ [n]) := by
    simp [seedRngs, List.map_map, Function.comp_def, LazyRng.create]
  unfold push
  simp only [scopeAt, hr]
  cases hf : find? ((0 : Nat), π ++ [n]) st.dicts with
  | some d =>
    exact ⟨st, rfl, hrep, Mono.refl st, by simp [hf]⟩
  | none =>
    refine ⟨_, rfl, ?_, ?_, ?_⟩
    · intro π'
      by_cases hp : π' = π ++ [n]
      · subst hp
        simp only [find?_append_new _ _ _ hf]
        refine ⟨?_, by simp⟩
        intro d hd s
        have hd' : d = zeros (seedRngs seeds (π ++ [n])) := by simpa using hd.symm
        subst hd'
        rw [find?_zeros, (hrep (π ++ [n])).2 hf s]
      · have hne : ((0 : Nat), π') ≠ ((0 : Nat), π ++ [n]) := by
          intro e; exact hp (Prod.mk.inj e).2
        simp only [find?_append_ne _ _ _ _ hne]
        exact hrep π'
    · intro cref h
      by_cases hc : cref = ((0 : Nat), π ++ [n])
      · subst hc; simp [find?_append_new _ _ _ hf]
      · simpa [find?_append_ne _ _ _ _ hc] using h
    · simp [find?_append_new _ _ _ hf]

theorem effName_scopeAt (cfg : Cfg) (seeds : List (String × SymKey)) (π : Path) (s : String) :
    effName cfg (scopeAt seeds π) s =
      match effOf cfg seeds s with
      | some (s', _) => .ok s'
      | none => .error .invalidRng := by
  unfold effName Scope.hasRng effOf
  simp only [scopeAt, find?_seedRngs]
  cases h1 : find? s seeds with
  | some k => simp
  | none =>
    cases h2 : find? cfg.fallback seeds with
    | some k => simp
    | none => simp

theorem effOf_find (cfg : Cfg) (seeds : List (String × SymKey)) (s s' : String) (k : SymKey)
    (h : effOf cfg seeds s = some (s', k)) : find? s' seeds = some k := by
  unfold effOf at h
  cases h1 : find? s seeds with
  | some k1 => simp [h1] at h; obtain ⟨rfl, rfl⟩ := h; exact h1
  | none =>
    simp only [h1] at h
    cases h2 : find? cfg.fallback seeds with
    | some k2 => simp [h2] at h; obtain ⟨rfl, rfl⟩ := h; exact h2
    | none => simp [h2] at h

/-- `Scope.make_rng` at path `π`: pre-increments the counter of the stream after fallback and folds
(path, count) into that stream's seed -/
theorem makeRng_scopeAt (cfg : Cfg) (seeds : List (String × SymKey)) (π : Path) (s : String) (st : Store) (c : Counts)
    (hrep : Rep seeds st c) (hhas : (find? ((0 : Nat), π) st.dicts).isSome) :
    (effOf cfg seeds s = none → makeRng cfg (scopeAt seeds π) s st = .error .invalidRng) ∧
    (∀ s' k, effOf cfg seeds s = some (s', k) →
      ∃ st', makeRng cfg (scopeAt seeds π) s st = .ok (keyAt cfg.sep k π (c π s' + 1), st') ∧
        Rep seeds st' (bump c π s') ∧ Mono st st') := by
  constructor
  · intro h
    unfold makeRng
    rw [effName_scopeAt, h]
    rfl
  · intro s' k h
    have hk := effOf_find cfg seeds s s' k h
    obtain ⟨d, hd⟩ := Option.isSome_iff_exists.mp hhas
    have hds := (hrep π).1 d hd
    have hcs : find? s' d = some (c π s') := by rw [hds s', hk]; rfl
    unfold makeRng
    rw [effName_scopeAt, h]
    simp only [bind, Except.bind, scopeAt, hd, find?_seedRngs, hk, Option.map, hcs]
    refine ⟨{ st with dicts := set ((0 : Nat), π) (set s' (c π s' + 1) d) st.dicts }, ?_, ?_, ?_⟩
    · simp only [LazyRng.asJaxRng, LazyRng.create, foldInStatic_suffixOf]
    · intro π'
      by_cases hp : π' = π
      · subst hp
        simp only [find?_set_self]
        refine ⟨?_, by simp⟩
        intro d' hd' t
        have : d' = set s' (c π' s' + 1) d := by simpa using hd'.symm
        subst this
        by_cases ht : t = s'
        · subst ht
          rw [find?_set_self, hk]
          simp [bump]
        · rw [find?_set_ne _ _ _ _ ht, hds t]
          simp [bump, ht]
      · have hne : ((0 : Nat), π') ≠ ((0 : Nat), π) := by
          intro e; exact hp (Prod.mk.inj e).2
        simp only [find?_set_ne _ _ _ _ hne]
        have := hrep π'
        simpa [bump, hp] using this
    · intro cref hc
      by_cases hcr : cref = ((0 : Nat), π)
      · subst hcr; simp [find?_set_self]
      · simpa [find?_set_ne _ _ _ _ hcr] using hc

/-- **Refinement**: running a `jit`-free program on the scope machine gives exactly the keys of the
path-addressed reference semantics (and fails exactly when it fails). -/
theorem runProg_spec (cfg : Cfg) (seeds : List (String × SymKey)) :
    ∀ (p : Prog), p.jitFree → ∀ (π : Path) (st : Store) (c : Counts), Rep seeds st c →
      (find? ((0 : Nat), π) st.dicts).isSome →
      (∀ e, specRun cfg seeds c (p.draws π) = .error e → runProg cfg p (scopeAt seeds π) st = .error e) ∧
      (∀ ks c', specRun cfg seeds c (p.draws π) = .ok (ks, c') →
        ∃ st', runProg cfg p (scopeAt seeds π) st = .ok (ks, st') ∧ Rep seeds st' c' ∧ Mono st st') := by
  intro p
  induction p with
  | done =>
    intro _ π st c hrep _
    refine ⟨?_, ?_⟩
    · intro e h; simp [Prog.draws, specRun] at h
    · intro ks c' h
      simp only [Prog.draws, specRun, Except.ok.injEq, Prod.mk.injEq] at h
      obtain ⟨rfl, rfl⟩ := h
      exact ⟨st, rfl, hrep, Mono.refl st⟩
  | draw s rest ih =>
    intro hjf π st c hrep hhas
    obtain ⟨hm1, hm2⟩ := makeRng_scopeAt cfg seeds π s st c hrep hhas
    simp only [Prog.draws, specRun, runProg]
    cases he : effOf cfg seeds s with
    | none =>
      refine ⟨?_, ?_⟩
      · intro e h
        simp only [] at h
        cases h
        rw [hm1 he]; rfl
      · intro ks c' h; simp at h
    | some sk =>
      obtain ⟨s', k⟩ := sk
      obtain ⟨st1, hrun1, hrep1, hmono1⟩ := hm2 s' k he
      have hhas1 := hmono1 _ hhas
      obtain ⟨ih1, ih2⟩ := ih hjf π st1 (bump c π s') hrep1 hhas1
      simp only [hrun1, bind, Except.bind]
      cases hs : specRun cfg seeds (bump c π s') (rest.draws π) with
      | error e =>
        refine ⟨?_, ?_⟩
        · intro e' h
          simp only [] at h
          cases h
          rw [ih1 e hs]
        · intro ks c' h; simp at h
      | ok r =>
        obtain ⟨ks1, c1⟩ := r
        obtain ⟨st2, hrun2, hrep2, hmono2⟩ := ih2 ks1 c1 hs
        refine ⟨?_, ?_⟩
        · intro e' h; simp at h
        · intro ks c' h
          simp only [Except.ok.injEq, Prod.mk.injEq] at h
          obtain ⟨rfl, rfl⟩ := h
          exact ⟨st2, by rw [hrun2], hrep2, hmono1.trans hmono2⟩
  | sub n body rest ihb ihr =>
    intro hjf π st c hrep hhas
    obtain ⟨st1, hpush, hrep1, hmono1, hhasc⟩ := push_scopeAt seeds π n st c hrep
    obtain ⟨ihb1, ihb2⟩ := ihb hjf.1 (π ++ [n]) st1 c hrep1 hhasc
    simp only [Prog.draws, runProg, hpush, specRun_append]
    cases hs1 : specRun cfg seeds c (body.draws (π ++ [n])) with
    | error e =>
      refine ⟨?_, ?_⟩
      · intro e' h
        simp only [] at h
        cases h
        simp only [bind, Except.bind, ihb1 e hs1]
      · intro ks c' h; simp at h
    | ok r =>
      obtain ⟨ks1, c1⟩ := r
      obtain ⟨st2, hrun2, hrep2, hmono2⟩ := ihb2 ks1 c1 hs1
      have hhas2 := hmono2 _ (hmono1 _ hhas)
      obtain ⟨ihr1, ihr2⟩ := ihr hjf.2 π st2 c1 hrep2 hhas2
      simp only [bind, Except.bind, hrun2]
      cases hs2 : specRun cfg seeds c1 (rest.draws π) with
      | error e =>
        refine ⟨?_, ?_⟩
        · intro e' h
          simp only [] at h
          cases h
          rw [ihr1 e hs2]
        · intro ks c' h; simp at h
      | ok r2 =>
        obtain ⟨ks2, c2⟩ := r2
        obtain ⟨st3, hrun3, hrep3, hmono3⟩ := ihr2 ks2 c2 hs2
        refine ⟨?_, ?_⟩
        · intro e' h; simp at h
        · intro ks c' h
          simp only [Except.ok.injEq, Prod.mk.injEq] at h
          obtain ⟨rfl, rfl⟩ := h
          exact ⟨st3, by rw [hrun3], hrep3, (hmono1.trans hmono2).trans hmono3⟩
  | jit body rest _ _ =>
    intro hjf
    exact hjf.elim

/-- `Module.apply(rngs=seeds)` of a `jit`-free program = the reference semantics from zero counts -/
theorem runTop_spec (cfg : Cfg) (seeds : List (String × SymKey)) (p : Prog) (hjf : p.jitFree) :
    runTop cfg seeds p = (specRun cfg seeds (fun _ _ => 0) (p.draws [])).map (·.1) := by
  unfold runTop
  rw [bindRoot_eq]
  simp only []
  obtain ⟨h1, h2⟩ := runProg_spec cfg seeds p hjf [] _ (fun _ _ => 0) (rep_init seeds) (by simp [find?_cons])
  cases hs : specRun cfg seeds (fun _ _ => 0) (p.draws []) with
  | error e => rw [h1 e hs]; rfl
  | ok r =>
    obtain ⟨ks, c'⟩ := r
    obtain ⟨st', hrun, _, _⟩ := h2 ks c' hs
    rw [hrun]; rfl

/-! ## closed form of the reference semantics: the key is a function of the position -/

/-- the number of draws in `l` that hit position (scope path `π`, stream-after-fallback `s'`) -/
def countPos (cfg : Cfg) (seeds : List (String × SymKey)) (π : Path) (s' : String) (l : List (Path × String)) : Nat :=
  (l.filter (fun d => decide (d.1 = π ∧ (effOf cfg seeds d.2).map (·.1) = some s'))).length

theorem countPos_nil (cfg : Cfg) (seeds : List (String × SymKey)) (π : Path) (s' : String) :
    countPos cfg seeds π s' [] = 0 := rfl

theorem countPos_cons (cfg : Cfg) (seeds : List (String × SymKey)) (π : Path) (s' : String) (d : Path × String)
    (l : List (Path × String)) :
    countPos cfg seeds π s' (d :: l) =
      (if d.1 = π ∧ (effOf cfg seeds d.2).map (·.1) = some s' then 1 else 0) + countPos cfg seeds π s' l := by
  unfold countPos
  rw [List.filter_cons]
  split <;> rename_i h <;> simp at h <;> simp [h] <;> omega

theorem countPos_append (cfg : Cfg) (seeds : List (String × SymKey)) (π : Path) (s' : String)
    (a b : List (Path × String)) :
    countPos cfg seeds π s' (a ++ b) = countPos cfg seeds π s' a + countPos cfg seeds π s' b := by
  simp [countPos, List.filter_append]

theorem specRun_closed (cfg : Cfg) (seeds : List (String × SymKey)) :
    ∀ (ds : List (Path × String)) (c : Counts) (ks : List SymKey) (c' : Counts),
      specRun cfg seeds c ds = .ok (ks, c') →
      ks.length = ds.length ∧
      (∀ π s, c' π s = c π s + countPos cfg seeds π s ds) ∧
      ∀ (i : Nat) (hi : i < ds.length), ∃ s' k, effOf cfg seeds (ds[i]).2 = some (s', k) ∧
        ks[i]? = some (keyAt cfg.sep k (ds[i]).1 (c (ds[i]).1 s' + countPos cfg seeds (ds[i]).1 s' (ds.take i) + 1)) := by
  intro ds
  induction ds with
  | nil =>
    intro c ks c' h
    simp only [specRun, Except.ok.injEq, Prod.mk.injEq] at h
    obtain ⟨rfl, rfl⟩ := h
    refine ⟨rfl, ?_, ?_⟩
    · intro π s; simp [countPos_nil]
    · intro i hi; simp at hi
  | cons d ds ih =>
    intro c ks c' h
    obtain ⟨π0, s0⟩ := d
    simp only [specRun] at h
    cases he : effOf cfg seeds s0 with
    | none => simp [he] at h
    | some sk =>
      obtain ⟨s0', k0⟩ := sk
      simp only [he] at h
      cases hs : specRun cfg seeds (bump c π0 s0') ds with
      | error e => simp [hs] at h
      | ok r =>
        obtain ⟨ks1, c1⟩ := r
        simp only [hs, Except.ok.injEq, Prod.mk.injEq] at h
        obtain ⟨rfl, rfl⟩ := h
        obtain ⟨hlen, hc, hkeys⟩ := ih (bump c π0 s0') ks1 c1 hs
        refine ⟨by simp [hlen], ?_, ?_⟩
        · intro π s
          rw [hc π s, countPos_cons]
          simp only [he, Option.map, Option.some.injEq, bump]
          by_cases hp : π = π0 ∧ s = s0'
          · obtain ⟨rfl, rfl⟩ := hp; simp; omega
          · have : ¬ (π0 = π ∧ s0' = s) := fun hh => hp ⟨hh.1.symm, hh.2.symm⟩
            simp [hp, this]
        · intro i hi
          cases i with
          | zero =>
            refine ⟨s0', k0, he, ?_⟩
            simp [countPos_nil]
          | succ i =>
            have hi' : i < ds.length := by simpa using hi
            obtain ⟨s', k, hes, hk⟩ := hkeys i hi'
            refine ⟨s', k, by simpa using hes, ?_⟩
            simp only [List.getElem?_cons_succ, List.getElem_cons_succ, List.take_succ_cons]
            rw [hk, countPos_cons]
            simp only [he, Option.map, Option.some.injEq, bump]
            by_cases hp : (ds[i]).1 = π0 ∧ s' = s0'
            · obtain ⟨hp1, rfl⟩ := hp
              simp [hp1]; congr 1; omega
            · have : ¬ (π0 = (ds[i]).1 ∧ s0' = s') := fun hh => hp ⟨hh.1.symm, hh.2.symm⟩
              simp [hp, this]

theorem countPos_le_length (cfg : Cfg) (seeds : List (String × SymKey)) (π : Path) (s' : String)
    (l : List (Path × String)) : countPos cfg seeds π s' l ≤ l.length := by
  unfold countPos
  exact List.length_filter_le _ _

theorem countPos_take_mono (cfg : Cfg) (seeds : List (String × SymKey)) (π : Path) (s' : String)
    (ds : List (Path × String)) (i j : Nat) (h : i ≤ j) :
    countPos cfg seeds π s' (ds.take i) ≤ countPos cfg seeds π s' (ds.take j) := by
  have : ds.take j = ds.take i ++ (ds.take j).drop i := by
    have h1 : (ds.take j).take i = ds.take i := by
      rw [List.take_take, Nat.min_eq_left h]
    rw [← h1, List.take_append_drop]
  rw [this, countPos_append]
  omega

/-- a later draw at the same position has a strictly larger rank -/
theorem countPos_take_lt (cfg : Cfg) (seeds : List (String × SymKey)) (π : Path) (s' : String)
    (ds : List (Path × String)) (i j : Nat) (hij : i < j) (hi : i < ds.length)
    (hπ : (ds[i]).1 = π) (hs : (effOf cfg seeds (ds[i]).2).map (·.1) = some s') :
    countPos cfg seeds π s' (ds.take i) < countPos cfg seeds π s' (ds.take j) := by
  have h1 : countPos cfg seeds π s' (ds.take (i + 1)) = countPos cfg seeds π s' (ds.take i) + 1 := by
    rw [List.take_add_one, countPos_append]
    simp only [List.getElem?_eq_getElem hi, Option.toList]
    rw [countPos_cons, countPos_nil]
    simp [hπ, hs]
  have h2 := countPos_take_mono cfg seeds π s' ds (i + 1) j hij
  omega

theorem specRun_error_iff (cfg : Cfg) (seeds : List (String × SymKey)) :
    ∀ (ds : List (Path × String)) (c : Counts) (e : Err),
      specRun cfg seeds c ds = .error e ↔ (e = .invalidRng ∧ ∃ d ∈ ds, effOf cfg seeds d.2 = none) := by
  intro ds
  induction ds with
  | nil => intro c e; simp [specRun]
  | cons d ds ih =>
    intro c e
    obtain ⟨π0, s0⟩ := d
    simp only [specRun]
    cases he : effOf cfg seeds s0 with
    | none =>
      constructor
      · intro h
        simp only [Except.error.injEq] at h
        exact ⟨h.symm, ⟨(π0, s0), by simp, he⟩⟩
      · rintro ⟨rfl, _⟩; rfl
    | some sk =>
      obtain ⟨s0', k0⟩ := sk
      simp only []
      cases hs : specRun cfg seeds (bump c π0 s0') ds with
      | error e' =>
        have := (ih (bump c π0 s0') e').mp hs
        constructor
        · intro h
          simp only [Except.error.injEq] at h
          subst h
          obtain ⟨h1, d, hd, hd2⟩ := this
          exact ⟨h1, d, List.mem_cons_of_mem _ hd, hd2⟩
        · rintro ⟨rfl, _⟩
          rw [this.1]
      | ok r =>
        obtain ⟨ks1, c1⟩ := r
        constructor
        · intro h; simp at h
        · rintro ⟨rfl, d, hd, hd2⟩
          exfalso
          rcases List.mem_cons.mp hd with rfl | hd'
          · simp [he] at hd2
          · have := (ih (bump c π0 s0') .invalidRng).mpr ⟨rfl, d, hd', hd2⟩
            rw [hs] at this
            cases this

theorem specRun_congr (cfg : Cfg) (seeds : List (String × SymKey)) (g : Path × String → Path × String)
    (hg1 : ∀ d, (g d).1 = d.1) (hg2 : ∀ d, effOf cfg seeds (g d).2 = effOf cfg seeds d.2) :
    ∀ (ds : List (Path × String)) (c : Counts), specRun cfg seeds c (ds.map g) = specRun cfg seeds c ds := by
  intro ds
  induction ds with
  | nil => intro c; rfl
  | cons d ds ih =>
    intro c
    have h1 := hg1 d
    have h2 := hg2 d
    obtain ⟨π0, s0⟩ := d
    cases hgd : g (π0, s0) with
    | mk π1 s1 =>
      rw [hgd] at h1 h2
      simp only at h1 h2
      subst h1
      simp only [List.map_cons, hgd, specRun, h2]
      cases effOf cfg seeds s0 with
      | none => rfl
      | some sk =>
        obtain ⟨s', k⟩ := sk
        simp only [ih]

def Prog.mapStreams (f : String → String) : Prog → Prog
  | .done => .done
  | .draw s rest => .draw (f s) (rest.mapStreams f)
  | .sub n body rest => .sub n (body.mapStreams f) (rest.mapStreams f)
  | .jit body rest => .jit (body.mapStreams f) (rest.mapStreams f)

theorem Prog.draws_mapStreams (f : String → String) (p : Prog) (π : Path) :
    (p.mapStreams f).draws π = (p.draws π).map (fun d => (d.1, f d.2)) := by
  induction p generalizing π with
  | done => rfl
  | draw s rest ih => simp [Prog.mapStreams, Prog.draws, ih]
  | sub n body rest ihb ihr => simp [Prog.mapStreams, Prog.draws, ihb, ihr]
  | jit body rest ihb ihr => simp [Prog.mapStreams, Prog.draws, ihb, ihr]

theorem Prog.jitFree_mapStreams (f : String → String) (p : Prog) (h : p.jitFree) : (p.mapStreams f).jitFree := by
  induction p with
  | done => trivial
  | draw s rest ih => exact ih h
  | sub n body rest ihb ihr => exact ⟨ihb h.1, ihr h.2⟩
  | jit body rest _ _ => exact h.elim

theorem natBytes_small (j : Nat) (h1 : 1 ≤ j) (h2 : j < 256) : natBytes j = [UInt8.ofNat j] := by
  unfold natBytes
  obtain ⟨f, rfl⟩ : ∃ f, j = f + 1 := ⟨j - 1, by omega⟩
  unfold natBytesAux
  have h0 : ¬ (f + 1 = 0) := by omega
  have hd : (f + 1) / 256 = 0 := by omega
  have hm : (f + 1) % 256 = f + 1 := by omega
  simp only [h0, if_false, hd, hm]
  cases f <;> simp [natBytesAux]

theorem concatB_append (a b : List (List UInt8)) : concatB (a ++ b) = concatB a ++ concatB b := by
  induction a with
  | nil => rfl
  | cons x xs ih => simp [concatB, ih, List.append_assoc]

end Flax.Rng
