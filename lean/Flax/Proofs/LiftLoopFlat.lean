/- C06: a nest of threaded loops (one per entry of `lengths`) is ONE threaded loop over the multi-indices in
   row-major order — the loop-combinator core of `remat_scan = flat loop` -/
import Flax.Proofs.LiftLoopSpec

set_option linter.unusedSimpArgs false

namespace Flax.LiftLoop

/-- `loopRun` over an arbitrary index type -/
def runG {ι σ ω : Type} (step : σ → ι → Option (σ × ω)) (same : σ → σ → Bool) :
    σ → List ι → Option (σ × List (ι × ω))
  | s, [] => some (s, [])
  | s, i :: is =>
    match step s i with
    | none => none
    | some r =>
      if same s r.1 then
        match runG step same r.1 is with
        | none => none
        | some rest => some (rest.1, (i, r.2) :: rest.2)
      else none

theorem loopRun_eq_runG {σ ω : Type} (step : σ → Nat → Option (σ × ω)) (same : σ → σ → Bool) :
    ∀ (order : List Nat) (s : σ), loopRun step same s order = runG step same s order := by
  intro order
  induction order with
  | nil => intro s; rfl
  | cons i is ih =>
    intro s
    simp only [loopRun, runG]
    cases step s i with
    | none => rfl
    | some r =>
      simp only [ih]
      by_cases h : same s r.1 = true
      · simp only [h, if_true]; cases runG step same r.1 is <;> rfl
      · simp [h]

theorem runG_append {ι σ ω : Type} (step : σ → ι → Option (σ × ω)) (same : σ → σ → Bool) :
    ∀ (l1 l2 : List ι) (s : σ), runG step same s (l1 ++ l2) =
      (runG step same s l1).bind (fun r1 => (runG step same r1.1 l2).map (fun r2 => (r2.1, r1.2 ++ r2.2))) := by
  intro l1
  induction l1 with
  | nil =>
    intro l2 s
    simp only [List.nil_append, runG, Option.bind_some, List.nil_append]
    cases runG step same s l2 <;> rfl
  | cons i is ih =>
    intro l2 s
    simp only [List.cons_append, runG]
    cases step s i with
    | none => rfl
    | some r =>
      simp only []
      by_cases h : same s r.1 = true
      · simp only [h, if_true, ih]
        cases runG step same r.1 is with
        | none => rfl
        | some r1 =>
          simp only [Option.bind_some]
          cases runG step same r1.1 l2 <;> rfl
      · simp [h]

/-- with a reflexive and transitive structure check, a successful run ends in a state that passes the check
against the state it started from -/
theorem runG_same {ι σ ω : Type} (step : σ → ι → Option (σ × ω)) (same : σ → σ → Bool)
    (hrefl : ∀ s, same s s = true) (htrans : ∀ a b c, same a b = true → same b c = true → same a c = true) :
    ∀ (l : List ι) (s : σ) (r : σ × List (ι × ω)), runG step same s l = some r → same s r.1 = true := by
  intro l
  induction l with
  | nil => intro s r h; simp [runG] at h; subst h; exact hrefl s
  | cons i is ih =>
    intro s r h
    simp only [runG] at h
    cases hs : step s i with
    | none => simp [hs] at h
    | some r1 =>
      simp only [hs] at h
      by_cases hsm : same s r1.1 = true
      · simp only [hsm, if_true] at h
        cases hr : runG step same r1.1 is with
        | none => simp [hr] at h
        | some rest =>
          simp [hr] at h
          subst h
          exact htrans _ _ _ hsm (ih r1.1 rest hr)
      · simp [hsm] at h

/-- a loop over blocks, each block a threaded loop = one threaded loop over the concatenation -/
theorem runG_flatMap {ι κ σ ω : Type} (step : σ → ι → Option (σ × ω)) (same : σ → σ → Bool)
    (hrefl : ∀ s, same s s = true) (htrans : ∀ a b c, same a b = true → same b c = true → same a c = true)
    (blk : κ → List ι) : ∀ (L : List κ) (s : σ),
    runG step same s (L.flatMap blk) =
      (runG (fun s k => runG step same s (blk k)) same s L).map (fun r => (r.1, r.2.flatMap (·.2))) := by
  intro L
  induction L with
  | nil => intro s; rfl
  | cons k ks ih =>
    intro s
    simp only [List.flatMap_cons, runG_append, runG]
    cases hb : runG step same s (blk k) with
    | none => rfl
    | some r1 =>
      have hs := runG_same step same hrefl htrans _ _ _ hb
      simp only [Option.bind_some, hs, if_true, ih]
      cases runG (fun s k => runG step same s (blk k)) same r1.1 ks <;> rfl

/-- the nest: one threaded loop per entry of `lengths`, the innermost body called at the full multi-index -/
def nestRun {σ ω : Type} (step : σ → Ix → Option (σ × ω)) (same : σ → σ → Bool) :
    List Nat → Ix → σ → Option (σ × List (Ix × ω))
  | [], pre, s => runG step same s [pre]
  | l :: ls, pre, s =>
    (runG (fun s i => nestRun step same ls (pre ++ [i]) s) same s (List.range l)).map
      (fun r => (r.1, r.2.flatMap (·.2)))

/-- **nested loops = one flat loop of `∏ lengths` iterations** in row-major (lexicographic) order of the
multi-index: same final state (the carry is threaded through all of them in that order) and the same
outputs, each recorded under its multi-index -/
theorem nestRun_eq_flat {σ ω : Type} (step : σ → Ix → Option (σ × ω)) (same : σ → σ → Bool)
    (hrefl : ∀ s, same s s = true) (htrans : ∀ a b c, same a b = true → same b c = true → same a c = true) :
    ∀ (lengths : List Nat) (pre : Ix) (s : σ),
    nestRun step same lengths pre s = runG step same s ((allIdx lengths).map (fun t => pre ++ t)) := by
  intro lengths
  induction lengths with
  | nil => intro pre s; simp [nestRun, allIdx]
  | cons l ls ih =>
    intro pre s
    simp only [nestRun, allIdx, List.map_flatMap, List.map_map]
    have hblk : (fun i => List.map ((fun t => pre ++ t) ∘ fun t => i :: t) (allIdx ls)) =
        (fun i => (allIdx ls).map (fun t => (pre ++ [i]) ++ t)) := by
      funext i; apply List.map_congr_left; intro t _; simp
    rw [hblk, runG_flatMap step same hrefl htrans]
    congr 2
    funext s' i
    exact ih (pre ++ [i]) s'

/-- the number of iterations of the flat loop -/
theorem allIdx_length : ∀ (lengths : List Nat), (allIdx lengths).length = lengths.foldr (· * ·) 1 := by
  intro lengths
  induction lengths with
  | nil => rfl
  | cons l ls ih =>
    simp only [allIdx, List.length_flatMap, List.length_map, ih, List.foldr_cons]
    induction l with
    | zero => simp
    | succ n ihn => simp [List.range_succ, Nat.succ_mul, ihn]

end Flax.LiftLoop
