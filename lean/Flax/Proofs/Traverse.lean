/-
Helper lemmas for C16 (flatten / unflatten). Core Lean only.
-/
import Flax.Model.Traverse

set_option linter.unusedSectionVars false

namespace Flax.Traverse

variable {κ α : Type}

/-! ### Dict -/

namespace Dict
variable {β : Type} [DecidableEq κ]

theorem get_none_iff (d : List (κ × β)) (k : κ) : get d k = none ↔ ∀ kv ∈ d, kv.1 ≠ k := by
  induction d with
  | nil => simp [get]
  | cons x rest ih =>
    obtain ⟨k', v⟩ := x
    by_cases h : k' = k
    · simp [get, h]
    · simp [get, h, ih]

theorem set_of_get_none (d : List (κ × β)) (k : κ) (v : β) (h : get d k = none) : set d k v = d ++ [(k, v)] := by
  induction d with
  | nil => simp [set]
  | cons x rest ih =>
    obtain ⟨k', v'⟩ := x
    by_cases hk : k' = k
    · simp [get, hk] at h
    · simp only [get, hk, ↓reduceIte] at h
      simp [set, hk, ih h]

theorem get_set_self (d : List (κ × β)) (k : κ) (v : β) : get (set d k v) k = some v := by
  induction d with
  | nil => simp [set, get]
  | cons x rest ih =>
    obtain ⟨k', v'⟩ := x
    by_cases hk : k' = k
    · simp [set, get, hk]
    · simp [set, get, hk, ih]

theorem get_set_ne (d : List (κ × β)) (k k2 : κ) (v : β) (h : k2 ≠ k) : get (set d k v) k2 = get d k2 := by
  induction d with
  | nil =>
    have : ¬ k = k2 := fun e => h e.symm
    simp [set, get, this]
  | cons x rest ih =>
    obtain ⟨k', v'⟩ := x
    by_cases hk : k' = k
    · subst hk
      have : ¬ k' = k2 := fun e => h e.symm
      simp [set, get, this]
    · by_cases hk2 : k' = k2
      · subst hk2
        simp [set, get, hk]
      · simp [set, get, hk, hk2, ih]

theorem set_set (d : List (κ × β)) (k : κ) (v w : β) : set (set d k v) k w = set d k w := by
  induction d with
  | nil => simp [set]
  | cons x rest ih =>
    obtain ⟨k', v'⟩ := x
    by_cases hk : k' = k
    · simp [set, hk]
    · simp [set, hk, ih]

theorem set_of_get_some (d : List (κ × β)) (k : κ) (v : β) (h : get d k = some v) : set d k v = d := by
  induction d with
  | nil => simp [get] at h
  | cons x rest ih =>
    obtain ⟨k', v'⟩ := x
    by_cases hk : k' = k
    · simp only [get, hk, ↓reduceIte, Option.some.injEq] at h
      simp [set, hk, h]
    · simp only [get, hk, ↓reduceIte] at h
      simp [set, hk, ih h]

/-- a list with pairwise distinct keys is its own dict -/
theorem ofList_aux (l acc : List (κ × β)) (h : (acc ++ l).map Prod.fst |>.Nodup) :
    l.foldl (fun acc kv => set acc kv.1 kv.2) acc = acc ++ l := by
  induction l generalizing acc with
  | nil => simp
  | cons x rest ih =>
    simp only [List.foldl_cons]
    have hx : get acc x.1 = none := by
      rw [get_none_iff]
      intro kv hkv hne
      rw [List.map_append, List.nodup_append] at h
      exact h.2.2 kv.1 (List.mem_map_of_mem hkv) x.1 (by simp) hne
    rw [set_of_get_none _ _ _ hx, ih]
    · simp
    · simpa using h

theorem ofList_of_nodup (l : List (κ × β)) (h : (l.map Prod.fst).Nodup) : ofList l = l := by
  have := ofList_aux l [] (by simpa using h)
  simpa [ofList] using this

end Dict

/-! ### flattening with relative paths -/

mutual
  /-- `flatT` seen from the node itself: paths are relative, the root check `prefix == ()` is gone -/
  def relT (keep : Bool) (isLeaf : Path κ → Tree κ α → Bool) : Tree κ α → List (Path κ × FVal κ α)
    | .leaf v => [([], .val (.leaf v))]
    | .dict kvs =>
      if isLeaf [] (.dict kvs) then [([], .val (.dict kvs))]
      else if keep && kvs.isEmpty then [([], .emptyNode)]
      else relKvs keep isLeaf kvs
  def relKvs (keep : Bool) (isLeaf : Path κ → Tree κ α → Bool) :
      List (κ × Tree κ α) → List (Path κ × FVal κ α)
    | [] => []
    | (k, c) :: rest =>
      (relT keep (fun p => isLeaf (k :: p)) c).map (fun pv => (k :: pv.1, pv.2)) ++ relKvs keep isLeaf rest
end

private theorem shift_fun (isLeaf : Path κ → Tree κ α → Bool) (pre : Path κ) (k : κ) :
    (fun p => isLeaf ((pre ++ [k]) ++ p)) = (fun p => (fun q => isLeaf (pre ++ q)) (k :: p)) := by
  funext p; simp

mutual
  theorem flatT_rel (keep : Bool) : ∀ (t : Tree κ α) (isLeaf : Path κ → Tree κ α → Bool) (pre : Path κ), pre ≠ [] →
      flatT keep isLeaf t pre
        = (relT keep (fun p => isLeaf (pre ++ p)) t).map (fun pv => (pre ++ pv.1, pv.2))
    | .leaf v, isLeaf, pre, _ => by simp [flatT, relT]
    | .dict kvs, isLeaf, pre, hpre => by
      have hk := flatKvs_rel keep kvs isLeaf pre
      simp only [flatT, relT, List.append_nil]
      by_cases h1 : isLeaf pre (.dict kvs) = true
      · simp [h1]
      · by_cases h2 : (keep && kvs.isEmpty) = true
        · have : pre.isEmpty = false := by cases pre <;> simp_all
          simp [h1, h2, this]
        · simp only [h1, h2, Bool.false_eq_true, ↓reduceIte]
          exact hk
  theorem flatKvs_rel (keep : Bool) : ∀ (kvs : List (κ × Tree κ α)) (isLeaf : Path κ → Tree κ α → Bool) (pre : Path κ),
      flatKvs keep isLeaf kvs pre
        = (relKvs keep (fun p => isLeaf (pre ++ p)) kvs).map (fun pv => (pre ++ pv.1, pv.2))
    | [], _, _ => by simp [flatKvs, relKvs]
    | (k, c) :: rest, isLeaf, pre => by
      have h1 := flatT_rel keep c isLeaf (pre ++ [k]) (by simp)
      have h2 := flatKvs_rel keep rest isLeaf pre
      simp only [flatKvs, relKvs, List.map_append, List.map_map]
      rw [h1, h2, shift_fun]
      congr 1
      apply List.map_congr_left
      intro pv _
      simp
end

/-- the root call `_flatten(xs, ())` on a dict for which `is_leaf` does not hold -/
theorem flatT_root (keep : Bool) (isLeaf : Path κ → Tree κ α → Bool) (kvs : List (κ × Tree κ α))
    (h : isLeaf [] (.dict kvs) = false) : flatT keep isLeaf (.dict kvs) [] = relKvs keep isLeaf kvs := by
  have hk := flatKvs_rel keep kvs isLeaf []
  simp at hk
  simp only [flatT, h, Bool.false_eq_true, ↓reduceIte, List.isEmpty_nil]
  by_cases h2 : (keep && kvs.isEmpty) = true
  · have : kvs = [] := by
      have := (Bool.and_eq_true _ _).mp h2
      simpa using this.2
    subst this
    simp [relKvs, flatKvs]
  · simp only [h2, Bool.false_eq_true, ↓reduceIte]
    exact hk

/-! ### the unflatten loop -/

section
variable [DecidableEq κ]

/-- the loop of `unflatten_dict` with tuple keys -/
abbrev build (acc : List (κ × Tree κ α)) (m : List (Path κ × FVal κ α)) : Except Err (List (κ × Tree κ α)) :=
  unflattenLoop (fun p => Except.ok p) acc m

theorem build_nil (acc : List (κ × Tree κ α)) : build acc [] = .ok acc := rfl

theorem build_cons (acc : List (κ × Tree κ α)) (p : Path κ) (v : FVal κ α) (m : List (Path κ × FVal κ α)) :
    build acc ((p, v) :: m) = (insertPath acc p v.toTree >>= fun acc' => build acc' m) := rfl

theorem build_append (m1 m2 : List (Path κ × FVal κ α)) : ∀ (acc : List (κ × Tree κ α)),
    build acc (m1 ++ m2) = (build acc m1 >>= fun a => build a m2) := by
  induction m1 with
  | nil => intro acc; rfl
  | cons x rest ih =>
    intro acc
    obtain ⟨p, v⟩ := x
    simp only [List.cons_append, build_cons]
    cases insertPath acc p v.toTree with
    | error e => rfl
    | ok a => exact ih a

theorem insertPath_single (acc : List (κ × Tree κ α)) (k : κ) (v : Tree κ α) :
    insertPath acc [k] v = .ok (Dict.set acc k v) := by
  simp [insertPath]

theorem insertPath_some (acc sub : List (κ × Tree κ α)) (k : κ) (p : Path κ) (hp : p ≠ []) (v : Tree κ α)
    (h : Dict.get acc k = some (.dict sub)) :
    insertPath acc (k :: p) v = (insertPath sub p v >>= fun s' => .ok (Dict.set acc k (.dict s'))) := by
  cases p with
  | nil => exact absurd rfl hp
  | cons k2 rest => simp [insertPath, h]

theorem insertPath_none (acc : List (κ × Tree κ α)) (k : κ) (p : Path κ) (hp : p ≠ []) (v : Tree κ α)
    (h : Dict.get acc k = none) :
    insertPath acc (k :: p) v = (insertPath [] p v >>= fun s' => .ok (Dict.set acc k (.dict s'))) := by
  cases p with
  | nil => exact absurd rfl hp
  | cons k2 rest => simp [insertPath, h]

theorem insertPath_leaf (acc : List (κ × Tree κ α)) (k : κ) (p : Path κ) (hp : p ≠ []) (v : Tree κ α) (x : α)
    (h : Dict.get acc k = some (.leaf x)) : insertPath acc (k :: p) v = .error .notDict := by
  cases p with
  | nil => exact absurd rfl hp
  | cons k2 rest => simp [insertPath, h]

/-- inserting a batch of paths that all go through the existing sub-dict at `k` -/
theorem build_under_some (k : κ) : ∀ (E : List (Path κ × FVal κ α)) (acc sub : List (κ × Tree κ α)),
    (∀ pv ∈ E, pv.1 ≠ []) → Dict.get acc k = some (.dict sub) →
    build acc (E.map (fun pv => (k :: pv.1, pv.2)))
      = (build sub E).map (fun s' => Dict.set acc k (.dict s')) := by
  intro E
  induction E with
  | nil =>
    intro acc sub _ h
    simp [build_nil, Except.map, Dict.set_of_get_some _ _ _ h]
  | cons x rest ih =>
    intro acc sub hne h
    obtain ⟨p, v⟩ := x
    have hp : p ≠ [] := hne (p, v) (by simp)
    simp only [List.map_cons, build_cons]
    rw [insertPath_some acc sub k p hp _ h]
    cases hins : insertPath sub p v.toTree with
    | error e => rfl
    | ok s1 =>
      have := ih (Dict.set acc k (.dict s1)) s1 (fun pv hpv => hne pv (by simp [hpv])) (Dict.get_set_self _ _ _)
      simp only [bind, Except.bind]
      rw [this]
      simp [Dict.set_set]

/-- the same when `k` is not yet in the dict (and there is at least one path to insert) -/
theorem build_under_none (k : κ) (E : List (Path κ × FVal κ α)) (acc : List (κ × Tree κ α))
    (hne : ∀ pv ∈ E, pv.1 ≠ []) (hE : E ≠ []) (h : Dict.get acc k = none) :
    build acc (E.map (fun pv => (k :: pv.1, pv.2)))
      = (build [] E).map (fun s' => Dict.set acc k (.dict s')) := by
  cases E with
  | nil => exact absurd rfl hE
  | cons x rest =>
    obtain ⟨p, v⟩ := x
    have hp : p ≠ [] := hne (p, v) (by simp)
    simp only [List.map_cons, build_cons]
    rw [insertPath_none acc k p hp _ h]
    cases hins : insertPath [] p v.toTree with
    | error e => rfl
    | ok s1 =>
      have := build_under_some k rest (Dict.set acc k (.dict s1)) s1 (fun pv hpv => hne pv (by simp [hpv]))
        (Dict.get_set_self _ _ _)
      simp only [bind, Except.bind]
      rw [this]
      simp [Dict.set_set]


mutual
  theorem relT_nil_iff (keep : Bool) : ∀ (c : Tree κ α) (isLeaf : Path κ → Tree κ α → Bool),
      relT keep isLeaf c = [] ↔ normT keep isLeaf c = none
    | .leaf v, isLeaf => by simp [relT, normT]
    | .dict kvs, isLeaf => by
      have ih := relKvs_nil_iff keep kvs isLeaf
      simp only [relT, normT]
      by_cases h1 : isLeaf [] (.dict kvs) = true
      · simp [h1]
      · by_cases h2 : (keep && kvs.isEmpty) = true
        · simp [h1, h2]
        · simp only [h1, h2, Bool.false_eq_true, ↓reduceIte]
          rw [ih]
          cases normKvs keep isLeaf kvs <;> simp
  theorem relKvs_nil_iff (keep : Bool) : ∀ (kvs : List (κ × Tree κ α)) (isLeaf : Path κ → Tree κ α → Bool),
      relKvs keep isLeaf kvs = [] ↔ normKvs keep isLeaf kvs = []
    | [], isLeaf => by simp [relKvs, normKvs]
    | (k, c) :: rest, isLeaf => by
      have h1 := relT_nil_iff keep c (fun p => isLeaf (k :: p))
      have h2 := relKvs_nil_iff keep rest isLeaf
      simp only [relKvs, normKvs, List.append_eq_nil_iff, List.map_eq_nil_iff]
      rw [h1, h2]
      cases normT keep (fun p => isLeaf (k :: p)) c <;> simp
end

theorem relKvs_paths_ne_nil (keep : Bool) (isLeaf : Path κ → Tree κ α → Bool) (kvs : List (κ × Tree κ α)) :
    ∀ pv ∈ relKvs keep isLeaf kvs, pv.1 ≠ [] := by
  induction kvs with
  | nil => simp [relKvs]
  | cons x rest ih =>
    obtain ⟨k, c⟩ := x
    intro pv hpv
    simp only [relKvs, List.mem_append, List.mem_map] at hpv
    rcases hpv with ⟨q, _, rfl⟩ | h
    · simp
    · exact ih pv h

mutual
  /-- inserting the flattened form of child `c` under a fresh key `k` appends what survives of `c` -/
  theorem build_child (keep : Bool) : ∀ (c : Tree κ α) (isLeaf : Path κ → Tree κ α → Bool)
      (acc : List (κ × Tree κ α)) (k : κ), WF c → Dict.get acc k = none →
      build acc ((relT keep isLeaf c).map (fun pv => (k :: pv.1, pv.2)))
        = .ok (match normT keep isLeaf c with | none => acc | some c' => acc ++ [(k, c')])
    | .leaf v, isLeaf, acc, k, _, hk => by
      simp [relT, normT, build_cons, build_nil, insertPath_single, FVal.toTree, Dict.set_of_get_none _ _ _ hk,
        bind, Except.bind]
    | .dict kvs, isLeaf, acc, k, hwf, hk => by
      have ih := build_kvs keep kvs isLeaf [] (by simpa [WF] using hwf) (by intro kv _; simp [Dict.get])
      simp only [relT, normT]
      by_cases h1 : isLeaf [] (.dict kvs) = true
      · simp [h1, build_cons, build_nil, insertPath_single, FVal.toTree, Dict.set_of_get_none _ _ _ hk,
          bind, Except.bind]
      · by_cases h2 : (keep && kvs.isEmpty) = true
        · simp [h1, h2, build_cons, build_nil, insertPath_single, FVal.toTree, Dict.set_of_get_none _ _ _ hk,
            bind, Except.bind]
        · simp only [h1, h2, Bool.false_eq_true, ↓reduceIte]
          by_cases hE : relKvs keep isLeaf kvs = []
          · have hn := (relKvs_nil_iff keep kvs isLeaf).mp hE
            simp [hE, hn, build_nil]
          · have hn : normKvs keep isLeaf kvs ≠ [] := fun e => hE ((relKvs_nil_iff keep kvs isLeaf).mpr e)
            rw [build_under_none k _ acc (relKvs_paths_ne_nil keep isLeaf kvs) hE hk, ih]
            simp only [List.nil_append, Except.map]
            rw [Dict.set_of_get_none _ _ _ hk]
  theorem build_kvs (keep : Bool) : ∀ (kvs : List (κ × Tree κ α)) (isLeaf : Path κ → Tree κ α → Bool)
      (acc : List (κ × Tree κ α)), WFKvs kvs → (∀ kv ∈ kvs, Dict.get acc kv.1 = none) →
      build acc (relKvs keep isLeaf kvs) = .ok (acc ++ normKvs keep isLeaf kvs)
    | [], isLeaf, acc, _, _ => by simp [relKvs, normKvs, build_nil]
    | (k, c) :: rest, isLeaf, acc, hwf, hacc => by
      simp only [WFKvs] at hwf
      obtain ⟨hk, hc, hrest⟩ := hwf
      have h1 := build_child keep c (fun p => isLeaf (k :: p)) acc k hc (hacc (k, c) (by simp))
      simp only [relKvs, normKvs, build_append, h1, bind, Except.bind]
      cases hn : normT keep (fun p => isLeaf (k :: p)) c with
      | none =>
        simp only
        exact build_kvs keep rest isLeaf acc hrest (fun kv hkv => hacc kv (by simp [hkv]))
      | some c' =>
        simp only
        have h2 := build_kvs keep rest isLeaf (acc ++ [(k, c')]) hrest (by
          intro kv hkv
          rw [Dict.get_none_iff]
          intro x hx
          simp only [List.mem_append, List.mem_singleton] at hx
          rcases hx with hx | rfl
          · exact (Dict.get_none_iff _ _).mp (hacc kv (by simp [hkv])) x hx
          · exact fun e => hk kv hkv e.symm)
        rw [h2]; simp
end


/-! ### the paths of a flattened well-formed tree are pairwise prefix-incomparable -/

/-- neither path is a prefix of the other (in particular they differ) -/
def Incomp (p q : Path κ) : Prop := ¬ p <+: q ∧ ¬ q <+: p

theorem Incomp.symm {p q : Path κ} (h : Incomp p q) : Incomp q p := ⟨h.2, h.1⟩

theorem Incomp.ne {p q : Path κ} (h : Incomp p q) : p ≠ q := fun e => h.1 (e ▸ List.prefix_refl p)

theorem incomp_cons (k : κ) (p q : Path κ) : Incomp (k :: p) (k :: q) ↔ Incomp p q := by
  simp [Incomp, List.cons_prefix_cons]

theorem incomp_of_head_ne {k k' : κ} (h : k ≠ k') (p q : Path κ) : Incomp (k :: p) (k' :: q) := by
  simp only [Incomp, List.cons_prefix_cons, not_and]
  exact ⟨fun e => absurd e h, fun e => absurd e.symm h⟩

/-- prefix-freeness of a flat map -/
def PrefixFree {β : Type} (m : List (Path κ × β)) : Prop := m.Pairwise (fun a b => Incomp a.1 b.1)

theorem PrefixFree.nodup_paths {β : Type} {m : List (Path κ × β)} (h : PrefixFree m) : (m.map Prod.fst).Nodup := by
  rw [List.Nodup, List.pairwise_map]
  exact h.imp (fun hi => hi.ne)

theorem relKvs_head_mem (keep : Bool) (isLeaf : Path κ → Tree κ α → Bool) (kvs : List (κ × Tree κ α)) :
    ∀ pv ∈ relKvs keep isLeaf kvs, ∃ k q, pv.1 = k :: q ∧ ∃ kv ∈ kvs, kv.1 = k := by
  induction kvs with
  | nil => simp [relKvs]
  | cons x rest ih =>
    obtain ⟨k, c⟩ := x
    intro pv hpv
    simp only [relKvs, List.mem_append, List.mem_map] at hpv
    rcases hpv with ⟨q, _, rfl⟩ | h
    · exact ⟨k, q.1, rfl, (k, c), by simp, rfl⟩
    · obtain ⟨k', q, h1, kv, h2, h3⟩ := ih pv h
      exact ⟨k', q, h1, kv, by simp [h2], h3⟩

mutual
  theorem relT_prefixFree (keep : Bool) : ∀ (c : Tree κ α) (isLeaf : Path κ → Tree κ α → Bool), WF c →
      PrefixFree (relT keep isLeaf c)
    | .leaf v, isLeaf, _ => by simp [relT, PrefixFree]
    | .dict kvs, isLeaf, hwf => by
      have ih := relKvs_prefixFree keep kvs isLeaf (by simpa [WF] using hwf)
      simp only [relT]
      by_cases h1 : isLeaf [] (.dict kvs) = true
      · simp [h1, PrefixFree]
      · by_cases h2 : (keep && kvs.isEmpty) = true
        · simp [h1, h2, PrefixFree]
        · simpa only [h1, h2, Bool.false_eq_true, ↓reduceIte] using ih
  theorem relKvs_prefixFree (keep : Bool) : ∀ (kvs : List (κ × Tree κ α)) (isLeaf : Path κ → Tree κ α → Bool),
      WFKvs kvs → PrefixFree (relKvs keep isLeaf kvs)
    | [], isLeaf, _ => by simp [relKvs, PrefixFree]
    | (k, c) :: rest, isLeaf, hwf => by
      simp only [WFKvs] at hwf
      obtain ⟨hk, hc, hrest⟩ := hwf
      have h1 := relT_prefixFree keep c (fun p => isLeaf (k :: p)) hc
      have h2 := relKvs_prefixFree keep rest isLeaf hrest
      simp only [relKvs, PrefixFree, List.pairwise_append, List.pairwise_map]
      refine ⟨?_, h2, ?_⟩
      · exact h1.imp (fun hi => (incomp_cons k _ _).mpr hi)
      · intro a ha b hb
        simp only [List.mem_map] at ha
        obtain ⟨q, _, rfl⟩ := ha
        obtain ⟨k', q', hq', kv, hkv, hkk⟩ := relKvs_head_mem keep isLeaf rest b hb
        rw [hq']
        exact incomp_of_head_ne (fun e => hk kv hkv (by rw [hkk, e])) _ _
end

end

/-! ### `str.split` inverts `str.join` -/

/-- the separator does not occur in `x` followed by a proper prefix of the separator: no occurrence of `sep` in
`x ++ sep ++ …` starts inside `x`. For a one-character separator this is `sep ∉ x`. -/
def NoOverlap (sep x : List Char) : Prop := ¬ sep <:+: (x ++ sep.dropLast)

theorem NoOverlap.not_infix {sep x : List Char} (h : NoOverlap sep x) : ¬ sep <:+: x :=
  fun hi => h (hi.trans (List.infix_append' [] x sep.dropLast |> fun e => by simpa using List.prefix_append x sep.dropLast |>.isInfix))

theorem NoOverlap.tail {sep : List Char} {c : Char} {x : List Char} (h : NoOverlap sep (c :: x)) : NoOverlap sep x :=
  fun hi => h (by simpa using List.infix_cons hi)

theorem splitAux_skip (sep : List Char) (a rest cur : List Char) :
    splitAux sep (a ++ rest) cur a.length = splitAux sep rest cur 0 := by
  induction a with
  | nil => simp
  | cons c a ih => simpa [splitAux] using ih

theorem splitAux_last (sep : List Char) (hsep : sep ≠ []) : ∀ (x cur : List Char), ¬ sep <:+: x →
    splitAux sep x cur 0 = [cur.reverse ++ x] := by
  intro x
  induction x with
  | nil => intro cur _; simp [splitAux]
  | cons c x ih =>
    intro cur h
    have hp : sep.isPrefixOf (c :: x) = false := by
      cases hb : sep.isPrefixOf (c :: x) with
      | false => rfl
      | true => exact absurd (List.isPrefixOf_iff_prefix.mp hb).isInfix h
    simp only [splitAux, hp, Bool.false_eq_true, ↓reduceIte]
    rw [ih (c :: cur) (fun hi => h (List.infix_cons hi))]
    simp

theorem splitAux_piece (sep : List Char) (hsep : sep ≠ []) (rest : List Char) : ∀ (x cur : List Char),
    NoOverlap sep x → splitAux sep (x ++ sep ++ rest) cur 0 = (cur.reverse ++ x) :: splitAux sep rest [] 0 := by
  intro x
  induction x with
  | nil =>
    intro cur _
    cases sep with
    | nil => exact absurd rfl hsep
    | cons c sep' =>
      have hp : (c :: sep').isPrefixOf (c :: (sep' ++ rest)) = true :=
        List.isPrefixOf_iff_prefix.mpr (by simpa using List.prefix_append (c :: sep') rest)
      have := splitAux_skip (c :: sep') sep' rest []
      simp only [List.nil_append, List.cons_append, splitAux, hp, ↓reduceIte, List.length_cons,
        Nat.add_sub_cancel, List.append_nil]
      rw [this]
  | cons c x ih =>
    intro cur h
    have hp : sep.isPrefixOf (c :: (x ++ sep ++ rest)) = false := by
      cases hb : sep.isPrefixOf (c :: (x ++ sep ++ rest)) with
      | false => rfl
      | true =>
        exfalso
        have h1 : sep <+: (c :: x) ++ sep ++ rest := by simpa using List.isPrefixOf_iff_prefix.mp hb
        have h2 : (c :: x) ++ sep.dropLast <+: (c :: x) ++ sep ++ rest := by
          rw [List.append_assoc]
          exact (List.prefix_append_right_inj _).mpr ((List.dropLast_prefix sep).trans (List.prefix_append _ _))
        have hlen : sep.length ≤ ((c :: x) ++ sep.dropLast).length := by
          simp only [List.length_append, List.length_cons, List.length_dropLast]; omega
        exact h (List.prefix_of_prefix_length_le h1 h2 hlen).isInfix
    simp only [List.cons_append, splitAux, hp, Bool.false_eq_true, ↓reduceIte]
    have := ih (c :: cur) h.tail
    simp only [List.append_assoc] at this ⊢
    rw [this]
    simp

/-- `sep.join(path).split(sep) == path` for a non-empty path whose keys do not overlap the separator -/
theorem splitAux_joinL (sep : List Char) (hsep : sep ≠ []) : ∀ (path : List (List Char)), path ≠ [] →
    (∀ x ∈ path, NoOverlap sep x) → splitAux sep (joinL sep path) [] 0 = path := by
  intro path
  induction path with
  | nil => intro h; exact absurd rfl h
  | cons x rest ih =>
    intro _ hno
    cases rest with
    | nil =>
      simp only [joinL]
      rw [splitAux_last sep hsep x [] (hno x (by simp)).not_infix]
      simp
    | cons y rest =>
      simp only [joinL]
      rw [splitAux_piece sep hsep _ x [] (hno x (by simp)), ih (by simp) (fun z hz => hno z (by simp [hz]))]
      simp

theorem splitS_joinS (sep : String) (hsep : sep ≠ "") (path : List String) (hp : path ≠ [])
    (hno : ∀ k ∈ path, NoOverlap sep.toList k.toList) : splitS sep (joinS sep path) = .ok path := by
  have hs : sep.toList ≠ [] := by
    intro e
    apply hsep
    have := congrArg String.ofList e
    simpa using this
  have he : sep.toList.isEmpty = false := by
    cases h : sep.toList with
    | nil => exact absurd h hs
    | cons a l => rfl
  simp only [splitS, splitL, he, Bool.false_eq_true, ↓reduceIte, joinS, String.toList_ofList, Except.map]
  rw [splitAux_joinL sep.toList hs (path.map String.toList) (by simpa using hp)
    (by intro x hx; simp only [List.mem_map] at hx; obtain ⟨k, hk, rfl⟩ := hx; exact hno k hk)]
  simp

/-- for a one-character separator "does not overlap" is "does not contain" -/
theorem noOverlap_singleton (c : Char) (x : List Char) : NoOverlap [c] x ↔ c ∉ x := by
  simp only [NoOverlap, List.dropLast_singleton, List.append_nil]
  constructor
  · intro h hc
    obtain ⟨s, t, rfl⟩ := List.append_of_mem hc
    exact h ⟨s, t, by simp⟩
  · intro h ⟨s, t, e⟩
    exact h (by rw [← e]; simp)

mutual
  theorem relT_keys (keep : Bool) : ∀ (c : Tree κ α) (isLeaf : Path κ → Tree κ α → Bool),
      ∀ pv ∈ relT keep isLeaf c, ∀ k ∈ pv.1, k ∈ keysT c
    | .leaf v, isLeaf => by simp [relT]
    | .dict kvs, isLeaf => by
      have ih := relKvs_keys keep kvs isLeaf
      simp only [relT, keysT]
      by_cases h1 : isLeaf [] (.dict kvs) = true
      · simp [h1]
      · by_cases h2 : (keep && kvs.isEmpty) = true
        · simp [h1, h2]
        · simpa only [h1, h2, Bool.false_eq_true, ↓reduceIte] using ih
  theorem relKvs_keys (keep : Bool) : ∀ (kvs : List (κ × Tree κ α)) (isLeaf : Path κ → Tree κ α → Bool),
      ∀ pv ∈ relKvs keep isLeaf kvs, ∀ k ∈ pv.1, k ∈ keysKvs kvs
    | [], isLeaf => by simp [relKvs]
    | (k, c) :: rest, isLeaf => by
      have h1 := relT_keys keep c (fun p => isLeaf (k :: p))
      have h2 := relKvs_keys keep rest isLeaf
      intro pv hpv k' hk'
      simp only [relKvs, List.mem_append, List.mem_map] at hpv
      simp only [keysKvs, List.mem_cons, List.mem_append]
      rcases hpv with ⟨q, hq, rfl⟩ | h
      · simp only [List.mem_cons] at hk'
        rcases hk' with rfl | hk'
        · exact Or.inl rfl
        · exact Or.inr (Or.inl (h1 q hq k' hk'))
      · exact Or.inr (Or.inr (h2 pv h k' hk'))
end

end Flax.Traverse
