/- C08 proofs: `nnx.scan` — the number of iterations is the common size of every scanned leaf along its axis -/
import Flax.Proofs.NnxLoopScanIter
import Flax.Proofs.LiftLoopScan

namespace Flax.NnxLoop
open Flax.Filter Flax.LiftLoop

section sdims
variable {α : Type} [Inhabited α]

theorem scanDims_cons {x : SPure α} {r : List (SPure α)} {dims : List Nat} (h : scanDims (x :: r) = .ok dims) :
    ∃ dx dr, spureDims x = .ok dx ∧ scanDims r = .ok dr ∧ dims = dx ++ dr := by
  simp only [scanDims] at h
  cases hm : mapX spureDims (x :: r) with
  | error e => simp [hm] at h
  | ok ds =>
    simp only [hm] at h
    injection h with h
    obtain ⟨dx, dr, h1, h2, rfl⟩ := mapX_cons_ok hm
    exact ⟨dx, dr.flatten, h1, by simp [scanDims, h2], by simp [← h]⟩

/-- the leading size of a leaf moved to the front is its size along the axis -/
theorem leadDim_toFront {a F : Arr α} {k : Int} {d : Nat} (hF : Arr.toFront k a = .ok F) (hd : leadDim F = .ok d) :
    dimAt k a = .ok d := by
  have := leadDim_front a k
  rw [hF] at this
  simp only [bind, Except.bind, hd] at this
  exact opt_eq_some.1 this.symm

/-- **every scanned Variable / array contributes its size along its axis to lax.scan's length check** -/
theorem scanDims_mem (store : Store α) : ∀ (pas : List (Prefix × Arg α)) (np : NodePrefixes) (seen : List VarId)
    (si : ScanIn α) (dims : List Nat), scanSplitIn store pas np seen = .ok si → scanDims si.pure = .ok dims →
    (∀ ep ∈ ownedAll pas seen, ∀ k, ep.2.at ep.1 = .ok (.axis k) →
      ∃ v d, store.lookup ep.1.id = some v ∧ dimAt k v = .ok d ∧ d ∈ dims) ∧
    (∀ pa ∈ arrArgs pas, ∀ k, pa.1 = .ax (.axis k) → ∃ d, dimAt k pa.2 = .ok d ∧ d ∈ dims) := by
  intro pas
  induction pas with
  | nil => intro np seen si dims _ _; exact ⟨by simp [ownedAll], by simp [arrArgs]⟩
  | cons pa rest ih =>
    intro np seen si dims hs hd
    obtain ⟨p, arg⟩ := pa
    cases arg with
    | arr a =>
      obtain ⟨ax, r, rfl, hr, hsi⟩ := scanSplitIn_arr_ok hs
      cases ax with
      | carry =>
        simp only [] at hsi
        subst hsi
        obtain ⟨dx, dr, hx, hdr, rfl⟩ := scanDims_cons hd
        obtain ⟨ih1, ih2⟩ := ih np seen r dr hr hdr
        refine ⟨fun ep hep k hk => ?_, fun pa hpa k hk => ?_⟩
        · obtain ⟨v, d, e1, e2, e3⟩ := ih1 ep (by simpa [ownedAll] using hep) k hk
          exact ⟨v, d, e1, e2, List.mem_append_right _ e3⟩
        · simp only [arrArgs, List.mem_cons] at hpa
          rcases hpa with hpa | hpa
          · subst hpa; simp at hk
          · obtain ⟨d, e1, e2⟩ := ih2 pa hpa k hk
            exact ⟨d, e1, List.mem_append_right _ e2⟩
      | bcast =>
        simp only [] at hsi
        subst hsi
        obtain ⟨dx, dr, hx, hdr, rfl⟩ := scanDims_cons hd
        obtain ⟨ih1, ih2⟩ := ih np seen r dr hr hdr
        refine ⟨fun ep hep k hk => ?_, fun pa hpa k hk => ?_⟩
        · obtain ⟨v, d, e1, e2, e3⟩ := ih1 ep (by simpa [ownedAll] using hep) k hk
          exact ⟨v, d, e1, e2, List.mem_append_right _ e3⟩
        · simp only [arrArgs, List.mem_cons] at hpa
          rcases hpa with hpa | hpa
          · subst hpa; simp at hk
          · obtain ⟨d, e1, e2⟩ := ih2 pa hpa k hk
            exact ⟨d, e1, List.mem_append_right _ e2⟩
      | axis k0 =>
        simp only [] at hsi
        obtain ⟨a', ha', hsi⟩ := hsi
        subst hsi
        obtain ⟨dx, dr, hx, hdr, rfl⟩ := scanDims_cons hd
        obtain ⟨ih1, ih2⟩ := ih np seen r dr hr hdr
        refine ⟨fun ep hep k hk => ?_, fun pa hpa k hk => ?_⟩
        · obtain ⟨v, d, e1, e2, e3⟩ := ih1 ep (by simpa [ownedAll] using hep) k hk
          exact ⟨v, d, e1, e2, List.mem_append_right _ e3⟩
        · simp only [arrArgs, List.mem_cons] at hpa
          rcases hpa with hpa | hpa
          · subst hpa
            simp only [] at hk
            injection hk with hk
            injection hk with hk
            subst hk
            simp only [spureDims] at hx
            cases hl : liftL (leadDim a') with
            | error e => simp [hl] at hx
            | ok d =>
              simp only [hl] at hx
              injection hx with hx
              exact ⟨d, leadDim_toFront ha' (liftL_ok.1 hl), by simp [← hx]⟩
          · obtain ⟨d, e1, e2⟩ := ih2 pa hpa k hk
            exact ⟨d, e1, List.mem_append_right _ e2⟩
    | node es =>
      obtain ⟨np', flat, sts, vec, car, bc, r, hca, hfl, hsp, hrt, hr, rfl⟩ := scanSplitIn_node_ok hs
      obtain ⟨dx, dr, hx, hdr, rfl⟩ := scanDims_cons hd
      obtain ⟨ih1, ih2⟩ := ih np' _ r dr hr hdr
      refine ⟨fun ep hep k hk => ?_, fun pa hpa k hk => ?_⟩
      · simp only [ownedAll, List.mem_append, List.mem_map] at hep
        rcases hep with ⟨e, he, rfl⟩ | hep
        · simp only [] at hk ⊢
          obtain ⟨hfa, _⟩ := flatOf_eq_map hfl
          obtain ⟨v, hv, hm⟩ := hfa e he
          obtain ⟨hlen, hmem, hlt⟩ := splitFlat_spec hsp
          have hg := hlt _ hm
          simp only [] at hg
          have hga : groupIdx p e.path e.info < p.axes.length := by omega
          have hax : p.axes[groupIdx p e.path e.info] = .axis k := by
            have := (prefix_at_eq_axAt p e (.axis k)).1 hk
            simp only [axAt, List.getElem?_eq_getElem hga] at this
            exact Option.some.inj this
          obtain ⟨_, _, rv, rt⟩ := routeStates_spec hrt
          have hz : (Ax.axis k, sts[groupIdx p e.path e.info]) ∈ p.axes.zip sts :=
            mem_zip_iff.2 ⟨_, by rw [List.getElem?_eq_getElem hga, hax], List.getElem?_eq_getElem hg⟩
          obtain ⟨sF, hsF⟩ := rt k _ hz rfl
          have hsFv : sF ∈ vec := (rv sF).2 ⟨k, _, hz, by simpa using hsF⟩
          have hin : (e.path, v) ∈ sts[groupIdx p e.path e.info] :=
            (hmem _ _ (List.getElem?_eq_getElem hg) _).2 ⟨_, hm, rfl, rfl⟩
          obtain ⟨F, hF, hFm⟩ := leafMap_ok_mem hsF _ hin
          simp only [spureDims] at hx
          cases hm2 : mapX leadDims vec with
          | error e' => simp [hm2] at hx
          | ok ds =>
            simp only [hm2] at hx
            injection hx with hx
            obtain ⟨dg, hdg, hdgm⟩ := mapX_ok_mem hm2 sF hsFv
            obtain ⟨d, hd1, hd2⟩ := mapX_ok_mem hdg _ hFm
            refine ⟨v, d, hv, leadDim_toFront (liftL_ok.1 hF) (liftL_ok.1 hd1), List.mem_append_left _ ?_⟩
            rw [← hx]
            exact List.mem_flatten.2 ⟨dg, hdgm, hd2⟩
        · obtain ⟨v, d, e1, e2, e3⟩ := ih1 ep hep k hk
          exact ⟨v, d, e1, e2, List.mem_append_right _ e3⟩
      · obtain ⟨d, e1, e2⟩ := ih2 pa (by simpa [arrArgs] using hpa) k hk
        exact ⟨d, e1, List.mem_append_right _ e2⟩

/-- … so the number of iterations is the size of every scanned Variable and array along its axis, and `length` if given -/
theorem scan_sizes_eq_n (store : Store α) (pas : List (Prefix × Arg α)) (si : ScanIn α) (dims : List Nat)
    (length : Option Nat) (n : Nat) (hs : scanSplitIn store pas [] [] = .ok si) (hd : scanDims si.pure = .ok dims)
    (hn : jaxLength length dims = .ok n) :
    (∀ ep ∈ ownedAll pas [], ∀ k, ep.2.at ep.1 = .ok (.axis k) →
      ∃ v, store.lookup ep.1.id = some v ∧ dimAt k v = .ok n) ∧
    (∀ pa ∈ arrArgs pas, ∀ k, pa.1 = .ax (.axis k) → dimAt k pa.2 = .ok n) ∧
    (∀ m, length = some m → m = n) := by
  obtain ⟨h1, h2⟩ := scanDims_mem store pas [] [] si dims hs hd
  have hall := jaxLength_all hn
  refine ⟨?_, ?_, ?_⟩
  · intro ep hep k hk
    obtain ⟨v, d, e1, e2, e3⟩ := h1 ep hep k hk
    exact ⟨v, e1, by rw [← hall d e3]; exact e2⟩
  · intro pa hpa k hk
    obtain ⟨d, e1, e2⟩ := h2 pa hpa k hk
    rw [← hall d e2]; exact e1
  · intro m hm
    subst hm
    simp only [jaxLength] at hn
    split at hn
    · injection hn
    · cases hn

end sdims

end Flax.NnxLoop
