/- C08 proofs: `nnx.scan` — the converse, part 1: `_scan_split_in`, the length check and the per-iteration slicing do not
reject when the aliasing is consistent and every scanned leaf has size `n` along its axis -/
import Flax.Proofs.NnxLoopScanTop
import Flax.Proofs.NnxLoopVmapIff

namespace Flax.NnxLoop
open Flax.Filter Flax.LiftLoop

section scomp
variable {α : Type} [Inhabited α]

/-- a leaf with a size along `k` can be moved to the front, and its leading size is that size -/
theorem toFront_of_dimAt {a : Arr α} {k : Int} {n : Nat} (h : dimAt k a = .ok n) :
    ∃ F, Arr.toFront k a = .ok F ∧ leadDim F = .ok n := by
  have := leadDim_front a k
  rw [h] at this
  cases hF : Arr.toFront k a with
  | error e => rw [hF] at this; simp [bind, Except.bind] at this
  | ok F =>
    rw [hF] at this
    simp only [bind, Except.bind] at this
    exact ⟨F, rfl, opt_eq_some.1 this⟩

theorem routeStates_complete : ∀ (zs : List (Ax × State α)),
    (∀ k s, (Ax.axis k, s) ∈ zs → ∃ s', toFrontState k s = .ok s') → ∃ r, routeStates true zs = .ok r := by
  intro zs
  induction zs with
  | nil => intro _; exact ⟨_, rfl⟩
  | cons z zs ih =>
    intro h
    obtain ⟨a, s⟩ := z
    obtain ⟨r, hr⟩ := ih (fun k s' hm => h k s' (List.mem_cons_of_mem _ hm))
    obtain ⟨vec, car, bc⟩ := r
    cases a with
    | bcast => exact ⟨_, by simp only [routeStates, hr] <;> rfl⟩
    | carry => exact ⟨_, by simp only [routeStates, hr] <;> rfl⟩
    | axis k =>
      obtain ⟨s', hs'⟩ := h k s (by simp)
      exact ⟨(s' :: vec, car, bc), by simp only [routeStates, hr, if_true, hs']⟩

/-- what the array arguments of a scan may be -/
def ScanArrOK (n : Nat) (pa : Prefix × Arr α) : Prop :=
  (∃ k, pa.1 = .ax (.axis k) ∧ dimAt k pa.2 = .ok n) ∨ pa.1 = .ax .bcast ∨ pa.1 = .ax .carry

/-- **`_scan_split_in` does not reject** consistent aliasing with every scanned leaf of size `n` along its axis -/
theorem scanSplitIn_complete (store : Store α) (n : Nat) :
    ∀ (pas : List (Prefix × Arg α)) (np : NodePrefixes) (seen : List VarId) (npF : NodePrefixes),
      allPrefixes pas np = .ok npF → consistent npF = true →
      (∀ ep ∈ ownedAll pas seen, (store.lookup ep.1.id).isSome) →
      (∀ ep ∈ ownedAll pas seen, ∀ k, ep.2.at ep.1 = .ok (.axis k) →
        ∃ v, store.lookup ep.1.id = some v ∧ dimAt k v = .ok n) →
      (∀ pa ∈ arrArgs pas, ScanArrOK n pa) →
      ∃ si, scanSplitIn store pas np seen = .ok si := by
  intro pas
  induction pas with
  | nil => intro np seen npF _ _ _ _ _; exact ⟨_, rfl⟩
  | cons pa rest ih =>
    intro np seen npF h hc hst hsz harr
    obtain ⟨p, arg⟩ := pa
    cases arg with
    | arr a =>
      simp only [allPrefixes] at h
      obtain ⟨r, hr⟩ := ih np seen npF h hc (by simpa [ownedAll] using hst) (by simpa [ownedAll] using hsz)
        (fun q hq => harr q (by simp [arrArgs, hq]))
      rcases harr (p, a) (by simp [arrArgs]) with ⟨k, hk, hd⟩ | hb | hcr
      · simp only [] at hk hd
        subst hk
        obtain ⟨F, hF, _⟩ := toFront_of_dimAt hd
        exact ⟨_, by simp only [scanSplitIn, hr, hF, liftL] <;> rfl⟩
      · simp only [] at hb; subst hb
        exact ⟨_, by simp only [scanSplitIn, hr] <;> rfl⟩
      · simp only [] at hcr; subst hcr
        exact ⟨_, by simp only [scanSplitIn, hr] <;> rfl⟩
    | node es =>
      simp only [allPrefixes] at h
      cases hcol : collect p es np with
      | error e => simp [hcol] at h
      | ok np' =>
        simp only [hcol] at h
        obtain ⟨more, hm⟩ := allPrefixes_extends rest np' npF h
        have hc' : consistent np' = true := consistent_of_append (by rw [← hm]; exact hc)
        have hown : ∀ e ∈ ownedOf es (markOwn es seen).1, (store.lookup e.id).isSome :=
          fun e he => hst (e, p) (by simp only [ownedAll]; exact List.mem_append_left _ (List.mem_map.2 ⟨e, he, rfl⟩))
        have hcol' := hcol
        rw [collect_eq] at hcol'
        cases hl : leafPrefixes p es with
        | error e => simp [hl] at hcol'
        | ok l =>
          obtain ⟨_, hat⟩ := leafPrefixes_ok_at hl
          have hflat := flatOf_of_total _ _ hown
          obtain ⟨sts, hsts⟩ := splitFlat_ok_of_at p
            ((ownedOf es (markOwn es seen).1).map (fun e => (e.path, e.info, (store.lookup e.id).getD default)))
            (by
              intro x hx
              obtain ⟨e, he, rfl⟩ := List.mem_map.1 hx
              obtain ⟨a, ha, _⟩ := hat e (ownedOf_subset _ _ e he)
              refine ⟨a, ?_⟩
              cases p with
              | ax a' => simpa [Prefix.at] using ha
              | sa s => simpa [Prefix.at] using ha)
          obtain ⟨_, hmem, _⟩ := splitFlat_spec hsts
          obtain ⟨_, hfb⟩ := flatOf_eq_map hflat
          obtain ⟨rt, hrt⟩ := routeStates_complete (p.axes.zip sts) (by
            intro k s hz
            obtain ⟨g, hg1, hg2⟩ := mem_zip_iff.1 hz
            simp only [toFrontState, leafMap]
            apply mapX_ok_of_forall
            intro pv hpv
            obtain ⟨x, hx, he, hgx⟩ := (hmem g s hg2 pv).1 hpv
            obtain ⟨e, heo, hv, hp1, hp2⟩ := hfb x hx
            have hat' : p.at e = .ok (.axis k) := by
              rw [prefix_at_eq_axAt, ← hp1, ← hp2]; simp only [axAt, hgx, hg1]
            obtain ⟨v, hv', hd⟩ := hsz (e, p)
              (by simp only [ownedAll]; exact List.mem_append_left _ (List.mem_map.2 ⟨e, heo, rfl⟩)) k hat'
            simp only [] at hv'
            rw [hv] at hv'
            injection hv' with hv'
            obtain ⟨F, hF, _⟩ := toFront_of_dimAt hd
            subst he
            simp only []
            rw [hv', hF]
            exact ⟨_, rfl⟩)
          obtain ⟨vec, car, bc⟩ := rt
          obtain ⟨r, hr⟩ := ih np' (markOwn es seen).2 npF h hc
            (fun ep hep => hst ep (by simp only [ownedAll]; exact List.mem_append_right _ hep))
            (fun ep hep k hk => hsz ep (by simp only [ownedAll]; exact List.mem_append_right _ hep) k hk)
            (by simpa [arrArgs] using harr)
          exact ⟨_, by simp only [scanSplitIn, checkAliasing, hcol, hc', if_true, hflat, hsts, hrt, hr] <;> rfl⟩

/-- **lax.scan's length computation finds `n`, and slicing at every `i < n` works**: every leaf `lax.scan` is to slice
has leading size `n` -/
theorem scanDims_complete (store : Store α) (n : Nat) :
    ∀ (pas : List (Prefix × Arg α)) (np : NodePrefixes) (seen : List VarId) (si : ScanIn α),
      scanSplitIn store pas np seen = .ok si →
      (∀ ep ∈ ownedAll pas seen, ∀ k, ep.2.at ep.1 = .ok (.axis k) →
        ∃ v, store.lookup ep.1.id = some v ∧ dimAt k v = .ok n) →
      (∀ pa ∈ arrArgs pas, ∀ k, pa.1 = .ax (.axis k) → dimAt k pa.2 = .ok n) →
      (∃ dims, scanDims si.pure = .ok dims ∧ ∀ d ∈ dims, d = n) ∧
      (∀ i, i < n → ∃ xs, mapX (spureAt i) si.pure = .ok xs) := by
  intro pas
  induction pas with
  | nil =>
    intro np seen si hs _ _
    simp only [scanSplitIn] at hs; injection hs with hs; subst hs
    exact ⟨⟨[], rfl, by simp⟩, fun i _ => ⟨[], rfl⟩⟩
  | cons pa rest ih =>
    intro np seen si hs hsz harr
    obtain ⟨p, arg⟩ := pa
    -- a leaf of leading size n: its size is n and every slice i < n exists
    have hleaf : ∀ (F : Arr α), leadDim F = .ok n → ∀ i, i < n → ∃ v, liftL (F.take 0 i) = .ok v := by
      intro F hF i hi
      simp only [leadDim] at hF
      cases hsh : F.shape with
      | nil => simp [hsh] at hF
      | cons d ds =>
        simp only [hsh] at hF
        injection hF with hF
        have hi' : i < d := by omega
        refine ⟨Arr.ofFn (F.shape.eraseIdx 0) (fun j => F.getD (j.insertIdx 0 i)), ?_⟩
        simp [Arr.take, hsh, hi', liftL]
    have hcons : ∀ (x : SPure α) (r : ScanIn α) (dx : List Nat), spureDims x = .ok dx → (∀ d ∈ dx, d = n) →
        (∀ i, i < n → ∃ y, spureAt i x = .ok y) →
        ((∃ dims, scanDims r.pure = .ok dims ∧ ∀ d ∈ dims, d = n) ∧
          (∀ i, i < n → ∃ xs, mapX (spureAt i) r.pure = .ok xs)) →
        ((∃ dims, scanDims (x :: r.pure) = .ok dims ∧ ∀ d ∈ dims, d = n) ∧
          (∀ i, i < n → ∃ xs, mapX (spureAt i) (x :: r.pure) = .ok xs)) := by
      intro x r dx hdx hdn hat ⟨⟨dr, hdr, hall⟩, hsl⟩
      refine ⟨⟨dx ++ dr, ?_, ?_⟩, ?_⟩
      · simp only [scanDims] at hdr ⊢
        cases hm : mapX spureDims r.pure with
        | error e => simp [hm] at hdr
        | ok ds =>
          simp only [hm] at hdr
          injection hdr with hdr
          rw [mapX_cons_of_ok hdx hm]
          simp [hdr]
      · intro d hd
        rcases List.mem_append.1 hd with h | h
        · exact hdn d h
        · exact hall d h
      · intro i hi
        obtain ⟨y, hy⟩ := hat i hi
        obtain ⟨xs, hxs⟩ := hsl i hi
        exact ⟨y :: xs, mapX_cons_of_ok hy hxs⟩
    cases arg with
    | arr a =>
      obtain ⟨ax, r, rfl, hr, hsi⟩ := scanSplitIn_arr_ok hs
      have ihr := ih np seen r hr (by simpa [ownedAll] using hsz) (fun q hq k hk => harr q (by simp [arrArgs, hq]) k hk)
      cases ax with
      | carry =>
        simp only [] at hsi; subst hsi
        exact hcons (.arrCarry a) r [] rfl (by simp) (fun i _ => ⟨_, rfl⟩) ihr
      | bcast =>
        simp only [] at hsi; subst hsi
        exact hcons .hole r [] rfl (by simp) (fun i _ => ⟨_, rfl⟩) ihr
      | axis k =>
        simp only [] at hsi
        obtain ⟨a', ha', hsi⟩ := hsi
        subst hsi
        have hd := harr (.ax (.axis k), a) (by simp [arrArgs]) k rfl
        obtain ⟨F, hF, hlF⟩ := toFront_of_dimAt hd
        rw [ha'] at hF
        injection hF with hF
        subst hF
        refine hcons (.arrX k a') r [n] (by simp [spureDims, hlF, liftL]) (by simp) ?_ ihr
        intro i hi
        obtain ⟨v, hv⟩ := hleaf a' hlF i hi
        exact ⟨.arrX k v, by simp only [spureAt, hv] <;> rfl⟩
    | node es =>
      obtain ⟨np', flat, sts, vec, car, bc, r, hca, hfl, hsp, hrt, hr, rfl⟩ := scanSplitIn_node_ok hs
      have ihr := ih np' _ r hr
        (fun ep hep k hk => hsz ep (by simp only [ownedAll]; exact List.mem_append_right _ hep) k hk)
        (by simpa [arrArgs] using harr)
      obtain ⟨_, hmem, _⟩ := splitFlat_spec hsp
      obtain ⟨_, hfb⟩ := flatOf_eq_map hfl
      obtain ⟨_, _, rv, _⟩ := routeStates_spec hrt
      -- every leaf of every vectorised state has leading size n
      have hvleaf : ∀ sF ∈ vec, ∀ pvF ∈ sF, leadDim pvF.2 = .ok n := by
        intro sF hsF pvF hpvF
        obtain ⟨k, s, hz, hmv⟩ := (rv sF).1 hsF
        simp only [if_true] at hmv
        obtain ⟨pv0, hpv0, htf, _⟩ := leafMap_ok_mem_rev hmv pvF hpvF
        obtain ⟨g, hg1, hg2⟩ := mem_zip_iff.1 hz
        obtain ⟨x, hx, he, hgx⟩ := (hmem g s hg2 pv0).1 hpv0
        obtain ⟨e, heo, hv, hp1, hp2⟩ := hfb x hx
        have hat' : p.at e = .ok (.axis k) := by
          rw [prefix_at_eq_axAt, ← hp1, ← hp2]; simp only [axAt, hgx, hg1]
        obtain ⟨v, hv', hd⟩ := hsz (e, p)
          (by simp only [ownedAll]; exact List.mem_append_left _ (List.mem_map.2 ⟨e, heo, rfl⟩)) k hat'
        simp only [] at hv'
        rw [hv] at hv'
        injection hv' with hv'
        obtain ⟨F, hF, hlF⟩ := toFront_of_dimAt hd
        subst he
        have : Arr.toFront k x.2.2 = .ok pvF.2 := liftL_ok.1 htf
        rw [hv', hF] at this
        injection this with this
        rw [← this]; exact hlF
      have hdx : ∃ dx, spureDims (.node ⟨es, (markOwn es seen).1⟩ p vec) = .ok dx ∧ ∀ d ∈ dx, d = n := by
        have h1 : ∀ sF ∈ vec, leadDims sF = .ok (sF.map (fun _ => n)) := by
          intro sF hsF
          simp only [leadDims]
          exact mapX_eq_map _ (fun pvF hpvF => by rw [hvleaf sF hsF pvF hpvF]; rfl)
        have h2 := mapX_eq_map (f := leadDims) (g := fun (sF : State α) => sF.map (fun _ => n)) vec h1
        refine ⟨(vec.map (fun sF => sF.map (fun _ => n))).flatten, by simp only [spureDims, h2], ?_⟩
        intro d hd
        obtain ⟨l, hl, hdl⟩ := List.mem_flatten.1 hd
        obtain ⟨sF, _, rfl⟩ := List.mem_map.1 hl
        obtain ⟨_, _, he⟩ := List.mem_map.1 hdl
        exact he.symm
      obtain ⟨dx, hdx1, hdx2⟩ := hdx
      refine hcons _ r dx hdx1 hdx2 ?_ ihr
      intro i hi
      have : ∃ veci, mapX (take0State i) vec = .ok veci := by
        apply mapX_ok_of_forall
        intro sF hsF
        simp only [take0State, leafMap]
        apply mapX_ok_of_forall
        intro pvF hpvF
        obtain ⟨v, hv⟩ := hleaf pvF.2 (hvleaf sF hsF pvF hpvF) i hi
        exact ⟨(pvF.1, v), by simp only [hv]⟩
      obtain ⟨veci, hveci⟩ := this
      exact ⟨.node ⟨es, (markOwn es seen).1⟩ p veci, by simp only [spureAt, hveci] <;> rfl⟩

end scomp

end Flax.NnxLoop
