/-
C06: `lift.vmap` — the specification side (one call of the function per index on `jnp.take` slices, results
stacked along the declared out axes, `None`-axis collections shared) and the proof that the model of the
implementation equals it.
-/
import Flax.Proofs.LiftLoopScan

set_option linter.unusedSimpArgs false
set_option linter.unusedSectionVars false

namespace Flax.LiftLoop
open Flax.Filter
variable {α : Type} [Inhabited α]

/-- all role groups of a dict, one per filter: group `g` holds the keys whose first matching filter is `g` -/
def roleGroups {β : Type} (d : List (String × β)) (fs : List LFilter) : List (List (String × β)) :=
  (List.range fs.length).map (roleGroup d fs)

/-- the call at index `i`: collections with an axis are sliced along it, `None`-axis collections are passed
whole; afterwards the mutable collections are sorted by their first matching out filter -/
def mapCall (cfg : VmapCfg) (mutF : LFilter) (body : Body α) (outer : Vars α) (rngs : Rngs)
    (inArgAxes : List (Option Int)) (args : List (Arr α)) (dSize : Nat) (i : Nat) :
    Option (List (Arr α) × List (Vars α)) :=
  (opt (mapE (groupTakeAt i)
      ((cfg.inAx.map (·.axis)).zip (roleGroups outer (cfg.inAx.map (·.filter)))))).bind fun sv =>
  (iterArgs inArgAxes args i).bind fun xs =>
  (opt (body mutF (mergeGroups sv) (mergeGroups (iterRngGroups cfg.splitRngs rngs dSize i)) [] xs)).bind fun r =>
  some (r.2.2, roleGroups (r.1.filter (fun kv => inFilter mutF kv.1)) (cfg.outAx.map (·.filter)))

/-- the sizes of everything that is mapped, along the declared axes -/
def mapDims (cfg : VmapCfg) (outer : Vars α) (rngs : Rngs) (inArgAxes : List (Option Int))
    (args : List (Arr α)) (dSize : Nat) : Option (List Nat) :=
  (opt (mapE groupDimAt
      ((cfg.inAx.map (·.axis)).zip (roleGroups outer (cfg.inAx.map (·.filter)))))).bind fun d1 =>
  (opt (mapE argDimAt (inArgAxes.zip args))).bind fun d3 =>
  some (d1.flatten
    ++ ((List.range cfg.splitRngs.length).zip cfg.splitRngs).flatMap (fun p =>
        if p.2.2 then (roleGroup rngs (cfg.splitRngs.map (·.1)) p.1).map (fun _ => dSize) else [])
    ++ d3.flatten)

/-- **the per-index map** that `lift.vmap` is claimed to equal -/
def mapSpec (cfg : VmapCfg) (verdict : Bool) (body : Body α) (scopeMut : LFilter) (outer : Vars α)
    (rngs : Rngs) (args : List (Arr α)) : Option (Result α) :=
  let inFs := cfg.inAx.map (·.filter)
  let outFs := cfg.outAx.map (·.filter)
  let mutF := innerMutable scopeMut outFs
  (opt (vmapSizes (cfg.inAx.map (·.axis)) (roleGroups outer inFs) cfg.inAxes args)).bind fun sizes =>
  (opt (decideLength cfg.axisSize sizes)).bind fun dSize =>
  (opt (cfg.inAxes.expand args.length)).bind fun inArgAxes =>
  (mapDims cfg outer rngs inArgAxes args dSize).bind fun dims =>
  (opt (jaxLength cfg.axisSize dims)).bind fun n =>
  (mapO (mapCall cfg mutF body outer rngs inArgAxes args dSize) (List.range n)).bind fun outs =>
  match outs.head? with
  | none => none
  | some o0 =>
    (opt (cfg.outAxes.expand o0.1.length)).bind fun outYAxes =>
    if !verdict then none else
    (opt (mapE (vmapY o0.1 outs) ((List.range outYAxes.length).zip outYAxes))).bind fun ys =>
    (opt (mapE (vmapV o0.2 outs) ((List.range cfg.outAx.length).zip (cfg.outAx.map (·.axis))))).bind fun svOut =>
    some { vars := publish scopeMut outer svOut, carry := [], ys := ys }

/-! ### proof -/

theorem minKey_mem {β : Type} : ∀ (l : List (String × β)) (kv : String × β), minKey l = some kv → kv ∈ l := by
  intro l
  induction l with
  | nil => intro kv h; simp [minKey] at h
  | cons x xs ih =>
    intro kv h
    simp only [minKey] at h
    cases hm : minKey xs with
    | none => simp [hm] at h; subst h; simp
    | some m =>
      simp only [hm] at h
      split at h
      · injection h with h; subst h; simp
      · injection h with h; subst h; exact List.mem_cons_of_mem _ (ih m hm)

theorem firstLeaf_mem (g : Vars α) (a : Arr α) (h : firstLeaf g = some a) : a ∈ Vars.leaves g := by
  unfold firstLeaf at h
  cases hm : minKey (g.filter (fun cc => !cc.2.isEmpty)) with
  | none => simp [hm] at h
  | some cc =>
    simp only [hm] at h
    have hcc : cc ∈ g := (List.mem_filter.1 (minKey_mem _ cc hm)).1
    cases hn : minKey cc.2 with
    | none => simp [hn] at h
    | some nv =>
      simp [hn] at h
      subst h
      have hnv := minKey_mem _ nv hn
      simp only [Vars.leaves, List.mem_flatMap, List.mem_map]
      exact ⟨cc, hcc, nv, hnv, rfl⟩

theorem mapE_mem {β γ : Type} {f : β → Except Err γ} : ∀ (l : List β) (r : List γ), mapE f l = .ok r →
    ∀ x ∈ l, ∀ y, f x = .ok y → y ∈ r := by
  intro l
  induction l with
  | nil => intro r _ x hx; cases hx
  | cons a as ih =>
    intro r h x hx y hy
    obtain ⟨b, bs, hb, hbs, rfl⟩ := mapE_cons_ok h
    simp only [List.mem_cons] at hx
    rcases hx with rfl | hx
    · rw [hb] at hy; injection hy with hy; subst hy; simp
    · exact List.mem_cons_of_mem _ (ih bs hbs x hx y hy)

/-- the sizes flax reads off the first leaf of every mapped group are among the sizes jax.vmap checks -/
theorem groupSizes_sub (Z : List (Option Int × Vars α)) : ∀ (l1 : List (Option Nat)) (d1 : List (List Nat)),
    mapE groupSizeOpt Z = .ok l1 →
    mapE groupDimAt Z = .ok d1 → ∀ d ∈ l1.filterMap id, d ∈ d1.flatten := by
  induction Z with
  | nil => intro l1 d1 h1 _; simp [mapE] at h1; subst h1; simp
  | cons p ps ih =>
    intro l1 d1 h1 h2 d hd
    obtain ⟨g, gs, hg, hgs, rfl⟩ := mapE_cons_ok h1
    obtain ⟨e, es, he, hes, rfl⟩ := mapE_cons_ok h2
    simp only [List.filterMap_cons] at hd
    simp only [List.flatten_cons, List.mem_append]
    cases hgv : g with
    | none =>
      subst hgv
      simp only [id] at hd
      exact Or.inr (ih gs es hgs hes d hd)
    | some v =>
      subst hgv
      simp only [id, List.mem_cons] at hd
      rcases hd with hdv | hd
      · left
        subst hdv
        unfold groupSizeOpt at hg
        cases hax : p.1 with
        | none => simp [hax] at hg
        | some ax =>
          cases hfl : firstLeaf p.2 with
          | none => simp [hax, hfl] at hg
          | some a =>
            simp only [hax, hfl] at hg
            cases hs : shapeAt a ax with
            | error e' => simp [hs, Except.map] at hg
            | ok w =>
              simp [hs, Except.map] at hg
              subst hg
              simp only [groupDimAt, hax] at he
              exact mapE_mem _ _ he a (firstLeaf_mem _ _ hfl) w (by simpa [dimAt] using hs)
      · exact Or.inr (ih gs es hgs hes d hd)

theorem vmap_n_eq_dSize (cfg : VmapCfg) (outer : Vars α) (rngs : Rngs) (inArgAxes : List (Option Int))
    (args : List (Arr α)) (sizes : List Nat) (dSize : Nat) (dims : List Nat) (n : Nat)
    (hsizes : vmapSizes (cfg.inAx.map (·.axis)) (roleGroups outer (cfg.inAx.map (·.filter))) cfg.inAxes args
      = .ok sizes)
    (hdl : decideLength cfg.axisSize sizes = .ok dSize)
    (hexp : cfg.inAxes.expand args.length = .ok inArgAxes)
    (hd : mapDims cfg outer rngs inArgAxes args dSize = some dims)
    (hj : jaxLength cfg.axisSize dims = .ok n) : n = dSize := by
  unfold mapDims at hd
  cases h1 : opt (mapE groupDimAt ((cfg.inAx.map (·.axis)).zip (roleGroups outer (cfg.inAx.map (·.filter))))) with
  | none => simp [h1] at hd
  | some d1 =>
    cases h3 : opt (mapE argDimAt (inArgAxes.zip args)) with
    | none => simp [h1, h3] at hd
    | some d3 =>
      simp [h1, h3] at hd
      subst hd
      refine length_agrees cfg.axisSize sizes _ dSize n hdl hj ?_
      intro x hxm
      unfold vmapSizes at hsizes
      simp only [bind, Except.bind] at hsizes
      cases hl1 : mapE groupSizeOpt
          ((cfg.inAx.map (·.axis)).zip (roleGroups outer (cfg.inAx.map (·.filter)))) with
      | error e => simp [hl1] at hsizes
      | ok l1 =>
        simp only [hl1] at hsizes
        cases hl2 : argSizes cfg.inAxes args with
        | error e => simp [hl2] at hsizes
        | ok l2 =>
          simp [hl2, pure, Except.pure] at hsizes
          subst hsizes
          simp only [List.mem_append] at hxm ⊢
          rcases hxm with hxm | hxm
          · exact Or.inl (groupSizes_sub _ l1 d1 hl1 (opt_eq_some.1 h1) x hxm)
          · exact Or.inr (Or.inr (argSizes_sub cfg.inAxes args l2 inArgAxes d3 hl2 hexp (opt_eq_some.1 h3) x hxm))

theorem vmapCall_opt (cfg : VmapCfg) (m : LFilter) (body : Body α) (outer : Vars α) (rngs : Rngs)
    (inArgAxes : List (Option Int)) (args : List (Arr α)) (dSize : Nat) (i : Nat) (hi : i < dSize) :
    opt (vmapCall (innerMutable m (cfg.outAx.map (·.filter))) (cfg.outAx.map (·.filter)) body
        (cfg.inAx.map (·.axis)) (roleGroups outer (cfg.inAx.map (·.filter)))
        (splitGroups (groupDict rngs (cfg.splitRngs.map (·.1))) (cfg.splitRngs.map (·.2)) dSize)
        inArgAxes args i) =
      mapCall cfg (innerMutable m (cfg.outAx.map (·.filter))) body outer rngs inArgAxes args dSize i := by
  unfold vmapCall mapCall iterArgs
  simp only [rngAt_splitGroups _ _ _ _ hi, repack_eq]
  cases hsv : mapE (groupTakeAt i) ((cfg.inAx.map (·.axis)).zip (roleGroups outer (cfg.inAx.map (·.filter)))) with
  | error e => simp [bind, Except.bind]
  | ok sv =>
    cases hxs : mapE (argTakeAt i) (inArgAxes.zip args) with
    | error e => simp [bind, Except.bind]
    | ok xs =>
      simp only [bind, Except.bind, pure, Except.pure, opt_ok, Option.bind_some]
      cases body (innerMutable m (cfg.outAx.map (·.filter))) (mergeGroups sv)
          (mergeGroups (iterRngGroups cfg.splitRngs rngs dSize i)) [] xs with
      | error e => rfl
      | ok r => simp [roleGroups]

/-- **`lift.vmap` is the per-index map** (success and result; which error is raised is not compared) -/
theorem liftVmap_opt (cfg : VmapCfg) (verdict : Bool) (body : Body α) (scopeMut : LFilter) (outer : Vars α)
    (rngs : Rngs) (args : List (Arr α)) :
    opt (liftVmap cfg verdict body scopeMut outer rngs args) = mapSpec cfg verdict body scopeMut outer rngs args := by
  unfold liftVmap mapSpec
  have hg : groupDict outer (cfg.inAx.map (·.filter)) = roleGroups outer (cfg.inAx.map (·.filter)) :=
    groupDict_eq _ _
  simp only [bind, Except.bind, hg]
  cases hsizes : vmapSizes (cfg.inAx.map (·.axis)) (roleGroups outer (cfg.inAx.map (·.filter))) cfg.inAxes args with
  | error e => simp
  | ok sizes =>
    simp only [opt_ok, Option.bind_some]
    cases hdl : decideLength cfg.axisSize sizes with
    | error e => simp
    | ok dSize =>
      simp only [opt_ok, Option.bind_some]
      cases hexp : cfg.inAxes.expand args.length with
      | error e => simp
      | ok inArgAxes =>
        simp only [opt_ok, Option.bind_some]
        have hdims : opt (vmapDims (cfg.inAx.map (·.axis)) (roleGroups outer (cfg.inAx.map (·.filter)))
            (splitGroups (groupDict rngs (cfg.splitRngs.map (·.1))) (cfg.splitRngs.map (·.2)) dSize) inArgAxes args)
            = mapDims cfg outer rngs inArgAxes args dSize := by
          unfold vmapDims mapDims
          simp only [opt_bind, opt_pure, rngDims_splitGroups]
        cases hd : vmapDims (cfg.inAx.map (·.axis)) (roleGroups outer (cfg.inAx.map (·.filter)))
            (splitGroups (groupDict rngs (cfg.splitRngs.map (·.1))) (cfg.splitRngs.map (·.2)) dSize) inArgAxes args with
        | error e =>
          rw [hd] at hdims
          simp only [opt_error] at hdims
          simp [← hdims]
        | ok dims =>
          rw [hd] at hdims
          simp only [opt_ok] at hdims
          rw [← hdims]
          simp only [Option.bind_some]
          cases hj : jaxLength cfg.axisSize dims with
          | error e => simp
          | ok n =>
            simp only [opt_ok, Option.bind_some]
            have hn := vmap_n_eq_dSize cfg outer rngs inArgAxes args sizes dSize dims n hsizes hdl hexp
              hdims.symm hj
            have hcalls : opt (jaxVmap n (vmapCall (innerMutable scopeMut (cfg.outAx.map (·.filter)))
                (cfg.outAx.map (·.filter)) body (cfg.inAx.map (·.axis))
                (roleGroups outer (cfg.inAx.map (·.filter)))
                (splitGroups (groupDict rngs (cfg.splitRngs.map (·.1))) (cfg.splitRngs.map (·.2)) dSize)
                inArgAxes args)) =
              mapO (mapCall cfg (innerMutable scopeMut (cfg.outAx.map (·.filter))) body outer rngs inArgAxes
                args dSize) (List.range n) := by
              unfold jaxVmap
              rw [opt_mapE]
              apply mapO_congr
              intro i hi
              exact vmapCall_opt cfg scopeMut body outer rngs inArgAxes args dSize i
                (by have := List.mem_range.1 hi; omega)
            cases hout : jaxVmap n (vmapCall (innerMutable scopeMut (cfg.outAx.map (·.filter)))
                (cfg.outAx.map (·.filter)) body (cfg.inAx.map (·.axis))
                (roleGroups outer (cfg.inAx.map (·.filter)))
                (splitGroups (groupDict rngs (cfg.splitRngs.map (·.1))) (cfg.splitRngs.map (·.2)) dSize)
                inArgAxes args) with
            | error e =>
              rw [hout] at hcalls
              simp only [opt_error] at hcalls
              simp [← hcalls]
            | ok outs =>
              rw [hout] at hcalls
              simp only [opt_ok] at hcalls
              rw [← hcalls]
              simp only [Option.bind_some]
              cases outs.head? with
              | none => simp [throw, throwThe, MonadExceptOf.throw]
              | some o0 =>
                simp only []
                cases cfg.outAxes.expand o0.1.length with
                | error e => simp
                | ok outYAxes =>
                  simp only [opt_ok, Option.bind_some]
                  cases verdict with
                  | false => simp [throw, throwThe, MonadExceptOf.throw]
                  | true =>
                    simp only [Bool.not_true, Bool.false_eq_true, if_false]
                    cases mapE (vmapY o0.1 outs) ((List.range outYAxes.length).zip outYAxes) with
                    | error e => simp
                    | ok ys =>
                      simp only [opt_ok, Option.bind_some]
                      cases mapE (vmapV o0.2 outs) ((List.range cfg.outAx.length).zip (cfg.outAx.map (·.axis))) with
                      | error e => simp
                      | ok svOut => simp [pure, Except.pure]

end Flax.LiftLoop
