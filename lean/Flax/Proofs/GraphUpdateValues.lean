/- C03 helper lemmas: the value-level effect of `update` for arbitrary states (last write wins) -/
import Flax.Proofs.GraphUpdateFrame
set_option linter.unusedSimpArgs false
set_option linter.unusedVariables false
namespace Flax.Graph
open Flax.Heap

/-! ### `update` with arbitrary states: every Variable ends up with the fold of the leaves that reach it -/

mutual
  /-- the leaves of a state tree with their paths, in the order `_graph_update_dynamic` visits them -/
  def leavesOf : STree → List (Path × Leaf)
    | .leaf l => [([], l)]
    | .node items => leavesOfItems items
  def leavesOfItems : List (Key × STree) → List (Path × Leaf)
    | [] => []
    | (k, s) :: r => (leavesOf s).map (fun pl => (k :: pl.1, pl.2)) ++ leavesOfItems r
end

/-- `_update_variable` -/
def applyLeaf : Obj → Leaf → Obj
  | .var ty _ _, .vstate _ v' m' => .var ty v' m'
  | .var ty _ m, .arr d => .var ty d m
  | o, _ => o

def isVarObj : Obj → Bool
  | .var _ _ _ => true
  | _ => false

theorem applyLeaf_var (o : Obj) (l : Leaf) (h : isVarObj o = true) : isVarObj (applyLeaf o l) = true := by
  cases o <;> cases l <;> simp_all [applyLeaf, isVarObj]

/-- the leaves whose path leads from `v` to the object `a` -/
def hits (h : Heap) (v : PVal) (a : Addr) (ls : List (Path × Leaf)) : List (Path × Leaf) :=
  ls.filter (fun pl => decide (resolve h v pl.1 = some (.ref a)))

def applyAll (o : Obj) (ls : List (Path × Leaf)) : Obj := ls.foldl (fun o pl => applyLeaf o pl.2) o

theorem applyAll_var (o : Obj) (ls : List (Path × Leaf)) (h : isVarObj o = true) : isVarObj (applyAll o ls) = true := by
  induction ls generalizing o with
  | nil => exact h
  | cons x r ih => exact ih _ (applyLeaf_var o x.2 h)

theorem applyAll_append (o : Obj) (l1 l2 : List (Path × Leaf)) : applyAll o (l1 ++ l2) = applyAll (applyAll o l1) l2 := by
  simp [applyAll, List.foldl_append]

theorem resolve_ref_sim {h : Heap} {v w : PVal} (hvw : ValSim v w) (p : Path) (a : Addr) :
    resolve h v p = some (.ref a) ↔ resolve h w p = some (.ref a) := by
  have key : ∀ {x y : PVal}, ValSim x y → resolve h x p = some (.ref a) → resolve h y p = some (.ref a) := by
    intro x y hxy hr
    have := resolve_sim (SameShape.refl h) p x y hxy
    rw [hr] at this
    cases h2 : resolve h y p with
    | none => rw [h2] at this; cases this
    | some z =>
      rw [h2] at this
      rcases this with e | ⟨d, d', e1, _⟩
      · rw [← e]
      · cases e1
  exact ⟨key hvw, key hvw.symm⟩

theorem hits_congr_heap {h h1 : Heap} (ss : SameShape h h1) (v : PVal) (a : Addr) (ls : List (Path × Leaf)) :
    hits h1 v a ls = hits h v a ls := by
  unfold hits
  apply List.filter_congr
  intro pl _
  have : resolve h1 v pl.1 = some (.ref a) ↔ resolve h v pl.1 = some (.ref a) :=
    ⟨resolve_ref_iff ss.symm pl.1 v a, resolve_ref_iff ss pl.1 v a⟩
  simp [this]

theorem hits_congr_val {h : Heap} {v w : PVal} (hvw : ValSim v w) (a : Addr) (ls : List (Path × Leaf)) :
    hits h v a ls = hits h w a ls := by
  unfold hits
  apply List.filter_congr
  intro pl _
  simp [resolve_ref_sim hvw pl.1 a]

/-- the hits below key `k` are the hits of the child -/
theorem hits_child {h : Heap} {v cur : PVal} {k : Key} (hstep : step h v k = some cur) (a : Addr) (ls : List (Path × Leaf)) :
    hits h v a (ls.map (fun pl => (k :: pl.1, pl.2))) = (hits h cur a ls).map (fun pl => (k :: pl.1, pl.2)) := by
  unfold hits
  rw [List.filter_map]
  congr 1
  apply List.filter_congr
  intro pl _
  simp [Function.comp, resolve, hstep]

theorem applyAll_map_path (o : Obj) (k : Key) (ls : List (Path × Leaf)) :
    applyAll o (ls.map (fun pl => (k :: pl.1, pl.2))) = applyAll o ls := by
  unfold applyAll
  rw [List.foldl_map]

theorem hits_nil_of_not_ref {h : Heap} {v : PVal} {a : Addr} {l : Leaf} (hv : ∀ b, v ≠ .ref b) :
    hits h v a [([], l)] = [] := by
  simp only [hits, List.filter_cons, resolve]
  have : ¬ (some v = some (PVal.ref a)) := fun e => hv a (Option.some.inj e)
  simp [this]

mutual
  /-- **last write wins**: after `update`, every Variable holds the result of applying, in state order, exactly
  the leaves whose path reaches it (and is untouched when there is none) -/
  theorem updateVal_values : ∀ (s : STree) (h : Heap) (v : PVal) (h' : Heap), updateVal s h v = .ok h' →
      ∀ (a : Nat) (o : Obj), h[a]? = some o → isVarObj o = true →
        h'[a]? = some (applyAll o (hits h v a (leavesOf s)))
    | s, h, .static _, h', hu, _, _, _, _ => by simp [updateVal] at hu
    | s, h, .array _, h', hu, _, _, _, _ => by simp [updateVal] at hu
    | .leaf _, h, .none, h', hu, _, _, _, _ => by simp [updateVal] at hu
    | .node items, h, .none, h', hu, a, o, ho, hv => by
      simp only [updateVal] at hu
      exact updateItems_values items h Option.none [] h' PVal.none (fun _ => trivial) (fun a0 ha0 => by cases ha0)
        (fun a0 ha0 => by cases ha0) hu a o ho hv
    | .leaf _, h, .seq _ _, h', hu, _, _, _, _ => by simp [updateVal] at hu
    | .node items, h, .seq t xs, h', hu, a, o, ho, hv => by
      simp only [updateVal] at hu
      exact updateItems_values items h Option.none _ h' (.seq t xs)
        (fun k => by simp only [step]; cases lookupKV k (enumFrom 0 xs) <;> first | trivial | exact Or.inl rfl)
        (fun a0 ha0 => by cases ha0) (fun a0 ha0 => by cases ha0) hu a o ho hv
    | .leaf _, h, .dict _, h', hu, _, _, _, _ => by simp [updateVal] at hu
    | .node items, h, .dict kvs, h', hu, a, o, ho, hv => by
      simp only [updateVal] at hu
      exact updateItems_values items h Option.none _ h' (.dict kvs)
        (fun k => by simp only [step]; cases lookupKV k kvs <;> first | trivial | exact Or.inl rfl)
        (fun a0 ha0 => by cases ha0) (fun a0 ha0 => by cases ha0) hu a o ho hv
    | .leaf l, h, .ref a0, h', hu, a, o, ho, hv => by
      simp only [updateVal] at hu
      split at hu
      · cases hu
      · next ty val md hget =>
        by_cases e : a0 = a
        · subst e
          rw [hget] at ho; cases ho
          have hlt : a0 < h.length := (List.getElem?_eq_some_iff.mp hget).1
          have hh : hits h (.ref a0) a0 (leavesOf (.leaf l)) = [([], l)] := by simp [hits, leavesOf, resolve]
          rw [hh]
          cases l with
          | vstate ty' val' md' => simp at hu; subst hu; rw [write_get _ _ _ hlt]; rfl
          | arr d => simp at hu; subst hu; rw [write_get _ _ _ hlt]; rfl
        · have hh : hits h (.ref a0) a (leavesOf (.leaf l)) = [] := by
            simp [hits, leavesOf, resolve, e]
          rw [hh]
          have hne : a ≠ a0 := fun x => e x.symm
          cases l with
          | vstate ty' val' md' => simp at hu; subst hu; rw [write_frame _ _ _ _ hne]; exact ho
          | arr d => simp at hu; subst hu; rw [write_frame _ _ _ _ hne]; exact ho
      · cases hu
    | .node items, h, .ref a0, h', hu, a, o, ho, hv => by
      simp only [updateVal] at hu
      split at hu
      · cases hu
      · cases items with
        | nil => simp at hu; subst hu; simp [leavesOf, leavesOfItems, hits, applyAll, ho]
        | cons _ _ => cases hu
      · next cls attrs hget =>
        exact updateItems_values items h (some a0) attrs h' (.ref a0)
          (fun k => by simp only [step, hget]; cases lookupKV k attrs <;> first | trivial | exact Or.inl rfl)
          (fun a0' ha0' => by cases ha0'; rfl)
          (fun a' ha' => by cases ha'; exact ⟨cls, attrs, hget, forall₂_refl SlotShape.refl attrs⟩) hu a o ho hv
  theorem updateItems_values : ∀ (items : List (Key × STree)) (h : Heap) (owner : Option Addr)
      (attrs : List (Key × PVal)) (h' : Heap) (v : PVal),
      (∀ k, OptSim (step h v k) (lookupKV k attrs)) → (∀ a0, owner = some a0 → v = .ref a0) →
      OwnerOk h owner attrs → updateItems items h owner attrs = .ok h' →
      ∀ (a : Nat) (o : Obj), h[a]? = some o → isVarObj o = true →
        h'[a]? = some (applyAll o (hits h v a (leavesOfItems items)))
    | [], h, _, _, h', _, _, _, _, hu, a, o, ho, _ => by
      simp [updateItems] at hu; subst hu; simp [leavesOfItems, hits, applyAll, ho]
    | (k, s) :: rest, h, owner, attrs, h', v, hstep, hov, ok, hu, a, o, ho, hv => by
      have hsplit : ∃ h1, updateItems [(k, s)] h owner attrs = .ok h1 ∧ updateItems rest h1 owner attrs = .ok h' := by
        simp only [updateItems] at hu ⊢
        split at hu
        · cases hu
        · next cur hcur =>
          split at hu
          · cases hu
          · next h1 hr => exact ⟨h1, by simp only [hr], hu⟩
      obtain ⟨h1, hfirst, hrest⟩ := hsplit
      have ss1 : SameShape h h1 := updateItems_shape [(k, s)] h owner attrs h1 ok hfirst
      -- the first item
      have f1 : ∃ cur', step h v k = some cur' ∧ h1[a]? = some (applyAll o (hits h cur' a (leavesOf s))) := by
        simp only [updateItems] at hfirst
        split at hfirst
        · cases hfirst
        · next cur hcur =>
          have hs := hstep k
          rw [hcur] at hs
          cases hst : step h v k with
          | none => rw [hst] at hs; cases hs
          | some cur' =>
            rw [hst] at hs
            refine ⟨cur', rfl, ?_⟩
            rw [hits_congr_val hs]
            split at hfirst
            · cases hfirst
            · next h1' hr =>
              simp [updateItems] at hfirst; subst hfirst
              cases cur with
              | static _ => cases hr
              | array d0 =>
                cases owner with
                | none => cases hr
                | some a0 =>
                  simp only at hr
                  split at hr
                  · next d =>
                    cases hr
                    rw [show leavesOf (.leaf (.arr d)) = [([], Leaf.arr d)] from rfl,
                      hits_nil_of_not_ref (fun b e => by cases e)]
                    simp only [applyAll, List.foldl_nil]
                    unfold setAttr
                    split
                    · next cls live hl =>
                      have hne : a ≠ a0 := by
                        intro e; subst e; rw [hl] at ho; cases ho; simp [isVarObj] at hv
                      rw [write_frame _ _ _ _ hne]; exact ho
                    · exact ho
                  · cases hr
              | ref b =>
                simp only at hr
                split at hr
                · cases hr
                · exact updateVal_values s h _ _ hr a o ho hv
                · split at hr
                  · cases hr
                  · exact updateVal_values s h _ _ hr a o ho hv
              | none =>
                simp only at hr
                split at hr
                · cases hr
                · exact updateVal_values s h _ _ hr a o ho hv
              | seq t xs =>
                simp only at hr
                split at hr
                · cases hr
                · exact updateVal_values s h _ _ hr a o ho hv
              | dict kvs =>
                simp only at hr
                split at hr
                · cases hr
                · exact updateVal_values s h _ _ hr a o ho hv
      obtain ⟨cur', hst, hf1⟩ := f1
      have f2 := updateItems_values rest h1 owner attrs h' v
        (fun k' => (step_sim ss1.symm v k').trans (hstep k')) hov (ok.step ss1) hrest a _ hf1
        (applyAll_var o _ hv)
      rw [f2, hits_congr_heap ss1]
      simp only [leavesOfItems, hits, List.filter_append]
      rw [applyAll_append]
      have := hits_child hst a (leavesOf s)
      simp only [hits] at this
      rw [this, applyAll_map_path]
end

end Flax.Graph
