import Flax.Model.CloneCache

namespace Flax.CloneCache

/-- the cache is a partial injection into ids below the counter -/
structure Inv (c : Cache) (n : Nat) : Prop where
  below : ∀ i j, clookup i c = some j → j < n
  inj : ∀ i i' j, clookup i c = some j → clookup i' c = some j → i = i'

theorem clookup_cons_self (i v : Nat) (c : Cache) : clookup i ((i, v) :: c) = some v := by simp [clookup]

theorem clookup_cons_ne {i k : Nat} (v : Nat) (c : Cache) (h : k ≠ i) : clookup i ((k, v) :: c) = clookup i c := by
  simp [clookup, h]

theorem Inv.extend {c : Cache} {n : Nat} (h : Inv c n) (i : Nat) (hi : clookup i c = none) : Inv ((i, n) :: c) (n + 1) := by
  constructor
  · intro a j ha
    by_cases hk : i = a
    · subst hk; rw [clookup_cons_self] at ha; injection ha with ha; omega
    · rw [clookup_cons_ne _ _ hk] at ha; exact Nat.lt_succ_of_lt (h.below a j ha)
  · intro a a' j ha ha'
    by_cases hk : i = a
    · subst hk
      rw [clookup_cons_self] at ha; injection ha with ha
      by_cases hk' : i = a'
      · exact hk'
      · rw [clookup_cons_ne _ _ hk'] at ha'
        have := h.below a' j ha'; omega
    · rw [clookup_cons_ne _ _ hk] at ha
      by_cases hk' : i = a'
      · subst hk'
        rw [clookup_cons_self] at ha'; injection ha' with ha'
        have := h.below a j ha; omega
      · rw [clookup_cons_ne _ _ hk'] at ha'; exact h.inj a a' j ha ha'

/-- what one pass establishes: the invariant again, the old entries kept, every visited position answered by
the final cache, and the output as long as the input -/
theorem cloneRefs_spec : ∀ (refs : List Nat) (c : Cache) (n : Nat), Inv c n →
    Inv (cloneRefs refs c n).2.1 (cloneRefs refs c n).2.2 ∧
    (∀ i j, clookup i c = some j → clookup i (cloneRefs refs c n).2.1 = some j) ∧
    (cloneRefs refs c n).1.length = refs.length ∧
    (∀ k (hk : k < refs.length) (hk' : k < (cloneRefs refs c n).1.length),
      clookup refs[k] (cloneRefs refs c n).2.1 = some (cloneRefs refs c n).1[k]) ∧
    n ≤ (cloneRefs refs c n).2.2 := by
  intro refs
  induction refs with
  | nil => intro c n h; exact ⟨h, fun _ _ h => h, rfl, fun k hk => absurd hk (by simp), Nat.le_refl _⟩
  | cons i rest ih =>
    intro c n h
    cases hl : clookup i c with
    | some j =>
      obtain ⟨h1, h2, h3, h4, h5⟩ := ih c n h
      simp only [cloneRefs, hl]
      refine ⟨h1, h2, by simp [h3], ?_, h5⟩
      intro k hk hk'
      cases k with
      | zero => simp only [List.getElem_cons_zero]; exact h2 i j hl
      | succ k =>
        simp only [List.getElem_cons_succ]
        exact h4 k (by simpa using hk) (by simpa using hk')
    | none =>
      obtain ⟨h1, h2, h3, h4, h5⟩ := ih ((i, n) :: c) (n + 1) (h.extend i hl)
      simp only [cloneRefs, hl]
      refine ⟨h1, ?_, by simp [h3], ?_, Nat.le_trans (Nat.le_succ n) h5⟩
      · intro a j ha
        apply h2
        by_cases hk : i = a
        · subst hk; rw [hl] at ha; exact absurd ha (by simp)
        · rw [clookup_cons_ne _ _ hk]; exact ha
      · intro k hk hk'
        cases k with
        | zero => simp only [List.getElem_cons_zero]; exact h2 i n (clookup_cons_self i n c)
        | succ k =>
          simp only [List.getElem_cons_succ]
          exact h4 k (by simpa using hk) (by simpa using hk')

theorem cache_ge {n0 : Nat} : ∀ (refs : List Nat) (c : Cache) (n : Nat), (∀ i j, clookup i c = some j → n0 ≤ j) → n0 ≤ n →
    ∀ i j, clookup i (cloneRefs refs c n).2.1 = some j → n0 ≤ j := by
  intro refs
  induction refs with
  | nil => intro c n h _ i j hh; exact h i j hh
  | cons r rest ih =>
    intro c n h hn i j hh
    cases hl : clookup r c with
    | some v =>
      simp only [cloneRefs, hl] at hh
      exact ih c n h hn i j hh
    | none =>
      simp only [cloneRefs, hl] at hh
      refine ih ((r, n) :: c) (n + 1) ?_ (Nat.le_succ_of_le hn) i j hh
      intro a b hab
      by_cases hk : r = a
      · subst hk; rw [clookup_cons_self] at hab; injection hab with hab; omega
      · rw [clookup_cons_ne _ _ hk] at hab; exact h a b hab

theorem inv_empty (n : Nat) : Inv [] n := ⟨fun _ _ h => by simp [clookup] at h, fun _ _ _ h => by simp [clookup] at h⟩

theorem cloneRefs_length : ∀ (refs : List Nat) (c : Cache) (n : Nat), (cloneRefs refs c n).1.length = refs.length := by
  intro refs
  induction refs with
  | nil => intro c n; rfl
  | cons i rest ih =>
    intro c n
    cases hl : clookup i c with
    | some j => simp [cloneRefs, hl, ih]
    | none => simp [cloneRefs, hl, ih]

theorem cloneRefs_append : ∀ (a b : List Nat) (c : Cache) (n : Nat),
    cloneRefs (a ++ b) c n =
      ((cloneRefs a c n).1 ++ (cloneRefs b (cloneRefs a c n).2.1 (cloneRefs a c n).2.2).1,
       (cloneRefs b (cloneRefs a c n).2.1 (cloneRefs a c n).2.2).2) := by
  intro a
  induction a with
  | nil => intro b c n; rfl
  | cons i as iha =>
    intro b c n
    cases hl : clookup i c with
    | some j => simp only [List.cons_append, cloneRefs, hl, iha]
    | none => simp only [List.cons_append, cloneRefs, hl, iha]

/-- visiting the fields one after the other with the shared cache is visiting all positions in one pass,
and every field keeps its number of positions -/
theorem cloneFields_flatten : ∀ (fs : List (List Nat)) (c : Cache) (n : Nat),
    (cloneFields fs c n).1.flatten = (cloneRefs fs.flatten c n).1 ∧
    (cloneFields fs c n).1.map List.length = fs.map List.length := by
  intro fs
  induction fs with
  | nil => intro c n; exact ⟨rfl, rfl⟩
  | cons f rest ih =>
    intro c n
    obtain ⟨h1, h3⟩ := ih (cloneRefs f c n).2.1 (cloneRefs f c n).2.2
    simp only [cloneFields, List.flatten_cons, cloneRefs_append]
    exact ⟨by rw [h1], by simp only [List.map_cons, h3, cloneRefs_length]⟩

/-- **Sharing survives the deep clone, wherever the references sit.**  Over all positions of all fields (in
visiting order): two positions hold the same clone exactly when they held the same original instance; and
every clone carries a fresh `_id` (none below `fresh`). -/
theorem deepClone_positions (fields : List (List Nat)) (fresh : Nat) :
    (deepClone fields fresh).flatten.length = fields.flatten.length ∧
    (∀ a b (ha : a < fields.flatten.length) (hb : b < fields.flatten.length)
        (ha' : a < (deepClone fields fresh).flatten.length) (hb' : b < (deepClone fields fresh).flatten.length),
      ((deepClone fields fresh).flatten[a] = (deepClone fields fresh).flatten[b] ↔
        fields.flatten[a] = fields.flatten[b])) ∧
    (∀ a (ha' : a < (deepClone fields fresh).flatten.length), fresh ≤ (deepClone fields fresh).flatten[a]) := by
  unfold deepClone
  have hflat := (cloneFields_flatten fields [] fresh).1
  obtain ⟨hinv, _, hlen, hpos, _⟩ := cloneRefs_spec fields.flatten [] fresh (inv_empty fresh)
  rw [hflat]
  refine ⟨hlen, ?_, ?_⟩
  · intro a b ha hb ha' hb'
    have pa := hpos a ha ha'
    have pb := hpos b hb hb'
    constructor
    · intro heq
      rw [heq] at pa
      exact hinv.inj _ _ _ pa pb
    · intro heq
      rw [heq] at pa
      rw [pa] at pb
      injection pb
  · intro a ha'
    have ha : a < fields.flatten.length := by rw [← hlen]; exact ha'
    have pa := hpos a ha ha'
    -- entries of a cache grown from the empty one at counter `fresh` are ≥ fresh
    exact cache_ge (n0 := fresh) fields.flatten [] fresh (fun _ _ h => by simp [clookup] at h) (Nat.le_refl _) _ _ pa

end Flax.CloneCache
