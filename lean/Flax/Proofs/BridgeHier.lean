/-
Helper lemmas for C18: `sort_variable_types` + first-match split put every Variable into the bucket of
its exact type.
-/
import Flax.Proofs.BridgeLinen

namespace Flax.Bridge
variable {α : Type}

/-- what is true of Python MROs restricted to Variable classes: a class is in its own MRO, and a proper
base class has a strictly shorter MRO -/
structure HierOk (h : Hier) : Prop where
  self : ∀ t, t ∈ h.mro t
  shorter : ∀ s t, t ∈ h.mro s → t ≠ s → h.count t < h.count s

theorem mem_insertType (h : Hier) (t : VType) (l : List VType) (x : VType) :
    x ∈ insertType h t l ↔ x = t ∨ x ∈ l := by
  induction l with
  | nil => simp [insertType]
  | cons a r ih =>
    unfold insertType
    split
    · simp only [List.mem_cons, ih]
      constructor
      · rintro (h1 | h1 | h1)
        · exact Or.inr (Or.inl h1)
        · exact Or.inl h1
        · exact Or.inr (Or.inr h1)
      · rintro (h1 | h1 | h1)
        · exact Or.inr (Or.inl h1)
        · exact Or.inl h1
        · exact Or.inr (Or.inr h1)
    · simp

theorem sorted_insertType (h : Hier) (t : VType) (l : List VType)
    (hl : l.Pairwise fun a b => h.count b ≤ h.count a) :
    (insertType h t l).Pairwise fun a b => h.count b ≤ h.count a := by
  induction l with
  | nil => simp [insertType]
  | cons a r ih =>
    rw [List.pairwise_cons] at hl
    unfold insertType
    split
    · rename_i hle
      rw [List.pairwise_cons]
      refine ⟨?_, ih hl.2⟩
      intro b hb
      rcases (mem_insertType h t r b).mp hb with rfl | hb
      · exact hle
      · exact hl.1 b hb
    · rename_i hnle
      rw [List.pairwise_cons]
      refine ⟨?_, List.pairwise_cons.mpr hl⟩
      intro b hb
      rcases List.mem_cons.mp hb with rfl | hb
      · omega
      · have := hl.1 b hb; omega

theorem sortVariableTypes_spec (h : Hier) (types : List VType) :
    (sortVariableTypes h types).Pairwise (fun a b => h.count b ≤ h.count a) ∧
    ∀ x, x ∈ sortVariableTypes h types ↔ x ∈ types := by
  induction types with
  | nil => simp [sortVariableTypes]
  | cons t r ih =>
    simp only [sortVariableTypes, List.foldr_cons] at ih ⊢
    refine ⟨sorted_insertType h t _ ih.1, ?_⟩
    intro x
    rw [mem_insertType, ih.2 x]; simp

/-- in a list sorted most-derived-first that contains `t`, the first class `t` is an instance of is `t` -/
theorem find_exact (h : Hier) (hh : HierOk h) (t : VType) : ∀ (l : List VType),
    l.Pairwise (fun a b => h.count b ≤ h.count a) → t ∈ l →
    l.find? (fun f => h.isSub t f) = some t := by
  intro l
  induction l with
  | nil => intro _ hm; cases hm
  | cons a r ih =>
    intro hp hm
    rw [List.pairwise_cons] at hp
    by_cases ha : a = t
    · subst ha
      simp [Hier.isSub, hh.self]
    · have hmr : t ∈ r := by
        rcases List.mem_cons.mp hm with h1 | h1
        · exact absurd h1.symm ha
        · exact h1
      have hnot : h.isSub t a = false := by
        simp only [Hier.isSub, decide_eq_false_iff_not]
        intro hin
        have h1 := hh.shorter t a hin ha
        have h2 := hp.1 t hmr
        omega
      simp only [List.find?_cons, hnot]
      exact ih hp.2 hmr

/-- **every Variable falls into the bucket of its exact type** -/
theorem bucket_exact (h : Hier) (hh : HierOk h) (types : List VType) (t : VType) (ht : t ∈ types) :
    bucketOf h (sortVariableTypes h types) t = some t := by
  have hs := sortVariableTypes_spec h types
  exact find_exact h hh t _ hs.1 ((hs.2 t).mpr ht)

theorem mem_typesOf (S : Forest (NVar α)) (pv : Path × NVar α) (h : pv ∈ flattenF S) :
    pv.2.vtype ∈ typesOf S := by
  simp only [typesOf, List.mem_eraseDups, List.mem_map]
  exact ⟨pv, h, rfl⟩

theorem linenEntriesB_eq (h : Hier) (sorted : List VType) : ∀ (flat : List (Path × NVar α)) (r : Reg),
    (∀ pv ∈ flat, bucketOf h sorted pv.2.vtype = some pv.2.vtype) →
    linenEntriesB h sorted r flat = linenEntries true r flat := by
  intro flat
  induction flat with
  | nil => intro r _; rfl
  | cons pv rest ih =>
    intro r hb
    have h1 : linenEntryB h sorted r pv = linenEntry r true pv := by
      simp only [linenEntryB, hb pv (by simp), linenEntry]
    simp only [linenEntriesB, linenEntries, h1]
    cases linenEntry r true pv with
    | error e => rfl
    | ok p =>
      simp only [bind, Except.bind]
      rw [ih p.1 (fun pv' h' => hb pv' (by simp [h']))]

/-- `_update_variables` with explicit buckets is `encodeState` (collections named after exact types) -/
theorem encodeStateTyped_eq (h : Hier) (hh : HierOk h) (r : Reg) (isMutable : String → Bool)
    (S : Forest (NVar α)) : encodeStateTyped h r isMutable S = encodeState r isMutable S := by
  simp only [encodeStateTyped, encodeState]
  rw [linenEntriesB_eq h _ (flattenF S) r (fun pv hpv => bucket_exact h hh _ _ (mem_typesOf S pv hpv))]

end Flax.Bridge
