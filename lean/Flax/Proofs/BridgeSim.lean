/-
Helper lemmas for C18: the ToNNX wrapper state after a call, relative to the Linen variables it holds.
-/
import Flax.Proofs.BridgeWrap

namespace Flax.Bridge
variable {α β γ : Type}

theorem option_ext {σ : Type} (a b : Option σ) (h : ∀ x, a = some x ↔ b = some x) : a = b := by
  cases a with
  | none =>
    cases b with
    | none => rfl
    | some y => exact absurd ((h y).mpr rfl) (by simp)
  | some x => exact ((h x).mp rfl).symm

theorem Reg.nameOf_mono (r r' : Reg) (hi : r.Inj) (hi' : r'.Inj) (hsub : ∀ e ∈ r.cache, e ∈ r'.cache)
    (t : VType) (n : String) (h : r.nameOf t = some n) : r'.nameOf t = some n :=
  (r'.nameOf_iff hi' t n).mpr (hsub _ ((r.nameOf_iff hi t n).mp h))

/-- **the merge of `mutable` updates, leaf by leaf** -/
theorem absorb_spec (s : ToNNX α) (hi : s.reg.Inj) (hb : s.reg.Bounded) (hw : WFF s.attrs)
    (U : Forest (LBox α)) (hU : VarsOk s.reg U)
    (hc : ∀ q q', leafAtF s.attrs q ≠ none → (∃ c, leafAtF U (c :: q') ≠ none) →
      (q <+: q' ∨ q' <+: q) → q = q') :
    ∃ s', s.absorb U = .ok s' ∧ s'.reg.Inj ∧ s'.reg.Bounded ∧ (∀ e ∈ s.reg.cache, e ∈ s'.reg.cache) ∧
      s'.rngs = s.rngs ∧ WFF s'.attrs ∧ (NoEmptyF s.attrs → NoEmptyF s'.attrs) ∧
      (∀ c q x, leafAtF U (c :: q) = some x →
        ∃ v, leafAtF s'.attrs q = some v ∧ s'.reg.typeOf c = some v.vtype ∧ v.value = x.value ∧
          toLinenVar v = .ok x ∧ v.Canon) ∧
      (∀ q, (∀ c, leafAtF U (c :: q) = none) → leafAtF s'.attrs q = leafAtF s.attrs q) := by
  obtain ⟨r', u, hfwd, hi', hb', hsub, _, hwu, hnu, hreg, hleafu⟩ :=
    linenVarsToNnxAttrs_spec s.reg hi hb U hU
  have hcompat : Compat s.attrs u := by
    intro q q' h1 h2 hp
    cases hq' : leafAtF u q' with
    | none => exact absurd hq' h2
    | some v =>
      obtain ⟨c, x, t, hx, _, _⟩ := (hleafu q' v).mp hq'
      exact hc q q' h1 ⟨c, by simp [hx]⟩ hp
  obtain ⟨g, hg, hwg, hng, hleafg⟩ := foldStep_spec absorbAttr absorbAttr_spec u s.attrs hw hwu hcompat
    (by
      intro k sub hm b hd
      have hsub' : dget u k = some (.node sub) := dget_of_mem u hwu k _ hm
      have hn : (Tree.node sub).NoEmpty := NoEmpty_dget u k _ hnu hsub'
      simp only [Tree.NoEmpty] at hn
      obtain ⟨q, v, hq⟩ := exists_leaf _ sub (Nat.le_refl _) hn.1 hn.2
      have := hcompat [k] (k :: q) (by simp [leafAtF_cons, hd, Tree.leafAt]) (by simp [leafAtF_cons, hsub', hq])
        (Or.inl (by rw [List.cons_prefix_cons]; exact ⟨rfl, List.nil_prefix⟩))
      simp only [List.cons.injEq, true_and] at this
      rw [← this] at hq; simp at hq)
  refine ⟨{ s with attrs := g, reg := r' }, ?_, hi', hb', hsub, rfl, hwg, fun h => hng h hnu, ?_, ?_⟩
  · simp only [ToNNX.absorb, hfwd, hg, bind, Except.bind, pure, Except.pure]
  · intro c q x hx
    obtain ⟨t, ht⟩ := hreg c q x hx
    obtain ⟨tr, hm, hxl⟩ := (leafAtF_col U hU.wf c q x).mp hx
    have hok : x.Ok t := LBox.ok_of_okIn s.reg r' hi hi' hsub c x
      (hU.boxes (c, tr) hm (q, x) (Tree.flatten_complete tr q x hxl)) t ht
    obtain ⟨v, hv, h1, h2, h3, _⟩ := box_roundtrip_aux t x hok
    refine ⟨v, ?_, by rw [h1]; exact ht, h2, h3, canon_of_ok t x v hok hv⟩
    show leafAtF g q = some v
    rw [hleafg q, (hleafu q v).mpr ⟨c, x, t, hx, ht, hv⟩]
    rfl
  · intro q hq
    show leafAtF g q = leafAtF s.attrs q
    rw [hleafg q]
    cases hu : leafAtF u q with
    | none => rfl
    | some v =>
      obtain ⟨c, x, t, hx, _, _⟩ := (hleafu q v).mp hu
      rw [hq c] at hx; cases hx

/-- the invariant of a ToNNX wrapper between calls -/
structure WrapOk (s : ToNNX α) : Prop where
  inj : s.reg.Inj
  bounded : s.reg.Bounded
  attrs : AttrsOk s.reg s.attrs

/-- the updates returned by `apply` fit the wrapper: their attribute paths do not nest with the
wrapper's, and a path that exists already is updated in its own collection -/
structure UpdFits (s : ToNNX α) (U : Forest (LBox α)) : Prop where
  vars : VarsOk s.reg U
  paths : ∀ q q', leafAtF s.attrs q ≠ none → (∃ c, leafAtF U (c :: q') ≠ none) →
    (q <+: q' ∨ q' <+: q) → q = q'
  sameCol : ∀ c q v, leafAtF U (c :: q) ≠ none → leafAtF s.attrs q = some v → s.reg.nameOf v.vtype = some c

theorem heldVars_spec (s : ToNNX α) (hs : WrapOk s) :
    ∃ V, s.heldVars = .ok V ∧ WFF V ∧ NoEmptyF V ∧ VarsOk s.reg V ∧
      ∀ p x, leafAtF V p = some x ↔
        ∃ c q v, p = c :: q ∧ leafAtF s.attrs q = some v ∧ s.reg.nameOf v.vtype = some c ∧
          toLinenVar v = .ok x := by
  obtain ⟨V, hV, hwV, hnV, hleafV⟩ := nnxAttrsToLinenVars_spec s.reg s.attrs hs.attrs.wf (by
    intro q v hl
    obtain ⟨n, hn⟩ := hs.attrs.named q v hl
    obtain ⟨x, hx, _⟩ := var_roundtrip_aux v (hs.attrs.canon q v hl)
    exact ⟨n, x, hn, hx⟩)
  exact ⟨V, hV, hwV, hnV, (varsOk_of_attrs s.reg hs.inj s.attrs hs.attrs V hwV hnV hleafV).1, hleafV⟩

/-- **after a call with `mutable`, the wrapper holds the old variables overlaid, leaf by leaf, with the
updates** — later wins per leaf, every other leaf is kept -/
theorem held_after_absorb (s : ToNNX α) (hs : WrapOk s) (U : Forest (LBox α)) (hU : UpdFits s U) :
    ∃ s' V V', s.heldVars = .ok V ∧ s.absorb U = .ok s' ∧ s'.heldVars = .ok V' ∧ WrapOk s' ∧
      s'.rngs = s.rngs ∧ (∀ e ∈ s.reg.cache, e ∈ s'.reg.cache) ∧
      ∀ p, leafAtF V' p = (leafAtF U p).or (leafAtF V p) := by
  obtain ⟨V, hV, _, _, _, hleafV⟩ := heldVars_spec s hs
  obtain ⟨s', habs, hi', hb', hsub, hrng, hw', _, hwin, hkeep⟩ :=
    absorb_spec s hs.inj hs.bounded hs.attrs.wf U hU.vars hU.paths
  have hcase : ∀ q, (∃ c x, leafAtF U (c :: q) = some x) ∨ (∀ c, leafAtF U (c :: q) = none) := by
    intro q
    by_cases h : ∃ c x, leafAtF U (c :: q) = some x
    · exact Or.inl h
    · refine Or.inr (fun c => ?_)
      cases hx : leafAtF U (c :: q) with
      | none => rfl
      | some x => exact absurd ⟨c, x, hx⟩ h
  have hs' : WrapOk s' := by
    refine ⟨hi', hb', hw', ?_, ?_⟩
    · intro q v hl
      rcases hcase q with ⟨c, x, hx⟩ | hno
      · obtain ⟨v', hl', _, _, _, hcan⟩ := hwin c q x hx
        rw [hl] at hl'; cases hl'; exact hcan
      · rw [hkeep q hno] at hl; exact hs.attrs.canon q v hl
    · intro q v hl
      rcases hcase q with ⟨c, x, hx⟩ | hno
      · obtain ⟨v', hl', hty, _⟩ := hwin c q x hx
        rw [hl] at hl'; cases hl'
        exact ⟨c, Reg.nameOf_of_typeOf s'.reg hi' c _ hty⟩
      · rw [hkeep q hno] at hl
        obtain ⟨n, hn⟩ := hs.attrs.named q v hl
        exact ⟨n, Reg.nameOf_mono s.reg s'.reg hs.inj hi' hsub _ n hn⟩
  obtain ⟨V', hV', _, _, _, hleafV'⟩ := heldVars_spec s' hs'
  refine ⟨s', V, V', hV, habs, hV', hs', hrng, hsub, ?_⟩
  intro p
  cases hUp : leafAtF U p with
  | some x =>
    simp only [Option.some_or]
    cases p with
    | nil => simp at hUp
    | cons c q =>
      obtain ⟨v, hl, hty, _, hx, _⟩ := hwin c q x hUp
      exact (hleafV' _ x).mpr ⟨c, q, v, rfl, hl, Reg.nameOf_of_typeOf s'.reg hi' c _ hty, hx⟩
  | none =>
    simp only [Option.none_or]
    apply option_ext
    intro x
    rw [hleafV' p x, hleafV p x]
    constructor
    · rintro ⟨c, q, v, rfl, hl, hn, hx⟩
      rcases hcase q with ⟨c', x', hx'⟩ | hno
      · exfalso
        obtain ⟨v', hl', hty', _, hxx, _⟩ := hwin c' q x' hx'
        rw [hl] at hl'; cases hl'
        have := Reg.nameOf_of_typeOf s'.reg hi' c' _ hty'
        rw [hn] at this
        cases this
        rw [hUp] at hx'; cases hx'
      · rw [hkeep q hno] at hl
        obtain ⟨n, hn0⟩ := hs.attrs.named q v hl
        have := Reg.nameOf_mono s.reg s'.reg hs.inj hi' hsub _ n hn0
        rw [hn] at this; cases this
        exact ⟨c, q, v, rfl, hl, hn0, hx⟩
    · rintro ⟨c, q, v, rfl, hl, hn, hx⟩
      rcases hcase q with ⟨c', x', hx'⟩ | hno
      · exfalso
        have := hU.sameCol c' q v (by simp [hx']) hl
        rw [hn] at this; cases this
        rw [hUp] at hx'; cases hx'
      · refine ⟨c, q, v, rfl, by rw [hkeep q hno]; exact hl,
          Reg.nameOf_mono s.reg s'.reg hs.inj hi' hsub _ c hn, hx⟩

end Flax.Bridge
