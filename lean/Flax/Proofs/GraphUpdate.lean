/- C03 helper lemmas: `update` keeps every object in place (no allocation, same kinds, same references) -/
import Flax.Model.Graph
namespace Flax.Graph
open Flax.Heap

/-- pointwise relation between two lists of the same length -/
inductive Forall2 {α : Type} (R : α → α → Prop) : List α → List α → Prop where
  | nil : Forall2 R [] []
  | cons {a b : α} {l l' : List α} : R a b → Forall2 R l l' → Forall2 R (a :: l) (b :: l')

/-- two attribute slots agree up to an array payload: same key, and the same value unless both are
array leaves -/
def SlotShape (kv kv' : Key × PVal) : Prop :=
  kv.1 = kv'.1 ∧ (kv.2 = kv'.2 ∨ ∃ d d', kv.2 = .array d ∧ kv'.2 = .array d')

/-- same object up to mutable payloads: a Variable keeps its class, a node keeps its class, its keys in
order and every attribute value that is not an array leaf (in particular every reference) -/
def ObjShape : Obj → Obj → Prop
  | .var ty _ _, .var ty' _ _ => ty = ty'
  | .node cls attrs, .node cls' attrs' => cls = cls' ∧ Forall2 SlotShape attrs attrs'
  | _, _ => False

/-- nothing allocated, every address still holds the same object up to payloads -/
def SameShape (h h' : Heap) : Prop :=
  h.length = h'.length ∧ ∀ (a : Nat) o, h[a]? = some o → ∃ o', h'[a]? = some o' ∧ ObjShape o o'

theorem SlotShape.refl (kv : Key × PVal) : SlotShape kv kv := ⟨rfl, Or.inl rfl⟩

theorem SlotShape.trans {a b c : Key × PVal} (h1 : SlotShape a b) (h2 : SlotShape b c) : SlotShape a c := by
  refine ⟨h1.1.trans h2.1, ?_⟩
  rcases h1.2 with e1 | ⟨d, d', e1, e1'⟩
  · rcases h2.2 with e2 | ⟨d2, d2', e2, e2'⟩
    · exact Or.inl (e1.trans e2)
    · exact Or.inr ⟨d2, d2', e1.trans e2, e2'⟩
  · rcases h2.2 with e2 | ⟨d2, d2', e2, e2'⟩
    · exact Or.inr ⟨d, d', e1, e2 ▸ e1'⟩
    · exact Or.inr ⟨d, d2', e1, e2'⟩

theorem forall₂_refl {α : Type} {R : α → α → Prop} (hr : ∀ a, R a a) : ∀ l : List α, Forall2 R l l
  | [] => .nil
  | a :: l => .cons (hr a) (forall₂_refl hr l)

theorem forall₂_trans {α : Type} {R : α → α → Prop} (ht : ∀ a b c, R a b → R b c → R a c) :
    ∀ {l1 l2 l3 : List α}, Forall2 R l1 l2 → Forall2 R l2 l3 → Forall2 R l1 l3
  | _, _, _, .nil, .nil => .nil
  | _, _, _, .cons h1 t1, .cons h2 t2 => .cons (ht _ _ _ h1 h2) (forall₂_trans ht t1 t2)

theorem ObjShape.refl : ∀ o : Obj, ObjShape o o
  | .var _ _ _ => rfl
  | .node _ attrs => ⟨rfl, forall₂_refl SlotShape.refl attrs⟩

theorem ObjShape.trans {a b c : Obj} (h1 : ObjShape a b) (h2 : ObjShape b c) : ObjShape a c := by
  cases a <;> cases b <;> cases c <;> simp only [ObjShape] at h1 h2 ⊢
  · exact ⟨h1.1.trans h2.1, forall₂_trans (R := SlotShape) (fun _ _ _ => SlotShape.trans) h1.2 h2.2⟩
  · exact h1.trans h2

theorem SameShape.refl (h : Heap) : SameShape h h := ⟨rfl, fun _ o ho => ⟨o, ho, ObjShape.refl o⟩⟩

theorem SameShape.trans {a b c : Heap} (h1 : SameShape a b) (h2 : SameShape b c) : SameShape a c := by
  refine ⟨h1.1.trans h2.1, ?_⟩
  intro x o ho
  obtain ⟨o', ho', s1⟩ := h1.2 x o ho
  obtain ⟨o'', ho'', s2⟩ := h2.2 x o' ho'
  exact ⟨o'', ho'', s1.trans s2⟩

/-- overwriting an object by one of the same shape -/
theorem SameShape.write {h : Heap} {a : Addr} {o o' : Obj} (ho : h[a]? = some o) (hs : ObjShape o o') :
    SameShape h (write h a o') := by
  refine ⟨(write_length h a o').symm, ?_⟩
  intro x ox hx
  by_cases e : x = a
  · subst e
    rw [ho] at hx; cases hx
    have hlt : x < h.length := (List.getElem?_eq_some_iff.mp ho).1
    exact ⟨o', write_get h x o' hlt, hs⟩
  · exact ⟨ox, by rw [write_frame h a x o' e]; exact hx, ObjShape.refl ox⟩

theorem setKV_shape (k : Key) (d : Data) : ∀ attrs : List (Key × PVal),
    (∀ v, lookupKV k attrs = some v → ∃ d0, v = .array d0) → Forall2 SlotShape attrs (setKV k (.array d) attrs)
  | [], _ => .nil
  | (k', v') :: rest, hl => by
    simp only [setKV]
    by_cases e : k' = k
    · simp only [e, if_true]
      obtain ⟨d0, hd0⟩ := hl v' (by simp [lookupKV, e])
      exact .cons ⟨rfl, Or.inr ⟨d0, d, hd0, rfl⟩⟩ (forall₂_refl SlotShape.refl rest)
    · simp only [e, if_false]
      exact .cons (SlotShape.refl _) (setKV_shape k d rest (fun v hv => hl v (by simp [lookupKV, e, hv])))


theorem lookup_slotShape {k : Key} : ∀ {l l' : List (Key × PVal)}, Forall2 SlotShape l l' → ∀ {v}, lookupKV k l = some v →
    ∃ v', lookupKV k l' = some v' ∧ (v = v' ∨ ∃ d d', v = .array d ∧ v' = .array d')
  | _, _, .nil, v, h => by simp [lookupKV] at h
  | _, _, .cons (a := a) (b := b) hab t, v, h => by
    obtain ⟨ka, va⟩ := a
    obtain ⟨kb, vb⟩ := b
    have hk : ka = kb := hab.1
    subst hk
    simp only [lookupKV] at h ⊢
    by_cases e : ka = k
    · simp only [e, if_true] at h ⊢
      cases h
      exact ⟨vb, rfl, hab.2⟩
    · simp only [e, if_false] at h ⊢
      exact lookup_slotShape t h

theorem setAttr_shape {h : Heap} {a : Addr} {cls : String} {live : List (Key × PVal)} (k : Key) (d : Data)
    (ho : h[a]? = some (.node cls live)) (hl : ∀ v, lookupKV k live = some v → ∃ d0, v = .array d0) :
    SameShape h (setAttr h a k (.array d)) := by
  simp only [setAttr, ho]
  exact SameShape.write ho ⟨rfl, setKV_shape k d live hl⟩

/-- the loop invariant of `updateItems`: the snapshot `attrs` still describes the live node up to payloads -/
def OwnerOk (h : Heap) (owner : Option Addr) (attrs : List (Key × PVal)) : Prop :=
  ∀ a, owner = some a → ∃ cls live, h[a]? = some (.node cls live) ∧ Forall2 SlotShape attrs live

theorem OwnerOk.step {h h' : Heap} {owner : Option Addr} {attrs : List (Key × PVal)} (ok : OwnerOk h owner attrs)
    (ss : SameShape h h') : OwnerOk h' owner attrs := by
  intro a ha
  obtain ⟨cls, live, hl, hf⟩ := ok a ha
  obtain ⟨o', ho', hs⟩ := ss.2 a _ hl
  cases o' with
  | var ty v md => simp [ObjShape] at hs
  | node cls' live' =>
    simp only [ObjShape] at hs
    exact ⟨cls', live', ho', forall₂_trans (R := SlotShape) (fun _ _ _ => SlotShape.trans) hf hs.2⟩

mutual
  /-- `update` never allocates and never changes what kind of object lives at an address -/
  theorem updateVal_shape : ∀ (s : STree) (h : Heap) (v : PVal) (h' : Heap), updateVal s h v = .ok h' → SameShape h h'
    | s, h, .static _, h', hu => by simp [updateVal] at hu
    | s, h, .array _, h', hu => by simp [updateVal] at hu
    | .leaf _, h, .none, h', hu => by simp [updateVal] at hu
    | .node items, h, .none, h', hu => by
      simp only [updateVal] at hu
      exact updateItems_shape items h Option.none [] h' (fun a ha => by cases ha) hu
    | .leaf _, h, .seq _ _, h', hu => by simp [updateVal] at hu
    | .node items, h, .seq _ xs, h', hu => by
      simp only [updateVal] at hu
      exact updateItems_shape items h Option.none _ h' (fun a ha => by cases ha) hu
    | .leaf _, h, .dict _, h', hu => by simp [updateVal] at hu
    | .node items, h, .dict kvs, h', hu => by
      simp only [updateVal] at hu
      exact updateItems_shape items h Option.none _ h' (fun a ha => by cases ha) hu
    | .leaf l, h, .ref a, h', hu => by
      simp only [updateVal] at hu
      split at hu
      · cases hu
      · next ty val md hget =>
        cases l with
        | vstate ty' val' md' => simp at hu; subst hu; exact SameShape.write hget (by simp [ObjShape])
        | arr d => simp at hu; subst hu; exact SameShape.write hget (by simp [ObjShape])
      · cases hu
    | .node items, h, .ref a, h', hu => by
      simp only [updateVal] at hu
      split at hu
      · cases hu
      · next ty val md hget =>
        cases items with
        | nil => simp at hu; subst hu; exact SameShape.refl h
        | cons _ _ => cases hu
      · next cls attrs hget =>
        exact updateItems_shape items h (some a) attrs h'
          (fun a' ha' => by cases ha'; exact ⟨cls, attrs, hget, forall₂_refl SlotShape.refl attrs⟩) hu
  theorem updateItems_shape : ∀ (items : List (Key × STree)) (h : Heap) (owner : Option Addr)
      (attrs : List (Key × PVal)) (h' : Heap), OwnerOk h owner attrs → updateItems items h owner attrs = .ok h' → SameShape h h'
    | [], h, _, _, h', _, hu => by simp [updateItems] at hu; subst hu; exact SameShape.refl h
    | (k, s) :: rest, h, owner, attrs, h', ok, hu => by
      simp only [updateItems] at hu
      split at hu
      · cases hu
      · next cur hcur =>
        split at hu
        · cases hu
        · next h1 hr =>
          have ss1 : SameShape h h1 := by
            cases cur with
            | static _ => cases hr
            | array d0 =>
              cases owner with
              | none => cases hr
              | some a =>
                simp only at hr
                split at hr
                · next d =>
                  cases hr
                  obtain ⟨cls, live, hl, hf⟩ := ok a rfl
                  refine setAttr_shape k d hl ?_
                  intro v hv
                  obtain ⟨v', hv', hrel⟩ := lookup_slotShape hf hcur
                  rw [hv] at hv'; cases hv'
                  rcases hrel with e | ⟨x, y, _, e⟩
                  · exact ⟨d0, e.symm⟩
                  · exact ⟨y, e⟩
                · cases hr
            | ref b =>
              simp only at hr
              split at hr
              · cases hr
              · exact updateVal_shape s h _ h1 hr
              · split at hr
                · cases hr
                · exact updateVal_shape s h _ h1 hr
            | none =>
              simp only at hr
              split at hr
              · cases hr
              · exact updateVal_shape s h _ h1 hr
            | seq t xs =>
              simp only at hr
              split at hr
              · cases hr
              · exact updateVal_shape s h _ h1 hr
            | dict kvs =>
              simp only at hr
              split at hr
              · cases hr
              · exact updateVal_shape s h _ h1 hr
          exact ss1.trans (updateItems_shape rest h1 owner attrs h' (ok.step ss1) hu)
end

end Flax.Graph
