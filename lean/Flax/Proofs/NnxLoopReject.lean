/- C08 proofs: rejections — inconsistent aliasing, out_axes of scan, carry references -/
import Flax.Proofs.NnxLoopVmap

namespace Flax.NnxLoop
open Flax.Filter Flax.LiftLoop

/-! ### inconsistent aliasing -/

theorem consistent_nil : consistent [] = true := rfl

/-- `to_tree` succeeds only if all `(Variable, axis)` occurrences of all arguments are defined and agree -/
theorem toTree_ok_consistent {α : Type} (store : Store α) :
    ∀ (pas : List (Prefix × Arg α)) (np : NodePrefixes) (seen : List VarId) (pure : List (PureArg α)),
      consistent np = true → toTree store pas np seen = .ok pure →
      ∃ npF, allPrefixes pas np = .ok npF ∧ consistent npF = true := by
  intro pas
  induction pas with
  | nil => intro np seen pure hc _; exact ⟨np, rfl, hc⟩
  | cons pa rest ih =>
    intro np seen pure hc ht
    obtain ⟨p, arg⟩ := pa
    cases arg with
    | arr a =>
      obtain ⟨r, hr, _⟩ := toTree_arr_ok ht
      exact ih np seen r hc hr
    | node es =>
      obtain ⟨np', flat, sts, r, hca, _, _, hr, _⟩ := toTree_node_ok ht
      obtain ⟨l, hl, hnp, hcons⟩ := checkAliasing_ok hca
      obtain ⟨npF, h1, h2⟩ := ih np' _ r hcons hr
      refine ⟨npF, ?_, h2⟩
      simp only [allPrefixes, collect_eq, hl, ← hnp]
      exact h1

/-- a flat state every item of which the prefix gives an axis splits without complaint -/
theorem splitFlat_ok_of_at {α : Type} (p : Prefix) (flat : Flat α)
    (h : ∀ x ∈ flat, ∃ a, p.at ⟨x.1, 0, x.2.1⟩ = .ok a) : ∃ sts, splitFlat p flat = .ok sts := by
  cases p with
  | ax a => exact ⟨_, rfl⟩
  | sa s =>
    simp only [splitFlat, splitStatesX]
    split
    · rename_i hany
      simp only [List.any_eq_true, beq_iff_eq] at hany
      obtain ⟨x, hx, hm⟩ := hany
      obtain ⟨a, ha⟩ := h x hx
      have := (mapPrefix_ok_lt (by simpa [Prefix.at] using ha)).1
      simp at hm
      omega
    · exact ⟨_, rfl⟩

/-- **Inconsistent aliasing is rejected, and nothing else happens.**  If the `(Variable, axis)` occurrences of the
arguments are all defined but two occurrences of one Variable disagree, `to_tree` raises `InconsistentAliasing`
(provided the store holds every Variable, so that no earlier step can fail). -/
theorem toTree_inconsistent {α : Type} [Inhabited α] (store : Store α) :
    ∀ (pas : List (Prefix × Arg α)) (np : NodePrefixes) (seen : List VarId) (npF : NodePrefixes),
      allPrefixes pas np = .ok npF → consistent np = true → consistent npF = false →
      (∀ pa ∈ pas, ∀ es, pa.2 = .node es → ∀ e ∈ es, (store.lookup e.id).isSome) →
      toTree store pas np seen = .error .inconsistentAliasing := by
  intro pas
  induction pas with
  | nil =>
    intro np seen npF h hc hnc _
    simp only [allPrefixes] at h
    injection h with h
    subst h
    rw [hc] at hnc
    cases hnc
  | cons pa rest ih =>
    intro np seen npF h hc hnc hst
    obtain ⟨p, arg⟩ := pa
    cases arg with
    | arr a =>
      simp only [allPrefixes] at h
      simp only [toTree, ih np seen npF h hc hnc (fun q hq => hst q (List.mem_cons_of_mem _ hq))]
    | node es =>
      simp only [allPrefixes] at h
      cases hcol : collect p es np with
      | error e => simp [hcol] at h
      | ok np' =>
        simp only [hcol] at h
        simp only [toTree, checkAliasing, hcol]
        by_cases hc' : consistent np' = true
        · simp only [hc', if_true]
          have hown : ∀ e ∈ ownedOf es (markOwn es seen).1, (store.lookup e.id).isSome :=
            fun e he => hst (p, .node es) (by simp) es rfl e (ownedOf_subset _ _ e he)
          rw [flatOf_of_total _ _ hown]
          simp only []
          rw [collect_eq] at hcol
          cases hl : leafPrefixes p es with
          | error e => simp [hl] at hcol
          | ok l =>
            obtain ⟨_, hat⟩ := leafPrefixes_ok_at hl
            obtain ⟨sts, hsts⟩ := splitFlat_ok_of_at p
              ((ownedOf es (markOwn es seen).1).map (fun e => (e.path, e.info, (store.lookup e.id).getD default)))
              (by
                intro x hx
                obtain ⟨e, he, rfl⟩ := List.mem_map.1 hx
                obtain ⟨a, ha, _⟩ := hat e (ownedOf_subset _ _ e he)
                refine ⟨a, ?_⟩
                cases p with
                | ax a' => simpa [Prefix.at] using ha
                | sa s => simpa [Prefix.at] using ha)
            simp only [hsts]
            rw [ih np' _ npF h hc' hnc (fun q hq => hst q (List.mem_cons_of_mem _ hq))]
        · simp [hc']

/-- the same for the top-level call: the error is raised before the function is traced, whatever it is -/
theorem nnxVmap_inconsistent {α : Type} [Inhabited α] (inAxes outAxes : AxesSpec) (axisSize : Option Nat)
    (verdict : Bool) (body : Body α) (args : List (Arg α)) (store : Store α) (ps : List Prefix) (npF : NodePrefixes)
    (hok : (inAxes.isBareStateAxes || inAxes.hasCarry || outAxes.hasCarry) = false)
    (hps : inAxes.expand args.length = .ok ps)
    (h : allPrefixes (ps.zip args) [] = .ok npF) (hnc : consistent npF = false)
    (hst : ∀ pa ∈ ps.zip args, ∀ es, pa.2 = .node es → ∀ e ∈ es, (store.lookup e.id).isSome) :
    nnxVmap inAxes outAxes axisSize verdict body args store = .error .inconsistentAliasing := by
  simp only [nnxVmap, hok, hps, toTree_inconsistent store _ [] [] npF h rfl hnc hst]
  rfl

/-! ### scan: the set-up checks -/

/-- `_check_out_axes` rejects exactly: `None` as an entry, and a `StateAxes` one of whose axes is `None` or `Carry` -/
theorem stateAxesOutOk_iff (s : StateAxes) :
    stateAxesOutOk s = .ok () ↔ ∀ fa ∈ s, ∃ k, fa.2 = .axis k := by
  induction s with
  | nil => simp [stateAxesOutOk]
  | cons fa rest ih =>
    obtain ⟨f, a⟩ := fa
    cases a with
    | axis k =>
      simp only [stateAxesOutOk, ih, List.mem_cons]
      constructor
      · intro h x hx
        rcases hx with hx | hx
        · subst hx; exact ⟨k, rfl⟩
        · exact h x hx
      · intro h x hx; exact h x (Or.inr hx)
    | bcast =>
      simp only [stateAxesOutOk, List.mem_cons]
      constructor
      · intro h; cases h
      · intro h; obtain ⟨k, hk⟩ := h (f, .bcast) (Or.inl rfl); cases hk
    | carry =>
      simp only [stateAxesOutOk, List.mem_cons]
      constructor
      · intro h; cases h
      · intro h; obtain ⟨k, hk⟩ := h (f, .carry) (Or.inl rfl); cases hk

/-- an entry `_check_out_axes` lets through: an int, `Carry` itself, or a `StateAxes` of ints only -/
def Prefix.okOut : Prefix → Prop
  | .ax .bcast => False
  | .ax _ => True
  | .sa s => ∀ fa ∈ s, ∃ k, fa.2 = .axis k

theorem prefix_outOk_iff (p : Prefix) : p.outOk = .ok () ↔ p.okOut := by
  cases p with
  | ax a => cases a <;> simp [Prefix.outOk, Prefix.okOut]
  | sa s => simp only [Prefix.outOk, Prefix.okOut]; exact stateAxesOutOk_iff s

theorem prefixesOutOk_iff (ps : List Prefix) : prefixesOutOk ps = .ok () ↔ ∀ p ∈ ps, p.okOut := by
  induction ps with
  | nil => simp [prefixesOutOk]
  | cons p ps ih =>
    simp only [prefixesOutOk, List.mem_cons]
    cases hp : p.outOk with
    | error e =>
      simp only []
      constructor
      · intro h; cases h
      · intro h
        have := (prefix_outOk_iff p).2 (h p (Or.inl rfl))
        rw [hp] at this; cases this
    | ok u =>
      simp only [ih]
      constructor
      · intro h q hq
        rcases hq with hq | hq
        · subst hq; exact (prefix_outOk_iff _).1 (by rw [hp])
        · exact h q hq
      · intro h q hq; exact h q (Or.inr hq)

theorem prefix_outOk_error {p : Prefix} {e : Err} (h : p.outOk = .error e) :
    e = .outAxesBroadcast ∨ e = .outAxesCarry := by
  cases p with
  | ax a => cases a <;> simp [Prefix.outOk] at h <;> simp [h]
  | sa s =>
    simp only [Prefix.outOk] at h
    induction s with
    | nil => simp [stateAxesOutOk] at h
    | cons fa rest ih =>
      obtain ⟨f, a⟩ := fa
      cases a with
      | axis k => exact ih (by simpa [stateAxesOutOk] using h)
      | bcast => simp [stateAxesOutOk] at h; simp [h]
      | carry => simp [stateAxesOutOk] at h; simp [h]

theorem prefixesOutOk_error {ps : List Prefix} {e : Err} (h : prefixesOutOk ps = .error e) :
    e = .outAxesBroadcast ∨ e = .outAxesCarry := by
  induction ps with
  | nil => simp [prefixesOutOk] at h
  | cons p ps ih =>
    simp only [prefixesOutOk] at h
    cases hp : p.outOk with
    | error e' => simp only [hp] at h; injection h with h; subst h; exact prefix_outOk_error hp
    | ok u => simp only [hp] at h; exact ih h

end Flax.NnxLoop
