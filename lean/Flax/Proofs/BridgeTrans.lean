/-
Helper lemmas for C18: the two transpositions `linen_vars_to_nnx_attrs` / `nnx_attrs_to_linen_vars`
characterised leaf by leaf.
-/
import Flax.Proofs.BridgeConv

namespace Flax.Bridge
variable {α β γ : Type}

/-! ## sorted collections -/

theorem insertCol_perm (kt : String × Tree β) (l : List (String × Tree β)) :
    (insertCol kt l).Perm (kt :: l) := by
  induction l with
  | nil => exact List.Perm.refl _
  | cons hd r ih =>
    unfold insertCol
    split
    · exact List.Perm.refl _
    · exact (List.Perm.cons hd ih).trans (List.Perm.swap kt hd r)

theorem sortedCols_perm (f : Forest β) : (sortedCols f).Perm f := by
  induction f with
  | nil => exact List.Perm.refl _
  | cons hd r ih =>
    simp only [sortedCols, List.foldr_cons] at ih ⊢
    exact (insertCol_perm hd _).trans (List.Perm.cons hd ih)

theorem pairwise_of_nodup_keys {R : String × Tree β → String × Tree β → Prop} :
    ∀ (l : List (String × Tree β)), (l.map Prod.fst).Nodup →
    (∀ a ∈ l, ∀ b ∈ l, a.1 ≠ b.1 → R a b) → l.Pairwise R := by
  intro l
  induction l with
  | nil => intro _ _; exact List.Pairwise.nil
  | cons hd r ih =>
    intro hn h
    simp only [List.map_cons, List.nodup_cons] at hn
    rw [List.pairwise_cons]
    refine ⟨?_, ih hn.2 (fun a ha b hb => h a (by simp [ha]) b (by simp [hb]))⟩
    intro b hb
    exact h hd (by simp) b (by simp [hb]) (fun e => hn.1 (List.mem_map.mpr ⟨b, hb, e.symm⟩))

/-! ## lists related element by element -/

inductive Rel₂ (R : β → γ → Prop) : List β → List γ → Prop
  | nil : Rel₂ R [] []
  | cons {a : β} {b : γ} {l : List β} {l' : List γ} : R a b → Rel₂ R l l' → Rel₂ R (a :: l) (b :: l')

theorem forall₂_mem_left {R : β → γ → Prop} {l : List β} {l' : List γ} (h : Rel₂ R l l') :
    ∀ a ∈ l, ∃ b ∈ l', R a b := by
  induction h with
  | nil => intro a ha; cases ha
  | cons hab _ ih =>
    intro a ha
    rcases List.mem_cons.mp ha with rfl | ha
    · exact ⟨_, by simp, hab⟩
    · obtain ⟨b, hb, hr⟩ := ih a ha
      exact ⟨b, by simp [hb], hr⟩

theorem forall₂_mem_right {R : β → γ → Prop} {l : List β} {l' : List γ} (h : Rel₂ R l l') :
    ∀ b ∈ l', ∃ a ∈ l, R a b := by
  induction h with
  | nil => intro a ha; cases ha
  | cons hab _ ih =>
    intro b hb
    rcases List.mem_cons.mp hb with rfl | hb
    · exact ⟨_, by simp, hab⟩
    · obtain ⟨a, ha, hr⟩ := ih b hb
      exact ⟨a, by simp [ha], hr⟩

theorem forall₂_pairwise {R : β → γ → Prop} {P : β → β → Prop} {Q : γ → γ → Prop}
    {l : List β} {l' : List γ} (h : Rel₂ R l l') (hp : l.Pairwise P)
    (hq : ∀ a a' b b', R a a' → R b b' → P a b → Q a' b') : l'.Pairwise Q := by
  induction h with
  | nil => exact List.Pairwise.nil
  | cons hab hrest ih =>
    rw [List.pairwise_cons] at hp ⊢
    refine ⟨?_, ih hp.2⟩
    intro b' hb'
    obtain ⟨b, hb, hr⟩ := forall₂_mem_right hrest b' hb'
    exact hq _ _ _ _ hab hr (hp.1 b hb)

/-! ## converting the collections -/

/-- a Linen leaf that `to_nnx_var(col, ·)` accepts and `to_linen_var` gives back, judged against the
registry before the call: an `NNXMeta` box sits in the collection registered for its type -/
def LBox.OkIn (r : Reg) (c : String) : LBox α → Prop
  | .nnxMeta vt _ md => r.typeOf c = some vt ∧ Meta.get? md "linen_meta_type" = none ∧ isVanilla md = false
  | .box cls _ fields => cls ≠ clsPartitioned ∧ cls ≠ clsLogical ∧ Meta.get? fields "linen_meta_type" = none
  | _ => True

theorem Reg.typeOf_mono (r r' : Reg) (hi : r.Inj) (hi' : r'.Inj) (hsub : ∀ e ∈ r.cache, e ∈ r'.cache)
    (n : String) (t : VType) (h : r.typeOf n = some t) : r'.typeOf n = some t :=
  (r'.typeOf_iff hi' n t).mpr (hsub _ ((r.typeOf_iff hi n t).mp h))

theorem LBox.ok_of_okIn (r r' : Reg) (hi : r.Inj) (hi' : r'.Inj) (hsub : ∀ e ∈ r.cache, e ∈ r'.cache)
    (c : String) (x : LBox α) (h : x.OkIn r c) (t : VType) (ht : r'.typeOf c = some t) : x.Ok t := by
  cases x with
  | nnxMeta vt a md =>
    obtain ⟨h1, h2, h3⟩ := h
    have := Reg.typeOf_mono r r' hi hi' hsub c vt h1
    rw [ht] at this
    exact ⟨(Option.some.inj this).symm, h2, h3⟩
  | box cls a fields => exact h
  | plain a => trivial
  | partitioned a n m => trivial
  | logical a n m ru => trivial

/-- what `convertCols` relates: same collection name, the tree converted leaf by leaf with one type,
which is the registered type of the collection when the collection has a leaf -/
def ColConv (r' : Reg) (ct : String × Tree (LBox α)) (ct' : String × Tree (NVar α)) : Prop :=
  ct'.1 = ct.1 ∧ ∃ t, ct.2.mapE (toNnxVarWith t) = .ok ct'.2 ∧ (ct.2.flatten ≠ [] → r'.typeOf ct.1 = some t)

theorem rel₂_keys {r' : Reg} {l : List (String × Tree (LBox α))} {l' : List (String × Tree (NVar α))}
    (h : Rel₂ (ColConv r') l l') : l'.map Prod.fst = l.map Prod.fst := by
  induction h with
  | nil => rfl
  | cons hab _ ih => simp [hab.1, ih]

theorem convertCols_spec : ∀ (cols : List (String × Tree (LBox α))) (r : Reg), r.Inj → r.Bounded →
    (∀ ct ∈ cols, ∀ pb ∈ ct.2.flatten, pb.2.OkIn r ct.1) →
    ∃ r' cols', convertCols r cols = .ok (r', cols') ∧ r'.Inj ∧ r'.Bounded ∧
      (∀ e ∈ r.cache, e ∈ r'.cache) ∧
      ((∀ ct ∈ cols, (r.typeOf ct.1).isSome) → r' = r) ∧
      Rel₂ (ColConv r') cols cols' := by
  intro cols
  induction cols with
  | nil => intro r hi hb _; exact ⟨r, [], rfl, hi, hb, fun e h => h, fun _ => rfl, Rel₂.nil⟩
  | cons ct rest ih =>
    intro r hi hb hok
    obtain ⟨c, t⟩ := ct
    obtain ⟨r1, vt, htf⟩ := (Reg.typeFromName_spec r hi hb c true).1 rfl
    obtain ⟨hi1, hb1, _, hty1, hsub1, hnew1⟩ := (Reg.typeFromName_spec r hi hb c true).2 r1 vt htf
    -- every leaf converts with the type `vt`
    obtain ⟨t', ht'⟩ := Tree.mapE_ok (toNnxVarWith vt) t (by
      intro pb hpb
      have hok1 := LBox.ok_of_okIn r r1 hi hi1 hsub1 c pb.2 (hok (c, t) (by simp) pb hpb) vt hty1
      obtain ⟨v, hv, _⟩ := box_roundtrip_aux vt pb.2 hok1
      exact ⟨v, hv⟩)
    -- the registry after this collection
    have hr2 : ∃ r2 : Reg, r2 = (if t.flatten.isEmpty then r else r1) ∧ r2.Inj ∧ r2.Bounded ∧
        (∀ e ∈ r.cache, e ∈ r2.cache) ∧ (∀ e ∈ r2.cache, e ∈ r1.cache) ∧
        (t.flatten ≠ [] → r2 = r1) := by
      by_cases he : t.flatten.isEmpty
      · refine ⟨r, by simp [he], hi, hb, fun e h => h, hsub1, ?_⟩
        intro hne; simp [List.isEmpty_iff] at he; exact absurd he hne
      · exact ⟨r1, by simp [he], hi1, hb1, hsub1, fun e h => h, fun _ => rfl⟩
    obtain ⟨r2, hr2eq, hi2, hb2, hsub2, hsub21, hr2ne⟩ := hr2
    obtain ⟨r', rest', hrest, hi', hb', hsub', hsame', hfa⟩ := ih r2 hi2 hb2 (by
      intro ct' hct' pb hpb
      have h0 := hok ct' (by simp [hct']) pb hpb
      cases hx : pb.2 with
      | nnxMeta vt0 a md =>
        rw [hx] at h0
        exact ⟨Reg.typeOf_mono r r2 hi hi2 hsub2 _ _ h0.1, h0.2.1, h0.2.2⟩
      | box cls a fields => rw [hx] at h0; exact h0
      | plain a => trivial
      | partitioned a n m => trivial
      | logical a n m ru => trivial)
    refine ⟨r', (c, t') :: rest', ?_, hi', hb', fun e h => hsub' e (hsub2 e h), ?_, ?_⟩
    · simp only [convertCols, convertCol, htf, ht', bind, Except.bind, pure, Except.pure, ← hr2eq, hrest]
    · intro hall
      have hc : (r.typeOf c).isSome := hall (c, t) (by simp)
      have hr1 : r1 = r := by
        unfold Reg.typeFromName at htf
        cases h : r.typeOf c with
        | none => simp [h] at hc
        | some t0 => simp only [h, Except.ok.injEq, Prod.mk.injEq] at htf; exact htf.1.symm
      have hr2r : r2 = r := by rw [hr2eq, hr1]; simp
      rw [hsame' (by intro ct' hct'; rw [hr2r]; exact hall ct' (by simp [hct'])), hr2r]
    · refine Rel₂.cons ⟨rfl, vt, ht', ?_⟩ hfa
      intro hne
      have : r2 = r1 := hr2ne hne
      exact Reg.typeOf_mono r1 r' hi1 hi' (by intro e he; exact hsub' e (this ▸ he)) c vt hty1

/-! ## `linen_vars_to_nnx_attrs`, leaf by leaf -/

/-- what the theorems ask of a Linen variables dict `V` (collection ↦ nested dict):
every collection is a dict without empty sub-dicts, leaves are convertible, and the attribute paths of
two different collections neither coincide nor nest (no variable and sub-layer of the same name) -/
structure VarsOk (r : Reg) (V : Forest (LBox α)) : Prop where
  wf : WFF V
  cols : ∀ ct ∈ V, ∃ f, ct.2 = .node f ∧ NoEmptyF f
  boxes : ∀ ct ∈ V, ∀ pb ∈ ct.2.flatten, pb.2.OkIn r ct.1
  apart : ∀ ct ∈ V, ∀ ct' ∈ V, ct.1 ≠ ct'.1 → ∀ f f', ct.2 = .node f → ct'.2 = .node f' → Disjoint f f'

theorem leafAtF_col (V : Forest β) (hw : WFF V) (c : String) (q : Path) (x : β) :
    leafAtF V (c :: q) = some x ↔ ∃ t, (c, t) ∈ V ∧ t.leafAt q = some x := by
  rw [leafAtF_cons]
  constructor
  · intro h
    cases hd : dget V c with
    | none => rw [hd] at h; cases h
    | some t => rw [hd] at h; exact ⟨t, dget_mem V c t hd, h⟩
  · rintro ⟨t, hm, hl⟩
    rw [dget_of_mem V hw c t hm]; exact hl

theorem linenVarsToNnxAttrs_spec (r : Reg) (hi : r.Inj) (hb : r.Bounded) (V : Forest (LBox α))
    (hV : VarsOk r V) :
    ∃ r' A, linenVarsToNnxAttrs r V = .ok (r', A) ∧ r'.Inj ∧ r'.Bounded ∧
      (∀ e ∈ r.cache, e ∈ r'.cache) ∧
      ((∀ ct ∈ V, (r.typeOf ct.1).isSome) → r' = r) ∧ WFF A ∧ NoEmptyF A ∧
      (∀ c q x, leafAtF V (c :: q) = some x → ∃ t, r'.typeOf c = some t) ∧
      ∀ q v, leafAtF A q = some v ↔
        ∃ c x t, leafAtF V (c :: q) = some x ∧ r'.typeOf c = some t ∧ toNnxVarWith t x = .ok v := by
  have hperm := sortedCols_perm V
  have hmem : ∀ ct, ct ∈ sortedCols V ↔ ct ∈ V := fun ct => hperm.mem_iff
  obtain ⟨r', cols', hconv, hi', hb', hsub, hsame, hfa⟩ := convertCols_spec (sortedCols V) r hi hb
    (fun ct hct pb hpb => hV.boxes ct ((hmem ct).mp hct) pb hpb)
  -- the converted collections are dicts, well formed, without empty sub-dicts, pairwise apart
  have hnode : ∀ ct' ∈ cols', ∃ ct ∈ V, ∃ f f', ct.2 = .node f ∧ ct'.2 = .node f' ∧ ct'.1 = ct.1 ∧
      ∃ t, mapEF (toNnxVarWith t) f = .ok f' ∧ (flattenF f ≠ [] → r'.typeOf ct.1 = some t) := by
    intro ct' hct'
    obtain ⟨ct, hct, h1, t, h2, h3⟩ := forall₂_mem_right hfa ct' hct'
    have hctV := (hmem ct).mp hct
    obtain ⟨f, hf, _⟩ := hV.cols ct hctV
    rw [hf] at h2 h3
    simp only [Tree.mapE, bind_ok, pure, Except.pure, Except.ok.injEq] at h2
    obtain ⟨f', hf', he⟩ := h2
    exact ⟨ct, hctV, f, f', hf, he.symm, h1, t, hf', by simpa [Tree.flatten] using h3⟩
  have hkeys : (cols'.map Prod.fst) = (sortedCols V).map Prod.fst := rel₂_keys hfa
  have hnodupV : (dkeys V).Nodup := WFF_nodup V hV.wf
  have hnodup : ((sortedCols V).map Prod.fst).Nodup := (hperm.map Prod.fst).nodup_iff.mpr hnodupV
  obtain ⟨A, hA, hwA, hnA, hleafA⟩ := foldAddCol_spec cols' [] (by simp [WFF])
    (by
      intro ct' hct'
      obtain ⟨ct, hctV, f, f', hf, hf', _, t, hmap, _⟩ := hnode ct' hct'
      obtain ⟨f0, hf0, hne0⟩ := hV.cols ct hctV
      rw [hf] at hf0; cases hf0
      have hsh := mapEF_shape _ f f' hmap
      have hwf : WFF f := by
        have := WF_of_mem V hV.wf ct hctV; rw [hf] at this; simpa [Tree.WF] using this
      exact ⟨f', hf', hsh.1 hwf, hsh.2.1 hne0, fun q q' h _ => by simp at h⟩)
    (by
      apply pairwise_of_nodup_keys cols' (hkeys ▸ hnodup)
      intro a' ha' b' hb' hne f1' f2' hf1' hf2'
      obtain ⟨a, haV, f1, g1, hf1, hg1, hk1, t1, hm1, _⟩ := hnode a' ha'
      obtain ⟨b, hbV, f2, g2, hf2, hg2, hk2, t2, hm2, _⟩ := hnode b' hb'
      rw [hf1'] at hg1; cases hg1
      rw [hf2'] at hg2; cases hg2
      have hd := hV.apart a haV b hbV (by rw [← hk1, ← hk2]; exact hne) f1 f2 hf1 hf2
      intro q q' h1 h2
      refine hd q q' ?_ ?_
      · intro hn; exact h1 (((mapEF_spec _ f1 f1' hm1).2 q).2 hn)
      · intro hn; exact h2 (((mapEF_spec _ f2 f2' hm2).2 q').2 hn))
  refine ⟨r', A, ?_, hi', hb', hsub, ?_, hwA, hnA (by simp [NoEmptyF]), ?_, ?_⟩
  · simp only [linenVarsToNnxAttrs, hconv, hA, bind, Except.bind, pure, Except.pure]
  · intro hall; exact hsame (fun ct hct => hall ct ((hmem ct).mp hct))
  · intro c q x hl
    rw [leafAtF_col V hV.wf] at hl
    obtain ⟨tr, hm, hl⟩ := hl
    obtain ⟨ct', _, _, t0, _, hty0⟩ := forall₂_mem_left hfa (c, tr) ((hmem _).mpr hm)
    refine ⟨t0, hty0 ?_⟩
    intro e
    have := Tree.flatten_complete tr q x hl
    rw [e] at this; cases this
  · intro q v
    rw [hleafA q v]
    simp only [leafAtF_nil, reduceCtorEq, false_or]
    constructor
    · rintro ⟨ct', hct', hl⟩
      obtain ⟨ct, hctV, f, f', hf, hf', hk, t, hmap, hty⟩ := hnode ct' hct'
      rw [hf'] at hl
      simp only [Tree.leafAt_node] at hl
      -- the source leaf
      cases hsrc : leafAtF f q with
      | none => rw [((mapEF_spec _ f f' hmap).2 q).2 hsrc] at hl; cases hl
      | some x =>
        obtain ⟨v', hv', hl'⟩ := ((mapEF_spec _ f f' hmap).2 q).1 x hsrc
        rw [hl] at hl'; cases hl'
        have hne : flattenF f ≠ [] := by
          intro e
          have := flattenF_complete f q x hsrc
          rw [e] at this; cases this
        refine ⟨ct.1, x, t, ?_, hty hne, hv'⟩
        rw [leafAtF_col V hV.wf]
        exact ⟨ct.2, hctV, by rw [hf]; exact hsrc⟩
    · rintro ⟨c, x, t, hl, hty, hv⟩
      rw [leafAtF_col V hV.wf] at hl
      obtain ⟨tr, hm, hl⟩ := hl
      obtain ⟨ct', hct', hk, t0, hmap0, hty0⟩ := forall₂_mem_left hfa (c, tr) ((hmem _).mpr hm)
      refine ⟨ct', hct', ?_⟩
      have hne : tr.flatten ≠ [] := by
        intro e
        have := Tree.flatten_complete tr q x hl
        rw [e] at this; cases this
      have : t0 = t := by
        have := hty0 hne
        simp only at this
        rw [hty] at this; exact (Option.some.inj this).symm
      subst this
      obtain ⟨v', hv', hl'⟩ := ((Tree.mapE_spec _ tr ct'.2 hmap0) q).1 x hl
      rw [hv] at hv'; cases hv'
      exact hl'

end Flax.Bridge
