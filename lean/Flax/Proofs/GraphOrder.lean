/-
Order lemmas for the NNX graph model (C03): `Key.lt` / `Path.lt` are strict total orders, the stable
insertion sort `sortBy` is a canonical form for permutations of a list with distinct keys.
-/
import Flax.Model.Heap

namespace Flax.Heap

/-- a decidable strict total order -/
structure StrictTotal {κ : Type} (lt : κ → κ → Bool) : Prop where
  irrefl : ∀ a, lt a a = false
  trans : ∀ a b c, lt a b = true → lt b c = true → lt a c = true
  total : ∀ a b, a ≠ b → lt a b = true ∨ lt b a = true

theorem StrictTotal.asymm {κ : Type} {lt : κ → κ → Bool} (st : StrictTotal lt) {a b : κ}
    (h : lt a b = true) : lt b a = false := by
  cases hba : lt b a with
  | false => rfl
  | true => have := st.trans a b a h hba; simp [st.irrefl a] at this

theorem StrictTotal.ne {κ : Type} {lt : κ → κ → Bool} (st : StrictTotal lt) {a b : κ}
    (h : lt a b = true) : a ≠ b := by
  intro e; subst e; simp [st.irrefl a] at h

/-! ### keys -/

theorem Key.lt_irrefl (a : Key) : Key.lt a a = false := by
  cases a <;> simp [Key.lt, String.lt_irrefl]

theorem Key.lt_trans {a b c : Key} (h1 : Key.lt a b = true) (h2 : Key.lt b c = true) : Key.lt a c = true := by
  cases a <;> cases b <;> cases c <;> simp_all [Key.lt]
  · omega
  · exact String.lt_trans h1 h2

theorem Key.lt_total {a b : Key} (h : a ≠ b) : Key.lt a b = true ∨ Key.lt b a = true := by
  cases a <;> cases b <;> simp_all [Key.lt]
  · omega
  · rename_i s t
    by_cases h1 : s < t
    · exact Or.inl h1
    · by_cases h2 : t < s
      · exact Or.inr h2
      · exact absurd (String.le_antisymm (String.not_lt.mp h2) (String.not_lt.mp h1)) h

theorem Key.strictTotal : StrictTotal Key.lt :=
  ⟨Key.lt_irrefl, fun _ _ _ => Key.lt_trans, fun _ _ => Key.lt_total⟩

/-! ### paths -/

theorem Path.lt_irrefl : ∀ p : Path, Path.lt p p = false
  | [] => rfl
  | a :: as => by simp [Path.lt, Key.lt_irrefl, Path.lt_irrefl as]

theorem Path.lt_trans : ∀ {p q r : Path}, Path.lt p q = true → Path.lt q r = true → Path.lt p r = true
  | [], [], _, h, _ => by simp [Path.lt] at h
  | [], _ :: _, [], _, h => by simp [Path.lt] at h
  | [], _ :: _, _ :: _, _, _ => by simp [Path.lt]
  | _ :: _, [], _, h, _ => by simp [Path.lt] at h
  | _ :: _, _ :: _, [], _, h => by simp [Path.lt] at h
  | a :: as, b :: bs, c :: cs, h1, h2 => by
    simp only [Path.lt, Bool.or_eq_true, Bool.and_eq_true, decide_eq_true_eq] at h1 h2 ⊢
    rcases h1 with h1 | ⟨e1, h1⟩
    · rcases h2 with h2 | ⟨e2, _⟩
      · exact Or.inl (Key.lt_trans h1 h2)
      · subst e2; exact Or.inl h1
    · subst e1
      rcases h2 with h2 | ⟨e2, h2⟩
      · exact Or.inl h2
      · subst e2; exact Or.inr ⟨rfl, Path.lt_trans h1 h2⟩

theorem Path.lt_total : ∀ {p q : Path}, p ≠ q → Path.lt p q = true ∨ Path.lt q p = true
  | [], [], h => absurd rfl h
  | [], _ :: _, _ => by simp [Path.lt]
  | _ :: _, [], _ => by simp [Path.lt]
  | a :: as, b :: bs, h => by
    simp only [Path.lt, Bool.or_eq_true, Bool.and_eq_true, decide_eq_true_eq]
    by_cases e : a = b
    · subst e
      have : as ≠ bs := fun e' => h (by rw [e'])
      rcases Path.lt_total this with h' | h'
      · exact Or.inl (Or.inr ⟨rfl, h'⟩)
      · exact Or.inr (Or.inr ⟨rfl, h'⟩)
    · rcases Key.lt_total e with h' | h'
      · exact Or.inl (Or.inl h')
      · exact Or.inr (Or.inl h')

theorem Path.strictTotal : StrictTotal Path.lt :=
  ⟨Path.lt_irrefl, fun _ _ _ => Path.lt_trans, fun _ _ => Path.lt_total⟩

/-- comparing below a common prefix -/
theorem Path.lt_append_left : ∀ (pre p q : Path), Path.lt (pre ++ p) (pre ++ q) = Path.lt p q
  | [], _, _ => rfl
  | a :: pre, p, q => by simp [Path.lt, Key.lt_irrefl, Path.lt_append_left pre p q]

theorem Path.lt_cons_of_key_lt {k k' : Key} (s s' : Path) (h : Key.lt k k' = true) :
    Path.lt (k :: s) (k' :: s') = true := by
  simp [Path.lt, h]

/-- two paths that leave a common prefix through keys `k < k'` are ordered the same way -/
theorem Path.lt_of_diverge (pre : Path) {k k' : Key} (s s' : Path) (h : Key.lt k k' = true) :
    Path.lt (pre ++ k :: s) (pre ++ k' :: s') = true := by
  rw [Path.lt_append_left]; exact Path.lt_cons_of_key_lt s s' h

/-! ### insertion sort -/

section SortLemmas
variable {κ α : Type} {lt : κ → κ → Bool}

/-- sorted, allowing equal keys -/
def Sorted (lt : κ → κ → Bool) (l : List (κ × α)) : Prop := l.Pairwise (fun a b => lt b.1 a.1 = false)

/-- strictly sorted: in particular the keys are pairwise distinct -/
def SSorted (lt : κ → κ → Bool) (l : List (κ × α)) : Prop := l.Pairwise (fun a b => lt a.1 b.1 = true)

theorem insertBy_perm (k : κ) (v : α) : ∀ l : List (κ × α), (insertBy lt k v l).Perm ((k, v) :: l)
  | [] => by simp [insertBy]
  | (k', v') :: rest => by
    simp only [insertBy]
    split
    · exact ((insertBy_perm k v rest).cons (k', v')).trans (List.Perm.swap _ _ _)
    · exact List.Perm.refl _

theorem sortBy_perm : ∀ l : List (κ × α), (sortBy lt l).Perm l
  | [] => by simp [sortBy]
  | (k, v) :: rest => by
    simp only [sortBy]
    exact (insertBy_perm k v _).trans ((sortBy_perm rest).cons _)

theorem insertBy_sorted (st : StrictTotal lt) (k : κ) (v : α) :
    ∀ l : List (κ × α), Sorted lt l → Sorted lt (insertBy lt k v l)
  | [], _ => by simp [insertBy, Sorted]
  | (k', v') :: rest, hs => by
    have hs' := List.pairwise_cons.mp hs
    simp only [insertBy]
    split
    · next hlt =>
      refine List.pairwise_cons.mpr ⟨?_, insertBy_sorted st k v rest hs'.2⟩
      intro x hx
      rcases (List.mem_cons.mp ((insertBy_perm k v rest).mem_iff.mp hx)) with e | hx'
      · subst e; exact st.asymm hlt
      · exact hs'.1 x hx'
    · next hnlt =>
      refine List.pairwise_cons.mpr ⟨?_, hs⟩
      intro x hx
      rcases List.mem_cons.mp hx with e | hx'
      · subst e; simpa using hnlt
      · -- ¬ x < k' and ¬ k' < k, hence ¬ x < k
        have h1 := hs'.1 x hx'
        cases hxk : lt x.1 k with
        | false => rfl
        | true =>
          by_cases e : k' = x.1
          · rw [e] at hnlt; exact absurd hxk hnlt
          · rcases st.total k' x.1 e with h2 | h2
            · exact absurd (st.trans _ _ _ h2 hxk) hnlt
            · rw [h2] at h1; cases h1

theorem sortBy_sorted (st : StrictTotal lt) : ∀ l : List (κ × α), Sorted lt (sortBy lt l)
  | [] => by simp [sortBy, Sorted]
  | (k, v) :: rest => by
    simp only [sortBy]
    exact insertBy_sorted st k v _ (sortBy_sorted st rest)

theorem sortBy_of_sorted : ∀ l : List (κ × α), Sorted lt l → sortBy lt l = l
  | [], _ => rfl
  | (k, v) :: rest, hs => by
    have hs' := List.pairwise_cons.mp hs
    simp only [sortBy, sortBy_of_sorted rest hs'.2]
    cases rest with
    | nil => rfl
    | cons kv r =>
      have := hs'.1 kv (by simp)
      simp [insertBy, this]

theorem SSorted.sorted (st : StrictTotal lt) {l : List (κ × α)} (h : SSorted lt l) : Sorted lt l :=
  List.Pairwise.imp (fun hab => st.asymm hab) h

theorem SSorted.keys_nodup (st : StrictTotal lt) {l : List (κ × α)} (h : SSorted lt l) :
    (l.map (·.1)).Nodup := by
  unfold List.Nodup
  rw [List.pairwise_map]
  exact List.Pairwise.imp (fun hab => st.ne hab) h

theorem Sorted.strict (st : StrictTotal lt) {l : List (κ × α)} (h : Sorted lt l)
    (hn : (l.map (·.1)).Nodup) : SSorted lt l := by
  unfold List.Nodup at hn
  rw [List.pairwise_map] at hn
  have := List.Pairwise.and h hn
  refine List.Pairwise.imp ?_ this
  intro a b ⟨h1, h2⟩
  rcases st.total a.1 b.1 h2 with h3 | h3
  · exact h3
  · rw [h3] at h1; cases h1

/-- two strictly sorted lists with the same elements are equal -/
theorem eq_of_perm_ssorted (st : StrictTotal lt) :
    ∀ {l₁ l₂ : List (κ × α)}, l₁.Perm l₂ → SSorted lt l₁ → SSorted lt l₂ → l₁ = l₂
  | [], l₂, hp, _, _ => (List.Perm.nil_eq hp)
  | a :: t₁, [], hp, _, _ => by simpa using hp.length_eq
  | a :: t₁, b :: t₂, hp, h1, h2 => by
    have h1' := List.pairwise_cons.mp h1
    have h2' := List.pairwise_cons.mp h2
    have hab : a = b := by
      rcases List.mem_cons.mp (hp.mem_iff.mp (List.mem_cons_self)) with e | ha
      · exact e
      · rcases List.mem_cons.mp (hp.mem_iff.mpr (List.mem_cons_self (a := b) (l := t₂))) with e | hb
        · exact e.symm
        · have x := h2'.1 a ha
          have y := h1'.1 b hb
          rw [st.asymm x] at y; cases y
    subst hab
    rw [eq_of_perm_ssorted st (List.Perm.cons_inv hp) h1'.2 h2'.2]

/-- **canonical form**: sorting any permutation of a strictly sorted list gives that list back -/
theorem sortBy_of_perm (st : StrictTotal lt) {l l₀ : List (κ × α)} (hp : l.Perm l₀) (h0 : SSorted lt l₀) :
    sortBy lt l = l₀ := by
  have hs := sortBy_sorted st l
  have hp' : (sortBy lt l).Perm l₀ := (sortBy_perm l).trans hp
  have hn : ((sortBy lt l).map (·.1)).Nodup := (hp'.map _).nodup_iff.mpr (h0.keys_nodup st)
  exact eq_of_perm_ssorted st hp' (hs.strict st hn) h0

theorem sortBy_ssorted (st : StrictTotal lt) {l : List (κ × α)} (hn : (l.map (·.1)).Nodup) :
    SSorted lt (sortBy lt l) :=
  (sortBy_sorted st l).strict st (((sortBy_perm l).map _).nodup_iff.mpr hn)

theorem mem_sortBy {l : List (κ × α)} {x : κ × α} : x ∈ sortBy lt l ↔ x ∈ l :=
  (sortBy_perm l).mem_iff

end SortLemmas

theorem sortKV_ssorted {α : Type} {l : List (Key × α)} (hn : keysNodup l) : SSorted Key.lt (sortKV l) :=
  sortBy_ssorted Key.strictTotal hn

theorem mem_sortKV {α : Type} {l : List (Key × α)} {x : Key × α} : x ∈ sortKV l ↔ x ∈ l := mem_sortBy

/-- `enumerate` produces strictly increasing keys -/
theorem enumFrom_ssorted {α : Type} : ∀ (n : Nat) (xs : List α), SSorted Key.lt (enumFrom n xs)
  | _, [] => by simp [enumFrom, SSorted]
  | n, x :: xs => by
    simp only [enumFrom, SSorted]
    refine List.pairwise_cons.mpr ⟨?_, enumFrom_ssorted (n + 1) xs⟩
    intro kv hkv
    have : ∀ (m : Nat) (ys : List α) (kv : Key × α), kv ∈ enumFrom m ys → ∃ j : Nat, m ≤ j ∧ kv.1 = Key.int j := by
      intro m ys
      induction ys generalizing m with
      | nil => intro kv h; simp [enumFrom] at h
      | cons y ys ih =>
        intro kv h
        simp only [enumFrom, List.mem_cons] at h
        rcases h with e | h
        · exact ⟨m, Nat.le_refl _, by rw [e]⟩
        · obtain ⟨j, hj, e⟩ := ih (m + 1) kv h
          exact ⟨j, by omega, e⟩
    obtain ⟨j, hj, e⟩ := this (n + 1) xs kv hkv
    rw [e]; simp [Key.lt]; omega

end Flax.Heap
