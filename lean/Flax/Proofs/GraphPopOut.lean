/- C03 helper lemmas: what the repaired `_graph_pop` returns and what it leaves behind -/
import Flax.Proofs.GraphPop
set_option linter.unusedSimpArgs false
set_option linter.unusedVariables false

namespace Flax.Graph
open Flax.Heap
open Flax.Filter (NFilter)

theorem pushOut_getD (out : List FlatState) (i j : Nat) (it : Path × Leaf) :
    (pushOut out i it).getD j [] = if j = i ∧ i < out.length then out.getD i [] ++ [it] else out.getD j [] := by
  unfold pushOut
  rw [List.getD_eq_getElem?_getD, List.getElem?_mapIdx]
  by_cases hj : j < out.length
  · rw [List.getElem?_eq_getElem hj]
    simp only [Option.map_some, Option.getD_some]
    by_cases e : j = i
    · subst e
      simp [hj, List.getD_eq_getElem?_getD, List.getElem?_eq_getElem hj]
    · simp [e, List.getD_eq_getElem?_getD, List.getElem?_eq_getElem hj]
  · have hn : out[j]? = Option.none := List.getElem?_eq_none (by omega)
    rw [hn]
    simp only [Option.map_none, Option.getD_none]
    by_cases e : j = i
    · subst e; simp [hj, List.getD_eq_getElem?_getD, hn]
    · simp [e, List.getD_eq_getElem?_getD, hn]

theorem pushOut_length (out : List FlatState) (i : Nat) (it : Path × Leaf) : (pushOut out i it).length = out.length := by
  simp [pushOut]

section PopOut
variable (preds : List NFilter) (h0 : Heap) (root0 : PVal)

/-- what the output states record, in terms of the original heap `h0` and absolute paths from `root0` -/
structure OutInv (st : PopSt) : Prop where
  len : st.out.length = preds.length
  sound : ∀ i, ∀ it ∈ st.out.getD i [], ∃ (b : Nat), ∃ ty val md, it.2 = .vstate ty val md ∧ h0[b]? = some (.var ty val md) ∧
    resolve h0 root0 it.1 = some (.ref b) ∧ bucketOf preds it = i ∧ i < preds.length ∧ b ∈ st.visited
  nodup : ∀ i, (st.out.getD i []).Nodup
  once : ∀ i j it it' (b : Nat), it ∈ st.out.getD i [] → it' ∈ st.out.getD j [] →
    resolve h0 root0 it.1 = some (.ref b) → resolve h0 root0 it'.1 = some (.ref b) → it = it' ∧ i = j
  complete : ∀ (b : Nat), b ∈ st.visited → ∀ ty val md, h0[b]? = some (.var ty val md) →
    ∃ i p, (p, Leaf.vstate ty val md) ∈ st.out.getD i [] ∧ resolve h0 root0 p = some (.ref b)

/-- the global invariant of a `pop` run relative to the original heap -/
structure GInv (st : PopSt) : Prop where
  shape0 : PShape h0 st.heap
  vs : VS preds st
  keeps : ∀ (a : Nat) cls attrs0, h0[a]? = some (.node cls attrs0) →
    ∃ live, st.heap[a]? = some (.node cls live) ∧ ∀ kv ∈ attrs0, ¬ IsSelRef preds h0 kv.2 → kv ∈ live
  erased : ∀ (a : Nat) cls attrs0 live, h0[a]? = some (.node cls attrs0) → st.heap[a]? = some (.node cls live) →
    ∀ kv ∈ attrs0, kv ∉ live → ∃ (b : Nat), kv.2 = .ref b ∧ b ∈ st.visited ∧ sel preds h0 b
  out : OutInv preds h0 root0 st

variable {preds h0 root0}

theorem keysNodup_unique {α : Type} {l : List (Key × α)} (hn : keysNodup l) {kv kv' : Key × α} (h1 : kv ∈ l) (h2 : kv' ∈ l)
    (hk : kv.1 = kv'.1) : kv = kv' := by
  induction l with
  | nil => cases h1
  | cons x t ih =>
    have hn' : x.1 ∉ t.map (·.1) ∧ (t.map (·.1)).Nodup := by
      unfold keysNodup at hn; rw [List.map_cons] at hn; exact List.nodup_cons.mp hn
    rcases List.mem_cons.mp h1 with e1 | m1 <;> rcases List.mem_cons.mp h2 with e2 | m2
    · rw [e1, e2]
    · exfalso; apply hn'.1; rw [← e1, hk]; exact List.mem_map_of_mem (f := (·.1)) m2
    · exfalso; apply hn'.1; rw [← e2, ← hk]; exact List.mem_map_of_mem (f := (·.1)) m1
    · exact ih hn'.2 m1 m2

theorem sel_h0 {st : PopSt} (g : GInv preds h0 root0 st) (b : Addr) : sel preds h0 b ↔ sel preds st.heap b :=
  sel_shape g.shape0 b

/-- heap part of erasing the key `k` (a reference to the selected Variable `b`) from the owner `a` -/
theorem ginv_erase_heap {st : PopSt} (g : GInv preds h0 root0 st) {a : Nat} {cls : String} {attrs0 : List (Key × PVal)}
    {k : Key} {b : Nat} (hg0 : h0[a]? = some (.node cls attrs0)) (hmem : (k, PVal.ref b) ∈ attrs0)
    (hnd : keysNodup attrs0) (hsel : sel preds h0 b) (vis' : List Addr) (hvis : ∀ x, x ∈ st.visited → x ∈ vis')
    (hb : b ∈ vis') :
    PShape h0 (eraseAttr st.heap a k) ∧
    (∀ (a' : Nat) cls' attrs', h0[a']? = some (.node cls' attrs') →
      ∃ live, (eraseAttr st.heap a k)[a']? = some (.node cls' live) ∧ ∀ kv ∈ attrs', ¬ IsSelRef preds h0 kv.2 → kv ∈ live) ∧
    (∀ (a' : Nat) cls' attrs' live, h0[a']? = some (.node cls' attrs') → (eraseAttr st.heap a k)[a']? = some (.node cls' live) →
      ∀ kv ∈ attrs', kv ∉ live → ∃ (b' : Nat), kv.2 = .ref b' ∧ b' ∈ vis' ∧ sel preds h0 b') := by
  obtain ⟨live, hlive, hkeep⟩ := g.keeps a cls attrs0 hg0
  have herase := eraseAttr_self k hlive
  refine ⟨g.shape0.trans (eraseAttr_shape _ _ _), ?_, ?_⟩
  · intro a' cls' attrs' hg'
    by_cases e : a' = a
    · subst e
      rw [hg0] at hg'; cases hg'
      refine ⟨eraseKV k live, herase, ?_⟩
      intro kv hkv hns
      refine mem_eraseKV.mpr ⟨hkeep kv hkv hns, ?_⟩
      intro hk
      have : kv = (k, PVal.ref b) := keysNodup_unique hnd hkv hmem hk
      exact hns ⟨b, by rw [this], hsel⟩
    · obtain ⟨live', hl', hk'⟩ := g.keeps a' cls' attrs' hg'
      exact ⟨live', by rw [eraseAttr_other _ _ _ _ e]; exact hl', hk'⟩
  · intro a' cls' attrs' live' hg' hl' kv hkv hnl
    by_cases e : a' = a
    · subst e
      rw [hg0] at hg'; cases hg'
      rw [herase] at hl'; cases hl'
      by_cases hin : kv ∈ live
      · have hk : kv.1 = k := by
          apply Classical.byContradiction
          intro hne
          exact hnl (mem_eraseKV.mpr ⟨hin, hne⟩)
        have : kv = (k, PVal.ref b) := keysNodup_unique hnd hkv hmem hk
        exact ⟨b, by rw [this], hb, hsel⟩
      · obtain ⟨b', e1, e2, e3⟩ := g.erased a' cls attrs0 live hg0 hlive kv hkv hin
        exact ⟨b', e1, hvis b' e2, e3⟩
    · rw [eraseAttr_other _ _ _ _ e] at hl'
      obtain ⟨b', e1, e2, e3⟩ := g.erased a' cls' attrs' live' hg' hl' kv hkv hnl
      exact ⟨b', e1, hvis b' e2, e3⟩

theorem vs_of_shape {st : PopSt} (g : GInv preds h0 root0 st) {hp : Heap} (hs : PShape st.heap hp) {vis' : List Addr}
    (hv : ∀ x ∈ vis', x ∈ st.visited ∨ sel preds h0 x) : VS preds { heap := hp, visited := vis', out := st.out } := by
  intro x hx ty val md hg
  simp only at hx hg
  rcases hv x hx with h1 | h1
  · exact (sel_shape hs x).mp (g.vs x h1 ty val md ((hs.var x ty val md).mpr hg))
  · exact (sel_shape hs x).mp ((sel_h0 g x).mp h1)

/-- a popped Variable that is met again: only the heap changes -/
theorem ginv_erase_visited {st : PopSt} (g : GInv preds h0 root0 st) {a : Nat} {cls : String} {attrs0 : List (Key × PVal)}
    {k : Key} {b : Nat} (hg0 : h0[a]? = some (.node cls attrs0)) (hmem : (k, PVal.ref b) ∈ attrs0)
    (hnd : keysNodup attrs0) (hsel : sel preds h0 b) (hb : b ∈ st.visited) :
    GInv preds h0 root0 { st with heap := eraseAttr st.heap a k } := by
  obtain ⟨s0, kp, er⟩ := ginv_erase_heap g hg0 hmem hnd hsel st.visited (fun _ h => h) hb
  refine ⟨s0, ?_, kp, er, ⟨g.out.len, g.out.sound, g.out.nodup, g.out.once, g.out.complete⟩⟩
  have := vs_of_shape g (eraseAttr_shape st.heap a k) (vis' := st.visited) (fun x hx => Or.inl hx)
  exact this

/-- popping a Variable for the first time -/
theorem ginv_push {st : PopSt} (g : GInv preds h0 root0 st) {a : Nat} {cls : String} {attrs0 : List (Key × PVal)}
    {k : Key} {b : Nat} {p : Path} {ty : VType} {val : Data} {md : Meta}
    (hg0 : h0[a]? = some (.node cls attrs0)) (hmem : (k, PVal.ref b) ∈ attrs0)
    (hnd : keysNodup attrs0) (hb0 : h0[b]? = some (.var ty val md))
    (hlt : bucketOf preds (p, Leaf.vstate ty val md) < preds.length)
    (hsel : sel preds h0 b) (hnb : b ∉ st.visited) (hres : resolve h0 root0 p = some (.ref b)) :
    GInv preds h0 root0 { heap := eraseAttr st.heap a k, visited := st.visited ++ [b],
                          out := pushOut st.out (bucketOf preds (p, Leaf.vstate ty val md)) (p, Leaf.vstate ty val md) } := by
  obtain ⟨s0, kp, er⟩ := ginv_erase_heap g hg0 hmem hnd hsel (st.visited ++ [b])
    (fun _ h => List.mem_append_left _ h) (by simp)
  have hi : bucketOf preds (p, Leaf.vstate ty val md) < st.out.length := by rw [g.out.len]; exact hlt
  -- membership in the new buckets
  have hmemb : ∀ j it, it ∈ (pushOut st.out (bucketOf preds (p, Leaf.vstate ty val md)) (p, Leaf.vstate ty val md)).getD j [] ↔
      (it ∈ st.out.getD j [] ∨ (j = bucketOf preds (p, Leaf.vstate ty val md) ∧ it = (p, Leaf.vstate ty val md))) := by
    intro j it
    rw [pushOut_getD]
    by_cases e : j = bucketOf preds (p, Leaf.vstate ty val md)
    · subst e; simp [hi]
    · simp [e]
  -- an old entry never resolves to `b`
  have hold : ∀ j it, it ∈ st.out.getD j [] → resolve h0 root0 it.1 ≠ some (.ref b) := by
    intro j it hit hr
    obtain ⟨b', _, _, _, _, _, hr', _, _, hb'⟩ := g.out.sound j it hit
    rw [hr] at hr'; cases hr'
    exact hnb hb'
  refine ⟨s0, ?_, kp, er, ?_⟩
  · have := vs_of_shape g (eraseAttr_shape st.heap a k) (vis' := st.visited ++ [b])
      (fun x hx => by
        rcases List.mem_append.mp hx with h1 | h1
        · exact Or.inl h1
        · simp at h1; subst h1; exact Or.inr hsel)
    intro x hx ty' val' md' hg
    exact this x hx ty' val' md' hg
  · refine ⟨by rw [pushOut_length]; exact g.out.len, ?_, ?_, ?_, ?_⟩
    · intro j it hit
      rcases (hmemb j it).mp hit with h1 | ⟨ej, eit⟩
      · obtain ⟨b', ty', val', md', e1, e2, e3, e4, e5, e6⟩ := g.out.sound j it h1
        exact ⟨b', ty', val', md', e1, e2, e3, e4, e5, List.mem_append_left _ e6⟩
      · subst eit
        exact ⟨b, ty, val, md, rfl, hb0, hres, ej.symm, ej ▸ hlt, by simp⟩
    · intro j
      rw [pushOut_getD]
      by_cases e : j = bucketOf preds (p, Leaf.vstate ty val md)
      · subst e
        simp only [hi, and_self, if_true]
        refine List.nodup_append.mpr ⟨g.out.nodup _, by simp, ?_⟩
        intro x hx y hy
        simp at hy; subst hy
        intro exy; subst exy
        exact hold _ _ hx hres
      · simp only [e, false_and, if_false]; exact g.out.nodup j
    · intro i j it it' b' hit hit' hr hr'
      rcases (hmemb i it).mp hit with h1 | ⟨ei, eit⟩ <;> rcases (hmemb j it').mp hit' with h2 | ⟨ej, eit'⟩
      · exact g.out.once i j it it' b' h1 h2 hr hr'
      · subst eit'
        rw [hres] at hr'; cases hr'
        exact absurd hr (hold i it h1)
      · subst eit
        rw [hres] at hr; cases hr
        exact absurd hr' (hold j it' h2)
      · subst eit; subst eit'
        exact ⟨rfl, ei.trans ej.symm⟩
    · intro x hx ty' val' md' hx0
      rcases List.mem_append.mp hx with h1 | h1
      · obtain ⟨i, q, hq, hrq⟩ := g.out.complete x h1 ty' val' md' hx0
        exact ⟨i, q, (hmemb i _).mpr (Or.inl hq), hrq⟩
      · simp at h1; subst h1
        rw [hb0] at hx0; cases hx0
        exact ⟨_, p, (hmemb _ _).mpr (Or.inr ⟨rfl, rfl⟩), hres⟩

/-- registering a graph node -/
theorem ginv_reg {st : PopSt} (g : GInv preds h0 root0 st) {a : Nat} {cls : String} {attrs : List (Key × PVal)}
    (hget : st.heap[a]? = some (.node cls attrs)) : GInv preds h0 root0 { st with visited := st.visited ++ [a] } := by
  have hnv : ∀ ty val md, h0[a]? ≠ some (.var ty val md) := by
    intro ty val md hv
    have := (g.shape0.var a ty val md).mp hv
    rw [hget] at this; cases this
  refine ⟨g.shape0, ?_, g.keeps, ?_, ⟨g.out.len, ?_, g.out.nodup, g.out.once, ?_⟩⟩
  · intro x hx ty val md hg
    simp only at hx hg
    rcases List.mem_append.mp hx with h1 | h1
    · exact g.vs x h1 ty val md hg
    · simp at h1; subst h1; rw [hget] at hg; cases hg
  · intro a' cls' attrs' live hg' hl' kv hkv hnl
    obtain ⟨b', e1, e2, e3⟩ := g.erased a' cls' attrs' live hg' hl' kv hkv hnl
    exact ⟨b', e1, List.mem_append_left _ e2, e3⟩
  · intro j it hit
    obtain ⟨b', ty', val', md', e1, e2, e3, e4, e5, e6⟩ := g.out.sound j it hit
    exact ⟨b', ty', val', md', e1, e2, e3, e4, e5, List.mem_append_left _ e6⟩
  · intro x hx ty val md hx0
    rcases List.mem_append.mp hx with h1 | h1
    · exact g.out.complete x h1 ty val md hx0
    · simp at h1; subst h1; exact absurd hx0 (hnv ty val md)

/-- the node at `a` in the current heap is the node of the original heap with some attributes removed -/
theorem node_h0 {st : PopSt} (g : GInv preds h0 root0 st) {a : Nat} {cls : String} {live : List (Key × PVal)}
    (hget : st.heap[a]? = some (.node cls live)) :
    ∃ attrs0, h0[a]? = some (.node cls attrs0) ∧ ∀ kv ∈ live, kv ∈ attrs0 := by
  have hlt : a < h0.length := by
    rw [g.shape0.len]; exact (List.getElem?_eq_some_iff.mp hget).1
  obtain ⟨o, ho⟩ : ∃ o, h0[a]? = some o := ⟨h0[a], List.getElem?_eq_getElem hlt⟩
  cases o with
  | var ty val md =>
    have := (g.shape0.var a ty val md).mp ho
    rw [hget] at this; cases this
  | node cls0 attrs0 =>
    obtain ⟨live', hl', hsub⟩ := g.shape0.node a cls0 attrs0 ho
    rw [hget] at hl'; cases hl'
    exact ⟨attrs0, ho, hsub⟩

theorem ginv_popItem (hPI : PathIndep preds) (hw0 : Heap.wf h0 = true) (fuel : Nat)
    (ihNode : ∀ path v st st', GInv preds h0 root0 st → v.wf = true → resolve h0 root0 path = some v →
      popNode true preds fuel path v st = .ok st' → GInv preds h0 root0 st')
    (path : Path) (owner : Option Addr) (k : Key) (v : PVal) (st st1 : PopSt) (g : GInv preds h0 root0 st)
    (hwf : v.wf = true) (hres : resolve h0 root0 (path ++ [k]) = some v)
    (hown : ∀ a, owner = some a → ∃ cls attrs0, h0[a]? = some (.node cls attrs0) ∧ (k, v) ∈ attrs0)
    (h : popItem preds fuel path owner k v st = .ok st1) : GInv preds h0 root0 st1 := by
  cases v with
  | static s => simp [popItem] at h; subst h; exact g
  | array d => simp [popItem] at h; subst h; exact g
  | none => simp only [popItem] at h; exact ihNode _ _ st st1 g hwf hres h
  | seq t xs => simp only [popItem] at h; exact ihNode _ _ st st1 g hwf hres h
  | dict kvs => simp only [popItem] at h; exact ihNode _ _ st st1 g hwf hres h
  | ref b =>
    simp only [popItem] at h
    split at h
    · cases h
    · exact ihNode _ _ st st1 g hwf hres h
    · next ty val md hget =>
      have hb0 : h0[b]? = some (.var ty val md) := (g.shape0.var b ty val md).mpr hget
      have hsel_iff : sel preds h0 b ↔ bucketOf preds (path ++ [k], .vstate ty val md) < preds.length := by
        constructor
        · rintro ⟨ty', val', md', hg, hlt⟩
          rw [hb0] at hg; cases hg
          rw [hPI (path ++ [k]) [] _]; exact hlt
        · intro hlt
          exact ⟨ty, val, md, hb0, by rw [hPI [] (path ++ [k]) _]; exact hlt⟩
      split at h
      · next hvis =>
        have hsel : sel preds h0 b := (sel_h0 g b).mpr (g.vs b hvis ty val md hget)
        cases owner with
        | none => cases h
        | some a =>
          simp at h; subst h
          obtain ⟨cls, attrs0, hg0, hmem⟩ := hown a rfl
          exact ginv_erase_visited g hg0 hmem (heap_wf_node hw0 hg0).1 hsel hvis
      · next hnvis =>
        split at h
        · next hlt =>
          cases owner with
          | none => cases h
          | some a =>
            simp at h; subst h
            obtain ⟨cls, attrs0, hg0, hmem⟩ := hown a rfl
            exact ginv_push g hg0 hmem (heap_wf_node hw0 hg0).1 hb0 hlt (hsel_iff.mpr hlt) hnvis hres
        · simp at h; subst h; exact g

theorem ginv_pop (hPI : PathIndep preds) (hw0 : Heap.wf h0 = true) : ∀ fuel : Nat,
    (∀ path v st st', GInv preds h0 root0 st → v.wf = true → resolve h0 root0 path = some v →
      popNode true preds fuel path v st = .ok st' → GInv preds h0 root0 st') ∧
    (∀ path owner items st st', GInv preds h0 root0 st →
      (∀ kv ∈ items, kv.2.wf = true ∧ resolve h0 root0 (path ++ [kv.1]) = some kv.2) →
      (∀ a, owner = some a → ∃ cls attrs0, h0[a]? = some (.node cls attrs0) ∧ ∀ kv ∈ items, kv ∈ attrs0) →
      popItems true preds fuel path owner items st = .ok st' → GInv preds h0 root0 st') := by
  intro fuel
  induction fuel with
  | zero =>
    constructor
    · intro path v st st' _ _ _ h; simp [popNode] at h
    · intro path owner items st st' _ _ _ h; simp [popItems] at h
  | succ fuel ih =>
    constructor
    · intro path v st st' g hwf hres h
      cases v with
      | static s => simp [popNode] at h
      | array d => simp [popNode] at h
      | none => simp [popNode] at h; subst h; exact g
      | seq t xs =>
        simp only [popNode] at h
        simp only [PVal.wf] at hwf
        refine ih.2 path Option.none _ st st' g ?_ (fun a ha => by cases ha) h
        intro kv hkv
        refine ⟨wfList_mem xs hwf _ (enumFrom_mem_snd 0 xs kv hkv), ?_⟩
        rw [resolve_snoc, hres]
        simp only [Option.bind, step]
        exact lookupKV_of_mem (enumFrom_keysNodup 0 xs) hkv
      | dict kvs =>
        simp only [popNode] at h
        simp only [PVal.wf, Bool.and_eq_true, decide_eq_true_eq] at hwf
        refine ih.2 path Option.none _ st st' g ?_ (fun a ha => by cases ha) h
        intro kv hkv
        have hm := mem_sortKV.mp hkv
        refine ⟨wfKVs_mem kvs hwf.2 kv hm, ?_⟩
        rw [resolve_snoc, hres]
        simp only [Option.bind, step]
        exact lookupKV_of_mem hwf.1 hm
      | ref a =>
        simp only [popNode] at h
        split at h
        · cases h
        · cases h
        · next cls live hget =>
          split at h
          · simp at h; subst h; exact g
          · obtain ⟨attrs0, hg0, hsub⟩ := node_h0 g hget
            have hwn := heap_wf_node hw0 hg0
            refine ih.2 path (some a) _ _ st' (ginv_reg g hget) ?_ ?_ h
            · intro kv hkv
              have hm := hsub kv (mem_sortKV.mp hkv)
              refine ⟨hwn.2 kv hm, ?_⟩
              rw [resolve_snoc, hres]
              simp only [Option.bind, step, hg0]
              exact lookupKV_of_mem hwn.1 hm
            · intro a' ha'
              cases ha'
              exact ⟨cls, attrs0, hg0, fun kv hkv => hsub kv (mem_sortKV.mp hkv)⟩
    · intro path owner items st st' g hit hown h
      cases items with
      | nil => simp [popItems] at h; subst h; exact g
      | cons kv rest =>
        obtain ⟨k, v⟩ := kv
        rw [popItems_cons] at h
        split at h
        · cases h
        · next st1 hitem =>
          have hkv := hit (k, v) (by simp)
          have g1 := ginv_popItem hPI hw0 fuel ih.1 path owner k v st st1 g hkv.1 hkv.2
            (fun a ha => by
              obtain ⟨cls, attrs0, hg0, hall⟩ := hown a ha
              exact ⟨cls, attrs0, hg0, hall (k, v) (by simp)⟩) hitem
          exact ih.2 path owner rest st1 st' g1 (fun kv' hkv' => hit kv' (by simp [hkv']))
            (fun a ha => by
              obtain ⟨cls, attrs0, hg0, hall⟩ := hown a ha
              exact ⟨cls, attrs0, hg0, fun kv' hkv' => hall kv' (by simp [hkv'])⟩) h

theorem getD_map_nil {α : Type} (l : List α) (i : Nat) : (l.map (fun _ => ([] : FlatState))).getD i [] = [] := by
  rw [List.getD_eq_getElem?_getD, List.getElem?_map]
  cases l[i]? <;> rfl

theorem ginv_init (h : Heap) (root : PVal) :
    GInv preds h root { heap := h, visited := [], out := preds.map (fun _ => []) } := by
  refine ⟨PShape.refl h, (fun b hb => by cases hb), fun a cls attrs0 hg => ⟨attrs0, hg, fun _ hk _ => hk⟩, ?_, ?_⟩
  · intro a cls attrs0 live hg hl kv hkv hnl
    simp only at hl
    rw [hg] at hl; cases hl
    exact absurd hkv hnl
  · refine ⟨by simp, ?_, ?_, ?_, (fun b hb => by cases hb)⟩
    · intro i it hit; simp only [getD_map_nil] at hit; cases hit
    · intro i; simp only [getD_map_nil]; exact List.nodup_nil
    · intro i j it it' b hit; simp only [getD_map_nil] at hit; cases hit

/-- what `pop` returns and what it leaves behind (repaired definition, path-independent filters) -/
structure PopExact (preds : List NFilter) (h : Heap) (root : PVal) (h' : Heap) (outs : List FlatState) : Prop where
  /-- one state per filter -/
  len : outs.length = preds.length
  /-- every returned entry is a Variable of the original graph, under a path that reaches it, in the
  state of the first filter matching it -/
  sound : ∀ i, ∀ it ∈ outs.getD i [], ∃ (b : Nat), ∃ ty val md, it.2 = .vstate ty val md ∧ h[b]? = some (.var ty val md) ∧
    resolve h root it.1 = some (.ref b) ∧ bucketOf preds it = i ∧ i < preds.length
  /-- no Variable is returned twice (not even when it was shared) -/
  once : (∀ i, (outs.getD i []).Nodup) ∧ ∀ i j it it' (b : Nat), it ∈ outs.getD i [] → it' ∈ outs.getD j [] →
    resolve h root it.1 = some (.ref b) → resolve h root it'.1 = some (.ref b) → it = it' ∧ i = j
  /-- every selected Variable reachable from the node is returned -/
  complete : ∀ (q : Path) (b : Nat), resolve h root q = some (.ref b) → sel preds h b →
    ∃ i p ty val md, (p, Leaf.vstate ty val md) ∈ outs.getD i [] ∧ resolve h root p = some (.ref b)
  /-- only attributes are removed, nothing is allocated, Variables are untouched -/
  shape : PShape h h'
  /-- nothing but references to selected Variables is removed -/
  keeps : ∀ (a : Nat) cls attrs0, h[a]? = some (.node cls attrs0) →
    ∃ live, h'[a]? = some (.node cls live) ∧ ∀ kv ∈ attrs0, ¬ IsSelRef preds h kv.2 → kv ∈ live
  /-- afterwards no selected Variable is reachable from the node -/
  gone : ∀ (p : Path) (b : Nat), resolve h' root p = some (.ref b) → ¬ sel preds h b

theorem pop_exact_aux (hPI : PathIndep preds) (h : Heap) (root : PVal) (hw : Heap.wf h = true) (hrw : root.wf = true)
    (h' : Heap) (outs : List FlatState) (hp : pop true h root preds = .ok (h', outs)) :
    PopExact preds h root h' outs := by
  obtain ⟨hshape, hgone⟩ := pop_clean_paths hPI h root h' outs hp
  unfold pop at hp
  split at hp
  · cases hp
  · split at hp
    · cases hp
    · next st' hrun =>
      simp at hp; obtain ⟨rfl, rfl⟩ := hp
      have g := (ginv_pop (preds := preds) (h0 := h) (root0 := root) hPI hw _).1 [] root _ st'
        (ginv_init h root) hrw rfl hrun
      -- a path of the original heap survives, unless it ends at a popped Variable
      have surv : ∀ (q : Path) (u v : PVal), resolve h u q = some v →
          resolve st'.heap u q = some v ∨ ∃ (b' : Nat), v = .ref b' ∧ b' ∈ st'.visited ∧ sel preds h b' := by
        intro q
        induction q with
        | nil => intro u v hr; exact Or.inl hr
        | cons k q ih =>
          intro u v hr
          simp only [resolve] at hr ⊢
          split at hr
          · next u1 hstep =>
            -- does the first step survive?
            have hs : step st'.heap u k = some u1 ∨ ∃ (b' : Nat), u1 = .ref b' ∧ b' ∈ st'.visited ∧ sel preds h b' := by
              cases u with
              | ref a =>
                simp only [step] at hstep ⊢
                split at hstep
                · next cls attrs0 hg0 =>
                  obtain ⟨live, hl, _⟩ := g.keeps a cls attrs0 hg0
                  have hmem0 := lookupKV_mem hstep
                  by_cases hin : (k, u1) ∈ live
                  · left
                    simp only [hl]
                    cases hlk : lookupKV k live with
                    | none =>
                      exfalso
                      have : ∀ (l : List (Key × PVal)), (k, u1) ∈ l → lookupKV k l ≠ Option.none := by
                        intro l
                        induction l with
                        | nil => intro hm; cases hm
                        | cons x t iht =>
                          intro hm
                          simp only [lookupKV]
                          by_cases e : x.1 = k
                          · simp [e]
                          · simp only [e, if_false]
                            rcases List.mem_cons.mp hm with e' | e'
                            · rw [← e'] at e; exact absurd rfl e
                            · exact iht e'
                      exact this live hin hlk
                    | some w =>
                      have hw' := lookupKV_mem hlk
                      obtain ⟨attrs0', hg0', hsub⟩ := node_h0 g hl
                      rw [hg0] at hg0'; cases hg0'
                      have := keysNodup_unique (heap_wf_node hw hg0).1 (hsub _ hw') hmem0 rfl
                      cases this; rfl
                  · right
                    obtain ⟨b', e1, e2, e3⟩ := g.erased a cls attrs0 live hg0 hl (k, u1) hmem0 hin
                    exact ⟨b', e1, e2, e3⟩
                · cases hstep
              | seq t xs => left; simpa [step] using hstep
              | dict kvs => left; simpa [step] using hstep
              | static s => simp [step] at hstep
              | array d => simp [step] at hstep
              | none => simp [step] at hstep
            rcases hs with hs | ⟨b', e1, e2, e3⟩
            · simp only [hs]; exact ih u1 v hr
            · subst e1
              cases q with
              | nil => simp [resolve] at hr; subst hr; exact Or.inr ⟨b', rfl, e2, e3⟩
              | cons k2 q2 =>
                obtain ⟨ty, val, md, hb', _⟩ := e3
                simp [resolve, step, hb'] at hr
          · cases hr
      refine ⟨g.out.len, ?_, ⟨g.out.nodup, g.out.once⟩, ?_, hshape, g.keeps, fun p b hr hs => hgone p b hr ((sel_shape hshape b).mp hs)⟩
      · intro i it hit
        obtain ⟨b, ty, val, md, e1, e2, e3, e4, e5, _⟩ := g.out.sound i it hit
        exact ⟨b, ty, val, md, e1, e2, e3, e4, e5⟩
      · intro q b hr hs
        rcases surv q root (.ref b) hr with hr' | ⟨b', e1, e2, _⟩
        · exact absurd ((sel_shape hshape b).mp hs) (hgone q b hr')
        · cases e1
          obtain ⟨ty, val, md, hb, _⟩ := hs
          obtain ⟨i, p, hp', hrp⟩ := g.out.complete b e2 ty val md hb
          exact ⟨i, p, ty, val, md, hp', hrp⟩

end PopOut

end Flax.Graph
