/-
C04 helper lemmas (5): cond / switch reduce to the four-step protocol of the selected branch; splitting the output
roots into (arguments, results).
-/
import Flax.Proofs.NnxJit

namespace Flax.Nnx
open Flax.Heap Flax.Graph

theorem valsRel_split {φ : Addr → Option Addr} : ∀ {xs ys zs : List PVal}, ValsRel φ (xs ++ ys) zs →
    ValsRel φ xs (zs.take xs.length) ∧ ValsRel φ ys (zs.drop xs.length)
  | [], ys, zs, h => by simpa using ⟨ValsRel.nil, h⟩
  | x :: xs, ys, zs, h => by
    cases h with
    | cons hv ht =>
      obtain ⟨h1, h2⟩ := valsRel_split ht
      exact ⟨by simpa using ValsRel.cons hv h1, by simpa using h2⟩

/-- related lists whose left side holds only `None`s and references on which the map is the identity are equal -/
theorem valsRel_id_eq {ψ : Addr → Option Addr} : ∀ {xs ys : List PVal}, ValsRel ψ (xs.map clearArg) ys →
    (∀ (a c : Nat), PVal.ref a ∈ xs → ψ a = some c → c = a) → ys = xs.map clearArg
  | [], _, h, _ => by cases h; rfl
  | x :: xs, _, h, hid => by
    simp only [List.map_cons] at h
    cases h with
    | cons hv ht =>
      have ih := valsRel_id_eq ht (fun a c ha => hid a c (List.mem_cons_of_mem _ ha))
      rw [ih]
      cases x with
      | ref a =>
        simp only [clearArg] at hv ⊢
        cases hv with
        | ref hab => rw [hid a _ (by simp) hab]; rfl
      | static s => simp only [clearArg] at hv ⊢; cases hv; rfl
      | array d => simp only [clearArg] at hv ⊢; cases hv; rfl
      | none => simp only [clearArg] at hv ⊢; cases hv; rfl
      | seq t ys => simp only [clearArg] at hv ⊢; cases hv; rfl
      | dict kvs => simp only [clearArg] at hv ⊢; cases hv; rfl

theorem traceBranches_get {gds : List GDef} {lss : List (List Leaf)} : ∀ {fs : List Fn} {outs},
    traceBranches gds lss fs = .ok outs →
      outs.length = fs.length ∧ ∀ (k : Nat) f, fs[k]? = some f → ∃ o, outs[k]? = some o ∧ pureRun false true f [] gds lss = .ok o
  | [], outs, h => by simp [traceBranches] at h; subst h; simp
  | f :: fs, outs, h => by
    simp only [traceBranches] at h
    split at h
    · cases h
    · next o ho =>
      split at h
      · cases h
      · next os hos =>
        simp at h; subst h
        obtain ⟨hl, hk⟩ := traceBranches_get hos
        refine ⟨by simp [hl], fun k g hg => ?_⟩
        cases k with
        | zero => simp at hg; subst hg; exact ⟨o, by simp, ho⟩
        | succ k => simp at hg; simpa using hk k g hg

/-- the branch index `lax.switch` selects -/
def clampIndex (index : Int) (n : Nat) : Nat := if index < 0 then 0 else min index.toNat (n - 1)

/-- **a successful `switch` is the four-step protocol of the selected branch** -/
theorem switchCall_inv {fs : List Fn} {index : Int} {h : Heap} {args outs : List PVal} {h4 : Heap}
    (hs : switchCall fs index h args = .ok (outs, h4)) :
    ∃ f roots4, fs[clampIndex index fs.length]? = some f ∧ protoCall false f h args = .ok (roots4, h4) ∧
      outs = roots4.drop args.length := by
  unfold switchCall at hs
  split at hs
  · cases hs
  · next gds lss idx1 hs1 =>
    split at hs
    · cases hs
    · next os htr =>
      obtain ⟨hl, hk⟩ := traceBranches_get htr
      split at hs
      · cases hs
      · next gdsO l0 rest =>
        split at hs
        · next hall =>
          simp only at hs
          split at hs
          · cases hs
          · next g lssO hget =>
            split at hs
            · cases hs
            · next roots h4' h4eq =>
              simp at hs
              obtain ⟨rfl, rfl⟩ := hs
              have hkk : (if index < 0 then 0 else min index.toNat (((gdsO, l0) :: rest).length - 1)) =
                  clampIndex index fs.length := by rw [hl]; rfl
              rw [hkk] at hget
              have hklt : clampIndex index fs.length < fs.length := by
                have := (List.getElem?_eq_some_iff.mp hget).1
                rw [hl] at this; exact this
              obtain ⟨o, ho, hpr⟩ := hk _ _ (List.getElem?_eq_getElem hklt)
              rw [hget] at ho; cases ho
              have hg : g = gdsO := by
                have := List.all_eq_true.mp hall (g, lssO) (List.mem_of_getElem? hget)
                simpa using this
              subst hg
              refine ⟨fs[clampIndex index fs.length], roots, List.getElem?_eq_getElem hklt, ?_, rfl⟩
              unfold protoCall
              rw [hs1]
              simp only [hpr, h4eq]
        · cases hs

/-- all branches were traced successfully but their output structures differ: the call is rejected -/
theorem switchCall_mismatch {fs : List Fn} {index : Int} {h : Heap} {args : List PVal}
    {gds : List GDef} {lss : List (List Leaf)} {idx1 : RefIndex} (hs1 : step1 false h args = .ok (gds, lss, idx1))
    {o : List ODef × List (List Leaf)} {os : List (List ODef × List (List Leaf))}
    (htr : traceBranches gds lss fs = .ok (o :: os)) {o' : List ODef × List (List Leaf)} (hmem : o' ∈ os) (hne : o'.1 ≠ o.1) :
    switchCall fs index h args = .error .structureMismatch := by
  unfold switchCall
  rw [hs1]
  simp only [htr]
  have : (o :: os).all (fun x => decide (x.1 = o.1)) = false := by
    apply Bool.eq_false_iff.mpr
    intro hall
    have := List.all_eq_true.mp hall o' (List.mem_cons_of_mem _ hmem)
    simp at this
    exact hne this
  obtain ⟨g0, l0⟩ := o
  simp only at this ⊢
  rw [if_neg (by simp [this])]

end Flax.Nnx
