/-
C09, NNX: `split_rngs` followed by `restore_rngs` on a whole `Rngs` (the loops over streams and backups).
-/
import Flax.Proofs.RngNnx

namespace Flax.Rng

/-- all streams scalar, with keys `seeds` and counts `c` -/
def streamsOf (seeds : List (String × SymKey)) (c : String → Nat) : List (String × Stream) :=
  seeds.map (fun ks => (ks.1, ({ tag := ks.1, key := .scalar ks.2, count := .scalar (c ks.1) } : Stream)))

/-- the `only=` filter of `split_rngs` on stream names -/
abbrev selected (only : Option (List String)) (n : String) : Bool := selectedBy only n

def splitStreams (only : Option (List String)) (shape : List Nat) (seeds : List (String × SymKey)) (c : String → Nat) :
    List (String × Stream) :=
  seeds.map (fun ks =>
    if selected only ks.1 then
      (ks.1, ({ tag := ks.1, key := .batched (.foldIn ks.2 (c ks.1)) shape, count := .batched shape 0 } : Stream))
    else (ks.1, ({ tag := ks.1, key := .scalar ks.2, count := .scalar (c ks.1) } : Stream)))

def backupsOf (only : Option (List String)) (seeds : List (String × SymKey)) (c : String → Nat) : List Backup :=
  (seeds.filter (fun ks => selected only ks.1)).map
    (fun ks => ({ stream := ks.1, key := .scalar ks.2, count := .scalar (c ks.1 + 1) } : Backup))

theorem splitLoop_streamsOf (only : Option (List String)) (shape : List Nat) (c : String → Nat) :
    ∀ seeds : List (String × SymKey),
      splitLoop only shape false (streamsOf seeds c) = .ok (backupsOf only seeds c, splitStreams only shape seeds c) := by
  intro seeds
  induction seeds with
  | nil => rfl
  | cons a l ih =>
    obtain ⟨n, k⟩ := a
    simp only [streamsOf, List.map_cons, splitLoop] at ih ⊢
    cases hs : selected only n with
    | true =>
      simp only [Stream.splitOne, Stream.call, bind, Except.bind, ih, Bool.false_eq_true, if_false]
      simp [backupsOf, splitStreams, hs]
    | false =>
      simp only [bind, Except.bind, ih]
      simp [backupsOf, splitStreams, hs]

theorem find?_splitStreams (only : Option (List String)) (shape : List Nat) (c : String → Nat) (n : String) :
    ∀ seeds : List (String × SymKey),
      find? n (splitStreams only shape seeds c) =
        (find? n seeds).map (fun k =>
          if selected only n then ({ tag := n, key := .batched (.foldIn k (c n)) shape, count := .batched shape 0 } : Stream)
          else ({ tag := n, key := .scalar k, count := .scalar (c n) } : Stream)) := by
  intro seeds
  induction seeds with
  | nil => rfl
  | cons a l ih =>
    obtain ⟨n', k'⟩ := a
    simp only [splitStreams, List.map_cons] at ih ⊢
    by_cases h : n' = n
    · subst h
      cases hs : selected only n' <;> simp [find?_cons]
    · cases hs : selected only n' <;> simp [find?_cons, h, ih]

theorem backupsOf_cons (only : Option (List String)) (c : String → Nat) (n : String) (k : SymKey)
    (l : List (String × SymKey)) :
    backupsOf only ((n, k) :: l) c =
      if selected only n then ({ stream := n, key := .scalar k, count := .scalar (c n + 1) } : Backup) :: backupsOf only l c
      else backupsOf only l c := by
  cases hs : selected only n <;> simp [backupsOf, hs]

theorem find?_backupsOf (only : Option (List String)) (c : String → Nat) (n : String) :
    ∀ seeds : List (String × SymKey),
      (backupsOf only seeds c).find? (fun b => decide (b.stream = n)) =
        if selected only n then
          (find? n seeds).map (fun k => ({ stream := n, key := .scalar k, count := .scalar (c n + 1) } : Backup))
        else none := by
  intro seeds
  induction seeds with
  | nil => simp [backupsOf]
  | cons a l ih =>
    obtain ⟨n', k'⟩ := a
    rw [backupsOf_cons]
    by_cases h : n' = n
    · subst h
      cases hs : selected only n' with
      | true => simp [find?_cons]
      | false =>
        simp only [Bool.false_eq_true, if_false]
        rw [ih]; simp [hs]
    · cases hs : selected only n' with
      | true =>
        simp only [if_true, List.find?_cons, h, decide_false, find?_cons, if_false]
        rw [ih]
      | false =>
        simp only [Bool.false_eq_true, if_false, find?_cons, h]
        rw [ih]

theorem backupsOf_stream_mem (only : Option (List String)) (c : String → Nat) (seeds : List (String × SymKey)) (n : String)
    (h : n ∈ (backupsOf only seeds c).map (·.stream)) : n ∈ seeds.map (·.1) := by
  simp only [backupsOf, List.map_map, List.mem_map, List.mem_filter, Function.comp] at h ⊢
  obtain ⟨a, ⟨ha, _⟩, rfl⟩ := h
  exact ⟨a, ha, rfl⟩

theorem backupsOf_nodup (only : Option (List String)) (c : String → Nat) (seeds : List (String × SymKey))
    (hnd : (seeds.map (·.1)).Nodup) : ((backupsOf only seeds c).map (·.stream)).Nodup := by
  induction seeds with
  | nil => simp [backupsOf]
  | cons a l ih =>
    obtain ⟨n, k⟩ := a
    simp only [List.map_cons, List.nodup_cons] at hnd
    rw [backupsOf_cons]
    cases hs : selected only n with
    | true =>
      simp only [if_true, List.map_cons, List.nodup_cons]
      exact ⟨fun hm => hnd.1 (backupsOf_stream_mem only c l n hm), ih hnd.2⟩
    | false =>
      simp only [Bool.false_eq_true, if_false]
      exact ih hnd.2

/-- `restore_rngs`: a stream named by a backup gets that backup's key and count, every other stream is untouched -/
theorem restoreLoop_find (bs : List Backup) (hn : (bs.map (·.stream)).Nodup) :
    ∀ (streams : List (String × Stream)) (n : String),
      find? n (restoreLoop streams bs) =
        match bs.find? (fun b => decide (b.stream = n)) with
        | some b => (find? n streams).map (fun s => { s with key := b.key, count := b.count })
        | none => find? n streams := by
  induction bs with
  | nil => intro streams n; rfl
  | cons b bs ih =>
    intro streams n
    simp only [List.map_cons, List.nodup_cons] at hn
    simp only [restoreLoop]
    rw [ih hn.2]
    by_cases h : b.stream = n
    · subst h
      have hnone : bs.find? (fun b' => decide (b'.stream = b.stream)) = none := by
        rw [List.find?_eq_none]
        intro b' hb'
        simp only [decide_eq_true_eq]
        intro he
        exact hn.1 (by rw [← he]; exact List.mem_map_of_mem hb')
      simp only [hnone, List.find?_cons, decide_true]
      cases hf : find? b.stream streams with
      | none => simp [hf]
      | some s => simp [find?_set_self]
    · simp only [List.find?_cons, h, decide_false]
      cases hf : find? b.stream streams with
      | none => rfl
      | some s =>
        simp only [find?_set_ne _ _ _ _ (fun e : n = b.stream => h e.symm)]

/-- **`split_rngs` then `restore_rngs` on a whole `Rngs`** (any `only=` filter, any shape): every stream is scalar again with
its own key, the selected streams one draw further, the others untouched. -/
theorem split_restore_rngs (seeds : List (String × SymKey)) (hnd : (seeds.map (·.1)).Nodup) (c : String → Nat)
    (only : Option (List String)) (shape : List Nat) (bk : List (List Backup)) :
    ∃ r1, Rngs.split { streams := streamsOf seeds c, backups := bk } only shape false = .ok (bk.length, r1) ∧
      ∃ r2, r1.restore bk.length = .ok r2 ∧
        NRep seeds r2 (fun n => c n + if selected only n then 1 else 0) := by
  refine ⟨{ streams := splitStreams only shape seeds c, backups := bk ++ [backupsOf only seeds c] }, ?_, ?_⟩
  · simp only [Rngs.split, splitLoop_streamsOf, bind, Except.bind]
  · refine ⟨{ streams := restoreLoop (splitStreams only shape seeds c) (backupsOf only seeds c),
              backups := bk ++ [backupsOf only seeds c] }, ?_, ?_⟩
    · simp [Rngs.restore]
    · intro n
      simp only []
      rw [restoreLoop_find _ (backupsOf_nodup only c seeds hnd), find?_backupsOf, find?_splitStreams]
      cases hs : selected only n with
      | true =>
        cases hf : find? n seeds with
        | none => simp
        | some k => simp
      | false => simp

/-- **`only=`: selected streams resume one draw later, unselected streams are never touched.**  Split `Rngs(**seeds)` (counts `c`)
with any filter and shape.  (a) The split leaves every unselected stream exactly as it was.  (b) Whatever happens inside the
window — `streams'` is *any* later state of the streams, e.g. after unselected streams were drawn from — `restore_rngs` of that
split leaves every unselected stream exactly as it is at that moment (its draws inside the window are not rewound), and gives
every selected stream its original key and the count `c + 1`. -/
theorem split_restore_only (seeds : List (String × SymKey)) (hnd : (seeds.map (·.1)).Nodup) (c : String → Nat)
    (only : Option (List String)) (shape : List Nat) (bk : List (List Backup)) :
    ∃ r1, Rngs.split { streams := streamsOf seeds c, backups := bk } only shape false = .ok (bk.length, r1) ∧
      (∀ n, selected only n = false → find? n r1.streams = find? n (streamsOf seeds c)) ∧
      ∀ (streams' : List (String × Stream)) (bk' : List (List Backup)),
        ∃ r2, Rngs.restore { streams := streams', backups := r1.backups ++ bk' } bk.length = .ok r2 ∧
          (∀ n, selected only n = false → find? n r2.streams = find? n streams') ∧
          (∀ n k s, selected only n = true → find? n seeds = some k → find? n streams' = some s →
            find? n r2.streams = some { s with key := .scalar k, count := .scalar (c n + 1) }) := by
  refine ⟨{ streams := splitStreams only shape seeds c, backups := bk ++ [backupsOf only seeds c] }, ?_, ?_, ?_⟩
  · simp only [Rngs.split, splitLoop_streamsOf, bind, Except.bind]
  · intro n hs
    simp only []
    rw [find?_splitStreams]
    have : find? n (streamsOf seeds c) =
        (find? n seeds).map (fun k => ({ tag := n, key := .scalar k, count := .scalar (c n) } : Stream)) := by
      unfold streamsOf
      induction seeds with
      | nil => rfl
      | cons a l ih =>
        obtain ⟨n', k'⟩ := a
        simp only [List.map_cons, List.nodup_cons] at hnd
        by_cases h : n' = n
        · subst h; simp [find?_cons]
        · simp [find?_cons, h, ih hnd.2]
    rw [this]
    simp [hs]
  · intro streams' bk'
    refine ⟨{ streams := restoreLoop streams' (backupsOf only seeds c),
              backups := (bk ++ [backupsOf only seeds c]) ++ bk' }, ?_, ?_, ?_⟩
    · simp [Rngs.restore]
    · intro n hs
      simp only []
      rw [restoreLoop_find _ (backupsOf_nodup only c seeds hnd), find?_backupsOf]
      simp [hs]
    · intro n k s hs hk hf
      simp only []
      rw [restoreLoop_find _ (backupsOf_nodup only c seeds hnd), find?_backupsOf]
      simp [hs, hk, hf]

end Flax.Rng
