/-
Helper lemmas for C16: Python dict equality (`DictEq`) versus equality of the complete content up to order.
Core Lean only.
-/
import Flax.Proofs.State

set_option linter.unusedSectionVars false

namespace Flax.Traverse
open Flax.State

variable {κ α : Type} [DecidableEq κ]

/-! ### well-formedness bookkeeping -/

theorem wf_nodup : ∀ (s : List (κ × Tree κ α)), WFKvs s → (s.map Prod.fst).Nodup
  | [], _ => by simp
  | (k, c) :: rest, h => by
    simp only [WFKvs] at h
    simp only [List.map_cons, List.nodup_cons, List.mem_map, not_exists, not_and]
    exact ⟨fun kv hkv e => h.1 kv hkv e, wf_nodup rest h.2.2⟩

theorem wf_of_mem : ∀ (s : List (κ × Tree κ α)), WFKvs s → ∀ kc ∈ s, WF kc.2
  | [], _, kc, h => by simp at h
  | (k, c) :: rest, hwf, kc, h => by
    simp only [WFKvs] at hwf
    simp only [List.mem_cons] at h
    rcases h with rfl | h
    · exact hwf.2.1
    · exact wf_of_mem rest hwf.2.2 kc h

theorem mem_of_get : ∀ (d : List (κ × Tree κ α)) (k : κ) (c : Tree κ α), Dict.get d k = some c → (k, c) ∈ d
  | [], _, _, h => by simp [Dict.get] at h
  | (k', c') :: rest, k, c, h => by
    by_cases hk : k' = k
    · simp only [Dict.get, hk, ↓reduceIte, Option.some.injEq] at h
      simp [hk, h]
    · simp only [Dict.get, hk, ↓reduceIte] at h
      exact List.mem_cons_of_mem _ (mem_of_get rest k c h)

theorem wf_get (d : List (κ × Tree κ α)) (hwf : WFKvs d) (k : κ) (c : Tree κ α) (h : Dict.get d k = some c) :
    WF c := wf_of_mem d hwf (k, c) (mem_of_get d k c h)

/-- `WFKvs` from its ingredients -/
theorem wf_intro : ∀ (s : List (κ × Tree κ α)), (s.map Prod.fst).Nodup → (∀ kc ∈ s, WF kc.2) → WFKvs s
  | [], _, _ => by simp [WFKvs]
  | (k, c) :: rest, hnd, hc => by
    simp only [List.map_cons, List.nodup_cons] at hnd
    simp only [WFKvs]
    refine ⟨?_, hc (k, c) (by simp), wf_intro rest hnd.2 (fun kc h => hc kc (by simp [h]))⟩
    intro kv hkv e
    exact hnd.1 (by rw [← e]; exact List.mem_map_of_mem hkv)

theorem mem_set (d : List (κ × Tree κ α)) (k : κ) (v : Tree κ α) :
    ∀ kc ∈ Dict.set d k v, kc = (k, v) ∨ kc ∈ d := by
  induction d with
  | nil => intro kc h; simp [Dict.set] at h; exact Or.inl h
  | cons x rest ih =>
    obtain ⟨k', v'⟩ := x
    intro kc h
    by_cases hk : k' = k
    · simp only [Dict.set, hk, ↓reduceIte, List.mem_cons] at h
      rcases h with h | h
      · exact Or.inl h
      · exact Or.inr (by simp [h])
    · simp only [Dict.set, hk, ↓reduceIte, List.mem_cons] at h
      rcases h with h | h
      · exact Or.inr (by simp [h])
      · rcases ih kc h with h | h
        · exact Or.inl h
        · exact Or.inr (by simp [h])

theorem wf_set (d : List (κ × Tree κ α)) (hwf : WFKvs d) (k : κ) (v : Tree κ α) (hv : WF v) :
    WFKvs (Dict.set d k v) := by
  refine wf_intro _ (Dict.nodup_set d k v (wf_nodup d hwf)) ?_
  intro kc h
  rcases mem_set d k v kc h with rfl | h
  · exact hv
  · exact wf_of_mem d hwf kc h

theorem insertPath_wf : ∀ (p : Path κ) (acc : List (κ × Tree κ α)) (v : Tree κ α) (acc' : List (κ × Tree κ α)),
    WFKvs acc → WF v → insertPath acc p v = .ok acc' → WFKvs acc'
  | [], _, _, _, _, _, h => by simp [insertPath] at h
  | [k], acc, v, acc', hwf, hv, h => by
    simp only [insertPath, Except.ok.injEq] at h
    subst h
    exact wf_set acc hwf k v hv
  | k :: k2 :: rest, acc, v, acc', hwf, hv, h => by
    simp only [insertPath] at h
    split at h
    · cases hs : insertPath [] (k2 :: rest) v with
      | error e => simp [hs, bind, Except.bind] at h
      | ok sub =>
        simp only [hs, bind, Except.bind, Except.ok.injEq] at h
        subst h
        have := insertPath_wf (k2 :: rest) [] v sub (by simp [WFKvs]) hv hs
        exact wf_set acc hwf k _ (by simpa [WF] using this)
    · rename_i sub hg
      cases hs : insertPath sub (k2 :: rest) v with
      | error e => simp [hs, bind, Except.bind] at h
      | ok sub' =>
        simp only [hs, bind, Except.bind, Except.ok.injEq] at h
        subst h
        have hsub : WFKvs sub := by simpa [WF] using wf_get acc hwf k _ hg
        have := insertPath_wf (k2 :: rest) sub v sub' hsub hv hs
        exact wf_set acc hwf k _ (by simpa [WF] using this)
    · simp at h

theorem build_wf : ∀ (m : List (Path κ × FVal κ α)) (acc acc' : List (κ × Tree κ α)),
    WFKvs acc → (∀ e ∈ m, WF e.2.toTree) → build acc m = .ok acc' → WFKvs acc' := by
  intro m
  induction m with
  | nil => intro acc acc' hwf _ h; simp only [build_nil, Except.ok.injEq] at h; subst h; exact hwf
  | cons x rest ih =>
    intro acc acc' hwf hv h
    obtain ⟨p, v⟩ := x
    rw [build_cons] at h
    cases hi : insertPath acc p v.toTree with
    | error e => simp [hi, bind, Except.bind] at h
    | ok a1 =>
      simp only [hi, bind, Except.bind] at h
      exact ih a1 acc' (insertPath_wf p acc _ a1 hwf (hv (p, v) (by simp)) hi)
        (fun e he => hv e (by simp [he])) h

/-! ### the content below one top-level key -/

/-- does the path start with `k` -/
def headIsF (k : κ) (e : Path κ × FVal κ α) : Bool := decide (e.1.head? = some k)

theorem filter_head_under (b : Bool) (k k' : κ) (c : Tree κ α) :
    (under b k' c).filter (headIsF k) = if k' = k then under b k' c else [] := by
  by_cases h : k' = k
  · subst h
    simp only [↓reduceIte, List.filter_eq_self]
    intro e he
    simp only [under, List.mem_map] at he
    obtain ⟨q, _, rfl⟩ := he
    simp [headIsF]
  · simp only [h, ↓reduceIte, List.filter_eq_nil_iff]
    intro e he
    simp only [under, List.mem_map] at he
    obtain ⟨q, _, rfl⟩ := he
    simp [headIsF, h]

theorem relKvs_filter_head (b : Bool) (k : κ) : ∀ (d : List (κ × Tree κ α)), (d.map Prod.fst).Nodup →
    (relKvs b noLeaf d).filter (headIsF k) = match Dict.get d k with
      | some c => under b k c
      | none => [] := by
  intro d
  induction d with
  | nil => intro _; simp [relKvs, Dict.get]
  | cons x rest ih =>
    intro hnd
    obtain ⟨k', c⟩ := x
    simp only [List.map_cons, List.nodup_cons] at hnd
    have hf := filter_head_under b k k' c
    simp only [under] at hf
    simp only [relKvs, noLeaf_shift, List.filter_append, hf, Dict.get]
    by_cases h : k' = k
    · subst h
      have hg : Dict.get rest k' = none := by
        rw [Dict.get_none_iff]
        intro kv hkv e
        exact hnd.1 (by rw [← e]; exact List.mem_map_of_mem hkv)
      have := ih hnd.2
      rw [hg] at this
      simp [this]
    · simp [h, ih hnd.2]

theorem under_untail (b : Bool) (k : κ) (c : Tree κ α) :
    (under b k c).map (fun pv => (pv.1.tail, pv.2)) = relT b noLeaf c := by
  simp only [under, List.map_map]
  have : ((fun pv : Path κ × FVal κ α => (pv.1.tail, pv.2)) ∘ fun pv => (k :: pv.1, pv.2)) = id := by
    funext pv; rfl
  rw [this, List.map_id]

theorem relT_leaf (b : Bool) (a : α) : relT b (noLeaf : Path κ → Tree κ α → Bool) (.leaf a) = [([], .val (.leaf a))] := by
  simp [relT]

theorem relT_true_ne_nil (c : Tree κ α) : relT true noLeaf c ≠ [] := by
  cases c with
  | leaf v => simp [relT]
  | dict kvs =>
    rw [relT_dict_noLeaf]
    cases kvs with
    | nil => simp
    | cons x r => simpa using relKvs_true_ne_nil (x :: r) (by simp)

theorem relT_perm_of_under_perm (k : κ) (c c' : Tree κ α)
    (h : (under true k c).Perm (under true k c')) : (relT true noLeaf c).Perm (relT true noLeaf c') := by
  have := h.map (fun pv => (pv.1.tail, pv.2))
  rwa [under_untail, under_untail] at this

/-! ### content equal up to order ⇒ `DictEq` -/

private theorem not_perm_root {β : Type} (v : β) (l : List (Path κ × β)) (hl : ∀ e ∈ l, e.1 ≠ [])
    (h : l.Perm [([], v)]) : False := by
  have := h.eq_singleton
  exact hl ([], v) (by simp [this]) rfl

mutual
  theorem dictEq_of_content : ∀ (t u : Tree κ α), WF t → WF u →
      (relT true noLeaf t).Perm (relT true noLeaf u) → DictEq t u
    | .leaf a, u, _, _, h => by
      cases u with
      | leaf b =>
        simp only [relT, List.singleton_perm_singleton, Prod.mk.injEq, true_and] at h
        cases h
        simp [DictEq]
      | dict ys =>
        exfalso
        rw [relT_dict_noLeaf, relT_leaf] at h
        cases ys with
        | nil => simp at h
        | cons y r =>
          simp only [List.isEmpty_cons, Bool.and_false, Bool.false_eq_true, ↓reduceIte] at h
          exact not_perm_root _ _ (relKvs_paths_ne_nil true noLeaf (y :: r)) h.symm
    | .dict xs, u, hwt, hwu, h => by
      have hwx : WFKvs xs := by simpa [WF] using hwt
      cases u with
      | leaf b =>
        exfalso
        rw [relT_dict_noLeaf, relT_leaf] at h
        cases xs with
        | nil => simp at h
        | cons x r =>
          simp only [List.isEmpty_cons, Bool.and_false, Bool.false_eq_true, ↓reduceIte] at h
          exact not_perm_root _ _ (relKvs_paths_ne_nil true noLeaf (x :: r)) h
      | dict ys =>
        have hwy : WFKvs ys := by simpa [WF] using hwu
        rw [relT_dict_noLeaf, relT_dict_noLeaf] at h
        simp only [DictEq]
        refine ⟨ys, rfl, ?_⟩
        cases xs with
        | nil =>
          cases ys with
          | nil => simp [EntriesIn, Dict.get]
          | cons y r =>
            exfalso
            simp only [List.isEmpty_nil, Bool.and_true, ↓reduceIte, List.isEmpty_cons, Bool.and_false,
              Bool.false_eq_true] at h
            exact not_perm_root _ _ (relKvs_paths_ne_nil true noLeaf (y :: r)) h.symm
        | cons x r =>
          cases ys with
          | nil =>
            exfalso
            simp only [List.isEmpty_nil, Bool.and_true, ↓reduceIte, List.isEmpty_cons, Bool.and_false,
              Bool.false_eq_true] at h
            exact not_perm_root _ _ (relKvs_paths_ne_nil true noLeaf (x :: r)) h
          | cons y r' =>
            simp only [List.isEmpty_cons, Bool.and_false, Bool.false_eq_true, ↓reduceIte] at h
            have hndx := wf_nodup _ hwx
            have hndy := wf_nodup _ hwy
            refine ⟨?_, ?_⟩
            · intro k hk
              have hf := h.filter (headIsF k)
              rw [relKvs_filter_head true k _ hndx, relKvs_filter_head true k _ hndy] at hf
              cases hy : Dict.get (y :: r') k with
              | none => rw [hy] at hk; simp at hk
              | some c' =>
                cases hx : Dict.get (x :: r) k with
                | some c => simp
                | none =>
                  exfalso
                  rw [hx, hy] at hf
                  have := hf.symm.eq_nil
                  simp only [under, List.map_eq_nil_iff] at this
                  exact relT_true_ne_nil c' this
            · refine entriesIn_of_filter (x :: r) (y :: r') hwx hwy ?_
              intro kc hkc
              have hf := h.filter (headIsF kc.1)
              rw [relKvs_filter_head true kc.1 _ hndx,
                (Dict.mem_iff_get _ hndx kc.1 kc.2).mp hkc] at hf
              exact hf
  theorem entriesIn_of_filter : ∀ (xs ys : List (κ × Tree κ α)), WFKvs xs → WFKvs ys →
      (∀ kc ∈ xs, (under true kc.1 kc.2).Perm ((relKvs true noLeaf ys).filter (headIsF kc.1))) →
      EntriesIn xs ys
    | [], _, _, _, _ => by simp [EntriesIn]
    | (k, c) :: rest, ys, hwx, hwy, h => by
      simp only [WFKvs] at hwx
      simp only [EntriesIn]
      refine ⟨?_, entriesIn_of_filter rest ys hwx.2.2 hwy (fun kc hkc => h kc (by simp [hkc]))⟩
      have hf := h (k, c) (by simp)
      rw [relKvs_filter_head true k ys (wf_nodup ys hwy)] at hf
      cases hy : Dict.get ys k with
      | none =>
        exfalso
        rw [hy] at hf
        have := hf.eq_nil
        simp only [under, List.map_eq_nil_iff] at this
        exact relT_true_ne_nil c this
      | some c' =>
        rw [hy] at hf
        exact ⟨c', rfl, dictEq_of_content c c' hwx.2.1 (wf_get ys hwy k c' hy)
          (relT_perm_of_under_perm k c c' hf)⟩
end

/-! ### `DictEq` ⇒ content equal up to order -/

/-- `del d[k]` -/
def Dict.erase {β : Type} : List (κ × β) → κ → List (κ × β)
  | [], _ => []
  | (k', v) :: rest, k => if k' = k then rest else (k', v) :: Dict.erase rest k

theorem Dict.mem_erase {β : Type} (d : List (κ × β)) (k : κ) : ∀ kv ∈ Dict.erase d k, kv ∈ d := by
  induction d with
  | nil => intro kv h; simp [Dict.erase] at h
  | cons x rest ih =>
    obtain ⟨k', v⟩ := x
    intro kv h
    by_cases hk : k' = k
    · simp only [Dict.erase, hk, ↓reduceIte] at h
      exact List.mem_cons_of_mem _ h
    · simp only [Dict.erase, hk, ↓reduceIte, List.mem_cons] at h
      rcases h with h | h
      · simp [h]
      · exact List.mem_cons_of_mem _ (ih kv h)

theorem Dict.get_erase_ne {β : Type} (d : List (κ × β)) (k k2 : κ) (h : k2 ≠ k) :
    Dict.get (Dict.erase d k) k2 = Dict.get d k2 := by
  induction d with
  | nil => simp [Dict.erase]
  | cons x rest ih =>
    obtain ⟨k', v⟩ := x
    by_cases hk : k' = k
    · subst hk
      have : ¬ k' = k2 := fun e => h e.symm
      simp [Dict.erase, Dict.get, this]
    · by_cases hk2 : k' = k2
      · subst hk2
        simp [Dict.erase, Dict.get, hk]
      · simp [Dict.erase, Dict.get, hk, hk2, ih]

theorem Dict.get_erase_self {β : Type} (d : List (κ × β)) (k : κ) (hnd : (d.map Prod.fst).Nodup) :
    Dict.get (Dict.erase d k) k = none := by
  induction d with
  | nil => simp [Dict.erase, Dict.get]
  | cons x rest ih =>
    obtain ⟨k', v⟩ := x
    simp only [List.map_cons, List.nodup_cons] at hnd
    by_cases hk : k' = k
    · subst hk
      simp only [Dict.erase, ↓reduceIte]
      rw [Dict.get_none_iff]
      intro kv hkv e
      exact hnd.1 (by rw [← e]; exact List.mem_map_of_mem hkv)
    · simp [Dict.erase, Dict.get, hk, ih hnd.2]

theorem Dict.erase_sublist {β : Type} (d : List (κ × β)) (k : κ) : (Dict.erase d k).Sublist d := by
  induction d with
  | nil => simp [Dict.erase]
  | cons x rest ih =>
    obtain ⟨k', v⟩ := x
    by_cases hk : k' = k
    · simp [Dict.erase, hk]
    · simp only [Dict.erase, hk, ↓reduceIte]
      exact ih.cons_cons _

theorem wf_erase (d : List (κ × Tree κ α)) (hwf : WFKvs d) (k : κ) : WFKvs (Dict.erase d k) := by
  refine wf_intro _ ?_ (fun kc h => wf_of_mem d hwf kc (Dict.mem_erase d k kc h))
  exact ((Dict.erase_sublist d k).map Prod.fst).nodup (wf_nodup d hwf)

theorem relKvs_erase_perm (b : Bool) (k : κ) : ∀ (d : List (κ × Tree κ α)) (c : Tree κ α),
    Dict.get d k = some c →
    (relKvs b noLeaf d).Perm (under b k c ++ relKvs b noLeaf (Dict.erase d k)) := by
  intro d
  induction d with
  | nil => intro c h; simp [Dict.get] at h
  | cons x rest ih =>
    obtain ⟨k', c'⟩ := x
    intro c h
    by_cases hk : k' = k
    · subst hk
      simp only [Dict.get, ↓reduceIte, Option.some.injEq] at h
      subst h
      simp [relKvs, noLeaf_shift, Dict.erase, under]
    · simp only [Dict.get, hk, ↓reduceIte] at h
      have := ih c h
      simp only [relKvs, noLeaf_shift, Dict.erase, hk, ↓reduceIte]
      refine (List.Perm.append_left _ this).trans ?_
      simp only [← List.append_assoc]
      exact List.Perm.append_right _ List.perm_append_comm

theorem entriesIn_erase (k : κ) : ∀ (rest ys : List (κ × Tree κ α)), (∀ kv ∈ rest, kv.1 ≠ k) →
    EntriesIn rest ys → EntriesIn rest (Dict.erase ys k)
  | [], _, _, _ => by simp [EntriesIn]
  | (k', c) :: r, ys, hne, h => by
    simp only [EntriesIn] at h ⊢
    obtain ⟨⟨c', h1, h2⟩, h3⟩ := h
    refine ⟨⟨c', ?_, h2⟩, entriesIn_erase k r ys (fun kv hkv => hne kv (by simp [hkv])) h3⟩
    rw [Dict.get_erase_ne ys k k' (hne (k', c) (by simp))]
    exact h1

mutual
  theorem content_of_dictEq : ∀ (t u : Tree κ α), WF t → WF u → DictEq t u →
      (relT true noLeaf t).Perm (relT true noLeaf u)
    | .leaf a, u, _, _, h => by
      simp only [DictEq] at h
      subst h
      exact List.Perm.refl _
    | .dict xs, u, hwt, hwu, h => by
      simp only [DictEq] at h
      obtain ⟨ys, rfl, hk, he⟩ := h
      have hwx : WFKvs xs := by simpa [WF] using hwt
      have hwy : WFKvs ys := by simpa [WF] using hwu
      have hp := content_of_entriesIn xs ys hwx hwy he hk
      rw [relT_dict_noLeaf, relT_dict_noLeaf]
      cases xs with
      | nil =>
        cases ys with
        | nil => exact List.Perm.refl _
        | cons y r =>
          exfalso
          have := hk y.1 (by simp [Dict.get])
          simp [Dict.get] at this
      | cons x r =>
        cases ys with
        | nil =>
          exfalso
          simp only [EntriesIn, Dict.get] at he
          obtain ⟨⟨c', h1, _⟩, _⟩ := he
          cases h1
        | cons y r' => simpa using hp
  theorem content_of_entriesIn : ∀ (xs ys : List (κ × Tree κ α)), WFKvs xs → WFKvs ys → EntriesIn xs ys →
      (∀ k, (Dict.get ys k).isSome = true → (Dict.get xs k).isSome = true) →
      (relKvs true noLeaf xs).Perm (relKvs true noLeaf ys)
    | [], ys, _, _, _, hk => by
      cases ys with
      | nil => exact List.Perm.refl _
      | cons y r =>
        exfalso
        have := hk y.1 (by simp [Dict.get])
        simp [Dict.get] at this
    | (k, c) :: rest, ys, hwx, hwy, he, hk => by
      simp only [WFKvs] at hwx
      simp only [EntriesIn] at he
      obtain ⟨⟨c', h1, h2⟩, h3⟩ := he
      have hc := content_of_dictEq c c' hwx.2.1 (wf_get ys hwy k c' h1) h2
      have hrest := content_of_entriesIn rest (Dict.erase ys k) hwx.2.2 (wf_erase ys hwy k)
        (entriesIn_erase k rest ys hwx.1 h3) (by
          intro k2 hk2
          have hne : k2 ≠ k := by
            intro e
            rw [e, Dict.get_erase_self ys k (wf_nodup ys hwy)] at hk2
            simp at hk2
          rw [Dict.get_erase_ne ys k k2 hne] at hk2
          have := hk k2 hk2
          have hne' : ¬ k = k2 := fun e => hne e.symm
          simpa [Dict.get, hne'] using this)
      refine List.Perm.trans ?_ (relKvs_erase_perm true k ys c' h1).symm
      simp only [relKvs, noLeaf_shift]
      exact List.Perm.append (hc.map _) hrest
end

/-- **`DictEq` is exactly "same complete content up to order"** on well-formed trees -/
theorem dictEq_iff_content (t u : Tree κ α) (ht : WF t) (hu : WF u) :
    DictEq t u ↔ (relT true noLeaf t).Perm (relT true noLeaf u) :=
  ⟨content_of_dictEq t u ht hu, dictEq_of_content t u ht hu⟩

theorem dictEq_dict_iff (xs ys : List (κ × Tree κ α)) (hx : WFKvs xs) (hy : WFKvs ys) :
    DictEq (.dict xs) (.dict ys) ↔ (relKvs true noLeaf xs).Perm (relKvs true noLeaf ys) := by
  rw [dictEq_iff_content _ _ (by simpa [WF] using hx) (by simpa [WF] using hy), relT_dict_noLeaf,
    relT_dict_noLeaf]
  cases xs with
  | nil =>
    cases ys with
    | nil => simp [relKvs]
    | cons y r =>
      simp only [List.isEmpty_nil, Bool.and_true, ↓reduceIte, List.isEmpty_cons, Bool.and_false,
        Bool.false_eq_true, relKvs]
      constructor
      · intro h; exact (not_perm_root _ _ (relKvs_paths_ne_nil true noLeaf (y :: r)) h.symm).elim
      · intro h
        have := h.symm.eq_nil
        exact absurd this (by simpa [relKvs] using relKvs_true_ne_nil (y :: r) (by simp))
  | cons x r =>
    cases ys with
    | nil =>
      simp only [List.isEmpty_nil, Bool.and_true, ↓reduceIte, List.isEmpty_cons, Bool.and_false,
        Bool.false_eq_true, relKvs]
      constructor
      · intro h; exact (not_perm_root _ _ (relKvs_paths_ne_nil true noLeaf (x :: r)) h).elim
      · intro h
        have := h.eq_nil
        exact absurd this (by simpa [relKvs] using relKvs_true_ne_nil (x :: r) (by simp))
    | cons y r' => simp

/-! ### the content of `prune` -/

mutual
  theorem relT_true_norm : ∀ (c : Tree κ α),
      (match normT false noLeaf c with
        | some c' => relT true noLeaf c'
        | none => []) = relT false noLeaf c
    | .leaf v => by simp [normT, relT]
    | .dict kvs => by
      have ih := relKvs_true_norm kvs
      simp only [normT, noLeaf, Bool.false_eq_true, ↓reduceIte, Bool.false_and]
      rw [relT_dict_noLeaf]
      simp only [Bool.false_and, Bool.false_eq_true, ↓reduceIte]
      cases hn : normKvs false noLeaf kvs with
      | nil => rw [hn] at ih; simpa [relKvs] using ih
      | cons x r =>
        rw [hn] at ih
        simp only
        rw [relT_dict_noLeaf]
        simpa using ih
  theorem relKvs_true_norm : ∀ (kvs : List (κ × Tree κ α)),
      relKvs true noLeaf (normKvs false noLeaf kvs) = relKvs false noLeaf kvs
    | [] => by simp [normKvs, relKvs]
    | (k, c) :: rest => by
      have h1 := relT_true_norm c
      have h2 := relKvs_true_norm rest
      simp only [normKvs, noLeaf_shift, relKvs]
      cases hn : normT false noLeaf c with
      | none => rw [hn] at h1; simp [← h1, h2]
      | some c' => rw [hn] at h1; simp [relKvs, noLeaf_shift, h1, h2]
end

mutual
  theorem wf_normT : ∀ (c : Tree κ α), WF c → ∀ c', normT false noLeaf c = some c' → WF c'
    | .leaf v, _, c', h => by
      simp only [normT, Option.some.injEq] at h
      subst h; simp [WF]
    | .dict kvs, hwf, c', h => by
      have ih := wf_normKvs kvs (by simpa [WF] using hwf)
      simp only [normT, noLeaf, Bool.false_eq_true, ↓reduceIte, Bool.false_and] at h
      cases hn : normKvs false noLeaf kvs with
      | nil => rw [hn] at h; simp at h
      | cons x r =>
        rw [hn] at h
        simp only [Option.some.injEq] at h
        subst h
        rw [hn] at ih
        simpa [WF] using ih.1
  theorem wf_normKvs : ∀ (kvs : List (κ × Tree κ α)), WFKvs kvs →
      WFKvs (normKvs false noLeaf kvs) ∧ ∀ kv ∈ normKvs false noLeaf kvs, ∃ kv' ∈ kvs, kv'.1 = kv.1
    | [], _ => by simp [normKvs, WFKvs]
    | (k, c) :: rest, hwf => by
      simp only [WFKvs] at hwf
      have h1 := wf_normT c hwf.2.1
      have h2 := wf_normKvs rest hwf.2.2
      simp only [normKvs, noLeaf_shift]
      cases hn : normT false noLeaf c with
      | none =>
        simp only
        refine ⟨h2.1, ?_⟩
        intro kv hkv
        obtain ⟨kv', h3, h4⟩ := h2.2 kv hkv
        exact ⟨kv', by simp [h3], h4⟩
      | some c' =>
        simp only [WFKvs]
        refine ⟨⟨?_, h1 c' hn, h2.1⟩, ?_⟩
        · intro kv hkv
          obtain ⟨kv', h3, h4⟩ := h2.2 kv hkv
          rw [← h4]
          exact hwf.1 kv' h3
        · intro kv hkv
          simp only [List.mem_cons] at hkv
          rcases hkv with rfl | hkv
          · exact ⟨(k, c), by simp, rfl⟩
          · obtain ⟨kv', h3, h4⟩ := h2.2 kv hkv
            exact ⟨kv', by simp [h3], h4⟩
end

/-- a well-formed dict whose complete content is exactly the leaves of `s` is `prune s` as a Python dict -/
theorem dictEq_prune_of_content (s' s : List (κ × Tree κ α)) (hs' : WFKvs s') (hs : WFKvs s)
    (h : (relKvs true noLeaf s').Perm (relKvs false noLeaf s)) : DictEq (.dict s') (prune (.dict s)) := by
  simp only [prune]
  rw [dictEq_dict_iff s' _ hs' (wf_normKvs s hs).1, relKvs_true_norm]
  exact h

/-! ### restriction to a set of paths -/

mutual
  theorem leaves_keepPathsT : ∀ (c : Tree κ α) (P : Path κ → Bool),
      (match keepPathsT P c with
        | some c' => leavesT c'
        | none => []) = (leavesT c).filter (fun e => P e.1)
    | .leaf v, P => by
      by_cases h : P [] = true <;> simp [keepPathsT, leavesT, h]
    | .dict kvs, P => by
      have ih := leaves_keepPathsKvs kvs P
      simp only [keepPathsT, leavesT]
      exact ih
  theorem leaves_keepPathsKvs : ∀ (kvs : List (κ × Tree κ α)) (P : Path κ → Bool),
      leavesKvs (keepPathsKvs P kvs) = (leavesKvs kvs).filter (fun e => P e.1)
    | [], _ => by simp [keepPathsKvs, leavesKvs]
    | (k, c) :: rest, P => by
      have h1 := leaves_keepPathsT c (fun p => P (k :: p))
      have h2 := leaves_keepPathsKvs rest P
      have hcomp : ((fun e : Path κ × α => P e.1) ∘ fun pv : Path κ × α => (k :: pv.1, pv.2))
          = fun e => P (k :: e.1) := rfl
      simp only [keepPathsKvs, leavesKvs, List.filter_append, List.filter_map, hcomp]
      cases hn : keepPathsT (fun p => P (k :: p)) c with
      | none =>
        rw [hn] at h1
        simp only at h1
        rw [← h1, h2]; simp
      | some c' =>
        rw [hn] at h1
        simp only at h1
        simp only [leavesKvs]
        rw [h1, h2]
end

mutual
  theorem wf_keepPathsT : ∀ (c : Tree κ α) (P : Path κ → Bool), WF c → ∀ c', keepPathsT P c = some c' → WF c'
    | .leaf v, P, _, c', h => by
      simp only [keepPathsT] at h
      split at h
      · simp only [Option.some.injEq] at h; subst h; simp [WF]
      · simp at h
    | .dict kvs, P, hwf, c', h => by
      have ih := wf_keepPathsKvs kvs P (by simpa [WF] using hwf)
      simp only [keepPathsT, Option.some.injEq] at h
      subst h
      simpa [WF] using ih.1
  theorem wf_keepPathsKvs : ∀ (kvs : List (κ × Tree κ α)) (P : Path κ → Bool), WFKvs kvs →
      WFKvs (keepPathsKvs P kvs) ∧ ∀ kv ∈ keepPathsKvs P kvs, ∃ kv' ∈ kvs, kv'.1 = kv.1
    | [], _, _ => by simp [keepPathsKvs, WFKvs]
    | (k, c) :: rest, P, hwf => by
      simp only [WFKvs] at hwf
      have h1 := wf_keepPathsT c (fun p => P (k :: p)) hwf.2.1
      have h2 := wf_keepPathsKvs rest P hwf.2.2
      simp only [keepPathsKvs]
      cases hn : keepPathsT (fun p => P (k :: p)) c with
      | none =>
        simp only
        refine ⟨h2.1, ?_⟩
        intro kv hkv
        obtain ⟨kv', h3, h4⟩ := h2.2 kv hkv
        exact ⟨kv', by simp [h3], h4⟩
      | some c' =>
        simp only [WFKvs]
        refine ⟨⟨?_, h1 c' hn, h2.1⟩, ?_⟩
        · intro kv hkv
          obtain ⟨kv', h3, h4⟩ := h2.2 kv hkv
          rw [← h4]
          exact hwf.1 kv' h3
        · intro kv hkv
          simp only [List.mem_cons] at hkv
          rcases hkv with rfl | hkv
          · exact ⟨(k, c), by simp, rfl⟩
          · obtain ⟨kv', h3, h4⟩ := h2.2 kv hkv
            exact ⟨kv', by simp [h3], h4⟩
end

mutual
  /-- the entries of a keep-empty flatten (no `is_leaf`) are leaves or `empty_node` -/
  theorem relT_true_okval : ∀ (c : Tree κ α), ∀ e ∈ relT true noLeaf c, OkVal true e.2
    | .leaf v => by simp [relT, OkVal]
    | .dict kvs => by
      have ih := relKvs_true_okval kvs
      rw [relT_dict_noLeaf]
      cases kvs with
      | nil => simp [OkVal]
      | cons x r => simpa using ih
  theorem relKvs_true_okval : ∀ (kvs : List (κ × Tree κ α)), ∀ e ∈ relKvs true noLeaf kvs, OkVal true e.2
    | [] => by simp [relKvs]
    | (k, c) :: rest => by
      have h1 := relT_true_okval c
      have h2 := relKvs_true_okval rest
      intro e he
      simp only [relKvs, noLeaf_shift, List.mem_append, List.mem_map] at he
      rcases he with ⟨q, hq, rfl⟩ | he
      · exact h1 q hq
      · exact h2 e he
end

theorem okval_wf (b : Bool) (v : FVal κ α) (h : OkVal b v) : WF v.toTree := by
  rcases h with ⟨a, rfl⟩ | ⟨_, rfl⟩ <;> simp [FVal.toTree, WF, WFKvs]

end Flax.Traverse
