/- C06 helper lemmas: one array leaf — what axes_scan's transposes + lax.scan's leading-axis slicing /
   stacking amount to, in terms of jnp.take / jnp.stack along the declared axis -/
import Flax.Model.LiftLoop
import Flax.Proofs.LiftLoopArr
import Flax.Proofs.LiftLoopMonad

set_option linter.unusedSectionVars false

namespace Flax.LiftLoop
variable {α : Type} [Inhabited α]

theorem normAxis_zero_none {r : Nat} (h : normAxis r 0 = none) : r = 0 := by
  cases r with
  | zero => rfl
  | succ r => rw [normAxis_nonneg (by omega) (by omega)] at h; cases h

theorem normAxis_zero_some {r n : Nat} (h : normAxis r 0 = some n) : n = 0 := by
  have hlt := normAxis_lt h
  rw [normAxis_nonneg (by omega) (by omega)] at h
  injection h with h; simpa using h.symm

theorem toFront_shape (a : Arr α) (ax : Int) (n : Nat) (hn : normAxis a.rank ax = some n) (F : Arr α)
    (hF : a.toFront ax = .ok F) : ∃ h : n < a.shape.length, F.shape = a.shape[n] :: a.shape.eraseIdx n := by
  have hlt : n < a.shape.length := normAxis_lt hn
  refine ⟨hlt, ?_⟩
  by_cases h0 : ax = 0
  · subst h0
    have := normAxis_zero_some hn
    subst this
    simp [Arr.toFront] at hF
    subst hF
    have key : ∀ (l : List Nat) (h : 0 < l.length), l = l[0] :: l.eraseIdx 0 := by
      intro l h
      cases l with
      | nil => simp at h
      | cons d ds => simp
    exact key a.shape hlt
  · rw [Arr.toFront_eq a ax n hn h0] at hF
    injection hF with hF
    subst hF
    exact map_getD_of_permute 0 a.shape _ _ (permute_toFront a.shape n hlt)

/-- slice `i` along the leading axis of the transposed leaf = `jnp.take(a, i, axis)` of the original -/
theorem take_front_eq (a F : Arr α) (ax : Int) (hF : a.toFront ax = .ok F) (i : Nat) :
    F.take 0 i = takeAt ax i a := by
  unfold takeAt
  cases hn : normAxis a.rank ax with
  | some n =>
    obtain ⟨A', h1, h2⟩ := Arr.take_toFront a ax n hn
    rw [h1] at hF
    injection hF with hF
    subst hF
    exact h2 i
  | none =>
    by_cases h0 : ax = 0
    · subst h0
      simp [Arr.toFront] at hF
      subst hF
      have hr := normAxis_zero_none hn
      have : a.shape = [] := by
        unfold Arr.rank at hr
        exact List.eq_nil_of_length_eq_zero hr
      simp [Arr.take, this]
    · simp [Arr.toFront, h0, toFrontPerm, hn, bind, Except.bind] at hF

/-- a leaf whose transposition fails cannot be sliced along the declared axis either -/
theorem takeAt_error_of_toFront_error (a : Arr α) (ax : Int) (e : Err) (hF : a.toFront ax = .error e)
    (i : Nat) : opt (takeAt ax i a) = none := by
  unfold takeAt
  cases hn : normAxis a.rank ax with
  | some n =>
    obtain ⟨A', h1, _⟩ := Arr.take_toFront a ax n hn
    rw [h1] at hF; cases hF
  | none => rfl

/-- the leading size lax.scan sees = the size along the declared axis -/
theorem leadDim_front (a : Arr α) (ax : Int) :
    opt (a.toFront ax >>= leadDim) = opt (dimAt ax a) := by
  unfold dimAt shapeAt
  cases hn : normAxis a.shape.length ax with
  | some n =>
    obtain ⟨A', h1, _⟩ := Arr.take_toFront a ax n hn
    obtain ⟨hlt, hs⟩ := toFront_shape a ax n hn A' h1
    rw [h1]
    simp [bind, Except.bind, leadDim, hs, List.getD_eq_getElem?_getD, List.getElem?_eq_getElem hlt]
  | none =>
    by_cases h0 : ax = 0
    · subst h0
      have hr := normAxis_zero_none hn
      have : a.shape = [] := List.eq_nil_of_length_eq_zero hr
      simp [Arr.toFront, bind, Except.bind, leadDim, this]
    · have : normAxis a.rank ax = none := hn
      simp [Arr.toFront, h0, toFrontPerm, this, bind, Except.bind]

theorem mapM_length {β γ : Type} (f : β → Option γ) : ∀ (l : List β) (q : List γ), l.mapM f = some q →
    q.length = l.length := by
  intro l
  induction l with
  | nil => intro q h; simp at h; subst h; rfl
  | cons a l ih =>
    intro q h
    rw [List.mapM_cons] at h
    cases ha : f a with
    | none => simp [ha] at h
    | some b =>
      cases hl : l.mapM f with
      | none => simp [ha, hl] at h
      | some bs =>
        simp [ha, hl] at h
        subst h
        simp [ih bs hl]

theorem intRange_length (a b : Int) : (intRange a b).length = (b - a).toNat := by simp [intRange]

/-- an out-of-range axis makes `transpose_from_front` fail -/
theorem fromFront_error_of_none (S : Arr α) (ax : Int) (hr : 0 < S.rank) (hn : normAxis S.rank ax = none) :
    opt (S.fromFront ax) = none := by
  have h0 : ax ≠ 0 := by
    intro h; subst h
    have := normAxis_zero_none hn; omega
  simp only [Arr.fromFront, h0, if_false, fromFrontPerm]
  by_cases hneg : ax < 0
  · simp only [hneg, if_true]
    have hlow : ax < -(S.rank : Int) := by
      unfold normAxis at hn
      split at hn
      · cases hn
      · split at hn
        · cases hn
        · rename_i h1 h2; omega
    have hp : (S.rank : Int) + ax < (S.rank : Int) := by omega
    simp only [hp, if_true, bind, Except.bind, canonPerm]
    cases hm : (intRange 1 ((S.rank : Int) + ax + 1) ++ [0] ++ intRange ((S.rank : Int) + ax + 1) S.rank).mapM
        (normAxis S.rank) with
    | none => rfl
    | some q =>
      have hl := mapM_length _ _ _ hm
      simp only [List.length_append, intRange_length, List.length_cons, List.length_nil] at hl
      have : q.length ≠ S.rank := by omega
      simp [this]
  · simp only [hneg, if_false]
    have hhigh : ¬ (ax < (S.rank : Int)) := by
      unfold normAxis at hn
      split at hn
      · cases hn
      · rename_i h1; omega
    simp [hhigh, bind, Except.bind]

/-- stacking along axis 0 and transposing from the front = `jnp.stack(ls, axis)`, as far as success and
the result are concerned -/
theorem stackFront_opt (ax : Int) (sh : List Nat) (ls : List (Arr α)) :
    opt (stackFront ax sh ls) = opt (stackAt ax sh ls) := by
  unfold stackFront stackAt
  cases hn : normAxis (sh.length + 1) ax with
  | some n =>
    cases hS : Arr.stack sh 0 ls with
    | ok S =>
      simp only [bind, Except.bind]
      rw [Arr.fromFront_stack sh ls ax n hn S hS]
    | error e =>
      simp only [bind, Except.bind, opt_error]
      have hle : n ≤ sh.length := by have := normAxis_lt hn; omega
      simp only [Arr.stack, Nat.zero_le, true_and] at hS
      split at hS
      · cases hS
      · rename_i hall
        simp [Arr.stack, hle, hall]
  | none =>
    cases hS : Arr.stack sh 0 ls with
    | ok S =>
      simp only [bind, Except.bind, opt_error]
      have hr : S.rank = sh.length + 1 := by
        simp only [Arr.stack, Nat.zero_le, true_and] at hS
        split at hS
        · injection hS with hS; subst hS; simp [Arr.rank]
        · cases hS
      exact fromFront_error_of_none S ax (by omega) (by rw [hr]; exact hn)
    | error e => simp [bind, Except.bind]

end Flax.LiftLoop
