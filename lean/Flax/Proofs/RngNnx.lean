/-
C09, NNX part: `RngStream.__call__`, `Rngs._get_stream`, `split_rngs` / `restore_rngs`, `reseed`.
-/
import Flax.Proofs.RngLinen

namespace Flax.Rng

theorem Stream.callN_scalar (tag : String) (k : SymKey) (n : Nat) : ∀ (c : Nat),
    Stream.callN { tag := tag, key := .scalar k, count := .scalar c } n =
      .ok ((List.range n).map (fun i => SymKey.foldIn k (c + i)), { tag := tag, key := .scalar k, count := .scalar (c + n) }) := by
  induction n with
  | zero => intro c; rfl
  | succ n ih =>
    intro c
    simp only [Stream.callN, Stream.call, ih (c + 1)]
    simp only [List.range_succ_eq_map, List.map_cons, List.map_map, Nat.add_zero, Except.ok.injEq, Prod.mk.injEq,
      List.cons.injEq, true_and]
    refine ⟨?_, by congr 2; omega⟩
    apply List.map_congr_left
    intro i _
    simp only [Function.comp]
    congr 1
    omega

/-- a sequence of calls on an `Rngs` -/
def Rngs.calls (fb : String) : Rngs → List String → Except Err (List SymKey × Rngs)
  | r, [] => .ok ([], r)
  | r, n :: ns =>
    match r.call fb n with
    | .error e => .error e
    | .ok (k, r1) =>
      match Rngs.calls fb r1 ns with
      | .error e => .error e
      | .ok (ks, r2) => .ok (k :: ks, r2)

/-- which stream (and seed key) answers for `name` in `Rngs(**seeds)` -/
def resolveOf (fb : String) (seeds : List (String × SymKey)) (name : String) : Option (String × SymKey) :=
  effOf { sep := false, fallback := fb } seeds name

/-- every stream is scalar with the counts `c` (the state between transforms) -/
def NRep (seeds : List (String × SymKey)) (r : Rngs) (c : String → Nat) : Prop :=
  ∀ n, find? n r.streams =
    (find? n seeds).map (fun k => ({ tag := n, key := .scalar k, count := .scalar (c n) } : Stream))

def bumpS (c : String → Nat) (n : String) : String → Nat := fun t => if t = n then c t + 1 else c t

theorem nrep_init (seeds : List (String × SymKey)) : NRep seeds (Rngs.mk' seeds) (fun _ => 0) := by
  intro n
  unfold Rngs.mk'
  simp only []
  induction seeds with
  | nil => rfl
  | cons a l ih =>
    obtain ⟨n', k'⟩ := a
    by_cases h : n' = n
    · subst h; simp [find?_cons]
    · simp [find?_cons, h, ih]

theorem resolve_nrep (fb : String) (seeds : List (String × SymKey)) (r : Rngs) (c : String → Nat)
    (hrep : NRep seeds r c) (name : String) :
    r.resolve fb name =
      match resolveOf fb seeds name with
      | some (n', _) => .ok n'
      | none => .error .noStream := by
  unfold Rngs.resolve resolveOf effOf
  simp only [hrep name, hrep fb]
  cases h1 : find? name seeds with
  | some k => simp
  | none =>
    cases h2 : find? fb seeds with
    | some k => simp
    | none => simp

theorem call_nrep (fb : String) (seeds : List (String × SymKey)) (r : Rngs) (c : String → Nat)
    (hrep : NRep seeds r c) (name : String) :
    (resolveOf fb seeds name = none → r.call fb name = .error .noStream) ∧
    (∀ n' k, resolveOf fb seeds name = some (n', k) →
      ∃ r', r.call fb name = .ok (.foldIn k (c n'), r') ∧ NRep seeds r' (bumpS c n')) := by
  constructor
  · intro h
    unfold Rngs.call
    rw [resolve_nrep fb seeds r c hrep, h]
    rfl
  · intro n' k h
    have hk : find? n' seeds = some k := effOf_find _ seeds name n' k h
    unfold Rngs.call
    rw [resolve_nrep fb seeds r c hrep, h]
    simp only [bind, Except.bind, hrep n', hk, Option.map, Stream.call]
    refine ⟨_, rfl, ?_⟩
    intro t
    by_cases ht : t = n'
    · subst ht
      simp [find?_set_self, hk, bumpS]
    · simp only [find?_set_ne _ _ _ _ ht, hrep t, bumpS, ht, if_false]

/-- the number of names in `l` that resolve to stream `n'` -/
def countStream (fb : String) (seeds : List (String × SymKey)) (n' : String) (l : List String) : Nat :=
  (l.filter (fun x => decide ((resolveOf fb seeds x).map (·.1) = some n'))).length

theorem countStream_cons (fb : String) (seeds : List (String × SymKey)) (n' x : String) (l : List String) :
    countStream fb seeds n' (x :: l) =
      (if (resolveOf fb seeds x).map (·.1) = some n' then 1 else 0) + countStream fb seeds n' l := by
  unfold countStream
  rw [List.filter_cons]
  split <;> rename_i h <;> simp at h <;> simp [h] <;> omega

theorem calls_closed (fb : String) (seeds : List (String × SymKey)) :
    ∀ (names : List String) (r : Rngs) (c : String → Nat), NRep seeds r c →
      (∀ e, Rngs.calls fb r names = .error e → e = .noStream ∧ ∃ x ∈ names, resolveOf fb seeds x = none) ∧
      (∀ ks r', Rngs.calls fb r names = .ok (ks, r') →
        ks.length = names.length ∧ NRep seeds r' (fun t => c t + countStream fb seeds t names) ∧
        ∀ (i : Nat) (hi : i < names.length), ∃ n' k, resolveOf fb seeds (names[i]) = some (n', k) ∧
          ks[i]? = some (.foldIn k (c n' + countStream fb seeds n' (names.take i)))) := by
  intro names
  induction names with
  | nil =>
    intro r c hrep
    refine ⟨by intro e h; simp [Rngs.calls] at h, ?_⟩
    intro ks r' h
    simp only [Rngs.calls, Except.ok.injEq, Prod.mk.injEq] at h
    obtain ⟨rfl, rfl⟩ := h
    refine ⟨rfl, by simpa [countStream] using hrep, by intro i hi; simp at hi⟩
  | cons x names ih =>
    intro r c hrep
    obtain ⟨hc1, hc2⟩ := call_nrep fb seeds r c hrep x
    simp only [Rngs.calls]
    cases hres : resolveOf fb seeds x with
    | none =>
      rw [hc1 hres]
      refine ⟨?_, by intro ks r' h; simp at h⟩
      intro e h
      simp only [Except.error.injEq] at h
      exact ⟨h.symm, x, by simp, hres⟩
    | some nk =>
      obtain ⟨n0, k0⟩ := nk
      obtain ⟨r1, hcall, hrep1⟩ := hc2 n0 k0 hres
      rw [hcall]
      simp only []
      obtain ⟨ih1, ih2⟩ := ih r1 (bumpS c n0) hrep1
      cases hrest : Rngs.calls fb r1 names with
      | error e =>
        refine ⟨?_, by intro ks r' h; simp at h⟩
        intro e' h
        simp only [Except.error.injEq] at h
        subst h
        obtain ⟨h1, y, hy, hy2⟩ := ih1 e hrest
        exact ⟨h1, y, List.mem_cons_of_mem _ hy, hy2⟩
      | ok res =>
        obtain ⟨ks1, r2⟩ := res
        refine ⟨by intro e h; simp at h, ?_⟩
        intro ks r' h
        simp only [Except.ok.injEq, Prod.mk.injEq] at h
        obtain ⟨rfl, rfl⟩ := h
        obtain ⟨hlen, hrep2, hkeys⟩ := ih2 ks1 r2 hrest
        refine ⟨by simp [hlen], ?_, ?_⟩
        · intro t
          rw [hrep2 t]
          congr 1
          funext k
          simp only [countStream_cons, hres, Option.map, Option.some.injEq, bumpS]
          by_cases ht : t = n0
          · subst ht; simp; omega
          · have : ¬ (n0 = t) := fun hh => ht hh.symm
            simp [ht, this]
        · intro i hi
          cases i with
          | zero => exact ⟨n0, k0, hres, by simp [countStream]⟩
          | succ i =>
            have hi' : i < names.length := by simpa using hi
            obtain ⟨n', k, hr, hk⟩ := hkeys i hi'
            refine ⟨n', k, by simpa using hr, ?_⟩
            simp only [List.getElem?_cons_succ, List.take_succ_cons]
            rw [hk, countStream_cons]
            simp only [hres, Option.map, Option.some.injEq, bumpS]
            by_cases ht : n' = n0
            · subst ht; simp; omega
            · have : ¬ (n0 = n') := fun hh => ht hh.symm
              simp [ht, this]

/-- structural size of a key term (for "a key is never its own ancestor") -/
def SymKey.size : SymKey → Nat
  | .seed _ => 1
  | .foldStatic k _ => k.size + 1
  | .foldIn k _ => k.size + 1
  | .split k _ _ => k.size + 1

theorem split_foldIn_ne (k : SymKey) (c : Nat) (shape idx : List Nat) : SymKey.split (.foldIn k c) shape idx ≠ k := by
  intro h
  have := congrArg SymKey.size h
  simp [SymKey.size] at this
  omega

end Flax.Rng
