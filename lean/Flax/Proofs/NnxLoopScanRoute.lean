/- C08 proofs: `nnx.scan` — the three routes of `_scan_split_in` / `_scan_merge_in`: what an iteration sees -/
import Flax.Proofs.NnxLoopVmap
import Flax.Proofs.LiftLoopLeaf

namespace Flax.NnxLoop
open Flax.Filter Flax.LiftLoop

theorem mem_zip_iff {β γ : Type} {l1 : List β} {l2 : List γ} {b : β} {c : γ} :
    (b, c) ∈ l1.zip l2 ↔ ∃ g : Nat, l1[g]? = some b ∧ l2[g]? = some c := by
  constructor
  · intro h
    obtain ⟨g, hg, he⟩ := List.getElem_of_mem h
    have : (l1.zip l2)[g]? = some (b, c) := by rw [List.getElem?_eq_getElem hg, he]
    exact ⟨g, List.getElem?_zip_eq_some.1 this⟩
  · rintro ⟨g, h1, h2⟩
    exact List.mem_of_getElem? (List.getElem?_zip_eq_some.2 ⟨h1, h2⟩)

section route
variable {α : Type} [Inhabited α]

/-- the three routes: which states end where -/
theorem routeStates_spec {moveIn : Bool} : ∀ {zs : List (Ax × State α)} {vec car bc : List (State α)},
    routeStates moveIn zs = .ok (vec, car, bc) →
    (∀ s, s ∈ car ↔ (Ax.carry, s) ∈ zs) ∧ (∀ s, s ∈ bc ↔ (Ax.bcast, s) ∈ zs) ∧
    (∀ s', s' ∈ vec ↔ ∃ k s, (Ax.axis k, s) ∈ zs ∧
      (if moveIn then toFrontState k s = .ok s' else s' = s)) ∧
    (∀ k s, (Ax.axis k, s) ∈ zs → moveIn = true → ∃ s', toFrontState k s = .ok s') := by
  intro zs
  induction zs with
  | nil =>
    intro vec car bc h
    simp only [routeStates] at h
    injection h with h
    injection h with h1 h2
    injection h2 with h2 h3
    subst h1; subst h2; subst h3
    simp
  | cons z zs ih =>
    intro vec car bc h
    obtain ⟨a, s⟩ := z
    simp only [routeStates] at h
    cases hr : routeStates moveIn zs with
    | error e => simp [hr] at h
    | ok r =>
      obtain ⟨vec0, car0, bc0⟩ := r
      simp only [hr] at h
      obtain ⟨ic, ib, iv, it⟩ := ih hr
      cases a with
      | bcast =>
        simp only [] at h
        injection h with h
        injection h with h1 h2
        injection h2 with h2 h3
        subst h1; subst h2; subst h3
        refine ⟨?_, ?_, ?_, ?_⟩
        · intro s'; rw [ic]; simp
        · intro s'; simp only [List.mem_cons, ib]
          constructor
          · rintro (h | h)
            · left; rw [h]
            · right; exact h
          · rintro (h | h)
            · left; exact (Prod.mk.inj h).2
            · right; exact h
        · intro s'; rw [iv]; simp
        · intro k s' hm hmv
          rcases List.mem_cons.1 hm with hm | hm
          · cases hm
          · exact it k s' hm hmv
      | carry =>
        simp only [] at h
        injection h with h
        injection h with h1 h2
        injection h2 with h2 h3
        subst h1; subst h2; subst h3
        refine ⟨?_, ?_, ?_, ?_⟩
        · intro s'; simp only [List.mem_cons, ic]
          constructor
          · rintro (h | h)
            · left; rw [h]
            · right; exact h
          · rintro (h | h)
            · left; exact (Prod.mk.inj h).2
            · right; exact h
        · intro s'; rw [ib]; simp
        · intro s'; rw [iv]; simp
        · intro k s' hm hmv
          rcases List.mem_cons.1 hm with hm | hm
          · cases hm
          · exact it k s' hm hmv
      | axis k =>
        simp only [] at h
        cases hmv : moveIn with
        | true =>
          simp only [hmv, if_true] at h
          cases htf : toFrontState k s with
          | error e => simp [htf] at h
          | ok sF =>
            simp only [htf] at h
            injection h with h
            injection h with h1 h2
            injection h2 with h2 h3
            subst h1; subst h2; subst h3
            subst hmv
            refine ⟨?_, ?_, ?_, ?_⟩
            · intro s'; rw [ic]; simp
            · intro s'; rw [ib]; simp
            · intro s'
              simp only [List.mem_cons, iv, if_true]
              constructor
              · rintro (h | ⟨k', s0, hm, ht⟩)
                · exact ⟨k, s, Or.inl rfl, by rw [h]; exact htf⟩
                · exact ⟨k', s0, Or.inr hm, ht⟩
              · rintro ⟨k', s0, hm | hm, ht⟩
                · injection hm with h1 h2
                  injection h1 with h1
                  subst h1; subst h2
                  left
                  rw [htf] at ht
                  injection ht with ht
                  exact ht.symm
                · exact Or.inr ⟨k', s0, hm, ht⟩
            · intro k' s' hm _
              rcases List.mem_cons.1 hm with hm | hm
              · injection hm with h1 h2
                injection h1 with h1
                subst h1; subst h2
                exact ⟨sF, htf⟩
              · exact it k' s' hm rfl
        | false =>
          simp only [hmv] at h
          injection h with h
          injection h with h1 h2
          injection h2 with h2 h3
          subst h1; subst h2; subst h3
          subst hmv
          refine ⟨?_, ?_, ?_, ?_⟩
          · intro s'; rw [ic]; simp
          · intro s'; rw [ib]; simp
          · intro s'
            simp only [List.mem_cons, iv]
            constructor
            · rintro (h | ⟨k', s0, hm, ht⟩)
              · exact ⟨k, s, Or.inl rfl, by simpa using h⟩
              · exact ⟨k', s0, Or.inr hm, ht⟩
            · rintro ⟨k', s0, hm | hm, ht⟩
              · injection hm with h1 h2
                subst h2
                left
                simpa using ht
              · exact Or.inr ⟨k', s0, hm, ht⟩
          · intro k' s' _ hf
            cases hf

/-- an owned occurrence and its flat item -/
theorem flat_item_of_owned {owned : List Entry} {st : Store α} {flat : Flat α} (h : flatOf owned st = .ok flat) :
    (∀ e ∈ owned, ∃ v, st.getX e.id = .ok v ∧ (e.path, e.info, v) ∈ flat) ∧
    (∀ x ∈ flat, ∃ e ∈ owned, st.getX e.id = .ok x.2.2 ∧ x.1 = e.path ∧ x.2.1 = e.info) := by
  obtain ⟨h1, h2⟩ := flatOf_eq_map h
  constructor
  · intro e he
    obtain ⟨v, hv, hm⟩ := h1 e he
    exact ⟨v, by simp [Store.getX, hv], hm⟩
  · intro x hx
    obtain ⟨e, he, hv, hp, hi⟩ := h2 x hx
    exact ⟨e, he, by simp [Store.getX, hv], hp, hi⟩

/-- owned occurrences with one path are one occurrence -/
theorem entry_of_path {owned : List Entry} (hnd : (owned.map (·.path)).Nodup) {e e' : Entry} (he : e ∈ owned)
    (he' : e' ∈ owned) (hp : e.path = e'.path) : e = e' := by
  induction owned with
  | nil => cases he
  | cons x xs ih =>
    simp only [List.map_cons, List.nodup_cons] at hnd
    rcases List.mem_cons.1 he with h1 | h1 <;> rcases List.mem_cons.1 he' with h2 | h2
    · rw [h1, h2]
    · exfalso; apply hnd.1; rw [← h1, hp]; exact List.mem_map.2 ⟨e', h2, rfl⟩
    · exfalso; apply hnd.1; rw [← h2, ← hp]; exact List.mem_map.2 ⟨e, h1, rfl⟩
    · exact ih hnd.2 h1 h2

/-- **what one graph-node argument contributes to an iteration.**  `vec/bc` are the vectorised and broadcast routes of
the argument's states built from the *original* values (`_scan_split_in`), `car'` the carry route of the states built
from the values the previous iteration left (`_scan_split_out`); `veci` is slice `i` of `vec` along the leading axis.
Merging `veci ++ car' ++ bc` (`_scan_merge_in`) gives every owned Variable, at its path, `scanValIn`: `take(original,
i, axis)` / the carried value / the original value, according to the axis its first matching filter gives it. -/
theorem scan_node_lookup {p : Prefix} {owned : List Entry} (hnd : (owned.map (·.path)).Nodup) {store cur : Store α}
    {flatS flatC : Flat α} (hfS : flatOf owned store = .ok flatS) (hfC : flatOf owned cur = .ok flatC)
    {stsS stsC : List (State α)} (hsS : splitFlat p flatS = .ok stsS) (hsC : splitFlat p flatC = .ok stsC)
    {vec car bc : List (State α)} (hrS : routeStates true (p.axes.zip stsS) = .ok (vec, car, bc))
    {vec' car' bc' : List (State α)} (hrC : routeStates false (p.axes.zip stsC) = .ok (vec', car', bc'))
    {i : Nat} {veci : List (State α)} (hv : mapX (take0State i) vec = .ok veci) :
    ∀ e ∈ owned, ∃ a v, p.at e = .ok a ∧ scanValIn store cur i a e.id = .ok v ∧
      (veci.flatten ++ car'.flatten ++ bc.flatten).lookup e.path = some v := by
  obtain ⟨hlS, hmemS, hltS⟩ := splitFlat_spec hsS
  obtain ⟨hlC, hmemC, hltC⟩ := splitFlat_spec hsC
  obtain ⟨_, rbS, rvS, rtS⟩ := routeStates_spec hrS
  obtain ⟨rcC, _, _, _⟩ := routeStates_spec hrC
  obtain ⟨foS, fiS⟩ := flat_item_of_owned hfS
  obtain ⟨foC, fiC⟩ := flat_item_of_owned hfC
  -- (ii): every pair of the merged states is the expected value of the occurrence with that path
  have hii : ∀ kb ∈ veci.flatten ++ car'.flatten ++ bc.flatten, ∃ e ∈ owned, ∃ a,
      kb.1 = e.path ∧ p.at e = .ok a ∧ scanValIn store cur i a e.id = .ok kb.2 := by
    intro kb hkb
    rcases List.mem_append.1 hkb with hkb | hkb
    · rcases List.mem_append.1 hkb with hkb | hkb
      · -- vectorised
        obtain ⟨sI, hsI, hin⟩ := List.mem_flatten.1 hkb
        obtain ⟨sV, hsV, htk⟩ := mapX_ok_mem_rev hv sI hsI
        obtain ⟨pvF, hpvF, hkv, hk1⟩ := leafMap_ok_mem_rev htk kb hin
        obtain ⟨k, s, hz, hmv⟩ := (rvS sV).1 hsV
        simp only [if_true] at hmv
        obtain ⟨pv0, hpv0, htf, hk2⟩ := leafMap_ok_mem_rev hmv pvF hpvF
        obtain ⟨g, hg1, hg2⟩ := mem_zip_iff.1 hz
        obtain ⟨x, hx, hxe, hgx⟩ := (hmemS g s hg2 pv0).1 hpv0
        obtain ⟨e, he, hgv, hp1, hp2⟩ := fiS x hx
        have hat : p.at e = .ok (.axis k) := by
          rw [prefix_at_eq_axAt, ← hp1, ← hp2]
          simp only [axAt, hgx, hg1]
        refine ⟨e, he, .axis k, by rw [hk1, hk2, hxe, hp1], hat, ?_⟩
        simp only [scanValIn, hgv, bindX]
        have h1 : Arr.toFront k x.2.2 = .ok pvF.2 := by
          have := liftL_ok.1 htf; rw [hxe] at this; exact this
        rw [← take_front_eq x.2.2 pvF.2 k h1 i]
        exact hkv
      · -- carried
        obtain ⟨s, hs, hin⟩ := List.mem_flatten.1 hkb
        have hz := (rcC s).1 hs
        obtain ⟨g, hg1, hg2⟩ := mem_zip_iff.1 hz
        obtain ⟨x, hx, hxe, hgx⟩ := (hmemC g s hg2 kb).1 hin
        obtain ⟨e, he, hgv, hp1, hp2⟩ := fiC x hx
        have hat : p.at e = .ok .carry := by
          rw [prefix_at_eq_axAt, ← hp1, ← hp2]
          simp only [axAt, hgx, hg1]
        exact ⟨e, he, .carry, by rw [hxe, hp1], hat, by simp only [scanValIn, hgv, hxe]⟩
    · -- broadcast
      obtain ⟨s, hs, hin⟩ := List.mem_flatten.1 hkb
      have hz := (rbS s).1 hs
      obtain ⟨g, hg1, hg2⟩ := mem_zip_iff.1 hz
      obtain ⟨x, hx, hxe, hgx⟩ := (hmemS g s hg2 kb).1 hin
      obtain ⟨e, he, hgv, hp1, hp2⟩ := fiS x hx
      have hat : p.at e = .ok .bcast := by
        rw [prefix_at_eq_axAt, ← hp1, ← hp2]
        simp only [axAt, hgx, hg1]
      exact ⟨e, he, .bcast, by rw [hxe, hp1], hat, by simp only [scanValIn, hgv, hxe]⟩
  -- (i): the expected value of every occurrence is among the merged states
  intro e he
  obtain ⟨vS, hvS, hmS⟩ := foS e he
  obtain ⟨vC, hvC, hmC⟩ := foC e he
  have hgS := hltS _ hmS
  have hgC := hltC _ hmC
  simp only [] at hgS hgC
  have hgA : groupIdx p e.path e.info < p.axes.length := by omega
  have hat : p.at e = .ok p.axes[groupIdx p e.path e.info] := by
    rw [prefix_at_eq_axAt]; simp [axAt, List.getElem?_eq_getElem hgA]
  have hinS : (e.path, vS) ∈ stsS[groupIdx p e.path e.info] :=
    (hmemS _ _ (List.getElem?_eq_getElem hgS) _).2 ⟨_, hmS, rfl, rfl⟩
  have hinC : (e.path, vC) ∈ stsC[groupIdx p e.path e.info] :=
    (hmemC _ _ (List.getElem?_eq_getElem hgC) _).2 ⟨_, hmC, rfl, rfl⟩
  have hzS : (p.axes[groupIdx p e.path e.info], stsS[groupIdx p e.path e.info]) ∈ p.axes.zip stsS :=
    mem_zip_iff.2 ⟨_, List.getElem?_eq_getElem hgA, List.getElem?_eq_getElem hgS⟩
  have hzC : (p.axes[groupIdx p e.path e.info], stsC[groupIdx p e.path e.info]) ∈ p.axes.zip stsC :=
    mem_zip_iff.2 ⟨_, List.getElem?_eq_getElem hgA, List.getElem?_eq_getElem hgC⟩
  have hmem : ∃ v, scanValIn store cur i p.axes[groupIdx p e.path e.info] e.id = .ok v ∧
      (e.path, v) ∈ veci.flatten ++ car'.flatten ++ bc.flatten := by
    cases ha : p.axes[groupIdx p e.path e.info] with
    | axis k =>
      rw [ha] at hzS
      obtain ⟨sF, hsF⟩ := rtS k _ hzS rfl
      have hsFv : sF ∈ vec := (rvS sF).2 ⟨k, _, hzS, by simpa using hsF⟩
      obtain ⟨F, hF, hFm⟩ := leafMap_ok_mem hsF _ hinS
      obtain ⟨sI, hsI, hsIm⟩ := mapX_ok_mem hv sF hsFv
      obtain ⟨w, hw, hwm⟩ := leafMap_ok_mem hsI _ hFm
      refine ⟨w, ?_, ?_⟩
      · simp only [scanValIn, hvS, bindX]
        rw [← take_front_eq vS F k (liftL_ok.1 hF) i]
        exact hw
      · exact List.mem_append_left _ (List.mem_append_left _ (List.mem_flatten.2 ⟨sI, hsIm, hwm⟩))
    | carry =>
      rw [ha] at hzC
      exact ⟨vC, by simp only [scanValIn, hvC],
        List.mem_append_left _ (List.mem_append_right _ (List.mem_flatten.2 ⟨_, (rcC _).2 hzC, hinC⟩))⟩
    | bcast =>
      rw [ha] at hzS
      exact ⟨vS, by simp only [scanValIn, hvS],
        List.mem_append_right _ (List.mem_flatten.2 ⟨_, (rbS _).2 hzS, hinS⟩)⟩
  obtain ⟨v, hv1, hv2⟩ := hmem
  refine ⟨_, v, hat, hv1, ?_⟩
  apply lookup_of_mem_unique hv2
  intro b hb
  obtain ⟨e', he', a', hk, hat', hval⟩ := hii _ hb
  have : e = e' := entry_of_path hnd he he' hk
  subst this
  rw [hat] at hat'
  injection hat' with hat'
  rw [← hat', hv1] at hval
  injection hval with hval
  exact hval.symm

end route

end Flax.NnxLoop
