/-
C09, Linen with `nn.jit`: the scope machine (by-reference counter dictionaries, `fork_rngs`) refines a reference
semantics with one counter per (scope path, stream) for *every* program, including jit-ted methods.
-/
import Flax.Proofs.RngLinen

namespace Flax.Rng

/-- the `Scope` at path `π` whose streams have base keys `B` and have accumulated the names `rel` since those bases
were installed (`bind`: `B` = the seeds, `rel = π`; inside a jit-ted method: `B` = the forked keys, `rel` = the names
pushed inside it) -/
def scopeG (B : List (String × SymKey)) (rel π : Path) : Scope :=
  { rngs := seedRngs B rel, path := π, cref := (0, π) }

theorem scopeAt_eq_scopeG (seeds : List (String × SymKey)) (π : Path) : scopeAt seeds π = scopeG seeds π π := rfl

/-- bump the counters of all streams `ns` at path `π` -/
def bumpAll (c : Counts) (π : Path) (ns : List String) : Counts :=
  fun π' t => if π' = π ∧ t ∈ ns then c π' t + 1 else c π' t

/-- the bases installed by `fork_rngs` -/
def forkBases (sep : Bool) (B : List (String × SymKey)) (rel π : Path) (c : Counts) : List (String × SymKey) :=
  B.map (fun nb => (nb.1, keyAt sep nb.2 rel (c π nb.1 + 1)))

/-- reference semantics of a module program, `nn.jit` included: path-addressed counters, explicit bases -/
def specProg (cfg : Cfg) : Prog → List (String × SymKey) → Path → Path → Counts → Except Err (List SymKey × Counts)
  | .done, _, _, _, c => .ok ([], c)
  | .draw s rest, B, rel, π, c =>
    match effOf cfg B s with
    | none => .error .invalidRng
    | some (s', k) =>
      match specProg cfg rest B rel π (bump c π s') with
      | .error e => .error e
      | .ok (ks, c') => .ok (keyAt cfg.sep k rel (c π s' + 1) :: ks, c')
  | .sub n body rest, B, rel, π, c =>
    match specProg cfg body B (rel ++ [n]) (π ++ [n]) c with
    | .error e => .error e
    | .ok (k1, c1) =>
      match specProg cfg rest B rel π c1 with
      | .error e => .error e
      | .ok (k2, c2) => .ok (k1 ++ k2, c2)
  | .jit body rest, B, rel, π, c =>
    match specProg cfg body (forkBases cfg.sep B rel π c) [] π (bumpAll c π (B.map (·.1))) with
    | .error e => .error e
    | .ok (k1, c1) =>
      match specProg cfg rest B rel π c1 with
      | .error e => .error e
      | .ok (k2, c2) => .ok (k1 ++ k2, c2)

/-! ### `Rep` depends only on which stream names exist -/

def SameNames (B B' : List (String × SymKey)) : Prop := ∀ s, (find? s B).isSome = (find? s B').isSome

theorem rep_sameNames {B B' : List (String × SymKey)} (h : SameNames B B') (st : Store) (c : Counts)
    (hrep : Rep B st c) : Rep B' st c := by
  intro π
  refine ⟨?_, (hrep π).2⟩
  intro d hd s
  rw [(hrep π).1 d hd s]
  have := h s
  cases h1 : find? s B <;> cases h2 : find? s B' <;> simp [h1, h2] at this ⊢

theorem find?_forkBases (sep : Bool) (B : List (String × SymKey)) (rel π : Path) (c : Counts) (s : String) :
    find? s (forkBases sep B rel π c) = (find? s B).map (fun b => keyAt sep b rel (c π s + 1)) := by
  unfold forkBases
  induction B with
  | nil => rfl
  | cons a l ih =>
    obtain ⟨n, b⟩ := a
    by_cases h : n = s
    · subst h; simp [find?_cons]
    · simp [find?_cons, h, ih]

theorem sameNames_forkBases (sep : Bool) (B : List (String × SymKey)) (rel π : Path) (c : Counts) :
    SameNames B (forkBases sep B rel π c) := by
  intro s
  rw [find?_forkBases]
  cases find? s B <;> rfl

theorem forkBases_names (sep : Bool) (B : List (String × SymKey)) (rel π : Path) (c : Counts) :
    (forkBases sep B rel π c).map (·.1) = B.map (·.1) := by
  simp [forkBases, List.map_map, Function.comp_def]

/-! ### the machine steps on `scopeG` -/

theorem push_scopeG (B : List (String × SymKey)) (rel π : Path) (n : String) (st : Store) (c : Counts)
    (hrep : Rep B st c) :
    ∃ st', push (scopeG B rel π) n st = (scopeG B (rel ++ [n]) (π ++ [n]), st') ∧ Rep B st' c ∧ Mono st st' ∧
      (find? ((0 : Nat), π ++ [n]) st'.dicts).isSome := by
  have hr : (seedRngs B rel).map (fun kr => (kr.1, kr.2.create [Datum.str n])) = seedRngs B (rel ++ [n]) := by
    simp [seedRngs, List.map_map, Function.comp_def, LazyRng.create]
  unfold push
  simp only [scopeG, hr]
  cases hf : find? ((0 : Nat), π ++ [n]) st.dicts with
  | some d =>
    exact ⟨st, rfl, hrep, Mono.refl st, by simp [hf]⟩
  | none =>
    refine ⟨_, rfl, ?_, ?_, ?_⟩
    · intro π'
      by_cases hp : π' = π ++ [n]
      · subst hp
        simp only [find?_append_new _ _ _ hf]
        refine ⟨?_, by simp⟩
        intro d hd s
        have hd' : d = zeros (seedRngs B (rel ++ [n])) := by simpa using hd.symm
        subst hd'
        rw [find?_zeros, (hrep (π ++ [n])).2 hf s]
      · have hne : ((0 : Nat), π') ≠ ((0 : Nat), π ++ [n]) := by
          intro e; exact hp (Prod.mk.inj e).2
        simp only [find?_append_ne _ _ _ _ hne]
        exact hrep π'
    · intro cref h
      by_cases hc : cref = ((0 : Nat), π ++ [n])
      · subst hc; simp [find?_append_new _ _ _ hf]
      · simpa [find?_append_ne _ _ _ _ hc] using h
    · simp [find?_append_new _ _ _ hf]

theorem effName_scopeG (cfg : Cfg) (B : List (String × SymKey)) (rel π : Path) (s : String) :
    effName cfg (scopeG B rel π) s =
      match effOf cfg B s with
      | some (s', _) => .ok s'
      | none => .error .invalidRng := by
  unfold effName Scope.hasRng effOf
  simp only [scopeG, find?_seedRngs]
  cases h1 : find? s B with
  | some k => simp
  | none =>
    cases h2 : find? cfg.fallback B with
    | some k => simp
    | none => simp

theorem makeRng_scopeG (cfg : Cfg) (B : List (String × SymKey)) (rel π : Path) (s : String) (st : Store) (c : Counts)
    (hrep : Rep B st c) (hhas : (find? ((0 : Nat), π) st.dicts).isSome) :
    (effOf cfg B s = none → makeRng cfg (scopeG B rel π) s st = .error .invalidRng) ∧
    (∀ s' k, effOf cfg B s = some (s', k) →
      ∃ st', makeRng cfg (scopeG B rel π) s st = .ok (keyAt cfg.sep k rel (c π s' + 1), st') ∧
        Rep B st' (bump c π s') ∧ Mono st st') := by
  constructor
  · intro h
    unfold makeRng
    rw [effName_scopeG, h]
    rfl
  · intro s' k h
    have hk := effOf_find cfg B s s' k h
    obtain ⟨d, hd⟩ := Option.isSome_iff_exists.mp hhas
    have hds := (hrep π).1 d hd
    have hcs : find? s' d = some (c π s') := by rw [hds s', hk]; rfl
    unfold makeRng
    rw [effName_scopeG, h]
    simp only [bind, Except.bind, scopeG, hd, find?_seedRngs, hk, Option.map, hcs]
    refine ⟨{ st with dicts := set ((0 : Nat), π) (set s' (c π s' + 1) d) st.dicts }, ?_, ?_, ?_⟩
    · simp only [LazyRng.asJaxRng, LazyRng.create, foldInStatic_suffixOf]
    · intro π'
      by_cases hp : π' = π
      · subst hp
        simp only [find?_set_self]
        refine ⟨?_, by simp⟩
        intro d' hd' t
        have : d' = set s' (c π' s' + 1) d := by simpa using hd'.symm
        subst this
        by_cases ht : t = s'
        · subst ht
          rw [find?_set_self, hk]
          simp [bump]
        · rw [find?_set_ne _ _ _ _ ht, hds t]
          simp [bump, ht]
      · have hne : ((0 : Nat), π') ≠ ((0 : Nat), π) := by
          intro e; exact hp (Prod.mk.inj e).2
        simp only [find?_set_ne _ _ _ _ hne]
        have := hrep π'
        simpa [bump, hp] using this
    · intro cref hc
      by_cases hcr : cref = ((0 : Nat), π)
      · subst hcr; simp [find?_set_self]
      · simpa [find?_set_ne _ _ _ _ hcr] using hc

theorem filterMap_congr' {α β : Type} (f g : α → Option β) : ∀ (l : List α), (∀ x ∈ l, f x = g x) →
    l.filterMap f = l.filterMap g := by
  intro l
  induction l with
  | nil => intro _; rfl
  | cons a l ih =>
    intro h
    simp only [List.filterMap_cons, h a (by simp)]
    rw [ih (fun x hx => h x (List.mem_cons_of_mem _ hx))]

theorem find?_isSome_of_mem_names (B : List (String × SymKey)) (n : String) (hn : n ∈ B.map (·.1)) :
    (find? n B).isSome := by
  induction B with
  | nil => simp at hn
  | cons a l ih =>
    obtain ⟨n', b'⟩ := a
    by_cases h : n' = n
    · simp [find?_cons, h]
    · simp only [List.map_cons, List.mem_cons] at hn
      rcases hn with hn | hn
      · exact absurd hn.symm h
      · simp only [find?_cons, h, if_false]
        exact ih hn

theorem effOf_self (cfg : Cfg) (B : List (String × SymKey)) (n : String) (b : SymKey) (h : find? n B = some b) :
    effOf cfg B n = some (n, b) := by
  simp [effOf, h]

/-- the loop of `fork_rngs` over a duplicate-free list of existing stream names -/
theorem forkLoop_scopeG (cfg : Cfg) (B : List (String × SymKey)) (rel π : Path) :
    ∀ (ns : List String), ns.Nodup → (∀ n ∈ ns, (find? n B).isSome) → ∀ (st : Store) (c : Counts), Rep B st c →
      (find? ((0 : Nat), π) st.dicts).isSome →
      ∃ st', forkLoop cfg (scopeG B rel π) ns st =
          .ok (ns.filterMap (fun n => (find? n B).map (fun b => (n, ({ base := keyAt cfg.sep b rel (c π n + 1), suffix := [] } : LazyRng)))), st') ∧
        Rep B st' (bumpAll c π ns) ∧ Mono st st' := by
  intro ns
  induction ns with
  | nil =>
    intro _ _ st c hrep _
    refine ⟨st, rfl, ?_, Mono.refl st⟩
    have : bumpAll c π [] = c := by funext π' t; simp [bumpAll]
    rw [this]; exact hrep
  | cons n ns ih =>
    intro hnd hex st c hrep hhas
    simp only [List.nodup_cons] at hnd
    obtain ⟨b, hb⟩ := Option.isSome_iff_exists.mp (hex n (by simp))
    obtain ⟨_, hm⟩ := makeRng_scopeG cfg B rel π n st c hrep hhas
    obtain ⟨st1, hrun1, hrep1, hmono1⟩ := hm n b (effOf_self cfg B n b hb)
    obtain ⟨st2, hrun2, hrep2, hmono2⟩ := ih hnd.2 (fun m hm => hex m (List.mem_cons_of_mem _ hm)) st1 (bump c π n) hrep1 (hmono1 _ hhas)
    refine ⟨st2, ?_, ?_, hmono1.trans hmono2⟩
    · have hfm := filterMap_congr'
        (fun m => (find? m B).map (fun b => (m, ({ base := keyAt cfg.sep b rel (bump c π n π m + 1), suffix := [] } : LazyRng))))
        (fun m => (find? m B).map (fun b => (m, ({ base := keyAt cfg.sep b rel (c π m + 1), suffix := [] } : LazyRng)))) ns
        (by
          intro m hm
          have hne : m ≠ n := fun e => hnd.1 (e ▸ hm)
          simp [bump, hne])
      rw [hfm] at hrun2
      simp only [forkLoop, hrun1, bind, Except.bind, hrun2, List.filterMap_cons, hb, Option.map]
    · have : bumpAll (bump c π n) π ns = bumpAll c π (n :: ns) := by
        funext π' t
        simp only [bumpAll, bump, List.mem_cons]
        by_cases hp : π' = π
        · by_cases ht : t = n
          · subst ht
            have : ¬ t ∈ ns := hnd.1
            simp [hp, this]
          · simp [hp, ht]
        · simp [hp]
      rw [← this]; exact hrep2

theorem filterMap_find_self (f : String → SymKey → String × LazyRng) :
    ∀ (B : List (String × SymKey)), (B.map (·.1)).Nodup →
      (B.map (·.1)).filterMap (fun n => (find? n B).map (fun b => f n b)) = B.map (fun nb => f nb.1 nb.2) := by
  intro B
  induction B with
  | nil => intro _; rfl
  | cons a l ih =>
    intro hnd
    obtain ⟨n, b⟩ := a
    simp only [List.map_cons, List.nodup_cons] at hnd
    have hfm := filterMap_congr'
      (fun m => (find? m ((n, b) :: l)).map (fun b' => f m b'))
      (fun m => (find? m l).map (fun b' => f m b')) (l.map (·.1))
      (by
        intro m hm
        have hne : n ≠ m := fun e => hnd.1 (e ▸ hm)
        simp [find?_cons, hne])
    have hhead : find? n ((n, b) :: l) = some b := by simp [find?_cons]
    simp only [List.map_cons, List.filterMap_cons, hhead, Option.map_some]
    rw [hfm, ih hnd.2]

theorem forkRngs_scopeG (cfg : Cfg) (B : List (String × SymKey)) (hnd : (B.map (·.1)).Nodup) (rel π : Path)
    (st : Store) (c : Counts) (hrep : Rep B st c) (hhas : (find? ((0 : Nat), π) st.dicts).isSome) :
    ∃ st', forkRngs cfg (scopeG B rel π) st = .ok (scopeG (forkBases cfg.sep B rel π c) [] π, st') ∧
      Rep B st' (bumpAll c π (B.map (·.1))) ∧ Mono st st' := by
  have hnames : (scopeG B rel π).rngs.map (·.1) = B.map (·.1) := by
    simp [scopeG, seedRngs, List.map_map, Function.comp_def]
  have hex : ∀ n ∈ B.map (·.1), (find? n B).isSome := find?_isSome_of_mem_names B
  obtain ⟨st', hrun, hrep', hmono⟩ := forkLoop_scopeG cfg B rel π (B.map (·.1)) hnd hex st c hrep hhas
  refine ⟨st', ?_, hrep', hmono⟩
  unfold forkRngs
  rw [hnames, hrun]
  simp only [bind, Except.bind]
  rw [filterMap_find_self (fun n b => (n, ({ base := keyAt cfg.sep b rel (c π n + 1), suffix := [] } : LazyRng))) B hnd]
  simp [scopeG, seedRngs, forkBases, List.map_map, Function.comp_def]

/-- **Refinement, `nn.jit` included.** -/
theorem runProg_specProg (cfg : Cfg) :
    ∀ (p : Prog) (B : List (String × SymKey)), (B.map (·.1)).Nodup → ∀ (rel π : Path) (st : Store) (c : Counts),
      Rep B st c → (find? ((0 : Nat), π) st.dicts).isSome →
      (∀ e, specProg cfg p B rel π c = .error e → runProg cfg p (scopeG B rel π) st = .error e) ∧
      (∀ ks c', specProg cfg p B rel π c = .ok (ks, c') →
        ∃ st', runProg cfg p (scopeG B rel π) st = .ok (ks, st') ∧ Rep B st' c' ∧ Mono st st') := by
  intro p
  induction p with
  | done =>
    intro B _ rel π st c hrep _
    refine ⟨?_, ?_⟩
    · intro e h; simp [specProg] at h
    · intro ks c' h
      simp only [specProg, Except.ok.injEq, Prod.mk.injEq] at h
      obtain ⟨rfl, rfl⟩ := h
      exact ⟨st, rfl, hrep, Mono.refl st⟩
  | draw s rest ih =>
    intro B hnd rel π st c hrep hhas
    obtain ⟨hm1, hm2⟩ := makeRng_scopeG cfg B rel π s st c hrep hhas
    simp only [specProg, runProg]
    cases he : effOf cfg B s with
    | none =>
      refine ⟨?_, ?_⟩
      · intro e h
        simp only [] at h
        cases h
        rw [hm1 he]; rfl
      · intro ks c' h; simp at h
    | some sk =>
      obtain ⟨s', k⟩ := sk
      obtain ⟨st1, hrun1, hrep1, hmono1⟩ := hm2 s' k he
      obtain ⟨ih1, ih2⟩ := ih B hnd rel π st1 (bump c π s') hrep1 (hmono1 _ hhas)
      simp only [hrun1, bind, Except.bind]
      cases hs : specProg cfg rest B rel π (bump c π s') with
      | error e =>
        refine ⟨?_, ?_⟩
        · intro e' h
          simp only [] at h
          cases h
          rw [ih1 e hs]
        · intro ks c' h; simp at h
      | ok r =>
        obtain ⟨ks1, c1⟩ := r
        obtain ⟨st2, hrun2, hrep2, hmono2⟩ := ih2 ks1 c1 hs
        refine ⟨?_, ?_⟩
        · intro e' h; simp at h
        · intro ks c' h
          simp only [Except.ok.injEq, Prod.mk.injEq] at h
          obtain ⟨rfl, rfl⟩ := h
          exact ⟨st2, by rw [hrun2], hrep2, hmono1.trans hmono2⟩
  | sub n body rest ihb ihr =>
    intro B hnd rel π st c hrep hhas
    obtain ⟨st1, hpush, hrep1, hmono1, hhasc⟩ := push_scopeG B rel π n st c hrep
    obtain ⟨ihb1, ihb2⟩ := ihb B hnd (rel ++ [n]) (π ++ [n]) st1 c hrep1 hhasc
    simp only [specProg, runProg, hpush]
    cases hs1 : specProg cfg body B (rel ++ [n]) (π ++ [n]) c with
    | error e =>
      refine ⟨?_, ?_⟩
      · intro e' h
        simp only [] at h
        cases h
        simp only [bind, Except.bind, ihb1 e hs1]
      · intro ks c' h; simp at h
    | ok r =>
      obtain ⟨ks1, c1⟩ := r
      obtain ⟨st2, hrun2, hrep2, hmono2⟩ := ihb2 ks1 c1 hs1
      obtain ⟨ihr1, ihr2⟩ := ihr B hnd rel π st2 c1 hrep2 (hmono2 _ (hmono1 _ hhas))
      simp only [bind, Except.bind, hrun2]
      cases hs2 : specProg cfg rest B rel π c1 with
      | error e =>
        refine ⟨?_, ?_⟩
        · intro e' h
          simp only [] at h
          cases h
          rw [ihr1 e hs2]
        · intro ks c' h; simp at h
      | ok r2 =>
        obtain ⟨ks2, c2⟩ := r2
        obtain ⟨st3, hrun3, hrep3, hmono3⟩ := ihr2 ks2 c2 hs2
        refine ⟨?_, ?_⟩
        · intro e' h; simp at h
        · intro ks c' h
          simp only [Except.ok.injEq, Prod.mk.injEq] at h
          obtain ⟨rfl, rfl⟩ := h
          exact ⟨st3, by rw [hrun3], hrep3, (hmono1.trans hmono2).trans hmono3⟩
  | jit body rest ihb ihr =>
    intro B hnd rel π st c hrep hhas
    obtain ⟨st1, hfork, hrep1, hmono1⟩ := forkRngs_scopeG cfg B hnd rel π st c hrep hhas
    have hsn := sameNames_forkBases cfg.sep B rel π c
    have hnd' : ((forkBases cfg.sep B rel π c).map (·.1)).Nodup := by rw [forkBases_names]; exact hnd
    have hrep1' : Rep (forkBases cfg.sep B rel π c) st1 (bumpAll c π (B.map (·.1))) := rep_sameNames hsn st1 _ hrep1
    obtain ⟨ihb1, ihb2⟩ := ihb (forkBases cfg.sep B rel π c) hnd' [] π st1 _ hrep1' (hmono1 _ hhas)
    simp only [specProg, runProg, hfork, bind, Except.bind]
    cases hs1 : specProg cfg body (forkBases cfg.sep B rel π c) [] π (bumpAll c π (B.map (·.1))) with
    | error e =>
      refine ⟨?_, ?_⟩
      · intro e' h
        simp only [] at h
        cases h
        simp only [ihb1 e hs1]
      · intro ks c' h; simp at h
    | ok r =>
      obtain ⟨ks1, c1⟩ := r
      obtain ⟨st2, hrun2, hrep2, hmono2⟩ := ihb2 ks1 c1 hs1
      have hrep2' : Rep B st2 c1 := rep_sameNames (fun s => (hsn s).symm) st2 c1 hrep2
      obtain ⟨ihr1, ihr2⟩ := ihr B hnd rel π st2 c1 hrep2' (hmono2 _ (hmono1 _ hhas))
      simp only [hrun2]
      cases hs2 : specProg cfg rest B rel π c1 with
      | error e =>
        refine ⟨?_, ?_⟩
        · intro e' h
          simp only [] at h
          cases h
          rw [ihr1 e hs2]
        · intro ks c' h; simp at h
      | ok r2 =>
        obtain ⟨ks2, c2⟩ := r2
        obtain ⟨st3, hrun3, hrep3, hmono3⟩ := ihr2 ks2 c2 hs2
        refine ⟨?_, ?_⟩
        · intro e' h; simp at h
        · intro ks c' h
          simp only [Except.ok.injEq, Prod.mk.injEq] at h
          obtain ⟨rfl, rfl⟩ := h
          exact ⟨st3, by rw [hrun3], hrep3, (hmono1.trans hmono2).trans hmono3⟩

theorem runTop_specProg (cfg : Cfg) (seeds : List (String × SymKey)) (hnd : (seeds.map (·.1)).Nodup) (p : Prog) :
    runTop cfg seeds p = (specProg cfg p seeds [] [] (fun _ _ => 0)).map (·.1) := by
  unfold runTop
  rw [bindRoot_eq, scopeAt_eq_scopeG]
  simp only []
  obtain ⟨h1, h2⟩ := runProg_specProg cfg p seeds hnd [] [] _ (fun _ _ => 0) (rep_init seeds) (by simp [find?_cons])
  cases hs : specProg cfg p seeds [] [] (fun _ _ => 0) with
  | error e => rw [h1 e hs]; rfl
  | ok r =>
    obtain ⟨ks, c'⟩ := r
    obtain ⟨st', hrun, _, _⟩ := h2 ks c' hs
    rw [hrun]; rfl

end Flax.Rng
