/- C06 helper lemmas: grouping by filters (`group_collections`), `repack_fn`, inner mutability -/
import Flax.Model.LiftLoop
import Flax.Proofs.LiftLoopSpec
import Flax.Props.C14

set_option linter.unusedSimpArgs false

namespace Flax.LiftLoop
open Flax.Filter

theorem firstIdx_cons_zero (f : LFilter) (fs : List LFilter) (c : String) :
    (firstIdx (f :: fs) c = some 0) = (inFilter f c = true) := by
  simp only [firstIdx]
  by_cases h : inFilter f c = true
  · simp [h]
  · simp only [h, if_false]
    cases firstIdx fs c <;> simp

theorem firstIdx_cons_succ (f : LFilter) (fs : List LFilter) (c : String) (g : Nat) :
    (firstIdx (f :: fs) c = some (g + 1)) = (inFilter f c = false ∧ firstIdx fs c = some g) := by
  simp only [firstIdx]
  by_cases h : inFilter f c = true
  · simp [h]
  · simp only [h, if_false]
    cases firstIdx fs c <;> simp [h]

/-- **`group_collections` puts every key into the group of its first matching filter** (and nowhere else) -/
theorem groupDict_eq {β : Type} : ∀ (fs : List LFilter) (d : List (String × β)),
    groupDict d fs = (List.range fs.length).map (roleGroup d fs) := by
  intro fs
  induction fs with
  | nil => intro d; rfl
  | cons f fs ih =>
    intro d
    simp only [groupDict, List.length_cons, List.range_succ_eq_map, List.map_cons, List.map_map]
    congr 1
    · simp only [roleGroup, firstIdx_cons_zero]
      apply List.filter_congr
      intro kv _
      cases inFilter f kv.1 <;> simp
    · rw [ih]
      apply List.map_congr_left
      intro g _
      simp only [Function.comp, roleGroup, List.filter_filter, firstIdx_cons_succ]
      apply List.filter_congr
      intro kv _
      cases inFilter f kv.1 <;> simp

theorem groupDict_length {β : Type} (fs : List LFilter) (d : List (String × β)) :
    (groupDict d fs).length = fs.length := by simp [groupDict_eq]

theorem groupDict_getD {β : Type} (fs : List LFilter) (d : List (String × β)) (g : Nat) (h : g < fs.length) :
    (groupDict d fs).getD g [] = roleGroup d fs g := by
  simp [groupDict_eq, List.getD_eq_getElem?_getD, h]

theorem firstIdx_lt {fs : List LFilter} {c : String} {g : Nat} (h : firstIdx fs c = some g) : g < fs.length := by
  induction fs generalizing g with
  | nil => simp [firstIdx] at h
  | cons f fs ih =>
    simp only [firstIdx] at h
    split at h
    · injection h with h; subst h; simp
    · cases hf : firstIdx fs c with
      | none => simp [hf] at h
      | some k => simp [hf] at h; subst h; have := ih hf; simp; omega

theorem firstIdx_isSome_iff (fs : List LFilter) (c : String) :
    (firstIdx fs c).isSome = fs.any (fun f => inFilter f c) := by
  induction fs with
  | nil => rfl
  | cons f fs ih =>
    simp only [firstIdx, List.any_cons]
    by_cases h : inFilter f c = true
    · simp [h]
    · simp only [h, if_false, Bool.false_or]
      rw [← ih]
      cases firstIdx fs c <;> rfl

theorem in_foldl_union (c : String) : ∀ (fs : List LFilter) (a : LFilter),
    inFilter (fs.foldl union a) c = (inFilter a c || fs.any (fun f => inFilter f c)) := by
  intro fs
  induction fs with
  | nil => intro a; simp
  | cons f fs ih =>
    intro a
    simp only [List.foldl_cons, ih, Flax.C14.in_union, List.any_cons, Bool.or_assoc]

/-- a collection is mutable in the inner scope iff it is mutable outside and some out filter matches it -/
theorem in_innerMutable (m : LFilter) (outFs : List LFilter) (c : String) :
    inFilter (innerMutable m outFs) c = (inFilter m c && outFs.any (fun f => inFilter f c)) := by
  simp only [innerMutable, Flax.C14.in_intersect, in_foldl_union, inFilter]
  simp

theorem groupDict_append_last {β : Type} : ∀ (fs : List LFilter) (f : LFilter) (d : List (String × β)),
    groupDict d (fs ++ [f]) = groupDict d fs ++
      [(d.filter (fun kv => !(fs.any (fun g => inFilter g kv.1)))).filter (fun kv => inFilter f kv.1)] := by
  intro fs
  induction fs with
  | nil => intro f d; simp [groupDict]
  | cons g fs ih =>
    intro f d
    simp only [List.cons_append, groupDict, ih, List.any_cons, List.filter_filter]
    congr 3
    apply List.filter_congr
    intro kv _
    cases inFilter g kv.1 <;> simp

/-- `repack_fn` never finds unmapped collections in a scope built by `scope_fn`: its groups are the
mutable collections sorted by first matching out filter -/
theorem repack_eq {α : Type} (m : LFilter) (outFs : List LFilter) (vars' : Vars α) :
    repack (innerMutable m outFs) outFs vars' =
      .ok ((List.range outFs.length).map
        (roleGroup (vars'.filter (fun kv => inFilter (innerMutable m outFs) kv.1)) outFs)) := by
  simp only [repack, groupDict_append_last]
  have hempty : ((vars'.filter (fun kv => inFilter (innerMutable m outFs) kv.1)).filter
      (fun kv => !(outFs.any (fun g => inFilter g kv.1)))).filter (fun kv => inFilter .tt kv.1) = [] := by
    simp only [List.filter_filter, List.filter_eq_nil_iff]
    intro kv _
    simp only [in_innerMutable, inFilter]
    cases inFilter m kv.1 <;> cases outFs.any (fun g => inFilter g kv.1) <;> simp
  rw [hempty]
  simp [groupDict_eq]

end Flax.LiftLoop
