/- C08 proofs: putting the per-index states of one graph node together (`vmapCollectStates`) is, Variable by Variable,
`collectVal` of its per-index values -/
import Flax.Proofs.NnxLoopSpec

namespace Flax.NnxLoop
open Flax.Filter Flax.LiftLoop

/-- two traversals that agree position by position -/
theorem mapX_pointwise {β γ δ : Type} {f : β → Except Err δ} {g : γ → Except Err δ} : ∀ (l1 : List β) (l2 : List γ),
    l1.length = l2.length →
    (∀ i (h1 : i < l1.length) (h2 : i < l2.length), f l1[i] = g l2[i]) → mapX f l1 = mapX g l2 := by
  intro l1
  induction l1 with
  | nil => intro l2 hl _; cases l2 with | nil => rfl | cons _ _ => simp at hl
  | cons x xs ih =>
    intro l2 hl h
    cases l2 with
    | nil => simp at hl
    | cons y ys =>
      simp only [mapX]
      have h0 := h 0 (by simp) (by simp)
      simp only [List.getElem_cons_zero] at h0
      rw [h0, ih ys (by simpa using hl) (fun i h1 h2 => by
        have := h (i + 1) (by simp; omega) (by simp; omega)
        simpa using this)]

theorem mapX_ok_of_forall {β γ : Type} {f : β → Except Err γ} : ∀ (l : List β),
    (∀ x ∈ l, ∃ y, f x = .ok y) → ∃ r, mapX f l = .ok r := by
  intro l
  induction l with
  | nil => intro _; exact ⟨[], rfl⟩
  | cons x xs ih =>
    intro h
    obtain ⟨y, hy⟩ := h x (by simp)
    obtain ⟨ys, hys⟩ := ih (fun z hz => h z (by simp [hz]))
    exact ⟨y :: ys, mapX_cons_of_ok hy hys⟩

/-- `column g rows`: entry `i` is `rows[i][g]` -/
theorem column_ok {β : Type} {g : Nat} {rows : List (List β)} {col : List β} (h : column g rows = .ok col) :
    col.length = rows.length ∧ ∀ i (h1 : i < rows.length) (h2 : i < col.length), rows[i][g]? = some col[i] := by
  refine ⟨mapX_length h, ?_⟩
  intro i h1 h2
  have := mapX_ok_getElem h i h1 h2
  simp only [pickX] at this
  cases hr : rows[i][g]? with
  | none => simp [hr] at this
  | some a => simp only [hr] at this; injection this with this; rw [this]

/-- the value at a path of a flat node with distinct paths -/
theorem valAt_of_mem {α : Type} {fl : Flat α} (hnd : (fl.map (·.1)).Nodup) {x : Path × VarInfo × Arr α} (hx : x ∈ fl) :
    valAt fl x.1 = .ok x.2.2 := by
  have : (fl.map (fun x => (x.1, x.2.2))).lookup x.1 = some x.2.2 := by
    apply lookup_of_mem_unique (k := x.1) (v := x.2.2)
      (l := fl.map (fun x => (x.1, x.2.2))) (List.mem_map.2 ⟨x, hx, rfl⟩)
    intro v' hv'
    obtain ⟨y, hy, he⟩ := List.mem_map.1 hv'
    injection he with hk hv
    have : y.2 = x.2 := nodup_keys_unique (l := fl) hnd (by rw [Prod.eta]; exact hy) (by rw [hk, Prod.eta]; exact hx)
    rw [← hv, this]
  simp [valAt, this]

/-- per index: in the states of a split, the state of an item's group holds the item's value at its path -/
theorem row_lookup {α : Type} {p : Prefix} {fl : Flat α} {row : List (State α)} (hs : splitFlat p fl = .ok row)
    (hnd : (fl.map (·.1)).Nodup) {x : Path × VarInfo × Arr α} (hx : x ∈ fl) :
    ∃ s, row[groupIdx p x.1 x.2.1]? = some s ∧ s.lookup x.1 = some x.2.2 ∧
      ∀ kv ∈ s, ∃ y ∈ fl, kv = (y.1, y.2.2) ∧ groupIdx p y.1 y.2.1 = groupIdx p x.1 x.2.1 := by
  obtain ⟨_, hmem, hlt⟩ := splitFlat_spec hs
  have hg := hlt x hx
  refine ⟨row[groupIdx p x.1 x.2.1], List.getElem?_eq_getElem hg, ?_, ?_⟩
  · apply lookup_of_mem_unique ((hmem _ _ (List.getElem?_eq_getElem hg) _).2 ⟨x, hx, rfl, rfl⟩)
    intro v' hv'
    obtain ⟨y, hy, he, _⟩ := (hmem _ _ (List.getElem?_eq_getElem hg) _).1 hv'
    injection he with hk hv
    have : x.2 = y.2 := nodup_keys_unique (l := fl) hnd (by rw [Prod.eta]; exact hx) (by rw [hk, Prod.eta]; exact hy)
    rw [hv, this]
  · intro kv hkv
    exact (hmem _ _ (List.getElem?_eq_getElem hg) kv).1 hkv

/-- the element of a flat node with given path and info, when all nodes have the same keys -/
theorem mem_of_keys {α : Type} {fl fl0 : Flat α}
    (hk : fl.map (fun x => (x.1, x.2.1)) = fl0.map (fun x => (x.1, x.2.1))) {x : Path × VarInfo × Arr α}
    (hx : x ∈ fl0) : ∃ y ∈ fl, y.1 = x.1 ∧ y.2.1 = x.2.1 := by
  have : (x.1, x.2.1) ∈ fl.map (fun x => (x.1, x.2.1)) := by rw [hk]; exact List.mem_map.2 ⟨x, hx, rfl⟩
  obtain ⟨y, hy, he⟩ := List.mem_map.1 this
  injection he with h1 h2
  exact ⟨y, hy, h1, h2⟩

theorem keys_paths {α : Type} {fl fl0 : Flat α}
    (hk : fl.map (fun x => (x.1, x.2.1)) = fl0.map (fun x => (x.1, x.2.1))) : fl.map (·.1) = fl0.map (·.1) := by
  have := congrArg (List.map (·.1)) hk
  simpa [List.map_map, Function.comp_def] using this

section collect
variable {α : Type}

/-- the per-index values of the leaf at `x.1`, read through the states of group `g` -/
theorem column_values {p : Prefix} {n0 : Flat α} {flats : List (Flat α)} {rows : List (List (State α))}
    (hnd : (n0.map (·.1)).Nodup)
    (hkeys : ∀ fl ∈ flats, fl.map (fun x => (x.1, x.2.1)) = n0.map (fun x => (x.1, x.2.1)))
    (hrows : mapX (splitFlat p) flats = .ok rows) {x : Path × VarInfo × Arr α} (hx : x ∈ n0)
    {col : List (State α)} (hcol : column (groupIdx p x.1 x.2.1) rows = .ok col) :
    mapX (fun (s : State α) => match s.lookup x.1 with
        | some a => Except.ok a
        | none => .error (.lax .stackMismatch)) col =
      mapX (fun fl => valAt fl x.1) flats ∧
    ∃ vs, mapX (fun fl => valAt fl x.1) flats = .ok vs := by
  obtain ⟨hcl, hce⟩ := column_ok hcol
  have hrl := mapX_length hrows
  have hpt : ∀ i (h1 : i < col.length) (h2 : i < flats.length),
      ∃ v, (match col[i].lookup x.1 with
        | some a => (Except.ok a : Except Err (Arr α))
        | none => .error (.lax .stackMismatch)) = .ok v ∧ valAt flats[i] x.1 = .ok v := by
    intro i h1 h2
    have hfl : flats[i] ∈ flats := List.getElem_mem _
    obtain ⟨y, hy, hy1, hy2⟩ := mem_of_keys (hkeys _ hfl) hx
    have hndi : (flats[i].map (·.1)).Nodup := by rw [keys_paths (hkeys _ hfl)]; exact hnd
    have hsp := mapX_ok_getElem hrows i h2 (by omega)
    obtain ⟨s, hs, hl, _⟩ := row_lookup hsp hndi hy
    rw [hy1, hy2] at hs
    have := hce i (by omega) h1
    rw [hs] at this
    injection this with this
    subst this
    rw [hy1] at hl
    refine ⟨y.2.2, by simp [hl], ?_⟩
    have := valAt_of_mem hndi hy
    rw [hy1] at this
    exact this
  constructor
  · apply mapX_pointwise _ _ (by omega)
    intro i h1 h2
    obtain ⟨v, e1, e2⟩ := hpt i h1 h2
    rw [e1, e2]
  · have : ∀ fl ∈ flats, ∃ v, valAt fl x.1 = .ok v := by
      intro fl hfl
      obtain ⟨i, hi, rfl⟩ := List.getElem_of_mem hfl
      obtain ⟨v, _, e2⟩ := hpt i (by omega) hi
      exact ⟨v, e2⟩
    exact mapX_ok_of_forall _ this

end collect

section collect2
variable {α : Type} [Inhabited α]

/-- what `vmapCollectStates` does state by state -/
theorem vmapCollectStates_ok {axes : List Ax} {rows : List (List (State α))} {cs : List (State α)}
    (h : vmapCollectStates axes rows = .ok cs) :
    cs.length = axes.length ∧
    ∀ (g : Nat) (a : Ax), axes[g]? = some a →
      ∃ col c, column g rows = .ok col ∧ vmapCollectState col a = .ok c ∧ cs[g]? = some c := by
  have hl := mapX_length h
  simp only [List.length_zip, List.length_range, Nat.min_self] at hl
  refine ⟨hl, ?_⟩
  intro g a ha
  have hg : g < axes.length := (List.getElem?_eq_some_iff.1 ha).1
  have hz : g < ((List.range axes.length).zip axes).length := by simp [List.length_zip]; exact hg
  have := mapX_ok_getElem h g hz (by omega)
  have he : ((List.range axes.length).zip axes)[g] = (g, a) := by
    have h1 : ((List.range axes.length).zip axes)[g]? = some (g, a) :=
      List.getElem?_zip_eq_some.2 ⟨List.getElem?_range hg, ha⟩
    rw [List.getElem?_eq_getElem hz] at h1
    exact Option.some.inj h1
  rw [he] at this
  simp only [] at this
  cases hc : column g rows with
  | error e => simp [hc] at this
  | ok col =>
    simp only [hc] at this
    exact ⟨col, cs[g]'(by omega), rfl, this, List.getElem?_eq_getElem (by omega)⟩

/-- **core lemma 2.**  The per-index flat states `n0 :: rest` of one graph node (same paths and types at every index,
distinct paths) are each split by the prefix, the states are put together group by group (`vmapCollectStates`:
`jnp.stack` along the group's axis leaf by leaf, or the index-0 state for `None`), and concatenated: the path of a
Variable now leads to `collectVal axis [value at index 0, value at index 1, …]`. -/
theorem vmap_collect_lookup {p : Prefix} {n0 : Flat α} {rest : List (Flat α)} {rows : List (List (State α))}
    {cs : List (State α)} (hnd : (n0.map (·.1)).Nodup)
    (hkeys : ∀ fl ∈ n0 :: rest, fl.map (fun x => (x.1, x.2.1)) = n0.map (fun x => (x.1, x.2.1)))
    (hrows : mapX (splitFlat p) (n0 :: rest) = .ok rows) (hc : vmapCollectStates p.axes rows = .ok cs) :
    ∀ x ∈ n0, ∃ a vs v, axAt p x.1 x.2.1 = some a ∧ mapX (fun fl => valAt fl x.1) (n0 :: rest) = .ok vs ∧
      collectVal a vs = .ok v ∧ cs.flatten.lookup x.1 = some v := by
  obtain ⟨row0, rowsR, hrow0, _, rfl⟩ := mapX_cons_ok hrows
  obtain ⟨hlen0, hmem0, hlt0⟩ := splitFlat_spec hrow0
  obtain ⟨hcl, hcg⟩ := vmapCollectStates_ok hc
  -- per item: its collected value is in the collected state of its group, and is the only value at its path there
  have item : ∀ y ∈ n0, ∃ a vs v col c, axAt p y.1 y.2.1 = some a ∧
      mapX (fun fl => valAt fl y.1) (n0 :: rest) = .ok vs ∧ collectVal a vs = .ok v ∧
      column (groupIdx p y.1 y.2.1) (row0 :: rowsR) = .ok col ∧ vmapCollectState col a = .ok c ∧
      cs[groupIdx p y.1 y.2.1]? = some c ∧ (y.1, v) ∈ c ∧
      (∀ kb ∈ c, (∃ z ∈ n0, groupIdx p z.1 z.2.1 = groupIdx p y.1 y.2.1 ∧ kb.1 = z.1) ∧ (kb.1 = y.1 → kb.2 = v)) := by
    intro y hy
    have hg := hlt0 y hy
    have hga : groupIdx p y.1 y.2.1 < p.axes.length := by omega
    obtain ⟨col, c, hcol, hcs, hcg'⟩ := hcg _ _ (List.getElem?_eq_getElem hga)
    obtain ⟨hcv, vs, hvs⟩ := column_values hnd hkeys hrows hy hcol
    -- the column starts with the index-0 state of the group
    obtain ⟨hcoll, hcole⟩ := column_ok hcol
    have hc0 : col = row0[groupIdx p y.1 y.2.1] :: col.tail := by
      cases col with
      | nil => simp at hcoll
      | cons s0 t =>
        have := hcole 0 (by simp) (by simp)
        simp only [List.getElem_cons_zero, List.getElem?_eq_getElem hg, Option.some.injEq] at this
        rw [this]; rfl
    -- the per-index values start with the index-0 value
    have hv0 : vs = y.2.2 :: vs.tail := by
      obtain ⟨v0, vt, h0, _, rfl⟩ := mapX_cons_ok hvs
      rw [valAt_of_mem hnd hy] at h0
      injection h0 with h0
      rw [h0]; rfl
    have hin0 : (y.1, y.2.2) ∈ row0[groupIdx p y.1 y.2.1] :=
      (hmem0 _ _ (List.getElem?_eq_getElem hg) _).2 ⟨y, hy, rfl, rfl⟩
    have hs0mem : ∀ pv ∈ row0[groupIdx p y.1 y.2.1], ∃ z ∈ n0, pv = (z.1, z.2.2) ∧
        groupIdx p z.1 z.2.1 = groupIdx p y.1 y.2.1 :=
      fun pv hpv => (hmem0 _ _ (List.getElem?_eq_getElem hg) pv).1 hpv
    have huniq : ∀ pv ∈ row0[groupIdx p y.1 y.2.1], pv.1 = y.1 → pv = (y.1, y.2.2) := by
      intro pv hpv hk
      obtain ⟨z, hz, he, _⟩ := hs0mem pv hpv
      subst he
      have : z.2 = y.2 := nodup_keys_unique (l := n0) hnd (by rw [Prod.eta]; exact hz)
        (by simp only [] at hk; rw [hk, Prod.eta]; exact hy)
      simp only [] at hk
      rw [hk, this]
    cases ha : p.axes[groupIdx p y.1 y.2.1] with
    | carry =>
      rw [ha] at hcs
      simp [vmapCollectState] at hcs
    | bcast =>
      rw [ha] at hcs
      have hcsB := hcs
      rw [hc0] at hcs
      simp only [vmapCollectState] at hcs
      injection hcs with hcs
      refine ⟨.bcast, vs, y.2.2, col, c, ?_, hvs, ?_, hcol, hcsB, hcg',
        by rw [← hcs]; exact hin0, ?_⟩
      · simp [axAt, List.getElem?_eq_getElem hga, ha]
      · rw [hv0]; rfl
      · intro kb hkb
        rw [← hcs] at hkb
        refine ⟨?_, fun hk => by rw [huniq kb hkb hk]⟩
        obtain ⟨z, hz, he, hgz⟩ := hs0mem kb hkb
        exact ⟨z, hz, hgz, by rw [he]⟩
    | axis k =>
      rw [ha] at hcs
      have hcs' := hcs
      rw [hc0] at hcs'
      simp only [vmapCollectState, stackStates] at hcs'
      rw [← hc0] at hcs'
      -- the function applied to every leaf of the index-0 state
      have hF : ∀ pv ∈ row0[groupIdx p y.1 y.2.1], pv.1 = y.1 → ∀ r,
          (match mapX (fun (s : State α) => match s.lookup pv.1 with
              | some a => Except.ok a
              | none => .error (.lax .stackMismatch)) col with
            | .error e => Except.error e
            | .ok ls =>
              match liftL (stackAt k pv.2.shape ls) with
              | .error e => .error e
              | .ok a => .ok (pv.1, a)) = .ok r →
          ∃ v, collectVal (.axis k) vs = .ok v ∧ r = (y.1, v) := by
        intro pv hpv hk r hr
        rw [huniq pv hpv hk] at hr
        simp only [] at hr
        rw [hcv, hvs] at hr
        simp only [] at hr
        cases hst : liftL (stackAt k y.2.2.shape vs) with
        | error e => rw [hst] at hr; cases hr
        | ok v =>
          rw [hst] at hr
          injection hr with hr
          refine ⟨v, ?_, hr.symm⟩
          rw [hv0]
          simp only [collectVal]
          rw [← hv0]; exact hst
      obtain ⟨r, hr, hrm⟩ := mapX_ok_mem hcs' _ hin0
      obtain ⟨v, hv, hrv⟩ := hF _ hin0 rfl r hr
      refine ⟨.axis k, vs, v, col, c, ?_, hvs, hv, hcol, hcs, hcg', hrv ▸ hrm, ?_⟩
      · simp [axAt, List.getElem?_eq_getElem hga, ha]
      · intro kb hkb
        obtain ⟨pv, hpv, hf⟩ := mapX_ok_mem_rev hcs' kb hkb
        have hk1 : kb.1 = pv.1 := by
          generalize mapX _ col = m at hf
          cases m with
          | error e => simp at hf
          | ok ls =>
            simp only [] at hf
            generalize liftL (stackAt k pv.2.shape ls) = m2 at hf
            cases m2 with
            | error e => simp at hf
            | ok a => simp only [] at hf; injection hf with hf; rw [← hf]
        refine ⟨?_, ?_⟩
        · obtain ⟨z, hz, he, hgz⟩ := hs0mem pv hpv
          exact ⟨z, hz, hgz, by rw [hk1, he]⟩
        · intro hk
          obtain ⟨v', hv', hrv'⟩ := hF pv hpv (by rw [← hk1]; exact hk) kb hf
          rw [hv] at hv'
          injection hv' with hv'
          rw [hrv', hv']
  intro x hx
  obtain ⟨a, vs, v, col, c, ha, hvs, hv, _, _, hcx, hmx, huq⟩ := item x hx
  refine ⟨a, vs, v, ha, hvs, hv, ?_⟩
  apply lookup_of_mem_unique (mem_flatten_states.2 ⟨_, _, hcx, hmx⟩)
  intro v'' hv''
  obtain ⟨g', c', hc', hkb⟩ := mem_flatten_states.1 hv''
  -- the group the pair sits in is the group of some item `z` with the same path: `z = x`
  have hg' : g' < p.axes.length := by
    have := (List.getElem?_eq_some_iff.1 hc').1; omega
  -- find an item of group g'
  have : ∃ z ∈ n0, groupIdx p z.1 z.2.1 = g' ∧ z.1 = x.1 := by
    obtain ⟨col', c'', hcol', hcs'', hc''⟩ := hcg _ _ (List.getElem?_eq_getElem hg')
    rw [hc'] at hc''
    injection hc'' with hc''
    subst hc''
    -- c' is built from the index-0 state of group g'
    obtain ⟨hcoll, hcole⟩ := column_ok hcol'
    have hg0 : g' < row0.length := by omega
    have hc0 : col' = row0[g'] :: col'.tail := by
      cases col' with
      | nil => simp at hcoll
      | cons s0 t =>
        have := hcole 0 (by simp) (by simp)
        simp only [List.getElem_cons_zero, List.getElem?_eq_getElem hg0, Option.some.injEq] at this
        rw [this]; rfl
    have hkeys' : ∃ pv ∈ row0[g'], pv.1 = x.1 := by
      cases ha' : p.axes[g'] with
      | carry => rw [ha'] at hcs''; simp [vmapCollectState] at hcs''
      | bcast =>
        rw [ha', hc0] at hcs''
        simp only [vmapCollectState] at hcs''
        injection hcs'' with hcs''
        rw [← hcs''] at hkb
        exact ⟨_, hkb, rfl⟩
      | axis k =>
        rw [ha', hc0] at hcs''
        simp only [vmapCollectState, stackStates] at hcs''
        obtain ⟨pv, hpv, hf⟩ := mapX_ok_mem_rev hcs'' _ hkb
        refine ⟨pv, hpv, ?_⟩
        generalize mapX _ (row0[g'] :: col'.tail) = m at hf
        cases m with
        | error e => simp at hf
        | ok ls =>
          simp only [] at hf
          generalize liftL (stackAt k pv.2.shape ls) = m2 at hf
          cases m2 with
          | error e => simp at hf
          | ok a => simp only [] at hf; injection hf with hf; exact (Prod.mk.inj hf).1
    obtain ⟨pv, hpv, hk⟩ := hkeys'
    obtain ⟨z, hz, he, hgz⟩ := (hmem0 _ _ (List.getElem?_eq_getElem hg0) pv).1 hpv
    exact ⟨z, hz, hgz, by rw [← hk, he]⟩
  obtain ⟨z, hz, hgz, hzx⟩ := this
  have hzx' : z = x := by
    have : z.2 = x.2 := nodup_keys_unique (l := n0) hnd (by rw [Prod.eta]; exact hz) (by rw [hzx, Prod.eta]; exact hx)
    exact Prod.ext hzx this
  subst hzx'
  rw [hgz] at hcx
  rw [hc'] at hcx
  injection hcx with hcx
  subst hcx
  exact (huq _ hkb).2 rfl

end collect2

end Flax.NnxLoop
