/-
C09: what the static cache key of `nn.jit` must contain.  The keys a jit-ted body hands out depend on the counters of the module's
scope *and of every descendant scope*; two entries that agree on all of them run the body identically, so a trace may be reused.
-/
import Flax.Proofs.RngLinenJit

namespace Flax.Rng

/-- the two counter tables agree on the scope at `π0` and on all its descendants: what `_fingerprint_recursive` puts into the key
(`scope.rng_counters` is the nested dict of the scope's own counters and, under `(child_rng_token, name)`, of all its children) -/
def AgreeBelow (π0 : Path) (c1 c2 : Counts) : Prop := ∀ π' s, π0 <+: π' → c1 π' s = c2 π' s

theorem agree_bump {π0 π : Path} {c1 c2 : Counts} (h : AgreeBelow π0 c1 c2) (s : String) :
    AgreeBelow π0 (bump c1 π s) (bump c2 π s) := by
  intro π' t hp
  simp only [bump]
  rw [h π' t hp]

theorem prefix_snoc {π0 π : Path} (h : π0 <+: π) (n : String) : π0 <+: π ++ [n] :=
  List.IsPrefix.trans h (List.prefix_append π [n])

/-- same key table below the jit-ted scope ⇒ same keys, same failure, and the tables still agree afterwards -/
theorem specProg_agree (cfg : Cfg) (π0 : Path) : ∀ (p : Prog), p.jitFree → ∀ (B : List (String × SymKey)) (rel π : Path)
    (c1 c2 : Counts), AgreeBelow π0 c1 c2 → π0 <+: π →
    (∀ e, specProg cfg p B rel π c1 = .error e → specProg cfg p B rel π c2 = .error e) ∧
    (∀ ks d1, specProg cfg p B rel π c1 = .ok (ks, d1) →
      ∃ d2, specProg cfg p B rel π c2 = .ok (ks, d2) ∧ AgreeBelow π0 d1 d2) := by
  intro p
  induction p with
  | done =>
    intro _ B rel π c1 c2 ha _
    refine ⟨by intro e h; simp [specProg] at h, ?_⟩
    intro ks d1 h
    simp only [specProg, Except.ok.injEq, Prod.mk.injEq] at h
    obtain ⟨rfl, rfl⟩ := h
    exact ⟨c2, rfl, ha⟩
  | draw s rest ih =>
    intro hjf B rel π c1 c2 ha hp
    simp only [specProg]
    cases he : effOf cfg B s with
    | none => exact ⟨by intro e h; exact h, by intro ks d1 h; simp at h⟩
    | some sk =>
      obtain ⟨s', k⟩ := sk
      obtain ⟨i1, i2⟩ := ih hjf B rel π (bump c1 π s') (bump c2 π s') (agree_bump ha s') hp
      simp only []
      have hc : c1 π s' = c2 π s' := ha π s' hp
      cases h1 : specProg cfg rest B rel π (bump c1 π s') with
      | error e =>
        rw [i1 e h1]
        exact ⟨by intro e' h; exact h, by intro ks d1 h; simp at h⟩
      | ok r =>
        obtain ⟨ks1, d1⟩ := r
        obtain ⟨d2, h2, hag⟩ := i2 ks1 d1 h1
        rw [h2]
        refine ⟨by intro e h; simp at h, ?_⟩
        intro ks d h
        simp only [Except.ok.injEq, Prod.mk.injEq] at h
        obtain ⟨rfl, rfl⟩ := h
        exact ⟨d2, by rw [hc], hag⟩
  | sub n body rest ihb ihr =>
    intro hjf B rel π c1 c2 ha hp
    obtain ⟨b1, b2⟩ := ihb hjf.1 B (rel ++ [n]) (π ++ [n]) c1 c2 ha (prefix_snoc hp n)
    simp only [specProg]
    cases h1 : specProg cfg body B (rel ++ [n]) (π ++ [n]) c1 with
    | error e =>
      rw [b1 e h1]
      exact ⟨by intro e' h; exact h, by intro ks d1 h; simp at h⟩
    | ok r =>
      obtain ⟨k1, m1⟩ := r
      obtain ⟨m2, h2, hag⟩ := b2 k1 m1 h1
      rw [h2]
      obtain ⟨r1, r2⟩ := ihr hjf.2 B rel π m1 m2 hag hp
      simp only []
      cases h3 : specProg cfg rest B rel π m1 with
      | error e =>
        rw [r1 e h3]
        exact ⟨by intro e' h; exact h, by intro ks d1 h; simp at h⟩
      | ok r' =>
        obtain ⟨k2, f1⟩ := r'
        obtain ⟨f2, h4, hag2⟩ := r2 k2 f1 h3
        rw [h4]
        refine ⟨by intro e h; simp at h, ?_⟩
        intro ks d h
        simp only [Except.ok.injEq, Prod.mk.injEq] at h
        obtain ⟨rfl, rfl⟩ := h
        exact ⟨f2, rfl, hag2⟩
  | jit body rest _ _ => intro hjf; exact hjf.elim

end Flax.Rng
