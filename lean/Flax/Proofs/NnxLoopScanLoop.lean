/- C08 proofs: `nnx.scan` — the loop: every iteration of `lax.scan(ScanFn, …)` is an iteration of the reference loop,
carry threaded in processing order (either direction), broadcast state constant -/
import Flax.Proofs.NnxLoopScanIter
import Flax.Proofs.NnxLoopVmapTop

namespace Flax.NnxLoop
open Flax.Filter Flax.LiftLoop

section loop
variable {α : Type} [Inhabited α]

/-- slicing keeps graphdefs and prefixes -/
theorem spureAt_skeleton {i : Nat} (st : Store α) : ∀ {pure xs : List (SPure α)},
    mapX (spureAt i) pure = .ok xs → mapX (scanSplitArgOut st) xs = mapX (scanSplitArgOut st) pure := by
  intro pure
  induction pure with
  | nil => intro xs h; simp [mapX] at h; subst h; rfl
  | cons x xs' ih =>
    intro xs h
    obtain ⟨y, ys, hx, hr, rfl⟩ := mapX_cons_ok h
    have hxy : scanSplitArgOut st y = scanSplitArgOut st x := by
      cases x with
      | node g p vec =>
        simp only [spureAt] at hx
        cases hm : mapX (take0State i) vec with
        | error e => simp [hm] at hx
        | ok v => simp only [hm] at hx; injection hx with hx; subst hx; rfl
      | arrX k a =>
        simp only [spureAt] at hx
        cases hm : liftL (a.take 0 i) with
        | error e => simp [hm] at hx
        | ok v => simp only [hm] at hx; injection hx with hx; subst hx; rfl
      | arrCarry a => simp only [spureAt] at hx; injection hx with hx; subst hx; rfl
      | hole => simp only [spureAt] at hx; injection hx with hx; subst hx; rfl
    simp only [mapX, hxy, ih hr]

/-- the carry route does not depend on whether the vectorised states are moved to the front -/
theorem routeStates_car_indep : ∀ {zs : List (Ax × State α)} {vec car bc : List (State α)},
    routeStates true zs = .ok (vec, car, bc) → ∃ vec', routeStates false zs = .ok (vec', car, bc) := by
  intro zs
  induction zs with
  | nil =>
    intro vec car bc h
    simp only [routeStates] at h
    injection h with h
    injection h with h1 h2
    exact ⟨[], by simp [routeStates, h2]⟩
  | cons z zs ih =>
    intro vec car bc h
    obtain ⟨a, s⟩ := z
    simp only [routeStates] at h
    cases hr : routeStates true zs with
    | error e => simp [hr] at h
    | ok r =>
      obtain ⟨vec0, car0, bc0⟩ := r
      simp only [hr] at h
      obtain ⟨v0', h0⟩ := ih hr
      cases a with
      | bcast =>
        simp only [] at h
        injection h with h
        injection h with h1 h2
        exact ⟨v0', by simp only [routeStates, h0]; rw [h2]⟩
      | carry =>
        simp only [] at h
        injection h with h
        injection h with h1 h2
        exact ⟨v0', by simp only [routeStates, h0]; rw [h2]⟩
      | axis k =>
        simp only [if_true] at h
        cases ht : toFrontState k s with
        | error e => simp [ht] at h
        | ok sF =>
          simp only [ht] at h
          injection h with h
          injection h with h1 h2
          exact ⟨s :: v0', by simp only [routeStates, h0]; simp [← h2]⟩

/-- the carry the loop starts from: `carry_deque` after `_scan_split_in` is the carry route of the original values, and
the array carry is the `Carry` array argument -/
theorem scanSplitIn_init (store : Store α) : ∀ (pas : List (Prefix × Arg α)) (np : NodePrefixes) (seen : List VarId)
    (si : ScanIn α), scanSplitIn store pas np seen = .ok si →
    (∃ parts, mapX (scanSplitArgOut store) si.pure = .ok parts ∧ si.carryDeque = (parts.filterMap id).map (·.2)) ∧
    initCarryArr si.pure = initCarrySpec (arrArgs pas) := by
  intro pas
  induction pas with
  | nil =>
    intro np seen si h
    simp only [scanSplitIn] at h
    injection h with h
    subst h
    exact ⟨⟨[], rfl, rfl⟩, rfl⟩
  | cons pa rest ih =>
    intro np seen si h
    obtain ⟨p, arg⟩ := pa
    cases arg with
    | arr a =>
      obtain ⟨ax, r, rfl, hr, hsi⟩ := scanSplitIn_arr_ok h
      obtain ⟨⟨parts, hp1, hp2⟩, hi⟩ := ih np seen r hr
      cases ax with
      | carry =>
        simp only [] at hsi
        subst hsi
        exact ⟨⟨none :: parts, mapX_cons_of_ok rfl hp1, by simpa using hp2⟩, rfl⟩
      | bcast =>
        simp only [] at hsi
        subst hsi
        exact ⟨⟨none :: parts, mapX_cons_of_ok rfl hp1, by simpa using hp2⟩, by simpa [initCarryArr, arrArgs, initCarrySpec] using hi⟩
      | axis k =>
        simp only [] at hsi
        obtain ⟨a', _, hsi⟩ := hsi
        subst hsi
        exact ⟨⟨none :: parts, mapX_cons_of_ok rfl hp1, by simpa using hp2⟩, by simpa [initCarryArr, arrArgs, initCarrySpec] using hi⟩
    | node es =>
      obtain ⟨np', flat, sts, vec, car, bc, r, _, hfl, hsp, hrt, hr, rfl⟩ := scanSplitIn_node_ok h
      obtain ⟨⟨parts, hp1, hp2⟩, hi⟩ := ih np' _ r hr
      obtain ⟨vec', hrt'⟩ := routeStates_car_indep hrt
      refine ⟨⟨some (vec', car) :: parts, ?_, ?_⟩, by simpa [initCarryArr, arrArgs] using hi⟩
      · refine mapX_cons_of_ok ?_ hp1
        simp only [scanSplitArgOut, GraphDef.owned, hfl, hsp, hrt']
      · simp [hp2]

/-- what relates the carry of `lax.scan` to the state of the reference loop: same array carry, and `carry_deque` is the
carry route of the values the previous iteration left -/
def CarryInv (pure : List (SPure α)) (cI : ScanCarry α) (cS : Option (Arr α) × Store α) : Prop :=
  cI.1 = cS.1 ∧ ∃ parts, mapX (scanSplitArgOut cS.2) pure = .ok parts ∧ cI.2 = (parts.filterMap id).map (·.2)

/-- what relates the per-iteration output of `ScanFn` to what the reference iteration records: the vectorised states are
the vectorised route of the values the iteration left, the results are the iteration's results after `to_tree` -/
def YRel (pure : List (SPure α)) (outPs : List Prefix) (yS : Store α × List (Out α)) (yI : ScanY α) : Prop :=
  (∃ parts, mapX (scanSplitArgOut yS.1) pure = .ok parts ∧ yI.1 = (parts.filterMap id).map (·.1)) ∧
  mapX splitOut (outPs.zip yS.2) = .ok yI.2 ∧ outPs.length = yS.2.length

/-- **One iteration of `ScanFn` is one iteration of the reference loop.** -/
theorem scanFn_step {body : Body α} {ca : CarryArg} {cout : CarryPos} {outPs : List Prefix} {store : Store α}
    {pas : List (Prefix × Arg α)} {si : ScanIn α} (hwf : WFArgs pas) (hsi : scanSplitIn store pas [] [] = .ok si)
    {cI : ScanCarry α} {cS : Option (Arr α) × Store α} (hinv : CarryInv si.pure cI cS) {i : Nat}
    {xs : List (SPure α)} (hxs : mapX (spureAt i) si.pure = .ok xs) {cI' : ScanCarry α} {yI : ScanY α}
    (h : scanFn body ca cout outPs si.bcastDeque si.bcastArrays cI xs = .ok (cI', yI)) :
    ∃ cS' yS, scanStepSpec body ca cout outPs store pas cS i = .ok (cS', yS) ∧
      CarryInv si.pure cI' cS' ∧ YRel si.pure outPs yS yI := by
  obtain ⟨hc1, parts, hparts, hc2⟩ := hinv
  obtain ⟨ins, arrs, h1, h2, h3⟩ := scan_iteration_sees store cS.2 i cI.1 pas [] [] si xs parts [] hwf hsi hxs hparts rfl
  simp only [scanFn] at h
  rw [hc2, h3] at h
  simp only [List.nil_append] at h
  cases hb : body ins arrs with
  | error e => simp [hb] at h
  | ok io =>
    obtain ⟨inner', outs⟩ := io
    simp only [hb] at h
    cases hcr : checkCarryRefs ca ((carryOutIdx cout).bind (fun k => outs[k]?)) with
    | error e => simp [hcr] at h
    | ok cArr =>
      simp only [hcr] at h
      cases hpo : mapX (scanSplitArgOut inner') xs with
      | error e => simp [hpo] at h
      | ok parts' =>
        simp only [hpo] at h
        by_cases hlen : outPs.length = (dropCarry (carryOutIdx cout) outs).length
        · simp only [hlen, ne_eq, not_true_eq_false, if_false] at h
          cases hso : mapX splitOut (outPs.zip (dropCarry (carryOutIdx cout) outs)) with
          | error e => simp [hso] at h
          | ok pouts =>
            simp only [hso] at h
            injection h with h
            injection h with h1' h2'
            subst h1'; subst h2'
            rw [spureAt_skeleton inner' hxs] at hpo
            refine ⟨(cArr, inner'), (inner', dropCarry (carryOutIdx cout) outs), ?_, ?_, ?_⟩
            · simp only [scanStepSpec, h1, bindX]
              rw [← hc1, h2]
              simp only [hb, hcr, hlen, ne_eq, not_true_eq_false, if_false]
            · exact ⟨rfl, parts', hpo, rfl⟩
            · exact ⟨⟨parts', hpo, rfl⟩, hso, hlen⟩
        · simp [hlen] at h

/-! ### the fold -/

theorem all2_snoc {κ ρ : Type} {R : κ → ρ → Prop} {cs : List κ} {rs : List ρ} {c : κ} {r : ρ}
    (h : All2 R cs rs) (hr : R c r) : All2 R (cs ++ [c]) (rs ++ [r]) := by
  induction h with
  | nil => exact All2.cons hr All2.nil
  | cons h1 _ ih => exact All2.cons h1 ih

theorem all2_append {κ ρ : Type} {R : κ → ρ → Prop} {cs cs' : List κ} {rs rs' : List ρ}
    (h : All2 R cs rs) (h' : All2 R cs' rs') : All2 R (cs ++ cs') (rs ++ rs') := by
  induction h with
  | nil => exact h'
  | cons h1 _ ih => exact All2.cons h1 ih

theorem all2_reverse {κ ρ : Type} {R : κ → ρ → Prop} {cs : List κ} {rs : List ρ} (h : All2 R cs rs) :
    All2 R cs.reverse rs.reverse := by
  induction h with
  | nil => exact All2.nil
  | cons h1 _ ih =>
    simp only [List.reverse_cons]
    exact all2_snoc ih h1

/-- a fold of `lax.scan` steps simulated step by step -/
theorem foldX_scanStep_sim {σI σS χ ωI ωS : Type} {xsAt : Nat → Except Err χ} {fI : σI → χ → Except Err (σI × ωI)}
    {sameI : σI → σI → Bool} {fS : σS → Nat → Except Err (σS × ωS)} {Inv : σI → σS → Prop} {Y : ωS → ωI → Prop}
    (hstep : ∀ cI cS i x cI' yI, Inv cI cS → xsAt i = .ok x → fI cI x = .ok (cI', yI) →
      ∃ cS' yS, fS cS i = .ok (cS', yS) ∧ Inv cI' cS' ∧ Y yS yI) :
    ∀ (l : List Nat) (sI : σI × List ωI) (sS : σS × List ωS) (sI' : σI × List ωI),
      Inv sI.1 sS.1 → All2 Y sS.2 sI.2 → foldX (scanStep xsAt fI sameI) sI l = .ok sI' →
      ∃ sS', foldX (scanStep (fun i => .ok i) fS (fun _ _ => true)) sS l = .ok sS' ∧
        Inv sI'.1 sS'.1 ∧ All2 Y sS'.2 sI'.2 := by
  intro l
  induction l with
  | nil =>
    intro sI sS sI' hi hy h
    simp only [foldX] at h
    injection h with h
    subst h
    exact ⟨sS, rfl, hi, hy⟩
  | cons i is ih =>
    intro sI sS sI' hi hy h
    obtain ⟨s1, hs1, hrest⟩ := foldX_cons_ok h
    simp only [scanStep] at hs1
    cases hx : xsAt i with
    | error e => simp [hx] at hs1
    | ok x =>
      simp only [hx] at hs1
      cases hf : fI sI.1 x with
      | error e => simp [hf] at hs1
      | ok r =>
        obtain ⟨cI', yI⟩ := r
        simp only [hf] at hs1
        cases hsm : sameI sI.1 cI' with
        | false => simp [hsm] at hs1
        | true =>
          simp only [hsm, if_true] at hs1
          injection hs1 with hs1
          subst hs1
          obtain ⟨cS', yS, hfs, hinv', hy'⟩ := hstep _ _ _ _ _ _ hi hx hf
          obtain ⟨sS', hfold, h1, h2⟩ := ih (cI', sI.2 ++ [yI]) (cS', sS.2 ++ [yS]) sI' hinv' (all2_snoc hy hy') hrest
          refine ⟨sS', ?_, h1, h2⟩
          simp only [foldX, scanStep, hfs, if_true]
          exact hfold

/-- **`lax.scan(ScanFn, …)` is the reference loop, in either direction.**  Whenever the scan of `ScanFn` over the `n`
indices in processing order (`reverse`: from `n-1` down to `0`) returns, the reference loop over the same order returns
too: every iteration is called on the values of `scan_iteration_sees` (carried Variables and the array carry as left by
the iteration processed before, broadcast state always the original), the final array carry is the same, the final
carry deque is the carry route of what the last iteration left, and output `i` of either is the record of the
iteration that processed index `i`. -/
theorem scan_loop_sim {body : Body α} {ca : CarryArg} {cout : CarryPos} {outPs : List Prefix} {store : Store α}
    {pas : List (Prefix × Arg α)} {si : ScanIn α} (hwf : WFArgs pas) (hsi : scanSplitIn store pas [] [] = .ok si)
    {n : Nat} {reverse : Bool} {cfin : ScanCarry α} {ys : List (ScanY α)}
    (h : laxScanX n reverse (fun i => mapX (spureAt i) si.pure)
      (scanFn body ca cout outPs si.bcastDeque si.bcastArrays) sameCarry (initCarryArr si.pure, si.carryDeque)
      = .ok (cfin, ys)) :
    ∃ fin recs, laxScanX n reverse (fun i => .ok i) (scanStepSpec body ca cout outPs store pas) (fun _ _ => true)
        (initCarrySpec (arrArgs pas), store) = .ok (fin, recs) ∧
      CarryInv si.pure cfin fin ∧ All2 (YRel si.pure outPs) recs ys := by
  simp only [laxScanX] at h
  cases hf : foldX (scanStep (fun i => mapX (spureAt i) si.pure)
      (scanFn body ca cout outPs si.bcastDeque si.bcastArrays) sameCarry)
      ((initCarryArr si.pure, si.carryDeque), []) (if reverse then (List.range n).reverse else List.range n) with
  | error e => simp [hf] at h
  | ok r =>
    simp only [hf] at h
    injection h with h
    injection h with h1 h2
    obtain ⟨⟨parts, hp1, hp2⟩, hinit⟩ := scanSplitIn_init store pas [] [] si hsi
    have hinv0 : CarryInv si.pure (initCarryArr si.pure, si.carryDeque) (initCarrySpec (arrArgs pas), store) :=
      ⟨hinit, parts, hp1, hp2⟩
    obtain ⟨sS', hfold, hi', hy'⟩ := foldX_scanStep_sim
      (fS := scanStepSpec body ca cout outPs store pas) (Inv := CarryInv si.pure) (Y := YRel si.pure outPs)
      (fun cI cS i x cI' yI hinv hx hfI => scanFn_step hwf hsi hinv hx hfI)
      _ ((initCarryArr si.pure, si.carryDeque), []) ((initCarrySpec (arrArgs pas), store), []) r hinv0 All2.nil hf
    refine ⟨sS'.1, if reverse then sS'.2.reverse else sS'.2, ?_, ?_, ?_⟩
    · simp only [laxScanX, hfold]
    · rw [← h1]; exact hi'
    · rw [← h2]
      cases reverse with
      | true => simpa using all2_reverse hy'
      | false => simpa using hy'

end loop

end Flax.NnxLoop

namespace Flax.NnxLoop
open Flax.Filter Flax.LiftLoop

/-- **`nnx.scan`, up to the final stacking.**  Whenever `nnx.scan` returns: the set-up checks passed, `_scan_split_in`
accepted the aliasing, and the scan of `ScanFn` is the reference loop (`scan_loop_sim`): same number of iterations
`n ≥ 1`, same processing order, every iteration called on the Python loop's values, carry threaded, broadcast constant,
same final array carry.  What `nnx.scan` then returns is computed from the related per-iteration records by
`scanWriteBack` (stack the vectorised states along 0, `moveaxis(x, 0, axis)`, re-insert final carry and original
broadcast states, write into the caller's Variables) and `scanCollectOut` / `insertCarry`. -/
theorem nnxScan_loop {α : Type} [Inhabited α] {inAxes outAxes : AxesSpec} {length : Option Nat} {reverse : Bool}
    {nOuts : Nat} {body : Body α} {args : List (Arg α)} {store : Store α} {res : Store α × List (Out α)}
    (h : nnxScan inAxes outAxes length reverse nOuts body args store = .ok res)
    (hwf : ∀ ps, inAxes.expand args.length = .ok ps → WFArgs (ps.zip args)) :
    ∃ cin cout ps si ca outPs n cfin ys fin recs outs,
      scanSetup inAxes outAxes = .ok (cin, cout) ∧ inAxes.expand args.length = .ok ps ∧
      scanSplitIn store (ps.zip args) [] [] = .ok si ∧ carryArgOf cin args = .ok ca ∧
      outPrefixes outAxes cout nOuts = .ok outPs ∧ 0 < n ∧
      laxScanX n reverse (fun i => .ok i) (scanStepSpec body ca cout outPs store (ps.zip args)) (fun _ _ => true)
        (initCarrySpec (arrArgs (ps.zip args)), store) = .ok (fin, recs) ∧
      CarryInv si.pure cfin fin ∧ All2 (YRel si.pure outPs) recs ys ∧
      scanWriteBack (ys.map (·.1)) si.pure cfin.2 si.bcastDeque store = .ok res.1 ∧
      (∃ y0 yt, ys = y0 :: yt ∧ mapX (scanOutAt (ys.map (·.2))) ((List.range y0.2.length).zip y0.2) = .ok outs) ∧
      insertCarry cout ca fin.1 outs = .ok res.2 ∧
      ∃ dims, scanDims si.pure = .ok dims ∧ jaxLength length dims = .ok n := by
  simp only [nnxScan] at h
  cases h1 : scanSetup inAxes outAxes with
  | error e => simp [h1] at h
  | ok cc =>
  obtain ⟨cin, cout⟩ := cc
  simp only [h1] at h
  split at h
  · cases h
  cases h2 : inAxes.expand args.length with
  | error e => simp [h2] at h
  | ok ps =>
  simp only [h2] at h
  cases h3 : scanSplitIn store (ps.zip args) [] [] with
  | error e => simp [h3] at h
  | ok si =>
  simp only [h3] at h
  cases h4 : carryArgOf cin args with
  | error e => simp [h4] at h
  | ok ca =>
  simp only [h4] at h
  cases h5 : outPrefixes outAxes cout nOuts with
  | error e => simp [h5] at h
  | ok outPs =>
  simp only [h5] at h
  cases h6 : scanDims si.pure with
  | error e => simp [h6] at h
  | ok dims =>
  simp only [h6] at h
  cases h7 : liftL (jaxLength length dims) with
  | error e => simp [h7] at h
  | ok n =>
  simp only [h7] at h
  split at h
  · cases h
  rename_i hn0
  generalize hls : laxScanX n reverse _ _ sameCarry _ = mls at h
  cases mls with
  | error e => simp at h
  | ok cy =>
  obtain ⟨cfin, ys⟩ := cy
  simp only [] at h
  cases ys with
  | nil => simp at h
  | cons y0 yt =>
  simp only [] at h
  generalize hwb : scanWriteBack _ si.pure cfin.2 si.bcastDeque store = mwb at h
  cases mwb with
  | error e => simp at h
  | ok store' =>
  simp only [] at h
  generalize hco : mapX (scanOutAt _) ((List.range y0.2.length).zip y0.2) = mco at h
  cases mco with
  | error e => simp at h
  | ok outs =>
  simp only [] at h
  cases hic : insertCarry cout ca cfin.1 outs with
  | error e => simp [hic] at h
  | ok outs' =>
  simp only [hic] at h
  injection h with h
  subst h
  obtain ⟨fin, recs, hloop, hinv, hy⟩ := scan_loop_sim (hwf ps h2) h3 hls
  refine ⟨cin, cout, ps, si, ca, outPs, n, cfin, y0 :: yt, fin, recs, outs, rfl, rfl, h3, h4, h5,
    Nat.pos_of_ne_zero hn0, hloop, hinv, hy, hwb, ⟨y0, yt, rfl, hco⟩, ?_, dims, h6, liftL_ok.1 h7⟩
  rw [← hinv.1]
  exact hic

end Flax.NnxLoop
