/- C08 proofs: `nnx.scan` — whenever it returns, the Python loop is defined and returns the same -/
import Flax.Proofs.NnxLoopScanFinal
import Flax.Proofs.NnxLoopScanDims

namespace Flax.NnxLoop
open Flax.Filter Flax.LiftLoop

section top
variable {α : Type} [Inhabited α]

/-! ### results: only integer axes survive `_check_out_axes` and `_scan_merge_out` -/

theorem unroute_nil_all_axis : ∀ {axes : List Ax} {V sts : List (State α)},
    unrouteStates axes V [] [] = .ok sts → ∀ a ∈ axes, isAxisB a = true := by
  intro axes
  induction axes with
  | nil => intro V sts _ a ha; cases ha
  | cons a rest ih =>
    intro V sts h b hb
    cases a with
    | bcast => simp [unrouteStates] at h
    | carry => simp [unrouteStates] at h
    | axis k =>
      cases V with
      | nil => simp [unrouteStates] at h
      | cons v vs =>
        simp only [unrouteStates] at h
        cases hr : unrouteStates rest vs [] [] with
        | error e => simp [hr] at h
        | ok r =>
          rcases List.mem_cons.1 hb with hb | hb
          · subst hb; rfl
          · exact ih hr b hb

theorem kindIdx_none {P : Ax → Bool} : ∀ (axes : List Ax) (s : Nat), (∀ a ∈ axes, P a = false) →
    kindIdx P axes s = [] := by
  intro axes
  induction axes with
  | nil => intro s _; rfl
  | cons a rest ih =>
    intro s h
    simp only [kindIdx, h a (by simp)]
    exact ih (s + 1) (fun b hb => h b (by simp [hb]))

theorem kindIdx_all {P : Ax → Bool} : ∀ (axes : List Ax) (s : Nat), (∀ a ∈ axes, P a = true) →
    kindIdx P axes s = List.range' s axes.length := by
  intro axes
  induction axes with
  | nil => intro s _; rfl
  | cons a rest ih =>
    intro s h
    simp only [kindIdx, h a (by simp), if_true, List.length_cons, List.range'_succ]
    rw [ih (s + 1) (fun b hb => h b (by simp [hb]))]

theorem routeStates_all_axis {axes : List Ax} (hall : ∀ a ∈ axes, isAxisB a = true) {row : List (State α)}
    (hl : row.length = axes.length) : routeStates false (axes.zip row) = .ok (row, [], []) := by
  have hfun : row = (List.range' 0 axes.length).map (fun g => row.getD g []) := by
    rw [← hl]; exact list_eq_map_getD row []
  have := routeStates_false_eq axes 0 (fun g => row.getD g ([] : State α))
  rw [← hfun, kindIdx_all axes 0 hall, ← hfun,
    kindIdx_none axes 0 (fun a ha => by
      have h := hall a ha
      cases a with
      | axis k => rfl
      | bcast => simp [isAxisB] at h
      | carry => simp [isAxisB] at h),
    kindIdx_none axes 0 (fun a ha => by
      have h := hall a ha
      cases a with
      | axis k => rfl
      | bcast => simp [isAxisB] at h
      | carry => simp [isAxisB] at h)] at this
  simpa using this

/-- **Result `k` of `nnx.scan` is the per-iteration results stacked by index under the out prefix** (stack along 0 by
lax.scan, then `moveaxis(x, 0, axis)` = `jnp.stack` along the axis): arrays along the out axis, fresh graph nodes
Variable by Variable along the axis the out prefix's first matching filter gives. -/
theorem scan_collect_out {q : Prefix} {o0 : Out α} {orest : List (Out α)} {p0 : PureOut α} {prest : List (PureOut α)}
    {out : Out α} (hsp : mapX (fun o => splitOut (q, o)) (o0 :: orest) = .ok (p0 :: prest))
    (hwf : OutColWF (o0 :: orest)) (hc : scanCollectOut p0 (p0 :: prest) = .ok out) :
    collectOut q (o0 :: orest) = .ok out := by
  have harr : mapX outArr (p0 :: prest) = mapX Out.arr? (o0 :: orest) :=
    mapX_through hsp (fun x _ y hy => splitOut_arr hy)
  obtain ⟨y, ys, hp0, _, heq⟩ := mapX_cons_ok hsp
  injection heq with heq1 heq2
  subst heq1
  cases o0 with
  | argRef k => simp [splitOut] at hp0
  | arr a0 =>
    simp only [splitOut] at hp0
    injection hp0 with hp0
    subst hp0
    cases q with
    | sa s => simp [scanCollectOut] at hc
    | ax a =>
      cases a with
      | carry => simp [scanCollectOut] at hc
      | bcast => simp [scanCollectOut] at hc
      | axis k =>
        simp only [scanCollectOut, harr] at hc
        cases hm : mapX Out.arr? (Out.arr a0 :: orest) with
        | error e => simp [hm] at hc
        | ok vs =>
          simp only [hm] at hc
          obtain ⟨v0, vt, h0, _, rfl⟩ := mapX_cons_ok hm
          simp only [Out.arr?] at h0
          injection h0 with h0
          subst h0
          cases hst : liftL (stackFront k a0.shape (a0 :: vt)) with
          | error e => simp [hst] at hc
          | ok v =>
            simp only [hst] at hc
            injection hc with hc
            subst hc
            simp [collectOut, hm, collectVal, stackFront_ok_stackAt hst]
  | node n0 =>
    cases hos : outStates p0 with
    | error e =>
      simp only [splitOut] at hp0
      cases h1 : mapX (fun x => q.at ⟨x.1, 0, x.2.1⟩) n0 with
      | error e => simp [h1] at hp0
      | ok l =>
        simp only [h1] at hp0
        cases h2 : splitFlat q n0 with
        | error e => simp [h2] at hp0
        | ok sts => simp only [h2] at hp0; injection hp0 with hp0; subst hp0; simp [outStates] at hos
    | ok sts0 =>
      obtain ⟨n, hn, hsp0, hp0', hat0⟩ := splitOut_node hp0 sts0 hos
      injection hn with hn
      subst hn
      subst hp0'
      simp only [scanCollectOut] at hc
      cases hrows : mapX outStates (PureOut.node q (n0.map (fun x => (x.1, x.2.1))) sts0 :: prest) with
      | error e => simp [hrows] at hc
      | ok rows =>
        simp only [hrows] at hc
        cases hcv : scanCollectVec q.axes rows with
        | error e => simp [hcv] at hc
        | ok V =>
          simp only [hcv] at hc
          cases hun : unrouteStates q.axes V [] [] with
          | error e => simp [hun] at hc
          | ok sts =>
            simp only [hun] at hc
            cases hrb : rebuildNode (n0.map (fun x => (x.1, x.2.1))) sts with
            | error e => simp [hrb] at hc
            | ok fl =>
              simp only [hrb] at hc
              injection hc with hc
              subst hc
              obtain ⟨nodes, hnodes, hrows', _⟩ := nodes_of_col hsp hrows
              obtain ⟨nd0, ndr, hnd0, _, rfl⟩ := mapX_cons_ok hnodes
              simp only [Out.node?] at hnd0
              injection hnd0 with hnd0
              subst hnd0
              obtain ⟨hnd, hk⟩ := hwf
              have hkeys : ∀ fl' ∈ n0 :: ndr, fl'.map (fun x => (x.1, x.2.1)) = n0.map (fun x => (x.1, x.2.1)) := by
                intro fl' hfl'
                obtain ⟨o, ho, hof⟩ := mapX_ok_mem_rev hnodes fl' hfl'
                cases o with
                | node n' =>
                  simp only [Out.node?] at hof
                  injection hof with hof
                  subst hof
                  exact hk _ ho _ rfl
                | arr a => simp [Out.node?] at hof
                | argRef k => simp [Out.node?] at hof
              have hall := unroute_nil_all_axis hun
              obtain ⟨row0, rowsR, hrow0, _, hrowsEq⟩ := mapX_cons_ok hrows'
              have hlen : ∀ row ∈ rows, row.length = q.axes.length := by
                intro row hr
                obtain ⟨fl', _, hfl'⟩ := mapX_ok_mem_rev hrows' row hr
                exact (splitFlat_spec hfl').1
              have hvr : All2 (fun row vr => ∃ c b, routeStates false (q.axes.zip row) = .ok (vr, c, b)) rows rows := by
                have : ∀ (l : List (List (State α))), (∀ row ∈ l, row.length = q.axes.length) →
                    All2 (fun row vr => ∃ c b, routeStates false (q.axes.zip row) = .ok (vr, c, b)) l l := by
                  intro l
                  induction l with
                  | nil => intro _; exact All2.nil
                  | cons row rest ih =>
                    intro h
                    exact All2.cons ⟨[], [], routeStates_all_axis hall (h row (by simp))⟩
                      (ih (fun r hr => h r (by simp [hr])))
                exact this rows hlen
              have hl0 : row0.length = q.axes.length := hlen row0 (by rw [hrowsEq]; simp)
              have hlk := scan_final_lookup hnd hkeys rfl rfl hrows' hrow0 hrow0 hvr
                ⟨row0, [], routeStates_all_axis hall hl0⟩ ⟨row0, [], routeStates_all_axis hall hl0⟩ hcv hun
              simp only [collectOut, hnodes]
              have : collectNode q (n0 :: ndr) = .ok fl := by
                simp only [collectNode]
                rw [← hrb, rebuildNode, mapX_map]
                apply mapX_congr
                intro x hx
                obtain ⟨a, ha, hcase⟩ := hlk x hx
                have hat : q.at ⟨x.1, 0, x.2.1⟩ = .ok a := (prefix_at_eq_axAt q ⟨x.1, 0, x.2.1⟩ a).2 ha
                have haa : isAxisB a = true := by
                  simp only [axAt] at ha
                  exact hall a (List.mem_of_getElem? ha)
                cases a with
                | bcast => simp [isAxisB] at haa
                | carry => simp [isAxisB] at haa
                | axis k =>
                  simp only [] at hcase
                  obtain ⟨vs, v, hvs, hv, hl⟩ := hcase
                  have hv0 : vs = x.2.2 :: vs.tail := by
                    obtain ⟨a0, at', h0, _, rfl⟩ := mapX_cons_ok hvs
                    have := valAt_of_mem hnd hx
                    rw [this] at h0
                    injection h0 with h0
                    rw [h0]; rfl
                  have hcv' : collectVal (.axis k) vs = .ok v := by
                    rw [hv0]; simp only [collectVal]; rw [← hv0]
                    exact stackFront_ok_stackAt hv
                  simp only [hat, hvs, hcv', hl]
              simp [this]

/-- result position `k` over all iterations: the traced function's results there, and what `ScanFn` made of them -/
theorem column_outs_scan {pure : List (SPure α)} {outPs : List Prefix} {k : Nat} {q : Prefix}
    (hq : outPs[k]? = some q) :
    ∀ {recs : List (Store α × List (Out α))} {ys : List (ScanY α)},
      All2 (YRel pure outPs) recs ys → ∀ col, column k (ys.map (·.2)) = .ok col →
      ∃ ocol, column k (recs.map (·.2)) = .ok ocol ∧ mapX (fun o => splitOut (q, o)) ocol = .ok col := by
  intro recs ys h
  induction h with
  | nil => intro col hc; simp [column, mapX] at hc; subst hc; exact ⟨[], rfl, rfl⟩
  | @cons c r cs rs hR _ ih =>
    intro col hc
    simp only [column, List.map_cons] at hc
    obtain ⟨h0, ht, hh, hr, rfl⟩ := mapX_cons_ok hc
    obtain ⟨ocol, e1, e2⟩ := ih ht hr
    obtain ⟨_, hsp, hlen⟩ := hR
    have hk := pickX_ok hh
    have hkl : k < r.2.length := (List.getElem?_eq_some_iff.1 hk).1
    have hrl := mapX_length hsp
    have hzl : (outPs.zip c.2).length = c.2.length := by simp [List.length_zip, hlen]
    have hkc : k < c.2.length := by omega
    have hz : k < (outPs.zip c.2).length := by omega
    have := mapX_ok_getElem hsp k hz hkl
    have hzk : (outPs.zip c.2)[k] = (q, c.2[k]) := by
      have h1 : (outPs.zip c.2)[k]? = some (q, c.2[k]) :=
        List.getElem?_zip_eq_some.2 ⟨hq, List.getElem?_eq_getElem hkc⟩
      rw [List.getElem?_eq_getElem hz] at h1
      exact Option.some.inj h1
    rw [hzk] at this
    have hh0 : r.2[k] = h0 := by
      rw [List.getElem?_eq_getElem hkl] at hk; exact Option.some.inj hk
    refine ⟨c.2[k] :: ocol, ?_, ?_⟩
    · simp only [column, List.map_cons]
      exact mapX_cons_of_ok (pickX_of (List.getElem?_eq_getElem hkc)) e1
    · exact mapX_cons_of_ok (by rw [this, hh0]) e2

/-- the vectorised states `ScanFn` emitted over the iterations are the vectorised routes of what the iterations left -/
theorem parts_of_all2 {pure : List (SPure α)} {outPs : List Prefix} :
    ∀ {recs : List (Store α × List (Out α))} {ys : List (ScanY α)}, All2 (YRel pure outPs) recs ys →
    ∃ partsRows, mapX (fun st => mapX (scanSplitArgOut st) pure) (recs.map (·.1)) = .ok partsRows ∧
      ys.map (·.1) = partsRows.map (fun parts => (parts.filterMap id).map (·.1)) := by
  intro recs ys h
  induction h with
  | nil => exact ⟨[], rfl, rfl⟩
  | cons hR _ ih =>
    obtain ⟨⟨parts, hp1, hp2⟩, _, _⟩ := hR
    obtain ⟨pr, e1, e2⟩ := ih
    refine ⟨parts :: pr, ?_, by simp [hp2, e2]⟩
    simp only [List.map_cons]
    exact mapX_cons_of_ok (f := fun st => mapX (scanSplitArgOut st) pure) hp1 e1

/-- **`nnx.scan` is sound for the Python loop.**  Whenever the model of `nnx.scan(f, length, reverse, in_axes,
out_axes)(*args)` returns, the reference loop `scanSpecN` is defined for the same `n ≥ 1` iterations in the same
processing order and returns the same final store and the same results (stacked outputs and the final carry). -/
theorem nnxScan_sound {inAxes outAxes : AxesSpec} {length : Option Nat} {reverse : Bool} {nOuts : Nat}
    {body : Body α} {args : List (Arg α)} {store : Store α} {res : Store α × List (Out α)}
    (h : nnxScan inAxes outAxes length reverse nOuts body args store = .ok res)
    (hwf : ∀ ps, inAxes.expand args.length = .ok ps → WFArgs (ps.zip args))
    (houts : ∀ ps n ca cout outPs fin recs, inAxes.expand args.length = .ok ps →
      laxScanX n reverse (fun i => .ok i) (scanStepSpec body ca cout outPs store (ps.zip args)) (fun _ _ => true)
        (initCarrySpec (arrArgs (ps.zip args)), store) = .ok (fin, recs) →
      ∀ k col, column k (recs.map (·.2)) = .ok col → OutColWF col) :
    ∃ cin cout ps ca outPs n,
      scanSetup inAxes outAxes = .ok (cin, cout) ∧ inAxes.expand args.length = .ok ps ∧
      carryArgOf cin args = .ok ca ∧ outPrefixes outAxes cout nOuts = .ok outPs ∧ 0 < n ∧
      ((∀ ep ∈ ownedAll (ps.zip args) [], ∀ k, ep.2.at ep.1 = .ok (.axis k) →
          ∃ v, store.lookup ep.1.id = some v ∧ dimAt k v = .ok n) ∧
        (∀ pa ∈ arrArgs (ps.zip args), ∀ k, pa.1 = .ax (.axis k) → dimAt k pa.2 = .ok n) ∧
        (∀ m, length = some m → m = n)) ∧
      scanSpecN n reverse ca cout outPs body (ps.zip args) store = .ok res := by
  obtain ⟨cin, cout, ps, si, ca, outPs, n, cfin, ys, fin, recs, outs, h1, h2, h3, h4, h5, hn, hloop, hinv, hy, hwb,
    ⟨y0, yt, hys, hco⟩, hic, dims, hdims, hjl⟩ := nnxScan_loop h hwf
  refine ⟨cin, cout, ps, ca, outPs, n, h1, h2, h4, h5, hn,
    scan_sizes_eq_n store (ps.zip args) si dims length n h3 hdims hjl, ?_⟩
  subst hys
  cases recs with
  | nil => cases hy
  | cons r0 rr =>
  obtain ⟨hc1, partsF, hpF, hc2⟩ := hinv
  obtain ⟨partsRows, hpr1, hpr2⟩ := parts_of_all2 hy
  rw [hpr2, hc2] at hwb
  obtain ⟨vals, hvals, hstore⟩ := scan_write_back store (ps.zip args) [] [] si (hwf ps h2) h3 r0.1 (rr.map (·.1)) fin.2
    partsRows partsF (by simpa using hpr1) hpF store res.1 hwb
  -- results
  have hR0 : YRel si.pure outPs r0 y0 := by cases hy with | cons h _ => exact h
  obtain ⟨_, hsp0, hlen0⟩ := hR0
  have hy0l : y0.2.length = outPs.length := by
    have := mapX_length hsp0
    simp [List.length_zip, hlen0] at this
    omega
  have houtsS : mapX (collectOutAt ((r0 :: rr).map (·.2))) ((List.range outPs.length).zip outPs) = .ok outs := by
    apply mapX_imp_pos _ _ _ (by simp [List.length_zip, hy0l]) _ hco
    intro k hk1 hk2 y hy'
    have hk1' : k < y0.2.length := by simpa [List.length_zip] using hk1
    have hk2' : k < outPs.length := by simpa [List.length_zip] using hk2
    have e1 : ((List.range y0.2.length).zip y0.2)[k] = (k, y0.2[k]) := by
      have : ((List.range y0.2.length).zip y0.2)[k]? = some (k, y0.2[k]) :=
        List.getElem?_zip_eq_some.2 ⟨List.getElem?_range hk1', List.getElem?_eq_getElem hk1'⟩
      rw [List.getElem?_eq_getElem hk1] at this
      exact Option.some.inj this
    have e2 : ((List.range outPs.length).zip outPs)[k] = (k, outPs[k]) := by
      have : ((List.range outPs.length).zip outPs)[k]? = some (k, outPs[k]) :=
        List.getElem?_zip_eq_some.2 ⟨List.getElem?_range hk2', List.getElem?_eq_getElem hk2'⟩
      rw [List.getElem?_eq_getElem hk2] at this
      exact Option.some.inj this
    rw [e1] at hy'
    rw [e2]
    simp only [scanOutAt] at hy'
    generalize hcol : column k _ = mcol at hy'
    cases mcol with
    | error e => simp at hy'
    | ok col =>
      simp only [] at hy'
      obtain ⟨ocol, ho1, ho2⟩ := column_outs_scan (List.getElem?_eq_getElem hk2') hy col hcol
      obtain ⟨hcl, hce⟩ := column_ok hcol
      cases col with
      | nil => simp at hcl
      | cons p0 prest =>
        have hp0 : y0.2[k] = p0 := by
          have := hce 0 (by simp) (by simp)
          simp only [List.map_cons, List.getElem_cons_zero, List.getElem?_eq_getElem hk1',
            Option.some.injEq] at this
          exact this
        cases ocol with
        | nil => simp [mapX] at ho2
        | cons o0 orest =>
          have hwfc := houts ps n ca cout outPs fin (r0 :: rr) h2 hloop k (o0 :: orest) ho1
          rw [hp0] at hy'
          have := scan_collect_out ho2 hwfc hy'
          simp only [collectOutAt, ho1, bindX, this]
  simp only [scanSpecN, hloop, bindX]
  simp only [List.map_cons] at hvals houtsS
  simp only [List.map_cons, hvals, houtsS]
  rw [← hc1] at hic ⊢
  simp only [hic]
  rw [← hstore]

end top

end Flax.NnxLoop
