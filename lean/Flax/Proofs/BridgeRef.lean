/-
Helper lemmas for C18: ToNNX simulates plain Linen use of the wrapped module (single step and
histories), and `lazy_init` establishes the simulation.
-/
import Flax.Proofs.BridgeSim

namespace Flax.Bridge
variable {α ι ο μ : Type}

/-- plain Linen use of the wrapped module: the caller keeps the variables and merges the returned
updates into them leaf by leaf -/
structure LinenRef (α : Type) where
  vars : Forest (LBox α)
  rngs : Rngs

def LinenRef.call (m : LinenMod α ι ο μ) (s : LinenRef α) (mu : Option μ) (x : ι) :
    Except Err (ο × LinenRef α) := do
  let (ks, rngs') := s.rngs.draw
  let (out, upd) ← m.apply s.vars ks mu x
  match mu with
  | none => pure (out, { s with rngs := rngs' })
  | some _ => do
      let v ← recursiveMerge s.vars upd
      pure (out, { vars := v, rngs := rngs' })

/-- updates that fit the variables they were computed from: convertible, and an attribute path of the
updates nests with an attribute path of the variables only when it is the same path in the same
collection (Linen never lets a name be a variable in one collection and something else in another) -/
structure Fits (r : Reg) (V U : Forest (LBox α)) : Prop where
  vars : VarsOk r U
  paths : ∀ c q c' q', leafAtF V (c :: q) ≠ none → leafAtF U (c' :: q') ≠ none →
    (q <+: q' ∨ q' <+: q) → q = q' ∧ c = c'

/-- what the refinement needs from the abstract wrapped module -/
structure ModOk (m : LinenMod α ι ο μ) : Prop where
  /-- `apply` reads its variables through look-ups only: dicts with the same leaves give the same result -/
  ext : ∀ V V' ks mu x, WFF V → WFF V' → Equiv V V' → m.apply V ks mu x = m.apply V' ks mu x
  /-- the updates it returns fit the variables it was given, for every registry state -/
  fits : ∀ r V ks mu x o U, r.Inj → r.Bounded → VarsOk r V → m.apply V ks mu x = .ok (o, U) → Fits r V U
  /-- `init` returns convertible variables -/
  initOk : ∀ r ks x o V, r.Inj → r.Bounded → m.init ks x = .ok (o, V) → VarsOk r V

/-- the wrapper and the reference are in step -/
structure Sim (s : ToNNX α) (ref : LinenRef α) : Prop where
  wrap : WrapOk s
  rngs : s.rngs = ref.rngs
  wf : WFF ref.vars
  held : ∃ V, s.heldVars = .ok V ∧ Equiv V ref.vars

theorem fits_of_equiv (r : Reg) (V V' U : Forest (LBox α)) (h : Fits r V U) (he : Equiv V' V) : Fits r V' U :=
  ⟨h.vars, fun c q c' q' h1 h2 hp => h.paths c q c' q' (by rw [← he]; exact h1) h2 hp⟩

theorem updFits_of_fits (s : ToNNX α) (hs : WrapOk s) (V U : Forest (LBox α))
    (hleafV : ∀ p x, leafAtF V p = some x ↔
        ∃ c q v, p = c :: q ∧ leafAtF s.attrs q = some v ∧ s.reg.nameOf v.vtype = some c ∧
          toLinenVar v = .ok x)
    (h : Fits s.reg V U) : UpdFits s U := by
  have hV : ∀ q v, leafAtF s.attrs q = some v → ∃ n x, s.reg.nameOf v.vtype = some n ∧
      leafAtF V (n :: q) = some x := by
    intro q v hl
    obtain ⟨n, hn⟩ := hs.attrs.named q v hl
    obtain ⟨x, hx, _⟩ := var_roundtrip_aux v (hs.attrs.canon q v hl)
    exact ⟨n, x, hn, (hleafV _ x).mpr ⟨n, q, v, rfl, hl, hn, hx⟩⟩
  refine ⟨h.vars, ?_, ?_⟩
  · intro q q' h1 ⟨c, h2⟩ hp
    cases hq : leafAtF s.attrs q with
    | none => exact absurd hq h1
    | some v =>
      obtain ⟨n, x, _, hx⟩ := hV q v hq
      exact (h.paths n q c q' (by simp [hx]) h2 hp).1
  · intro c q v h2 hl
    obtain ⟨n, x, hn, hx⟩ := hV q v hl
    have := (h.paths n q c q (by simp [hx]) h2 (Or.inl (List.prefix_refl q))).2
    rw [hn, this]

theorem wrapOk_rngs (s : ToNNX α) (rngs : Rngs) (h : WrapOk s) : WrapOk { s with rngs := rngs } :=
  ⟨h.inj, h.bounded, h.attrs⟩

/-- **one call of the wrapper against one call of the reference** -/
theorem call_sim (m : LinenMod α ι ο μ) (hm : ModOk m) (s : ToNNX α) (ref : LinenRef α) (hsim : Sim s ref)
    (mu : Option μ) (x : ι) (o : ο) (ref' : LinenRef α) (h : ref.call m mu x = .ok (o, ref')) :
    ∃ s', s.call m mu x = .ok (o, s') ∧ Sim s' ref' := by
  obtain ⟨V, hV, hwV, _, hVok, hleafV⟩ := heldVars_spec s hsim.wrap
  obtain ⟨V0, hV0, hequiv⟩ := hsim.held
  rw [hV] at hV0; cases hV0
  -- the reference's apply
  simp only [LinenRef.call, Rngs.draw, bind_ok] at h
  obtain ⟨⟨o1, U⟩, happ, h⟩ := h
  have happ' : m.apply V (s.rngs.draw.1) mu x = .ok (o1, U) := by
    rw [hm.ext V ref.vars _ mu x hwV hsim.wf hequiv, hsim.rngs]; exact happ
  have hfits : Fits s.reg V U := hm.fits s.reg V _ mu x o1 U hsim.wrap.inj hsim.wrap.bounded hVok happ'
  cases mu with
  | none =>
    simp only [pure, Except.pure, Except.ok.injEq, Prod.mk.injEq] at h
    obtain ⟨rfl, rfl⟩ := h
    refine ⟨{ s with rngs := s.rngs.draw.2 }, ?_, ?_⟩
    · simp only [ToNNX.call, hV, bind, Except.bind, happ', pure, Except.pure]
    · exact ⟨wrapOk_rngs s _ hsim.wrap, by simp [Rngs.draw, hsim.rngs], hsim.wf, V, hV, hequiv⟩
  | some mv =>
    simp only [bind_ok, pure, Except.pure, Except.ok.injEq, Prod.mk.injEq] at h
    obtain ⟨v, hmerge, rfl, rfl⟩ := h
    -- the reference's merge
    have hfits' := fits_of_equiv s.reg V ref.vars U hfits (fun q => (hequiv q).symm)
    obtain ⟨v', hv', hvleaf, hvw, _⟩ := recursiveMerge_spec ref.vars U hsim.wf hfits.vars.wf (by
      intro q q' h1 h2 hp
      cases q with
      | nil => simp at h1
      | cons c q1 =>
        cases q' with
        | nil => simp at h2
        | cons c' q1' =>
          have hc : c = c' := by
            rcases hp with hp | hp <;> rw [List.cons_prefix_cons] at hp
            · exact hp.1
            · exact hp.1.symm
          have hp' : q1 <+: q1' ∨ q1' <+: q1 := by
            rcases hp with hp | hp <;> rw [List.cons_prefix_cons] at hp
            · exact Or.inl hp.2
            · exact Or.inr hp.2
          rw [(hfits'.paths c q1 c' q1' h1 h2 hp').1, hc])
    rw [hmerge] at hv'; cases hv'
    -- the wrapper's merge
    let s1 : ToNNX α := { s with rngs := s.rngs.draw.2 }
    have hs1 : WrapOk s1 := wrapOk_rngs s _ hsim.wrap
    have hheld1 : s1.heldVars = .ok V := hV
    obtain ⟨s', V1, V', hV1, habs, hV', hs', hrng, _, hover⟩ := held_after_absorb s1 hs1 U
      (updFits_of_fits s1 hs1 V U hleafV hfits)
    rw [hheld1] at hV1; cases hV1
    refine ⟨s', ?_, ?_⟩
    · simp only [ToNNX.call, hV, bind, Except.bind, happ', pure, Except.pure]
      have habs' : ({ attrs := s.attrs, reg := s.reg, rngs := s.rngs.draw.snd } : ToNNX α).absorb U
          = .ok s' := habs
      rw [habs']
    · refine ⟨hs', ?_, hvw, V', hV', ?_⟩
      · rw [hrng]; simp [s1, Rngs.draw, hsim.rngs]
      · intro p; rw [hover p, hvleaf p, hequiv p]

/-! ### histories -/

def runWrapper (m : LinenMod α ι ο μ) : ToNNX α → List (Option μ × ι) → Except Err (List ο × ToNNX α)
  | s, [] => .ok ([], s)
  | s, (mu, x) :: rest => do
      let (o, s') ← s.call m mu x
      let (os, s'') ← runWrapper m s' rest
      pure (o :: os, s'')

def runRef (m : LinenMod α ι ο μ) : LinenRef α → List (Option μ × ι) → Except Err (List ο × LinenRef α)
  | s, [] => .ok ([], s)
  | s, (mu, x) :: rest => do
      let (o, s') ← s.call m mu x
      let (os, s'') ← runRef m s' rest
      pure (o :: os, s'')

theorem run_sim (m : LinenMod α ι ο μ) (hm : ModOk m) : ∀ (hist : List (Option μ × ι)) (s : ToNNX α)
    (ref : LinenRef α), Sim s ref → ∀ outs ref', runRef m ref hist = .ok (outs, ref') →
    ∃ s', runWrapper m s hist = .ok (outs, s') ∧ Sim s' ref' := by
  intro hist
  induction hist with
  | nil =>
    intro s ref hsim outs ref' h
    simp only [runRef, Except.ok.injEq, Prod.mk.injEq] at h
    obtain ⟨rfl, rfl⟩ := h
    exact ⟨s, rfl, hsim⟩
  | cons hd rest ih =>
    intro s ref hsim outs ref' h
    obtain ⟨mu, x⟩ := hd
    simp only [runRef, bind_ok, pure, Except.pure, Except.ok.injEq, Prod.mk.injEq] at h
    obtain ⟨⟨o, ref1⟩, hcall, ⟨os, ref2⟩, hrest, rfl, rfl⟩ := h
    obtain ⟨s1, hs1, hsim1⟩ := call_sim m hm s ref hsim mu x o ref1 hcall
    obtain ⟨s2, hs2, hsim2⟩ := ih s1 ref1 hsim1 os ref2 hrest
    exact ⟨s2, by simp [runWrapper, hs1, hs2, bind, Except.bind, pure, Except.pure], hsim2⟩

/-! ### lazy_init -/

theorem shallowMerge_nil : ∀ (A acc : Forest α), (∀ k ∈ dkeys A, k ∉ dkeys acc) → (dkeys A).Nodup →
    shallowMerge acc A = acc ++ A := by
  intro A
  induction A with
  | nil => intro acc _ _; simp [shallowMerge]
  | cons kt r ih =>
    intro acc hd hn
    obtain ⟨k, t⟩ := kt
    simp only [dkeys_cons, List.nodup_cons] at hn
    have hk : k ∉ dkeys acc := hd k (by simp)
    have hset : dset acc k t = acc ++ [(k, t)] := by
      clear ih hd hn
      induction acc with
      | nil => rfl
      | cons hd0 r0 ih0 =>
        obtain ⟨k0, t0⟩ := hd0
        simp only [dkeys_cons, List.mem_cons, not_or] at hk
        simp only [dset, hk.1, ↓reduceIte, List.cons_append, List.cons.injEq, true_and]
        exact ih0 hk.2
    simp only [shallowMerge, List.foldl_cons] at ih ⊢
    rw [hset, ih (acc ++ [(k, t)]) (by
      intro k' hk' hm
      simp only [dkeys, List.map_append, List.map_cons, List.map_nil, List.mem_append,
        List.mem_singleton] at hm
      rcases hm with hm | rfl
      · exact hd k' (by simp [hk']) hm
      · exact hn.1 hk') hn.2]
    simp

/-- **`lazy_init`**: from an empty wrapper it returns `init`'s output and leaves the wrapper in step
with a caller who keeps `init`'s variables; every leaf is stored in a Variable of the type registered
for its collection, with the same array and the axis names as `sharding` -/
theorem lazyInit_sim (m : LinenMod α ι ο μ) (hm : ModOk m) (s : ToNNX α) (hi : s.reg.Inj) (hb : s.reg.Bounded)
    (hempty : s.attrs = []) (x : ι) (o : ο) (V : Forest (LBox α))
    (hinit : m.init (renameDefault s.rngs.draw.1) x = .ok (o, V)) :
    ∃ s', s.lazyInit m x = .ok (o, s') ∧ Sim s' { vars := V, rngs := s.rngs.draw.2 } ∧
      (∀ q v, leafAtF s'.attrs q = some v →
        ∃ c b, leafAtF V (c :: q) = some b ∧ s'.reg.typeOf c = some v.vtype ∧ v.value = b.value ∧
          (∀ n, b.names? = some n → Meta.get? v.md "sharding" = some n) ∧ v.Canon) := by
  have hVok := hm.initOk s.reg _ x o V hi hb hinit
  obtain ⟨r', A, V', hfwd, hback, hi', hb', hsub, hwA, hwV', hnV', hequiv, hplace⟩ :=
    vars_attrs_vars s.reg hi hb V hVok
  have hattrs : setAttrs s.attrs A = A := by
    rw [hempty, setAttrs, shallowMerge_nil A [] (by simp) (WFF_nodup A hwA)]; simp
  refine ⟨{ attrs := A, reg := r', rngs := s.rngs.draw.2 }, ?_, ?_, ?_⟩
  · simp only [ToNNX.lazyInit, Rngs.draw, bind, Except.bind, pure, Except.pure] at hinit ⊢
    rw [hinit]; simp only [hfwd, hattrs]
  · refine ⟨⟨hi', hb', hwA, ?_, ?_⟩, rfl, hVok.wf, V', hback, hequiv⟩
    · intro q v hl
      obtain ⟨_, _, _, _, _, _, hcan⟩ := hplace q v hl
      exact hcan
    · intro q v hl
      obtain ⟨c, b, _, hty, _⟩ := hplace q v hl
      exact ⟨c, Reg.nameOf_of_typeOf r' hi' c _ hty⟩
  · exact hplace

end Flax.Bridge
