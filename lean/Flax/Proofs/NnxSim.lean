/-
C04 helper lemmas (2): the simulation of `flatten` (+ `outer_index` stamps) by `unflattenO` with
`outer_index_outer_ref`.  It generalises C03's `sim` (which is the case "nothing is re-used"): objects whose
stamp is bound by `omap` are re-used in place (`clear` + `init` / value update), all others are created.
Used twice by the protocol: steps (1)+(2) (no re-use, empty target heap) and steps (3)+(4) (re-use of the
caller's objects in the caller's heap).
-/
import Flax.Proofs.NnxRel

namespace Flax.Nnx
open Flax.Heap Flax.Graph

/-! ### `flatten` only appends to `ref_index` -/

theorem flatten_prefix (g : Heap) : ∀ fuel : Nat,
    (∀ path v idx gd ls idx', flattenVal fuel g path v idx = .ok (gd, ls, idx') → ∃ new, idx' = idx ++ new) ∧
    (∀ path items idx gs ls idx', flattenItems fuel g path items idx = .ok (gs, ls, idx') → ∃ new, idx' = idx ++ new) := by
  intro fuel
  induction fuel with
  | zero =>
    constructor
    · intro path v idx gd ls idx' hh; simp [flattenVal] at hh
    · intro path items idx gs ls idx' hh; simp [flattenItems] at hh
  | succ fuel ih =>
    constructor
    · intro path v idx gd ls idx' hh
      cases v with
      | static s => simp [flattenVal] at hh; exact ⟨[], by simp [hh.2.2]⟩
      | array d => simp [flattenVal] at hh; exact ⟨[], by simp [hh.2.2]⟩
      | none => simp [flattenVal] at hh; exact ⟨[], by simp [hh.2.2]⟩
      | seq t xs =>
        simp only [flattenVal] at hh
        split at hh
        · cases hh
        · next as ls1 idx1 heq =>
          simp at hh; obtain ⟨_, _, rfl⟩ := hh
          exact ih.2 _ _ _ _ _ _ heq
      | dict kvs =>
        simp only [flattenVal] at hh
        split at hh
        · cases hh
        · next as ls1 idx1 heq =>
          simp at hh; obtain ⟨_, _, rfl⟩ := hh
          exact ih.2 _ _ _ _ _ _ heq
      | ref a =>
        simp only [flattenVal] at hh
        split at hh
        · simp at hh; exact ⟨[], by simp [hh.2.2]⟩
        · split at hh
          · cases hh
          · simp at hh; exact ⟨[a], hh.2.2.symm⟩
          · split at hh
            · cases hh
            · next as ls1 idx1 heq =>
              simp at hh; obtain ⟨_, _, rfl⟩ := hh
              obtain ⟨new, e⟩ := ih.2 _ _ _ _ _ _ heq
              exact ⟨a :: new, by rw [e]; simp⟩
    · intro path items idx gs ls idx' hh
      cases items with
      | nil => simp [flattenItems] at hh; exact ⟨[], by simp [hh.2.2]⟩
      | cons kv rest =>
        obtain ⟨k, v⟩ := kv
        simp only [flattenItems] at hh
        split at hh
        · cases hh
        · next g1 ls1 idx1 heq1 =>
          split at hh
          · cases hh
          · next gs2 ls2 idx2 heq2 =>
            simp at hh; obtain ⟨_, _, rfl⟩ := hh
            obtain ⟨n1, e1⟩ := ih.1 _ _ _ _ _ _ heq1
            obtain ⟨n2, e2⟩ := ih.2 _ _ _ _ _ _ heq2
            exact ⟨n1 ++ n2, by rw [e2, e1]; simp⟩

/-! ### what is re-used -/

/-- `reuse a = some c`: the object `a` of the flattened heap `g` carries a stamp that `omap` binds to the existing
object `c` of the target heap `H0`.  The protocol guarantees: distinct objects re-use distinct targets, a
target has the kind (class / Variable type and metadata) of its source. -/
structure Reuse (g H0 : Heap) (reuse : Addr → Option Addr) : Prop where
  inj : ∀ (a a' c : Nat), reuse a = some c → reuse a' = some c → a = a'
  lt : ∀ (a c : Nat), reuse a = some c → c < H0.length
  node : ∀ (a c : Nat) cls attrs, reuse a = some c → g[a]? = some (.node cls attrs) → ∃ A0, H0[c]? = some (.node cls A0)
  var : ∀ (a c : Nat) ty v md, reuse a = some c → g[a]? = some (.var ty v md) → ∃ v0, H0[c]? = some (.var ty v0 md)

/-- invariant of the joint run (cf. C03 `Good`): `ir` binds the indices `0 … idx.length-1` injectively, an object is
bound to its re-use target if it has one and to a new address otherwise; target objects that nobody re-used so far
are untouched -/
structure GoodO (H0 : Heap) (reuse : Addr → Option Addr) (idx : RefIndex) (ir : IndexRef) (H : Heap) : Prop where
  nodup : idx.Nodup
  dom : ∀ i, (irLookup i ir).isSome = true ↔ i < idx.length
  tgt : ∀ (i a b : Nat), idx[i]? = some a → irLookup i ir = some b →
          (reuse a = some b) ∨ (reuse a = Option.none ∧ H0.length ≤ b ∧ b < H.length)
  inj : ∀ (i j b : Nat), irLookup i ir = some b → irLookup j ir = some b → i = j
  len : H0.length ≤ H.length
  frame : ∀ (c : Nat), c < H0.length → (∀ (a : Nat), a ∈ idx → reuse a ≠ some c) → H[c]? = H0[c]?
  irLen : ir.length = idx.length
  onto : ∀ (b : Nat), H0.length ≤ b → b < H.length → ∃ i, irLookup i ir = some b

theorem GoodO.nil (H0 : Heap) (reuse : Addr → Option Addr) : GoodO H0 reuse [] [] H0 :=
  ⟨List.nodup_nil, by simp [irLookup], by simp [irLookup], by simp [irLookup], Nat.le_refl _,
    fun _ _ _ => rfl, rfl, fun b h1 h2 => by omega⟩

section
variable {g H0 : Heap} {reuse : Addr → Option Addr}

theorem phi_idx {idx : RefIndex} {ir : IndexRef} {a b : Nat} (h : phi idx ir a = some b) :
    ∃ (i : Nat), idx[i]? = some a ∧ irLookup i ir = some b := by
  unfold phi at h
  split at h
  · next i hi => exact ⟨i, indexOf?_some hi, h⟩
  · cases h

theorem phi_tgt {idx ir H} (G : GoodO H0 reuse idx ir H) {a b : Nat} (h : phi idx ir a = some b) :
    (reuse a = some b) ∨ (reuse a = Option.none ∧ H0.length ≤ b ∧ b < H.length) := by
  obtain ⟨i, h1, h2⟩ := phi_idx h
  exact G.tgt i a b h1 h2

theorem phi_ltO (R : Reuse g H0 reuse) {idx ir H} (G : GoodO H0 reuse idx ir H) {a b : Nat}
    (h : phi idx ir a = some b) : b < H.length := by
  rcases phi_tgt G h with h1 | ⟨_, _, h3⟩
  · have := R.lt a b h1; have := G.len; omega
  · exact h3

theorem phi_injO {idx ir H} (G : GoodO H0 reuse idx ir H) {a a' b : Addr} (h : phi idx ir a = some b)
    (h' : phi idx ir a' = some b) : a = a' := by
  unfold phi at h h'
  split at h
  · next i hi =>
    split at h'
    · next j hj =>
      have := G.inj i j b h h'
      subst this
      exact indexOf?_inj hi hj
    · cases h'
  · cases h

theorem phi_memO {idx : RefIndex} {ir : IndexRef} {a b : Addr} (h : phi idx ir a = some b) : a ∈ idx := by
  obtain ⟨i, h1, _⟩ := phi_idx h
  exact List.mem_of_getElem? h1

theorem phi_of_memO {idx ir H} (G : GoodO H0 reuse idx ir H) {a : Addr} (h : a ∈ idx) : ∃ b, phi idx ir a = some b := by
  obtain ⟨i, hi⟩ := indexOf?_of_mem h
  have hlt := indexOf?_lt hi
  have := (G.dom i).mpr hlt
  obtain ⟨b, hb⟩ := Option.isSome_iff_exists.mp this
  exact ⟨b, by simp [phi, hi, hb]⟩

theorem GoodO.heap_same {idx ir H H'} (G : GoodO H0 reuse idx ir H) (hl : H'.length = H.length)
    (hf : ∀ (c : Nat), c < H0.length → (∀ (a : Nat), a ∈ idx → reuse a ≠ some c) → H'[c]? = H[c]?) : GoodO H0 reuse idx ir H' :=
  ⟨G.nodup, G.dom, fun i a b h1 h2 => by rw [hl]; exact G.tgt i a b h1 h2, G.inj, by rw [hl]; exact G.len,
    fun c hc hn => by rw [hf c hc hn]; exact G.frame c hc hn, G.irLen, fun b h1 h2 => G.onto b h1 (by omega)⟩

/-- registering a new object `a` at its target `c`: an existing object that is cleared / overwritten (`write`), or a
new one (`append`) -/
theorem GoodO.push (R : Reuse g H0 reuse) {idx ir H} (G : GoodO H0 reuse idx ir H) {a : Nat} (ha : a ∉ idx)
    {c : Nat} {Hc : Heap}
    (hc : (reuse a = some c ∧ ∃ o, Hc = write H c o) ∨ (reuse a = Option.none ∧ c = H.length ∧ ∃ o, Hc = H ++ [o])) :
    GoodO H0 reuse (idx ++ [a]) ((idx.length, c) :: ir) Hc := by
  have hlen : H.length ≤ Hc.length := by
    rcases hc with ⟨_, o, rfl⟩ | ⟨_, _, o, rfl⟩
    · simp [write_length]
    · simp
  have hcl : c < Hc.length := by
    rcases hc with ⟨h1, o, rfl⟩ | ⟨_, h2, o, rfl⟩
    · have := R.lt a c h1; have := G.len; simp [write_length]; omega
    · simp; omega
  -- an old binding never points at `c`
  have hold : ∀ j, irLookup j ir = some c → False := by
    intro j hj
    have hjlt : j < idx.length := (G.dom j).mp (by simp [hj])
    obtain ⟨a'', ha''⟩ : ∃ a'', idx[j]? = some a'' := ⟨idx[j], List.getElem?_eq_getElem hjlt⟩
    have hmem : a'' ∈ idx := List.mem_of_getElem? ha''
    rcases G.tgt j a'' c ha'' hj with h1 | ⟨_, h2, h3⟩
    · rcases hc with ⟨hr, _⟩ | ⟨_, hcH, _⟩
      · exact ha (R.inj a a'' c hr h1 ▸ hmem)
      · have := R.lt a'' c h1; have := G.len; omega
    · rcases hc with ⟨hr, _⟩ | ⟨_, hcH, _⟩
      · have := R.lt a c hr; omega
      · omega
  refine ⟨?_, ?_, ?_, ?_, ?_, ?_, ?_, ?_⟩
  · exact List.nodup_append.mpr ⟨G.nodup, by simp, by intro x hx y hy; simp at hy; subst hy; exact fun e => ha (e ▸ hx)⟩
  · intro i
    simp only [irLookup_cons, List.length_append, List.length_singleton]
    by_cases e : idx.length = i
    · simp [e]
    · simp only [e, if_false, G.dom i]; omega
  · intro i a' b h1 h2
    simp only [irLookup_cons] at h2
    split at h2
    · next e =>
      subst e
      have : a' = a := by simpa using h1.symm
      subst this
      have : c = b := Option.some.inj h2
      subst this
      rcases hc with ⟨hr, _⟩ | ⟨hr, hcH, _⟩
      · exact Or.inl hr
      · exact Or.inr ⟨hr, by have := G.len; omega, hcl⟩
    · next e =>
      have hilt : i < idx.length := (G.dom i).mp (by simp [h2])
      rw [List.getElem?_append_left hilt] at h1
      rcases G.tgt i a' b h1 h2 with h3 | ⟨h3, h4, h5⟩
      · exact Or.inl h3
      · exact Or.inr ⟨h3, h4, by omega⟩
  · intro i j b hi hj
    simp only [irLookup_cons] at hi hj
    split at hi <;> split at hj
    · omega
    · have e1 : c = b := Option.some.inj hi
      subst e1; exact absurd hj (fun h => hold j h)
    · have e1 : c = b := Option.some.inj hj
      subst e1; exact absurd hi (fun h => hold i h)
    · exact G.inj i j b hi hj
  · have := G.len; omega
  · intro c' hc' hn
    have h1 : Hc[c']? = H[c']? := by
      rcases hc with ⟨hr, o, rfl⟩ | ⟨_, _, o, rfl⟩
      · have hne : c' ≠ c := fun e => hn a (by simp) (e ▸ hr)
        exact write_frame _ _ _ _ hne
      · have := G.len
        exact List.getElem?_append_left (by omega)
    rw [h1]
    exact G.frame c' hc' (fun a' ha' => hn a' (List.mem_append_left _ ha'))
  · simp [G.irLen]
  · intro b h1 h2
    by_cases e : b = c
    · exact ⟨idx.length, by simp [irLookup_cons, e]⟩
    · have hb : b < H.length := by
        rcases hc with ⟨_, o, rfl⟩ | ⟨_, hcH, o, rfl⟩
        · simpa [write_length] using h2
        · simp at h2; omega
      obtain ⟨i, hi⟩ := G.onto b h1 hb
      have hilt : i < idx.length := (G.dom i).mp (by simp [hi])
      exact ⟨i, by simp only [irLookup_cons]; rw [if_neg (by omega)]; exact hi⟩

/-- what one sub-run of flatten / unflattenO adds (cf. C03 `Post`; the target heap is no longer only extended) -/
structure PostO (g : Heap) (idx : RefIndex) (ir : IndexRef) (H : Heap)
    (idx' : RefIndex) (ir' : IndexRef) (H' : Heap) : Prop where
  lenLe : H.length ≤ H'.length
  idxExt : ∃ new, idx' = idx ++ new
  old : ∀ i, i < idx.length → irLookup i ir' = irLookup i ir
  stable : ∀ (c : Nat), c < H.length → (∀ (a : Nat), a ∈ idx' → a ∉ idx → phi idx' ir' a ≠ some c) → H'[c]? = H[c]?
  obj : ∀ (a : Nat), a ∈ idx' → a ∉ idx → ∃ (o o' : Obj) (b : Nat), g[a]? = some o ∧ phi idx' ir' a = some b ∧ H'[b]? = some o' ∧
          ObjRel (phi idx' ir') o o'

theorem PostO.refl (g : Heap) (idx : RefIndex) (ir : IndexRef) (H : Heap) : PostO g idx ir H idx ir H :=
  ⟨Nat.le_refl _, ⟨[], by simp⟩, fun _ _ => rfl, fun _ _ _ => rfl, fun a h1 h2 => absurd h1 h2⟩

theorem PostO.phiLe {idx ir H idx' ir' H'} (p : PostO g idx ir H idx' ir' H') : PhiLe (phi idx ir) (phi idx' ir') := by
  intro a b hab
  obtain ⟨new, rfl⟩ := p.idxExt
  unfold phi at hab ⊢
  split at hab
  · next i hi =>
    rw [indexOf?_append_left new hi]
    simp only
    rw [p.old i (indexOf?_lt hi)]; exact hab
  · cases hab

theorem PostO.trans (R : Reuse g H0 reuse) {idx ir H idx1 ir1 H1 idx2 ir2 H2}
    (G1 : GoodO H0 reuse idx1 ir1 H1) (G2 : GoodO H0 reuse idx2 ir2 H2)
    (p1 : PostO g idx ir H idx1 ir1 H1) (p2 : PostO g idx1 ir1 H1 idx2 ir2 H2) : PostO g idx ir H idx2 ir2 H2 := by
  obtain ⟨new1, e1⟩ := p1.idxExt
  obtain ⟨new2, e2⟩ := p2.idxExt
  have hl1 : idx.length ≤ idx1.length := by rw [e1]; simp
  have sub1 : ∀ a, a ∈ idx → a ∈ idx1 := fun a h => by rw [e1]; exact List.mem_append_left _ h
  have sub2 : ∀ a, a ∈ idx1 → a ∈ idx2 := fun a h => by rw [e2]; exact List.mem_append_left _ h
  refine ⟨Nat.le_trans p1.lenLe p2.lenLe, ⟨new1 ++ new2, by rw [e2, e1]; simp⟩, ?_, ?_, ?_⟩
  · intro i hi
    rw [p2.old i (by omega), p1.old i hi]
  · intro c hc hn
    have h1 : H1[c]? = H[c]? := p1.stable c hc (fun a ha hna hphi => hn a (sub2 a ha) hna (p2.phiLe a c hphi))
    have h2 : H2[c]? = H1[c]? := p2.stable c (Nat.lt_of_lt_of_le hc p1.lenLe)
      (fun a ha hna => hn a ha (fun h => hna (sub1 a h)))
    rw [h2, h1]
  · intro a ha2 hna
    by_cases ha1 : a ∈ idx1
    · obtain ⟨o, o', b, ho, hphi, hH, hrel⟩ := p1.obj a ha1 hna
      have hb := phi_ltO R G1 hphi
      refine ⟨o, o', b, ho, p2.phiLe a b hphi, ?_, ObjRel.mono p2.phiLe hrel⟩
      rw [p2.stable b hb (fun a' ha' hna' hphi' => hna' (phi_injO G2 hphi' (p2.phiLe a b hphi) ▸ ha1))]
      exact hH
    · exact p2.obj a ha2 ha1

end

/-! ### the simulation -/

theorem convLeaves_append (raw : Bool) (a b : FlatState) :
    convLeaves raw (a ++ b) = convLeaves raw a ++ convLeaves raw b := by
  simp [convLeaves]

/-- **simulation**: running `unflattenO omap` on the stamped output of `flatten` rebuilds, value by value, an image
of the flattened graph under the address map `phi`, consuming exactly the emitted leaves; objects with a re-use
target are rebuilt in place. `tbl` is the stamp table, `idxF` the final `ref_index` of the whole `to_tree`. -/
theorem simO {g H0 : Heap} {reuse : Addr → Option Addr} (R : Reuse g H0 reuse) (raw : Bool)
    (tbl : Nat → Option Nat) (omap : Nat → Option Addr) (idxF : RefIndex)
    (hst : ∀ i a, idxF[i]? = some a → (tbl i).bind omap = reuse a) : ∀ fuel : Nat,
    (∀ path v idx gd ls idx', flattenVal fuel g path v idx = .ok (gd, ls, idx') → (∃ r, idxF = idx' ++ r) →
      ∀ H ir rest, GoodO H0 reuse idx ir H →
        ∃ v' H' ir', unflattenO omap (stampWith tbl gd) (convLeaves raw ls ++ rest) H ir = .ok (v', rest, H', ir') ∧
          GoodO H0 reuse idx' ir' H' ∧ PostO g idx ir H idx' ir' H' ∧ ValRel (phi idx' ir') v v') ∧
    (∀ path items idx gs ls idx', flattenItems fuel g path items idx = .ok (gs, ls, idx') → (∃ r, idxF = idx' ++ r) →
      ∀ H ir rest, GoodO H0 reuse idx ir H →
        ∃ vs H' ir', unflattenAttrsO omap (stampAttrs tbl gs) (convLeaves raw ls ++ rest) H ir = .ok (vs, rest, H', ir') ∧
          GoodO H0 reuse idx' ir' H' ∧ PostO g idx ir H idx' ir' H' ∧ KVsRel (phi idx' ir') items vs) := by
  intro fuel
  induction fuel with
  | zero =>
    constructor
    · intro path v idx gd ls idx' hh; simp [flattenVal] at hh
    · intro path items idx gs ls idx' hh; simp [flattenItems] at hh
  | succ fuel ih =>
    constructor
    · intro path v idx gd ls idx' hh hpre H ir rest G
      cases v with
      | static s =>
        simp [flattenVal] at hh; obtain ⟨rfl, rfl, rfl⟩ := hh
        exact ⟨.static s, H, ir, by simp [stampWith, unflattenO, convLeaves], G, PostO.refl g _ _ _, .static s⟩
      | array d =>
        simp [flattenVal] at hh; obtain ⟨rfl, rfl, rfl⟩ := hh
        refine ⟨.array d, H, ir, ?_, G, PostO.refl g _ _ _, .array d⟩
        cases raw <;> simp [stampWith, unflattenO, convLeaves, rawLeaf]
      | none =>
        simp [flattenVal] at hh; obtain ⟨rfl, rfl, rfl⟩ := hh
        exact ⟨.none, H, ir, by simp [stampWith, stampAttrs, unflattenO, unflattenAttrsO, convLeaves], G, PostO.refl g _ _ _, .none⟩
      | seq t xs =>
        simp only [flattenVal] at hh
        split at hh
        · cases hh
        · next as ls1 idx1 heq =>
          simp at hh; obtain ⟨rfl, rfl, rfl⟩ := hh
          obtain ⟨vs, H', ir', hu, G', p', hr⟩ := ih.2 path _ idx as ls1 idx1 heq hpre H ir rest G
          exact ⟨.seq t (vs.map (·.2)), H', ir', by simp only [stampWith, unflattenO, hu], G', p', .seq (KVsRel.enum_vals hr)⟩
      | dict kvs =>
        simp only [flattenVal] at hh
        split at hh
        · cases hh
        · next as ls1 idx1 heq =>
          simp at hh; obtain ⟨rfl, rfl, rfl⟩ := hh
          obtain ⟨vs, H', ir', hu, G', p', hr⟩ := ih.2 path _ idx as ls1 idx1 heq hpre H ir rest G
          refine ⟨.dict vs, H', ir', by simp only [stampWith, unflattenO, hu], G', p', .dict ?_⟩
          rw [KVsRel.sortKV_right hr]; exact hr
      | ref a =>
        simp only [flattenVal] at hh
        split at hh
        · next i hi =>
          simp at hh; obtain ⟨rfl, rfl, rfl⟩ := hh
          have hlt := indexOf?_lt hi
          obtain ⟨b, hb⟩ := Option.isSome_iff_exists.mp ((G.dom i).mpr hlt)
          exact ⟨.ref b, H, ir, by simp [stampWith, unflattenO, hb, convLeaves], G, PostO.refl g _ _ _,
            .ref (by simp [phi, hi, hb])⟩
        · next hnone =>
          have ha : a ∉ idx := indexOf?_none.mp hnone
          split at hh
          · cases hh
          · next ty val md hget =>
            -- a Variable seen for the first time
            simp at hh; obtain ⟨rfl, rfl, rfl⟩ := hh
            obtain ⟨r, hr⟩ := hpre
            have hF : idxF[idx.length]? = some a := by rw [hr]; simp
            have hbind : (tbl idx.length).bind omap = reuse a := hst _ _ hF
            have hleaf : convLeaves raw [(path, Leaf.vstate ty val md)] ++ rest =
                (if raw then Leaf.arr val else Leaf.vstate ty val md) :: rest := by
              cases raw <;> simp [convLeaves, rawLeaf]
            cases hre : reuse a with
            | some c =>
              -- the Variable exists in the target heap: it is updated in place
              have hclt := R.lt a c hre
              have hHc : H[c]? = H0[c]? := G.frame c hclt (fun a' ha' hr' => ha (R.inj a a' c hre hr' ▸ ha'))
              obtain ⟨v0, hv0⟩ := R.var a c ty val md hre hget
              have G' := GoodO.push R G ha (c := c) (Hc := write H c (Obj.var ty val md)) (Or.inl ⟨hre, _, rfl⟩)
              have hcH : c < H.length := Nat.lt_of_lt_of_le hclt G.len
              refine ⟨.ref c, write H c (Obj.var ty val md), (idx.length, c) :: ir, ?_, G', ?_, .ref (phi_new ha _)⟩
              · rw [hleaf]
                simp only [stampWith, unflattenO, hbind, hre, hHc, hv0]
                cases raw <;> simp
              · refine ⟨by simp [write_length], ⟨[a], rfl⟩, ?_, ?_, ?_⟩
                · intro i hi; simp only [irLookup_cons]; rw [if_neg (by omega)]
                · intro c' hc' hn
                  have hne : c' ≠ c := fun e => hn a (by simp) ha (e ▸ phi_new ha _)
                  exact write_frame _ _ _ _ hne
                · intro a' ha' hna'
                  have : a' = a := by
                    rcases List.mem_append.mp ha' with h1 | h1
                    · exact absurd h1 hna'
                    · simpa using h1
                  subst this
                  exact ⟨_, _, c, hget, phi_new ha _, write_get _ _ _ hcH, .var ty val md⟩
            | none =>
              have G' := GoodO.push R G ha (c := H.length) (Hc := H ++ [Obj.var ty val md]) (Or.inr ⟨hre, rfl, _, rfl⟩)
              refine ⟨.ref H.length, H ++ [Obj.var ty val md], (idx.length, H.length) :: ir, ?_, G', ?_, .ref (phi_new ha _)⟩
              · rw [hleaf]
                simp only [stampWith, unflattenO, hbind, hre]
                cases raw <;> simp [makeVar]
              · refine ⟨by simp, ⟨[a], rfl⟩, ?_, ?_, ?_⟩
                · intro i hi; simp only [irLookup_cons]; rw [if_neg (by omega)]
                · intro c' hc' _
                  exact List.getElem?_append_left hc'
                · intro a' ha' hna'
                  have : a' = a := by
                    rcases List.mem_append.mp ha' with h1 | h1
                    · exact absurd h1 hna'
                    · simpa using h1
                  subst this
                  exact ⟨_, _, H.length, hget, phi_new ha _, by simp, .var ty val md⟩
          · next cls attrs hget =>
            split at hh
            · cases hh
            · next as ls1 idx1 heq =>
              simp at hh; obtain ⟨rfl, rfl, rfl⟩ := hh
              obtain ⟨new, enew⟩ := (flatten_prefix g fuel).2 _ _ _ _ _ _ heq
              obtain ⟨r, hr⟩ := hpre
              have hF : idxF[idx.length]? = some a := by rw [hr, enew]; simp
              have hbind : (tbl idx.length).bind omap = reuse a := hst _ _ hF
              have hnone' : irLookup idx.length ir = Option.none := by
                cases e : irLookup idx.length ir with
                | none => rfl
                | some b => have := (G.dom idx.length).mp (by simp [e]); omega
              -- the target `c` and the heap `Hc` after `clear` / `create_empty`
              obtain ⟨c, Hc, hcase, hunf⟩ : ∃ (c : Nat) (Hc : Heap),
                  ((reuse a = some c ∧ ∃ o, Hc = write H c o) ∨ (reuse a = Option.none ∧ c = H.length ∧ ∃ o, Hc = H ++ [o])) ∧
                  ∀ (rest' : List Leaf) (vs : List (Key × PVal)) (ls' : List Leaf) (H' : Heap) (ir' : IndexRef),
                    unflattenAttrsO omap (stampAttrs tbl as) rest' Hc ((idx.length, c) :: ir) = .ok (vs, ls', H', ir') →
                    unflattenO omap (stampWith tbl (.node (.obj cls) (some idx.length) as)) rest' H ir =
                      .ok (.ref c, ls', write H' c (Obj.node cls vs), ir') := by
                cases hre : reuse a with
                | some c =>
                  have hclt := R.lt a c hre
                  have hHc : H[c]? = H0[c]? := G.frame c hclt (fun a' ha' hr' => ha (R.inj a a' c hre hr' ▸ ha'))
                  obtain ⟨A0, hA0⟩ := R.node a c cls attrs hre hget
                  refine ⟨c, write H c (Obj.node cls []), Or.inl ⟨rfl, _, rfl⟩, ?_⟩
                  intro rest' vs ls' H' ir' hX
                  simp [stampWith, unflattenO, hnone', hbind, hre, hHc, hA0, hX]
                | none =>
                  refine ⟨H.length, H ++ [Obj.node cls []], Or.inr ⟨rfl, rfl, _, rfl⟩, ?_⟩
                  intro rest' vs ls' H' ir' hX
                  simp [stampWith, unflattenO, hnone', hbind, hre, hX]
              have G1 := GoodO.push R G ha hcase
              obtain ⟨vs, H', ir', hu, G', p', hrel⟩ := ih.2 path _ _ as ls1 idx1 heq ⟨r, hr⟩ Hc
                ((idx.length, c) :: ir) rest G1
              have hHcl : H.length ≤ Hc.length := by
                rcases hcase with ⟨_, o, rfl⟩ | ⟨_, _, o, rfl⟩
                · simp [write_length]
                · simp
              have hcHc : c < Hc.length := by
                rcases hcase with ⟨h1, o, rfl⟩ | ⟨_, h2, o, rfl⟩
                · have := R.lt a c h1; have := G.len; simp [write_length]; omega
                · simp; omega
              have hcH' : c < H'.length := Nat.lt_of_lt_of_le hcHc p'.lenLe
              have hphia : phi idx1 ir' a = some c := p'.phiLe a _ (phi_new ha _)
              have hamem : a ∈ idx1 := by rw [enew]; simp
              refine ⟨.ref c, write H' c (Obj.node cls vs), ir', ?_, ?_, ?_, .ref hphia⟩
              · exact hunf _ _ _ _ _ hu
              · exact G'.heap_same (by simp [write_length]) (fun c' hc' hn => by
                  have hne : c' ≠ c := fun e => by
                    rcases phi_tgt G' hphia with h1 | ⟨_, h2, _⟩
                    · exact hn a hamem (e ▸ h1)
                    · omega
                  exact write_frame _ _ _ _ hne)
              · refine ⟨?_, ⟨a :: new, by rw [enew]; simp⟩, ?_, ?_, ?_⟩
                · simp only [write_length]; exact Nat.le_trans hHcl p'.lenLe
                · intro i hi
                  rw [p'.old i (by simp; omega)]
                  simp only [irLookup_cons]; rw [if_neg (by omega)]
                · intro c' hc' hn
                  have hne : c' ≠ c := fun e => hn a hamem ha (e ▸ hphia)
                  rw [write_frame _ _ _ _ hne]
                  rw [p'.stable c' (by omega) (fun a' ha' hna' => hn a' ha' (fun h => hna' (List.mem_append_left _ h)))]
                  rcases hcase with ⟨_, o, rfl⟩ | ⟨_, _, o, rfl⟩
                  · exact write_frame _ _ _ _ hne
                  · exact List.getElem?_append_left hc'
                · intro a' ha' hna'
                  by_cases e : a' = a
                  · subst e
                    refine ⟨_, _, c, hget, hphia, write_get _ _ _ hcH', .node ?_⟩
                    rw [KVsRel.sortKV_right hrel]; exact hrel
                  · have hnin : a' ∉ idx ++ [a] := by simp [hna', e]
                    obtain ⟨o, o', b, ho, hphi, hH, hrel'⟩ := p'.obj a' ha' hnin
                    refine ⟨o, o', b, ho, hphi, ?_, hrel'⟩
                    have hne : b ≠ c := fun eb => e (phi_injO G' (eb ▸ hphi) hphia)
                    rw [write_frame _ _ _ _ hne]; exact hH
    · intro path items idx gs ls idx' hh hpre H ir rest G
      cases items with
      | nil =>
        simp [flattenItems] at hh; obtain ⟨rfl, rfl, rfl⟩ := hh
        exact ⟨[], H, ir, by simp [stampAttrs, unflattenAttrsO, convLeaves], G, PostO.refl g _ _ _, .nil⟩
      | cons kv rest' =>
        obtain ⟨k, v⟩ := kv
        simp only [flattenItems] at hh
        split at hh
        · cases hh
        · next g1 ls1 idx1 heq1 =>
          split at hh
          · cases hh
          · next gs2 ls2 idx2 heq2 =>
            simp at hh; obtain ⟨rfl, rfl, rfl⟩ := hh
            obtain ⟨n2, e2⟩ := (flatten_prefix g fuel).2 _ _ _ _ _ _ heq2
            obtain ⟨r, hr⟩ := hpre
            obtain ⟨v', H1, ir1, hu1, G1, p1, hr1⟩ :=
              ih.1 _ v idx g1 ls1 idx1 heq1 ⟨n2 ++ r, by rw [hr, e2]; simp⟩ H ir (convLeaves raw ls2 ++ rest) G
            obtain ⟨vs, H2, ir2, hu2, G2, p2, hr2⟩ :=
              ih.2 path rest' idx1 gs2 ls2 idx2 heq2 ⟨r, hr⟩ H1 ir1 rest G1
            refine ⟨(k, v') :: vs, H2, ir2, ?_, G2, PostO.trans R G1 G2 p1 p2, .cons (ValRel.mono p2.phiLe hr1) hr2⟩
            simp only [stampAttrs, unflattenAttrsO, convLeaves_append, List.append_assoc, hu1, hu2]


/-! ### a tuple of roots with one shared `ref_index` / `index_ref` -/

theorem flattenRoots_prefix (g : Heap) : ∀ (vs : List PVal) (idx : RefIndex) gds fss idx',
    flattenRoots g vs idx = .ok (gds, fss, idx') → ∃ new, idx' = idx ++ new
  | [], idx, gds, fss, idx', h => by
    simp [flattenRoots] at h; exact ⟨[], by simp [h.2.2]⟩
  | v :: vs, idx, gds, fss, idx', h => by
    simp only [flattenRoots] at h
    split at h
    · cases h
    · next gd ls idx1 heq =>
      split at h
      · cases h
      · next gds2 lss2 idx2 heq2 =>
        simp at h; obtain ⟨_, _, rfl⟩ := h
        obtain ⟨n1, e1⟩ := (flatten_prefix g _).1 _ _ _ _ _ _ heq
        obtain ⟨n2, e2⟩ := flattenRoots_prefix g vs idx1 _ _ _ heq2
        exact ⟨n1 ++ n2, by rw [e2, e1]; simp⟩

/-- `to_tree` over a tuple of roots, with an explicit budget per root (the eager heaps of the loop invariants are not
traversed by the model itself, so they carry no particular budget) -/
inductive FlatRoots (g : Heap) : List PVal → RefIndex → List GDef → List FlatState → RefIndex → Prop where
  | nil (idx : RefIndex) : FlatRoots g [] idx [] [] idx
  | cons {fuel : Nat} {v : PVal} {vs : List PVal} {idx idx1 idx2 : RefIndex} {gd : GDef} {ls : FlatState}
      {gds : List GDef} {lss : List FlatState} :
      flattenVal fuel g [] v idx = .ok (gd, ls, idx1) → FlatRoots g vs idx1 gds lss idx2 →
      FlatRoots g (v :: vs) idx (gd :: gds) (ls :: lss) idx2

theorem flatRoots_of_flattenRoots (g : Heap) : ∀ (vs : List PVal) (idx : RefIndex) gds fss idx',
    flattenRoots g vs idx = .ok (gds, fss, idx') → FlatRoots g vs idx gds fss idx'
  | [], idx, gds, fss, idx', h => by
    simp [flattenRoots] at h; obtain ⟨rfl, rfl, rfl⟩ := h; exact .nil _
  | v :: vs, idx, gds, fss, idx', h => by
    simp only [flattenRoots] at h
    split at h
    · cases h
    · next gd ls idx1 heq =>
      split at h
      · cases h
      · next gds2 lss2 idx2 heq2 =>
        simp at h; obtain ⟨rfl, rfl, rfl⟩ := h
        exact .cons heq (flatRoots_of_flattenRoots g vs idx1 _ _ _ heq2)

theorem flatRoots_prefix {g : Heap} : ∀ {vs : List PVal} {idx : RefIndex} {gds fss idx'},
    FlatRoots g vs idx gds fss idx' → ∃ new, idx' = idx ++ new
  | _, _, _, _, _, .nil _ => ⟨[], by simp⟩
  | _, _, _, _, _, .cons heq ht => by
    obtain ⟨n1, e1⟩ := (flatten_prefix g _).1 _ _ _ _ _ _ heq
    obtain ⟨n2, e2⟩ := flatRoots_prefix ht
    exact ⟨n1 ++ n2, by rw [e2, e1]; simp⟩

/-- the simulation for `to_tree` / `from_tree` over a tuple of roots -/
theorem simRootsF {g H0 : Heap} {reuse : Addr → Option Addr} (R : Reuse g H0 reuse) (raw : Bool)
    (tbl : Nat → Option Nat) (omap : Nat → Option Addr) (idxF : RefIndex)
    (hst : ∀ i a, idxF[i]? = some a → (tbl i).bind omap = reuse a) :
    ∀ {vs : List PVal} {idx : RefIndex} {gds fss idx'}, FlatRoots g vs idx gds fss idx' →
      (∃ r, idxF = idx' ++ r) → ∀ H ir, GoodO H0 reuse idx ir H →
        ∃ vs' H' ir', unflattenRootsO omap (gds.map (stampWith tbl)) (fss.map (convLeaves raw)) H ir = .ok (vs', H', ir') ∧
          GoodO H0 reuse idx' ir' H' ∧ PostO g idx ir H idx' ir' H' ∧ ValsRel (phi idx' ir') vs vs'
  | _, _, _, _, _, .nil idx, _, H, ir, G =>
    ⟨[], H, ir, by simp [unflattenRootsO], G, PostO.refl g _ _ _, .nil⟩
  | _, _, _, _, _, .cons (v := v) (idx := idx) (idx1 := idx1) (gd := gd) (ls := ls) heq ht, hpre, H, ir, G => by
    obtain ⟨n2, e2⟩ := flatRoots_prefix ht
    obtain ⟨r, hr⟩ := hpre
    obtain ⟨v', H1, ir1, hu1, G1, p1, hr1⟩ :=
      (simO R raw tbl omap idxF hst _).1 [] v idx gd ls idx1 heq ⟨n2 ++ r, by rw [hr, e2]; simp⟩ H ir [] G
    obtain ⟨vs', H2, ir2, hu2, G2, p2, hr2⟩ := simRootsF R raw tbl omap idxF hst ht ⟨r, hr⟩ H1 ir1 G1
    refine ⟨v' :: vs', H2, ir2, ?_, G2, PostO.trans R G1 G2 p1 p2, .cons (ValRel.mono p2.phiLe hr1) hr2⟩
    simp only [List.append_nil] at hu1
    simp only [List.map_cons, unflattenRootsO, hu1, hu2]

theorem simRoots {g H0 : Heap} {reuse : Addr → Option Addr} (R : Reuse g H0 reuse) (raw : Bool)
    (tbl : Nat → Option Nat) (omap : Nat → Option Addr) (idxF : RefIndex)
    (hst : ∀ i a, idxF[i]? = some a → (tbl i).bind omap = reuse a)
    (vs : List PVal) (idx : RefIndex) (gds : List GDef) (fss : List FlatState) (idx' : RefIndex)
    (hf : flattenRoots g vs idx = .ok (gds, fss, idx')) (hpre : ∃ r, idxF = idx' ++ r) (H : Heap) (ir : IndexRef)
    (G : GoodO H0 reuse idx ir H) :
    ∃ vs' H' ir', unflattenRootsO omap (gds.map (stampWith tbl)) (fss.map (convLeaves raw)) H ir = .ok (vs', H', ir') ∧
      GoodO H0 reuse idx' ir' H' ∧ PostO g idx ir H idx' ir' H' ∧ ValsRel (phi idx' ir') vs vs' :=
  simRootsF R raw tbl omap idxF hst (flatRoots_of_flattenRoots g vs idx gds fss idx' hf) hpre H ir G

end Flax.Nnx
