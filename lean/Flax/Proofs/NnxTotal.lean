/-
C04 helper lemmas (10): no spurious failures.  On a closed heap (no dangling reference: always true of real Python
objects) every step of the protocol that the model can fail at -- the traversals of `flatten` -- succeeds, so a
call under the transform fails exactly when the body fails, with the body's own error.
-/
import Flax.Proofs.NnxJit
import Flax.Proofs.GraphTotal

namespace Flax.Nnx
open Flax.Heap Flax.Graph

/-! ### references of related values are images of the address map -/

mutual
  theorem valRel_range {φ : Addr → Option Addr} : ∀ {v w : PVal}, ValRel φ v w → ∀ b ∈ deepRefs w, ∃ a, φ a = some b
    | _, _, .static _, b, hb => by simp [deepRefs] at hb
    | _, _, .array _, b, hb => by simp [deepRefs] at hb
    | _, _, .none, b, hb => by simp [deepRefs] at hb
    | _, _, .ref (a := a) hab, b, hb => by simp [deepRefs] at hb; subst hb; exact ⟨a, hab⟩
    | _, _, .seq hs, b, hb => valsRel_range hs b (by simpa [deepRefs] using hb)
    | _, _, .dict (kvs' := kvs') hd, b, hb => by
      simp only [deepRefs] at hb
      obtain ⟨kv, hkv, hb'⟩ := mem_deepRefsKV'.mp hb
      exact kvsRel_range hd b (mem_deepRefsKV'.mpr ⟨kv, mem_sortKV.mpr hkv, hb'⟩)
  theorem valsRel_range {φ : Addr → Option Addr} : ∀ {xs ys : List PVal}, ValsRel φ xs ys → ∀ b ∈ deepRefsL ys, ∃ a, φ a = some b
    | _, _, .nil, b, hb => by simp [deepRefsL] at hb
    | _, _, .cons hv ht, b, hb => by
      simp only [deepRefsL, List.mem_append] at hb
      rcases hb with hb | hb
      · exact valRel_range hv b hb
      · exact valsRel_range ht b hb
  theorem kvsRel_range {φ : Addr → Option Addr} : ∀ {xs ys : List (Key × PVal)}, KVsRel φ xs ys →
      ∀ b ∈ deepRefsKV ys, ∃ a, φ a = some b
    | _, _, .nil, b, hb => by simp [deepRefsKV] at hb
    | _, _, .cons hv ht, b, hb => by
      simp only [deepRefsKV, List.mem_append] at hb
      rcases hb with hb | hb
      · exact valRel_range hv b hb
      · exact kvsRel_range ht b hb
end

/-- the heap built by the inner merge is closed, and so are the inner arguments -/
theorem inner_copy_closed (raw : Bool) {h : Heap} {args : List PVal} {gds : List GDef} {fss : List FlatState} {idx1 : RefIndex}
    (hf : FlatRoots h args [] gds fss idx1) {args' : List PVal} {G : Heap} {ir : IndexRef}
    (hu : unflattenRootsO (fun _ => Option.none) (gds.map (stampWith (fun _ => Option.none))) (fss.map (convLeaves raw)) [] [] =
      .ok (args', G, ir)) : HeapClosed G ∧ ∀ v ∈ args', ValClosed G v := by
  obtain ⟨args'', G', ir', hu', Gd, p, hv⟩ := simRootsF (reuse_none h) raw (fun _ => Option.none) (fun _ => Option.none) idx1
    (fun _ _ _ => rfl) hf ⟨[], by simp⟩ [] [] (GoodO.nil _ _)
  rw [hu] at hu'
  simp at hu'
  obtain ⟨rfl, rfl, rfl⟩ := hu'
  have hlt : ∀ (a b : Nat), phi idx1 ir a = some b → b < G.length := fun a b hab => phi_ltO (reuse_none h) Gd hab
  constructor
  · intro b cls attrs' hb b' hb'
    obtain ⟨i, hi⟩ := Gd.onto b (by simp) (List.getElem?_eq_some_iff.mp hb).1
    have hilt : i < idx1.length := (Gd.dom i).mp (by simp [hi])
    have hab : phi idx1 ir idx1[i] = some b := by
      simp only [phi, indexOf?_of_getElem? Gd.nodup (List.getElem?_eq_getElem hilt), hi]
    obtain ⟨o, o', b2, ho, hphi, hH, hrel⟩ := p.obj idx1[i] (phi_memO hab) (by simp)
    have : b2 = b := by rw [hab] at hphi; exact (Option.some.inj hphi).symm
    subst this
    rw [hb] at hH; cases hH
    cases hrel with
    | node hk =>
      obtain ⟨kv, hkv, hb2⟩ := mem_deepRefsKV'.mp hb'
      obtain ⟨a, ha⟩ := kvsRel_range hk b' (mem_deepRefsKV'.mpr ⟨kv, mem_sortKV.mpr hkv, hb2⟩)
      exact hlt a b' ha
  · intro v hvm b hb
    have : b ∈ deepRefsL args' := mem_deepRefsL'.mpr ⟨v, hvm, hb⟩
    obtain ⟨a, ha⟩ := valsRel_range hv b this
    exact hlt a b ha

/-! ### programs keep heaps closed -/

def ClosedSt (h : Heap) (env : List PVal) : Prop := HeapClosed h ∧ ∀ v ∈ env, ValClosed h v

theorem valClosed_mono {h h' : Heap} (hl : h.length ≤ h'.length) {v : PVal} (hv : ValClosed h v) : ValClosed h' v :=
  fun b hb => Nat.lt_of_lt_of_le (hv b hb) hl

theorem heapClosed_write {h : Heap} (hc : HeapClosed h) {a : Nat} {o : Obj}
    (ho : ∀ cls attrs, o = .node cls attrs → ∀ b ∈ deepRefsKV attrs, b < h.length) : HeapClosed (write h a o) := by
  intro x cls attrs hx b hb
  simp only [write_length]
  by_cases e : x = a
  · subst e
    by_cases hlt : x < h.length
    · rw [write_get _ _ _ hlt] at hx
      exact ho cls attrs (Option.some.inj hx) b hb
    · simp [write, List.getElem?_eq_none (show (h.set x o).length ≤ x by simp; omega)] at hx
  · rw [write_frame _ _ _ _ e] at hx
    exact hc x cls attrs hx b hb

theorem heapClosed_append {h : Heap} (hc : HeapClosed h) {o : Obj}
    (ho : ∀ cls attrs, o = .node cls attrs → ∀ b ∈ deepRefsKV attrs, b < h.length + 1) : HeapClosed (h ++ [o]) := by
  intro x cls attrs hx b hb
  simp only [List.length_append, List.length_singleton]
  by_cases hlt : x < h.length
  · rw [List.getElem?_append_left hlt] at hx
    exact Nat.lt_succ_of_lt (hc x cls attrs hx b hb)
  · by_cases e : x = h.length
    · subst e; simp at hx; exact ho cls attrs hx b hb
    · rw [List.getElem?_eq_none (by simp; omega)] at hx; cases hx

theorem deepRefs_lookupKV {k : Key} {v : PVal} : ∀ {l : List (Key × PVal)}, lookupKV k l = some v →
    ∀ b ∈ deepRefs v, b ∈ deepRefsKV l
  | [], h, _, _ => by simp [lookupKV] at h
  | (k0, v0) :: rest, h, b, hb => by
    simp only [lookupKV] at h
    simp only [deepRefsKV, List.mem_append]
    by_cases e : k0 = k
    · simp [e] at h; subst h; exact Or.inl hb
    · simp only [e, if_false] at h; exact Or.inr (deepRefs_lookupKV h b hb)

theorem deepRefsKV_setKV {k : Key} {v : PVal} : ∀ {l : List (Key × PVal)} {b : Addr}, b ∈ deepRefsKV (setKV k v l) →
    b ∈ deepRefs v ∨ b ∈ deepRefsKV l
  | [], b, hb => by simp [setKV, deepRefsKV] at hb
  | (k0, v0) :: rest, b, hb => by
    simp only [setKV] at hb
    by_cases e : k0 = k
    · simp only [e, if_true, deepRefsKV, List.mem_append] at hb ⊢
      rcases hb with hb | hb
      · exact Or.inl hb
      · exact Or.inr (Or.inr hb)
    · simp only [e, if_false, deepRefsKV, List.mem_append] at hb ⊢
      rcases hb with hb | hb
      · exact Or.inr (Or.inl hb)
      · rcases deepRefsKV_setKV hb with h1 | h1
        · exact Or.inl h1
        · exact Or.inr (Or.inr h1)

theorem deepRefsKV_append {b : Addr} : ∀ {l m : List (Key × PVal)}, b ∈ deepRefsKV (l ++ m) ↔ b ∈ deepRefsKV l ∨ b ∈ deepRefsKV m
  | [], m => by simp [deepRefsKV]
  | (k, v) :: rest, m => by simp [deepRefsKV, deepRefsKV_append (l := rest), or_assoc]

theorem deepRefsKV_putKV {k : Key} {v : PVal} {l : List (Key × PVal)} {b : Addr} (hb : b ∈ deepRefsKV (putKV k v l)) :
    b ∈ deepRefs v ∨ b ∈ deepRefsKV l := by
  unfold putKV at hb
  split at hb
  · exact deepRefsKV_setKV hb
  · rcases deepRefsKV_append.mp hb with h1 | h1
    · exact Or.inr h1
    · simp [deepRefsKV] at h1; exact Or.inl h1

theorem deepRefsKV_eraseKV {k : Key} : ∀ {l : List (Key × PVal)} {b : Addr}, b ∈ deepRefsKV (eraseKV k l) → b ∈ deepRefsKV l
  | [], b, hb => by simp [eraseKV, deepRefsKV] at hb
  | (k0, v0) :: rest, b, hb => by
    simp only [eraseKV, List.filter_cons] at hb
    simp only [deepRefsKV, List.mem_append]
    split at hb
    · simp only [deepRefsKV, List.mem_append] at hb
      rcases hb with hb | hb
      · exact Or.inl hb
      · exact Or.inr (deepRefsKV_eraseKV (k := k) (by simpa [eraseKV] using hb))
    · exact Or.inr (deepRefsKV_eraseKV (k := k) (by simpa [eraseKV] using hb))

theorem closed_push {h : Heap} {env : List PVal} (c : ClosedSt h env) {v : PVal} (hv : ValClosed h v) : ClosedSt h (env ++ [v]) :=
  ⟨c.1, fun w hw => by
    rcases List.mem_append.mp hw with h1 | h1
    · exact c.2 w h1
    · simp at h1; subst h1; exact hv⟩

theorem closed_of_get {h : Heap} {env : List PVal} (c : ClosedSt h env) {r : Nat} {v : PVal} (hr : env[r]? = some v) :
    ValClosed h v := c.2 v (List.mem_of_getElem? hr)

theorem runOp_closed {h : Heap} {env : List PVal} {op : Op} {h1 : Heap} {env1 : List PVal} (c : ClosedSt h env)
    (hr : runOp h env op = .ok (h1, env1)) : ClosedSt h1 env1 := by
  cases op with
  | getAttr r k =>
    simp only [runOp] at hr
    split at hr <;> try cases hr
    next a hra =>
    split at hr <;> try cases hr
    next cls attrs hg =>
    split at hr <;> try cases hr
    next v hv =>
    exact closed_push c (fun b hb => c.1 a cls attrs hg b (deepRefs_lookupKV hv b hb))
  | readVar r =>
    simp only [runOp] at hr
    split at hr <;> try cases hr
    split at hr <;> try cases hr
    exact closed_push c (fun b hb => by simp [deepRefs] at hb)
  | setVar r e =>
    simp only [runOp] at hr
    split at hr <;> try cases hr
    split at hr <;> try cases hr
    split at hr <;> try cases hr
    exact ⟨heapClosed_write c.1 (fun cls attrs he => by cases he),
      fun v hv => valClosed_mono (by simp [write_length]) (c.2 v hv)⟩
  | setAttr r k src =>
    simp only [runOp] at hr
    split at hr <;> try cases hr
    next a v hra hsrc =>
    split at hr <;> try cases hr
    next cls attrs hg =>
    refine ⟨heapClosed_write c.1 (fun cls' attrs' he b hb => ?_), fun w hw => valClosed_mono (by simp [write_length]) (c.2 w hw)⟩
    cases he
    rcases deepRefsKV_putKV hb with h1 | h1
    · exact closed_of_get c hsrc b h1
    · exact c.1 a cls attrs hg b h1
  | delAttr r k =>
    simp only [runOp] at hr
    split at hr <;> try cases hr
    next a hra =>
    split at hr <;> try cases hr
    next cls attrs hg =>
    split at hr <;> try cases hr
    refine ⟨heapClosed_write c.1 (fun cls' attrs' he b hb => ?_), fun w hw => valClosed_mono (by simp [write_length]) (c.2 w hw)⟩
    cases he
    exact c.1 a cls attrs hg b (deepRefsKV_eraseKV hb)
  | newNode cls =>
    simp only [runOp] at hr; cases hr
    refine ⟨heapClosed_append c.1 (fun cls' attrs' he b hb => by cases he; simp [deepRefsKV] at hb), fun w hw => ?_⟩
    rcases List.mem_append.mp hw with h1 | h1
    · exact valClosed_mono (by simp) (c.2 w h1)
    · simp at h1; subst h1; intro b hb; simp [deepRefs] at hb; subst hb; simp
  | newVar ty e md =>
    simp only [runOp] at hr
    split at hr <;> try cases hr
    refine ⟨heapClosed_append c.1 (fun cls' attrs' he => by cases he), fun w hw => ?_⟩
    rcases List.mem_append.mp hw with h1 | h1
    · exact valClosed_mono (by simp) (c.2 w h1)
    · simp at h1; subst h1; intro b hb; simp [deepRefs] at hb; subst hb; simp
  | litStatic s => simp only [runOp] at hr; cases hr; exact closed_push c (fun b hb => by simp [deepRefs] at hb)
  | litNone => simp only [runOp] at hr; cases hr; exact closed_push c (fun b hb => by simp [deepRefs] at hb)
  | data e =>
    simp only [runOp] at hr
    split at hr <;> try cases hr
    exact closed_push c (fun b hb => by simp [deepRefs] at hb)

theorem runOps_closed : ∀ (ops : List Op) {h : Heap} {env : List PVal} {h1 : Heap} {env1 : List PVal},
    ClosedSt h env → runOps ops h env = .ok (h1, env1) → ClosedSt h1 env1
  | [], h, env, h1, env1, c, hr => by simp [runOps] at hr; obtain ⟨rfl, rfl⟩ := hr; exact c
  | op :: rest, h, env, h1, env1, c, hr => by
    simp only [runOps] at hr
    split at hr
    · cases hr
    · next h2 env2 he => exact runOps_closed rest (runOp_closed c he) hr

theorem getRegs_mem {env : List PVal} : ∀ {rs : List Nat} {vs : List PVal}, getRegs env rs = .ok vs → ∀ v ∈ vs, v ∈ env
  | [], vs, h, v, hv => by simp [getRegs] at h; subst h; simp at hv
  | r :: rs, vs, h, v, hv => by
    simp only [getRegs] at h
    split at h <;> try cases h
    next w ws hw hws =>
    rcases List.mem_cons.mp hv with e | h1
    · subst e; exact List.mem_of_getElem? hw
    · exact getRegs_mem hws v h1

theorem runFn_closed {f : Fn} {h : Heap} {args rets : List PVal} {h1 : Heap} (c : ClosedSt h args)
    (hr : runFn f h args = .ok (rets, h1)) : ClosedSt h1 rets := by
  unfold runFn at hr
  split at hr
  · cases hr
  · next h2 env2 he =>
    split at hr
    · cases hr
    · next vs hg =>
      simp at hr; obtain ⟨rfl, rfl⟩ := hr
      have c2 := runOps_closed _ c he
      exact ⟨c2.1, fun v hv => c2.2 v (getRegs_mem hg v hv)⟩

/-! ### `to_tree` never fails on a closed heap -/

theorem flattenRoots_total {g : Heap} (hc : HeapClosed g) : ∀ (vs : List PVal), (∀ v ∈ vs, ValClosed g v) → ∀ (idx : RefIndex),
    ∃ gds fss idx', flattenRoots g vs idx = .ok (gds, fss, idx')
  | [], _, idx => ⟨[], [], idx, rfl⟩
  | v :: vs, hv, idx => by
    have hfuel : valSize v + unvisited g idx ≤ fuelFor g v := by
      have := unvisited_mono g (idx := []) (idx' := idx) (fun a ha => by simp at ha)
      rw [unvisited_nil] at this
      simp [fuelFor]; omega
    obtain ⟨gd, ls, idx1, he, _⟩ := (flatten_total_aux g hc (fuelFor g v)).1 [] v idx (hv v (by simp)) hfuel
    obtain ⟨gds, fss, idx2, he2⟩ := flattenRoots_total hc vs (fun w hw => hv w (List.mem_cons_of_mem _ hw)) idx1
    exact ⟨gd :: gds, ls :: fss, idx2, by simp [flattenRoots, he, he2]⟩

theorem clearArg_closed {g : Heap} {v : PVal} (hv : ValClosed g v) : ValClosed g (clearArg v) := by
  cases v <;> first | exact hv | (intro b hb; simp [clearArg, deepRefs] at hb)


/-! ### the protocol fails exactly when the body fails -/

/-- **no spurious failure**: on a closed heap, if the eager call succeeds the call under the protocol succeeds, and if
the eager call fails with `e` the call under the protocol fails with the same `e` -/
theorem proto_total (raw : Bool) (f : Fn) (h : Heap) (args : List PVal) (hc : HeapClosed h) (ha : ∀ v ∈ args, ValClosed h v) :
    (∀ rets h2, runFn f h args = .ok (rets, h2) → ∃ roots4 h4, protoCall raw f h args = .ok (roots4, h4)) ∧
    (∀ e, runFn f h args = .error e → protoCall raw f h args = .error e) := by
  obtain ⟨gds, fss, idx1, hf1⟩ := flattenRoots_total hc args ha []
  obtain ⟨args', G, ir, hu2, Gd2, R2, hargs, hlt1⟩ := inner_copy raw hf1
  obtain ⟨hcG, haG⟩ := inner_copy_closed raw (flatRoots_of_flattenRoots h args [] gds fss idx1 hf1) hu2
  have hs1 : step1 raw h args = .ok (gds, fss.map (convLeaves raw), idx1) := by simp [step1, hf1]
  have hcs := runFn_sim f R2 hargs
  constructor
  · intro rets h2 he
    rw [he] at hcs
    rcases hcs with ⟨e, h1, _⟩ | ⟨rets0, h20, rets', G3, φ', e1, e2, R3, hrets, hle, hold, hnew, hlen⟩
    · cases h1
    simp at e1
    obtain ⟨rfl, rfl⟩ := e1
    have hkG := runFn_kind e2
    have hc3 := runFn_closed (f := f) ⟨hcG, haG⟩ e2
    have hroots : ∀ v ∈ args'.map clearArg ++ rets', ValClosed G3 v := by
      intro v hv
      rcases List.mem_append.mp hv with h1 | h1
      · obtain ⟨w, hw, rfl⟩ := List.mem_map.mp h1
        exact clearArg_closed (valClosed_mono hkG.1 (haG w hw))
      · exact hc3.2 v h1
    obtain ⟨gds3, fss3, idx3, hf3⟩ := flattenRoots_total hc3.1 _ hroots []
    have hReuse := reuse_ok Gd2 hlt1 R3 hle (runFn_kind he)
    have hst : ∀ i a, idx3[i]? = some a → (tblOf idx3 ir i).bind (omapOf idx1) = reuseOf idx1 ir a := by
      intro i a hia
      simp [tblOf, reuseOf, hia]
    obtain ⟨roots4, h4, ir4, hu4, _, _, _⟩ := simRoots hReuse raw (tblOf idx3 ir) (omapOf idx1) idx3 hst
      _ [] gds3 fss3 idx3 hf3 ⟨[], by simp⟩ h [] (GoodO.nil _ _)
    refine ⟨roots4, h4, ?_⟩
    have hu4' : unflattenRootsO (fun i => idx1[i]?) (gds3.map (stampWith (fun i => (idx3[i]?).bind (irInv ir))))
        (fss3.map (convLeaves raw)) h [] = .ok (roots4, h4, ir4) := hu4
    simp [protoCall, hs1, pureRun, hu2, e2, hf3, step4, hu4']
  · intro e he
    rw [he] at hcs
    rcases hcs with ⟨e', h1, h2⟩ | ⟨rets0, h20, rets', G3, φ', e1, _⟩
    · cases h1
      simp [protoCall, hs1, pureRun, hu2, h2]
    · cases e1

end Flax.Nnx
