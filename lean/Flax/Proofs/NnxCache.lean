/-
C04 helper lemmas (9): the trace cache of `nnx.jit`.  The output graphdefs of the traced function (and whether
tracing fails) depend on the input graphdefs only (`pureRun_shape`, from the erasure lemmas), the shape of the
leaves is determined by the graphdefs, so a cache entry made for one heap is valid for every heap with the same
key: a call through the cache returns exactly what an uncached call returns.
-/
import Flax.Proofs.NnxErase
import Flax.Proofs.NnxCanon

namespace Flax.Nnx
open Flax.Heap Flax.Graph

def eP : Except Err (List ODef × List (List Leaf)) → Except Err (List ODef × List (List Leaf))
  | .ok (g, l) => .ok (g, l.map (fun ls => ls.map eLeaf))
  | .error e => .error e

theorem clearArg_ePV (v : PVal) : ePV (clearArg v) = clearArg (ePV v) := by cases v <;> rfl

theorem convLeaves_eFS (raw : Bool) (fs : FlatState) : (convLeaves raw fs).map eLeaf = convLeaves raw (eFS fs) := by
  simp only [convLeaves, eFS, List.map_map]
  apply List.map_congr_left
  intro it _
  obtain ⟨p, l⟩ := it
  cases raw <;> cases l <;> rfl

theorem eUR_eq {x y : Except Err (List PVal × Heap × IndexRef)} (h : eUR x = eUR y) :
    (∃ e, x = .error e ∧ y = .error e) ∨
      ∃ a G ir a' G', x = .ok (a, G, ir) ∧ y = .ok (a', G', ir) ∧ a.map ePV = a'.map ePV ∧ eHeap G = eHeap G' := by
  cases x with
  | error e => cases y with
    | error e' => simp [eUR] at h; exact Or.inl ⟨e, rfl, by rw [h]⟩
    | ok p => obtain ⟨a, b, c⟩ := p; simp [eUR] at h
  | ok p =>
    obtain ⟨a, G, ir⟩ := p
    cases y with
    | error e' => simp [eUR] at h
    | ok p' =>
      obtain ⟨a', G', ir'⟩ := p'
      simp [eUR] at h
      obtain ⟨h1, h2, rfl⟩ := h
      exact Or.inr ⟨a, G, ir, a', G', rfl, rfl, h1, h2⟩

theorem eFn_eq {x y : Except Err (List PVal × Heap)} (h : eFn x = eFn y) :
    (∃ e, x = .error e ∧ y = .error e) ∨
      ∃ r G r' G', x = .ok (r, G) ∧ y = .ok (r', G') ∧ r.map ePV = r'.map ePV ∧ eHeap G = eHeap G' := by
  cases x with
  | error e => cases y with
    | error e' => simp [eFn] at h; exact Or.inl ⟨e, rfl, by rw [h]⟩
    | ok p => obtain ⟨a, b⟩ := p; simp [eFn] at h
  | ok p =>
    obtain ⟨r, G⟩ := p
    cases y with
    | error e' => simp [eFn] at h
    | ok p' =>
      obtain ⟨r', G'⟩ := p'
      simp [eFn] at h
      exact Or.inr ⟨r, G, r', G', rfl, rfl, h.1, h.2⟩

theorem eRoots_eq {x y : Except Err (List GDef × List FlatState × RefIndex)} (h : eRoots x = eRoots y) :
    (∃ e, x = .error e ∧ y = .error e) ∨
      ∃ g fss idx fss', x = .ok (g, fss, idx) ∧ y = .ok (g, fss', idx) ∧ fss.map eFS = fss'.map eFS := by
  cases x with
  | error e => cases y with
    | error e' => simp [eRoots] at h; exact Or.inl ⟨e, rfl, by rw [h]⟩
    | ok p => obtain ⟨a, b, c⟩ := p; simp [eRoots] at h
  | ok p =>
    obtain ⟨g, fss, idx⟩ := p
    cases y with
    | error e' => simp [eRoots] at h
    | ok p' =>
      obtain ⟨g', fss', idx'⟩ := p'
      simp [eRoots] at h
      obtain ⟨rfl, h2, rfl⟩ := h
      exact Or.inr ⟨g, fss, idx, fss', rfl, rfl, h2⟩

/-- **the structure of what a traced function returns does not depend on the payloads it is given** -/
theorem pureRun_shape (raw keep : Bool) (f : Fn) (pre : List PVal) (gds : List GDef) (lss lss' : List (List Leaf))
    (hs : lss.map (fun ls => ls.map eLeaf) = lss'.map (fun ls => ls.map eLeaf)) :
    eP (pureRun raw keep f pre gds lss) = eP (pureRun raw keep f pre gds lss') := by
  have hU : eUR (unflattenRootsO noReuse (gds.map (stampWith (fun _ => Option.none))) lss [] []) =
      eUR (unflattenRootsO noReuse (gds.map (stampWith (fun _ => Option.none))) lss' [] []) := by
    have h1 := unflattenRoots_erase (gds.map (stampWith (fun _ => Option.none))) lss [] []
    have h2 := unflattenRoots_erase (gds.map (stampWith (fun _ => Option.none))) lss' [] []
    rw [hs] at h1
    exact h1.symm.trans h2
  unfold pureRun
  rcases eUR_eq hU with ⟨e, h1, h2⟩ | ⟨a, G, ir, a', G', h1, h2, ha, hG⟩
  · rw [show (fun _ => Option.none) = noReuse from rfl, h1, h2]
  · rw [show (fun _ => Option.none) = noReuse from rfl, h1, h2]
    simp only
    have hF := runFn_erase f G G' (pre ++ a) (pre ++ a') hG (by simp [ha])
    rcases eFn_eq hF with ⟨e, g1, g2⟩ | ⟨r, G3, r', G3', g1, g2, hr, hG3⟩
    · rw [g1, g2]
    · rw [g1, g2]
      simp only
      have hroots : ((if keep then a.map clearArg else []) ++ r).map ePV = ((if keep then a'.map clearArg else []) ++ r').map ePV := by
        cases keep
        · simpa using hr
        · simp only [if_true, List.map_append, List.map_map, hr]
          congr 1
          have : (ePV ∘ clearArg) = (clearArg ∘ ePV) := funext clearArg_ePV
          rw [this, ← List.map_map, ← List.map_map, ha]
      have hR : eRoots (flattenRoots G3 ((if keep then a.map clearArg else []) ++ r) []) =
          eRoots (flattenRoots G3' ((if keep then a'.map clearArg else []) ++ r') []) := by
        rw [← flattenRoots_erase, ← flattenRoots_erase, hG3, hroots]
      rcases eRoots_eq hR with ⟨e, k1, k2⟩ | ⟨g, fss, idx, fss', k1, k2, hf⟩
      · rw [k1, k2]
      · rw [k1, k2]
        simp only [eP, List.map_map]
        congr 2
        have : ∀ (l : List FlatState), l.map ((fun ls => ls.map eLeaf) ∘ convLeaves raw) = (l.map eFS).map (convLeaves raw) := by
          intro l
          rw [List.map_map]
          apply List.map_congr_left
          intro fs _
          simp [convLeaves_eFS]
        rw [this, this, hf]

/-! ### the leaf shape is determined by the graphdef (jit: raw leaves) -/

mutual
  /-- the (erased, raw) leaves a graphdef announces -/
  def leafShape : GDef → List Leaf
    | .var _ _ _ => [.arr 0]
    | .array => [.arr 0]
    | .node _ _ attrs => leafShapeAttrs attrs
    | _ => []
  def leafShapeAttrs : List (Key × GDef) → List Leaf
    | [] => []
    | (_, g) :: rest => leafShape g ++ leafShapeAttrs rest
end

theorem flatten_leafShape (g : Heap) : ∀ fuel : Nat,
    (∀ path v idx gd ls idx', flattenVal fuel g path v idx = .ok (gd, ls, idx') →
      (convLeaves true ls).map eLeaf = leafShape gd) ∧
    (∀ path items idx gs ls idx', flattenItems fuel g path items idx = .ok (gs, ls, idx') →
      (convLeaves true ls).map eLeaf = leafShapeAttrs gs) := by
  intro fuel
  induction fuel with
  | zero =>
    constructor
    · intro path v idx gd ls idx' hh; simp [flattenVal] at hh
    · intro path items idx gs ls idx' hh; simp [flattenItems] at hh
  | succ fuel ih =>
    constructor
    · intro path v idx gd ls idx' hh
      cases v with
      | static s => simp [flattenVal] at hh; obtain ⟨rfl, rfl, _⟩ := hh; simp [convLeaves, leafShape]
      | array d => simp [flattenVal] at hh; obtain ⟨rfl, rfl, _⟩ := hh; simp [convLeaves, leafShape, rawLeaf, eLeaf]
      | none => simp [flattenVal] at hh; obtain ⟨rfl, rfl, _⟩ := hh; simp [convLeaves, leafShape, leafShapeAttrs]
      | seq t xs =>
        simp only [flattenVal] at hh
        split at hh
        · cases hh
        · next as ls1 idx1 heq =>
          simp at hh; obtain ⟨rfl, rfl, _⟩ := hh
          simpa [leafShape] using ih.2 _ _ _ _ _ _ heq
      | dict kvs =>
        simp only [flattenVal] at hh
        split at hh
        · cases hh
        · next as ls1 idx1 heq =>
          simp at hh; obtain ⟨rfl, rfl, _⟩ := hh
          simpa [leafShape] using ih.2 _ _ _ _ _ _ heq
      | ref a =>
        simp only [flattenVal] at hh
        split at hh
        · simp at hh; obtain ⟨rfl, rfl, _⟩ := hh; simp [convLeaves, leafShape]
        · split at hh
          · cases hh
          · simp at hh; obtain ⟨rfl, rfl, _⟩ := hh; simp [convLeaves, leafShape, rawLeaf, eLeaf]
          · split at hh
            · cases hh
            · next as ls1 idx1 heq =>
              simp at hh; obtain ⟨rfl, rfl, _⟩ := hh
              simpa [leafShape] using ih.2 _ _ _ _ _ _ heq
    · intro path items idx gs ls idx' hh
      cases items with
      | nil => simp [flattenItems] at hh; obtain ⟨rfl, rfl, _⟩ := hh; simp [convLeaves, leafShapeAttrs]
      | cons kv rest =>
        obtain ⟨k, v⟩ := kv
        simp only [flattenItems] at hh
        split at hh
        · cases hh
        · next g1 ls1 idx1 heq1 =>
          split at hh
          · cases hh
          · next gs2 ls2 idx2 heq2 =>
            simp at hh; obtain ⟨rfl, rfl, _⟩ := hh
            have a := ih.1 _ _ _ _ _ _ heq1
            have b := ih.2 _ _ _ _ _ _ heq2
            simp only [leafShapeAttrs, convLeaves_append, List.map_append, a, b]

theorem flattenRoots_leafShape (g : Heap) : ∀ (vs : List PVal) (idx : RefIndex) gds fss idx',
    flattenRoots g vs idx = .ok (gds, fss, idx') →
      (fss.map (convLeaves true)).map (fun ls => ls.map eLeaf) = gds.map leafShape
  | [], idx, gds, fss, idx', h => by
    simp [flattenRoots] at h; obtain ⟨rfl, rfl, _⟩ := h; rfl
  | v :: vs, idx, gds, fss, idx', h => by
    simp only [flattenRoots] at h
    split at h
    · cases h
    · next gd ls idx1 heq =>
      split at h
      · cases h
      · next gds2 lss2 idx2 heq2 =>
        simp at h; obtain ⟨rfl, rfl, _⟩ := h
        have a := (flatten_leafShape g _).1 _ _ _ _ _ _ heq
        have b := flattenRoots_leafShape g vs idx1 _ _ _ heq2
        simp only [List.map_cons, a, b]

/-! ### cache entries stay valid -/

/-- an entry was produced by a successful trace of `f` on some leaves of the shape its key announces -/
def EntryOK (f : Fn) (t : Traced) : Prop :=
  ∃ (gds : List GDef) (lssA lssO : List (List Leaf)), t.key = gds.map (stampWith (fun _ => Option.none)) ∧
    lssA.map (fun ls => ls.map eLeaf) = gds.map leafShape ∧ pureRun true true f [] gds lssA = .ok (t.outDefs, lssO)

def CacheOK (f : Fn) (c : JitCache) : Prop := ∀ t ∈ c.entries, EntryOK f t

theorem cacheOK_empty (f : Fn) (n : Nat) : CacheOK f { entries := [], traces := n } := fun t ht => by simp at ht

/-- **a call through the trace cache returns exactly what an uncached call returns**, hit or miss, and the cache
stays valid -/
theorem jitCached_sound (f : Fn) (c : JitCache) (h : Heap) (args : List PVal) (hc : CacheOK f c) :
    (jitCached f c h args).1 = jitCall f h args ∧ CacheOK f (jitCached f c h args).2 := by
  unfold jitCached jitCall protoCall
  cases hs1 : step1 true h args with
  | error e => exact ⟨rfl, hc⟩
  | ok r =>
    obtain ⟨gds, lss, idx1⟩ := r
    simp only
    have hshape : lss.map (fun ls => ls.map eLeaf) = gds.map leafShape := by
      unfold step1 at hs1
      split at hs1
      · cases hs1
      · next gds' fss idx1' hf =>
        simp at hs1; obtain ⟨rfl, rfl, rfl⟩ := hs1
        exact flattenRoots_leafShape h args [] _ _ _ hf
    cases hfind : c.entries.find? (fun t => decide (t.key = gds.map (stampWith (fun _ => Option.none)))) with
    | some t =>
      simp only
      have htm : t ∈ c.entries := List.mem_of_find?_eq_some hfind
      have htk : t.key = gds.map (stampWith (fun _ => Option.none)) := by simpa using List.find?_some hfind
      obtain ⟨gdsA, lssA, lssOA, hk, hsh, hpr⟩ := hc t htm
      have hg : gdsA = gds := stamp_inj_defs (hk.symm.trans htk)
      subst hg
      have hP := pureRun_shape true true f [] gdsA lss lssA (hshape.trans hsh.symm)
      rw [hpr] at hP
      cases hnow : pureRun true true f [] gdsA lss with
      | error e => rw [hnow] at hP; simp [eP] at hP
      | ok p =>
        obtain ⟨gdsO, lssO⟩ := p
        rw [hnow] at hP
        simp only [eP, Except.ok.injEq, Prod.mk.injEq] at hP
        obtain ⟨rfl, _⟩ := hP
        simp only
        cases step4 h idx1 t.outDefs lssO with
        | error e => exact ⟨rfl, hc⟩
        | ok q => obtain ⟨roots, h4⟩ := q; exact ⟨rfl, hc⟩
    | none =>
      simp only
      cases hnow : pureRun true true f [] gds lss with
      | error e => exact ⟨rfl, hc⟩
      | ok p =>
        obtain ⟨gdsO, lssO⟩ := p
        simp only
        have hc2 : CacheOK f ⟨c.entries ++ [⟨gds.map (stampWith (fun _ => Option.none)), gdsO⟩], c.traces + 1⟩ := by
          intro t ht
          simp only [List.mem_append, List.mem_singleton] at ht
          rcases ht with ht | rfl
          · exact hc t ht
          · exact ⟨gds, lss, lssO, rfl, hshape, hnow⟩
        cases step4 h idx1 gdsO lssO with
        | error e => exact ⟨rfl, hc2⟩
        | ok q => obtain ⟨roots, h4⟩ := q; exact ⟨rfl, hc2⟩

/-- the Python body runs again exactly on a cache miss -/
theorem jitCached_traces (f : Fn) (c : JitCache) (h : Heap) (args : List PVal) (gds : List GDef) (lss : List (List Leaf))
    (idx1 : RefIndex) (hs1 : step1 true h args = .ok (gds, lss, idx1)) :
    (jitCached f c h args).2.traces =
      if (c.entries.find? (fun t => decide (t.key = gds.map (stampWith (fun _ => Option.none))))).isSome then c.traces
      else c.traces + 1 := by
  unfold jitCached
  rw [hs1]
  simp only
  cases hfind : c.entries.find? (fun t => decide (t.key = gds.map (stampWith (fun _ => Option.none)))) with
  | some t =>
    simp only [Option.isSome_some, if_true]
    cases pureRun true true f [] gds lss with
    | error e => rfl
    | ok p =>
      obtain ⟨a, b⟩ := p
      simp only
      cases step4 h idx1 t.outDefs b with
      | error e => rfl
      | ok q => rfl
  | none =>
    simp only [Option.isSome_none, Bool.false_eq_true, if_false]
    cases pureRun true true f [] gds lss with
    | error e => rfl
    | ok p =>
      obtain ⟨a, b⟩ := p
      simp only
      cases step4 h idx1 a b with
      | error e => rfl
      | ok q => rfl

/-- a history of calls of the SAME jitted function on arbitrary heaps (the caller may edit anything between calls) -/
def callsFrom (f : Fn) : JitCache → List (Heap × List PVal) → List (Except Err (List PVal × Heap))
  | _, [] => []
  | c, (h, args) :: rest => (jitCached f c h args).1 :: callsFrom f (jitCached f c h args).2 rest

theorem callsFrom_sound (f : Fn) : ∀ (calls : List (Heap × List PVal)) (c : JitCache), CacheOK f c →
    callsFrom f c calls = calls.map (fun p => jitCall f p.1 p.2)
  | [], _, _ => rfl
  | (h, args) :: rest, c, hc => by
    obtain ⟨h1, h2⟩ := jitCached_sound f c h args hc
    simp only [callsFrom, List.map_cons, h1, callsFrom_sound f rest _ h2]

end Flax.Nnx
