/-
The control flow of a module program does not depend on array values: two runs from stores with the
same keys and shapes, with different arguments, succeed together and end in stores with the same
keys and shapes.  Used by C02 (`lazy_init_shapes_partial`).
-/
import Flax.Proofs.ScopeLemmas

namespace Flax.ShapeSim
open Flax.Filter (LFilter inFilter)
open Flax.Scope Flax.ModuleTree Flax.ScopeLemmas

abbrev abs (v : Val) : Val := Flax.ModuleTree.Val.abstract v

def absVars (l : List (Path × Val)) : List (Path × Val) := l.map (fun kv => (kv.1, abs kv.2))

theorem lookupP_abs (q : Path) (l : List (Path × Val)) : lookupP q (absVars l) = (lookupP q l).map abs := by
  induction l with
  | nil => rfl
  | cons kv rest ih =>
    obtain ⟨k, v⟩ := kv
    by_cases hk : k = q
    · simp [absVars, lookupP, hk]
    · simp only [absVars, List.map_cons, lookupP, hk, if_false]; exact ih

theorem upsert_abs (q : Path) (v : Val) (l : List (Path × Val)) :
    absVars (upsert q v l) = upsert q (abs v) (absVars l) := by
  induction l with
  | nil => rfl
  | cons kv rest ih =>
    obtain ⟨k, w⟩ := kv
    by_cases hk : k = q
    · simp [absVars, upsert, hk]
    · simp only [absVars, upsert, hk, if_false, List.map_cons] at ih ⊢
      rw [ih]

theorem any_key_abs (P : Path → Bool) (l : List (Path × Val)) :
    (absVars l).any (fun kv => P kv.1) = l.any (fun kv => P kv.1) := by
  simp [absVars, List.any_map, Function.comp_def]

theorem abs_full (sh : List Nat) (a b : Int) : abs (Val.full sh a) = abs (Val.full sh b) := by
  simp [abs, Val.abstract, Val.full]

theorem leafShapes_abs (v : Val) : (abs v).leafShapes = v.leafShapes := by
  cases v with
  | tensor sh d => rfl
  | tup xs => simp [abs, Val.abstract, Val.leafShapes, List.map_map, Function.comp_def]

/-- same keys, shapes, collections, filter and RNG streams -/
structure ShapeEq (s t : Store) : Prop where
  cols_eq : t.cols = s.cols
  mut_eq : t.mutable = s.mutable
  rngs_eq : t.rngs = s.rngs
  vars_eq : absVars t.vars = absVars s.vars

theorem ShapeEq.refl (s : Store) : ShapeEq s s := ⟨rfl, rfl, rfl, rfl⟩

theorem ShapeEq.lookup {s t : Store} (h : ShapeEq s t) (q : Path) :
    (lookupP q t.vars).map abs = (lookupP q s.vars).map abs := by
  rw [← lookupP_abs, ← lookupP_abs, h.vars_eq]

theorem ShapeEq.hasVar_eq {s t : Store} (h : ShapeEq s t) (π : Path) (c n : String) :
    hasVar t π c n = hasVar s π c n := by
  unfold hasVar getVar
  have := h.lookup (fullPath c π n)
  cases h1 : lookupP (fullPath c π n) t.vars <;> cases h2 : lookupP (fullPath c π n) s.vars <;>
    simp [h1, h2] at this ⊢

theorem ShapeEq.isMutable_eq {s t : Store} (h : ShapeEq s t) (c : String) : isMutable t c = isMutable s c := by
  unfold isMutable; rw [h.mut_eq]

theorem ShapeEq.colEmpty_eq {s t : Store} (h : ShapeEq s t) (c : String) : colEmpty t c = colEmpty s c := by
  unfold colEmpty
  rw [← any_key_abs (fun k => decide (k.head? = some c)) t.vars,
      ← any_key_abs (fun k => decide (k.head? = some c)) s.vars, h.vars_eq]

theorem ShapeEq.conflict_eq {s t : Store} (h : ShapeEq s t) (q : Path) : conflict t.vars q = conflict s.vars q := by
  unfold conflict
  rw [← any_key_abs (fun k => properPrefix k q || properPrefix q k) t.vars,
      ← any_key_abs (fun k => properPrefix k q || properPrefix q k) s.vars, h.vars_eq]

theorem ShapeEq.hasCol_eq {s t : Store} (h : ShapeEq s t) (c : String) : hasCol t c = hasCol s c := by
  unfold hasCol; rw [h.cols_eq]

theorem ShapeEq.bump {s t : Store} (h : ShapeEq s t) :
    ShapeEq { s with inits := s.inits + 1 } { t with inits := t.inits + 1 } :=
  ⟨h.cols_eq, h.mut_eq, h.rngs_eq, h.vars_eq⟩

theorem putVar_shape {s t s1 : Store} (hrel : ShapeEq s t) {π : Path} {col n : String} {v v' : Val}
    (hv : abs v' = abs v) (h : putVar π col n v s = (.ok (), s1)) :
    ∃ t1, putVar π col n v' t = (.ok (), t1) ∧ ShapeEq s1 t1 := by
  unfold putVar at h ⊢
  rw [hrel.isMutable_eq, hrel.conflict_eq, hrel.hasCol_eq]
  by_cases hm : isMutable s col = true
  · simp only [hm, Bool.not_true, Bool.false_eq_true, if_false] at h ⊢
    by_cases hc : conflict s.vars (fullPath col π n) = true
    · simp [hc] at h
    · simp only [hc, Bool.false_eq_true, if_false, Prod.mk.injEq, Except.ok.injEq, true_and] at h ⊢
      refine ⟨_, rfl, ?_⟩
      rw [← h]
      refine ⟨by simp only [hrel.cols_eq], hrel.mut_eq, hrel.rngs_eq, ?_⟩
      simp only [upsert_abs, hrel.vars_eq, hv]
  · simp [hm] at h

/-- the value found at a path has the same constructor and shapes in both stores -/
theorem getVar_shape {s t : Store} (hrel : ShapeEq s t) (π : Path) (c n : String) (v : Val)
    (h : getVar s π c n = some v) : ∃ v', getVar t π c n = some v' ∧ abs v' = abs v := by
  unfold getVar at h ⊢
  have := hrel.lookup (fullPath c π n)
  rw [h] at this
  cases h1 : lookupP (fullPath c π n) t.vars with
  | none => rw [h1] at this; simp at this
  | some v' => rw [h1] at this; simp at this; exact ⟨v', rfl, this⟩

theorem getVar_none_shape {s t : Store} (hrel : ShapeEq s t) (π : Path) (c n : String)
    (h : getVar s π c n = none) : getVar t π c n = none := by
  unfold getVar at h ⊢
  have := hrel.lookup (fullPath c π n)
  rw [h] at this
  cases h1 : lookupP (fullPath c π n) t.vars with
  | none => rfl
  | some v' => rw [h1] at this; simp at this

theorem abs_tensor_inv {v' : Val} {sh : List Nat} {d : List Int} (h : abs v' = abs (.tensor sh d)) :
    ∃ d', v' = .tensor sh d' := by
  cases v' with
  | tensor sh' d' => simp [abs, Val.abstract] at h; exact ⟨d', by rw [h.1]⟩
  | tup xs => simp [abs, Val.abstract] at h

theorem abs_tup_inv {v' : Val} {xs : List (List Nat × List Int)} (h : abs v' = abs (.tup xs)) :
    ∃ xs', v' = .tup xs' := by
  cases v' with
  | tensor sh' d' => simp [abs, Val.abstract] at h
  | tup xs' => exact ⟨xs', rfl⟩

/-! ### operations -/

theorem scopeParam_shape {s t s1 : Store} (hrel : ShapeEq s t) {π : Path} {n : String} {shape : List Nat}
    {init : Int} {r r1 : Res} {v : Val} (h : scopeParam π n shape init r s = (.ok (v, r1), s1)) :
    ∃ v' t1, scopeParam π n shape init r t = (.ok (v', r1), t1) ∧ ShapeEq s1 t1 := by
  unfold scopeParam at h ⊢
  cases hr : reserve r n (some "params") with
  | error e => simp [hr] at h
  | ok r2 =>
    simp only [hr] at h ⊢
    rw [hrel.isMutable_eq, hrel.colEmpty_eq]
    cases hg : getVar s π "params" n with
    | some v0 =>
      obtain ⟨v0', hg', hab⟩ := getVar_shape hrel π "params" n v0 hg
      have hls : v0'.leafShapes = v0.leafShapes := by
        rw [← leafShapes_abs v0', ← leafShapes_abs v0, hab]
      simp only [hg] at h
      simp only [hg', hls]
      cases hl : v0.leafShapes with
      | nil =>
        simp only [hl] at h ⊢
        simp only [Prod.mk.injEq, Except.ok.injEq] at h
        obtain ⟨⟨rfl, rfl⟩, rfl⟩ := h
        exact ⟨v0', t, rfl, hrel⟩
      | cons sh rest =>
        simp only [hl] at h ⊢
        by_cases hsh : sh = shape
        · simp only [hsh, if_true] at h ⊢
          simp only [Prod.mk.injEq, Except.ok.injEq] at h
          obtain ⟨⟨rfl, rfl⟩, rfl⟩ := h
          exact ⟨v0', t, rfl, hrel⟩
        · simp [hsh] at h
    | none =>
      simp only [hg] at h
      simp only [getVar_none_shape hrel π "params" n hg]
      by_cases hm : isMutable s "params" = true
      · simp only [hm, Bool.not_true, Bool.false_eq_true, if_false] at h ⊢
        by_cases hrng : "params" ∈ s.rngs
        · have hrng' : "params" ∈ t.rngs := by rw [hrel.rngs_eq]; exact hrng
          simp only [hrng, hrng', decide_true, Bool.not_true, Bool.false_eq_true, if_false] at h ⊢
          cases hp : putVar π "params" n (Val.full shape init) { s with inits := s.inits + 1 } with
          | mk res s2 =>
            rw [hp] at h
            cases res with
            | error e => simp at h
            | ok u =>
              simp only [Prod.mk.injEq, Except.ok.injEq] at h
              obtain ⟨⟨rfl, rfl⟩, rfl⟩ := h
              obtain ⟨t1, e1, hr1⟩ := putVar_shape hrel.bump rfl hp
              exact ⟨_, t1, by rw [e1], hr1⟩
        · simp [hrng] at h
      · simp only [hm, Bool.not_false, if_true] at h
        split at h <;> simp at h

theorem scopeVariable_shape {s t s1 : Store} (hrel : ShapeEq s t) {π : Path} {col n : String} {iv iv' : Val}
    (hiv : abs iv' = abs iv) {r r1 : Res} (h : scopeVariable π col n iv r s = (.ok r1, s1)) :
    ∃ t1, scopeVariable π col n iv' r t = (.ok r1, t1) ∧ ShapeEq s1 t1 := by
  unfold scopeVariable at h ⊢
  cases hr : reserve r n (some col) with
  | error e => simp [hr] at h
  | ok r2 =>
    simp only [hr] at h ⊢
    rw [hrel.hasVar_eq, hrel.isMutable_eq, hrel.colEmpty_eq]
    by_cases hv : hasVar s π col n = true
    · simp only [hv, if_true] at h ⊢
      simp only [Prod.mk.injEq, Except.ok.injEq] at h
      obtain ⟨rfl, rfl⟩ := h
      exact ⟨t, rfl, hrel⟩
    · simp only [hv, Bool.false_eq_true, if_false] at h ⊢
      by_cases hm : isMutable s col = true
      · simp only [hm, Bool.not_true, Bool.false_eq_true, if_false] at h ⊢
        cases hp : putVar π col n iv s with
        | mk res s2 =>
          rw [hp] at h
          cases res with
          | error e => simp at h
          | ok u =>
            simp only [Prod.mk.injEq, Except.ok.injEq] at h
            obtain ⟨rfl, rfl⟩ := h
            obtain ⟨t1, e1, hr1⟩ := putVar_shape hrel hiv hp
            exact ⟨t1, by rw [e1], hr1⟩
      · simp only [hm, Bool.not_false, if_true] at h
        split at h <;> simp at h

theorem moduleSow_shape {s t s1 : Store} (hrel : ShapeEq s t) {π : Path} {col n : String} {e e' : Int}
    {r r1 : Res} (h : moduleSow π col n e r s = (.ok r1, s1)) :
    ∃ t1, moduleSow π col n e' r t = (.ok r1, t1) ∧ ShapeEq s1 t1 := by
  unfold moduleSow at h ⊢
  rw [hrel.isMutable_eq]
  by_cases hm : isMutable s col = true
  · simp only [hm, Bool.not_true, Bool.false_eq_true, if_false] at h ⊢
    cases hg : getVar s π col n with
    | some v0 =>
      obtain ⟨v0', hg', hab⟩ := getVar_shape hrel π col n v0 hg
      cases v0 with
      | tensor sh d => simp [hg] at h
      | tup xs =>
        obtain ⟨xs', rfl⟩ := abs_tup_inv hab
        simp only [hg] at h
        simp only [hg']
        cases hp : putVar π col n (.tup (xs ++ [([], [e])])) s with
        | mk res s2 =>
          rw [hp] at h
          cases res with
          | error err => simp at h
          | ok u =>
            simp only [Prod.mk.injEq, Except.ok.injEq] at h
            obtain ⟨rfl, rfl⟩ := h
            have hv : abs (.tup (xs' ++ [([], [e'])])) = abs (.tup (xs ++ [([], [e])])) := by
              simp only [abs, Val.abstract, Val.tup.injEq] at hab ⊢
              simp [hab]
            obtain ⟨t1, e1, hr1⟩ := putVar_shape hrel hv hp
            exact ⟨t1, by rw [e1], hr1⟩
    | none =>
      simp only [hg] at h
      simp only [getVar_none_shape hrel π col n hg]
      cases hr : reserve r n (some col) with
      | error err => simp [hr] at h
      | ok r2 =>
        simp only [hr] at h ⊢
        cases hp : putVar π col n (.tup [([], [e])]) s with
        | mk res s2 =>
          rw [hp] at h
          cases res with
          | error err => simp at h
          | ok u =>
            simp only [Prod.mk.injEq, Except.ok.injEq] at h
            obtain ⟨rfl, rfl⟩ := h
            have hv : abs (.tup [([], [e'])]) = abs (.tup [([], [e])]) := by simp [abs, Val.abstract]
            obtain ⟨t1, e1, hr1⟩ := putVar_shape hrel hv hp
            exact ⟨t1, by rw [e1], hr1⟩
  · simp only [hm, Bool.not_false, if_true] at h ⊢
    simp only [Prod.mk.injEq, Except.ok.injEq] at h
    obtain ⟨rfl, rfl⟩ := h
    exact ⟨t, rfl, hrel⟩

theorem modulePerturb_shape {s t s1 : Store} (hrel : ShapeEq s t) {π : Path} {col n : String} {e e' y : Int}
    {r r1 : Res} (h : modulePerturb π col n e r s = (.ok (y, r1), s1)) :
    ∃ y' t1, modulePerturb π col n e' r t = (.ok (y', r1), t1) ∧ ShapeEq s1 t1 := by
  unfold modulePerturb at h ⊢
  rw [hrel.hasVar_eq, hrel.isMutable_eq]
  have second : ∀ (s2 t2 : Store) (q : Res), ShapeEq s2 t2 →
      (if hasCol s2 col then
        match getVar s2 π col n with
        | some (.tensor _ d) => ((.ok (e * (d.length : Int) + sumInt d, q) : Except Err (Int × Res)), s2)
        | some (.tup _) => (.error .unsupported, s2)
        | none => (.error .perturbMissing, s2)
       else (.ok (e, q), s2)) = (.ok (y, r1), s1) →
      ∃ y' t1, (if hasCol t2 col then
        match getVar t2 π col n with
        | some (.tensor _ d) => ((.ok (e' * (d.length : Int) + sumInt d, q) : Except Err (Int × Res)), t2)
        | some (.tup _) => (.error .unsupported, t2)
        | none => (.error .perturbMissing, t2)
       else (.ok (e', q), t2)) = (.ok (y', r1), t1) ∧ ShapeEq s1 t1 := by
    intro s2 t2 q hs2 hh
    rw [hs2.hasCol_eq col]
    by_cases hc : hasCol s2 col = true
    · simp only [hc, if_true] at hh ⊢
      cases hg : getVar s2 π col n with
      | none => simp [hg] at hh
      | some v0 =>
        obtain ⟨v0', hg', hab⟩ := getVar_shape hs2 π col n v0 hg
        cases v0 with
        | tup xs => simp [hg] at hh
        | tensor sh d =>
          obtain ⟨d', rfl⟩ := abs_tensor_inv hab
          simp only [hg] at hh
          simp only [hg']
          simp only [Prod.mk.injEq, Except.ok.injEq] at hh
          obtain ⟨⟨rfl, rfl⟩, rfl⟩ := hh
          exact ⟨_, t2, rfl, hs2⟩
    · simp only [hc, Bool.false_eq_true, if_false] at hh ⊢
      simp only [Prod.mk.injEq, Except.ok.injEq] at hh
      obtain ⟨⟨rfl, rfl⟩, rfl⟩ := hh
      exact ⟨_, t2, rfl, hs2⟩
  by_cases hcond : (isMutable s col && !hasVar s π col n) = true
  · simp only [hcond, if_true] at h ⊢
    cases hr : reserve r n (some col) with
    | error err => simp [hr] at h
    | ok r2 =>
      simp only [hr] at h ⊢
      cases hp : putVar π col n (.tensor [] [0]) s with
      | mk res s2 =>
        rw [hp] at h
        cases res with
        | error err => simp at h
        | ok u =>
          obtain ⟨t1, e1, hr1⟩ := putVar_shape hrel rfl hp
          rw [e1]
          simp only at h ⊢
          exact second s2 t1 r2 hr1 h
  · simp only [hcond, Bool.false_eq_true, if_false] at h ⊢
    exact second s t r hrel h

/-! ### locals and expressions -/

structure LocalShape (l l' : Local) : Prop where
  env_len : l'.env.length = l.env.length
  res_eq : l'.res = l.res
  cursors_eq : l'.cursors = l.cursors
  kids_eq : l'.kids = l.kids

theorem LocalShape.refl (l : Local) : LocalShape l l := ⟨rfl, rfl, rfl, rfl⟩

theorem evalE_shape {x x' : Int} {env env' : List Int} (hlen : env'.length = env.length) :
    ∀ (e : Expr) (v : Int), evalE x env e = .ok v → ∃ v', evalE x' env' e = .ok v' := by
  intro e
  induction e with
  | const k => intro v _; exact ⟨k, rfl⟩
  | arg => intro v _; exact ⟨x', rfl⟩
  | loc i =>
    intro v h
    simp only [evalE] at h ⊢
    cases hi : env[i]? with
    | none => simp [hi] at h
    | some w =>
      have : i < env'.length := by
        rw [hlen]; exact (List.getElem?_eq_some_iff.mp hi).1
      rw [List.getElem?_eq_getElem this]
      exact ⟨_, rfl⟩
  | add a b iha ihb =>
    intro v h
    simp only [evalE] at h ⊢
    cases ha : evalE x env a with
    | error err => simp [ha] at h
    | ok u =>
      cases hb : evalE x env b with
      | error err => simp [ha, hb] at h
      | ok w =>
        obtain ⟨u', hu'⟩ := iha u ha
        obtain ⟨w', hw'⟩ := ihb w hb
        exact ⟨u' + w', by simp [hu', hw']⟩
  | mul a b iha ihb =>
    intro v h
    simp only [evalE] at h ⊢
    cases ha : evalE x env a with
    | error err => simp [ha] at h
    | ok u =>
      cases hb : evalE x env b with
      | error err => simp [ha, hb] at h
      | ok w =>
        obtain ⟨u', hu'⟩ := iha u ha
        obtain ⟨w', hw'⟩ := ihb w hb
        exact ⟨u' * w', by simp [hu', hw']⟩

theorem push_shape {l l' : Local} (h : LocalShape l l') (v v' : Int) : LocalShape (push l v) (push l' v') :=
  ⟨by simp [push, h.env_len], h.res_eq, h.cursors_eq, h.kids_eq⟩

theorem autoName_shape {cfg : Cfg} {l l' : Local} (h : LocalShape l l') (cls : String) :
    autoName cfg cls l' = autoName cfg cls l := by
  unfold autoName
  simp only [h.cursors_eq, h.res_eq, h.kids_eq]

theorem finishCall_shape {cfg : Cfg} {s t s1 : Store} (hrel : ShapeEq s t) {π : Path} {l l' l1 : Local}
    (hl : LocalShape l l') (h : finishCall cfg π l s = (.ok l1, s1)) :
    ∃ l1' t1, finishCall cfg π l' t = (.ok l1', t1) ∧ LocalShape l1 l1' ∧ ShapeEq s1 t1 := by
  unfold finishCall at h ⊢
  by_cases hc : cfg.capture = true
  · simp only [hc, if_true] at h ⊢
    cases hsow : moduleSow π "intermediates" "__call__" l.out l.res s with
    | mk res s2 =>
      rw [hsow] at h
      cases res with
      | error e => simp at h
      | ok r2 =>
        simp only [Prod.mk.injEq, Except.ok.injEq] at h
        obtain ⟨rfl, rfl⟩ := h
        obtain ⟨t1, e1, hr1⟩ := moduleSow_shape (e' := l'.out) hrel hsow
        rw [hl.res_eq, e1]
        exact ⟨_, t1, rfl, ⟨hl.env_len, rfl, hl.cursors_eq, hl.kids_eq⟩, hr1⟩
  · simp only [hc, Bool.false_eq_true, if_false] at h ⊢
    simp only [Prod.mk.injEq, Except.ok.injEq] at h
    obtain ⟨rfl, rfl⟩ := h
    exact ⟨l', t, rfl, hl, hrel⟩

/-! ### programs -/

theorem eval_shape : ∀ (fuel : Nat) (cfg : Cfg) (p : SProg) (π : Path) (x x' : Int) (l l' l1 : Local)
    (s t s1 : Store), ShapeEq s t → LocalShape l l' → eval cfg fuel p π x l s = (.ok l1, s1) →
    ∃ l1' t1, eval cfg fuel p π x' l' t = (.ok l1', t1) ∧ LocalShape l1 l1' ∧ ShapeEq s1 t1 := by
  intro fuel
  induction fuel with
  | zero => intro cfg p π x x' l l' l1 s t s1 _ _ h; simp [eval] at h
  | succ fuel ih =>
    intro cfg p π x x' l l' l1 s t s1 hrel hl h
    cases p with
    | skip =>
      simp only [eval, Prod.mk.injEq, Except.ok.injEq] at h
      obtain ⟨rfl, rfl⟩ := h
      exact ⟨l', t, by simp [eval], hl, hrel⟩
    | seq a b =>
      simp only [eval] at h
      cases ha : eval cfg fuel a π x l s with
      | mk res s2 =>
        rw [ha] at h
        cases res with
        | error e => simp at h
        | ok l2 =>
          obtain ⟨l2', t2, e1, hl2, hr2⟩ := ih cfg a π x x' l l' l2 s t s2 hrel hl ha
          obtain ⟨l3', t3, e2, hl3, hr3⟩ := ih cfg b π x x' l2 l2' l1 s2 t2 s1 hr2 hl2 h
          exact ⟨l3', t3, by simp only [eval, e1]; exact e2, hl3, hr3⟩
    | bind e =>
      simp only [eval] at h
      cases he : evalE x l.env e with
      | error err => simp [he] at h
      | ok v =>
        simp only [he, Prod.mk.injEq, Except.ok.injEq] at h
        obtain ⟨rfl, rfl⟩ := h
        obtain ⟨v', hv'⟩ := evalE_shape (x' := x') hl.env_len e v he
        exact ⟨push l' v', t, by simp [eval, hv'], push_shape hl v v', hrel⟩
    | ret e =>
      simp only [eval] at h
      cases he : evalE x l.env e with
      | error err => simp [he] at h
      | ok v =>
        simp only [he, Prod.mk.injEq, Except.ok.injEq] at h
        obtain ⟨rfl, rfl⟩ := h
        obtain ⟨v', hv'⟩ := evalE_shape (x' := x') hl.env_len e v he
        exact ⟨{ l' with out := v' }, t, by simp [eval, hv'], ⟨hl.env_len, hl.res_eq, hl.cursors_eq, hl.kids_eq⟩, hrel⟩
    | param n shape init =>
      simp only [eval] at h
      cases hp : scopeParam π n (resolveDims shape) init l.res s with
      | mk res s2 =>
        rw [hp] at h
        cases res with
        | error e => simp at h
        | ok vr =>
          obtain ⟨v, r⟩ := vr
          simp only [Prod.mk.injEq, Except.ok.injEq] at h
          obtain ⟨rfl, rfl⟩ := h
          obtain ⟨v', t1, e1, hr1⟩ := scopeParam_shape hrel hp
          refine ⟨{ push l' v'.total with res := r }, t1, by simp [eval, hl.res_eq, e1], ?_, hr1⟩
          exact ⟨by simp [push, hl.env_len], rfl, hl.cursors_eq, hl.kids_eq⟩
    | var col n shape init =>
      simp only [eval] at h
      cases he : evalE x l.env init with
      | error err => simp [he] at h
      | ok iv =>
        simp only [he] at h
        obtain ⟨iv', hiv'⟩ := evalE_shape (x' := x') hl.env_len init iv he
        cases hp : scopeVariable π col n (Val.full shape iv) l.res s with
        | mk res s2 =>
          rw [hp] at h
          cases res with
          | error e => simp at h
          | ok r =>
            simp only at h
            obtain ⟨t1, e1, hr1⟩ := scopeVariable_shape hrel (abs_full shape iv' iv) hp
            cases hg : getVar s2 π col n with
            | none => simp [hg] at h
            | some v =>
              simp only [hg, Prod.mk.injEq, Except.ok.injEq] at h
              obtain ⟨rfl, rfl⟩ := h
              obtain ⟨v', hg', _⟩ := getVar_shape hr1 π col n v hg
              refine ⟨{ push l' v'.total with res := r }, t1, by simp [eval, hiv', hl.res_eq, e1, hg'], ?_, hr1⟩
              exact ⟨by simp [push, hl.env_len], rfl, hl.cursors_eq, hl.kids_eq⟩
    | get col n =>
      simp only [eval] at h
      cases hg : getVar s π col n with
      | none =>
        simp only [hg, Prod.mk.injEq, Except.ok.injEq] at h
        obtain ⟨rfl, rfl⟩ := h
        exact ⟨push l' 0, t, by simp [eval, getVar_none_shape hrel π col n hg], push_shape hl 0 0, hrel⟩
      | some v =>
        simp only [hg, Prod.mk.injEq, Except.ok.injEq] at h
        obtain ⟨rfl, rfl⟩ := h
        obtain ⟨v', hg', _⟩ := getVar_shape hrel π col n v hg
        exact ⟨push l' v'.total, t, by simp [eval, hg'], push_shape hl _ _, hrel⟩
    | put col rel n e =>
      simp only [eval] at h
      cases he : evalE x l.env e with
      | error err => simp [he] at h
      | ok v =>
        simp only [he] at h
        obtain ⟨v', hv'⟩ := evalE_shape (x' := x') hl.env_len e v he
        cases hp : putVar (π ++ rel) col n (.tensor [] [v]) s with
        | mk res s2 =>
          rw [hp] at h
          cases res with
          | error e => simp at h
          | ok u =>
            simp only [Prod.mk.injEq, Except.ok.injEq] at h
            obtain ⟨rfl, rfl⟩ := h
            have hab : abs (.tensor [] [v']) = abs (.tensor [] [v]) := by simp [abs, Val.abstract]
            obtain ⟨t1, e1, hr1⟩ := putVar_shape hrel hab hp
            exact ⟨l', t1, by simp [eval, hv', e1], hl, hr1⟩
    | sow col n e =>
      simp only [eval] at h
      cases he : evalE x l.env e with
      | error err => simp [he] at h
      | ok v =>
        simp only [he] at h
        obtain ⟨v', hv'⟩ := evalE_shape (x' := x') hl.env_len e v he
        cases hp : moduleSow π col n v l.res s with
        | mk res s2 =>
          rw [hp] at h
          cases res with
          | error e => simp at h
          | ok r =>
            simp only [Prod.mk.injEq, Except.ok.injEq] at h
            obtain ⟨rfl, rfl⟩ := h
            obtain ⟨t1, e1, hr1⟩ := moduleSow_shape (e' := v') hrel hp
            refine ⟨{ l' with res := r }, t1, by simp [eval, hv', hl.res_eq, e1], ?_, hr1⟩
            exact ⟨hl.env_len, rfl, hl.cursors_eq, hl.kids_eq⟩
    | perturb col n e =>
      simp only [eval] at h
      cases he : evalE x l.env e with
      | error err => simp [he] at h
      | ok v =>
        simp only [he] at h
        obtain ⟨v', hv'⟩ := evalE_shape (x' := x') hl.env_len e v he
        cases hp : modulePerturb π col n v l.res s with
        | mk res s2 =>
          rw [hp] at h
          cases res with
          | error e => simp at h
          | ok yr =>
            obtain ⟨y, r⟩ := yr
            simp only [Prod.mk.injEq, Except.ok.injEq] at h
            obtain ⟨rfl, rfl⟩ := h
            obtain ⟨y', t1, e1, hr1⟩ := modulePerturb_shape (e' := v') hrel hp
            refine ⟨{ push l' y' with res := r }, t1, by simp [eval, hv', hl.res_eq, e1], ?_, hr1⟩
            exact ⟨by simp [push, hl.env_len], rfl, hl.cursors_eq, hl.kids_eq⟩
    | child cls name body =>
      simp only [eval] at h
      have hname : childName cfg cls name l' = childName cfg cls name l := by
        cases name with
        | some nm => simp [childName, hl.cursors_eq]
        | none => exact autoName_shape hl cls
      cases hn : childName cfg cls name l with
      | none => simp [hn] at h
      | some nc =>
        obtain ⟨nm, cs⟩ := nc
        simp only [hn] at h
        cases hr : reserve l.res nm none with
        | error e => simp [hr] at h
        | ok r =>
          simp only [hr, Prod.mk.injEq, Except.ok.injEq] at h
          obtain ⟨rfl, rfl⟩ := h
          refine ⟨{ l' with res := r, cursors := cs, kids := l'.kids ++ [⟨nm, body⟩] }, t,
            by simp [eval, hname, hn, hl.res_eq, hr], ?_, hrel⟩
          exact ⟨hl.env_len, rfl, rfl, by simp [hl.kids_eq]⟩
    | call slot a w =>
      simp only [eval] at h
      cases hk : l.kids[slot]? with
      | none => simp [hk] at h
      | some k =>
        simp only [hk] at h
        cases he : evalE x l.env a with
        | error err => simp [he] at h
        | ok av =>
          simp only [he] at h
          obtain ⟨av', hav'⟩ := evalE_shape (x' := x') hl.env_len a av he
          cases hb : eval cfg fuel (bindArg w k.body) (π ++ [k.name]) av {} s with
          | mk res s2 =>
            rw [hb] at h
            cases res with
            | error e => simp at h
            | ok lk =>
              simp only at h
              obtain ⟨lk', t2, e1, hlk, hr2⟩ :=
                ih cfg (bindArg w k.body) (π ++ [k.name]) av av' {} {} lk s t s2 hrel (LocalShape.refl _) hb
              cases hf : finishCall cfg (π ++ [k.name]) lk s2 with
              | mk res2 s3 =>
                rw [hf] at h
                cases res2 with
                | error e => simp at h
                | ok lk2 =>
                  simp only [Prod.mk.injEq, Except.ok.injEq] at h
                  obtain ⟨rfl, rfl⟩ := h
                  obtain ⟨lk2', t3, e2, _, hr3⟩ := finishCall_shape hr2 hlk hf
                  exact ⟨push l' lk2'.out, t3, by simp [eval, hl.kids_eq, hk, hav', e1, e2],
                    push_shape hl _ _, hr3⟩
    | nested body m V a =>
      simp only [eval] at h ⊢
      cases he : evalE x l.env a with
      | error err => simp [he] at h
      | ok av =>
        simp only [he] at h
        obtain ⟨av', hav'⟩ := evalE_shape (x' := x') hl.env_len a av he
        simp only [hav']
        by_cases hbs : badStructure V = true
        · simp [hbs] at h
        · simp only [hbs, Bool.false_eq_true, if_false] at h ⊢
          cases hb : eval (nestedCfg cfg) fuel body [] av {} (Scope.bind m V ["params"]) with
          | mk res si =>
            rw [hb] at h
            cases res with
            | error e => simp at h
            | ok li =>
              simp only [Prod.mk.injEq, Except.ok.injEq] at h
              obtain ⟨rfl, rfl⟩ := h
              obtain ⟨li', ti, e1, _, _⟩ := ih (nestedCfg cfg) body [] av av' {} {} li _ _ si (ShapeEq.refl _)
                (LocalShape.refl _) hb
              rw [e1]
              exact ⟨_, t, rfl, push_shape (push_shape hl _ _) _ _, hrel⟩

/-! ### init -/

theorem filter_key_abs (P : Path → Bool) (l : List (Path × Val)) :
    absVars (l.filter (fun kv => P kv.1)) = (absVars l).filter (fun kv => P kv.1) := by
  induction l with
  | nil => rfl
  | cons kv rest ih =>
    obtain ⟨k, v⟩ := kv
    by_cases hp : P k = true
    · simp only [absVars, List.filter, hp, List.map_cons] at ih ⊢; rw [ih]
    · simp only [absVars, List.filter, hp, List.map_cons] at ih ⊢; exact ih

theorem mutableVariables_shape {s t : Store} (h : ShapeEq s t) :
    Vars.abstract (mutableVariables t) = Vars.abstract (mutableVariables s) := by
  unfold Vars.abstract
  have h1 : (mutableVariables t).cols = (mutableVariables s).cols := by
    simp only [mutableVariables, h.cols_eq, h.mut_eq]
  have h2 : absVars (mutableVariables t).vars = absVars (mutableVariables s).vars := by
    rw [mutableVariables_vars, mutableVariables_vars, filter_key_abs, filter_key_abs, h.vars_eq, h.mut_eq]
  rw [h1]
  unfold absVars at h2
  simp only [abs] at h2
  rw [h2]

theorem init_shapes (cfg : Cfg) (fuel : Nat) (p : SProg) (m : LFilter) (rngs : List String) (x x' y : Int)
    (V : Vars) (h : (ModuleTree.init cfg fuel p m rngs x).result = .ok (y, V)) :
    ∃ y' V', (ModuleTree.init cfg fuel p m rngs x').result = .ok (y', V') ∧ Vars.abstract V' = Vars.abstract V := by
  unfold ModuleTree.init Scope.init Scope.apply at h ⊢
  have hbe : badStructure Vars.empty = false := rfl
  simp only [hbe, Bool.false_eq_true, if_false] at h ⊢
  unfold runTop at h ⊢
  cases hev : eval cfg fuel p [] x {} (Scope.bind (effMutable cfg m) Vars.empty rngs) with
  | mk res s1 =>
    rw [hev] at h
    cases res with
    | error e => simp at h
    | ok l1 =>
      simp only at h
      obtain ⟨l1', t1, e1, hl1, hr1⟩ := eval_shape fuel cfg p [] x x' {} {} l1 _ _ s1 (ShapeEq.refl _)
        (LocalShape.refl _) hev
      cases hf : finishCall cfg [] l1 s1 with
      | mk res2 s2 =>
        rw [hf] at h
        cases res2 with
        | error e => simp at h
        | ok l2 =>
          simp only [Except.ok.injEq, Prod.mk.injEq] at h
          obtain ⟨rfl, rfl⟩ := h
          obtain ⟨l2', t2, e2, _, hr2⟩ := finishCall_shape hr1 hl1 hf
          exact ⟨l2'.out, mutableVariables t2, by simp only [e1, e2], mutableVariables_shape hr2⟩

end Flax.ShapeSim
