/-
C04 helper lemmas (1): objects related "as maps", composition of address maps, and the joint relation
between the caller's heap and the heap of the traced function.
-/
import Flax.Model.NnxProtocol
import Flax.Proofs.GraphIso
import Flax.Proofs.GraphPaths

namespace Flax.Nnx
open Flax.Heap Flax.Graph

/-! ### attribute maps related as maps (what `vars(obj)` is: a dict, order-free) -/

/-- every key is absent on both sides, or bound to related values on both sides -/
def AttrsSim (φ : Addr → Option Addr) (A A' : List (Key × PVal)) : Prop :=
  ∀ k, OptRel φ (lookupKV k A) (lookupKV k A')

/-- objects related as Python objects: same class and attribute map / same Variable type, value, metadata -/
inductive ObjSim (φ : Addr → Option Addr) : Obj → Obj → Prop where
  | node {cls : String} {A A' : List (Key × PVal)} : AttrsSim φ A A' → ObjSim φ (.node cls A) (.node cls A')
  | var (ty : VType) (v : Data) (md : Meta) : ObjSim φ (.var ty v md) (.var ty v md)

theorem optRel_mono {φ φ' : Addr → Option Addr} (hle : PhiLe φ φ') {x y : Option PVal} (h : OptRel φ x y) :
    OptRel φ' x y := by
  rcases h with h | ⟨v, w, h1, h2, h3⟩
  · exact Or.inl h
  · exact Or.inr ⟨v, w, h1, h2, ValRel.mono hle h3⟩

theorem attrsSim_mono {φ φ' : Addr → Option Addr} (hle : PhiLe φ φ') {A A' : List (Key × PVal)}
    (h : AttrsSim φ A A') : AttrsSim φ' A A' := fun k => optRel_mono hle (h k)

theorem objSim_mono {φ φ' : Addr → Option Addr} (hle : PhiLe φ φ') {o o' : Obj} (h : ObjSim φ o o') :
    ObjSim φ' o o' := by
  cases h with
  | node ha => exact .node (attrsSim_mono hle ha)
  | var ty v md => exact .var ty v md

/-- C03's relation (attribute lists compared after sorting) implies the map relation -/
theorem objRel_toSim {φ : Addr → Option Addr} {o o' : Obj} (h : ObjRel φ o o') : ObjSim φ o o' := by
  cases h with
  | node hk =>
    refine .node (fun k => ?_)
    have := KVsRel.lookup k hk
    rwa [lookupKV_sortKV, lookupKV_sortKV] at this
  | var ty v md => exact .var ty v md

/-! ### composition of address maps -/

def comp (φ χ : Addr → Option Addr) (a : Addr) : Option Addr := (φ a).bind χ

mutual
  theorem valRel_comp {φ χ : Addr → Option Addr} : ∀ {v w u : PVal}, ValRel φ v w → ValRel χ w u → ValRel (comp φ χ) v u
    | _, _, _, .static s, h2 => by cases h2; exact .static s
    | _, _, _, .array d, h2 => by cases h2; exact .array d
    | _, _, _, .none, h2 => by cases h2; exact .none
    | _, _, _, .ref h, h2 => by
      cases h2 with
      | ref h' => exact .ref (by simp [Nnx.comp, h, h'])
    | _, _, _, .seq h, h2 => by
      cases h2 with
      | seq h' => exact .seq (valsRel_comp h h')
    | _, _, _, .dict h, h2 => by
      cases h2 with
      | dict h' => exact .dict (kvsRel_comp h h')
  theorem valsRel_comp {φ χ : Addr → Option Addr} : ∀ {xs ys zs : List PVal}, ValsRel φ xs ys → ValsRel χ ys zs →
      ValsRel (comp φ χ) xs zs
    | _, _, _, .nil, h2 => by cases h2; exact .nil
    | _, _, _, .cons h t, h2 => by
      cases h2 with
      | cons h' t' => exact .cons (valRel_comp h h') (valsRel_comp t t')
  theorem kvsRel_comp {φ χ : Addr → Option Addr} : ∀ {xs ys zs : List (Key × PVal)}, KVsRel φ xs ys → KVsRel χ ys zs →
      KVsRel (comp φ χ) xs zs
    | _, _, _, .nil, h2 => by cases h2; exact .nil
    | _, _, _, .cons h t, h2 => by
      cases h2 with
      | cons h' t' => exact .cons (valRel_comp h h') (kvsRel_comp t t')
end

theorem optRel_comp {φ χ : Addr → Option Addr} {x y z : Option PVal} (h1 : OptRel φ x y) (h2 : OptRel χ y z) :
    OptRel (comp φ χ) x z := by
  rcases h1 with ⟨rfl, rfl⟩ | ⟨v, w, rfl, rfl, hv⟩
  · rcases h2 with ⟨_, rfl⟩ | ⟨w, u, hw, _, _⟩
    · exact Or.inl ⟨rfl, rfl⟩
    · cases hw
  · rcases h2 with ⟨hw, _⟩ | ⟨w', u, hw, rfl, hu⟩
    · cases hw
    · cases hw
      exact Or.inr ⟨v, u, rfl, rfl, valRel_comp hv hu⟩

theorem objSim_comp {φ χ : Addr → Option Addr} {o1 o2 o3 : Obj} (h1 : ObjSim φ o1 o2) (h2 : ObjSim χ o2 o3) :
    ObjSim (comp φ χ) o1 o3 := by
  cases h1 with
  | node ha =>
    cases h2 with
    | node hb => exact .node (fun k => optRel_comp (ha k) (hb k))
  | var ty v md =>
    cases h2 with
    | var _ _ _ => exact .var ty v md

/-! ### rooted isomorphism with objects compared as maps -/

/-- `(h, r) ≅ (h', r')` via `φ`: like `Flax.Heap.Iso`, attribute dictionaries compared as maps -/
structure IsoM (h : Heap) (r : PVal) (h' : Heap) (r' : PVal) (φ : Addr → Option Addr) : Prop where
  root : ValRel φ r r'
  inj : ∀ a b c, φ a = some c → φ b = some c → a = b
  obj : ∀ a b, φ a = some b → ∃ o o', h[a]? = some o ∧ h'[b]? = some o' ∧ ObjSim φ o o'

theorem iso_toM {h h' : Heap} {r r' : PVal} {φ : Addr → Option Addr} (i : Iso h r h' r' φ) : IsoM h r h' r' φ :=
  ⟨i.root, i.inj, fun a b hab => by
    obtain ⟨o, o', h1, h2, h3⟩ := i.obj a b hab
    exact ⟨o, o', h1, h2, objRel_toSim h3⟩⟩

/-- one step along a path, on related values -/
theorem stepM_corr {h h' : Heap} {r r' : PVal} {φ : Addr → Option Addr} (iso : IsoM h r h' r' φ) {v v' : PVal}
    (hv : ValRel φ v v') (k : Key) : OptRel φ (step h v k) (step h' v' k) := by
  cases hv with
  | static s => exact Or.inl ⟨rfl, rfl⟩
  | array d => exact Or.inl ⟨rfl, rfl⟩
  | none => exact Or.inl ⟨rfl, rfl⟩
  | seq hs => simp only [step]; exact ValsRel.lookup_enum k 0 hs
  | dict hd =>
    simp only [step]
    have := KVsRel.lookup k hd
    rwa [lookupKV_sortKV, lookupKV_sortKV] at this
  | ref hab =>
    obtain ⟨o, o', h1, h2, h3⟩ := iso.obj _ _ hab
    simp only [step, h1, h2]
    cases h3 with
    | node ha => exact ha k
    | var ty v md => exact Or.inl ⟨rfl, rfl⟩

/-- isomorphic rooted heaps resolve every attribute path alike -/
theorem resolveM_corr {h h' : Heap} {r r' : PVal} {φ : Addr → Option Addr} (iso : IsoM h r h' r' φ) :
    ∀ (p : Path) {v v' : PVal}, ValRel φ v v' →
      (resolve h v p = Option.none ∧ resolve h' v' p = Option.none) ∨
        ∃ w w', resolve h v p = some w ∧ resolve h' v' p = some w' ∧ ValRel φ w w'
  | [], v, v', hv => Or.inr ⟨v, v', rfl, rfl, hv⟩
  | k :: p, v, v', hv => by
    simp only [resolve]
    rcases stepM_corr iso hv k with ⟨h1, h2⟩ | ⟨w, w', h1, h2, hw⟩
    · simp [h1, h2]
    · simp only [h1, h2]
      exact resolveM_corr iso p hw

end Flax.Nnx
