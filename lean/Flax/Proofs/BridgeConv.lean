/-
Helper lemmas for C18: leaf-wise conversion of trees, the attribute-major accumulation of
`linen_vars_to_nnx_attrs`, the collection-major rebuild of `nnx_attrs_to_linen_vars`.
-/
import Flax.Proofs.BridgeFlat
import Flax.Proofs.BridgeReg
import Flax.Proofs.BridgeBox

namespace Flax.Bridge
variable {α β γ : Type}

theorem bind_ok {ε σ τ : Type} (x : Except ε σ) (f : σ → Except ε τ) (b : τ) :
    (x >>= f) = .ok b ↔ ∃ a, x = .ok a ∧ f a = .ok b := by
  cases x <;> simp [bind, Except.bind]

/-! ## leafAt of explicit dicts -/

theorem leafAtF_cons_cons (k : String) (t : Tree β) (r : Forest β) (k' : String) (p : Path) :
    leafAtF ((k, t) :: r) (k' :: p) = if k' = k then t.leafAt p else leafAtF r (k' :: p) := by
  rw [leafAtF_cons, dget_cons]
  by_cases h : k' = k
  · simp [h]
  · simp [h, leafAtF_cons]

theorem leafAtF_of_not_mem (r : Forest β) (k : String) (p : Path) (h : k ∉ dkeys r) :
    leafAtF r (k :: p) = none := by
  rw [leafAtF_cons, (dget_eq_none_iff r k).mpr h]

theorem leafAtF_head_mem (r : Forest β) (k : String) (p : Path) (h : leafAtF r (k :: p) ≠ none) :
    k ∈ dkeys r := by
  by_cases hk : k ∈ dkeys r
  · exact hk
  · exact absurd (leafAtF_of_not_mem r k p hk) h

/-! ## leaf-wise conversion (`jax.tree.map`) -/

mutual
  theorem Tree.mapE_spec (g : β → Except Err γ) : ∀ (t : Tree β) (t' : Tree γ), t.mapE g = .ok t' →
      ∀ q, (∀ b, t.leafAt q = some b → ∃ c, g b = .ok c ∧ t'.leafAt q = some c) ∧
           (t.leafAt q = none → t'.leafAt q = none)
    | .leaf b0, t', h, q => by
      simp only [Tree.mapE, bind_ok, pure, Except.pure, Except.ok.injEq] at h
      obtain ⟨c, hc, rfl⟩ := h
      cases q with
      | nil =>
        refine ⟨fun b hb => ?_, fun hn => ?_⟩
        · simp only [Tree.leafAt, Option.some.injEq] at hb; subst hb; exact ⟨c, hc, rfl⟩
        · simp [Tree.leafAt] at hn
      | cons k p =>
        refine ⟨fun b hb => ?_, fun _ => rfl⟩
        simp [Tree.leafAt] at hb
    | .node f, t', h, q => by
      simp only [Tree.mapE, bind_ok, pure, Except.pure, Except.ok.injEq] at h
      obtain ⟨f', hf', rfl⟩ := h
      exact (mapEF_spec g f f' hf').2 q
  theorem mapEF_spec (g : β → Except Err γ) : ∀ (f : Forest β) (f' : Forest γ), mapEF g f = .ok f' →
      dkeys f' = dkeys f ∧
      ∀ q, (∀ b, leafAtF f q = some b → ∃ c, g b = .ok c ∧ leafAtF f' q = some c) ∧
           (leafAtF f q = none → leafAtF f' q = none)
    | [], f', h => by
      simp only [mapEF, pure, Except.pure, Except.ok.injEq] at h
      subst h
      exact ⟨rfl, fun q => ⟨fun b hb => by simp at hb, fun _ => by simp⟩⟩
    | (k, t) :: r, f', h => by
      simp only [mapEF, bind_ok, pure, Except.pure, Except.ok.injEq] at h
      obtain ⟨t', ht', r', hr', rfl⟩ := h
      have ih1 := Tree.mapE_spec g t t' ht'
      have ih2 := mapEF_spec g r r' hr'
      refine ⟨by simp [ih2.1], ?_⟩
      intro q
      cases q with
      | nil => exact ⟨fun b hb => by simp at hb, fun _ => rfl⟩
      | cons k' p =>
        rw [leafAtF_cons_cons, leafAtF_cons_cons]
        by_cases hk : k' = k
        · simp only [hk, ↓reduceIte]; exact ih1 p
        · simp only [hk, ↓reduceIte]; exact ih2.2 (k' :: p)
end

mutual
  theorem Tree.mapE_ok (g : β → Except Err γ) : ∀ (t : Tree β), (∀ pb ∈ t.flatten, ∃ c, g pb.2 = .ok c) →
      ∃ t', t.mapE g = .ok t'
    | .leaf b0, h => by
      obtain ⟨c, hc⟩ := h ([], b0) (by simp [Tree.flatten])
      exact ⟨.leaf c, by simp [Tree.mapE, hc, bind, Except.bind, pure, Except.pure]⟩
    | .node f, h => by
      obtain ⟨f', hf'⟩ := mapEF_ok g f (by simpa [Tree.flatten] using h)
      exact ⟨.node f', by simp [Tree.mapE, hf', bind, Except.bind, pure, Except.pure]⟩
  theorem mapEF_ok (g : β → Except Err γ) : ∀ (f : Forest β), (∀ pb ∈ flattenF f, ∃ c, g pb.2 = .ok c) →
      ∃ f', mapEF g f = .ok f'
    | [], _ => ⟨[], rfl⟩
    | (k, t) :: r, h => by
      obtain ⟨t', ht'⟩ := Tree.mapE_ok g t (by
        intro pb hpb
        exact h (k :: pb.1, pb.2) (by simp only [flattenF, List.mem_append, List.mem_map]; exact Or.inl ⟨pb, hpb, rfl⟩))
      obtain ⟨r', hr'⟩ := mapEF_ok g r (by
        intro pb hpb
        exact h pb (by simp only [flattenF, List.mem_append]; exact Or.inr hpb))
      exact ⟨(k, t') :: r', by simp [mapEF, ht', hr', bind, Except.bind, pure, Except.pure]⟩
end

mutual
  theorem Tree.mapE_shape (g : β → Except Err γ) : ∀ (t : Tree β) (t' : Tree γ), t.mapE g = .ok t' →
      (t.WF → t'.WF) ∧ (t.NoEmpty → t'.NoEmpty)
    | .leaf b0, t', h => by
      simp only [Tree.mapE, bind_ok, pure, Except.pure, Except.ok.injEq] at h
      obtain ⟨c, _, rfl⟩ := h
      exact ⟨fun _ => trivial, fun _ => trivial⟩
    | .node f, t', h => by
      simp only [Tree.mapE, bind_ok, pure, Except.pure, Except.ok.injEq] at h
      obtain ⟨f', hf', rfl⟩ := h
      have ih := mapEF_shape g f f' hf'
      refine ⟨fun hw => by simpa [Tree.WF] using ih.1 (by simpa [Tree.WF] using hw), ?_⟩
      intro hn
      simp only [Tree.NoEmpty] at hn ⊢
      refine ⟨?_, ih.2.1 hn.2⟩
      intro e; subst e
      have := ih.2.2
      cases f with
      | nil => exact hn.1 rfl
      | cons _ _ => simp [dkeys] at this
  theorem mapEF_shape (g : β → Except Err γ) : ∀ (f : Forest β) (f' : Forest γ), mapEF g f = .ok f' →
      (WFF f → WFF f') ∧ (NoEmptyF f → NoEmptyF f') ∧ dkeys f' = dkeys f
    | [], f', h => by
      simp only [mapEF, pure, Except.pure, Except.ok.injEq] at h
      subst h
      exact ⟨id, id, rfl⟩
    | (k, t) :: r, f', h => by
      simp only [mapEF, bind_ok, pure, Except.pure, Except.ok.injEq] at h
      obtain ⟨t', ht', r', hr', rfl⟩ := h
      have ih1 := Tree.mapE_shape g t t' ht'
      have ih2 := mapEF_shape g r r' hr'
      refine ⟨?_, ?_, by simp [ih2.2.2]⟩
      · intro hw
        simp only [WFF] at hw ⊢
        exact ⟨by rw [ih2.2.2]; exact hw.1, ih1.1 hw.2.1, ih2.1 hw.2.2⟩
      · intro hn
        simp only [NoEmptyF] at hn ⊢
        exact ⟨ih1.2 hn.1, ih2.2.1 hn.2⟩
end

/-- a non-empty dict without empty sub-dicts has a leaf -/
theorem exists_leaf : ∀ (n : Nat) (f : Forest β), sizeOf f ≤ n → f ≠ [] → NoEmptyF f →
    ∃ q b, leafAtF f q = some b := by
  intro n
  induction n with
  | zero =>
    intro f hs hne _
    cases f with
    | nil => exact absurd rfl hne
    | cons kt r => simp at hs
  | succ n ih =>
    intro f hs hne hn
    cases f with
    | nil => exact absurd rfl hne
    | cons kt r =>
      obtain ⟨k, t⟩ := kt
      simp only [NoEmptyF] at hn
      cases t with
      | leaf b => exact ⟨[k], b, by simp [leafAtF_cons_cons, Tree.leafAt]⟩
      | node sub =>
        simp only [Tree.NoEmpty] at hn
        obtain ⟨q, b, hq⟩ := ih sub (by simp at hs; omega) hn.1.1 hn.1.2
        exact ⟨k :: q, b, by simp [leafAtF_cons_cons, hq]⟩

/-! ## one attribute, one collection, all collections -/

theorem disjoint_compat (a : Forest β) (b : Forest γ) (h : Disjoint a b) : Compat a b :=
  fun q q' h1 h2 hp => absurd hp (h q q' h1 h2)

/-- the contract of one `(name, value)` step of the two accumulation loops (`linen_vars_to_nnx_attrs`
and the merge of `mutable` updates in `ToNNX.__call__`) -/
def StepOk (step : Forest β → String → Tree β → Except Err (Forest β)) : Prop :=
  ∀ (attrs : Forest β) (name : String) (value : Tree β), WFF attrs → value.WF →
    Compat attrs [(name, value)] →
    (∀ sub, value = .node sub → ∀ b, dget attrs name ≠ some (.leaf b)) →
    ∃ g, step attrs name value = .ok g ∧ WFF g ∧ (NoEmptyF attrs → value.NoEmpty → NoEmptyF g) ∧
      (∀ k, k ≠ name → dget g k = dget attrs k) ∧
      ∀ k' p, leafAtF g (k' :: p) =
        if k' = name then (value.leafAt p).or (leafAtF attrs (name :: p)) else leafAtF attrs (k' :: p)

theorem merged_ne_nil (m sub : Forest β) (old : Forest β) (hsub : sub ≠ []) (hn : NoEmptyF sub)
    (hm : ∀ q, leafAtF m q = (leafAtF sub q).or (leafAtF old q)) : m ≠ [] := by
  obtain ⟨q, b, hq⟩ := exists_leaf _ sub (Nat.le_refl _) hsub hn
  intro e
  have := hm q
  rw [e, hq] at this
  simp at this

theorem addAttr_spec : StepOk (addAttr (β := β)) := by
  intro attrs name value ha hv hc hk
  cases value with
  | leaf b =>
    refine ⟨dset attrs name (.leaf b), rfl, WFF_dset _ _ _ ha (by simp [Tree.WF]),
      fun hna _ => NoEmptyF_dset _ _ _ hna (by simp [Tree.NoEmpty]), ?_, ?_⟩
    · intro k hk'; rw [dget_dset]; simp [hk']
    · intro k' p
      rw [leafAtF_dset]
      by_cases hk' : k' = name
      · simp only [hk', ↓reduceIte]
        cases p with
        | nil => simp [Tree.leafAt]
        | cons k2 p2 =>
          have : leafAtF attrs (name :: k2 :: p2) = none := by
            cases h : leafAtF attrs (name :: k2 :: p2) with
            | none => rfl
            | some v =>
              have := hc (name :: k2 :: p2) [name] (by simp [h])
                (by simp [leafAtF_cons_cons, Tree.leafAt])
                (Or.inr (by rw [List.cons_prefix_cons]; exact ⟨rfl, List.nil_prefix⟩))
              simp at this
          simp [Tree.leafAt, this]
      · simp [hk']
  | node sub =>
    have hsw : WFF sub := by simpa [Tree.WF] using hv
    -- the dict that is there already
    have hold : ∃ old : Forest β, (dget attrs name = none ∧ old = [] ∨ dget attrs name = some (.node old)) := by
      cases h : dget attrs name with
      | none => exact ⟨[], Or.inl ⟨rfl, rfl⟩⟩
      | some t =>
        cases t with
        | node old => exact ⟨old, Or.inr rfl⟩
        | leaf b => exact absurd h (hk sub rfl b)
    obtain ⟨old, hold⟩ := hold
    have holdleaf : ∀ q, leafAtF old q = leafAtF attrs (name :: q) := by
      intro q
      rcases hold with ⟨h1, rfl⟩ | h1 <;> simp [leafAtF_cons, h1]
    have holdwf : WFF old := by
      rcases hold with ⟨_, rfl⟩ | h1
      · simp [WFF]
      · have := WF_dget attrs name _ ha h1; simpa [Tree.WF] using this
    have hcomp : Compat old sub := by
      intro q q' h1 h2 hp
      rw [holdleaf] at h1
      have := hc (name :: q) (name :: q') h1 (by simpa [leafAtF_cons_cons] using h2)
        (by rcases hp with hp | hp
            · exact Or.inl (by rw [List.cons_prefix_cons]; exact ⟨rfl, hp⟩)
            · exact Or.inr (by rw [List.cons_prefix_cons]; exact ⟨rfl, hp⟩))
      simpa using this
    obtain ⟨m, hm, hmleaf, hmwf, hmne⟩ := recursiveMerge_spec old sub holdwf hsw hcomp
    have hadd : addAttr attrs name (.node sub) = .ok (dset attrs name (.node m)) := by
      rcases hold with ⟨h1, rfl⟩ | h1
      · simp [addAttr, h1, hm, bind, Except.bind, pure, Except.pure]
      · simp [addAttr, h1, hm, bind, Except.bind, pure, Except.pure]
    refine ⟨_, hadd, WFF_dset _ _ _ ha (by simpa [Tree.WF] using hmwf), ?_, ?_, ?_⟩
    · intro hna hvn
      simp only [Tree.NoEmpty] at hvn
      exact NoEmptyF_dset _ _ _ hna ⟨merged_ne_nil m sub old hvn.1 hvn.2 hmleaf, hmne⟩
    · intro k hk'; rw [dget_dset]; simp [hk']
    · intro k' p
      rw [leafAtF_dset]
      by_cases hk' : k' = name
      · simp [hk', hmleaf, holdleaf]
      · simp [hk']

/-- the loop over one collection's entries: afterwards every path holds the collection's leaf when it
has one there, the old leaf otherwise -/
theorem NoEmpty_of_mem (f : Forest β) (h : NoEmptyF f) : ∀ kt ∈ f, kt.2.NoEmpty := by
  induction f with
  | nil => intro kt hk; cases hk
  | cons hd r ih =>
    simp only [NoEmptyF] at h
    intro kt hk
    rcases List.mem_cons.mp hk with rfl | hk
    · exact h.1
    · exact ih h.2 kt hk

theorem foldStep_spec (step : Forest β → String → Tree β → Except Err (Forest β)) (hstep : StepOk step) :
    ∀ (f : Forest β) (attrs : Forest β), WFF attrs → WFF f → Compat attrs f →
    (∀ k sub, (k, Tree.node sub) ∈ f → ∀ b, dget attrs k ≠ some (.leaf b)) →
    ∃ g, f.foldlM (fun a kt => step a kt.1 kt.2) attrs = .ok g ∧ WFF g ∧
      (NoEmptyF attrs → NoEmptyF f → NoEmptyF g) ∧
      ∀ q, leafAtF g q = (leafAtF f q).or (leafAtF attrs q) := by
  intro f
  induction f with
  | nil => intro attrs ha _ _ _; exact ⟨attrs, rfl, ha, fun h _ => h, by simp⟩
  | cons kt r ih =>
    intro attrs ha hf hc hkind
    obtain ⟨k, t⟩ := kt
    simp only [WFF] at hf
    obtain ⟨g1, hg1, hwf1, hne1, hget1, hleaf1⟩ := hstep attrs k t ha hf.2.1
      (by
        intro q q' h1 h2 hp
        refine hc q q' h1 ?_ hp
        cases q' with
        | nil => simp at h2
        | cons k' p' =>
          rw [leafAtF_cons_cons] at h2 ⊢
          by_cases hk : k' = k
          · simpa [hk] using h2
          · simp [hk] at h2)
      (fun sub hs b => hkind k sub (by simp [hs]) b)
    obtain ⟨g, hg, hwf, hne, hleaf⟩ := ih g1 hwf1 hf.2.2
      (by
        intro q q' h1 h2 hp
        cases q' with
        | nil => simp at h2
        | cons k2 p2 =>
          have hk2 : k2 ∈ dkeys r := leafAtF_head_mem r k2 p2 h2
          have hne : k2 ≠ k := fun e => hf.1 (e ▸ hk2)
          cases q with
          | nil => simp at h1
          | cons k1 p1 =>
            have hk1 : k1 = k2 := by
              rcases hp with hp | hp <;> rw [List.cons_prefix_cons] at hp
              · exact hp.1
              · exact hp.1.symm
            subst hk1
            rw [hleaf1] at h1
            simp only [hne, ↓reduceIte] at h1
            exact hc _ _ h1 (by rw [leafAtF_cons_cons]; simpa [hne] using h2) hp)
      (by
        intro k2 sub hm b
        have hk2 : k2 ∈ dkeys r := List.mem_map.mpr ⟨_, hm, rfl⟩
        have hne : k2 ≠ k := fun e => hf.1 (e ▸ hk2)
        rw [hget1 k2 hne]
        exact hkind k2 sub (by simp [hm]) b)
    refine ⟨g, ?_, hwf, ?_, ?_⟩
    · simp only [List.foldlM_cons, hg1]; exact hg
    · intro hna hnf
      simp only [NoEmptyF] at hnf
      exact hne (hne1 hna hnf.1) hnf.2
    · intro q
      rw [hleaf q]
      cases q with
      | nil => simp
      | cons k' p =>
        rw [hleaf1, leafAtF_cons_cons]
        by_cases hk : k' = k
        · subst hk
          simp [leafAtF_of_not_mem r k' p hf.1]
        · simp only [hk, ↓reduceIte]

theorem disjoint_or (a b : Forest β) (c : Forest γ) (g : Forest β)
    (hg : ∀ q, leafAtF g q = (leafAtF b q).or (leafAtF a q)) (ha : Disjoint a c) (hb : Disjoint b c) :
    Disjoint g c := by
  intro q q' h1 h2
  rw [hg] at h1
  cases hbq : leafAtF b q with
  | some v => exact hb q q' (by simp [hbq]) h2
  | none => rw [hbq] at h1; simp only [Option.none_or] at h1; exact ha q q' h1 h2

/-- the loop over the collections, for collections whose leaf paths are pairwise apart: a path holds a
leaf exactly when the start dict or one of the collections holds it there -/
theorem foldAddCol_spec : ∀ (cols : List (String × Tree β)) (acc : Forest β), WFF acc →
    (∀ ct ∈ cols, ∃ f, ct.2 = .node f ∧ WFF f ∧ NoEmptyF f ∧ Disjoint acc f) →
    cols.Pairwise (fun ct ct' => ∀ f f', ct.2 = .node f → ct'.2 = .node f' → Disjoint f f') →
    ∃ g, cols.foldlM (fun a ct => addCol a ct.2) acc = .ok g ∧ WFF g ∧ (NoEmptyF acc → NoEmptyF g) ∧
      ∀ q v, leafAtF g q = some v ↔ (leafAtF acc q = some v ∨ ∃ ct ∈ cols, ct.2.leafAt q = some v) := by
  intro cols
  induction cols with
  | nil => intro acc ha _ _; exact ⟨acc, rfl, ha, id, by simp⟩
  | cons ct rest ih =>
    intro acc ha hcols hpw
    obtain ⟨c, t⟩ := ct
    obtain ⟨f, hf, hfw, hfn, hfd⟩ := hcols (c, t) (by simp)
    simp only at hf; subst hf
    rw [List.pairwise_cons] at hpw
    obtain ⟨g1, hg1, hwf1, hne1, hleaf1⟩ := foldStep_spec addAttr addAttr_spec f acc ha hfw (disjoint_compat _ _ hfd)
      (by
        intro k sub hm b hd
        have hsub : dget f k = some (.node sub) := dget_of_mem f hfw k _ hm
        have hn : (Tree.node sub).NoEmpty := NoEmpty_dget f k _ hfn hsub
        simp only [Tree.NoEmpty] at hn
        obtain ⟨q, v, hq⟩ := exists_leaf _ sub (Nat.le_refl _) hn.1 hn.2
        exact hfd [k] (k :: q) (by simp [leafAtF_cons, hd, Tree.leafAt]) (by simp [leafAtF_cons, hsub, hq])
          (Or.inl (by rw [List.cons_prefix_cons]; exact ⟨rfl, List.nil_prefix⟩)))
    obtain ⟨g, hg, hwf, hne, hleaf⟩ := ih g1 hwf1
      (by
        intro ct' hct'
        obtain ⟨f', hf', hfw', hfn', hfd'⟩ := hcols ct' (by simp [hct'])
        exact ⟨f', hf', hfw', hfn', disjoint_or acc f f' g1 hleaf1 hfd' (hpw.1 ct' hct' f f' rfl hf')⟩)
      hpw.2
    refine ⟨g, ?_, hwf, fun h => hne (hne1 h hfn), ?_⟩
    · simp only [List.foldlM_cons, addCol, hg1]; exact hg
    · intro q v
      rw [hleaf q v, hleaf1 q]
      simp only [List.mem_cons, exists_eq_or_imp, Tree.leafAt_node]
      constructor
      · rintro (h | h)
        · cases hfq : leafAtF f q with
          | some w => rw [hfq] at h; simp only [Option.some_or] at h; exact Or.inr (Or.inl (by rw [← h]))
          | none => rw [hfq] at h; simp only [Option.none_or] at h; exact Or.inl h
        · exact Or.inr (Or.inr h)
      · rintro (h | h | h)
        · have : leafAtF f q = none := by
            cases hfq : leafAtF f q with
            | none => rfl
            | some w => exact absurd (Or.inl (List.prefix_refl q)) (hfd q q (by simp [h]) (by simp [hfq]))
          exact Or.inl (by simp [this, h])
        · exact Or.inl (by simp [h])
        · exact Or.inr h

end Flax.Bridge
