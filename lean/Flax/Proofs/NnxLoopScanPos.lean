/- C08 proofs: `nnx.scan` — the positional bookkeeping of `_scan_split_out` / `_scan_merge_out`: the j-th vectorised state
is the state of the j-th integer axis, on the way in and on the way out -/
import Flax.Proofs.NnxLoopScanLoop

namespace Flax.NnxLoop
open Flax.Filter Flax.LiftLoop

def isAxisB : Ax → Bool
  | .axis _ => true
  | _ => false
def isCarryB : Ax → Bool
  | .carry => true
  | _ => false
def isBcastB : Ax → Bool
  | .bcast => true
  | _ => false

/-- the group indices (counted from `s`) whose axis is of a given kind, in order -/
def kindIdx (P : Ax → Bool) : List Ax → Nat → List Nat
  | [], _ => []
  | a :: rest, s => if P a then s :: kindIdx P rest (s + 1) else kindIdx P rest (s + 1)

/-- the integer-axis groups with their axes -/
def axisGK : List Ax → Nat → List (Nat × Int)
  | [], _ => []
  | .axis k :: rest, s => (s, k) :: axisGK rest (s + 1)
  | .bcast :: rest, s => axisGK rest (s + 1)
  | .carry :: rest, s => axisGK rest (s + 1)

theorem axisGK_fst : ∀ (axes : List Ax) (s : Nat), (axisGK axes s).map (·.1) = kindIdx isAxisB axes s := by
  intro axes
  induction axes with
  | nil => intro s; rfl
  | cons a rest ih => intro s; cases a <;> simp [axisGK, kindIdx, isAxisB, ih]

theorem axisGK_snd : ∀ (axes : List Ax) (s : Nat), (axisGK axes s).map (·.2) = axisKs axes := by
  intro axes
  induction axes with
  | nil => intro s; rfl
  | cons a rest ih =>
    intro s
    cases a <;> simp [axisGK, axisKs, List.filterMap_cons] <;> (have := ih (s + 1); simpa [axisKs] using this)

theorem axisGK_mem : ∀ (axes : List Ax) (s g : Nat) (k : Int),
    (g, k) ∈ axisGK axes s ↔ ∃ j, g = s + j ∧ axes[j]? = some (.axis k) := by
  intro axes
  induction axes with
  | nil => intro s g k; simp [axisGK]
  | cons a rest ih =>
    intro s g k
    have shift : (∃ j, g = s + 1 + j ∧ rest[j]? = some (Ax.axis k)) ↔
        ∃ j, g = s + j ∧ (a :: rest)[j]? = some (Ax.axis k) ∧ 0 < j := by
      constructor
      · rintro ⟨j, h1, h2⟩; exact ⟨j + 1, by omega, by simpa using h2, by omega⟩
      · rintro ⟨j, h1, h2, h3⟩
        cases j with
        | zero => omega
        | succ j => exact ⟨j, by omega, by simpa using h2⟩
    cases a with
    | axis k' =>
      simp only [axisGK, List.mem_cons, ih, shift]
      constructor
      · rintro (h | ⟨j, h1, h2, _⟩)
        · injection h with h1 h2; exact ⟨0, by omega, by simp [h2]⟩
        · exact ⟨j, h1, h2⟩
      · rintro ⟨j, h1, h2⟩
        cases j with
        | zero => left; simp at h2; simp [h1, h2]
        | succ j => right; exact ⟨j + 1, h1, h2, by omega⟩
    | bcast =>
      simp only [axisGK, ih, shift]
      constructor
      · rintro ⟨j, h1, h2, _⟩; exact ⟨j, h1, h2⟩
      · rintro ⟨j, h1, h2⟩
        cases j with
        | zero => simp at h2
        | succ j => exact ⟨j + 1, h1, h2, by omega⟩
    | carry =>
      simp only [axisGK, ih, shift]
      constructor
      · rintro ⟨j, h1, h2, _⟩; exact ⟨j, h1, h2⟩
      · rintro ⟨j, h1, h2⟩
        cases j with
        | zero => simp at h2
        | succ j => exact ⟨j + 1, h1, h2, by omega⟩

section pos
variable {α : Type} [Inhabited α]

/-- **`_scan_split_out` by position**: with the states of a split written as a function of the group index, the three
routes are the states of the integer-axis / Carry / None groups, each in group order -/
theorem routeStates_false_eq : ∀ (axes : List Ax) (s : Nat) (f : Nat → State α),
    routeStates false (axes.zip ((List.range' s axes.length).map f)) =
      .ok ((kindIdx isAxisB axes s).map f, (kindIdx isCarryB axes s).map f, (kindIdx isBcastB axes s).map f) := by
  intro axes
  induction axes with
  | nil => intro s f; rfl
  | cons a rest ih =>
    intro s f
    simp only [List.length_cons, List.range'_succ, List.map_cons, List.zip_cons_cons, routeStates, ih (s + 1) f]
    cases a <;> simp [kindIdx, isAxisB, isCarryB, isBcastB]

/-- a list as a function of the index -/
theorem list_eq_map_getD {β : Type} (l : List β) (d : β) :
    l = (List.range' 0 l.length).map (fun g => l.getD g d) := by
  apply List.ext_getElem
  · simp
  · intro i h1 h2
    simp [List.getD_eq_getElem?_getD, List.getElem?_eq_getElem h1]

theorem column0_cons {β ι : Type} (is : List ι) (h : ι → β) (t : ι → List β) :
    column 0 (is.map (fun i => h i :: t i)) = .ok (is.map h) := by
  simp only [column, mapX_map]
  exact mapX_eq_map _ (fun i _ => by simp [pickX])

/-- **`vectorized_states.popleft()` by position**: popping once per integer axis pairs the j-th vectorised state of
every iteration with the j-th integer-axis group -/
theorem scanCollectVecK_eq {ι : Type} (is : List ι) (B : ι → Nat → State α) : ∀ (gks : List (Nat × Int)),
    scanCollectVecK (gks.map (·.2)) (is.map (fun i => gks.map (fun gk => B i gk.1))) =
      mapX (fun gk => stackStates (stackFront gk.2) (is.map (fun i => B i gk.1))) gks := by
  intro gks
  induction gks with
  | nil => rfl
  | cons gk rest ih =>
    simp only [List.map_cons, scanCollectVecK, mapX]
    rw [column0_cons is (fun i => B i gk.1) (fun i => rest.map (fun gk => B i gk.1))]
    simp only []
    have : (is.map (fun i => B i gk.1 :: rest.map (fun gk => B i gk.1))).map (·.drop 1) =
        is.map (fun i => rest.map (fun gk => B i gk.1)) := by
      simp [List.map_map, Function.comp_def]
    rw [this, ih]
    generalize stackStates (stackFront gk.2) (is.map (fun i => B i gk.1)) = x
    cases x with
    | error e => rfl
    | ok s0 =>
      simp only []
      generalize mapX (fun gk => stackStates (stackFront gk.2) (is.map (fun i => B i gk.1))) rest = y
      cases y <;> rfl

/-- the states `_scan_merge_out` rebuilds, by group: the stacked vectorised state, the carry state or the broadcast
state of that group -/
def unrouted {β : Type} : List Ax → Nat → (Nat → β) → (Nat → β) → (Nat → β) → List β
  | [], _, _, _, _ => []
  | .axis _ :: rest, s, W, C, B => W s :: unrouted rest (s + 1) W C B
  | .carry :: rest, s, W, C, B => C s :: unrouted rest (s + 1) W C B
  | .bcast :: rest, s, W, C, B => B s :: unrouted rest (s + 1) W C B

/-- **the three `popleft`s of `_scan_merge_out` by position** -/
theorem unrouteStates_eq : ∀ (axes : List Ax) (s : Nat) (W C B : Nat → State α),
    unrouteStates axes ((kindIdx isAxisB axes s).map W) ((kindIdx isCarryB axes s).map C)
      ((kindIdx isBcastB axes s).map B) = .ok (unrouted axes s W C B) := by
  intro axes
  induction axes with
  | nil => intro s W C B; rfl
  | cons a rest ih =>
    intro s W C B
    cases a <;> simp [kindIdx, isAxisB, isCarryB, isBcastB, unrouteStates, unrouted, ih (s + 1) W C B]

def selKind {β : Type} (a : Ax) (W C B : Nat → β) (g : Nat) : β :=
  match a with
  | .axis _ => W g
  | .carry => C g
  | .bcast => B g

theorem unrouted_mem {β : Type} : ∀ (axes : List Ax) (s : Nat) (W C B : Nat → List β) (pv : β),
    pv ∈ (unrouted axes s W C B).flatten ↔ ∃ j a, axes[j]? = some a ∧ pv ∈ selKind a W C B (s + j) := by
  intro axes
  induction axes with
  | nil => intro s W C B pv; simp [unrouted]
  | cons a rest ih =>
    intro s W C B pv
    have shift : (∃ j a', rest[j]? = some a' ∧ pv ∈ selKind a' W C B (s + 1 + j)) ↔
        ∃ j a', (a :: rest)[j]? = some a' ∧ pv ∈ selKind a' W C B (s + j) ∧ 0 < j := by
      constructor
      · rintro ⟨j, a', h1, h2⟩
        exact ⟨j + 1, a', by simpa using h1, by rw [show s + (j + 1) = s + 1 + j by omega]; exact h2, by omega⟩
      · rintro ⟨j, a', h1, h2, h3⟩
        cases j with
        | zero => omega
        | succ j => exact ⟨j, a', by simpa using h1, by rw [show s + 1 + j = s + (j + 1) by omega]; exact h2⟩
    have key : pv ∈ (unrouted (a :: rest) s W C B).flatten ↔
        pv ∈ selKind a W C B s ∨ pv ∈ (unrouted rest (s + 1) W C B).flatten := by
      cases a <;> simp [unrouted, selKind]
    rw [key, ih, shift]
    constructor
    · rintro (h | ⟨j, a', h1, h2, _⟩)
      · exact ⟨0, a, by simp, by simpa using h⟩
      · exact ⟨j, a', h1, h2⟩
    · rintro ⟨j, a', h1, h2⟩
      cases j with
      | zero =>
        left
        simp at h1
        subst h1
        simpa using h2
      | succ j => right; exact ⟨j + 1, a', h1, h2, by omega⟩

end pos

end Flax.NnxLoop
