/-
Helper lemmas for the character-level model of `natural_sort` (C11): the regex pieces are unaffected by what follows
an inert character; the scanner therefore treats `prefix ++ printed step` as "tokens of the prefix, then the step".
Core Lean only.
-/
import Flax.Model.NatSort

namespace Flax.NatSort

/-- a character that can be part of no number token and ends every look-ahead of the number regex -/
def Inert (c : Char) : Prop := isDigit c = false ∧ isSign c = false ∧ c ≠ '.' ∧ isExp c = false

/-- a piece of the regex that splits off a head: unaffected by what follows an inert character -/
def Stable (f : List Char → List Char × List Char) : Prop :=
  ∀ c, Inert c → ∀ X S, f (X ++ c :: S) = ((f X).1, (f X).2 ++ c :: S)

/-- the piece consumes a prefix; `pre` is what had been matched before -/
def Splits (pre : List Char) (f : List Char → List Char × List Char) : Prop :=
  ∀ X, (f X).1 ++ (f X).2 = pre ++ X

theorem spanDigits_stable : Stable spanDigits := by
  intro c hc X S
  induction X with
  | nil => simp [spanDigits, hc.1]
  | cons x r ih =>
    simp only [List.cons_append, spanDigits]
    by_cases hx : isDigit x = true
    · simp [hx, ih]
    · simp [hx]

theorem spanDigits_splits : Splits [] spanDigits := by
  intro X
  induction X with
  | nil => simp [spanDigits]
  | cons x r ih =>
    simp only [spanDigits]
    by_cases hx : isDigit x = true
    · simp only [hx, if_true, List.nil_append] at ih ⊢
      simp [ih]
    · simp [hx]

theorem optSign_stable : Stable optSign := by
  intro c hc X S
  cases X with
  | nil => simp [optSign, hc.2.1]
  | cons x r =>
    simp only [List.cons_append, optSign]
    by_cases hx : isSign x = true <;> simp [hx]

theorem optSign_splits : Splits [] optSign := by
  intro X
  cases X with
  | nil => simp [optSign]
  | cons x r =>
    simp only [optSign]
    by_cases hx : isSign x = true <;> simp [hx]

theorem optFrac_stable : Stable optFrac := by
  intro c hc X S
  cases X with
  | nil => simp [optFrac, hc.2.2.1]
  | cons x r =>
    simp only [List.cons_append, optFrac]
    by_cases hx : x = '.'
    · simp [hx, spanDigits_stable c hc r S]
    · simp [hx]

theorem optFrac_splits : Splits [] optFrac := by
  intro X
  cases X with
  | nil => simp [optFrac]
  | cons x r =>
    simp only [optFrac]
    by_cases hx : x = '.'
    · have := spanDigits_splits r
      simp only [List.nil_append] at this
      simp [hx, this]
    · simp [hx]

theorem withExp_stable (m : List Char) : Stable (withExp m) := by
  intro c hc X S
  cases X with
  | nil => simp [withExp, hc.2.2.2]
  | cons x r =>
    simp only [List.cons_append, withExp]
    by_cases hx : isExp x = true
    · simp only [hx, if_true, optSign_stable c hc r S, spanDigits_stable c hc (optSign r).2 S]
      by_cases he : (spanDigits (optSign r).2).1.isEmpty = true
      · simp [he]
      · simp [he]
    · simp [hx]

theorem withExp_splits (m : List Char) : Splits m (withExp m) := by
  intro X
  cases X with
  | nil => simp [withExp]
  | cons x r =>
    simp only [withExp]
    by_cases hx : isExp x = true
    · simp only [hx, if_true]
      by_cases he : (spanDigits (optSign r).2).1.isEmpty = true
      · simp [he]
      · have h1 := spanDigits_splits (optSign r).2
        have h2 := optSign_splits r
        simp only [List.nil_append] at h1 h2
        simp only [he, Bool.false_eq_true, if_false, List.append_assoc, List.cons_append]
        rw [h1, h2]
    · simp [hx]

theorem withExp_prefix (m X : List Char) : m <+: (withExp m X).1 := by
  cases X with
  | nil => simp [withExp]
  | cons x r =>
    simp only [withExp]
    by_cases hx : isExp x = true
    · simp only [hx, if_true]
      by_cases he : (spanDigits (optSign r).2).1.isEmpty = true
      · simp [he]
      · simp [he]
    · simp [hx]

/-- the mantissa-and-exponent match is unaffected by what follows an inert character -/
theorem matchMantissa_stable (sg : List Char) (c : Char) (hc : Inert c) (X S : List Char) :
    matchMantissa sg (X ++ c :: S) = (matchMantissa sg X).map (fun mr => (mr.1, mr.2 ++ c :: S)) := by
  cases X with
  | nil => simp [matchMantissa, hc.1, hc.2.2.1]
  | cons x r =>
    simp only [List.cons_append, matchMantissa]
    by_cases hx : isDigit x = true
    · simp only [hx, if_true, Option.map_some]
      have h1 := spanDigits_stable c hc (x :: r) S
      simp only [List.cons_append] at h1
      rw [h1]
      simp only
      rw [optFrac_stable c hc, withExp_stable _ c hc]
    · simp only [hx, Bool.false_eq_true, if_false]
      by_cases hd : x = '.'
      · simp only [hd, if_true, spanDigits_stable c hc r S]
        by_cases he : (spanDigits r).1.isEmpty = true
        · simp [he]
        · simp only [he, Bool.false_eq_true, if_false, Option.map_some]
          rw [withExp_stable _ c hc]
      · simp [hd]

theorem matchNum_stable (c : Char) (hc : Inert c) (X S : List Char) :
    matchNum (X ++ c :: S) = (matchNum X).map (fun mr => (mr.1, mr.2 ++ c :: S)) := by
  unfold matchNum
  rw [optSign_stable c hc]
  exact matchMantissa_stable _ c hc _ S

theorem matchMantissa_splits (sg X : List Char) {m r : List Char} (h : matchMantissa sg X = some (m, r)) :
    m ++ r = sg ++ X ∧ sg.length < m.length := by
  cases X with
  | nil => simp [matchMantissa] at h
  | cons x t =>
    simp only [matchMantissa] at h
    by_cases hx : isDigit x = true
    · simp only [hx, if_true, Option.some.injEq] at h
      have h1 := withExp_splits (sg ++ (spanDigits (x :: t)).1 ++ (optFrac (spanDigits (x :: t)).2).1)
        (optFrac (spanDigits (x :: t)).2).2
      rw [h] at h1
      have h2 := optFrac_splits (spanDigits (x :: t)).2
      have h3 := spanDigits_splits (x :: t)
      simp only [List.nil_append] at h2 h3
      constructor
      · simp only at h1
        rw [h1, List.append_assoc, List.append_assoc, h2, h3]
      · -- the matched text extends `sg` by at least the digit `x`
        have hm : sg ++ (spanDigits (x :: t)).1 ++ (optFrac (spanDigits (x :: t)).2).1 <+: m := by
          have := withExp_prefix (sg ++ (spanDigits (x :: t)).1 ++ (optFrac (spanDigits (x :: t)).2).1)
            (optFrac (spanDigits (x :: t)).2).2
          rwa [h] at this
        have hlen := hm.length_le
        have : 0 < (spanDigits (x :: t)).1.length := by simp [spanDigits, hx]
        simp only [List.length_append] at hlen
        omega
    · simp only [hx, Bool.false_eq_true, if_false] at h
      by_cases hd : x = '.'
      · simp only [hd, if_true] at h
        by_cases he : (spanDigits t).1.isEmpty = true
        · simp [he] at h
        · simp only [he, Bool.false_eq_true, if_false, Option.some.injEq] at h
          have h1 := withExp_splits (sg ++ '.' :: (spanDigits t).1) (spanDigits t).2
          rw [h] at h1
          have h3 := spanDigits_splits t
          simp only [List.nil_append] at h3
          constructor
          · simp only at h1
            rw [h1, hd, List.append_assoc, List.cons_append, h3]
          · have hm : sg ++ '.' :: (spanDigits t).1 <+: m := by
              have := withExp_prefix (sg ++ '.' :: (spanDigits t).1) (spanDigits t).2
              rwa [h] at this
            have hlen := hm.length_le
            simp only [List.length_append, List.length_cons] at hlen
            omega
      · simp [hd] at h

/-- a match is a non-empty prefix of the string -/
theorem matchNum_splits {X m r : List Char} (h : matchNum X = some (m, r)) : m ++ r = X ∧ 0 < m.length := by
  unfold matchNum at h
  obtain ⟨h1, h2⟩ := matchMantissa_splits _ _ h
  have h3 := optSign_splits X
  simp only [List.nil_append] at h3
  exact ⟨by rw [h1, h3], by omega⟩

/-! ### the scanner -/

theorem scan_skip_all (r : List Char) : ∀ (k : Nat) (acc : List Char), r.length ≤ k → scan r k acc = [.text acc] := by
  induction r with
  | nil => intro k acc _; cases k <;> rfl
  | cons x t ih =>
    intro k acc hk
    cases k with
    | zero => simp at hk
    | succ k' => simp only [scan]; exact ih k' acc (by simpa using hk)

/-- Scanning `X ++ c :: S` with `c` inert: the tokens produced inside `X` and the text pending at `c` do not depend
on `S`, and `S` is then scanned from scratch with that text pending. -/
theorem scan_stable (c : Char) (hc : Inert c) (X : List Char) :
    ∀ (skip : Nat) (acc : List Char), skip ≤ X.length →
      ∃ toks acc', ∀ S, scan (X ++ c :: S) skip acc = toks ++ scan S 0 (acc' ++ [c]) := by
  induction X with
  | nil =>
    intro skip acc hs
    have : skip = 0 := by simpa using hs
    subst this
    refine ⟨[], acc, fun S => ?_⟩
    have := matchNum_stable c hc [] S
    simp only [List.nil_append] at this
    have h0 : matchNum [] = none := rfl
    rw [h0] at this
    simp [scan, this]
  | cons x r ih =>
    intro skip acc hs
    cases skip with
    | succ k =>
      obtain ⟨toks, acc', h⟩ := ih k acc (by simpa using hs)
      exact ⟨toks, acc', fun S => by simp only [List.cons_append, scan]; exact h S⟩
    | zero =>
      cases hm : matchNum (x :: r) with
      | none =>
        obtain ⟨toks, acc', h⟩ := ih 0 (acc ++ [x]) (Nat.zero_le _)
        refine ⟨toks, acc', fun S => ?_⟩
        have := matchNum_stable c hc (x :: r) S
        rw [hm] at this
        simp only [List.cons_append, Option.map_none] at this
        simp only [List.cons_append, scan, this]
        exact h S
      | some mr =>
        obtain ⟨m, rest⟩ := mr
        obtain ⟨hsplit, hpos⟩ := matchNum_splits hm
        have hlen : m.length - 1 ≤ r.length := by
          have := congrArg List.length hsplit
          simp only [List.length_append, List.length_cons] at this
          omega
        obtain ⟨toks, acc', h⟩ := ih (m.length - 1) [] hlen
        refine ⟨.text acc :: .num m :: toks, acc', fun S => ?_⟩
        have := matchNum_stable c hc (x :: r) S
        rw [hm] at this
        simp only [List.cons_append, Option.map_some] at this
        simp only [List.cons_append, scan, this]
        rw [h S]

/-! ### printed integers -/

theorem isDigit_digitChar (k : Nat) : isDigit (digitChar k) = true := by
  unfold digitChar
  split <;> decide

theorem digitVal_digitChar {k : Nat} (h : k < 10) : digitVal (digitChar k) = k := by
  match k, h with
  | 0, _ | 1, _ | 2, _ | 3, _ | 4, _ | 5, _ | 6, _ | 7, _ | 8, _ | 9, _ => decide

theorem showNat_digits (n : Nat) : (∀ c ∈ showNat n, isDigit c = true) ∧ showNat n ≠ [] := by
  induction n using Nat.strongRecOn with
  | _ n ih =>
    rw [showNat]
    by_cases h : n < 10
    · simp [h, isDigit_digitChar]
    · simp only [h, dite_false]
      have := ih (n / 10) (by omega)
      refine ⟨?_, by simp⟩
      intro c hc
      rcases List.mem_append.mp hc with h1 | h1
      · exact this.1 c h1
      · simp only [List.mem_singleton] at h1; subst h1; exact isDigit_digitChar _

theorem parseNat_append (xs : List Char) (d : Char) : parseNat (xs ++ [d]) = parseNat xs * 10 + digitVal d := by
  simp [parseNat, List.foldl_append]

theorem parseNat_showNat (n : Nat) : parseNat (showNat n) = n := by
  induction n using Nat.strongRecOn with
  | _ n ih =>
    rw [showNat]
    by_cases h : n < 10
    · simp [h, parseNat, digitVal_digitChar h]
    · simp only [h, dite_false]
      rw [parseNat_append, ih (n / 10) (by omega), digitVal_digitChar (Nat.mod_lt _ (by omega))]
      omega

theorem spanDigits_all {l : List Char} (h : ∀ c ∈ l, isDigit c = true) : spanDigits l = (l, []) := by
  induction l with
  | nil => rfl
  | cons x r ih =>
    have hx := h x List.mem_cons_self
    have hr := ih (fun c hc => h c (List.mem_cons_of_mem _ hc))
    simp [spanDigits, hx, hr]

theorem optSign_of_digit {l : List Char} (h : ∀ c ∈ l, isDigit c = true) : optSign l = ([], l) := by
  cases l with
  | nil => rfl
  | cons x r =>
    have hx := h x List.mem_cons_self
    have : isSign x = false := by
      simp only [isDigit, isSign, Bool.and_eq_true, decide_eq_true_eq] at hx ⊢
      by_cases h1 : x = '+'
      · subst h1; exact absurd hx (by decide)
      · by_cases h2 : x = '-'
        · subst h2; exact absurd hx (by decide)
        · simp [h1, h2]
    simp [optSign, this]

/-- the number regex matches a printed integer entirely -/
theorem matchNum_showInt (n : Int) : matchNum (showInt n) = some (showInt n, []) := by
  have key : ∀ (sg : List Char) (k : Nat), matchMantissa sg (showNat k) = some (sg ++ showNat k, []) := by
    intro sg k
    obtain ⟨hd, hne⟩ := showNat_digits k
    cases hs : showNat k with
    | nil => exact absurd hs hne
    | cons x r =>
      rw [hs] at hd
      have hx := hd x List.mem_cons_self
      simp only [matchMantissa, hx, if_true, spanDigits_all hd, optFrac, withExp, List.append_nil]
  cases n with
  | ofNat k =>
    simp only [showInt, matchNum, optSign_of_digit (showNat_digits k).1]
    simpa using key [] k
  | negSucc k =>
    simp only [showInt, matchNum, optSign]
    have : isSign '-' = true := by decide
    simp only [this, if_true]
    simpa using key ['-'] (k + 1)

/-- scanning a printed integer with text `A` pending: that text, the number, an empty text -/
theorem scan_showInt (n : Int) (A : List Char) :
    scan (showInt n) 0 A = [.text A, .num (showInt n), .text []] := by
  have hm := matchNum_showInt n
  obtain ⟨_, hpos⟩ := matchNum_splits hm
  cases hs : showInt n with
  | nil => rw [hs] at hpos; simp at hpos
  | cons x r =>
    rw [hs] at hm
    simp only [scan, hm]
    rw [scan_skip_all r _ [] (by simp)]

/-- the value of a printed integer is the integer -/
theorem decOf_showInt (n : Int) : (decOf (showInt n)).e = 0 ∧ (decOf (showInt n)).signed = n := by
  cases n with
  | ofNat k =>
    obtain ⟨hd, _⟩ := showNat_digits k
    simp only [showInt, decOf, optSign_of_digit hd, spanDigits_all hd, optFrac, List.drop_nil, List.append_nil,
      parseNat_showNat, List.length_nil, Dec.signed]
    simp
  | negSucc k =>
    obtain ⟨hd, _⟩ := showNat_digits (k + 1)
    have : isSign '-' = true := by decide
    simp only [showInt, decOf, optSign, this, if_true, spanDigits_all hd, optFrac, List.drop_nil, List.append_nil,
      parseNat_showNat, List.length_nil, Dec.signed]
    simp [Int.negSucc_eq]

/-! ### keys -/

theorem strCmp_self (s : List Char) : strCmp s s = .eq := by
  induction s with
  | nil => rfl
  | cons a r ih => simp [strCmp, ih]

theorem int_compare_self (a : Int) : compare a a = .eq := by
  simp [compare, compareOfLessAndEq]

theorem elemCmp_self (k : KElem) : elemCmp k k = .eq := by
  cases k with
  | str s => exact strCmp_self s
  | num d => simp [elemCmp, decCmp, int_compare_self]

theorem keyCmp_append_left (K x y : List KElem) : keyCmp (K ++ x) (K ++ y) = keyCmp x y := by
  induction K with
  | nil => rfl
  | cons k r ih => simp [keyCmp, elemCmp_self, ih]

theorem int_compare_cases (a b : Int) :
    (compare a b = .lt ∧ a < b) ∨ (compare a b = .eq ∧ a = b) ∨ (compare a b = .gt ∧ b < a) := by
  simp only [compare, compareOfLessAndEq]
  by_cases h1 : a < b
  · simp [h1]
  · by_cases h2 : a = b
    · simp [h2]
    · simp only [h1, h2, if_false]
      right; right
      exact ⟨trivial, by omega⟩

/-! ### sorting -/

theorem insertBy_map {α β} (f : α → β) (le : α → α → Bool) (le' : β → β → Bool)
    (h : ∀ a b, le' (f a) (f b) = le a b) (a : α) (l : List α) :
    insertBy le' (f a) (l.map f) = (insertBy le a l).map f := by
  induction l with
  | nil => rfl
  | cons b r ih =>
    simp only [List.map_cons, insertBy, h]
    by_cases hb : le b a = true
    · simp [hb, ih]
    · simp [hb]

theorem sortBy_map {α β} (f : α → β) (le : α → α → Bool) (le' : β → β → Bool)
    (h : ∀ a b, le' (f a) (f b) = le a b) (l : List α) :
    sortBy le' (l.map f) = (sortBy le l).map f := by
  unfold sortBy
  have key : ∀ (l acc : List α), (l.map f).foldl (fun acc a => insertBy le' a acc) (acc.map f) =
      (l.foldl (fun acc a => insertBy le a acc) acc).map f := by
    intro l
    induction l with
    | nil => intro acc; rfl
    | cons a r ih =>
      intro acc
      simp only [List.map_cons, List.foldl_cons, insertBy_map f le le' h]
      exact ih _
  simpa using key l []

def intLe (a b : Int) : Bool := decide (a ≤ b)

theorem mem_insertBy {α} (le : α → α → Bool) (a x : α) (l : List α) : x ∈ insertBy le a l ↔ x = a ∨ x ∈ l := by
  induction l with
  | nil => simp [insertBy]
  | cons b r ih =>
    simp only [insertBy]
    by_cases hb : le b a = true
    · simp only [hb, if_true, List.mem_cons, ih]
      constructor
      · rintro (h | h | h)
        · exact Or.inr (Or.inl h)
        · exact Or.inl h
        · exact Or.inr (Or.inr h)
      · rintro (h | h | h)
        · exact Or.inr (Or.inl h)
        · exact Or.inl h
        · exact Or.inr (Or.inr h)
    · simp [hb]

theorem mem_sortBy {α} (le : α → α → Bool) (x : α) (l : List α) : x ∈ sortBy le l ↔ x ∈ l := by
  unfold sortBy
  have key : ∀ (l acc : List α), x ∈ l.foldl (fun acc a => insertBy le a acc) acc ↔ x ∈ l ∨ x ∈ acc := by
    intro l
    induction l with
    | nil => intro acc; simp
    | cons a r ih =>
      intro acc
      simp only [List.foldl_cons, ih, mem_insertBy, List.mem_cons]
      constructor
      · rintro (h | h | h)
        · exact Or.inl (Or.inr h)
        · exact Or.inl (Or.inl h)
        · exact Or.inr h
      · rintro ((h | h) | h)
        · exact Or.inr (Or.inl h)
        · exact Or.inl h
        · exact Or.inr (Or.inr h)
  simpa using key l []

theorem sorted_insertBy_int (a : Int) {l : List Int} (h : l.Pairwise (· ≤ ·)) :
    (insertBy intLe a l).Pairwise (· ≤ ·) := by
  induction l with
  | nil => simp [insertBy]
  | cons b r ih =>
    have hb := List.pairwise_cons.mp h
    simp only [insertBy, intLe]
    by_cases hba : b ≤ a
    · simp only [hba, decide_true, if_true]
      refine List.pairwise_cons.mpr ⟨?_, ih hb.2⟩
      intro y hy
      rcases (mem_insertBy intLe a y r).mp hy with e | e
      · subst e; exact hba
      · exact hb.1 y e
    · simp only [hba, decide_false, Bool.false_eq_true, if_false]
      refine List.pairwise_cons.mpr ⟨?_, h⟩
      intro y hy
      rcases List.mem_cons.mp hy with e | e
      · subst e; omega
      · have := hb.1 y e; omega

theorem sorted_sortBy_int (l : List Int) : (sortBy intLe l).Pairwise (· ≤ ·) := by
  unfold sortBy
  have key : ∀ (l acc : List Int), acc.Pairwise (· ≤ ·) →
      (l.foldl (fun acc a => insertBy intLe a acc) acc).Pairwise (· ≤ ·) := by
    intro l
    induction l with
    | nil => intro acc h; exact h
    | cons a r ih => intro acc h; exact ih _ (sorted_insertBy_int a h)
  exact key l [] List.Pairwise.nil

theorem le_getLast_of_sorted {l : List Int} (h : l.Pairwise (· ≤ ·)) {m : Int} (hm : l.getLast? = some m) :
    ∀ x ∈ l, x ≤ m := by
  induction l with
  | nil => simp
  | cons a r ih =>
    have ha := List.pairwise_cons.mp h
    cases r with
    | nil =>
      simp at hm
      intro x hx; simp at hx; omega
    | cons b r2 =>
      have hm' : (b :: r2).getLast? = some m := by simpa [List.getLast?_cons_cons] using hm
      intro x hx
      rcases List.mem_cons.mp hx with e | e
      · subst e
        have := ih ha.2 hm' b List.mem_cons_self
        have := ha.1 b List.mem_cons_self
        omega
      · exact ih ha.2 hm' x e


/-! ### a suffix without any number character (the legacy temp file `<prefix>tmp`) -/

theorem matchNum_inert_head {c : Char} (hc : Inert c) (S : List Char) : matchNum (c :: S) = none := by
  have := matchNum_stable c hc [] S
  simpa [show matchNum [] = none from rfl] using this

theorem scan_inert (T : List Char) (hT : ∀ c ∈ T, Inert c) : ∀ acc, scan T 0 acc = [.text (acc ++ T)] := by
  induction T with
  | nil => intro acc; simp [scan]
  | cons x r ih =>
    intro acc
    simp only [scan, matchNum_inert_head (hT x List.mem_cons_self)]
    rw [ih (fun c hc => hT c (List.mem_cons_of_mem _ hc))]
    simp

theorem strCmp_proper_prefix (A : List Char) (x : Char) (r : List Char) : strCmp A (A ++ x :: r) = .lt := by
  induction A with
  | nil => rfl
  | cons a t ih => simp [strCmp, ih]


/-! ### the sort is a permutation -/

theorem insertBy_perm {α} (le : α → α → Bool) (a : α) (l : List α) : (insertBy le a l).Perm (a :: l) := by
  induction l with
  | nil => exact List.Perm.refl _
  | cons b r ih =>
    simp only [insertBy]
    by_cases hb : le b a = true
    · simp only [hb, if_true]
      exact ((List.Perm.cons b ih).trans (List.Perm.swap a b r))
    · simp only [hb]
      exact List.Perm.refl _

theorem sortBy_perm {α} (le : α → α → Bool) (l : List α) : (sortBy le l).Perm l := by
  unfold sortBy
  have key : ∀ (l acc : List α), (l.foldl (fun acc a => insertBy le a acc) acc).Perm (l ++ acc) := by
    intro l
    induction l with
    | nil => intro acc; exact List.Perm.refl _
    | cons a r ih =>
      intro acc
      simp only [List.foldl_cons, List.cons_append]
      refine (ih _).trans ?_
      refine (List.Perm.append_left r (insertBy_perm le a acc)).trans ?_
      exact (List.perm_middle).trans (List.Perm.refl _)
  simpa using key l []


/-! ### printed numbers in general: integer part, optional fraction, optional exponent -/

def AllDigits (l : List Char) : Prop := ∀ c ∈ l, isDigit c = true

/-- an optional sign as Python prints / the regex accepts it -/
def IsSign (s : List Char) : Prop := s = [] ∨ s = ['+'] ∨ s = ['-']

/-- `[-+]?\d+(\.\d*)?([eE][-+]?\d+)?`: what `str(int)` and `repr(float)` print for finite values
(`5`, `-3`, `0.5`, `100000.0`, `1e-05`, `-2.5e+16`) and a little more -/
def IsNumLit (l : List Char) : Prop :=
  ∃ sg ip fr ex, l = sg ++ (ip ++ (fr ++ ex)) ∧ IsSign sg ∧ ip ≠ [] ∧ AllDigits ip ∧
    (fr = [] ∨ ∃ fd, fr = '.' :: fd ∧ AllDigits fd) ∧
    (ex = [] ∨ ∃ e s ed, ex = e :: (s ++ ed) ∧ isExp e = true ∧ IsSign s ∧ ed ≠ [] ∧ AllDigits ed)

/-- the regex consumes the whole string as one number -/
def FullMatch (l : List Char) : Prop := matchNum l = some (l, [])

theorem isSign_of_isDigit {c : Char} (h : isDigit c = true) : isSign c = false := by
  simp only [isDigit, isSign, Bool.and_eq_true, decide_eq_true_eq] at h ⊢
  by_cases h1 : c = '+'
  · subst h1; exact absurd h (by decide)
  · by_cases h2 : c = '-'
    · subst h2; exact absurd h (by decide)
    · simp [h1, h2]

theorem ne_dot_of_isDigit {c : Char} (h : isDigit c = true) : c ≠ '.' := by
  intro hc; subst hc; exact absurd h (by decide)

theorem isDigit_of_isExp {c : Char} (h : isExp c = true) : isDigit c = false := by
  simp only [isExp, Bool.or_eq_true, decide_eq_true_eq] at h
  rcases h with rfl | rfl <;> decide

theorem ne_dot_of_isExp {c : Char} (h : isExp c = true) : c ≠ '.' := by
  simp only [isExp, Bool.or_eq_true, decide_eq_true_eq] at h
  rcases h with rfl | rfl <;> decide

/-- digits followed by nothing or by a non-digit -/
theorem spanDigits_append {ip tail : List Char} (hip : AllDigits ip)
    (ht : ∀ c t, tail = c :: t → isDigit c = false) : spanDigits (ip ++ tail) = (ip, tail) := by
  induction ip with
  | nil =>
    cases tail with
    | nil => rfl
    | cons c t => simp [spanDigits, ht c t rfl]
  | cons x r ih =>
    have hx := hip x List.mem_cons_self
    have := ih (fun c hc => hip c (List.mem_cons_of_mem _ hc))
    simp [spanDigits, hx, this]

theorem optSign_append {s t : List Char} (hs : IsSign s) (ht : ∀ c r, t = c :: r → isSign c = false) :
    optSign (s ++ t) = (s, t) := by
  rcases hs with rfl | rfl | rfl
  · cases t with
    | nil => rfl
    | cons c r => simp [optSign, ht c r rfl]
  · simp [optSign, show isSign '+' = true from by decide]
  · simp [optSign, show isSign '-' = true from by decide]

theorem head_digit {l : List Char} (hne : l ≠ []) (hd : AllDigits l) : ∃ c r, l = c :: r ∧ isDigit c = true := by
  cases l with
  | nil => exact absurd rfl hne
  | cons c r => exact ⟨c, r, rfl, hd c List.mem_cons_self⟩

/-- every printed number is matched entirely by the regex -/
theorem fullMatch_of_isNumLit {l : List Char} (h : IsNumLit l) : FullMatch l := by
  obtain ⟨sg, ip, fr, ex, rfl, hsg, hipne, hip, hfr, hex⟩ := h
  obtain ⟨d0, ip', hipeq, hd0⟩ := head_digit hipne hip
  unfold FullMatch matchNum
  -- the sign
  have h1 : optSign (sg ++ (ip ++ (fr ++ ex))) = (sg, ip ++ (fr ++ ex)) := by
    apply optSign_append hsg
    intro c r hcr
    rw [hipeq] at hcr
    simp only [List.cons_append, List.cons.injEq] at hcr
    rw [← hcr.1]; exact isSign_of_isDigit hd0
  rw [h1]
  simp only
  -- the exponent, on whatever mantissa `m`
  have hexp : ∀ m, withExp m ex = (m ++ ex, []) := by
    intro m
    rcases hex with rfl | ⟨e, s, ed, rfl, he, hs, hedne, hed⟩
    · simp [withExp]
    · obtain ⟨d1, ed', hedeq, hd1⟩ := head_digit hedne hed
      have hso : optSign (s ++ ed) = (s, ed) := by
        apply optSign_append hs
        intro c r hcr
        rw [hedeq] at hcr
        simp only [List.cons.injEq] at hcr
        rw [← hcr.1]; exact isSign_of_isDigit hd1
      have hsp : spanDigits ed = (ed, []) := by
        have := spanDigits_append (tail := []) hed (by intro c t h; cases h)
        simpa using this
      have hne : ed.isEmpty = false := by
        cases ed with
        | nil => exact absurd rfl hedne
        | cons _ _ => rfl
      simp [withExp, he, hso, hsp, hne]
  -- first character of the exponent part is no digit and no dot
  have hexhead : ∀ c t, ex = c :: t → isDigit c = false ∧ c ≠ '.' := by
    intro c t hct
    rcases hex with rfl | ⟨e, s, ed, rfl, he, _⟩
    · cases hct
    · simp only [List.cons.injEq] at hct
      rw [← hct.1]; exact ⟨isDigit_of_isExp he, ne_dot_of_isExp he⟩
  rw [hipeq]
  simp only [List.cons_append, matchMantissa, hd0, if_true]
  rw [← List.cons_append, ← hipeq]
  have hspan : spanDigits (ip ++ (fr ++ ex)) = (ip, fr ++ ex) := by
    apply spanDigits_append hip
    intro c t hct
    rcases hfr with rfl | ⟨fd, rfl, _⟩
    · exact (hexhead c t (by simpa using hct)).1
    · simp only [List.cons_append, List.cons.injEq] at hct
      rw [← hct.1]; decide
  rw [hspan]
  simp only
  rcases hfr with rfl | ⟨fd, rfl, hfd⟩
  · -- no fraction
    have : optFrac ([] ++ ex) = ([], ex) := by
      cases hx : ex with
      | nil => rfl
      | cons c t => simp [optFrac, (hexhead c t hx).2]
    rw [this]
    simp [hexp]
  · have hsp : spanDigits (fd ++ ex) = (fd, ex) :=
      spanDigits_append hfd (fun c t hct => (hexhead c t hct).1)
    simp [optFrac, hsp, hexp]

/-- scanning a string that is one whole number token, with text `A` pending -/
theorem scan_fullMatch {l : List Char} (hm : FullMatch l) (A : List Char) :
    scan l 0 A = [.text A, .num l, .text []] := by
  unfold FullMatch at hm
  obtain ⟨_, hpos⟩ := matchNum_splits hm
  cases hs : l with
  | nil => rw [hs] at hpos; simp at hpos
  | cons x r =>
    rw [hs] at hm
    simp only [scan, hm]
    rw [scan_skip_all r _ [] (by simp)]

theorem fullMatch_showInt (n : Int) : FullMatch (showInt n) := matchNum_showInt n

/-! ### the comparison of two decimals is the comparison of their values -/

theorem int_compare_mul_right {x y c : Int} (hc : 0 < c) : compare (x * c) (y * c) = compare x y := by
  have h1 : x * c < y * c ↔ x < y := Int.mul_lt_mul_right hc
  have h2 : x * c = y * c ↔ x = y := Int.mul_eq_mul_right_iff (by omega)
  simp only [compare, compareOfLessAndEq]
  by_cases hlt : x < y
  · simp [hlt, h1.mpr hlt]
  · have hlt' : ¬ x * c < y * c := fun h => hlt (h1.mp h)
    by_cases heq : x = y
    · simp [heq]
    · have heq' : ¬ x * c = y * c := fun h => heq (h2.mp h)
      simp [hlt, hlt', heq, heq']

/-- bringing a decimal to a smaller common exponent multiplies its integer form by a positive power of ten -/
theorem scaled_rescale (d : Dec) {E0 E1 : Int} (h01 : E0 ≤ E1) (h1 : E1 ≤ d.e) :
    d.scaled E0 = d.scaled E1 * ((10 ^ (E1 - E0).toNat : Nat) : Int) := by
  have hk : (d.e - E0).toNat = (d.e - E1).toNat + (E1 - E0).toNat := by omega
  unfold Dec.scaled
  simp only [hk, Nat.pow_add, ← Nat.mul_assoc]
  by_cases hn : d.neg = true
  · simp only [hn, if_true, Int.natCast_mul, Int.neg_mul]
  · simp only [hn, Bool.false_eq_true, if_false, Int.natCast_mul]

theorem pow10_pos (k : Nat) : (0 : Int) < ((10 ^ k : Nat) : Int) := by
  have : 0 < 10 ^ k := Nat.pow_pos (by decide)
  omega

/-- `decCmp` compares the values: at ANY common exponent `E0` below both, it is the comparison of the two integers
`value · 10^(-E0)` (exponents at most 4096 apart: every pair of printed doubles) -/
theorem decCmp_eq_compare_scaled (a b : Dec) (hclose : (a.e - b.e).natAbs ≤ 4096) {E0 : Int}
    (ha : E0 ≤ a.e) (hb : E0 ≤ b.e) : decCmp a b = compare (a.scaled E0) (b.scaled E0) := by
  have key : ∀ emin, E0 ≤ emin → emin ≤ a.e → emin ≤ b.e →
      compare (a.scaled emin) (b.scaled emin) = compare (a.scaled E0) (b.scaled E0) := by
    intro emin h0 h1 h2
    rw [scaled_rescale a h0 h1, scaled_rescale b h0 h2, int_compare_mul_right (pow10_pos _)]
  unfold decCmp
  by_cases he : a.e = b.e
  · simp only [he, if_true]
    rw [← key b.e hb (by omega) (Int.le_refl _)]
    have hs : ∀ d : Dec, d.scaled d.e = d.signed := by
      intro d; simp [Dec.scaled, Dec.signed]
    have : a.scaled b.e = a.signed := by rw [← he]; exact hs a
    rw [this, hs b]
  · simp only [he, if_false, hclose, if_true]
    by_cases hle : a.e ≤ b.e
    · simp only [hle, if_true]; exact key a.e ha (Int.le_refl _) hle
    · simp only [hle, if_false]; exact key b.e hb (by omega) (Int.le_refl _)

/-! ### sorting by an integer-valued key -/

def keyLe {α} (f : α → Int) (a b : α) : Bool := decide (f a ≤ f b)

theorem sorted_insertBy_key {α} (f : α → Int) (a : α) {l : List α} (h : l.Pairwise (fun x y => f x ≤ f y)) :
    (insertBy (keyLe f) a l).Pairwise (fun x y => f x ≤ f y) := by
  induction l with
  | nil => simp [insertBy]
  | cons b r ih =>
    have hb := List.pairwise_cons.mp h
    simp only [insertBy, keyLe]
    by_cases hba : f b ≤ f a
    · simp only [hba, decide_true, if_true]
      refine List.pairwise_cons.mpr ⟨?_, ih hb.2⟩
      intro y hy
      rcases (mem_insertBy (keyLe f) a y r).mp hy with e | e
      · subst e; exact hba
      · exact hb.1 y e
    · simp only [hba, decide_false, Bool.false_eq_true, if_false]
      refine List.pairwise_cons.mpr ⟨?_, h⟩
      intro y hy
      rcases List.mem_cons.mp hy with e | e
      · subst e; omega
      · have := hb.1 y e; omega

theorem sorted_sortBy_key {α} (f : α → Int) (l : List α) :
    (sortBy (keyLe f) l).Pairwise (fun x y => f x ≤ f y) := by
  unfold sortBy
  have key : ∀ (l acc : List α), acc.Pairwise (fun x y => f x ≤ f y) →
      (l.foldl (fun acc a => insertBy (keyLe f) a acc) acc).Pairwise (fun x y => f x ≤ f y) := by
    intro l
    induction l with
    | nil => intro acc h; exact h
    | cons a r ih => intro acc h; exact ih _ (sorted_insertBy_key f a h)
  exact key l [] List.Pairwise.nil

/-- a sort whose comparison agrees with another one on the members of the list gives the same result -/
theorem insertBy_congr {α} (le le' : α → α → Bool) (a : α) (l : List α) (h : ∀ b ∈ l, le b a = le' b a) :
    insertBy le a l = insertBy le' a l := by
  induction l with
  | nil => rfl
  | cons b r ih =>
    simp only [insertBy, h b List.mem_cons_self, ih (fun c hc => h c (List.mem_cons_of_mem _ hc))]

theorem sortBy_congr {α} (le le' : α → α → Bool) (l : List α) (h : ∀ a ∈ l, ∀ b ∈ l, le a b = le' a b) :
    sortBy le l = sortBy le' l := by
  unfold sortBy
  have key : ∀ (l2 acc : List α), (∀ x ∈ l2, x ∈ l) → (∀ x ∈ acc, x ∈ l) →
      l2.foldl (fun acc a => insertBy le a acc) acc = l2.foldl (fun acc a => insertBy le' a acc) acc := by
    intro l2
    induction l2 with
    | nil => intro acc _ _; rfl
    | cons a r ih =>
      intro acc h2 hacc
      simp only [List.foldl_cons]
      have ha : a ∈ l := h2 a List.mem_cons_self
      rw [insertBy_congr le le' a acc (fun b hb => h b (hacc b hb) a ha)]
      apply ih
      · exact fun x hx => h2 x (List.mem_cons_of_mem _ hx)
      · intro x hx
        rcases (mem_insertBy le' a x acc).mp hx with e | e
        · subst e; exact ha
        · exact hacc x e
  exact key l [] (fun x hx => hx) (fun x hx => by cases hx)

/-! ### `_checkpoint_path_step` -/

theorem lastNum_append_num (K : List Tok) (A l : List Char) :
    lastNum (K ++ [.text A, .num l, .text []]) = some l := by
  induction K with
  | nil => simp [lastNum]
  | cons t r ih =>
    cases t with
    | text s => simpa [lastNum] using ih
    | num s => simp [lastNum, ih]


theorem le_getLast_of_sorted_key {α} (f : α → Int) {l : List α} (h : l.Pairwise (fun x y => f x ≤ f y)) {m : α}
    (hm : l.getLast? = some m) : ∀ x ∈ l, f x ≤ f m := by
  induction l with
  | nil => simp
  | cons a r ih =>
    have ha := List.pairwise_cons.mp h
    cases r with
    | nil =>
      simp at hm
      intro x hx; simp at hx; subst hx; subst hm; exact Int.le_refl _
    | cons b r2 =>
      have hm' : (b :: r2).getLast? = some m := by simpa [List.getLast?_cons_cons] using hm
      intro x hx
      rcases List.mem_cons.mp hx with e | e
      · subst e
        have h1 := ih ha.2 hm' b List.mem_cons_self
        have h2 := ha.1 b List.mem_cons_self
        omega
      · exact ih ha.2 hm' x e

end Flax.NatSort
