/-
Specification side of C08: the per-index / per-iteration reference computation, stated per *Variable* (identified by
`VarId`), with no paths, graphdefs, states, deques or merges.

  roles      every Variable reachable from the arguments, once, in the order of its first occurrence, with the axis
             its argument's prefix gives it at that occurrence (`ownedAll`; `Prefix.at` = first matching filter)
  vmapSpec   index `i` sees `take(value, i, axis)` of every axis Variable and the value itself of every `None`
             Variable; afterwards an axis Variable holds the stack of its per-index values along its axis, a `None`
             Variable the (shared) value; results are stacked along their out axes
  scanSpec   the Python loop: carry Variables (and an array carry) threaded in processing order, axis Variables sliced
             per iteration and re-stacked by index, broadcast Variables seen unchanged by every iteration and left
             unchanged at the end, results stacked by index along their out axes
-/
import Flax.Proofs.NnxLoopLeaf

namespace Flax.NnxLoop
open Flax.Filter Flax.LiftLoop

/-- the well-formedness of an argument list this level relies on: inside one graph node every path leads to one
place (Python attribute dictionaries) -/
def WFArgs {α : Type} (pas : List (Prefix × Arg α)) : Prop :=
  ∀ pa ∈ pas, ∀ es, pa.2 = .node es → (es.map (·.path)).Nodup

/-- all first occurrences over the arguments (in the order `ref_index` numbers them), each with the prefix of the
argument it occurs in -/
def ownedAll {α : Type} : List (Prefix × Arg α) → List VarId → List (Entry × Prefix)
  | [], _ => []
  | (_, .arr _) :: rest, seen => ownedAll rest seen
  | (p, .node es) :: rest, seen =>
    (ownedOf es (markOwn es seen).1).map (fun e => (e, p)) ++ ownedAll rest (markOwn es seen).2

/-- the array arguments with their prefixes -/
def arrArgs {α : Type} : List (Prefix × Arg α) → List (Prefix × Arr α)
  | [] => []
  | (p, .arr a) :: rest => (p, a) :: arrArgs rest
  | (_, .node _) :: rest => arrArgs rest

/-- every `(Variable, axis)` occurrence over all arguments, or the first `map_prefix` failure -/
def allPrefixes {α : Type} : List (Prefix × Arg α) → NodePrefixes → Except Err NodePrefixes
  | [], np => .ok np
  | (_, .arr _) :: rest, np => allPrefixes rest np
  | (p, .node es) :: rest, np =>
    match collect p es np with
    | .error e => .error e
    | .ok np' => allPrefixes rest np'

/-! ### vmap -/

/-- what index `i` sees of the Variable first met at occurrence `e` under prefix `p` -/
def sliceEntry {α : Type} [Inhabited α] (store : Store α) (i : Nat) (ep : Entry × Prefix) :
    Except Err (VarId × Arr α) :=
  match ep.2.at ep.1 with
  | .error e => .error e
  | .ok a =>
    match store.lookup ep.1.id with
    | none => .error .bodyContract
    | some v =>
      match sliceVal i a v with
      | .ok v' => .ok (ep.1.id, v')
      | .error e => .error e

/-- what index `i` sees of an array argument -/
def sliceArr {α : Type} [Inhabited α] (i : Nat) (pa : Prefix × Arr α) : Except Err (Arr α) :=
  match pa.1 with
  | .ax a => sliceVal i a pa.2
  | .sa _ => .error .stateAxesOnArray

/-- one leaf over all indices, put together: stacked along its axis, or the shared value -/
def collectVal {α : Type} [Inhabited α] (a : Ax) (vs : List (Arr α)) : Except Err (Arr α) :=
  match a, vs with
  | .axis k, v0 :: _ => liftL (stackAt k v0.shape vs)
  | .bcast, v0 :: _ => .ok v0
  | .carry, _ => .error .invalidAxes
  | _, [] => .error (.lax .stackMismatch)

/-- the value a call left in a Variable -/
def Store.getX {α : Type} (st : Store α) (id : VarId) : Except Err (Arr α) :=
  match st.lookup id with
  | some v => .ok v
  | none => .error .bodyContract

/-- the value a Variable ends with: its per-index values (as left by the calls) put together along its axis -/
def collectEntry {α : Type} [Inhabited α] (afters : List (Store α)) (ep : Entry × Prefix) :
    Except Err (VarId × Arr α) :=
  match ep.2.at ep.1 with
  | .error e => .error e
  | .ok a =>
    match mapX (fun (st : Store α) => st.getX ep.1.id) afters with
    | .error e => .error e
    | .ok vs =>
      match collectVal a vs with
      | .ok v => .ok (ep.1.id, v)
      | .error e => .error e

/-- write a list of `(Variable, value)` into the store -/
def writeAll {α : Type} (vals : List (VarId × Arr α)) (store : Store α) : Store α :=
  vals.foldl (fun s iv => s.set iv.1 iv.2) store

/-- the value of the Variable / result leaf at `path` in a flat node -/
def valAt {α : Type} (fl : Flat α) (path : Path) : Except Err (Arr α) :=
  match (fl.map (fun x => (x.1, x.2.2))).lookup path with
  | some v => .ok v
  | none => .error .missingState

/-- a fresh graph node returned by every index, put together Variable by Variable under the out prefix `q` -/
def collectNode {α : Type} [Inhabited α] (q : Prefix) (nodes : List (Flat α)) : Except Err (Flat α) :=
  match nodes with
  | [] => .error (.lax .stackMismatch)
  | n0 :: _ =>
    mapX (fun x =>
      match q.at ⟨x.1, 0, x.2.1⟩ with
      | .error e => .error e
      | .ok a =>
        match mapX (fun fl => valAt fl x.1) nodes with
        | .error e => .error e
        | .ok vs =>
          match collectVal a vs with
          | .ok v => .ok (x.1, x.2.1, v)
          | .error e => .error e) n0

def Out.arr? {α : Type} : Out α → Except Err (Arr α)
  | .arr a => .ok a
  | _ => .error (.lax .stackMismatch)

def Out.node? {α : Type} : Out α → Except Err (Flat α)
  | .node vs => .ok vs
  | _ => .error (.lax .stackMismatch)

/-- result `k` of the mapped function over all indices (`col`), put together under its out prefix -/
def collectOut {α : Type} [Inhabited α] (q : Prefix) (col : List (Out α)) : Except Err (Out α) :=
  match col with
  | [] => .error (.lax .stackMismatch)
  | .arr _ :: _ =>
    match q with
    | .sa _ => .error .stateAxesOnArray
    | .ax a =>
      match mapX Out.arr? col with
      | .error e => .error e
      | .ok vs => match collectVal a vs with | .ok v => .ok (.arr v) | .error e => .error e
  | .node _ :: _ =>
    match mapX Out.node? col with
    | .error e => .error e
    | .ok nodes => match collectNode q nodes with | .ok fl => .ok (.node fl) | .error e => .error e
  | .argRef _ :: _ => .error .unsupportedOut

/-- sequencing two partial steps -/
def bindX {β γ : Type} (x : Except Err β) (f : β → Except Err γ) : Except Err γ :=
  match x with
  | .error e => .error e
  | .ok v => f v

/-- **the reference call at index `i`**: the traced function on the per-Variable slices -/
def vmapCall {α : Type} [Inhabited α] (body : Body α) (store : Store α) (pas : List (Prefix × Arg α)) (i : Nat) :
    Except Err (Store α × List (Out α)) :=
  bindX (mapX (sliceEntry store i) (ownedAll pas [])) fun ins =>
  bindX (mapX (sliceArr i) (arrArgs pas)) fun arrs =>
  body ins arrs

/-- result `k` over all indices, put together under its out prefix -/
def collectOutAt {α : Type} [Inhabited α] (results : List (List (Out α))) (kq : Nat × Prefix) : Except Err (Out α) :=
  bindX (column kq.1 results) (collectOut kq.2)

/-- **the per-index reference computation of `nnx.vmap`** over `n` indices: one call per index on the slices; every
reachable Variable is left with its per-index values put together along its axis (shared value for `None`); results
put together along their out axes -/
def vmapSpecN {α : Type} [Inhabited α] (n : Nat) (outAxes : AxesSpec) (body : Body α)
    (pas : List (Prefix × Arg α)) (store : Store α) : Except Err (Store α × List (Out α)) :=
  bindX (mapX (vmapCall body store pas) (List.range n)) fun calls =>
  match calls with
  | [] => .error (.body "EmptyLoop")
  | c0 :: _ =>
    bindX (mapX (collectEntry (calls.map (·.1))) (ownedAll pas [])) fun vals =>
    if outAxes.isBareStateAxes && decide (c0.2.length ≠ 1) then .error .prefixArity else
    bindX (outAxes.expand c0.2.length) fun qs =>
    bindX (mapX (collectOutAt (calls.map (·.2))) ((List.range qs.length).zip qs)) fun outs =>
    .ok (writeAll vals store, outs)

/-- what a single trace guarantees about the results of the traced function over the indices: at every result
position all indices return the same kind of thing; fresh graph nodes have the same Variables (paths and types) at
every index, and distinct paths -/
def OutColWF {α : Type} (col : List (Out α)) : Prop :=
  match col with
  | .node n0 :: _ =>
    (n0.map (·.1)).Nodup ∧
    ∀ o ∈ col, ∀ n, o = .node n → n.map (fun x => (x.1, x.2.1)) = n0.map (fun x => (x.1, x.2.1))
  | _ => True

/-! ### scan -/

/-- what iteration `i` sees of a Variable with axis `a`: the slice of its *original* value along the axis, its original
value if broadcast, the value the previous iteration left if carried -/
def scanValIn {α : Type} [Inhabited α] (store cur : Store α) (i : Nat) (a : Ax) (id : VarId) : Except Err (Arr α) :=
  match a with
  | .axis k => bindX (store.getX id) (fun v => liftL (takeAt k i v))
  | .bcast => store.getX id
  | .carry => cur.getX id

def scanEntryIn {α : Type} [Inhabited α] (store cur : Store α) (i : Nat) (ep : Entry × Prefix) :
    Except Err (VarId × Arr α) :=
  bindX (ep.2.at ep.1) fun a => bindX (scanValIn store cur i a ep.1.id) fun v => .ok (ep.1.id, v)

/-- what iteration `i` sees of an array argument: its slice, itself, or the array carry -/
def scanArrIn {α : Type} [Inhabited α] (carr : Option (Arr α)) (i : Nat) (pa : Prefix × Arr α) : Except Err (Arr α) :=
  match pa.1 with
  | .ax (.axis k) => liftL (takeAt k i pa.2)
  | .ax .bcast => .ok pa.2
  | .ax .carry => .ok (carr.getD pa.2)
  | .sa _ => .error .stateAxesOnArray

/-- **one iteration of the reference loop**: state = (array carry, the values the previous iteration left in the
Variables — only those of carried Variables are read) -/
def scanStepSpec {α : Type} [Inhabited α] (body : Body α) (ca : CarryArg) (cout : CarryPos) (outPs : List Prefix)
    (store : Store α) (pas : List (Prefix × Arg α)) (st : Option (Arr α) × Store α) (i : Nat) :
    Except Err ((Option (Arr α) × Store α) × (Store α × List (Out α))) :=
  bindX (mapX (scanEntryIn store st.2 i) (ownedAll pas [])) fun ins =>
  bindX (mapX (scanArrIn st.1 i) (arrArgs pas)) fun arrs =>
  bindX (body ins arrs) fun r =>
  bindX (checkCarryRefs ca ((carryOutIdx cout).bind (fun k => r.2[k]?))) fun cArr =>
  if outPs.length ≠ (dropCarry (carryOutIdx cout) r.2).length then .error .prefixArity else
  .ok ((cArr, r.1), (r.1, dropCarry (carryOutIdx cout) r.2))

/-- the value a Variable ends with after the loop: the stack by index of what the iterations left (axis), its original
value (broadcast: writes of the body are dropped), what the last iteration left (carry) -/
def scanFinalEntry {α : Type} [Inhabited α] (store final : Store α) (recs : List (Store α)) (ep : Entry × Prefix) :
    Except Err (VarId × Arr α) :=
  bindX (ep.2.at ep.1) fun a =>
  match a with
  | .axis k =>
    bindX (mapX (fun (st : Store α) => st.getX ep.1.id) recs) fun vs =>
    bindX (collectVal (.axis k) vs) fun v => .ok (ep.1.id, v)
  | .bcast => bindX (store.getX ep.1.id) fun v => .ok (ep.1.id, v)
  | .carry => bindX (final.getX ep.1.id) fun v => .ok (ep.1.id, v)

/-- the array the loop starts to carry -/
def initCarrySpec {α : Type} : List (Prefix × Arr α) → Option (Arr α)
  | [] => none
  | (.ax .carry, a) :: _ => some a
  | _ :: rest => initCarrySpec rest

/-- **the Python loop `nnx.scan` is to equal**, over `n` iterations in processing order (`reverse`): carry threaded,
axis Variables sliced per iteration and re-stacked by index, broadcast Variables shared and left unchanged, results
stacked by index along their out axes, the carry put back among the results -/
def scanSpecN {α : Type} [Inhabited α] (n : Nat) (reverse : Bool) (ca : CarryArg) (cout : CarryPos)
    (outPs : List Prefix) (body : Body α) (pas : List (Prefix × Arg α)) (store : Store α) :
    Except Err (Store α × List (Out α)) :=
  bindX (laxScanX n reverse (fun i => .ok i) (scanStepSpec body ca cout outPs store pas) (fun _ _ => true)
    (initCarrySpec (arrArgs pas), store)) fun r =>
  match r.2 with
  | [] => .error (.body "EmptyLoop")
  | _ :: _ =>
    bindX (mapX (scanFinalEntry store r.1.2 (r.2.map (·.1))) (ownedAll pas [])) fun vals =>
    bindX (mapX (collectOutAt (r.2.map (·.2))) ((List.range outPs.length).zip outPs)) fun outs =>
    bindX (insertCarry cout ca r.1.1 outs) fun outs' =>
    .ok (writeAll vals store, outs')

end Flax.NnxLoop
