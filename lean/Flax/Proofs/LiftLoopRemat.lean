/- C06: `lift.remat_scan` unfolds into nested explicit loops (one per entry of `lengths`) -/
import Flax.Proofs.LiftLoopScanMain

set_option linter.unusedSimpArgs false
set_option linter.unusedSectionVars false

namespace Flax.LiftLoop
open Flax.Filter
variable {α : Type} [Inhabited α]

/-- the explicit loop only looks at whether the body succeeds and with what -/
theorem loopSpec_body_congr (cfg : ScanCfg) (verdict : Bool) (b1 b2 : Body α)
    (h : ∀ m v r c xs, opt (b1 m v r c xs) = opt (b2 m v r c xs)) (scopeMut : LFilter) (outer : Vars α)
    (rngs : Rngs) (init args : List (Arr α)) :
    loopSpec cfg verdict b1 scopeMut outer rngs init args = loopSpec cfg verdict b2 scopeMut outer rngs init args := by
  have hstep : ∀ mutF inArgAxes dLength, loopStep cfg mutF b1 outer rngs inArgAxes args dLength =
      loopStep cfg mutF b2 outer rngs inArgAxes args dLength := by
    intro mutF inArgAxes dLength
    funext b st i
    unfold loopStep
    simp only [h]
  unfold loopSpec loopCore loopCoreChecked loopCoreSimple
  simp only [hstep]

/-- a scope function `carry ↦ carry` given by an `Option`-valued description, as a loop body without
per-iteration arguments and outputs -/
def bodyOfSpec (f : LFilter → Vars α → Rngs → List (Arr α) → Option (Vars α × List (Arr α))) : Body α :=
  fun m v r c _ =>
    match f m v r c with
    | some x => .ok (x.1, x.2, [])
    | none => .error (.body "InnerLoop")

/-- `lengths = (l₀, l₁, …)`: the explicit loop of `l₀` iterations whose body is the explicit loop of `l₁`
iterations whose body … is `body_fn`; every level slices the axis collections along their axis once more,
splits the split streams once more and threads the carry -/
def nestedLoops (rc : RematCfg) (verdict : Bool) (body : Body α) :
    List Nat → LFilter → Vars α → Rngs → List (Arr α) → Option (Vars α × List (Arr α))
  | [] => fun _ _ _ _ => none
  | [l] => fun m v r c =>
      (loopSpec (rc.scanCfg l) verdict
        (fun m v r c xs => match body m v r c xs with
          | .error e => .error e
          | .ok o => .ok (o.1, o.2.1, [])) m v r c []).map (fun res => (res.vars, res.carry))
  | l :: l' :: ls => fun m v r c =>
      (loopSpec (rc.scanCfg l) verdict (bodyOfSpec (nestedLoops rc verdict body (l' :: ls))) m v r c []).map
        (fun res => (res.vars, res.carry))

theorem rematScan_opt (rc : RematCfg) (verdict : Bool) (body : Body α) : ∀ (lengths : List Nat)
    (m : LFilter) (v : Vars α) (r : Rngs) (c xs : List (Arr α)),
    opt (rematScan rc verdict body lengths m v r c xs) =
      (nestedLoops rc verdict body lengths m v r c).map (fun x => (x.1, x.2, [])) := by
  intro lengths
  induction lengths with
  | nil => intro m v r c xs; rfl
  | cons l ls ih =>
    intro m v r c xs
    cases ls with
    | nil =>
      simp only [rematScan, nestedLoops]
      rw [← liftScan_opt]
      cases liftScan (rc.scanCfg l) verdict _ m v r c [] <;> rfl
    | cons l' ls' =>
      simp only [rematScan, nestedLoops]
      have hcongr := loopSpec_body_congr (rc.scanCfg l) verdict (rematScan rc verdict body (l' :: ls'))
        (bodyOfSpec (nestedLoops rc verdict body (l' :: ls'))) (by
          intro m' v' r' c' xs'
          rw [ih m' v' r' c' xs']
          unfold bodyOfSpec
          cases nestedLoops rc verdict body (l' :: ls') m' v' r' c' <;> rfl) m v r c []
      rw [← hcongr, ← liftScan_opt]
      cases liftScan (rc.scanCfg l) verdict _ m v r c [] <;> rfl

end Flax.LiftLoop
