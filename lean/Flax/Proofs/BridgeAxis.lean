/-
Helper lemmas for C18: `NNXMeta.add_axis` / `remove_axis` keep the `sharding` tuple aligned.
-/
import Flax.Model.Bridge

namespace Flax.Bridge

theorem insertAt_length {σ : Type} : ∀ (l : List σ) (k : Nat) (a : σ), k ≤ l.length → (insertAt l k a).length = l.length + 1 := by
  intro l
  induction l with
  | nil => intro k a h; cases k <;> simp [insertAt]
  | cons x r ih =>
    intro k a h
    cases k with
    | zero => simp [insertAt]
    | succ k => simp only [insertAt, List.length_cons]; rw [ih k a (by simpa using h)]

theorem insertAt_get {σ : Type} : ∀ (l : List σ) (k : Nat) (a : σ), k ≤ l.length → (insertAt l k a)[k]? = some a := by
  intro l
  induction l with
  | nil => intro k a h; cases k <;> simp [insertAt] at h ⊢
  | cons x r ih =>
    intro k a h
    cases k with
    | zero => simp [insertAt]
    | succ k => simp only [insertAt, List.getElem?_cons_succ]; exact ih k a (by simpa using h)

theorem eraseIdx_insertAt {σ : Type} : ∀ (l : List σ) (k : Nat) (a : σ), k ≤ l.length → (insertAt l k a).eraseIdx k = l := by
  intro l
  induction l with
  | nil => intro k a h; cases k <;> simp [insertAt] at h ⊢
  | cons x r ih =>
    intro k a h
    cases k with
    | zero => simp [insertAt]
    | succ k => simp only [insertAt, List.eraseIdx_cons_succ]; rw [ih k a (by simpa using h)]

/-- an index a lifted transform can pass for a value of rank `len`: `-(len+1) ≤ index ≤ len` -/
def AxisIndexOk (len : Nat) (index : Int) : Prop := -(len : Int) - 1 ≤ index ∧ index ≤ len

theorem addIndex_le (len : Nat) (index : Int) (h : AxisIndexOk len index) : addIndex len index ≤ len := by
  unfold addIndex AxisIndexOk at *
  split <;> omega

theorem insertAxis_eq (ns : List (Option String)) (index : Int) (axis : String) (h : AxisIndexOk ns.length index) :
    insertAxis ns index axis = insertAt ns (addIndex ns.length index) (some axis) := by
  have := addIndex_le ns.length index h
  simp only [insertAxis]
  rw [Nat.sub_eq_zero_of_le this]; simp

theorem removeAxis_insertAxis (ns : List (Option String)) (index : Int) (axis : String) (h : AxisIndexOk ns.length index) :
    removeAxis (insertAxis ns index axis) index axis = .ok ns := by
  have hk := addIndex_le ns.length index h
  rw [insertAxis_eq ns index axis h]
  have hlen := insertAt_length ns _ (some axis) hk
  have hj : (if index < 0 then index + ((insertAt ns (addIndex ns.length index) (some axis)).length : Int) else index)
      = (addIndex ns.length index : Int) := by
    rw [hlen]; unfold addIndex AxisIndexOk at *
    split <;> (push_cast; omega)
  simp only [removeAxis, hj]
  have h1 : ¬ ((addIndex ns.length index : Int) < 0 ∨
      ((insertAt ns (addIndex ns.length index) (some axis)).length : Int) ≤ (addIndex ns.length index : Int)) := by
    rw [hlen]; push_cast; omega
  simp only [h1, ↓reduceIte, Int.toNat_natCast, insertAt_get ns _ (some axis) hk,
    eraseIdx_insertAt ns _ (some axis) hk]

end Flax.Bridge
