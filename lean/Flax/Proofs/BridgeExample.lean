/-
Concrete instances for the non-vacuity examples of C18: a small wrapped module that satisfies `ModOk`,
and checkable sufficient conditions for `VarsOk` / `AttrsOk` on literal dicts.
-/
import Flax.Proofs.BridgeLinen

namespace Flax.Bridge
variable {α : Type}

theorem disjoint_of_paths {β γ : Type} (f : Forest β) (f' : Forest γ) (hf : WFF f) (hf' : WFF f')
    (h : ∀ q ∈ paths (flattenF f), ∀ q' ∈ paths (flattenF f'), ¬ (q <+: q' ∨ q' <+: q)) : Disjoint f f' :=
  fun q q' h1 h2 => h q ((mem_paths_flattenF f hf q).mpr h1) q' ((mem_paths_flattenF f' hf' q').mpr h2)

theorem leafAtF_top_none (r : Reg) (V : Forest (LBox α)) (hV : VarsOk r V) (c : String) : leafAtF V [c] = none := by
  cases h : leafAtF V [c] with
  | none => rfl
  | some x =>
    obtain ⟨t, hm, hl⟩ := (leafAtF_col V hV.wf c [] x).mp h
    obtain ⟨f, hf, _⟩ := hV.cols (c, t) hm
    simp only at hf
    rw [hf] at hl; simp at hl

/-! ## a toy wrapped module: `y = w * x + c`, and with `mutable` the counter `c` goes up by one -/

def toyVars (w c : Nat) : Forest (LBox Nat) :=
  [("params", .node [("w", .leaf (.plain w))]), ("batch_stats", .node [("c", .leaf (.plain c))])]

def toyUpd (c : Nat) : Forest (LBox Nat) := [("batch_stats", .node [("c", .leaf (.plain c))])]

def toyMod : LinenMod Nat Nat Nat Unit where
  init := fun _ x => .ok (2 * x, toyVars 2 0)
  apply := fun V _ mu x =>
    match leafAtF V ["params", "w"], leafAtF V ["batch_stats", "c"] with
    | some (.plain w), some (.plain c) =>
      .ok (w * x + c, match mu with | none => [] | some _ => toyUpd (c + 1))
    | _, _ => .error .module

theorem toyVars_ok (r : Reg) (w c : Nat) : VarsOk r (toyVars w c) := by
  refine ⟨by simp [toyVars, WFF, Tree.WF, dkeys], ?_, ?_, ?_⟩
  · intro ct hct
    simp only [toyVars, List.mem_cons, List.not_mem_nil, or_false] at hct
    rcases hct with rfl | rfl
    · exact ⟨_, rfl, by simp [NoEmptyF, Tree.NoEmpty]⟩
    · exact ⟨_, rfl, by simp [NoEmptyF, Tree.NoEmpty]⟩
  · intro ct hct pb hpb
    simp only [toyVars, List.mem_cons, List.not_mem_nil, or_false] at hct
    rcases hct with rfl | rfl <;>
      (simp [Tree.flatten, flattenF] at hpb; subst hpb; trivial)
  · intro ct hct ct' hct' hne f f' hf hf'
    simp only [toyVars, List.mem_cons, List.not_mem_nil, or_false] at hct hct'
    rcases hct with rfl | rfl <;> rcases hct' with rfl | rfl
    · exact absurd rfl hne
    · cases hf; cases hf'
      exact disjoint_of_paths _ _ (by simp [WFF, Tree.WF, dkeys]) (by simp [WFF, Tree.WF, dkeys]) (by
        intro q hq q' hq'
        simp [flattenF, Tree.flatten, paths] at hq hq'
        subst hq; subst hq'; decide)
    · cases hf; cases hf'
      exact disjoint_of_paths _ _ (by simp [WFF, Tree.WF, dkeys]) (by simp [WFF, Tree.WF, dkeys]) (by
        intro q hq q' hq'
        simp [flattenF, Tree.flatten, paths] at hq hq'
        subst hq; subst hq'; decide)
    · exact absurd rfl hne

theorem toyUpd_ok (r : Reg) (c : Nat) : VarsOk r (toyUpd c) := by
  refine ⟨by simp [toyUpd, WFF, Tree.WF, dkeys], ?_, ?_, ?_⟩
  · intro ct hct
    simp only [toyUpd, List.mem_cons, List.not_mem_nil, or_false] at hct
    subst hct
    exact ⟨_, rfl, by simp [NoEmptyF, Tree.NoEmpty]⟩
  · intro ct hct pb hpb
    simp only [toyUpd, List.mem_cons, List.not_mem_nil, or_false] at hct
    subst hct
    simp [Tree.flatten, flattenF] at hpb; subst hpb; trivial
  · intro ct hct ct' hct' hne
    simp only [toyUpd, List.mem_cons, List.not_mem_nil, or_false] at hct hct'
    subst hct; subst hct'
    exact absurd rfl hne

theorem nil_ok (r : Reg) : VarsOk r ([] : Forest (LBox Nat)) :=
  ⟨by simp [WFF], by simp, by simp, by simp⟩

theorem toyUpd_leaf (c : Nat) (c' : String) (q' : Path) (h : leafAtF (toyUpd c) (c' :: q') ≠ none) :
    c' = "batch_stats" ∧ q' = ["c"] := by
  have hm := (mem_paths_flattenF (toyUpd c) (by simp [toyUpd, WFF, Tree.WF, dkeys]) (c' :: q')).mpr h
  simpa [toyUpd, flattenF, Tree.flatten, paths] using hm

theorem toyMod_ok : ModOk toyMod := by
  refine ⟨?_, ?_, ?_⟩
  · intro V V' ks mu x _ _ he
    simp only [toyMod, he ["params", "w"], he ["batch_stats", "c"]]
  · intro r V ks mu x o U hi hb hV happ
    simp only [toyMod] at happ
    -- apply succeeded: both variables are there
    cases hw : leafAtF V ["params", "w"] with
    | none => simp [hw] at happ
    | some bw =>
      cases hc : leafAtF V ["batch_stats", "c"] with
      | none => cases bw <;> simp [hw, hc] at happ
      | some bc =>
        cases bw <;> cases bc <;> simp [hw, hc] at happ
        rename_i w c
        obtain ⟨_, rfl⟩ := happ
        cases mu with
        | none => exact ⟨nil_ok r, fun c q c' q' _ h2 => by simp at h2⟩
        | some u =>
          refine ⟨toyUpd_ok r _, ?_⟩
          intro c0 q c' q' h1 h2 hp
          obtain ⟨rfl, rfl⟩ := toyUpd_leaf _ c' q' h2
          -- the leaf of V at batch_stats/c
          obtain ⟨tb, hmb, hlb⟩ := (leafAtF_col V hV.wf "batch_stats" ["c"] (.plain c)).mp hc
          obtain ⟨fb, hfb, _⟩ := hV.cols _ hmb
          simp only at hfb
          by_cases hc0 : c0 = "batch_stats"
          · subst hc0
            refine ⟨?_, rfl⟩
            have hcne : leafAtF V ("batch_stats" :: ["c"]) ≠ none := by
              show leafAtF V ["batch_stats", "c"] ≠ none
              rw [hc]; simp
            rcases hp with hp | hp
            · have := leafAtF_prefix_eq V ("batch_stats" :: q) ("batch_stats" :: ["c"]) h1 hcne
                (by rw [List.cons_prefix_cons]; exact ⟨rfl, hp⟩)
              exact (List.cons.inj this).2
            · have := leafAtF_prefix_eq V ("batch_stats" :: ["c"]) ("batch_stats" :: q) hcne h1
                (by rw [List.cons_prefix_cons]; exact ⟨rfl, hp⟩)
              exact (List.cons.inj this).2.symm
          · exfalso
            cases h0 : leafAtF V (c0 :: q) with
            | none => exact h1 h0
            | some x0 =>
              obtain ⟨t0, hm0, hl0⟩ := (leafAtF_col V hV.wf c0 q x0).mp h0
              obtain ⟨f0, hf0, _⟩ := hV.cols _ hm0
              simp only at hf0
              have hd := hV.apart _ hm0 _ hmb hc0 f0 fb hf0 hfb
              rw [hf0] at hl0; rw [hfb] at hlb
              exact hd q ["c"] (by simp at hl0; simp [hl0]) (by simp at hlb; simp [hlb]) hp
  · intro r ks x o V _ _ h
    simp only [toyMod, Except.ok.injEq, Prod.mk.injEq] at h
    rw [← h.2]
    exact toyVars_ok r 2 0

end Flax.Bridge
