/-
Helper lemmas for C18: the two conversions inside ToLinen (`_update_variables` = encodeState, the
apply path's rebuild of the NNX state = decodeVars).
-/
import Flax.Proofs.BridgeRef

namespace Flax.Bridge
variable {α ι ο : Type}

/-! ## `_update_variables` -/

theorem encodeState_spec (r : Reg) (isMutable : String → Bool) (S : Forest (NVar α)) (hw : WFF S)
    (hleaves : ∀ q v, leafAtF S q = some v → ∃ n x, r.nameOf v.vtype = some n ∧ toLinenVar v = .ok x) :
    ∃ V, encodeState r isMutable S = .ok (r, V) ∧ WFF V ∧ NoEmptyF V ∧
      ∀ p x, leafAtF V p = some x ↔
        ∃ c q v, p = c :: q ∧ leafAtF S q = some v ∧ r.nameOf v.vtype = some c ∧ toLinenVar v = .ok x ∧
          isMutable c = true := by
  obtain ⟨es, hes, hrel⟩ := linenEntries_spec true r (flattenF S) (by
    intro pv hpv
    exact hleaves pv.1 pv.2 (flattenF_sound S pv.1 pv.2 hpv hw))
  have hnodup0 : (paths es).Nodup :=
    nodup_of_map List.tail _ (by rw [rel₂_entry_tail hrel]; exact flattenF_nodup S hw)
  obtain ⟨fs, hfs⟩ : ∃ fs, fs = es.filter fun e => isMutable (e.1.headD "") := ⟨_, rfl⟩
  have hnodup : (paths fs).Nodup :=
    List.Pairwise.sublist (List.Sublist.map _ (hfs ▸ List.filter_sublist)) hnodup0
  have hdict := mergeFlat_spec fs [] (by simp [paths]) hnodup
  have hmemD : ∀ p x, (p, x) ∈ dictOfEntries fs ↔ (p, x) ∈ fs := by
    intro p x; rw [dictOfEntries, hdict.2 p x]; simp
  have hmemE : ∀ p x, (p, x) ∈ fs ↔
      ∃ c q v, p = c :: q ∧ leafAtF S q = some v ∧ r.nameOf v.vtype = some c ∧ toLinenVar v = .ok x ∧
        isMutable c = true := by
    intro p x
    simp only [hfs, List.mem_filter]
    constructor
    · rintro ⟨h, hmut⟩
      obtain ⟨pv, hpv, n, x', hn, hx, he⟩ := forall₂_mem_right hrel (p, x) h
      simp only [Prod.mk.injEq] at he
      obtain ⟨rfl, rfl⟩ := he
      exact ⟨n, pv.1, pv.2, rfl, flattenF_sound S pv.1 pv.2 hpv hw, hn, hx, by simpa using hmut⟩
    · rintro ⟨c, q, v, rfl, hl, hn, hx, hmut⟩
      obtain ⟨e, he, n, x', hn', hx', rfl⟩ := forall₂_mem_left hrel (q, v) (flattenF_complete S q v hl)
      simp only at hn' hx'
      rw [hn] at hn'; cases hn'
      rw [hx] at hx'; cases hx'
      exact ⟨he, by simpa using hmut⟩
  obtain ⟨V, hV, hVleaf, hVw, hVn⟩ := unflatten_spec (dictOfEntries fs)
    (by
      intro pb hpb
      obtain ⟨c, q, v, hp, _⟩ := (hmemE pb.1 pb.2).mp ((hmemD pb.1 pb.2).mp hpb)
      rw [hp]; simp)
    (by
      intro pb hpb pb' hpb' hp
      obtain ⟨c, q, v, hp1, hl1, _⟩ := (hmemE pb.1 pb.2).mp ((hmemD pb.1 pb.2).mp hpb)
      obtain ⟨c', q', v', hp2, hl2, _⟩ := (hmemE pb'.1 pb'.2).mp ((hmemD pb'.1 pb'.2).mp hpb')
      rw [hp1, hp2, List.cons_prefix_cons] at hp
      rw [hp1, hp2, hp.1, leafAtF_prefix_eq S q q' (by simp [hl1]) (by simp [hl2]) hp.2])
    (functional_of_nodup _ hdict.1)
  refine ⟨V, ?_, hVw, hVn, ?_⟩
  · simp only [encodeState, hes, bind, Except.bind, pure, Except.pure, ← hfs, hV]
  · intro p x
    rw [hVleaf p x, hmemD, hmemE]

/-! ## the apply path's rebuild of the state (`merge_state` of the converted collections) -/

theorem foldMergeFlat_spec : ∀ (cols : List (String × Tree (NVar α))) (acc : List (Path × NVar α)),
    (paths acc).Nodup → (∀ ct ∈ cols, ct.2.WF) →
    (∀ ct ∈ cols, ∀ q, q ∈ paths acc → q ∉ paths ct.2.flatten) →
    cols.Pairwise (fun ct ct' => ∀ q, q ∈ paths ct.2.flatten → q ∉ paths ct'.2.flatten) →
    (paths (cols.foldl (fun a ct => mergeFlat a ct.2.flatten) acc)).Nodup ∧
    ∀ q v, (q, v) ∈ cols.foldl (fun a ct => mergeFlat a ct.2.flatten) acc ↔
      ((q, v) ∈ acc ∨ ∃ ct ∈ cols, (q, v) ∈ ct.2.flatten) := by
  intro cols
  induction cols with
  | nil => intro acc h _ _ _; exact ⟨h, by simp⟩
  | cons ct rest ih =>
    intro acc hn hwf hdis hpw
    rw [List.pairwise_cons] at hpw
    have hm := mergeFlat_spec ct.2.flatten acc hn (Tree.flatten_nodup ct.2 (hwf ct (by simp)))
    have := ih (mergeFlat acc ct.2.flatten) hm.1 (fun c h => hwf c (by simp [h]))
      (by
        intro ct' hct' q hq
        obtain ⟨pb, hpb, rfl⟩ := List.mem_map.mp hq
        rcases (hm.2 pb.1 pb.2).mp hpb with h | h
        · exact hpw.1 ct' hct' pb.1 (List.mem_map.mpr ⟨pb, h, rfl⟩)
        · exact hdis ct' (by simp [hct']) pb.1 (List.mem_map.mpr ⟨pb, h.1, rfl⟩))
      hpw.2
    refine ⟨this.1, ?_⟩
    intro q v
    simp only [List.foldl_cons]
    rw [this.2 q v, hm.2 q v]
    simp only [List.mem_cons, exists_eq_or_imp]
    constructor
    · rintro ((h | h) | h)
      · exact Or.inr (Or.inl h)
      · exact Or.inl h.1
      · exact Or.inr (Or.inr h)
    · rintro (h | h | h)
      · exact Or.inl (Or.inr ⟨h, hdis ct (by simp) q (List.mem_map.mpr ⟨(q, v), h, rfl⟩)⟩)
      · exact Or.inl (Or.inl h)
      · exact Or.inr h

theorem mem_paths_flatten (t : Tree (NVar α)) (hw : t.WF) (q : Path) :
    q ∈ paths t.flatten ↔ t.leafAt q ≠ none := by
  constructor
  · intro h
    obtain ⟨pb, hpb, rfl⟩ := List.mem_map.mp h
    rw [Tree.flatten_sound t pb.1 pb.2 hpb hw]; simp
  · intro h
    cases hq : t.leafAt q with
    | none => exact absurd hq h
    | some b => exact List.mem_map.mpr ⟨(q, b), Tree.flatten_complete t q b hq, rfl⟩

/-- `decodeVars`: for variables satisfying `VarsOk`, the rebuilt NNX state has at every path the
Variable made from the leaf that some collection other than `nnx` holds there — the same
characterisation as `linen_vars_to_nnx_attrs` -/
theorem decodeVars_spec (r : Reg) (hi : r.Inj) (hb : r.Bounded) (V : Forest (LBox α)) (hV : VarsOk r V) :
    ∃ r' S, decodeVars r V = .ok (r', S) ∧ r'.Inj ∧ r'.Bounded ∧ (∀ e ∈ r.cache, e ∈ r'.cache) ∧
      ((∀ ct ∈ V, (r.typeOf ct.1).isSome) → r' = r) ∧ WFF S ∧
      ∀ q v, leafAtF S q = some v ↔
        ∃ c x t, c ≠ "nnx" ∧ leafAtF V (c :: q) = some x ∧ r'.typeOf c = some t ∧ toNnxVarWith t x = .ok v := by
  have hperm := sortedCols_perm V
  obtain ⟨cols, hcols⟩ : ∃ cols, cols = (sortedCols V).filter fun ct => ct.1 ≠ "nnx" := ⟨_, rfl⟩
  have hmem : ∀ ct, ct ∈ cols ↔ ct ∈ V ∧ ct.1 ≠ "nnx" := by
    intro ct; simp only [hcols, List.mem_filter, hperm.mem_iff]; simp
  obtain ⟨r', cols', hconv, hi', hb', hsub, hsame, hfa⟩ := convertCols_spec cols r hi hb
    (fun ct hct pb hpb => hV.boxes ct ((hmem ct).mp hct).1 pb hpb)
  have hnode : ∀ ct' ∈ cols', ∃ ct ∈ V, ct.1 ≠ "nnx" ∧ ∃ f f', ct.2 = .node f ∧ ct'.2 = .node f' ∧ ct'.1 = ct.1 ∧
      ∃ t, mapEF (toNnxVarWith t) f = .ok f' ∧ (flattenF f ≠ [] → r'.typeOf ct.1 = some t) := by
    intro ct' hct'
    obtain ⟨ct, hct, h1, t, h2, h3⟩ := forall₂_mem_right hfa ct' hct'
    have hctV := (hmem ct).mp hct
    obtain ⟨f, hf, _⟩ := hV.cols ct hctV.1
    rw [hf] at h2 h3
    simp only [Tree.mapE, bind_ok, pure, Except.pure, Except.ok.injEq] at h2
    obtain ⟨f', hf', he⟩ := h2
    exact ⟨ct, hctV.1, hctV.2, f, f', hf, he.symm, h1, t, hf', by simpa [Tree.flatten] using h3⟩
  have hwfcol : ∀ ct' ∈ cols', ct'.2.WF := by
    intro ct' hct'
    obtain ⟨ct, hctV, _, f, f', hf, hf', _, t, hmap, _⟩ := hnode ct' hct'
    have hwf : WFF f := by
      have := WF_of_mem V hV.wf ct hctV; rw [hf] at this; simpa [Tree.WF] using this
    rw [hf']; simpa [Tree.WF] using (mapEF_shape _ f f' hmap).1 hwf
  have hkeys : (cols'.map Prod.fst) = cols.map Prod.fst := rel₂_keys hfa
  have hnodup : (cols.map Prod.fst).Nodup :=
    List.Pairwise.sublist (List.Sublist.map _ (hcols ▸ List.filter_sublist))
      ((hperm.map Prod.fst).nodup_iff.mpr (WFF_nodup V hV.wf))
  have hpw : cols'.Pairwise (fun ct ct' => ∀ q, q ∈ paths ct.2.flatten → q ∉ paths ct'.2.flatten) := by
    apply pairwise_of_nodup_keys cols' (hkeys ▸ hnodup)
    intro a' ha' b' hb' hne q h1 h2
    obtain ⟨a, haV, _, f1, g1, hf1, hg1, hk1, t1, hm1, _⟩ := hnode a' ha'
    obtain ⟨b, hbV, _, f2, g2, hf2, hg2, hk2, t2, hm2, _⟩ := hnode b' hb'
    have hd := hV.apart a haV b hbV (by rw [← hk1, ← hk2]; exact hne) f1 f2 hf1 hf2
    rw [mem_paths_flatten _ (hwfcol a' ha')] at h1
    rw [mem_paths_flatten _ (hwfcol b' hb')] at h2
    rw [hg1] at h1; rw [hg2] at h2
    refine hd q q ?_ ?_ (Or.inl (List.prefix_refl q))
    · intro hn; exact h1 (((mapEF_spec _ f1 g1 hm1).2 q).2 hn)
    · intro hn; exact h2 (((mapEF_spec _ f2 g2 hm2).2 q).2 hn)
  have hfold := foldMergeFlat_spec cols' [] (by simp [paths]) hwfcol (by intro _ _ q hq; simp [paths] at hq) hpw
  -- every entry of the flat union is a leaf of a converted collection, and those never nest
  have hsrc : ∀ q v, (q, v) ∈ cols'.foldl (fun a ct => mergeFlat a ct.2.flatten) [] ↔
      ∃ ct' ∈ cols', ct'.2.leafAt q = some v := by
    intro q v
    rw [hfold.2 q v]
    simp only [List.not_mem_nil, false_or]
    constructor
    · rintro ⟨ct', hct', h⟩; exact ⟨ct', hct', Tree.flatten_sound _ q v h (hwfcol ct' hct')⟩
    · rintro ⟨ct', hct', h⟩; exact ⟨ct', hct', Tree.flatten_complete _ q v h⟩
  obtain ⟨S, hS, hSleaf, hSw, _⟩ := unflatten_spec (cols'.foldl (fun a ct => mergeFlat a ct.2.flatten) [])
    (by
      intro pb hpb
      obtain ⟨ct', hct', hl⟩ := (hsrc pb.1 pb.2).mp hpb
      obtain ⟨_, _, _, f, f', _, hf', _⟩ := hnode ct' hct'
      rw [hf'] at hl
      intro e; rw [e] at hl; simp at hl)
    (by
      intro pb hpb pb' hpb' hp
      obtain ⟨a', ha', hl1⟩ := (hsrc pb.1 pb.2).mp hpb
      obtain ⟨b', hb', hl2⟩ := (hsrc pb'.1 pb'.2).mp hpb'
      obtain ⟨a, haV, _, f1, g1, hf1, hg1, hk1, t1, hm1, _⟩ := hnode a' ha'
      obtain ⟨b, hbV, _, f2, g2, hf2, hg2, hk2, t2, hm2, _⟩ := hnode b' hb'
      rw [hg1] at hl1; rw [hg2] at hl2
      simp only [Tree.leafAt_node] at hl1 hl2
      by_cases hk : a'.1 = b'.1
      · -- the same collection: leaf paths of one dict never nest
        have hab : a = b := by
          have h1 := dget_of_mem V hV.wf a.1 a.2 haV
          have h2 := dget_of_mem V hV.wf b.1 b.2 hbV
          have : a.1 = b.1 := by rw [← hk1, ← hk2]; exact hk
          rw [this] at h1
          rw [h1] at h2
          exact Prod.ext this (Option.some.inj h2)
        subst hab
        rw [hf1] at hf2; cases hf2
        have n1 : leafAtF f1 pb.1 ≠ none := fun hn => by
          rw [((mapEF_spec _ f1 g1 hm1).2 pb.1).2 hn] at hl1; cases hl1
        have n2 : leafAtF f1 pb'.1 ≠ none := fun hn => by
          rw [((mapEF_spec _ f1 g2 hm2).2 pb'.1).2 hn] at hl2; cases hl2
        exact leafAtF_prefix_eq f1 _ _ n1 n2 hp
      · exfalso
        have hd := hV.apart a haV b hbV (by rw [← hk1, ← hk2]; exact hk) f1 f2 hf1 hf2
        refine hd pb.1 pb'.1 ?_ ?_ (Or.inl hp)
        · intro hn; rw [((mapEF_spec _ f1 g1 hm1).2 pb.1).2 hn] at hl1; cases hl1
        · intro hn; rw [((mapEF_spec _ f2 g2 hm2).2 pb'.1).2 hn] at hl2; cases hl2)
    (functional_of_nodup _ hfold.1)
  refine ⟨r', S, ?_, hi', hb', hsub, ?_, hSw, ?_⟩
  · simp only [decodeVars, bind, Except.bind, pure, Except.pure, ← hcols, hconv, hS]
  · intro hall; exact hsame (fun ct hct => hall ct ((hmem ct).mp hct).1)
  · intro q v
    rw [hSleaf q v, hsrc q v]
    constructor
    · rintro ⟨ct', hct', hl⟩
      obtain ⟨ct, hctV, hnn, f, f', hf, hf', hk, t, hmap, hty⟩ := hnode ct' hct'
      rw [hf'] at hl
      simp only [Tree.leafAt_node] at hl
      cases hsrc' : leafAtF f q with
      | none => rw [((mapEF_spec _ f f' hmap).2 q).2 hsrc'] at hl; cases hl
      | some x =>
        obtain ⟨v', hv', hl'⟩ := ((mapEF_spec _ f f' hmap).2 q).1 x hsrc'
        rw [hl] at hl'; cases hl'
        have hne : flattenF f ≠ [] := by
          intro e
          have := flattenF_complete f q x hsrc'
          rw [e] at this; cases this
        refine ⟨ct.1, x, t, hnn, ?_, hty hne, hv'⟩
        rw [leafAtF_col V hV.wf]
        exact ⟨ct.2, hctV, by rw [hf]; exact hsrc'⟩
    · rintro ⟨c, x, t, hnn, hl, hty, hv⟩
      rw [leafAtF_col V hV.wf] at hl
      obtain ⟨tr, hm, hl⟩ := hl
      obtain ⟨ct', hct', hk, t0, hmap0, hty0⟩ := forall₂_mem_left hfa (c, tr) ((hmem _).mpr ⟨hm, hnn⟩)
      refine ⟨ct', hct', ?_⟩
      have hne : tr.flatten ≠ [] := by
        intro e
        have := Tree.flatten_complete tr q x hl
        rw [e] at this; cases this
      have : t0 = t := by
        have := hty0 hne
        simp only at this
        rw [hty] at this; exact (Option.some.inj this).symm
      subst this
      obtain ⟨v', hv', hl'⟩ := ((Tree.mapE_spec _ tr ct'.2 hmap0) q).1 x hl
      rw [hv] at hv'; cases hv'
      exact hl'

end Flax.Bridge
