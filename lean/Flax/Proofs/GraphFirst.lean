/- C03 helper lemmas: the DFS order of `flatten` made explicit; leaves sit at first-encounter paths -/
import Flax.Proofs.GraphVisit
set_option linter.unusedSimpArgs false
set_option linter.unusedVariables false
namespace Flax.Graph
open Flax.Heap

/-! ### the DFS visiting order of `flatten`, made explicit

`traceVal` / `traceItems` repeat the recursion of `flattenVal` / `flattenItems` (same fuel, same
`ref_index`, children in the same sorted-key order) and record
* `enc`: every *encounter* `(a, path)` — each time the traversal stands on a reference to `a` at `path`;
* `reg`: every *registration* `(a, path)` — the encounters at which `a` was appended to `ref_index`. -/

abbrev Log := List (Addr × Path)

mutual
  def traceVal : Nat → Heap → Path → PVal → RefIndex → Except Err (Log × Log × RefIndex)
    | 0, _, _, _, _ => .error .fuel
    | fuel + 1, h, path, v, idx =>
      match v with
      | .static _ => .ok ([], [], idx)
      | .array _ => .ok ([], [], idx)
      | .none => .ok ([], [], idx)
      | .seq _ xs => traceItems fuel h path (enumFrom 0 xs) idx
      | .dict kvs => traceItems fuel h path (sortKV kvs) idx
      | .ref a =>
        match indexOf? a idx with
        | some _ => .ok ([(a, path)], [], idx)
        | Option.none =>
          match h[a]? with
          | Option.none => .error .dangling
          | some (.var _ _ _) => .ok ([(a, path)], [(a, path)], idx ++ [a])
          | some (.node _ attrs) =>
            match traceItems fuel h path (sortKV attrs) (idx ++ [a]) with
            | .error e => .error e
            | .ok (enc, reg, idx') => .ok ((a, path) :: enc, (a, path) :: reg, idx')
  def traceItems : Nat → Heap → Path → List (Key × PVal) → RefIndex → Except Err (Log × Log × RefIndex)
    | 0, _, _, _, _ => .error .fuel
    | _ + 1, _, _, [], idx => .ok ([], [], idx)
    | fuel + 1, h, path, (k, v) :: rest, idx =>
      match traceVal fuel h (path ++ [k]) v idx with
      | .error e => .error e
      | .ok (enc1, reg1, idx1) =>
        match traceItems fuel h path rest idx1 with
        | .error e => .error e
        | .ok (enc2, reg2, idx2) => .ok (enc1 ++ enc2, reg1 ++ reg2, idx2)
end

/-- the DFS of `flatten h root`: encounters, registrations, final `ref_index` -/
def trace (h : Heap) (root : PVal) : Except Err (Log × Log × RefIndex) :=
  if isRootable root then traceVal (fuelFor h root) h [] root [] else .error .unsupported

/-- the path at which the traversal first stood on a reference to `a` -/
def firstOcc (a : Addr) : Log → Option Path
  | [] => Option.none
  | (b, p) :: rest => if b = a then some p else firstOcc a rest

theorem firstOcc_append (a : Addr) : ∀ (l1 l2 : Log), firstOcc a (l1 ++ l2) =
    match firstOcc a l1 with
    | some p => some p
    | Option.none => firstOcc a l2
  | [], l2 => by simp only [List.nil_append, firstOcc]
  | (b, p) :: r, l2 => by
    simp only [List.cons_append, firstOcc]
    by_cases e : b = a
    · simp [e]
    · simp only [e, if_false]; exact firstOcc_append a r l2

theorem firstOcc_none_of_not_mem {a : Addr} : ∀ {l : Log}, (∀ e ∈ l, e.1 ≠ a) → firstOcc a l = Option.none
  | [], _ => rfl
  | (b, p) :: r, h => by
    have : b ≠ a := h (b, p) (by simp)
    simp only [firstOcc, this, if_false]
    exact firstOcc_none_of_not_mem (fun e he => h e (by simp [he]))

/-- what a sub-run of the DFS guarantees -/
structure TraceInv (h : Heap) (idx : RefIndex) (ls : FlatState) (enc reg : Log) (idx' : RefIndex) : Prop where
  /-- registrations are exactly the addresses appended to `ref_index`, in order -/
  regIdx : idx' = idx ++ reg.map (·.1)
  /-- everything encountered is registered afterwards -/
  encIn : ∀ e ∈ enc, e.1 ∈ idx'
  /-- an address registered in this sub-run was registered at its first encounter -/
  first : ∀ e ∈ reg, firstOcc e.1 enc = some e.2
  /-- every Variable leaf is emitted at the registration path of its Variable -/
  leaf : ∀ p ty val md, (p, Leaf.vstate ty val md) ∈ ls → ∃ a, (a, p) ∈ reg ∧ h[a]? = some (.var ty val md)

theorem TraceInv.empty (h : Heap) (idx : RefIndex) : TraceInv h idx [] [] [] idx :=
  ⟨by simp, by simp, by simp, by simp⟩

theorem TraceInv.trans {h idx ls1 enc1 reg1 idx1 ls2 enc2 reg2 idx2} (hn : idx1.Nodup)
    (t1 : TraceInv h idx ls1 enc1 reg1 idx1) (t2 : TraceInv h idx1 ls2 enc2 reg2 idx2) (hn2 : idx2.Nodup) :
    TraceInv h idx (ls1 ++ ls2) (enc1 ++ enc2) (reg1 ++ reg2) idx2 := by
  have sub : ∀ a, a ∈ idx1 → a ∈ idx2 := by intro a ha; rw [t2.regIdx]; exact List.mem_append_left _ ha
  refine ⟨by rw [t2.regIdx, t1.regIdx]; simp, ?_, ?_, ?_⟩
  · intro e he
    rcases List.mem_append.mp he with h1 | h1
    · exact sub _ (t1.encIn e h1)
    · exact t2.encIn e h1
  · intro e he
    rw [firstOcc_append]
    rcases List.mem_append.mp he with h1 | h1
    · rw [t1.first e h1]
    · -- registered in the second part: not in idx1, hence never encountered in the first part
      have hnot : e.1 ∉ idx1 := by
        intro hin
        have : e.1 ∈ reg2.map (·.1) := List.mem_map_of_mem (f := (·.1)) h1
        rw [t2.regIdx] at hn2
        exact (List.nodup_append.mp hn2).2.2 _ hin _ this rfl
      rw [firstOcc_none_of_not_mem (fun e' he' heq => hnot (by rw [← heq]; exact t1.encIn e' he'))]
      exact t2.first e h1
  · intro p ty val md hm
    rcases List.mem_append.mp hm with h1 | h1
    · obtain ⟨a, ha, hv⟩ := t1.leaf p ty val md h1; exact ⟨a, List.mem_append_left _ ha, hv⟩
    · obtain ⟨a, ha, hv⟩ := t2.leaf p ty val md h1; exact ⟨a, List.mem_append_right _ ha, hv⟩


theorem nodup_push {idx : RefIndex} {a : Addr} (hn : idx.Nodup) (ha : a ∉ idx) : (idx ++ [a]).Nodup :=
  List.nodup_append.mpr ⟨hn, by simp, by intro x hx y hy; simp at hy; subst hy; exact fun e => ha (e ▸ hx)⟩

/-- the explicit DFS runs in lock-step with `flatten`: same `ref_index`, and its registrations explain the leaves -/
theorem trace_flatten (h : Heap) (hw : Heap.wf h = true) (root0 : PVal) : ∀ fuel : Nat,
    (∀ path v idx gd ls idx', v.wf = true → resolve h root0 path = some v →
      flattenVal fuel h path v idx = .ok (gd, ls, idx') → idx.Nodup →
      ∃ enc reg, traceVal fuel h path v idx = .ok (enc, reg, idx') ∧ TraceInv h idx ls enc reg idx' ∧ idx'.Nodup ∧
        ∀ e ∈ enc, resolve h root0 e.2 = some (.ref e.1)) ∧
    (∀ path items idx gs ls idx', (∀ kv ∈ items, kv.2.wf = true ∧ resolve h root0 (path ++ [kv.1]) = some kv.2) →
      flattenItems fuel h path items idx = .ok (gs, ls, idx') → idx.Nodup →
      ∃ enc reg, traceItems fuel h path items idx = .ok (enc, reg, idx') ∧ TraceInv h idx ls enc reg idx' ∧ idx'.Nodup ∧
        ∀ e ∈ enc, resolve h root0 e.2 = some (.ref e.1)) := by
  intro fuel
  induction fuel with
  | zero =>
    constructor
    · intro path v idx gd ls idx' _ _ hh; simp [flattenVal] at hh
    · intro path items idx gs ls idx' _ hh; simp [flattenItems] at hh
  | succ fuel ih =>
    constructor
    · intro path v idx gd ls idx' hv hr hh hn
      cases v with
      | static s =>
        simp [flattenVal] at hh; obtain ⟨_, rfl, rfl⟩ := hh
        exact ⟨[], [], by simp [traceVal], TraceInv.empty h idx, hn, by simp⟩
      | none =>
        simp [flattenVal] at hh; obtain ⟨_, rfl, rfl⟩ := hh
        exact ⟨[], [], by simp [traceVal], TraceInv.empty h idx, hn, by simp⟩
      | array d =>
        simp [flattenVal] at hh; obtain ⟨_, rfl, rfl⟩ := hh
        exact ⟨[], [], by simp [traceVal], ⟨by simp, by simp, by simp, by simp⟩, hn, by simp⟩
      | seq t xs =>
        simp only [flattenVal] at hh
        split at hh
        · cases hh
        · next as ls1 idx1 heq =>
          simp at hh; obtain ⟨_, rfl, rfl⟩ := hh
          simp only [PVal.wf] at hv
          obtain ⟨enc, reg, ht, ti, hn', hres⟩ := ih.2 path _ idx as ls1 idx1 (by
            intro kv hkv
            refine ⟨wfList_mem xs hv _ (enumFrom_mem_snd 0 xs kv hkv), ?_⟩
            rw [resolve_snoc, hr]
            simp only [Option.bind, step]
            exact lookupKV_of_mem (enumFrom_keysNodup 0 xs) hkv) heq hn
          exact ⟨enc, reg, by simp only [traceVal, ht], ti, hn', hres⟩
      | dict kvs =>
        simp only [flattenVal] at hh
        split at hh
        · cases hh
        · next as ls1 idx1 heq =>
          simp at hh; obtain ⟨_, rfl, rfl⟩ := hh
          simp only [PVal.wf, Bool.and_eq_true, decide_eq_true_eq] at hv
          obtain ⟨enc, reg, ht, ti, hn', hres⟩ := ih.2 path _ idx as ls1 idx1 (by
            intro kv hkv
            have hm := mem_sortKV.mp hkv
            refine ⟨wfKVs_mem kvs hv.2 kv hm, ?_⟩
            rw [resolve_snoc, hr]
            simp only [Option.bind, step]
            exact lookupKV_of_mem hv.1 hm) heq hn
          exact ⟨enc, reg, by simp only [traceVal, ht], ti, hn', hres⟩
      | ref a =>
        simp only [flattenVal] at hh
        split at hh
        · next i hi =>
          simp at hh; obtain ⟨_, rfl, rfl⟩ := hh
          refine ⟨[(a, path)], [], by simp [traceVal, hi], ⟨by simp, ?_, by simp, by simp⟩, hn, ?_⟩
          · intro e he; simp at he; subst he; exact indexOf?_mem hi
          · intro e he; simp at he; subst he; exact hr
        · next hnone =>
          have ha : a ∉ idx := indexOf?_none.mp hnone
          split at hh
          · cases hh
          · next ty val md hget =>
            simp at hh; obtain ⟨_, rfl, rfl⟩ := hh
            refine ⟨[(a, path)], [(a, path)], by simp [traceVal, hnone, hget], ⟨by simp, ?_, ?_, ?_⟩, nodup_push hn ha, ?_⟩
            · intro e he; simp at he; subst he; simp
            · intro e he; simp at he; subst he; simp [firstOcc]
            · intro p ty' val' md' hm
              simp at hm; obtain ⟨rfl, rfl, rfl, rfl⟩ := hm
              exact ⟨a, by simp, hget⟩
            · intro e he; simp at he; subst he; exact hr
          · next cls attrs hget =>
            split at hh
            · cases hh
            · next as ls1 idx1 heq =>
              simp at hh; obtain ⟨_, rfl, rfl⟩ := hh
              have hwn := heap_wf_node hw hget
              obtain ⟨enc, reg, ht, ti, hn', hres⟩ := ih.2 path _ _ as ls1 idx1 (by
                intro kv hkv
                have hm := mem_sortKV.mp hkv
                refine ⟨hwn.2 kv hm, ?_⟩
                rw [resolve_snoc, hr]
                simp only [Option.bind, step, hget]
                exact lookupKV_of_mem hwn.1 hm) heq (nodup_push hn ha)
              have hain : a ∈ idx1 := by rw [ti.regIdx]; simp
              refine ⟨(a, path) :: enc, (a, path) :: reg, by simp [traceVal, hnone, hget, ht], ⟨?_, ?_, ?_, ?_⟩, hn', ?_⟩
              · rw [ti.regIdx]; simp
              · intro e he
                rcases List.mem_cons.mp he with e1 | e1
                · subst e1; exact hain
                · exact ti.encIn e e1
              · intro e he
                rcases List.mem_cons.mp he with e1 | e1
                · subst e1; simp [firstOcc]
                · have hne : a ≠ e.1 := by
                    intro heq'
                    have : e.1 ∈ reg.map (·.1) := List.mem_map_of_mem (f := (·.1)) e1
                    rw [ti.regIdx] at hn'
                    exact (List.nodup_append.mp hn').2.2 a (by simp) e.1 this heq'
                  simp only [firstOcc, hne, if_false]
                  exact ti.first e e1
              · intro p ty val md hm
                obtain ⟨b, hb, hv'⟩ := ti.leaf p ty val md hm
                exact ⟨b, List.mem_cons_of_mem _ hb, hv'⟩
              · intro e he
                rcases List.mem_cons.mp he with e1 | e1
                · subst e1; exact hr
                · exact hres e e1
    · intro path items idx gs ls idx' hit hh hn
      cases items with
      | nil =>
        simp [flattenItems] at hh; obtain ⟨_, rfl, rfl⟩ := hh
        exact ⟨[], [], by simp [traceItems], TraceInv.empty h idx, hn, by simp⟩
      | cons kv rest =>
        obtain ⟨k, v⟩ := kv
        simp only [flattenItems] at hh
        split at hh
        · cases hh
        · next g ls1 idx1 heq1 =>
          split at hh
          · cases hh
          · next gs2 ls2 idx2 heq2 =>
            simp at hh; obtain ⟨_, rfl, rfl⟩ := hh
            have hkv := hit (k, v) (by simp)
            obtain ⟨enc1, reg1, ht1, ti1, hn1, hres1⟩ := ih.1 (path ++ [k]) v idx g ls1 idx1 hkv.1 hkv.2 heq1 hn
            obtain ⟨enc2, reg2, ht2, ti2, hn2, hres2⟩ := ih.2 path rest idx1 gs2 ls2 idx2
              (fun kv hkv => hit kv (by simp [hkv])) heq2 hn1
            refine ⟨enc1 ++ enc2, reg1 ++ reg2, by simp [traceItems, ht1, ht2], TraceInv.trans hn1 ti1 ti2 hn2, hn2, ?_⟩
            intro e he
            rcases List.mem_append.mp he with h1 | h1
            · exact hres1 e h1
            · exact hres2 e h1

theorem firstOcc_mem {a : Addr} : ∀ {l : Log} {p : Path}, firstOcc a l = some p → (a, p) ∈ l
  | [], _, h => by simp [firstOcc] at h
  | (b, q) :: r, p, h => by
    simp only [firstOcc] at h
    by_cases e : b = a
    · simp [e] at h; subst h; simp [e]
    · simp only [e, if_false] at h
      exact List.mem_cons_of_mem _ (firstOcc_mem h)

/-- **every Variable leaf of `flatten` sits at the path by which the DFS first reached its Variable** -/
theorem flatten_first (h : Heap) (root : PVal) (hw : Heap.wf h = true) (hr : root.wf = true)
    (gd : GDef) (ls : FlatState) (idx : RefIndex) (hf : flatten h root = .ok (gd, ls, idx)) :
    ∃ enc reg, trace h root = .ok (enc, reg, idx) ∧ reg.map (·.1) = idx ∧
      (∀ e ∈ enc, resolve h root e.2 = some (.ref e.1)) ∧
      (∀ e ∈ reg, firstOcc e.1 enc = some e.2) ∧
      ∀ p ty val md, (p, Leaf.vstate ty val md) ∈ ls →
        ∃ a, resolve h root p = some (.ref a) ∧ h[a]? = some (.var ty val md) ∧ firstOcc a enc = some p := by
  unfold flatten at hf
  split at hf
  · next hroot =>
    obtain ⟨enc, reg, ht, ti, _, hres⟩ := (trace_flatten h hw root _).1 [] root [] gd ls idx hr rfl hf List.nodup_nil
    refine ⟨enc, reg, by simp [trace, hroot, ht], by simpa using ti.regIdx.symm, hres, ti.first, ?_⟩
    intro p ty val md hm
    obtain ⟨a, ha, hv⟩ := ti.leaf p ty val md hm
    have hfo := ti.first (a, p) ha
    exact ⟨a, hres (a, p) (firstOcc_mem hfo), hv, hfo⟩
  · cases hf

end Flax.Graph
