/-
Helper lemmas for C16: flatten ∘ unflatten on prefix-free flat maps. Core Lean only.
-/
import Flax.Proofs.Traverse

set_option linter.unusedSectionVars false

namespace Flax.Traverse

variable {κ α : Type} [DecidableEq κ]

/-- values a flat map may hold so that flattening gives them back: plain leaves, and `empty_node` when
`keep_empty_nodes` is on -/
def OkVal (b : Bool) (v : FVal κ α) : Prop := (∃ a, v = .val (.leaf a)) ∨ (b = true ∧ v = .emptyNode)

theorem noLeaf_shift (k : κ) : (fun p => noLeaf (k :: p)) = (noLeaf : Path κ → Tree κ α → Bool) := rfl

theorem relT_okval (b : Bool) (v : FVal κ α) (h : OkVal b v) : relT b noLeaf v.toTree = [([], v)] := by
  rcases h with ⟨a, rfl⟩ | ⟨hb, rfl⟩
  · simp [FVal.toTree, relT]
  · simp [FVal.toTree, relT, noLeaf, hb]

theorem relT_dict_noLeaf (b : Bool) (sub : List (κ × Tree κ α)) :
    relT b noLeaf (.dict sub) = if (b && sub.isEmpty) = true then [([], .emptyNode)] else relKvs b noLeaf sub := by
  simp [relT, noLeaf]

theorem relKvs_append (b : Bool) (isLeaf : Path κ → Tree κ α → Bool) (l1 l2 : List (κ × Tree κ α)) :
    relKvs b isLeaf (l1 ++ l2) = relKvs b isLeaf l1 ++ relKvs b isLeaf l2 := by
  induction l1 with
  | nil => simp [relKvs]
  | cons x rest ih => obtain ⟨k, c⟩ := x; simp [relKvs, ih]

/-- the entries contributed by one `(k, t)` item -/
abbrev under (b : Bool) (k : κ) (t : Tree κ α) : List (Path κ × FVal κ α) :=
  (relT b noLeaf t).map (fun pv => (k :: pv.1, pv.2))

theorem relKvs_set_none (b : Bool) (acc : List (κ × Tree κ α)) (k : κ) (t : Tree κ α)
    (h : Dict.get acc k = none) : relKvs b noLeaf (Dict.set acc k t) = relKvs b noLeaf acc ++ under b k t := by
  rw [Dict.set_of_get_none _ _ _ h, relKvs_append]
  simp [relKvs, noLeaf_shift]

theorem relKvs_set_some (b : Bool) : ∀ (acc : List (κ × Tree κ α)) (k : κ) (old : Tree κ α),
    Dict.get acc k = some old → ∃ l1 l2, relKvs b noLeaf acc = l1 ++ under b k old ++ l2 ∧
      ∀ t, relKvs b noLeaf (Dict.set acc k t) = l1 ++ under b k t ++ l2 := by
  intro acc
  induction acc with
  | nil => intro k old h; simp [Dict.get] at h
  | cons x rest ih =>
    intro k old h
    obtain ⟨k', c⟩ := x
    by_cases hk : k' = k
    · subst hk
      simp only [Dict.get, ↓reduceIte, Option.some.injEq] at h
      subst h
      exact ⟨[], relKvs b noLeaf rest, by simp [relKvs, noLeaf_shift],
        fun t => by simp [Dict.set, relKvs, noLeaf_shift]⟩
    · simp only [Dict.get, hk, ↓reduceIte] at h
      obtain ⟨l1, l2, h1, h2⟩ := ih k old h
      refine ⟨under b k' c ++ l1, l2, ?_, fun t => ?_⟩
      · simp [relKvs, noLeaf_shift, h1]
      · simp [Dict.set, hk, relKvs, noLeaf_shift, h2 t]

private theorem perm_mid {β : Type} (l1 l2 m m' : List β) (x : β) (h : m'.Perm (m ++ [x])) :
    (l1 ++ m' ++ l2).Perm (l1 ++ m ++ l2 ++ [x]) := by
  have h1 : (l1 ++ m' ++ l2).Perm (l1 ++ (m ++ [x]) ++ l2) :=
    List.Perm.append_right l2 (List.Perm.append_left l1 h)
  refine h1.trans ?_
  have : l1 ++ (m ++ [x]) ++ l2 = (l1 ++ m) ++ ([x] ++ l2) := by simp
  rw [this]
  have : l1 ++ m ++ l2 ++ [x] = (l1 ++ m) ++ (l2 ++ [x]) := by simp
  rw [this]
  exact List.Perm.append_left _ List.perm_append_comm

/-- one step of the unflatten loop adds exactly one entry to the flattened form, provided the new path is
prefix-incomparable with every path already present -/
theorem insertPath_flat (b : Bool) : ∀ (p : Path κ) (acc : List (κ × Tree κ α)) (v : FVal κ α),
    p ≠ [] → OkVal b v → (∀ e ∈ relKvs b noLeaf acc, Incomp e.1 p) →
    ∃ acc', insertPath acc p v.toTree = .ok acc' ∧
      (relKvs b noLeaf acc').Perm (relKvs b noLeaf acc ++ [(p, v)])
  | [], _, _, hp, _, _ => absurd rfl hp
  | [k], acc, v, _, hv, hinc => by
    refine ⟨Dict.set acc k v.toTree, insertPath_single _ _ _, ?_⟩
    cases hg : Dict.get acc k with
    | none =>
      rw [relKvs_set_none b acc k _ hg]
      simp [under, relT_okval b v hv]
    | some old =>
      obtain ⟨l1, l2, h1, h2⟩ := relKvs_set_some b acc k old hg
      have hold : relT b noLeaf old = [] := by
        cases hr : relT b noLeaf old with
        | nil => rfl
        | cons e es =>
          exfalso
          have hmem : (k :: e.1, e.2) ∈ relKvs b noLeaf acc := by
            rw [h1]; simp [under, hr]
          exact (hinc _ hmem).2 (by simp)
      rw [h2 v.toTree, h1]
      simp only [under, hold, relT_okval b v hv, List.map_nil, List.append_nil, List.map_cons]
      have := perm_mid l1 l2 [] [([k], v)] ([k], v) (by simp)
      simpa using this
  | k :: k2 :: rest, acc, v, _, hv, hinc => by
    cases hg : Dict.get acc k with
    | none =>
      obtain ⟨sub', hs1, hs2⟩ := insertPath_flat b (k2 :: rest) [] v (by simp) hv (by simp [relKvs])
      refine ⟨Dict.set acc k (.dict sub'), ?_, ?_⟩
      · rw [insertPath_none acc k _ (by simp) _ hg, hs1]; rfl
      · have hne : sub' ≠ [] := by
          intro e; subst e
          simp only [relKvs, List.nil_append] at hs2
          exact absurd hs2.length_eq (by simp)
        have hemp : (b && sub'.isEmpty) = false := by
          cases sub' with
          | nil => exact absurd rfl hne
          | cons _ _ => simp
        rw [relKvs_set_none b acc k _ hg]
        simp only [under, relT_dict_noLeaf, hemp, Bool.false_eq_true, ↓reduceIte]
        refine List.Perm.append_left _ ?_
        have := hs2.map (fun pv => (k :: pv.1, pv.2))
        simpa [relKvs] using this
    | some old =>
      obtain ⟨l1, l2, h1, h2⟩ := relKvs_set_some b acc k old hg
      cases old with
      | leaf x =>
        exfalso
        have hmem : ([k], FVal.val (.leaf x)) ∈ relKvs b noLeaf acc := by
          rw [h1]; simp [under, relT]
        exact (hinc _ hmem).1 (by simp)
      | dict sub =>
        have hemp : (b && sub.isEmpty) = false := by
          cases hb : (b && sub.isEmpty) with
          | false => rfl
          | true =>
            exfalso
            have hmem : ([k], FVal.emptyNode) ∈ relKvs b noLeaf acc := by
              rw [h1]; simp [under, relT_dict_noLeaf, hb]
            exact (hinc _ hmem).1 (by simp)
        have hsubinc : ∀ e ∈ relKvs b noLeaf sub, Incomp e.1 (k2 :: rest) := by
          intro e he
          have hmem : (k :: e.1, e.2) ∈ relKvs b noLeaf acc := by
            rw [h1]
            simp only [under, relT_dict_noLeaf, hemp, Bool.false_eq_true, ↓reduceIte, List.mem_append,
              List.mem_map]
            exact Or.inl (Or.inr ⟨e, he, rfl⟩)
          exact (incomp_cons k _ _).mp (hinc _ hmem)
        obtain ⟨sub', hs1, hs2⟩ := insertPath_flat b (k2 :: rest) sub v (by simp) hv hsubinc
        refine ⟨Dict.set acc k (.dict sub'), ?_, ?_⟩
        · rw [insertPath_some acc sub k _ (by simp) _ hg, hs1]; rfl
        · have hne : sub' ≠ [] := by
            intro e; subst e
            simp only [relKvs] at hs2
            have := hs2.length_eq
            simp at this
          have hemp' : (b && sub'.isEmpty) = false := by
            cases sub' with
            | nil => exact absurd rfl hne
            | cons _ _ => simp
          rw [h2 (.dict sub'), h1]
          simp only [under, relT_dict_noLeaf, hemp, hemp', Bool.false_eq_true, ↓reduceIte]
          have hm := hs2.map (fun pv => (k :: pv.1, pv.2))
          simp only [List.map_append, List.map_cons, List.map_nil] at hm
          exact perm_mid l1 l2 _ _ _ hm

/-- the whole loop: starting from `acc`, inserting a batch `m` whose paths are incomparable with each other and
with those already present adds exactly `m` to the flattened form -/
theorem build_flat (b : Bool) : ∀ (m : List (Path κ × FVal κ α)) (acc : List (κ × Tree κ α)),
    PrefixFree (relKvs b noLeaf acc ++ m) → (∀ e ∈ m, e.1 ≠ [] ∧ OkVal b e.2) →
    ∃ acc', build acc m = .ok acc' ∧ (relKvs b noLeaf acc').Perm (relKvs b noLeaf acc ++ m) := by
  intro m
  induction m with
  | nil => intro acc _ _; exact ⟨acc, rfl, by simp⟩
  | cons e m ih =>
    intro acc hpf hok
    obtain ⟨p, v⟩ := e
    have hinc : ∀ x ∈ relKvs b noLeaf acc, Incomp x.1 p := by
      intro x hx
      have := (List.pairwise_append.mp hpf).2.2 x hx (p, v) (by simp)
      exact this
    obtain ⟨acc1, h1, h2⟩ := insertPath_flat b p acc v (hok (p, v) (by simp)).1 (hok (p, v) (by simp)).2 hinc
    have hperm : (relKvs b noLeaf acc1 ++ m).Perm (relKvs b noLeaf acc ++ (p, v) :: m) := by
      have := List.Perm.append_right m h2
      simpa using this
    have hpf1 : PrefixFree (relKvs b noLeaf acc1 ++ m) :=
      (List.Perm.pairwise_iff (fun h => Incomp.symm h) hperm).mpr hpf
    obtain ⟨acc2, h3, h4⟩ := ih acc1 hpf1 (fun x hx => hok x (by simp [hx]))
    refine ⟨acc2, ?_, h4.trans hperm⟩
    rw [build_cons, h1]
    exact h3

/-! ### `flatten_to_sequence` is the list of leaves -/

/-- a leaf entry of a flat map -/
abbrev leafEntry (pa : Path κ × α) : Path κ × FVal κ α := (pa.1, .val (.leaf pa.2))

mutual
  theorem relT_false_leaves : ∀ (c : Tree κ α), relT false noLeaf c = (leavesT c).map leafEntry
    | .leaf v => by simp [relT, leavesT, leafEntry]
    | .dict kvs => by
      have ih := relKvs_false_leaves kvs
      simp only [relT_dict_noLeaf, Bool.false_and, Bool.false_eq_true, ↓reduceIte, leavesT]
      exact ih
  theorem relKvs_false_leaves : ∀ (kvs : List (κ × Tree κ α)),
      relKvs false noLeaf kvs = (leavesKvs kvs).map leafEntry
    | [] => by simp [relKvs, leavesKvs]
    | (k, c) :: rest => by
      have h1 := relT_false_leaves c
      have h2 := relKvs_false_leaves rest
      simp only [relKvs, noLeaf_shift, h1, h2, leavesKvs, List.map_append, List.map_map]
      rfl
end

mutual
  /-- the `f`-calls of `path_aware_map` are exactly the leaves (the `empty_node` entries are skipped) -/
  theorem relT_true_calls : ∀ (c : Tree κ α),
      (relT true noLeaf c).filterMap (fun pv => match pv.2 with | .val x => some (pv.1, x) | .emptyNode => none)
        = (leavesT c).map (fun pa => (pa.1, Tree.leaf pa.2))
    | .leaf v => by simp [relT, leavesT]
    | .dict kvs => by
      have ih := relKvs_true_calls kvs
      simp only [relT_dict_noLeaf, leavesT]
      cases kvs with
      | nil => simp [leavesKvs]
      | cons x r => simpa using ih
  theorem relKvs_true_calls : ∀ (kvs : List (κ × Tree κ α)),
      (relKvs true noLeaf kvs).filterMap (fun pv => match pv.2 with | .val x => some (pv.1, x) | .emptyNode => none)
        = (leavesKvs kvs).map (fun pa => (pa.1, Tree.leaf pa.2))
    | [] => by simp [relKvs, leavesKvs]
    | (k, c) :: rest => by
      have h1 := relT_true_calls c
      have h2 := relKvs_true_calls rest
      simp only [relKvs, noLeaf_shift, leavesKvs, List.filterMap_append, List.map_append, h2]
      congr 1
      rw [List.filterMap_map]
      have h3 := congrArg (List.map (fun pa : Path κ × Tree κ α => (k :: pa.1, pa.2))) h1
      rw [List.map_filterMap] at h3
      simp only [List.map_map] at h3 ⊢
      refine Eq.trans ?_ (h3.trans ?_)
      · congr 1
        funext pv
        obtain ⟨q, v⟩ := pv
        cases v <;> simp
      · apply List.map_congr_left
        intro pa _
        rfl
end

/-! ### `path_aware_map` -/

/-- what `path_aware_map` does to one flat entry -/
def appF (f : Path κ → Tree κ α → Tree κ α) (pv : Path κ × FVal κ α) : Path κ × FVal κ α :=
  (pv.1, match pv.2 with
    | .val x => FVal.val (f pv.1 x)
    | .emptyNode => FVal.emptyNode)

theorem appF_shift (f : Path κ → Tree κ α → Tree κ α) (k : κ) (l : List (Path κ × FVal κ α)) :
    (l.map (fun pv => (k :: pv.1, pv.2))).map (appF f)
      = (l.map (appF (fun p => f (k :: p)))).map (fun pv => (k :: pv.1, pv.2)) := by
  simp only [List.map_map]
  apply List.map_congr_left
  intro pv _
  simp only [Function.comp, appF]

theorem relKvs_true_ne_nil : ∀ (kvs : List (κ × Tree κ α)), kvs ≠ [] → relKvs true noLeaf kvs ≠ []
  | [], h => absurd rfl h
  | (k, c) :: rest, _ => by
    have hc : relT true (fun p => noLeaf (k :: p)) c ≠ [] := by
      rw [noLeaf_shift]
      cases c with
      | leaf v => simp [relT]
      | dict sub =>
        rw [relT_dict_noLeaf]
        cases sub with
        | nil => simp
        | cons x r =>
          simp only [List.isEmpty_cons, Bool.and_false, Bool.false_eq_true, ↓reduceIte]
          exact relKvs_true_ne_nil (x :: r) (by simp)
    simp [relKvs, hc]

mutual
  theorem build_child_map : ∀ (c : Tree κ α) (f : Path κ → Tree κ α → Tree κ α)
      (acc : List (κ × Tree κ α)) (k : κ), WF c → Dict.get acc k = none →
      build acc (((relT true noLeaf c).map (appF f)).map (fun pv => (k :: pv.1, pv.2)))
        = .ok (acc ++ [(k, mapWithPath f c)])
    | .leaf v, f, acc, k, _, hk => by
      simp [relT, appF, mapWithPath, build_cons, build_nil, insertPath_single, FVal.toTree,
        Dict.set_of_get_none _ _ _ hk, bind, Except.bind]
    | .dict kvs, f, acc, k, hwf, hk => by
      have ih := build_kvs_map kvs f [] (by simpa [WF] using hwf) (by intro kv _; simp [Dict.get])
      cases kvs with
      | nil =>
        simp [relT, noLeaf, appF, mapWithPath, mapWithPathKvs, build_cons, build_nil, insertPath_single,
          FVal.toTree, Dict.set_of_get_none _ _ _ hk, bind, Except.bind]
      | cons x r =>
        have hne : (relKvs true noLeaf (x :: r)).map (appF f) ≠ [] := by
          simpa using relKvs_true_ne_nil (x :: r) (by simp)
        have hp : ∀ pv ∈ (relKvs true noLeaf (x :: r)).map (appF f), pv.1 ≠ [] := by
          intro pv hpv
          simp only [List.mem_map] at hpv
          obtain ⟨q, hq, rfl⟩ := hpv
          exact relKvs_paths_ne_nil true noLeaf (x :: r) q hq
        simp only [relT_dict_noLeaf, List.isEmpty_cons, Bool.and_false, Bool.false_eq_true, ↓reduceIte]
        rw [build_under_none k _ acc hp hne hk, ih]
        simp [Except.map, Dict.set_of_get_none _ _ _ hk, mapWithPath]
  theorem build_kvs_map : ∀ (kvs : List (κ × Tree κ α)) (f : Path κ → Tree κ α → Tree κ α)
      (acc : List (κ × Tree κ α)), WFKvs kvs → (∀ kv ∈ kvs, Dict.get acc kv.1 = none) →
      build acc ((relKvs true noLeaf kvs).map (appF f)) = .ok (acc ++ mapWithPathKvs f kvs)
    | [], f, acc, _, _ => by simp [relKvs, mapWithPathKvs, build_nil]
    | (k, c) :: rest, f, acc, hwf, hacc => by
      simp only [WFKvs] at hwf
      obtain ⟨hk, hc, hrest⟩ := hwf
      have h1 := build_child_map c (fun p => f (k :: p)) acc k hc (hacc (k, c) (by simp))
      have h2 := build_kvs_map rest f (acc ++ [(k, mapWithPath (fun p => f (k :: p)) c)]) hrest (by
        intro kv hkv
        rw [Dict.get_none_iff]
        intro x hx
        simp only [List.mem_append, List.mem_singleton] at hx
        rcases hx with hx | rfl
        · exact (Dict.get_none_iff _ _).mp (hacc kv (by simp [hkv])) x hx
        · exact fun e => hk kv hkv e.symm)
      simp only [relKvs, noLeaf_shift, List.map_append, appF_shift, build_append, h1, bind, Except.bind,
        mapWithPathKvs]
      rw [h2]; simp
end

end Flax.Traverse
