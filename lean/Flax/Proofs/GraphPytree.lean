/- C03 helper: generic pytree nodes (NamedTuple / OrderedDict / registered dataclasses) — flatten sorts the children
by key and remembers each key's declared position (`_flatten_pytree`), unflatten sorts them back by that position
(`_unflatten_pytree`) -/
import Flax.Proofs.GraphOrder
set_option linter.unusedSimpArgs false
set_option linter.unusedVariables false
namespace Flax.Graph
open Flax.Heap

/-- `key_index[k]`: the position of `k` in the declared order -/
def keyIndex (k : Key) : List Key → Nat
  | [] => 0
  | x :: r => if x = k then 0 else keyIndex k r + 1

def natLt (a b : Nat) : Bool := decide (a < b)

theorem natLt_strictTotal : StrictTotal natLt :=
  ⟨fun a => by simp [natLt], fun a b c h1 h2 => by simp [natLt] at *; omega, fun a b h => by simp [natLt]; omega⟩

/-- `_flatten_pytree`: children sorted by key, plus the declared key order (`key_index`) as metadata -/
def pyFlatten {α : Type} (decl : List (Key × α)) : List (Key × α) × List Key := (sortKV decl, decl.map (·.1))

/-- `_unflatten_pytree`: `sorted(nodes, key=lambda x: key_index[x[0]])`, then the values -/
def pyUnflatten {α : Type} (nodes : List (Key × α)) (order : List Key) : List (Key × α) :=
  (sortBy natLt (nodes.map (fun kv => (keyIndex kv.1 order, kv)))).map (·.2)

/-- the seeded variant: `nodes[key_index[key]] for key, _ in nodes` (the inverse permutation) -/
def pyUnflattenInv {α : Type} [Inhabited α] (nodes : List (Key × α)) (order : List Key) : List (Key × α) :=
  nodes.map (fun kv => nodes.getD (keyIndex kv.1 order) kv)

theorem tag_ssorted {α : Type} : ∀ (l : List (Key × α)), keysNodup l →
    SSorted natLt (l.map (fun kv => (keyIndex kv.1 (l.map (·.1)), kv)))
  | [], _ => by simp [SSorted]
  | x :: t, hn => by
    have hn' : x.1 ∉ t.map (·.1) ∧ (t.map (·.1)).Nodup := by
      unfold keysNodup at hn; rw [List.map_cons] at hn; exact List.nodup_cons.mp hn
    have ih := tag_ssorted t hn'.2
    have hshift : ∀ b ∈ t, keyIndex b.1 ((x :: t).map (·.1)) = keyIndex b.1 (t.map (·.1)) + 1 := by
      intro b hb
      have : x.1 ≠ b.1 := fun e => hn'.1 (e ▸ List.mem_map_of_mem (f := (·.1)) hb)
      simp [keyIndex, this]
    simp only [SSorted, List.map_cons]
    refine List.pairwise_cons.mpr ⟨?_, ?_⟩
    · intro y hy
      obtain ⟨b, hb, rfl⟩ := List.mem_map.mp hy
      simp only [natLt, decide_eq_true_eq]
      have h2 := hshift b hb
      simp only [List.map_cons] at h2
      rw [h2]; simp [keyIndex]
    · rw [List.pairwise_map]
      simp only [SSorted, List.pairwise_map] at ih
      refine List.Pairwise.imp_of_mem ?_ ih
      intro a b ha hb hab
      simp only [natLt, decide_eq_true_eq] at hab ⊢
      have h1 := hshift a ha
      have h2 := hshift b hb
      simp only [List.map_cons] at h1 h2
      rw [h1, h2]; omega

/-- **unflatten ∘ flatten is the identity on a generic pytree node, for every declared order** (every
permutation of the sorted keys): the children come back under their own fields, in declared order -/
theorem pytree_unflatten_flatten_id {α : Type} (decl : List (Key × α)) (hn : keysNodup decl) :
    pyUnflatten (pyFlatten decl).1 (pyFlatten decl).2 = decl := by
  simp only [pyFlatten, pyUnflatten]
  have hp : ((sortKV decl).map (fun kv => (keyIndex kv.1 (decl.map (·.1)), kv))).Perm
      (decl.map (fun kv => (keyIndex kv.1 (decl.map (·.1)), kv))) := (sortBy_perm decl).map _
  rw [sortBy_of_perm natLt_strictTotal hp (tag_ssorted decl hn)]
  rw [List.map_map]
  have : ((fun x : Nat × (Key × α) => x.2) ∘ fun kv => (keyIndex kv.1 (decl.map (·.1)), kv)) = id := by funext kv; rfl
  rw [this, List.map_id]

/-- the inverse permutation is wrong exactly where the seeded change was: a 3-cycle `Affine(weight, bias, child)` -/
theorem pytree_inverse_permutation_wrong :
    let decl : List (Key × Nat) := [(.str "weight", 1), (.str "bias", 2), (.str "child", 3)]
    pyUnflatten (pyFlatten decl).1 (pyFlatten decl).2 = decl ∧
    pyUnflattenInv (pyFlatten decl).1 (pyFlatten decl).2 ≠ decl := by
  decide

end Flax.Graph
