/- C03 helper lemmas: what `flatten` visits — every Variable gets exactly one leaf, at a path that resolves to it -/
import Flax.Proofs.GraphFlatten
import Flax.Proofs.GraphPaths
namespace Flax.Graph
open Flax.Heap

theorem resolve_snoc (h : Heap) : ∀ (p : Path) (r : PVal) (k : Key),
    resolve h r (p ++ [k]) = (resolve h r p).bind (fun v => step h v k)
  | [], r, k => by simp [resolve]; cases step h r k <;> rfl
  | k0 :: p, r, k => by
    simp only [List.cons_append, resolve]
    cases step h r k0 with
    | none => rfl
    | some v' => exact resolve_snoc h p v' k

theorem lookupKV_of_mem {α : Type} : ∀ {l : List (Key × α)} {k : Key} {v : α}, keysNodup l → (k, v) ∈ l → lookupKV k l = some v
  | [], _, _, _, h => by cases h
  | (k', v') :: rest, k, v, hn, h => by
    have hn' : k' ∉ rest.map (·.1) ∧ (rest.map (·.1)).Nodup := by
      unfold keysNodup at hn
      rw [List.map_cons] at hn
      exact List.nodup_cons.mp hn
    simp only [lookupKV]
    rcases List.mem_cons.mp h with e | h'
    · cases e; simp
    · have : k' ≠ k := by
        intro e; subst e
        exact hn'.1 (List.mem_map_of_mem (f := (·.1)) h')
      simp only [this, if_false]
      exact lookupKV_of_mem hn'.2 h'

/-- what one sub-run of `flatten` below `path` contributes, in terms of absolute paths from `root0` -/
structure Visit (h : Heap) (root0 : PVal) (idx : RefIndex) (ls : FlatState) (idx' : RefIndex) : Prop where
  ext : ∃ new, idx' = idx ++ new
  nodup : idx.Nodup → idx'.Nodup
  leafVar : ∀ p ty val md, (p, Leaf.vstate ty val md) ∈ ls →
    ∃ a, resolve h root0 p = some (.ref a) ∧ a ∈ idx' ∧ a ∉ idx ∧ h[a]? = some (.var ty val md)
  leafArr : ∀ p d, (p, Leaf.arr d) ∈ ls → resolve h root0 p = some (.array d)
  hasLeaf : ∀ a, a ∈ idx' → a ∉ idx → ∀ ty val md, h[a]? = some (.var ty val md) →
    ∃ p, (p, Leaf.vstate ty val md) ∈ ls ∧ resolve h root0 p = some (.ref a)
  once : ∀ p q ty val md ty' val' md' a, (p, Leaf.vstate ty val md) ∈ ls → (q, Leaf.vstate ty' val' md') ∈ ls →
    resolve h root0 p = some (.ref a) → resolve h root0 q = some (.ref a) → p = q

theorem Visit.empty (h : Heap) (root0 : PVal) (idx : RefIndex) : Visit h root0 idx [] idx :=
  ⟨⟨[], by simp⟩, id, by simp, by simp, fun a h1 h2 => absurd h1 h2, by simp⟩

theorem Visit.trans {h root0 idx ls1 idx1 ls2 idx2} (hn : idx.Nodup) (v1 : Visit h root0 idx ls1 idx1)
    (v2 : Visit h root0 idx1 ls2 idx2) : Visit h root0 idx (ls1 ++ ls2) idx2 := by
  obtain ⟨new1, e1⟩ := v1.ext
  obtain ⟨new2, e2⟩ := v2.ext
  have hn1 := v1.nodup hn
  have hn2 := v2.nodup hn1
  have sub1 : ∀ a, a ∈ idx1 → a ∈ idx2 := by intro a ha; rw [e2]; exact List.mem_append_left _ ha
  have sub0 : ∀ a, a ∈ idx → a ∈ idx1 := by intro a ha; rw [e1]; exact List.mem_append_left _ ha
  refine ⟨⟨new1 ++ new2, by rw [e2, e1]; simp⟩, fun _ => hn2, ?_, ?_, ?_, ?_⟩
  · intro p ty val md hm
    rcases List.mem_append.mp hm with h1 | h2
    · obtain ⟨a, hr, ha, hna, hv⟩ := v1.leafVar p ty val md h1
      exact ⟨a, hr, sub1 a ha, hna, hv⟩
    · obtain ⟨a, hr, ha, hna, hv⟩ := v2.leafVar p ty val md h2
      exact ⟨a, hr, ha, fun hc => hna (sub0 a hc), hv⟩
  · intro p d hm
    rcases List.mem_append.mp hm with h1 | h2
    · exact v1.leafArr p d h1
    · exact v2.leafArr p d h2
  · intro a ha hna ty val md hv
    by_cases h1 : a ∈ idx1
    · obtain ⟨p, hp, hr⟩ := v1.hasLeaf a h1 hna ty val md hv
      exact ⟨p, List.mem_append_left _ hp, hr⟩
    · obtain ⟨p, hp, hr⟩ := v2.hasLeaf a ha h1 ty val md hv
      exact ⟨p, List.mem_append_right _ hp, hr⟩
  · intro p q ty val md ty' val' md' a hp hq hrp hrq
    rcases List.mem_append.mp hp with hp1 | hp2 <;> rcases List.mem_append.mp hq with hq1 | hq2
    · exact v1.once p q ty val md ty' val' md' a hp1 hq1 hrp hrq
    · obtain ⟨a1, hr1, ha1, _, _⟩ := v1.leafVar p ty val md hp1
      obtain ⟨a2, hr2, _, hna2, _⟩ := v2.leafVar q ty' val' md' hq2
      rw [hrp] at hr1; rw [hrq] at hr2
      cases hr1; cases hr2
      exact absurd ha1 hna2
    · obtain ⟨a1, hr1, _, hna1, _⟩ := v2.leafVar p ty val md hp2
      obtain ⟨a2, hr2, ha2, _, _⟩ := v1.leafVar q ty' val' md' hq1
      rw [hrp] at hr1; rw [hrq] at hr2
      cases hr1; cases hr2
      exact absurd ha2 hna1
    · exact v2.once p q ty val md ty' val' md' a hp2 hq2 hrp hrq


theorem Visit.regNode {h : Heap} (root0 : PVal) {idx : RefIndex} {a : Addr} {cls attrs} (ha : a ∉ idx)
    (hget : h[a]? = some (.node cls attrs)) : Visit h root0 idx [] (idx ++ [a]) := by
  refine ⟨⟨[a], rfl⟩, fun hn => List.nodup_append.mpr ⟨hn, by simp, by
      intro x hx y hy; simp at hy; subst hy; exact fun e => ha (e ▸ hx)⟩, by simp, by simp, ?_, by simp⟩
  intro a' ha' hna' ty val md hv
  have : a' = a := by
    rcases List.mem_append.mp ha' with h1 | h1
    · exact absurd h1 hna'
    · simpa using h1
  subst this
  rw [hget] at hv; cases hv

theorem Visit.regVar {h : Heap} {root0 : PVal} {idx : RefIndex} {a : Addr} {path : Path} {ty val md} (ha : a ∉ idx)
    (hget : h[a]? = some (.var ty val md)) (hr : resolve h root0 path = some (.ref a)) :
    Visit h root0 idx [(path, .vstate ty val md)] (idx ++ [a]) := by
  refine ⟨⟨[a], rfl⟩, fun hn => List.nodup_append.mpr ⟨hn, by simp, by
      intro x hx y hy; simp at hy; subst hy; exact fun e => ha (e ▸ hx)⟩, ?_, by simp, ?_, ?_⟩
  · intro p ty' val' md' hm
    simp at hm
    obtain ⟨rfl, rfl, rfl, rfl⟩ := hm
    exact ⟨a, hr, by simp, ha, hget⟩
  · intro a' ha' hna' ty' val' md' hv
    have : a' = a := by
      rcases List.mem_append.mp ha' with h1 | h1
      · exact absurd h1 hna'
      · simpa using h1
    subst this
    rw [hget] at hv; cases hv
    exact ⟨path, by simp, hr⟩
  · intro p q ty1 val1 md1 ty2 val2 md2 a' hp hq _ _
    simp at hp hq
    rw [hp.1, hq.1]

theorem enumFrom_keysNodup {α : Type} (n : Nat) (xs : List α) : keysNodup (enumFrom n xs) :=
  (enumFrom_ssorted n xs).keys_nodup Key.strictTotal

theorem visit_aux (h : Heap) (hw : Heap.wf h = true) (root0 : PVal) : ∀ fuel : Nat,
    (∀ path v idx gd ls idx', v.wf = true → resolve h root0 path = some v →
        flattenVal fuel h path v idx = .ok (gd, ls, idx') → idx.Nodup → Visit h root0 idx ls idx') ∧
    (∀ path items idx gs ls idx', (∀ kv ∈ items, kv.2.wf = true ∧ resolve h root0 (path ++ [kv.1]) = some kv.2) →
        flattenItems fuel h path items idx = .ok (gs, ls, idx') → idx.Nodup → Visit h root0 idx ls idx') := by
  intro fuel
  induction fuel with
  | zero =>
    constructor
    · intro path v idx gd ls idx' _ _ hh; simp [flattenVal] at hh
    · intro path items idx gs ls idx' _ hh; simp [flattenItems] at hh
  | succ fuel ih =>
    constructor
    · intro path v idx gd ls idx' hv hr hh hn
      cases v with
      | static s => simp [flattenVal] at hh; obtain ⟨_, rfl, rfl⟩ := hh; exact Visit.empty h root0 idx
      | none => simp [flattenVal] at hh; obtain ⟨_, rfl, rfl⟩ := hh; exact Visit.empty h root0 idx
      | array d =>
        simp [flattenVal] at hh; obtain ⟨_, rfl, rfl⟩ := hh
        refine ⟨⟨[], by simp⟩, id, by simp, ?_, fun a h1 h2 => absurd h1 h2, by simp⟩
        intro p d' hm; simp at hm; obtain ⟨rfl, rfl⟩ := hm; exact hr
      | seq t xs =>
        simp only [flattenVal] at hh
        split at hh
        · cases hh
        · next as ls1 idx1 heq =>
          simp at hh; obtain ⟨_, rfl, rfl⟩ := hh
          simp only [PVal.wf] at hv
          refine ih.2 path _ idx as ls1 idx1 ?_ heq hn
          intro kv hkv
          refine ⟨wfList_mem xs hv _ (enumFrom_mem_snd 0 xs kv hkv), ?_⟩
          rw [resolve_snoc, hr]
          simp only [Option.bind, step]
          exact lookupKV_of_mem (enumFrom_keysNodup 0 xs) hkv
      | dict kvs =>
        simp only [flattenVal] at hh
        split at hh
        · cases hh
        · next as ls1 idx1 heq =>
          simp at hh; obtain ⟨_, rfl, rfl⟩ := hh
          simp only [PVal.wf, Bool.and_eq_true, decide_eq_true_eq] at hv
          refine ih.2 path _ idx as ls1 idx1 ?_ heq hn
          intro kv hkv
          have hm := mem_sortKV.mp hkv
          refine ⟨wfKVs_mem kvs hv.2 kv hm, ?_⟩
          rw [resolve_snoc, hr]
          simp only [Option.bind, step]
          exact lookupKV_of_mem hv.1 hm
      | ref a =>
        simp only [flattenVal] at hh
        split at hh
        · simp at hh; obtain ⟨_, rfl, rfl⟩ := hh; exact Visit.empty h root0 idx
        · next hnone =>
          have ha : a ∉ idx := indexOf?_none.mp hnone
          split at hh
          · cases hh
          · next ty val md hget =>
            simp at hh; obtain ⟨_, rfl, rfl⟩ := hh
            exact Visit.regVar ha hget hr
          · next cls attrs hget =>
            split at hh
            · cases hh
            · next as ls1 idx1 heq =>
              simp at hh; obtain ⟨_, rfl, rfl⟩ := hh
              have hwn := heap_wf_node hw hget
              have v0 := Visit.regNode root0 ha hget
              have hn1 := v0.nodup hn
              have v1 := ih.2 path _ _ as ls1 idx1 (by
                intro kv hkv
                have hm := mem_sortKV.mp hkv
                refine ⟨hwn.2 kv hm, ?_⟩
                rw [resolve_snoc, hr]
                simp only [Option.bind, step, hget]
                exact lookupKV_of_mem hwn.1 hm) heq hn1
              simpa using Visit.trans hn v0 v1
    · intro path items idx gs ls idx' hit hh hn
      cases items with
      | nil => simp [flattenItems] at hh; obtain ⟨_, rfl, rfl⟩ := hh; exact Visit.empty h root0 idx
      | cons kv rest =>
        obtain ⟨k, v⟩ := kv
        simp only [flattenItems] at hh
        split at hh
        · cases hh
        · next g ls1 idx1 heq1 =>
          split at hh
          · cases hh
          · next gs2 ls2 idx2 heq2 =>
            simp at hh; obtain ⟨_, rfl, rfl⟩ := hh
            have hkv := hit (k, v) (by simp)
            have v1 := ih.1 (path ++ [k]) v idx g ls1 idx1 hkv.1 hkv.2 heq1 hn
            have v2 := ih.2 path rest idx1 gs2 ls2 idx2 (fun kv hkv => hit kv (by simp [hkv])) heq2 (v1.nodup hn)
            exact Visit.trans hn v1 v2

end Flax.Graph
