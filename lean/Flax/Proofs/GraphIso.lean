/-
Helper lemmas for the round-trip theorem of C03: the address map read off `ref_index` / `index_ref`,
its monotonicity, and the simulation of `flatten` by `unflatten`.
-/
import Flax.Model.Graph
import Flax.Proofs.GraphOrder

namespace Flax.Graph
open Flax.Heap

/-! ### `indexOf?` and `irLookup` -/

theorem indexOf?_none {a : Addr} : ∀ {l : List Addr}, indexOf? a l = Option.none ↔ a ∉ l
  | [] => by simp [indexOf?]
  | b :: rest => by
    simp only [indexOf?]
    by_cases e : b = a
    · simp [e]
    · simp [e, indexOf?_none (l := rest), Ne.symm e]

theorem indexOf?_some {a : Addr} : ∀ {l : List Addr} {i : Nat}, indexOf? a l = some i → l[i]? = some a
  | [], _, h => by simp [indexOf?] at h
  | b :: rest, i, h => by
    simp only [indexOf?] at h
    by_cases e : b = a
    · simp [e] at h; subst h; simp [e]
    · simp only [e, if_false, Option.map_eq_some_iff] at h
      obtain ⟨j, hj, rfl⟩ := h
      simpa using indexOf?_some hj

theorem indexOf?_lt {a : Addr} {l : List Addr} {i : Nat} (h : indexOf? a l = some i) : i < l.length := by
  have := indexOf?_some h
  exact (List.getElem?_eq_some_iff.mp this).1

theorem indexOf?_mem {a : Addr} {l : List Addr} {i : Nat} (h : indexOf? a l = some i) : a ∈ l :=
  List.mem_of_getElem? (indexOf?_some h)

theorem indexOf?_of_mem {a : Addr} {l : List Addr} (h : a ∈ l) : ∃ i, indexOf? a l = some i := by
  cases e : indexOf? a l with
  | none => exact absurd h (indexOf?_none.mp e)
  | some i => exact ⟨i, rfl⟩

theorem indexOf?_append_left {a : Addr} : ∀ {l : List Addr} (m : List Addr) {i : Nat},
    indexOf? a l = some i → indexOf? a (l ++ m) = some i
  | [], _, _, h => by simp [indexOf?] at h
  | b :: rest, m, i, h => by
    simp only [indexOf?, List.cons_append] at h ⊢
    by_cases e : b = a
    · simpa [e] using h
    · simp only [e, if_false, Option.map_eq_some_iff] at h ⊢
      obtain ⟨j, hj, rfl⟩ := h
      exact ⟨j, indexOf?_append_left m hj, rfl⟩

theorem indexOf?_append_new {a : Addr} : ∀ {l : List Addr}, a ∉ l → indexOf? a (l ++ [a]) = some l.length
  | [], _ => by simp [indexOf?]
  | b :: rest, h => by
    have hb : b ≠ a := fun e => h (by simp [e])
    have hr : a ∉ rest := fun e => h (by simp [e])
    simp [indexOf?, hb, indexOf?_append_new hr]

theorem indexOf?_inj {a b : Addr} {l : List Addr} {i : Nat} (h1 : indexOf? a l = some i)
    (h2 : indexOf? b l = some i) : a = b := by
  have x := indexOf?_some h1
  have y := indexOf?_some h2
  rw [x] at y; exact Option.some.inj y

/-- the index of `a` in a duplicate-free list is the position where it sits -/
theorem indexOf?_of_getElem? {a : Addr} : ∀ {l : List Addr} {i : Nat}, l.Nodup → l[i]? = some a → indexOf? a l = some i
  | [], _, _, h => by simp at h
  | b :: rest, i, hn, h => by
    have hn' := List.nodup_cons.mp hn
    cases i with
    | zero => simp at h; simp [indexOf?, h]
    | succ j =>
      simp at h
      have : b ≠ a := fun e => hn'.1 (e ▸ List.mem_of_getElem? h)
      simp [indexOf?, this, indexOf?_of_getElem? hn'.2 h]

/-! ### the address map -/

/-- object registered under index `i` by `flatten` ↦ object created for index `i` by `unflatten` -/
def phi (idx : RefIndex) (ir : IndexRef) (a : Addr) : Option Addr :=
  match indexOf? a idx with
  | some i => irLookup i ir
  | Option.none => Option.none

def PhiLe (φ φ' : Addr → Option Addr) : Prop := ∀ a b, φ a = some b → φ' a = some b

theorem PhiLe.refl (φ : Addr → Option Addr) : PhiLe φ φ := fun _ _ h => h

theorem PhiLe.trans {φ₁ φ₂ φ₃ : Addr → Option Addr} (h1 : PhiLe φ₁ φ₂) (h2 : PhiLe φ₂ φ₃) : PhiLe φ₁ φ₃ :=
  fun a b h => h2 a b (h1 a b h)

mutual
  theorem ValRel.mono {φ φ' : Addr → Option Addr} (hle : PhiLe φ φ') :
      ∀ {v w : PVal}, ValRel φ v w → ValRel φ' v w
    | _, _, .static s => .static s
    | _, _, .array d => .array d
    | _, _, .none => .none
    | _, _, .ref h => .ref (hle _ _ h)
    | _, _, .seq h => .seq (ValsRel.mono hle h)
    | _, _, .dict h => .dict (KVsRel.mono hle h)
  theorem ValsRel.mono {φ φ' : Addr → Option Addr} (hle : PhiLe φ φ') :
      ∀ {xs ys : List PVal}, ValsRel φ xs ys → ValsRel φ' xs ys
    | _, _, .nil => .nil
    | _, _, .cons h t => .cons (ValRel.mono hle h) (ValsRel.mono hle t)
  theorem KVsRel.mono {φ φ' : Addr → Option Addr} (hle : PhiLe φ φ') :
      ∀ {xs ys : List (Key × PVal)}, KVsRel φ xs ys → KVsRel φ' xs ys
    | _, _, .nil => .nil
    | _, _, .cons h t => .cons (ValRel.mono hle h) (KVsRel.mono hle t)
end

theorem ObjRel.mono {φ φ' : Addr → Option Addr} (hle : PhiLe φ φ') {o o' : Obj} (h : ObjRel φ o o') :
    ObjRel φ' o o' := by
  cases h with
  | node hk => exact .node (KVsRel.mono hle hk)
  | var ty v md => exact .var ty v md

theorem KVsRel.keys {φ : Addr → Option Addr} : ∀ {xs ys : List (Key × PVal)}, KVsRel φ xs ys →
    xs.map (·.1) = ys.map (·.1)
  | _, _, .nil => rfl
  | _, _, .cons _ t => by simp [KVsRel.keys t]

theorem sorted_of_keys_eq {α β : Type} {xs : List (Key × α)} {ys : List (Key × β)}
    (hk : xs.map (·.1) = ys.map (·.1)) (hs : Sorted Key.lt xs) : Sorted Key.lt ys := by
  have h1 : (xs.map (·.1)).Pairwise (fun a b => Key.lt b a = false) := by
    rw [List.pairwise_map]; exact hs
  rw [hk, List.pairwise_map] at h1
  exact h1

/-- the children rebuilt for a sorted item list are already sorted -/
theorem KVsRel.sortKV_right {φ : Addr → Option Addr} {l : List (Key × PVal)} {vs : List (Key × PVal)}
    (h : KVsRel φ (sortKV l) vs) : sortKV vs = vs :=
  sortBy_of_sorted vs (sorted_of_keys_eq (KVsRel.keys h) (sortBy_sorted Key.strictTotal l))

theorem KVsRel.enum_vals {φ : Addr → Option Addr} : ∀ {n : Nat} {xs : List PVal} {cs : List (Key × PVal)},
    KVsRel φ (enumFrom n xs) cs → ValsRel φ xs (cs.map (·.2))
  | _, [], _, h => by
    simp only [enumFrom] at h
    cases h
    exact .nil
  | n, x :: xs, cs, h => by
    simp only [enumFrom] at h
    cases h with
    | cons hv ht => exact .cons hv (KVsRel.enum_vals ht)

/-! ### invariants of the joint run -/

/-- the correspondence between the two index maps during a run: `ir` binds exactly the indices
`0 … idx.length-1`, injectively, to addresses that are new (`≥ n0`) and allocated in `H` -/
structure Good (n0 : Nat) (idx : RefIndex) (ir : IndexRef) (H : Heap) : Prop where
  nodup : idx.Nodup
  dom : ∀ i, (irLookup i ir).isSome = true ↔ i < idx.length
  rng : ∀ (i b : Nat), irLookup i ir = some b → n0 ≤ b ∧ b < H.length
  inj : ∀ (i j b : Nat), irLookup i ir = some b → irLookup j ir = some b → i = j

theorem Good.nil (n0 : Nat) (H : Heap) : Good n0 [] [] H :=
  ⟨List.nodup_nil, by simp [irLookup], by simp [irLookup], by simp [irLookup]⟩

theorem irLookup_cons (i j : Nat) (a : Addr) (ir : IndexRef) :
    irLookup i ((j, a) :: ir) = if j = i then some a else irLookup i ir := rfl

theorem Good.heap_mono {n0 idx ir H H'} (g : Good n0 idx ir H) (hl : H.length ≤ H'.length) : Good n0 idx ir H' :=
  ⟨g.nodup, g.dom, fun i b hb => ⟨(g.rng i b hb).1, Nat.lt_of_lt_of_le (g.rng i b hb).2 hl⟩, g.inj⟩

theorem Good.push {n0 idx ir H} (g : Good n0 idx ir H) {a : Addr} (ha : a ∉ idx) (hn : n0 ≤ H.length) (o : Obj) :
    Good n0 (idx ++ [a]) ((idx.length, H.length) :: ir) (H ++ [o]) := by
  refine ⟨?_, ?_, ?_, ?_⟩
  · exact List.nodup_append.mpr ⟨g.nodup, by simp, by intro x hx y hy; simp at hy; subst hy; exact fun e => ha (e ▸ hx)⟩
  · intro i
    simp only [irLookup_cons, List.length_append, List.length_singleton]
    by_cases e : idx.length = i
    · simp [e]
    · simp only [e, if_false, g.dom i]; omega
  · intro i b hb
    simp only [irLookup_cons] at hb
    simp only [List.length_append, List.length_singleton]
    split at hb
    · have : (H.length : Nat) = b := Option.some.inj hb
      omega
    · have := g.rng i b hb; omega
  · intro i j b hi hj
    simp only [irLookup_cons] at hi hj
    split at hi <;> split at hj
    · omega
    · have e1 : (H.length : Nat) = b := Option.some.inj hi
      have := g.rng j b hj; omega
    · have e1 : (H.length : Nat) = b := Option.some.inj hj
      have := g.rng i b hi; omega
    · exact g.inj i j b hi hj

theorem phi_lt {n0 idx ir H} (g : Good n0 idx ir H) {a b : Nat} (h : phi idx ir a = some b) : n0 ≤ b ∧ b < H.length := by
  unfold phi at h
  split at h
  · exact g.rng _ _ h
  · cases h

theorem phi_inj {n0 idx ir H} (g : Good n0 idx ir H) {a a' b : Addr} (h : phi idx ir a = some b)
    (h' : phi idx ir a' = some b) : a = a' := by
  unfold phi at h h'
  split at h
  · next i hi =>
    split at h'
    · next j hj =>
      have := g.inj i j b h h'
      subst this
      exact indexOf?_inj hi hj
    · cases h'
  · cases h

/-- every registered address is mapped -/
theorem phi_of_mem {n0 idx ir H} (g : Good n0 idx ir H) {a : Addr} (h : a ∈ idx) : ∃ b, phi idx ir a = some b := by
  obtain ⟨i, hi⟩ := indexOf?_of_mem h
  have hlt := indexOf?_lt hi
  have := (g.dom i).mpr hlt
  obtain ⟨b, hb⟩ := Option.isSome_iff_exists.mp this
  exact ⟨b, by simp [phi, hi, hb]⟩

/-- what one sub-run of flatten/unflatten adds -/
structure Post (h : Heap) (idx : RefIndex) (ir : IndexRef) (H : Heap)
    (idx' : RefIndex) (ir' : IndexRef) (H' : Heap) : Prop where
  ext : Extends H H'
  idxExt : ∃ new, idx' = idx ++ new
  old : ∀ i, i < idx.length → irLookup i ir' = irLookup i ir
  fresh : ∀ (i b : Nat), idx.length ≤ i → irLookup i ir' = some b → H.length ≤ b
  obj : ∀ a, a ∈ idx' → a ∉ idx → ∃ o o' b, h[a]? = some o ∧ phi idx' ir' a = some b ∧ H'[b]? = some o' ∧
          ObjRel (phi idx' ir') o o'

theorem Post.refl {n0 idx ir H} (h : Heap) (g : Good n0 idx ir H) : Post h idx ir H idx ir H :=
  ⟨Extends.refl H, ⟨[], by simp⟩, fun _ _ => rfl, fun i b hi hb => by
      have := (g.dom i).mp (by simp [hb]); omega, fun a h1 h2 => absurd h1 h2⟩

theorem Post.phiLe {h idx ir H idx' ir' H'} (p : Post h idx ir H idx' ir' H') : PhiLe (phi idx ir) (phi idx' ir') := by
  intro a b hab
  obtain ⟨new, rfl⟩ := p.idxExt
  unfold phi at hab ⊢
  split at hab
  · next i hi =>
    rw [indexOf?_append_left new hi]
    simp only
    rw [p.old i (indexOf?_lt hi)]; exact hab
  · cases hab

theorem Post.trans {n0 h idx ir H idx1 ir1 H1 idx2 ir2 H2} (g1 : Good n0 idx1 ir1 H1)
    (p1 : Post h idx ir H idx1 ir1 H1) (p2 : Post h idx1 ir1 H1 idx2 ir2 H2) : Post h idx ir H idx2 ir2 H2 := by
  obtain ⟨new1, e1⟩ := p1.idxExt
  obtain ⟨new2, e2⟩ := p2.idxExt
  have hl1 : idx.length ≤ idx1.length := by rw [e1]; simp
  refine ⟨p1.ext.trans p2.ext, ⟨new1 ++ new2, by rw [e2, e1]; simp⟩, ?_, ?_, ?_⟩
  · intro i hi
    rw [p2.old i (by omega), p1.old i hi]
  · intro i b hi hb
    by_cases hlt : i < idx1.length
    · rw [p2.old i hlt] at hb
      exact p1.fresh i b hi hb
    · have := p2.fresh i b (by omega) hb
      have := p1.ext.length_le
      omega
  · intro a ha2 hna
    by_cases ha1 : a ∈ idx1
    · obtain ⟨o, o', b, ho, hphi, hH, hrel⟩ := p1.obj a ha1 hna
      have hb := phi_lt g1 hphi
      refine ⟨o, o', b, ho, p2.phiLe a b hphi, ?_, ObjRel.mono p2.phiLe hrel⟩
      rw [p2.ext.get b hb.2]; exact hH
    · exact p2.obj a ha2 ha1

theorem phi_new {idx : RefIndex} {ir : IndexRef} {a : Addr} (ha : a ∉ idx) (b : Addr) :
    phi (idx ++ [a]) ((idx.length, b) :: ir) a = some b := by
  simp [phi, indexOf?_append_new ha, irLookup_cons]

/-- **simulation**: running `unflatten` on what `flatten` produced rebuilds, value by value, an image of
the flattened graph under the address map `phi`, consuming exactly the emitted leaves. -/
theorem sim (h : Heap) (n0 : Nat) : ∀ fuel : Nat,
    (∀ path v idx gd ls idx', flattenVal fuel h path v idx = .ok (gd, ls, idx') →
      ∀ H ir rest, Good n0 idx ir H → n0 ≤ H.length →
        ∃ v' H' ir', unflattenDef gd (ls.map (·.2) ++ rest) H ir = .ok (v', rest, H', ir') ∧
          Good n0 idx' ir' H' ∧ Post h idx ir H idx' ir' H' ∧ ValRel (phi idx' ir') v v') ∧
    (∀ path items idx gs ls idx', flattenItems fuel h path items idx = .ok (gs, ls, idx') →
      ∀ H ir rest, Good n0 idx ir H → n0 ≤ H.length →
        ∃ vs H' ir', unflattenAttrs gs (ls.map (·.2) ++ rest) H ir = .ok (vs, rest, H', ir') ∧
          Good n0 idx' ir' H' ∧ Post h idx ir H idx' ir' H' ∧ KVsRel (phi idx' ir') items vs) := by
  intro fuel
  induction fuel with
  | zero =>
    constructor
    · intro path v idx gd ls idx' hh; simp [flattenVal] at hh
    · intro path items idx gs ls idx' hh; simp [flattenItems] at hh
  | succ fuel ih =>
    constructor
    · intro path v idx gd ls idx' hh H ir rest g hn
      cases v with
      | static s =>
        simp [flattenVal] at hh; obtain ⟨rfl, rfl, rfl⟩ := hh
        exact ⟨.static s, H, ir, by simp [unflattenDef], g, Post.refl h g, .static s⟩
      | array d =>
        simp [flattenVal] at hh; obtain ⟨rfl, rfl, rfl⟩ := hh
        exact ⟨.array d, H, ir, by simp [unflattenDef], g, Post.refl h g, .array d⟩
      | none =>
        simp [flattenVal] at hh; obtain ⟨rfl, rfl, rfl⟩ := hh
        exact ⟨.none, H, ir, by simp [unflattenDef, unflattenAttrs], g, Post.refl h g, .none⟩
      | seq t xs =>
        simp only [flattenVal] at hh
        split at hh
        · cases hh
        · next as ls1 idx1 heq =>
          simp at hh; obtain ⟨rfl, rfl, rfl⟩ := hh
          obtain ⟨vs, H', ir', hu, g', p', hr⟩ := ih.2 path _ idx as ls1 idx1 heq H ir rest g hn
          exact ⟨.seq t (vs.map (·.2)), H', ir', by simp only [unflattenDef, hu], g', p', .seq (KVsRel.enum_vals hr)⟩
      | dict kvs =>
        simp only [flattenVal] at hh
        split at hh
        · cases hh
        · next as ls1 idx1 heq =>
          simp at hh; obtain ⟨rfl, rfl, rfl⟩ := hh
          obtain ⟨vs, H', ir', hu, g', p', hr⟩ := ih.2 path _ idx as ls1 idx1 heq H ir rest g hn
          refine ⟨.dict vs, H', ir', by simp only [unflattenDef, hu], g', p', .dict ?_⟩
          rw [KVsRel.sortKV_right hr]; exact hr
      | ref a =>
        simp only [flattenVal] at hh
        split at hh
        · next i hi =>
          simp at hh; obtain ⟨rfl, rfl, rfl⟩ := hh
          have hlt := indexOf?_lt hi
          obtain ⟨b, hb⟩ := Option.isSome_iff_exists.mp ((g.dom i).mpr hlt)
          exact ⟨.ref b, H, ir, by simp [unflattenDef, hb], g, Post.refl h g, .ref (by simp [phi, hi, hb])⟩
        · next hnone =>
          have ha : a ∉ idx := indexOf?_none.mp hnone
          split at hh
          · cases hh
          · next ty val md hget =>
            simp at hh; obtain ⟨rfl, rfl, rfl⟩ := hh
            have g' := g.push ha hn (Obj.var ty val md)
            refine ⟨.ref H.length, H ++ [Obj.var ty val md], (idx.length, H.length) :: ir,
              by simp [unflattenDef, makeVar], g', ?_, .ref (phi_new ha _)⟩
            refine ⟨⟨[Obj.var ty val md], rfl⟩, ⟨[a], rfl⟩, ?_, ?_, ?_⟩
            · intro i hi; simp only [irLookup_cons]; rw [if_neg (by omega)]
            · intro i b hi hb
              simp only [irLookup_cons] at hb
              split at hb
              · have : (H.length : Nat) = b := Option.some.inj hb
                omega
              · have := (g.dom i).mp (by simp [hb]); omega
            · intro a' ha' hna'
              have : a' = a := by
                rcases List.mem_append.mp ha' with h1 | h1
                · exact absurd h1 hna'
                · simpa using h1
              subst this
              exact ⟨_, _, H.length, hget, phi_new ha _, by simp, .var ty val md⟩
          · next cls attrs hget =>
            split at hh
            · cases hh
            · next as ls1 idx1 heq =>
              simp at hh; obtain ⟨rfl, rfl, rfl⟩ := hh
              have g1 := g.push ha hn (Obj.node cls [])
              obtain ⟨vs, H', ir', hu, g', p', hr⟩ := ih.2 path _ _ as ls1 idx1 heq (H ++ [Obj.node cls []])
                ((idx.length, H.length) :: ir) rest g1 (by simp; omega)
              have hlen : H.length < H'.length := by have := p'.ext.length_le; simp at this; omega
              have hnone' : irLookup idx.length ir = Option.none := by
                cases e : irLookup idx.length ir with
                | none => rfl
                | some b => have := (g.dom idx.length).mp (by simp [e]); omega
              -- the address map sends `a` to the node created first
              have hphia : phi idx1 ir' a = some H.length := p'.phiLe a _ (phi_new ha _)
              refine ⟨.ref H.length, write H' H.length (Obj.node cls vs), ir', ?_, ?_, ?_, .ref hphia⟩
              · simp [unflattenDef, hnone', hu]
              · exact g'.heap_mono (by simp [write_length])
              · obtain ⟨new, enew⟩ := p'.idxExt
                refine ⟨?_, ⟨a :: new, by rw [enew]; simp⟩, ?_, ?_, ?_⟩
                · exact ((Extends.alloc H _).trans p'.ext).write _ _ (Nat.le_refl _)
                · intro i hi
                  rw [p'.old i (by simp; omega)]
                  simp only [irLookup_cons]; rw [if_neg (by omega)]
                · intro i b hi hb
                  by_cases hlt : i < (idx ++ [a]).length
                  · rw [p'.old i hlt] at hb
                    simp only [irLookup_cons] at hb
                    split at hb
                    · have : (H.length : Nat) = b := Option.some.inj hb
                      omega
                    · have := (g.dom i).mp (by simp [hb]); omega
                  · have := p'.fresh i b (by omega) hb
                    simp at this; omega
                · intro a' ha' hna'
                  by_cases e : a' = a
                  · subst e
                    refine ⟨_, _, H.length, hget, hphia, write_get _ _ _ hlen, .node ?_⟩
                    rw [KVsRel.sortKV_right hr]; exact hr
                  · have hnin : a' ∉ idx ++ [a] := by simp [hna', e]
                    obtain ⟨o, o', b, ho, hphi, hH, hrel⟩ := p'.obj a' ha' hnin
                    refine ⟨o, o', b, ho, hphi, ?_, hrel⟩
                    have hne : b ≠ H.length := fun eb => e (phi_inj g' (eb ▸ hphi) hphia)
                    rw [write_frame _ _ _ _ hne]; exact hH
    · intro path items idx gs ls idx' hh H ir rest g hn
      cases items with
      | nil =>
        simp [flattenItems] at hh; obtain ⟨rfl, rfl, rfl⟩ := hh
        exact ⟨[], H, ir, by simp [unflattenAttrs], g, Post.refl h g, .nil⟩
      | cons kv rest' =>
        obtain ⟨k, v⟩ := kv
        simp only [flattenItems] at hh
        split at hh
        · cases hh
        · next g1 ls1 idx1 heq1 =>
          split at hh
          · cases hh
          · next gs2 ls2 idx2 heq2 =>
            simp at hh; obtain ⟨rfl, rfl, rfl⟩ := hh
            obtain ⟨v', H1, ir1, hu1, gd1, p1, hr1⟩ :=
              ih.1 _ v idx g1 ls1 idx1 heq1 H ir (ls2.map (·.2) ++ rest) g hn
            have hn1 : n0 ≤ H1.length := Nat.le_trans hn p1.ext.length_le
            obtain ⟨vs, H2, ir2, hu2, gd2, p2, hr2⟩ :=
              ih.2 path rest' idx1 gs2 ls2 idx2 heq2 H1 ir1 rest gd1 hn1
            refine ⟨(k, v') :: vs, H2, ir2, ?_, gd2, Post.trans gd1 p1 p2, .cons (ValRel.mono p2.phiLe hr1) hr2⟩
            simp only [unflattenAttrs, List.map_append, List.append_assoc, hu1, hu2]

end Flax.Graph
