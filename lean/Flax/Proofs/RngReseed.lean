/-
C09, NNX: `reseed` resets every stream object whose name is requested, whatever the number of objects carrying that name.
-/
import Flax.Proofs.Rng

namespace Flax.Rng

/-- what `reseed` does to one stream object -/
def reseedOne (newKeys : List (String × SymKey)) (s : Stream) : Stream :=
  match find? s.tag newKeys with
  | some k => { s with key := .scalar k, count := .scalar 0 }
  | none => s

/-- a requested stream that is split (`reseed` raises on it) -/
def NamedSplit (newKeys : List (String × SymKey)) (s : Stream) : Prop :=
  (find? s.tag newKeys).isSome ∧ ∃ k shape, s.key = .batched k shape

theorem reseedLoop_ok {ι : Type} (newKeys : List (String × SymKey)) : ∀ (objs : List (ι × Stream)),
    (∀ p ∈ objs, ¬ NamedSplit newKeys p.2) →
    reseedLoop newKeys objs = .ok (objs.map (fun p => (p.1, reseedOne newKeys p.2))) := by
  intro objs
  induction objs with
  | nil => intro _; rfl
  | cons a rest ih =>
    intro h
    obtain ⟨n, s⟩ := a
    have ih' := ih (fun p hp => h p (List.mem_cons_of_mem _ hp))
    have hs := h (n, s) (by simp)
    simp only [reseedLoop, List.map_cons]
    cases hf : find? s.tag newKeys with
    | none =>
      simp only [ih', bind, Except.bind]
      simp only [reseedOne, hf]
    | some k =>
      cases hk : s.key with
      | scalar k0 =>
        simp only [ih', bind, Except.bind]
        simp only [reseedOne, hf]
      | batched k0 shape => exact absurd ⟨by simp [hf], k0, shape, hk⟩ hs

theorem reseedLoop_error {ι : Type} (newKeys : List (String × SymKey)) : ∀ (objs : List (ι × Stream)),
    (∃ p ∈ objs, NamedSplit newKeys p.2) → reseedLoop newKeys objs = .error .nonScalarReseed := by
  intro objs
  induction objs with
  | nil => rintro ⟨p, hp, _⟩; simp at hp
  | cons a rest ih =>
    rintro ⟨p, hp, hns⟩
    obtain ⟨n, s⟩ := a
    simp only [reseedLoop]
    by_cases hhead : NamedSplit newKeys s
    · obtain ⟨h1, k0, shape, hk⟩ := hhead
      obtain ⟨k, hf⟩ := Option.isSome_iff_exists.mp h1
      simp only [hf, hk]
    · have hrest : ∃ p ∈ rest, NamedSplit newKeys p.2 := by
        rcases List.mem_cons.mp hp with rfl | hp'
        · exact absurd hns hhead
        · exact ⟨p, hp', hns⟩
      have := ih hrest
      cases hf : find? s.tag newKeys with
      | none => simp only [this, bind, Except.bind]
      | some k =>
        cases hk : s.key with
        | scalar k0 => simp only [this, bind, Except.bind]
        | batched k0 shape => rfl

end Flax.Rng
