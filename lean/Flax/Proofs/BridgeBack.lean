/-
Helper lemmas for C18: `nnx_attrs_to_linen_vars` leaf by leaf, and the two round trips.
-/
import Flax.Proofs.BridgeTrans

namespace Flax.Bridge
variable {α β γ : Type}

/-- what `linenEntry` relates when the Variable's type is registered -/
def EntryConv (r : Reg) (pv : Path × NVar α) (e : Path × LBox α) : Prop :=
  ∃ n x, r.nameOf pv.2.vtype = some n ∧ toLinenVar pv.2 = .ok x ∧ e = (n :: pv.1, x)

/-- with every type registered, `variable_name_from_type` never touches the registry, whatever
`allow_register` says -/
theorem linenEntries_spec (allow : Bool) (r : Reg) : ∀ (flat : List (Path × NVar α)),
    (∀ pv ∈ flat, ∃ n x, r.nameOf pv.2.vtype = some n ∧ toLinenVar pv.2 = .ok x) →
    ∃ es, linenEntries allow r flat = .ok (r, es) ∧ Rel₂ (EntryConv r) flat es := by
  intro flat
  induction flat with
  | nil => intro _; exact ⟨[], rfl, Rel₂.nil⟩
  | cons pv rest ih =>
    intro h
    obtain ⟨n, x, hn, hx⟩ := h pv (by simp)
    obtain ⟨es, hes, hrel⟩ := ih (fun pv' h' => h pv' (by simp [h']))
    refine ⟨(n :: pv.1, x) :: es, ?_, Rel₂.cons ⟨n, x, hn, hx, rfl⟩ hrel⟩
    simp [linenEntries, linenEntry, Reg.nameFromType, hn, hx, hes, bind, Except.bind, pure, Except.pure]

theorem rel₂_entry_tail {r : Reg} {l : List (Path × NVar α)} {l' : List (Path × LBox α)}
    (h : Rel₂ (EntryConv r) l l') : (paths l').map List.tail = paths l := by
  induction h with
  | nil => rfl
  | cons hab _ ih =>
    obtain ⟨n, x, _, _, rfl⟩ := hab
    simp only [paths, List.map_cons, List.map_map, List.tail_cons, List.cons.injEq, true_and] at ih ⊢
    exact ih

theorem nodup_of_map {σ τ : Type} (f : σ → τ) : ∀ (l : List σ), (l.map f).Nodup → l.Nodup := by
  intro l
  induction l with
  | nil => intro _; exact List.nodup_nil
  | cons a r ih =>
    intro h
    simp only [List.map_cons, List.nodup_cons] at h ⊢
    exact ⟨fun hm => h.1 (List.mem_map.mpr ⟨a, hm, rfl⟩), ih h.2⟩

/-- `nnx_attrs_to_linen_vars`: succeeds when every Variable's type is registered and every Variable
converts; the result holds, below collection `c`, exactly the Variables whose type is named `c` -/
theorem nnxAttrsToLinenVars_spec (r : Reg) (A : Forest (NVar α)) (hw : WFF A)
    (hleaves : ∀ q v, leafAtF A q = some v → ∃ n x, r.nameOf v.vtype = some n ∧ toLinenVar v = .ok x) :
    ∃ V, nnxAttrsToLinenVars r A = .ok V ∧ WFF V ∧ NoEmptyF V ∧
      ∀ p x, leafAtF V p = some x ↔
        ∃ c q v, p = c :: q ∧ leafAtF A q = some v ∧ r.nameOf v.vtype = some c ∧ toLinenVar v = .ok x := by
  obtain ⟨es, hes, hrel⟩ := linenEntries_spec false r (flattenF A) (by
    intro pv hpv
    exact hleaves pv.1 pv.2 (flattenF_sound A pv.1 pv.2 hpv hw))
  have hnodup : (paths es).Nodup :=
    nodup_of_map List.tail _ (by rw [rel₂_entry_tail hrel]; exact flattenF_nodup A hw)
  have hdict := mergeFlat_spec es [] (by simp [paths]) hnodup
  have hmemD : ∀ p x, (p, x) ∈ dictOfEntries es ↔ (p, x) ∈ es := by
    intro p x; rw [dictOfEntries, hdict.2 p x]; simp
  have hmemE : ∀ p x, (p, x) ∈ es ↔
      ∃ c q v, p = c :: q ∧ leafAtF A q = some v ∧ r.nameOf v.vtype = some c ∧ toLinenVar v = .ok x := by
    intro p x
    constructor
    · intro h
      obtain ⟨pv, hpv, n, x', hn, hx, he⟩ := forall₂_mem_right hrel (p, x) h
      simp only [Prod.mk.injEq] at he
      obtain ⟨rfl, rfl⟩ := he
      exact ⟨n, pv.1, pv.2, rfl, flattenF_sound A pv.1 pv.2 hpv hw, hn, hx⟩
    · rintro ⟨c, q, v, rfl, hl, hn, hx⟩
      obtain ⟨e, he, n, x', hn', hx', rfl⟩ := forall₂_mem_left hrel (q, v) (flattenF_complete A q v hl)
      simp only at hn' hx'
      rw [hn] at hn'; cases hn'
      rw [hx] at hx'; cases hx'
      exact he
  obtain ⟨V, hV, hVleaf, hVw, hVn⟩ := unflatten_spec (dictOfEntries es)
    (by
      intro pb hpb
      obtain ⟨c, q, v, hp, _⟩ := (hmemE pb.1 pb.2).mp ((hmemD pb.1 pb.2).mp hpb)
      rw [hp]; simp)
    (by
      intro pb hpb pb' hpb' hp
      obtain ⟨c, q, v, hp1, hl1, _⟩ := (hmemE pb.1 pb.2).mp ((hmemD pb.1 pb.2).mp hpb)
      obtain ⟨c', q', v', hp2, hl2, _⟩ := (hmemE pb'.1 pb'.2).mp ((hmemD pb'.1 pb'.2).mp hpb')
      rw [hp1, hp2, List.cons_prefix_cons] at hp
      rw [hp1, hp2, hp.1, leafAtF_prefix_eq A q q' (by simp [hl1]) (by simp [hl2]) hp.2])
    (functional_of_nodup _ hdict.1)
  refine ⟨V, ?_, hVw, hVn, ?_⟩
  · simp only [nnxAttrsToLinenVars, hes, bind, Except.bind]; exact hV
  · intro p x
    rw [hVleaf p x, hmemD, hmemE]

/-! ## round trips -/

/-- a registry in which `c`'s type is `t` names `t` as `c` (one-to-one registry) -/
theorem Reg.nameOf_of_typeOf (r : Reg) (hi : r.Inj) (c : String) (t : VType) (h : r.typeOf c = some t) :
    r.nameOf t = some c := (r.bijection_of_inj hi).1 c t h

theorem Reg.typeOf_of_nameOf (r : Reg) (hi : r.Inj) (c : String) (t : VType) (h : r.nameOf t = some c) :
    r.typeOf c = some t := (r.bijection_of_inj hi).2 t c h

/-- **variables → attributes → variables** -/
theorem vars_attrs_vars (r : Reg) (hi : r.Inj) (hb : r.Bounded) (V : Forest (LBox α)) (hV : VarsOk r V) :
    ∃ r' A V', linenVarsToNnxAttrs r V = .ok (r', A) ∧ nnxAttrsToLinenVars r' A = .ok V' ∧
      r'.Inj ∧ r'.Bounded ∧ (∀ e ∈ r.cache, e ∈ r'.cache) ∧ WFF A ∧ WFF V' ∧ NoEmptyF V' ∧ Equiv V' V ∧
      (∀ q v, leafAtF A q = some v →
        ∃ c x, leafAtF V (c :: q) = some x ∧ r'.typeOf c = some v.vtype ∧ v.value = x.value ∧
          (∀ n, x.names? = some n → Meta.get? v.md "sharding" = some n) ∧ v.Canon) := by
  obtain ⟨r', A, hfwd, hi', hb', hsub, _, hwA, _, hreg, hleafA⟩ := linenVarsToNnxAttrs_spec r hi hb V hV
  -- every leaf of A is the conversion of a leaf of V, and converts back to it
  have hback : ∀ q v, leafAtF A q = some v →
      ∃ c x, leafAtF V (c :: q) = some x ∧ r'.typeOf c = some v.vtype ∧ v.value = x.value ∧
        toLinenVar v = .ok x ∧ (∀ n, x.names? = some n → Meta.get? v.md "sharding" = some n) ∧ v.Canon := by
    intro q v hl
    obtain ⟨c, x, t, hx, hty, hconv⟩ := (hleafA q v).mp hl
    obtain ⟨tr, hm, hxl⟩ := (leafAtF_col V hV.wf c q x).mp hx
    have hok : x.Ok t := LBox.ok_of_okIn r r' hi hi' hsub c x
      (hV.boxes (c, tr) hm (q, x) (Tree.flatten_complete tr q x hxl)) t hty
    obtain ⟨v', hv', h1, h2, h3, h4⟩ := box_roundtrip_aux t x hok
    rw [hconv] at hv'; cases hv'
    exact ⟨c, x, hx, by rw [h1]; exact hty, h2, h3, h4, canon_of_ok t x _ hok hconv⟩
  obtain ⟨V', hV', hwV', hnV', hleafV'⟩ := nnxAttrsToLinenVars_spec r' A hwA (by
    intro q v hl
    obtain ⟨c, x, _, hty, _, hx, _⟩ := hback q v hl
    exact ⟨c, x, Reg.nameOf_of_typeOf r' hi' c _ hty, hx⟩)
  refine ⟨r', A, V', hfwd, hV', hi', hb', hsub, hwA, hwV', hnV', ?_, ?_⟩
  · intro p
    -- both sides have a leaf at `p` only for `p = c :: q`
    cases hp : leafAtF V p with
    | some x =>
      rw [hleafV' p x]
      cases p with
      | nil => simp at hp
      | cons c q =>
        obtain ⟨tr, hm, hxl⟩ := (leafAtF_col V hV.wf c q x).mp hp
        have hex : ∃ v, leafAtF A q = some v ∧ r'.nameOf v.vtype = some c ∧ toLinenVar v = .ok x := by
          have hty : ∃ t, r'.typeOf c = some t := hreg c q x hp
          obtain ⟨t, hty⟩ := hty
          have hok : x.Ok t := LBox.ok_of_okIn r r' hi hi' hsub c x
            (hV.boxes (c, tr) hm (q, x) (Tree.flatten_complete tr q x hxl)) t hty
          obtain ⟨v, hv, h1, _, h3, _⟩ := box_roundtrip_aux t x hok
          exact ⟨v, (hleafA q v).mpr ⟨c, x, t, hp, hty, hv⟩,
            by rw [h1]; exact Reg.nameOf_of_typeOf r' hi' c t hty, h3⟩
        obtain ⟨v, h1, h2, h3⟩ := hex
        exact ⟨c, q, v, rfl, h1, h2, h3⟩
    | none =>
      cases hp' : leafAtF V' p with
      | none => rfl
      | some x =>
        obtain ⟨c, q, v, rfl, hl, hn, hx⟩ := (hleafV' p x).mp hp'
        obtain ⟨c0, x0, hx0, hty0, _, hback0, _⟩ := hback q v hl
        have : c0 = c := by
          have := Reg.nameOf_of_typeOf r' hi' c0 _ hty0
          rw [hn] at this; exact (Option.some.inj this).symm
        subst this
        rw [hback0] at hx; cases hx
        rw [hx0] at hp; cases hp
  · intro q v hl
    obtain ⟨c, x, h1, h2, h3, _, h5, h6⟩ := hback q v hl
    exact ⟨c, x, h1, h2, h3, h5, h6⟩

end Flax.Bridge
